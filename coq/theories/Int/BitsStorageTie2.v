(** C09 (round 4): the tie between the word-level kernels of Int/BitsKernels.v and C17's storage machine
    (Int/StorageModel.v), continued: `>>` (by value: erase_front + shift in place, or zero and the buffer
    dropped; by reference: the 0 / 1 / 2 / many remaining words), clear_bit (inline, inside the buffer, beyond
    it) and the `|` / `^` kernels (double word into a buffer, bitor_large / bitxor_large with the tail of the
    longer right operand pushed after ensure_capacity, all four ownership arms with their length test).
    Whenever the machine - every capacity assertion of Buffer a guard, proved never to fire by C17_shr /
    C17_clear_bit / C17_bitor_bitxor - returns a Repr, its typed view is WORD FOR WORD the Repr the C09 kernel
    computes. *)
From Dashu Require Import Base.Prelude Base.Words Int.BitsSpec Int.BitsWords Int.BitsKernels Int.BitsKernelsBase
  Int.BitsLogicProofs Int.BitsShiftProofs Int.BitsMiscProofs Int.BitsCountProofs Int.BitsForms Int.BitsFormsProofs
  Int.BitsStorageTie.
Open Scope Z_scope.

Section Tie2.
Variable w : Z.
Variable M : Z.
Hypothesis w_pos : 0 < w.
Notation B := (B w).
Notation value := (value w).
Notation wf := (wf w).
Notation bor := (brepr_of_repr w).

Ltac minv :=
  repeat match goal with
  | H : SM.bind _ _ _ = Ok _ |- _ => apply bind_ok in H; destruct H as (? & ? & ? & H)
  | H : SM.ret _ _ = Ok _ |- _ => unfold SM.ret in H; inversion H; subst; clear H
  | H : SM.guard _ _ _ = Ok _ |- _ => apply guard_ok in H
  | H : SM.throw _ _ = Ok _ |- _ => discriminate H
  | H : SM.bad _ _ = Ok _ |- _ => discriminate H
  end.

Lemma erase_front_bws b n m b' m' : SM.erase_front b n m = Ok (b', m') -> SM.bws b' = skipn (Z.to_nat n) (SM.bws b).
Proof. unfold SM.erase_front. intros H. minv. reflexivity. Qed.
Lemma buffer_from_bws ws m b m' : SM.buffer_from M ws m = Ok (b, m') -> SM.bws b = ws.
Proof.
  unfold SM.buffer_from. intros H. minv.
  match goal with A : SM.allocate _ _ _ = _ |- _ => apply allocate_bws in A; rename A into A0 end.
  apply push_slice_bws in H. rewrite H, A0. reflexivity.
Qed.

Lemma zero_canon : bor SM.zero = to_brepr w 0.
Proof.
  apply (canonical_of w w_pos). cbn [brepr_of_repr SM.zero bvalue brepr_ok]. pose proof (B_pos w w_pos).
  replace (0 + B * 0) with 0 by ring. split; [reflexivity|]. split; [lia | apply Z.mul_pos_pos; lia].
Qed.

Lemma div_pow_bound v s K : 0 <= v < K -> 0 <= s -> 0 <= v / 2 ^ s < K.
Proof.
  intros Hv Hs. assert (P : 0 < 2 ^ s) by (apply Z.pow_pos_nonneg; lia).
  split; [apply Z.div_pos; lia|]. apply Z.le_lt_trans with v; [|lia]. apply Z.div_le_upper_bound; [lia|].
  assert (1 * v <= 2 ^ s * v) by (apply Z.mul_le_mono_nonneg_r; lia). lia.
Qed.

Lemma shiftr_small v n : 0 <= n -> 0 <= v < 2 ^ n -> Z.shiftr v n = 0.
Proof. intros Hn Hv. rewrite Z.shiftr_div_pow2 by lia. apply Z.div_small. exact Hv. Qed.

Lemma word_one x : x + B * 0 = x. Proof. ring. Qed.

(* ------------------------------------------------------------------ >> *)

Lemma shr_large_tie b n m r m' : 0 <= n -> wf (SM.bws b) -> SM.shr_large w M b n m = Ok (r, m') ->
  bor r = to_brepr w (Z.shiftr (value (SM.bws b)) n).
Proof.
  intros Hn W H. unfold SM.shr_large in H. cbv zeta in H.
  destruct (Z.leb_spec (len (SM.bws b)) (n / w)) as [C|C].
  - minv. rewrite (shr_beyond w w_pos _ n Hn W C). apply zero_canon.
  - minv.
    match goal with A : SM.erase_front _ _ _ = _ |- _ => apply erase_front_bws in A; rename A into A0 end.
    unfold SM.val in H. rewrite A0 in H.
    set (ws' := skipn (Z.to_nat (n / w)) (SM.bws b)) in *.
    assert (W' : wf ws') by (apply wf_skipn; exact W).
    pose proof (value_bounds w w_pos ws' W') as Hb. pose proof (Z.mod_pos_bound n w w_pos) as Hm.
    destruct (tow_ok w w_pos (len ws') (value ws' / 2 ^ (n mod w))) as [TW TV];
      [unfold len; lia | apply div_pow_bound; lia |].
    eapply (from_buffer_canon w M w_pos); [exact H | exact TW |]. cbn [SM.setws SM.bws]. rewrite TV.
    apply (shr_words_bits w w_pos); assumption.
Qed.

Lemma skipn_nil_len (ws : list Z) k : skipn k ws = [] -> (length ws <= k)%nat.
Proof. intros E. apply (f_equal (@length Z)) in E. rewrite skipn_length in E. cbn [length] in E. lia. Qed.
Lemma skipn_cons_len (ws : list Z) k x t : skipn k ws = x :: t -> (k < length ws)%nat.
Proof. intros E. apply (f_equal (@length Z)) in E. rewrite skipn_length in E. cbn [length] in E. lia. Qed.

Lemma shr_large_ref_tie ws n m r m' : 0 <= n -> wf ws -> SM.shr_large_ref w M ws n m = Ok (r, m') ->
  bor r = to_brepr w (Z.shiftr (value ws) n).
Proof.
  intros Hn W H. unfold SM.shr_large_ref in H. cbv zeta in H.
  pose proof (Z.div_pos n w Hn w_pos) as Q. pose proof (Z.mod_pos_bound n w w_pos) as Hm.
  pose proof (B_pos w w_pos) as HB.
  destruct (skipn (Z.to_nat (Z.min (n / w) (len ws))) ws) as [|x t] eqn:E.
  - minv. apply skipn_nil_len in E. rewrite (shr_beyond w w_pos ws n Hn W); [apply zero_canon | unfold len in *; lia].
  - pose proof (skipn_cons_len _ _ _ _ E) as L.
    assert (Lt : n / w < len ws) by (unfold len in *; lia).
    rewrite Z.min_l in E by lia.
    pose proof (shr_words_bits w w_pos ws n Hn W Lt) as T. rewrite E in T.
    assert (W' : wf (x :: t)) by (rewrite <- E; apply wf_skipn; exact W).
    pose proof (value_bounds w w_pos _ W') as Hb.
    destruct t as [|y [|z t]].
    + minv. cbn [Words.value] in T, Hb. rewrite word_one in T. rewrite <- T.
      apply (canonical_of w w_pos). cbn [brepr_of_repr SM.from_word bvalue brepr_ok]. rewrite word_one.
      split; [reflexivity|]. unfold len in Hb. cbn [length] in Hb. change (Z.of_nat 1) with 1 in Hb. rewrite Z.pow_1_r, word_one in Hb.
      pose proof (div_pow_bound x (n mod w) B Hb ltac:(lia)). nia.
    + minv. cbn [Words.value] in T, Hb. rewrite word_one in T. change (SM.Bw w) with B. rewrite <- T.
      apply (from_dword_canon w w_pos). unfold len in Hb. cbn [length] in Hb. change (Z.of_nat 2) with 2 in Hb.
      rewrite word_one in Hb. replace (B ^ 2) with (B * B) in Hb by ring. apply div_pow_bound; lia.
    + minv.
      match goal with A : SM.allocate _ _ _ = _ |- _ => apply allocate_bws in A; rename A into A0 end.
      match goal with A : SM.push_slice _ _ _ = _ |- _ => apply push_slice_bws in A; rename A into A1 end.
      unfold SM.val in H.
      destruct (tow_ok w w_pos (len (x :: y :: z :: t)) (value (x :: y :: z :: t) / 2 ^ (n mod w))) as [TW TV];
        [unfold len; lia | apply div_pow_bound; lia |].
      eapply (from_buffer_canon w M w_pos); [exact H | exact TW |]. cbn [SM.setws SM.bws]. rewrite TV. exact T.
Qed.

Lemma shr_small_tie d n m r m' : 0 <= n -> 0 <= d < B * B ->
  (if n <? 2 * w then SM.ret (SM.from_dword w (d / 2 ^ n)) else SM.ret SM.zero) m = Ok (r, m') ->
  bor r = to_brepr w (Z.shiftr d n).
Proof.
  intros Hn Hd H. destruct (Z.ltb_spec n (2 * w)) as [C|C]; minv.
  - rewrite Z.shiftr_div_pow2 by lia. apply (from_dword_canon w w_pos). apply div_pow_bound; lia.
  - rewrite shiftr_small; [apply zero_canon | lia |]. rewrite (BB_pow w w_pos) in Hd. split; [lia|].
    apply Z.lt_le_trans with (2 ^ (2 * w)); [lia | apply Z.pow_le_mono_r; lia].
Qed.

(** >> on a magnitude, every form (by value: erase_front + shift in the same buffer, or zero with the buffer
    dropped; by reference: nothing / one word / a double word / a fresh buffer): the Repr of the
    capacity-checked machine is the Repr of the word-level kernel *)
Theorem shr_machine_is_kernel a n m r m' : 0 <= n -> brepr_ok w (brepr_of_targ a) ->
  SM.shr_mag w M a n m = Ok (r, m') ->
  bor r = ubig_shr_form w (targ_is_ref a) (brepr_of_targ a) n.
Proof.
  intros Hn Ha H. rewrite (ubig_shr_form_canonical w w_pos _ _ n Hn Ha).
  destruct a as [d|b|d|ws]; cbn [SM.shr_mag brepr_of_targ bvalue brepr_ok] in *.
  - eapply shr_small_tie; eassumption.
  - eapply shr_large_tie; [exact Hn | apply Ha | exact H].
  - eapply shr_small_tie; eassumption.
  - eapply shr_large_ref_tie; [exact Hn | apply Ha | exact H].
Qed.

(* ------------------------------------------------------------------ clear_bit *)

Lemma ldiff_lt_pow2 k a b : 0 < k -> 0 <= a < 2 ^ k -> 0 <= b < 2 ^ k -> 0 <= Z.ldiff a b < 2 ^ k.
Proof.
  intros Hk Ha Hb.
  exact (op_word k Hk Z.ldiff (fun x y => x && negb y) ldiff_spec' eq_refl (ldiff_nonneg) a b Ha Hb).
Qed.

Lemma clear_value_bound v n k : 0 < k -> 0 <= n -> 0 <= v < 2 ^ k -> 0 <= Z.ldiff v (2 ^ n) < 2 ^ k.
Proof.
  intros Hk Hn Hv. destruct (Z.lt_ge_cases n k) as [C|C].
  - apply ldiff_lt_pow2; [lia | lia |]. split; [apply Z.pow_nonneg; lia | apply Z.pow_lt_mono_r; lia].
  - rewrite (ldiff_above); [lia | lia |]. split; [lia|]. apply Z.lt_le_trans with (2 ^ k); [lia | apply Z.pow_le_mono_r; lia].
Qed.

(** clear_bit, every path (inline below / beyond the double word, heap inside / beyond the buffer) *)
Theorem clear_bit_machine_is_kernel a n m r m' : 0 <= n -> brepr_ok w (brepr_of_targ a) ->
  SM.clear_bit w M a n m = Ok (r, m') -> bor r = repr_clear_bit w (brepr_of_targ a) n.
Proof.
  intros Hn Ha H. rewrite (proj1 (proj2 (repr_set_clear_bit_canonical w w_pos _ n Hn Ha))). unfold clear_bit_spec.
  pose proof (B_pos w w_pos) as HB.
  assert (small : forall d, 0 <= d < B * B ->
     (if n <? 2 * w then SM.ret (SM.from_dword w (Z.ldiff d (2 ^ n))) else SM.ret (SM.from_dword w d)) m = Ok (r, m') ->
     bor r = to_brepr w (Z.ldiff d (2 ^ n))).
  { intros d Hd H1. destruct (Z.ltb_spec n (2 * w)) as [C|C]; minv.
    - apply (from_dword_canon w w_pos). rewrite (BB_pow w w_pos) in *. apply clear_value_bound; lia.
    - rewrite ldiff_above; [apply (from_dword_canon w w_pos); exact Hd | lia |].
      rewrite (BB_pow w w_pos) in Hd. split; [lia|]. apply Z.lt_le_trans with (2 ^ (2 * w)); [lia | apply Z.pow_le_mono_r; lia]. }
  destruct a as [d|b|d|ws]; cbn [SM.clear_bit brepr_of_targ bvalue brepr_ok] in *.
  - apply small; assumption.
  - destruct Ha as (W & L3 & T). unfold SM.val in H.
    pose proof (value_bounds w w_pos _ W) as Hb.
    assert (Hl : 0 < w * len (SM.bws b)) by (apply Z.mul_pos_pos; unfold len; lia).
    destruct (tow_ok w w_pos (len (SM.bws b)) (Z.ldiff (value (SM.bws b)) (2 ^ n))) as [TW TV];
      [unfold len; lia | rewrite (Bpow_pow w w_pos) in * by (unfold len; lia); apply clear_value_bound; lia |].
    eapply (from_buffer_canon w M w_pos); [exact H | exact TW |]. cbn [SM.setws SM.bws]. exact TV.
  - apply small; assumption.
  - discriminate H.
Qed.

(* ------------------------------------------------------------------ | and ^ *)

Lemma zop_lt_pow2 f k a b : 0 < k -> 0 <= a < 2 ^ k -> 0 <= b < 2 ^ k -> 0 <= zop f a b < 2 ^ k.
Proof.
  intros Hk Ha Hb. destruct f; cbn [zop].
  - exact (op_word k Hk Z.land andb land_spec' eq_refl land_nn a b Ha Hb).
  - exact (op_word k Hk Z.lor orb lor_spec' eq_refl lor_nn a b Ha Hb).
  - exact (op_word k Hk Z.lxor xorb lxor_spec' eq_refl lxor_nn a b Ha Hb).
Qed.

Lemma pow2_le_mono a b : 0 <= a <= b -> 2 ^ a <= 2 ^ b.
Proof. intros H. apply Z.pow_le_mono_r; lia. Qed.

(** bitor_large / bitxor_large: the kept buffer, the tail of a longer right operand pushed behind it *)
Lemma bitop_large_tie f b rhs m r m' : wf (SM.bws b) -> wf rhs ->
  SM.bitop_large w M (zop f) b rhs m = Ok (r, m') -> bor r = to_brepr w (zop f (value (SM.bws b)) (value rhs)).
Proof.
  intros W R H. unfold SM.bitop_large in H. cbv zeta in H. unfold SM.val in H. minv.
  pose proof (value_bounds w w_pos _ W) as Hb. pose proof (value_bounds w w_pos _ R) as Hr.
  rename x into b1.
  assert (L : len (SM.bws b1) = Z.max (len (SM.bws b)) (len rhs)).
  { match goal with A : _ = Ok (b1, _) |- _ => revert A end.
    destruct (Z.gtb_spec (len rhs) (len (SM.bws b))) as [C|C]; intros A; minv.
    - match goal with A : SM.ensure_capacity _ _ _ _ = _ |- _ => apply ensure_capacity_bws in A; rename A into A0 end.
      apply push_slice_bws in A. rewrite A, A0. unfold len in *. rewrite app_length, skipn_length. lia.
    - lia. }
  set (k := Z.max (len (SM.bws b)) (len rhs)) in *.
  assert (K0 : 0 <= k) by (unfold k, len; lia).
  destruct (tow_ok w w_pos k (zop f (value (SM.bws b)) (value rhs))) as [TW TV]; [exact K0 | |].
  { destruct (Z.eq_dec k 0) as [E|E].
    - assert (len (SM.bws b) = 0 /\ len rhs = 0) as [E1 E2] by (unfold k, len in *; lia).
      rewrite E1, E2 in *. rewrite E. rewrite Z.pow_0_r in *.
      replace (value (SM.bws b)) with 0 by lia. replace (value rhs) with 0 by lia. destruct f; cbn; lia.
    - rewrite (Bpow_pow w w_pos) in * by (unfold len; lia).
      assert (Hk : 0 < w * k) by (apply Z.mul_pos_pos; lia).
      assert (P1 : 2 ^ (w * len (SM.bws b)) <= 2 ^ (w * k)).
      { apply pow2_le_mono. split; [apply Z.mul_nonneg_nonneg; unfold len; lia | apply Z.mul_le_mono_nonneg_l; unfold k; lia]. }
      assert (P2 : 2 ^ (w * len rhs) <= 2 ^ (w * k)).
      { apply pow2_le_mono. split; [apply Z.mul_nonneg_nonneg; unfold len; lia | apply Z.mul_le_mono_nonneg_l; unfold k; lia]. }
      apply zop_lt_pow2; lia. }
  eapply (from_buffer_canon w M w_pos); [exact H | |]; cbn [SM.setws SM.bws]; rewrite L; assumption.
Qed.

(** bitor_large_dword / bitxor_large_dword: the double word into the two lowest words of the buffer *)
Lemma bitop_large_dword_tie f b d m r m' : wf (SM.bws b) -> 0 <= d < B * B ->
  SM.bitop_large_dword w M (zop f) b d m = Ok (r, m') -> bor r = to_brepr w (zop f (value (SM.bws b)) d).
Proof.
  intros W Hd H. unfold SM.bitop_large_dword in H. unfold SM.val in H. minv.
  match goal with A : (2 <=? _) = true |- _ => apply Z.leb_le in A; rename A into L2 end.
  pose proof (value_bounds w w_pos _ W) as Hb.
  destruct (tow_ok w w_pos (len (SM.bws b)) (zop f (value (SM.bws b)) d)) as [TW TV]; [lia | |].
  { rewrite (Bpow_pow w w_pos) in * by lia. rewrite (BB_pow w w_pos) in Hd.
    assert (P : 2 ^ (2 * w) <= 2 ^ (w * len (SM.bws b))) by (apply pow2_le_mono; split; [lia | rewrite (Z.mul_comm 2 w); apply Z.mul_le_mono_nonneg_l; lia]).
    apply zop_lt_pow2; [apply Z.mul_pos_pos; lia | lia | lia]. }
  eapply (from_buffer_canon w M w_pos); [exact H | exact TW |]. cbn [SM.setws SM.bws]. exact TV.
Qed.

Lemma own_large_bws a m b m' : SM.own_large M a m = Ok (b, m') -> SM.bws b = SM.twords a.
Proof.
  destruct a as [d|b0|d|ws]; cbn [SM.own_large SM.twords]; intros H; minv; try reflexivity.
  eapply buffer_from_bws; eassumption.
Qed.

Lemma twords_large a : SM.small_of a = None -> brepr_of_targ a = BLarge (SM.twords a).
Proof. destruct a; cbn; intros H; try discriminate; reflexivity. Qed.

(** | and ^ on magnitudes, every ownership arm (val/ref x val/ref), Small/Large dispatch, the length test that
    selects the kept buffer, ensure_capacity + push_slice of the tail: the machine's Repr = the kernel's *)
Theorem orx_machine_is_kernel f a b m r m' :
  brepr_ok w (brepr_of_targ a) -> brepr_ok w (brepr_of_targ b) ->
  SM.orx_mag w M (zop f) a b m = Ok (r, m') ->
  forall o, bor r = ubig_op w o f (brepr_of_targ a) (brepr_of_targ b).
Proof.
  intros Ha Hb H o. rewrite (ubig_op_canonical w w_pos o f _ _ Ha Hb).
  unfold SM.orx_mag in H.
  destruct (SM.small_of a) as [x|] eqn:Sa; destruct (SM.small_of b) as [y|] eqn:Sb.
  - assert (brepr_of_targ a = BSmall x) as Ea by (destruct a; cbn in *; congruence). rewrite Ea in *.
    assert (brepr_of_targ b = BSmall y) as Eb by (destruct b; cbn in *; congruence). rewrite Eb in *.
    cbn [bvalue brepr_ok] in *. minv. apply (from_dword_canon w w_pos). rewrite (BB_pow w w_pos) in *.
    apply zop_lt_pow2; lia.
  - assert (brepr_of_targ a = BSmall x) as Ea by (destruct a; cbn in *; congruence). rewrite Ea in *.
    rewrite (twords_large b Sb) in *. cbn [bvalue brepr_ok] in *. minv.
    match goal with A : SM.own_large _ _ _ = _ |- _ => apply own_large_bws in A; rename A into A0 end.
    rewrite zop_comm. rewrite <- A0. eapply bitop_large_dword_tie; [rewrite A0; apply Hb | exact Ha | exact H].
  - assert (brepr_of_targ b = BSmall y) as Eb by (destruct b; cbn in *; congruence). rewrite Eb in *.
    rewrite (twords_large a Sa) in *. cbn [bvalue brepr_ok] in *. minv.
    match goal with A : SM.own_large _ _ _ = _ |- _ => apply own_large_bws in A; rename A into A0 end.
    rewrite <- A0. eapply bitop_large_dword_tie; [rewrite A0; apply Ha | exact Hb | exact H].
  - rewrite (twords_large a Sa), (twords_large b Sb) in *. cbn [bvalue brepr_ok] in *.
    destruct Ha as (Wa & _), Hb as (Wb & _).
    destruct a as [?|b0|?|w0]; try discriminate Sa; destruct b as [?|b1|?|w1]; try discriminate Sb; cbn [SM.twords] in *.
    + destruct (len (SM.bws b1) <=? len (SM.bws b0)); minv.
      * eapply bitop_large_tie; eassumption.
      * rewrite zop_comm. eapply bitop_large_tie; eassumption.
    + eapply bitop_large_tie; eassumption.
    + rewrite zop_comm. eapply bitop_large_tie; eassumption.
    + destruct (len w1 <=? len w0); minv.
      * match goal with A : SM.buffer_from _ _ _ = _ |- _ => apply buffer_from_bws in A; rename A into A0 end.
        rewrite <- A0 at 1. eapply bitop_large_tie; [rewrite A0 | |]; eassumption.
      * match goal with A : SM.buffer_from _ _ _ = _ |- _ => apply buffer_from_bws in A; rename A into A0 end.
        rewrite zop_comm. rewrite <- A0 at 1. eapply bitop_large_tie; [rewrite A0 | |]; eassumption.
Qed.

(* ------------------------------------------------------------------ & *)

Lemma truncate_bws b n m b' m' : SM.truncate b n m = Ok (b', m') -> SM.bws b' = firstn (Z.to_nat n) (SM.bws b).
Proof. unfold SM.truncate. intros H. minv. reflexivity. Qed.

Lemma land_cut a b : wf a -> wf b ->
  0 <= Z.land (value (firstn (length b) a)) (value b) < B ^ len (firstn (length b) a) /\
  Z.land (value (firstn (length b) a)) (value b) = Z.land (value a) (value b).
Proof.
  intros Wa Wb. set (a' := firstn (length b) a).
  assert (Wa' : wf a') by (apply wf_firstn; exact Wa).
  destruct (zip_cut w w_pos Z.land andb land_spec' eq_refl land_nn Z.land_0_r Z.land_0_l a' b Wa' Wb) as [W V].
  destruct (zip_cut w w_pos Z.land andb land_spec' eq_refl land_nn Z.land_0_r Z.land_0_l a b Wa Wb) as [_ V2].
  assert (E : firstn (length b) a' = a') by (unfold a'; rewrite firstn_firstn, Nat.min_id; reflexivity).
  rewrite E in *. fold a' in V2. split; [|congruence].
  rewrite <- V. pose proof (value_bounds w w_pos _ W) as Hb. unfold len in *. rewrite zip_length in Hb. exact Hb.
Qed.

(** bitand_large: the buffer truncated to the length of the right operand, then combined in place *)
Lemma bitand_large_tie b rhs m r m' : wf (SM.bws b) -> wf rhs ->
  SM.bitand_large w M b rhs m = Ok (r, m') -> bor r = to_brepr w (Z.land (value (SM.bws b)) (value rhs)).
Proof.
  intros W R H. unfold SM.bitand_large in H. unfold SM.val in H. minv. rename x into b1.
  assert (E : SM.bws b1 = firstn (length rhs) (SM.bws b)).
  { match goal with A : _ = Ok (b1, _) |- _ => revert A end.
    destruct (Z.gtb_spec (len (SM.bws b)) (len rhs)) as [C|C]; intros A; minv.
    - apply truncate_bws in A. rewrite A. unfold len. rewrite Nat2Z.id. reflexivity.
    - symmetry. apply firstn_all2. unfold len in C. lia. }
  destruct (land_cut (SM.bws b) rhs W R) as [Bd Ev]. rewrite <- E in Bd, Ev.
  destruct (tow_ok w w_pos (len (SM.bws b1)) _ ltac:(unfold len; lia) Bd) as [TW TV].
  eapply (from_buffer_canon w M w_pos); [exact H | exact TW |]. cbn [SM.setws SM.bws]. rewrite TV. exact Ev.
Qed.

Lemma lowest_dword_tie ws m d m' : SM.lowest_dword_of w ws m = Ok (d, m') -> d = lowest_dword w ws.
Proof.
  unfold SM.lowest_dword_of. intros H. minv.
  match goal with A : (2 <=? _) = true |- _ => apply Z.leb_le in A; rename A into L2 end.
  destruct ws as [|x0 [|y0 t]]; unfold len in L2; cbn [length] in L2; try lia. reflexivity.
Qed.

(** & on magnitudes, every ownership arm: Small/Large dispatch through the lowest double word, the length
    test that selects the kept (shorter) buffer, truncate *)
Theorem and_machine_is_kernel a b m r m' :
  brepr_ok w (brepr_of_targ a) -> brepr_ok w (brepr_of_targ b) ->
  SM.and_mag w M a b m = Ok (r, m') ->
  forall o, bor r = ubig_op w o OpAnd (brepr_of_targ a) (brepr_of_targ b).
Proof.
  intros Ha Hb H o. unfold SM.and_mag in H.
  destruct (SM.small_of a) as [x|] eqn:Sa; destruct (SM.small_of b) as [y|] eqn:Sb.
  - rewrite (ubig_op_canonical w w_pos o OpAnd _ _ Ha Hb).
    assert (brepr_of_targ a = BSmall x) as Ea by (destruct a; cbn in *; congruence). rewrite Ea in *.
    assert (brepr_of_targ b = BSmall y) as Eb by (destruct b; cbn in *; congruence). rewrite Eb in *.
    cbn [bvalue brepr_ok] in *. minv. apply (from_dword_canon w w_pos). rewrite (BB_pow w w_pos) in *.
    apply (zop_lt_pow2 OpAnd); lia.
  - assert (brepr_of_targ a = BSmall x) as Ea by (destruct a; cbn in *; congruence). rewrite Ea in *.
    rewrite (twords_large b Sb) in *. minv.
    match goal with A : SM.lowest_dword_of _ _ _ = _ |- _ => apply lowest_dword_tie in A; subst end.
    cbn [ubig_op repr_bitand from_dword brepr_of_repr SM.from_dword]. change (SM.Bw w) with B. apply (dword_view w w_pos).
  - assert (brepr_of_targ b = BSmall y) as Eb by (destruct b; cbn in *; congruence). rewrite Eb in *.
    rewrite (twords_large a Sa) in *. minv.
    match goal with A : SM.lowest_dword_of _ _ _ = _ |- _ => apply lowest_dword_tie in A; subst end.
    cbn [ubig_op repr_bitand from_dword brepr_of_repr SM.from_dword]. change (SM.Bw w) with B. apply (dword_view w w_pos).
  - rewrite (ubig_op_canonical w w_pos o OpAnd _ _ Ha Hb).
    rewrite (twords_large a Sa), (twords_large b Sb) in *. cbn [bvalue brepr_ok zop] in *.
    destruct Ha as (Wa & _), Hb as (Wb & _).
    destruct a as [?|b0|?|w0]; try discriminate Sa; destruct b as [?|b1|?|w1]; try discriminate Sb; cbn [SM.twords] in *.
    + destruct (len (SM.bws b0) <=? len (SM.bws b1)); minv.
      * eapply bitand_large_tie; eassumption.
      * rewrite Z.land_comm. eapply bitand_large_tie; eassumption.
    + eapply bitand_large_tie; eassumption.
    + rewrite Z.land_comm. eapply bitand_large_tie; eassumption.
    + destruct (len w0 <=? len w1); minv.
      * match goal with A : SM.buffer_from _ _ _ = _ |- _ => apply buffer_from_bws in A; rename A into A0 end.
        rewrite <- A0 at 1. eapply bitand_large_tie; [rewrite A0 | |]; eassumption.
      * match goal with A : SM.buffer_from _ _ _ = _ |- _ => apply buffer_from_bws in A; rename A into A0 end.
        rewrite Z.land_comm. rewrite <- A0 at 1. eapply bitand_large_tie; [rewrite A0 | |]; eassumption.
Qed.

End Tie2.

(** the hypotheses are satisfiable: the machine does return a Repr on such operands (64-bit words) *)
Example machine_tie2_nonvacuous :
  (exists r m', SM.shr_mag 64 1000 (SM.TRefLarge [5; 0; 1; 7]) 70 SM.mem0 = Ok (r, m')) /\
  (exists r m', SM.clear_bit 64 1000 (SM.TSmall 5) 0 SM.mem0 = Ok (r, m') /\ brepr_of_repr 64 r = BSmall 4) /\
  (exists r m', SM.orx_mag 64 1000 (zop OpOr) (SM.TRefLarge [5; 0; 1]) (SM.TRefLarge [2; 0; 0; 7]) SM.mem0 = Ok (r, m') /\
                brepr_of_repr 64 r = BLarge [7; 0; 1; 7]) /\
  (exists r m', SM.and_mag 64 1000 (SM.TRefLarge [5; 0; 1]) (SM.TRefLarge [7; 0; 1; 7]) SM.mem0 = Ok (r, m') /\
                brepr_of_repr 64 r = BLarge [5; 0; 1]) /\
  brepr_ok 64 (BLarge [5; 0; 1; 7]).
Proof.
  split; [eexists; eexists; vm_compute; reflexivity|].
  split; [eexists; eexists; split; vm_compute; reflexivity|].
  split; [eexists; eexists; split; vm_compute; reflexivity|].
  split; [eexists; eexists; split; vm_compute; reflexivity|].
  cbn [brepr_ok]. split; [|split; [cbn; lia | cbn; lia]].
  unfold Words.wf, Words.B. repeat constructor; lia.
Qed.

(** item (3) of round 4: no 16-bit build exists (force_bits="16" fails const evaluation in integer/src/mul/ntt.rs), so
    w = 16 is tied by theorems only: the word-level statements hold at w = 16 as instances *)
Theorem w16_instances :
  (forall o f a b, brepr_ok 16 a -> brepr_ok 16 b -> ubig_op 16 o f a b = to_brepr 16 (zop f (bvalue 16 a) (bvalue 16 b))) /\
  (forall by_ref r n, 0 <= n -> brepr_ok 16 r -> ubig_shr_form 16 by_ref r n = to_brepr 16 (Z.shiftr (bvalue 16 r) n)) /\
  (forall by_ref cap r n, 0 <= n -> brepr_ok 16 r -> ubig_shl_form 16 by_ref cap r n = to_brepr 16 (Z.shiftl (bvalue 16 r) n)).
Proof.
  assert (H : 0 < 16) by lia.
  split; [intros; apply (ubig_op_canonical 16 H); assumption|].
  split; intros; [apply (ubig_shr_form_canonical 16 H) | apply (ubig_shl_form_canonical 16 H)]; assumption.
Qed.
