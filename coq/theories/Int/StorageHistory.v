(** C17 - the invariant of the whole pool, preserved by every step, lifted to all finite histories. *)
From Dashu Require Import Base.Prelude Base.Words Int.StorageModel Int.StorageProofs.
From Coq Require Import Permutation.
Open Scope Z_scope.

Definition blocks (pool : list repr) : list (Z * Z) := flat_map rblks pool.

Lemma length_set_nth i x l : length (set_nth i x l) = length l.
Proof. revert i; induction l as [|y r IH]; intros [|k]; cbn [set_nth length]; auto. Qed.

Lemma get_set_nth a b y pool : (a < length pool)%nat ->
  get b (set_nth a y pool) = if Nat.eqb a b then y else get b pool.
Proof.
  unfold get. revert a b; induction pool as [|x r IH]; intros a b H; cbn [length] in H; [lia|].
  destruct a as [|a], b as [|b]; cbn [set_nth nth Nat.eqb]; auto. apply IH. lia.
Qed.

Lemma set_nth_set_nth i x y pool : set_nth i x (set_nth i y pool) = set_nth i x pool.
Proof. revert i; induction pool as [|z r IH]; intros [|k]; cbn [set_nth]; auto. rewrite IH. reflexivity. Qed.

Lemma blocks_set_nth i r pool : (i < length pool)%nat ->
  Permutation (rblks (get i pool) ++ blocks (set_nth i r pool)) (rblks r ++ blocks pool).
Proof.
  unfold get. revert i; induction pool as [|x rest IH]; intros i H; cbn [length] in H; [lia|].
  destruct i as [|k]; cbn [set_nth nth blocks flat_map].
  - apply Permutation_app_swap_app.
  - fold (blocks (set_nth k r rest)). fold (blocks rest).
    eapply perm_trans; [apply Permutation_app_swap_app|].
    eapply perm_trans; [apply Permutation_app_head; apply IH; lia|].
    apply Permutation_app_swap_app.
Qed.

Lemma Forall_set_nth (P : repr -> Prop) i r pool : Forall P pool -> P r -> Forall P (set_nth i r pool).
Proof.
  intros H Hr. revert i; induction H as [|x l Hx Hl IH]; intros [|k]; cbn [set_nth]; constructor; auto.
Qed.

Section History.
Variable w : Z.
Variable M : Z.
Hypothesis w_pos : 0 < w.
Hypothesis M_big : 8 <= M.

Notation ReprInv := (ReprInv M).
Definition StateInv (pool : list repr) (m : mem) : Prop := Forall ReprInv pool /\ Own (blocks pool) m.

Lemma ReprInv_zero : ReprInv zero.
Proof. left. auto. Qed.

Lemma get_inv i pool : Forall ReprInv pool -> ReprInv (get i pool).
Proof.
  intros H. unfold get. destruct (nth_in_or_default i pool zero) as [Hin|E]; [|rewrite E; apply ReprInv_zero].
  rewrite Forall_forall in H. apply H. exact Hin.
Qed.

Lemma blocks_take i pool : (i < length pool)%nat ->
  Permutation (blocks pool) (rblks (get i pool) ++ blocks (set_nth i zero pool)).
Proof. intros H. apply Permutation_sym. exact (blocks_set_nth i zero pool H). Qed.

(** `pool[d] = r` : the old value is released, the new one owned by the pool *)
Lemma wp_store d r pool m (Q : list repr -> mem -> Prop) :
  (d < length pool)%nat -> Own (rblks r ++ blocks pool) m ->
  (forall m', Own (blocks (set_nth d r pool)) m' -> Q (set_nth d r pool) m') ->
  safe (store d r pool) m Q.
Proof.
  intros Hd HO HQ. unfold store. apply safe_bind.
  eapply (wp_repr_drop (get d pool) (rblks r ++ blocks (set_nth d zero pool))).
  - eapply Own_perm; [|exact HO].
    eapply perm_trans; [apply Permutation_app_head; apply (blocks_take d pool Hd)|]. apply Permutation_app_swap_app.
  - intros m' HO'. apply safe_ret. apply HQ. eapply Own_perm; [|exact HO'].
    pose proof (blocks_set_nth d r (set_nth d zero pool)) as P. rewrite length_set_nth in P. specialize (P Hd).
    rewrite get_set_nth, Nat.eqb_refl in P by exact Hd. cbn [rblks zero app] in P. rewrite set_nth_set_nth in P.
    apply Permutation_sym. exact P.
Qed.

(** operands that clone / clone_from may read *)
Definition opnd_ok (n : nat) (o : opnd) : Prop :=
  match o with
  | ByVal i | ByRef i => (i < n)%nat
  | ByStatic s ws => ws = [] \/ last ws 0 <> 0     (* static_ubig!/static_ibig! assert a normalized array *)
  end.

(** the storage operations of the property: construction, clone, clone_from between values of any
    sizes (also of a static), drop, move, swap, negation, abs *)
Definition op_ok (n : nat) (o : op) : Prop :=
  match o with
  | OCtor d (COnes k) => (d < n)%nat /\ 0 <= k
  | OCtor d _ => (d < n)%nat
  | OClone d a | OCloneFrom d a => (d < n)%nat /\ opnd_ok n a
  | ODrop d | ONeg d | OAbs d => (d < n)%nat
  | OMove d s | OSwap d s => (d < n)%nat /\ (s < n)%nat
  | _ => False
  end.

Lemma opnd_view_inv n a pool : n = length pool -> opnd_ok n a -> Forall ReprInv pool -> ViewInv M (opnd_view a pool).
Proof.
  intros -> Ha HI. destruct a as [i|i|s ws]; cbn [opnd_view opnd_ok] in *.
  - apply ViewInv_view_of. apply get_inv. exact HI.
  - apply ViewInv_view_of. apply get_inv. exact HI.
  - apply ViewInv_static. exact Ha.
Qed.

Lemma wp_run_ctor c m F (Q : repr -> mem -> Prop) :
  Own F m -> (match c with COnes k => 0 <= k | _ => True end) ->
  (forall r m', Own (rblks r ++ F) m' -> ReprInv r -> Q r m') ->
  safe (run_ctor w M c) m Q.
Proof.
  intros HO Hc HQ. destruct c as [s ws|s dw|k]; cbn [run_ctor].
  - apply safe_bind. eapply wp_buffer_from; [exact M_big | exact HO |]. intros b m1 HO1 E1 E2 E3 HB.
    apply safe_bind. eapply wp_from_buffer; [exact M_big | exact HO1 | exact HB |]. intros r m2 HO2 HI _.
    apply safe_ret. apply HQ; [rewrite rblks_with_sign; exact HO2 | apply ReprInv_with_sign; exact HI].
  - apply safe_ret. apply HQ; [rewrite rblks_with_sign; exact HO | apply ReprInv_with_sign; apply ReprInv_from_dword].
  - eapply wp_ones; [exact w_pos | exact M_big | exact HO | exact Hc |]. intros r m' HO' HI _. apply HQ; auto.
Qed.

(** every step from an invariant state ends in an invariant state (or in a "too large" outcome);
    no guard fails, nothing is freed twice, nothing leaks *)
Theorem step_safe o pool m :
  op_ok (length pool) o -> StateInv pool m ->
  safe (step w M o pool) m (fun pr m' => StateInv (fst pr) m' /\ length (fst pr) = length pool).
Proof.
  intros Hok [HI HO]. destruct o; cbn [op_ok] in Hok; try contradiction; cbn [step].
  - (* OCtor *)
    assert ((d < length pool)%nat /\ match c with COnes k => 0 <= k | _ => True end) as [Hd Hc] by (destruct c; tauto).
    apply safe_bind. eapply wp_run_ctor; [exact HO | exact Hc |]. intros r m1 HO1 HR.
    apply safe_bind. eapply wp_store; [exact Hd | exact HO1 |]. intros m2 HO2. apply safe_ret. cbn [fst].
    split; [split; [apply Forall_set_nth; auto | exact HO2] | apply length_set_nth].
  - (* OClone *)
    destruct Hok as [Hd Ha]. apply safe_bind.
    eapply wp_repr_clone; [exact M_big | exact HO | eapply opnd_view_inv; eauto |]. intros r m1 HO1 HR.
    apply safe_bind. eapply wp_store; [exact Hd | exact HO1 |]. intros m2 HO2. apply safe_ret. cbn [fst].
    split; [split; [apply Forall_set_nth; auto | exact HO2] | apply length_set_nth].
  - (* OCloneFrom *)
    destruct Hok as [Hd Ha]. apply safe_bind.
    eapply (wp_repr_clone_from M M_big (get d pool) _ (blocks (set_nth d zero pool))).
    + eapply Own_perm; [apply (blocks_take d pool Hd) | exact HO].
    + apply get_inv. exact HI.
    + eapply opnd_view_inv; eauto.
    + intros r m1 HO1 HR. apply safe_ret. cbn [fst].
      split; [split; [apply Forall_set_nth; auto|] | apply length_set_nth].
      eapply Own_perm; [|exact HO1].
      pose proof (blocks_set_nth d r (set_nth d zero pool)) as P. rewrite length_set_nth in P. specialize (P Hd).
      rewrite get_set_nth, Nat.eqb_refl in P by exact Hd. cbn [rblks zero app] in P. rewrite set_nth_set_nth in P.
      apply Permutation_sym. exact P.
  - (* ODrop *)
    apply safe_bind. eapply wp_store; [exact Hok | cbn [rblks zero app]; exact HO |]. intros m2 HO2. apply safe_ret. cbn [fst].
    split; [split; [apply Forall_set_nth; auto; apply ReprInv_zero | exact HO2] | apply length_set_nth].
  - (* OMove *)
    destruct Hok as [Hd Hs]. apply safe_bind.
    eapply wp_store; [rewrite length_set_nth; exact Hd | |].
    + eapply Own_perm; [apply (blocks_take s pool Hs) | exact HO].
    + intros m2 HO2. apply safe_ret. cbn [fst].
      split; [split; [apply Forall_set_nth; [apply Forall_set_nth; auto; apply ReprInv_zero | apply get_inv; exact HI] | exact HO2]|].
      rewrite !length_set_nth. reflexivity.
  - (* OSwap *)
    destruct Hok as [Ha Hb]. apply safe_ret. cbn [fst].
    split; [split|rewrite !length_set_nth; reflexivity].
    + apply Forall_set_nth; [apply Forall_set_nth; auto|]; apply get_inv; exact HI.
    + eapply Own_perm; [|exact HO].
      pose proof (blocks_set_nth a (get b pool) pool Ha) as P1.
      pose proof (blocks_set_nth b (get a pool) (set_nth a (get b pool) pool)) as P2.
      rewrite length_set_nth in P2. specialize (P2 Hb). rewrite get_set_nth in P2 by exact Ha.
      assert ((if Nat.eqb a b then get b pool else get b pool) = get b pool) as E by (destruct (Nat.eqb a b); reflexivity).
      rewrite E in P2. apply Permutation_sym.
      eapply Permutation_app_inv_l. eapply perm_trans; [exact P2|]. exact P1.
  - (* ONeg *)
    apply safe_ret. cbn [fst]. split; [split|apply length_set_nth].
    + apply Forall_set_nth; auto. apply ReprInv_neg. apply get_inv. exact HI.
    + eapply Own_perm; [|exact HO]. pose proof (blocks_set_nth d (neg (get d pool)) pool Hok) as P.
      rewrite rblks_neg in P. apply Permutation_sym. eapply Permutation_app_inv_l. exact P.
  - (* OAbs *)
    apply safe_ret. cbn [fst]. split; [split|apply length_set_nth].
    + apply Forall_set_nth; auto. apply ReprInv_with_sign. apply get_inv. exact HI.
    + eapply Own_perm; [|exact HO]. pose proof (blocks_set_nth d (with_sign (get d pool) Positive) pool Hok) as P.
      rewrite rblks_with_sign in P. apply Permutation_sym. eapply Permutation_app_inv_l. exact P.
Qed.

(** all finite histories *)
Theorem run_safe ops : forall pool m,
  Forall (op_ok (length pool)) ops -> StateInv pool m ->
  safe (run w M ops pool) m (fun pool' m' => StateInv pool' m' /\ length pool' = length pool).
Proof.
  induction ops as [|o rest IH]; intros pool m Hops HS; cbn [run].
  - apply safe_ret. auto.
  - inversion Hops as [|? ? Ho Hrest]; subst. apply safe_bind.
    eapply safe_mono; [apply step_safe; eauto|]. intros pr m1 [HS1 HL1]. cbn beta.
    eapply safe_mono; [apply IH; [rewrite HL1; exact Hrest | exact HS1]|]. intros pool' m' [HS' HL']. split; [exact HS' | lia].
Qed.

Lemma StateInv_init n : StateInv (repeat zero n) mem0.
Proof.
  split.
  - apply Forall_forall. intros r Hr. apply repeat_spec in Hr. subst r. apply ReprInv_zero.
  - assert (blocks (repeat zero n) = []) as -> by (induction n; cbn; auto).
    split; [constructor|split]; cbn; [|reflexivity]. intros p c. split; [discriminate | contradiction].
Qed.

(** dropping the pool at the end of a history frees every block exactly once: the ghost heap is empty *)
Theorem drop_all_safe pool : forall m, Own (blocks pool) m ->
  safe (drop_all pool) m (fun _ m' => forall p, blk m' p = None).
Proof.
  induction pool as [|r rest IH]; intros m HO; cbn [drop_all].
  - apply safe_ret. intros p. destruct HO as (_ & I & _). destruct (blk m p) eqn:E; [|reflexivity]. apply I in E. contradiction.
  - apply safe_bind. eapply wp_repr_drop; [exact HO|]. intros m' HO'. apply IH. exact HO'.
Qed.

(** a history from the initial pool: invariant at the end, and after the final drop nothing is live *)
Corollary history_safe n ops :
  Forall (op_ok n) ops ->
  safe (run w M ops (repeat zero n)) mem0
       (fun pool m => StateInv pool m /\ safe (drop_all pool) m (fun _ m' => forall p, blk m' p = None)).
Proof.
  intros H. eapply safe_mono.
  - apply run_safe; [rewrite repeat_length; exact H | apply StateInv_init].
  - intros pool m [HS _]. split; [exact HS|]. apply drop_all_safe. exact (proj2 HS).
Qed.

End History.

(** non-vacuity: a concrete history (64-bit words) that crosses the inline/heap boundary both ways,
    clones from a larger and a smaller value and from itself, and ends with an empty heap *)
Example history_example :
  let ops := [OCtor 0%nat (COnes 200); OCtor 1%nat (CWords Negative [1; 2; 3; 4; 5; 6; 7; 8; 9]); OCloneFrom 0%nat (ByRef 1%nat);
              OCloneFrom 1%nat (ByStatic Positive [5; 0; 1]); OClone 2%nat (ByRef 0%nat); OCloneFrom 2%nat (ByRef 2%nat);
              OCtor 0%nat (CDword Positive 7); OCloneFrom 1%nat (ByRef 0%nat); OMove 3%nat 2%nat; ONeg 3%nat; OSwap 0%nat 3%nat; ODrop 1%nat] in
  Forall (op_ok 4) ops /\
  match run 64 (2 ^ 58) ops (repeat zero 4) mem0 with
  | Ok (pool, m) => nlive m = 1 /\ map (signed_cap) pool = [12; 1; 1; 1] /\
                    match drop_all pool m with Ok (_, m') => nlive m' = 0 /\ nwords m' = 0 | _ => False end
  | _ => False
  end.
Proof.
  cbn zeta. split.
  - repeat constructor; cbn; try lia; auto; right; cbn; lia.
  - vm_compute. repeat split; reflexivity.
Qed.
