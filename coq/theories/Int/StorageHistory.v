(** C17 - the invariant of the whole pool, preserved by every step, lifted to all finite histories. *)
From Dashu Require Import Base.Prelude Base.Words Int.StorageModel Int.StorageProofs Int.StorageArith.
From Coq Require Import Permutation.
Open Scope Z_scope.

Definition blocks (pool : list repr) : list (Z * Z) := flat_map rblks pool.

Lemma length_set_nth i x l : length (set_nth i x l) = length l.
Proof. revert i; induction l as [|y r IH]; intros [|k]; cbn [set_nth length]; auto. Qed.

Lemma get_set_nth a b y pool : (a < length pool)%nat ->
  get b (set_nth a y pool) = if Nat.eqb a b then y else get b pool.
Proof.
  unfold get. revert a b; induction pool as [|x r IH]; intros a b H; cbn [length] in H; [lia|].
  destruct a as [|a], b as [|b]; cbn [set_nth nth Nat.eqb]; auto. apply IH. lia.
Qed.

Lemma set_nth_set_nth i x y pool : set_nth i x (set_nth i y pool) = set_nth i x pool.
Proof. revert i; induction pool as [|z r IH]; intros [|k]; cbn [set_nth]; auto. rewrite IH. reflexivity. Qed.

Lemma blocks_set_nth i r pool : (i < length pool)%nat ->
  Permutation (rblks (get i pool) ++ blocks (set_nth i r pool)) (rblks r ++ blocks pool).
Proof.
  unfold get. revert i; induction pool as [|x rest IH]; intros i H; cbn [length] in H; [lia|].
  destruct i as [|k]; cbn [set_nth nth blocks flat_map].
  - apply Permutation_app_swap_app.
  - fold (blocks (set_nth k r rest)). fold (blocks rest).
    eapply perm_trans; [apply Permutation_app_swap_app|].
    eapply perm_trans; [apply Permutation_app_head; apply IH; lia|].
    apply Permutation_app_swap_app.
Qed.

Lemma Forall_set_nth (P : repr -> Prop) i r pool : Forall P pool -> P r -> Forall P (set_nth i r pool).
Proof.
  intros H Hr. revert i; induction H as [|x l Hx Hl IH]; intros [|k]; cbn [set_nth]; constructor; auto.
Qed.

Section History.
Variable w : Z.
Variable M : Z.
Hypothesis w_pos : 0 < w.
Hypothesis M_big : 8 <= M.

Notation ReprInv := (ReprInv M).
Definition StateInv (pool : list repr) (m : mem) : Prop := Forall ReprInv pool /\ Own (blocks pool) m.

Lemma ReprInv_zero : ReprInv zero.
Proof. left. auto. Qed.

Lemma get_inv i pool : Forall ReprInv pool -> ReprInv (get i pool).
Proof.
  intros H. unfold get. destruct (nth_in_or_default i pool zero) as [Hin|E]; [|rewrite E; apply ReprInv_zero].
  rewrite Forall_forall in H. apply H. exact Hin.
Qed.

Lemma blocks_take i pool : (i < length pool)%nat ->
  Permutation (blocks pool) (rblks (get i pool) ++ blocks (set_nth i zero pool)).
Proof. intros H. apply Permutation_sym. exact (blocks_set_nth i zero pool H). Qed.

(** `pool[d] = r` : the old value is released, the new one owned by the pool *)
Lemma wp_store d r pool m (Q : list repr -> mem -> Prop) :
  (d < length pool)%nat -> Own (rblks r ++ blocks pool) m ->
  (forall m', Own (blocks (set_nth d r pool)) m' -> Q (set_nth d r pool) m') ->
  safe (store d r pool) m Q.
Proof.
  intros Hd HO HQ. unfold store. apply safe_bind.
  eapply (wp_repr_drop (get d pool) (rblks r ++ blocks (set_nth d zero pool))).
  - eapply Own_perm; [|exact HO].
    eapply perm_trans; [apply Permutation_app_head; apply (blocks_take d pool Hd)|]. apply Permutation_app_swap_app.
  - intros m' HO'. apply safe_ret. apply HQ. eapply Own_perm; [|exact HO'].
    pose proof (blocks_set_nth d r (set_nth d zero pool)) as P. rewrite length_set_nth in P. specialize (P Hd).
    rewrite get_set_nth, Nat.eqb_refl in P by exact Hd. cbn [rblks zero app] in P. rewrite set_nth_set_nth in P.
    apply Permutation_sym. exact P.
Qed.

(** operands that clone / clone_from may read *)
Definition opnd_ok (n : nat) (o : opnd) : Prop :=
  match o with
  | ByVal i | ByRef i => (i < n)%nat
  | ByStatic s ws => ws = [] \/ last ws 0 <> 0     (* static_ubig!/static_ibig! assert a normalized array *)
  end.

(** the value the oracle's re-synchronisation device OInstall puts into a slot (block id p) *)
Definition install_repr (s : sign) (ws : list Z) (cap p : Z) : repr :=
  match ws with
  | [] => zero
  | [x] => with_sign (from_word x) s
  | [x; y] => with_sign (from_dword w (x + Bw w * y)) s
  | _ => RHeap s (mkbuf p ws cap)
  end.

(** well-formed steps: EVERY constructor of [op] is admitted.  Slots exist, statics are normalized, bit
    counts are non-negative (usize), and OInstall - not an operation of the library but the device by which
    the oracle re-synchronises the machine with a reported layout - installs a value that passes the
    executable invariant check it is guarded with. *)
Definition op_ok (n : nat) (o : op) : Prop :=
  match o with
  | OCtor d (COnes k) => (d < n)%nat /\ 0 <= k
  | OCtor d _ => (d < n)%nat
  | OClone d a | OCloneFrom d a => (d < n)%nat /\ opnd_ok n a
  | ODrop d | ONeg d | OAbs d => (d < n)%nat
  | OMove d s | OSwap d s => (d < n)%nat /\ (s < n)%nat
  | OBin _ d a b => (d < n)%nat /\ opnd_ok n a /\ opnd_ok n b
  | OShl d a k | OShr d a k => (d < n)%nat /\ opnd_ok n a /\ 0 <= k
  | OSetBit d k | OClrBit d k => (d < n)%nat /\ 0 <= k
  | ODivisor d b => (d < n)%nat /\ (b < n)%nat
  | OInstall d s ws cap => (d < n)%nat /\ repr_ok_b w M (install_repr s ws cap 0) = true
  end.

(** the executable invariant check implies the invariant *)
Lemma repr_ok_b_inv r : repr_ok_b w M r = true -> ReprInv r.
Proof.
  destruct r as [s lo hi cap|s b]; cbn [repr_ok_b ReprInv]; intros H.
  - apply andb_prop in H. destruct H as [_ H]. apply orb_prop in H. destruct H as [H|H].
    + left. apply andb_prop in H. destruct H as [H H3]. apply andb_prop in H. destruct H as [H1 H2].
      apply Z.eqb_eq in H1. apply Z.eqb_eq in H2. repeat split; auto. intros ->. cbn in H3. destruct s; [reflexivity | discriminate].
    + right. apply andb_prop in H. destruct H as [H1 H2]. apply Z.eqb_eq in H1. split; auto.
      intros ->. cbn in H2. discriminate.
  - apply andb_prop in H. destruct H as [H H5]. apply andb_prop in H. destruct H as [H H4].
    apply andb_prop in H. destruct H as [H H3]. apply andb_prop in H. destruct H as [H1 _].
    apply Z.leb_le in H1. apply Z.leb_le in H4. apply Z.leb_le in H5.
    repeat split; auto. intros E. rewrite E in H3. cbn in H3. discriminate.
Qed.

Lemma wp_install s ws cap F m (Q : repr -> mem -> Prop) :
  Own F m -> repr_ok_b w M (install_repr s ws cap 0) = true ->
  (forall r m', Own (rblks r ++ F) m' -> ReprInv r -> repr_ok_b w M r = true -> Q r m') ->
  safe (install w M s ws cap) m Q.
Proof.
  intros HO Hok HQ. destruct ws as [|x [|y [|z rest]]]; cbn [install install_repr] in *;
    try (apply safe_ret; apply HQ; [first [rewrite rblks_with_sign | idtac]; exact HO | apply repr_ok_b_inv; exact Hok | exact Hok]).
  pose proof (repr_ok_b_inv _ Hok) as HI. cbn [ReprInv bws bcap] in HI. destruct HI as (H1 & H2 & H3).
  pose proof (max_compact_le_M M (len (x :: y :: z :: rest))).
  apply safe_bind. eapply wp_allocate_raw; [exact HO | lia |]. intros p m' HO'. apply safe_ret.
  apply HQ; [exact HO' | cbn [ReprInv bws bcap]; auto | exact Hok].
Qed.

Lemma typed_inv r : ReprInv r -> TargInv M (typed w r) /\ tblks (typed w r) = rblks r /\ is_ref (typed w r) = false.
Proof.
  destruct r as [s lo hi cap|s b]; cbn [typed TargInv tblks rblks ReprInv is_ref]; [auto|].
  intros (H1 & H2 & H3). pose proof (max_compact_le_M M (len (bws b))). repeat split; auto; lia.
Qed.

Lemma typed_ref_inv v : ViewInv M v -> TargInv M (typed_ref w v) /\ tblks (typed_ref w v) = [].
Proof. destruct v as [s lo hi cap|s ws cap]; cbn [typed_ref TargInv tblks ViewInv]; [auto|]. intros (H1 & _). auto. Qed.

(** fetching an operand: a by-value operand is moved out of the pool (its block now belongs to the operand) *)
Lemma fetch_spec a pool s x p1 :
  opnd_ok (length pool) a -> Forall ReprInv pool -> fetch w a pool = ((s, x), p1) ->
  length p1 = length pool /\ Forall ReprInv p1 /\ TargInv M x /\ Permutation (blocks pool) (tblks x ++ blocks p1) /\
  (match a with ByVal _ => is_ref x = false | _ => True end).
Proof.
  intros Ha HI E. destruct a as [i|i|s' ws]; cbn [fetch opnd_ok] in *; injection E as <- <- <-.
  - destruct (typed_inv (get i pool) (get_inv i pool HI)) as (T1 & T2 & T3).
    split; [apply length_set_nth|]. split; [apply Forall_set_nth; auto; apply ReprInv_zero|].
    split; [exact T1|]. split; [rewrite T2; apply blocks_take; exact Ha | exact T3].
  - destruct (typed_ref_inv _ (ViewInv_view_of M _ (get_inv i pool HI))) as (T1 & T2).
    rewrite T2. cbn [app]. repeat split; auto.
  - destruct (typed_ref_inv _ (ViewInv_static M s' ws Ha)) as (T1 & T2).
    rewrite T2. cbn [app]. repeat split; auto.
Qed.

Lemma wp_store_out d o pool n m :
  (d < length pool)%nat -> Forall ReprInv pool -> length pool = n ->
  match o with Done r => Own (rblks r ++ blocks pool) m /\ ReprInv r | Thrown _ => Own (blocks pool) m end ->
  safe (store_out d o pool) m (fun pr m' => StateInv (fst pr) m' /\ length (fst pr) = n).
Proof.
  intros Hd HI Hn Ho. destruct o as [r|y]; cbn [store_out].
  - destruct Ho as [HO HR]. apply safe_bind. eapply wp_store; [exact Hd | exact HO |]. intros m2 HO2. apply safe_ret. cbn [fst].
    split; [split; [apply Forall_set_nth; auto | exact HO2] | rewrite length_set_nth; exact Hn].
  - apply safe_ret. cbn [fst]. split; [split; assumption | exact Hn].
Qed.

Lemma opnd_view_inv n a pool : n = length pool -> opnd_ok n a -> Forall ReprInv pool -> ViewInv M (opnd_view a pool).
Proof.
  intros -> Ha HI. destruct a as [i|i|s ws]; cbn [opnd_view opnd_ok] in *.
  - apply ViewInv_view_of. apply get_inv. exact HI.
  - apply ViewInv_view_of. apply get_inv. exact HI.
  - apply ViewInv_static. exact Ha.
Qed.

Lemma wp_run_ctor c m F (Q : repr -> mem -> Prop) :
  Own F m -> (match c with COnes k => 0 <= k | _ => True end) ->
  (forall r m', Own (rblks r ++ F) m' -> ReprInv r -> Q r m') ->
  safe (run_ctor w M c) m Q.
Proof.
  intros HO Hc HQ. destruct c as [s ws|s dw|k]; cbn [run_ctor].
  - apply safe_bind. eapply wp_buffer_from; [exact M_big | exact HO |]. intros b m1 HO1 E1 E2 E3 HB.
    apply safe_bind. eapply wp_from_buffer; [exact M_big | exact HO1 | exact HB |]. intros r m2 HO2 HI _.
    apply safe_ret. apply HQ; [rewrite rblks_with_sign; exact HO2 | apply ReprInv_with_sign; exact HI].
  - apply safe_ret. apply HQ; [rewrite rblks_with_sign; exact HO | apply ReprInv_with_sign; apply ReprInv_from_dword].
  - eapply wp_ones; [exact w_pos | exact M_big | exact HO | exact Hc |]. intros r m' HO' HI _. apply HQ; auto.
Qed.

(** every step from an invariant state ends in an invariant state (or in a "too large" outcome);
    no guard fails, nothing is freed twice, nothing leaks *)
Theorem step_safe o pool m :
  op_ok (length pool) o -> StateInv pool m ->
  safe (step w M o pool) m (fun pr m' => StateInv (fst pr) m' /\ length (fst pr) = length pool).
Proof.
  intros Hok [HI HO]. destruct o; cbn [op_ok] in Hok; cbn [step].
  - (* OCtor *)
    assert ((d < length pool)%nat /\ match c with COnes k => 0 <= k | _ => True end) as [Hd Hc] by (destruct c; tauto).
    apply safe_bind. eapply wp_run_ctor; [exact HO | exact Hc |]. intros r m1 HO1 HR.
    apply safe_bind. eapply wp_store; [exact Hd | exact HO1 |]. intros m2 HO2. apply safe_ret. cbn [fst].
    split; [split; [apply Forall_set_nth; auto | exact HO2] | apply length_set_nth].
  - (* OClone *)
    destruct Hok as [Hd Ha]. apply safe_bind.
    eapply wp_repr_clone; [exact M_big | exact HO | eapply opnd_view_inv; eauto |]. intros r m1 HO1 HR.
    apply safe_bind. eapply wp_store; [exact Hd | exact HO1 |]. intros m2 HO2. apply safe_ret. cbn [fst].
    split; [split; [apply Forall_set_nth; auto | exact HO2] | apply length_set_nth].
  - (* OCloneFrom *)
    destruct Hok as [Hd Ha]. apply safe_bind.
    eapply (wp_repr_clone_from M M_big (get d pool) _ (blocks (set_nth d zero pool))).
    + eapply Own_perm; [apply (blocks_take d pool Hd) | exact HO].
    + apply get_inv. exact HI.
    + eapply opnd_view_inv; eauto.
    + intros r m1 HO1 HR. apply safe_ret. cbn [fst].
      split; [split; [apply Forall_set_nth; auto|] | apply length_set_nth].
      eapply Own_perm; [|exact HO1].
      pose proof (blocks_set_nth d r (set_nth d zero pool)) as P. rewrite length_set_nth in P. specialize (P Hd).
      rewrite get_set_nth, Nat.eqb_refl in P by exact Hd. cbn [rblks zero app] in P. rewrite set_nth_set_nth in P.
      apply Permutation_sym. exact P.
  - (* ODrop *)
    apply safe_bind. eapply wp_store; [exact Hok | cbn [rblks zero app]; exact HO |]. intros m2 HO2. apply safe_ret. cbn [fst].
    split; [split; [apply Forall_set_nth; auto; apply ReprInv_zero | exact HO2] | apply length_set_nth].
  - (* OMove *)
    destruct Hok as [Hd Hs]. apply safe_bind.
    eapply wp_store; [rewrite length_set_nth; exact Hd | |].
    + eapply Own_perm; [apply (blocks_take s pool Hs) | exact HO].
    + intros m2 HO2. apply safe_ret. cbn [fst].
      split; [split; [apply Forall_set_nth; [apply Forall_set_nth; auto; apply ReprInv_zero | apply get_inv; exact HI] | exact HO2]|].
      rewrite !length_set_nth. reflexivity.
  - (* OSwap *)
    destruct Hok as [Ha Hb]. apply safe_ret. cbn [fst].
    split; [split|rewrite !length_set_nth; reflexivity].
    + apply Forall_set_nth; [apply Forall_set_nth; auto|]; apply get_inv; exact HI.
    + eapply Own_perm; [|exact HO].
      pose proof (blocks_set_nth a (get b pool) pool Ha) as P1.
      pose proof (blocks_set_nth b (get a pool) (set_nth a (get b pool) pool)) as P2.
      rewrite length_set_nth in P2. specialize (P2 Hb). rewrite get_set_nth in P2 by exact Ha.
      assert ((if Nat.eqb a b then get b pool else get b pool) = get b pool) as E by (destruct (Nat.eqb a b); reflexivity).
      rewrite E in P2. apply Permutation_sym.
      eapply Permutation_app_inv_l. eapply perm_trans; [exact P2|]. exact P1.
  - (* ONeg *)
    apply safe_ret. cbn [fst]. split; [split|apply length_set_nth].
    + apply Forall_set_nth; auto. apply ReprInv_neg. apply get_inv. exact HI.
    + eapply Own_perm; [|exact HO]. pose proof (blocks_set_nth d (neg (get d pool)) pool Hok) as P.
      rewrite rblks_neg in P. apply Permutation_sym. eapply Permutation_app_inv_l. exact P.
  - (* OAbs *)
    apply safe_ret. cbn [fst]. split; [split|apply length_set_nth].
    + apply Forall_set_nth; auto. apply ReprInv_with_sign. apply get_inv. exact HI.
    + eapply Own_perm; [|exact HO]. pose proof (blocks_set_nth d (with_sign (get d pool) Positive) pool Hok) as P.
      rewrite rblks_with_sign in P. apply Permutation_sym. eapply Permutation_app_inv_l. exact P.
  - (* OBin: add / sub / mul of UBig and IBig, operands by value, by reference or static *)
    destruct Hok as (Hd & Ha & Hb).
    destruct (fetch w a pool) as [[s0 x] p1] eqn:E1.
    destruct (fetch_spec a pool s0 x p1 Ha HI E1) as (L1 & I1 & T1 & P1 & _).
    destruct (fetch w b p1) as [[s1 y] p2] eqn:E2. rewrite <- L1 in Hb.
    destruct (fetch_spec b p1 s1 y p2 Hb I1 E2) as (L2 & I2 & T2 & P2 & _).
    apply safe_bind. eapply (wp_run_bin w M M_big f s0 x s1 y (blocks p2)); [| exact T1 | exact T2 |].
    + eapply Own_perm; [|exact HO]. eapply perm_trans; [exact P1|]. apply Permutation_app_head. exact P2.
    + intros o m1 Ho. apply wp_store_out; auto; lia.
  - (* OShl *)
    destruct Hok as (Hd & Ha & Hk).
    destruct (fetch w a pool) as [[s0 x] p1] eqn:E1.
    destruct (fetch_spec a pool s0 x p1 Ha HI E1) as (L1 & I1 & T1 & P1 & _).
    apply safe_bind. eapply (wp_shl_mag w M w_pos M_big x n (blocks p1)); [| exact T1 | exact Hk |].
    + eapply Own_perm; [exact P1 | exact HO].
    + intros r m1 HO1 HR. apply (wp_store_out d (Done r) p1 (length pool)); auto; lia.
  - (* OShr *)
    destruct Hok as (Hd & Ha & Hk).
    destruct (fetch w a pool) as [[s0 x] p1] eqn:E1.
    destruct (fetch_spec a pool s0 x p1 Ha HI E1) as (L1 & I1 & T1 & P1 & _).
    apply safe_bind. eapply (wp_shr_mag w M w_pos M_big x n (blocks p1)); [| exact T1 | exact Hk |].
    + eapply Own_perm; [exact P1 | exact HO].
    + intros r m1 HO1 HR. apply (wp_store_out d (Done r) p1 (length pool)); auto; lia.
  - (* OSetBit *)
    destruct Hok as (Hd & Hk).
    destruct (fetch w (ByVal d) pool) as [[s0 x] p1] eqn:E1.
    destruct (fetch_spec (ByVal d) pool s0 x p1 Hd HI E1) as (L1 & I1 & T1 & P1 & R1).
    apply safe_bind. eapply (wp_set_bit w M w_pos M_big x n (blocks p1)); [| exact T1 | exact R1 | exact Hk |].
    + eapply Own_perm; [exact P1 | exact HO].
    + intros r m1 HO1 HR. apply (wp_store_out d (Done r) p1 (length pool)); auto; lia.
  - (* OClrBit *)
    destruct Hok as (Hd & Hk).
    destruct (fetch w (ByVal d) pool) as [[s0 x] p1] eqn:E1.
    destruct (fetch_spec (ByVal d) pool s0 x p1 Hd HI E1) as (L1 & I1 & T1 & P1 & R1).
    apply safe_bind. eapply (wp_clear_bit w M M_big x n (blocks p1)); [| exact T1 | exact R1 |].
    + eapply Own_perm; [exact P1 | exact HO].
    + intros r m1 HO1 HR. apply (wp_store_out d (Done r) p1 (length pool)); auto; lia.
  - (* ODivisor: the value moved into a ConstDivisor (Buffer -> Box<[Word]>), read back, the divisor dropped *)
    destruct Hok as (Hd & Hb).
    destruct (fetch w (ByVal b) pool) as [[s0 x] p1] eqn:E1.
    destruct (fetch_spec (ByVal b) pool s0 x p1 Hb HI E1) as (L1 & I1 & T1 & P1 & R1).
    apply safe_bind. eapply (wp_divisor_value w M M_big x (blocks p1)); [| exact T1 | exact R1 |].
    + eapply Own_perm; [exact P1 | exact HO].
    + intros o m1 Ho. apply wp_store_out; auto; lia.
  - (* OInstall *)
    destruct Hok as (Hd & Hk).
    apply safe_bind. eapply wp_install; [exact HO | exact Hk |]. intros r m1 HO1 HR Hr.
    apply safe_bind. apply safe_guard; [exact Hr|].
    apply (wp_store_out d (Done r) pool (length pool)); auto.
Qed.

(** all finite histories *)
Theorem run_safe ops : forall pool m,
  Forall (op_ok (length pool)) ops -> StateInv pool m ->
  safe (run w M ops pool) m (fun pool' m' => StateInv pool' m' /\ length pool' = length pool).
Proof.
  induction ops as [|o rest IH]; intros pool m Hops HS; cbn [run].
  - apply safe_ret. auto.
  - inversion Hops as [|? ? Ho Hrest]; subst. apply safe_bind.
    eapply safe_mono; [apply step_safe; eauto|]. intros pr m1 [HS1 HL1]. cbn beta.
    eapply safe_mono; [apply IH; [rewrite HL1; exact Hrest | exact HS1]|]. intros pool' m' [HS' HL']. split; [exact HS' | lia].
Qed.

Lemma StateInv_init n : StateInv (repeat zero n) mem0.
Proof.
  split.
  - apply Forall_forall. intros r Hr. apply repeat_spec in Hr. subst r. apply ReprInv_zero.
  - assert (blocks (repeat zero n) = []) as -> by (induction n; cbn; auto).
    split; [constructor|split]; cbn; [|reflexivity]. intros p c. split; [discriminate | contradiction].
Qed.

(** dropping the pool at the end of a history frees every block exactly once: the ghost heap is empty *)
Theorem drop_all_safe pool : forall m, Own (blocks pool) m ->
  safe (drop_all pool) m (fun _ m' => forall p, blk m' p = None).
Proof.
  induction pool as [|r rest IH]; intros m HO; cbn [drop_all].
  - apply safe_ret. intros p. destruct HO as (_ & I & _). destruct (blk m p) eqn:E; [|reflexivity]. apply I in E. contradiction.
  - apply safe_bind. eapply wp_repr_drop; [exact HO|]. intros m' HO'. apply IH. exact HO'.
Qed.

(** a history from the initial pool: invariant at the end, and after the final drop nothing is live *)
Corollary history_safe n ops :
  Forall (op_ok n) ops ->
  safe (run w M ops (repeat zero n)) mem0
       (fun pool m => StateInv pool m /\ safe (drop_all pool) m (fun _ m' => forall p, blk m' p = None)).
Proof.
  intros H. eapply safe_mono.
  - apply run_safe; [rewrite repeat_length; exact H | apply StateInv_init].
  - intros pool m [HS _]. split; [exact HS|]. apply drop_all_safe. exact (proj2 HS).
Qed.

End History.

(** non-vacuity: a concrete history (64-bit words) that crosses the inline/heap boundary both ways,
    clones from a larger and a smaller value and from itself, and ends with an empty heap *)
Example history_example :
  let ops := [OCtor 0%nat (COnes 200); OCtor 1%nat (CWords Negative [1; 2; 3; 4; 5; 6; 7; 8; 9]); OCloneFrom 0%nat (ByRef 1%nat);
              OCloneFrom 1%nat (ByStatic Positive [5; 0; 1]); OClone 2%nat (ByRef 0%nat); OCloneFrom 2%nat (ByRef 2%nat);
              OCtor 0%nat (CDword Positive 7); OCloneFrom 1%nat (ByRef 0%nat); OMove 3%nat 2%nat; ONeg 3%nat; OSwap 0%nat 3%nat; ODrop 1%nat] in
  Forall (op_ok 64 (2 ^ 58) 4) ops /\
  match run 64 (2 ^ 58) ops (repeat zero 4) mem0 with
  | Ok (pool, m) => nlive m = 1 /\ map (signed_cap) pool = [12; 1; 1; 1] /\
                    match drop_all pool m with Ok (_, m') => nlive m' = 0 /\ nwords m' = 0 | _ => False end
  | _ => False
  end.
Proof.
  cbn zeta. split.
  - repeat (apply Forall_cons || apply Forall_nil); cbn [op_ok opnd_ok]; repeat split; try lia; right; cbn [last]; lia.
  - vm_compute. repeat split; reflexivity.
Qed.

(** non-vacuity of the arithmetic steps: additions / subtractions / multiplications in by-value, by-reference
    and static call forms that cross the inline/heap boundary both ways, an in-place and a reallocating
    shift, a documented panic with borrowed and with owned operands (released), set_bit growing the buffer
    and clear_bit shrinking the value back to one word; the ledger balances *)
Example history_example_arith :
  let ops := [OCtor 0%nat (CDword Positive (2 ^ 128 - 1)); OCtor 1%nat (CDword Negative 1);
              OBin BISub 2%nat (ByRef 0%nat) (ByRef 1%nat); OBin BIAdd 3%nat (ByVal 2%nat) (ByRef 1%nat);
              OBin BMul 2%nat (ByRef 0%nat) (ByRef 0%nat); OBin BMul 2%nat (ByVal 2%nat) (ByRef 2%nat);
              OBin BMul 2%nat (ByRef 0%nat) (ByRef 0%nat); OBin BIMul 3%nat (ByRef 2%nat) (ByStatic Negative [5; 0; 1]);
              OShl 2%nat (ByVal 2%nat) 64; OShl 2%nat (ByVal 2%nat) 200;
              OBin BSub 0%nat (ByRef 0%nat) (ByRef 2%nat); OBin BSub 0%nat (ByVal 0%nat) (ByVal 2%nat);
              OAbs 1%nat; OSetBit 1%nat 640; OClrBit 1%nat 640; OSetBit 1%nat 200; OShr 0%nat (ByRef 3%nat) 100;
              OBin BAdd 2%nat (ByRef 3%nat) (ByVal 0%nat)] in
  Forall (op_ok 64 (2 ^ 58) 4) ops /\
  map (fun k => match run 64 (2 ^ 58) (firstn k ops) (repeat zero 4) mem0 with
                | Ok (pool, m) => (nlive m, map signed_cap pool) | _ => (-1, []) end) [3; 4; 8; 10; 12; 14; 15]%nat
  = [(1, [2; -1; 5; 1]); (0, [2; -1; 1; 2]); (2, [2; -1; 6; -9]); (2, [2; -1; 12; -9]); (1, [1; -1; 1; -9]);
     (2, [1; 14; 1; -9]); (1, [1; 1; 1; -9])] /\
  match run 64 (2 ^ 58) ops (repeat zero 4) mem0 with
  | Ok (pool, m) => nlive m = 3 /\ nwords m = 23 /\ map (signed_cap) pool = [1; 6; 8; -9] /\
                    match drop_all pool m with Ok (_, m') => nlive m' = 0 /\ nwords m' = 0 | _ => False end
  | _ => False
  end.
Proof.
  cbn zeta. split; [|split].
  - repeat (apply Forall_cons || apply Forall_nil); cbn [op_ok opnd_ok]; repeat split; try lia; right; cbn [last]; lia.
  - vm_compute. reflexivity.
  - vm_compute. repeat split; reflexivity.
Qed.

(** the ledger obligation of into_boxed_slice is not vacuous: the box of a 3-word value whose block still has
    its capacity of 5 words (a variant that skips the shrinking realloc for a "compact" buffer) is freed with
    the wrong size - guard 11; the modelled code ends with an empty heap *)
Example into_boxed_slice_ledger :
  let b := mkbuf 1 [1; 2; 3] 5 in
  let m := mkmem (upd (fun _ => None) 1 (Some 5)) 2 1 5 in
  drop_box (Some 1, [1; 2; 3]) m = Err 11 /\
  match (bx <- into_boxed_slice b ;; drop_box bx) m with Ok (_, m') => nlive m' = 0 /\ nwords m' = 0 | _ => False end.
Proof. cbn zeta. split; vm_compute; [reflexivity | split; reflexivity]. Qed.
