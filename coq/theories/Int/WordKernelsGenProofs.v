(** C01 round 4: every kernel REGENERATED from the Rust source (coq/gen/WordKernelsGen.v, written by
    tools/translate_c01_r4.py on every run) equals the hand-written model of Int/RingAdd.v / Int/RingMul.v, for every
    word size w and every input (no well-formedness needed: the equalities are between programs).  All theorems
    already proved about the hand models therefore hold for the generated functions; an edit of a loop body in
    add.rs / mul/mod.rs / math.rs changes the generated definition and breaks the corresponding lemma here.
    The fuelled `while` loops of sub_in_place_with_sign never run out of fuel (consequence of the equality). *)
From Dashu Require Import Base.Prelude Base.Words Int.RingAdd Int.RingMul Int.WordPrims.
From DashuGen Require Import WordKernelsGen.
Open Scope Z_scope.

Section GenEq.
Variable w : Z.

Lemma ov_add_awc a b : ov_add w a b = add_with_carry w a b false.
Proof. unfold ov_add, add_with_carry. cbn [b2z]. rewrite Z.add_0_r. reflexivity. Qed.
Lemma ov_sub_swb a b : ov_sub w a b = sub_with_borrow w a b false.
Proof. unfold ov_sub, sub_with_borrow. cbn [b2z]. rewrite Z.sub_0_r. reflexivity. Qed.

(** ---------------------------------------------------------------- math.rs *)
Lemma mul_add_carry_gen_eq a b c : mul_add_carry_gen w a b c = mul_add_carry w a b c.
Proof. reflexivity. Qed.
Lemma mul_add_2carry_gen_eq a b c0 c1 : mul_add_2carry_gen w a b c0 c1 = mul_add_2carry w a b c0 c1.
Proof. reflexivity. Qed.
Lemma mul_add_carry_dword_gen_eq a b c : mul_add_carry_dword_gen w a b c = mul_add_carry_dword w a b c.
Proof. reflexivity. Qed.

(** ---------------------------------------------------------------- add.rs *)
Lemma add_one_loop_gen_eq ws :
  add_one_in_place_loop_gen w ws = (fst (add_one_in_place w ws), if snd (add_one_in_place w ws) then None else Some false).
Proof.
  induction ws as [|x r IH]; [reflexivity|].
  cbn [add_one_in_place_loop_gen add_one_in_place]. rewrite ov_add_awc.
  destruct (add_with_carry w x 1 false) as [a o]. destruct o; cbn [negb].
  - rewrite IH. destruct (add_one_in_place w r) as [r' c]. reflexivity.
  - reflexivity.
Qed.
Theorem add_one_in_place_gen_eq ws : add_one_in_place_gen w ws = add_one_in_place w ws.
Proof.
  unfold add_one_in_place_gen. rewrite add_one_loop_gen_eq.
  destruct (add_one_in_place w ws) as [r c]. destruct c; reflexivity.
Qed.

Lemma sub_one_loop_gen_eq ws :
  sub_one_in_place_loop_gen w ws = (fst (sub_one_in_place w ws), if snd (sub_one_in_place w ws) then None else Some false).
Proof.
  induction ws as [|x r IH]; [reflexivity|].
  cbn [sub_one_in_place_loop_gen sub_one_in_place]. rewrite ov_sub_swb.
  destruct (sub_with_borrow w x 1 false) as [a o]. destruct o; cbn [negb].
  - rewrite IH. destruct (sub_one_in_place w r) as [r' c]. reflexivity.
  - reflexivity.
Qed.
Theorem sub_one_in_place_gen_eq ws : sub_one_in_place_gen w ws = sub_one_in_place w ws.
Proof.
  unfold sub_one_in_place_gen. rewrite sub_one_loop_gen_eq.
  destruct (sub_one_in_place w ws) as [r c]. destruct c; reflexivity.
Qed.

Theorem add_word_in_place_gen_eq ws rhs : add_word_in_place_gen w ws rhs = add_word_in_place w ws rhs.
Proof.
  destruct ws as [|x r]; [reflexivity|]. unfold add_word_in_place_gen, add_word_in_place. rewrite ov_add_awc.
  destruct (add_with_carry w x rhs false) as [a c]. destruct c; [|reflexivity].
  rewrite add_one_in_place_gen_eq. destruct (add_one_in_place w r); reflexivity.
Qed.
Theorem sub_word_in_place_gen_eq ws rhs : sub_word_in_place_gen w ws rhs = sub_word_in_place w ws rhs.
Proof.
  destruct ws as [|x r]; [reflexivity|]. unfold sub_word_in_place_gen, sub_word_in_place. rewrite ov_sub_swb.
  destruct (sub_with_borrow w x rhs false) as [a c]. destruct c; [|reflexivity].
  rewrite sub_one_in_place_gen_eq. destruct (sub_one_in_place w r); reflexivity.
Qed.

Theorem add_dword_in_place_gen_eq ws rhs : add_dword_in_place_gen w ws rhs = add_dword_in_place w ws rhs.
Proof.
  destruct ws as [|x0 [|x1 r]]; [reflexivity | reflexivity |].
  unfold add_dword_in_place_gen, add_dword_in_place, wsplit_dword. rewrite ov_add_awc.
  destruct (add_with_carry w x0 (rhs mod B w) false) as [s0 c].
  destruct (add_with_carry w x1 (rhs / B w) c) as [s1 c1]. destruct c1; [|reflexivity].
  rewrite add_one_in_place_gen_eq. destruct (add_one_in_place w r); reflexivity.
Qed.
Theorem sub_dword_in_place_gen_eq ws rhs : sub_dword_in_place_gen w ws rhs = sub_dword_in_place w ws rhs.
Proof.
  destruct ws as [|x0 [|x1 r]]; [reflexivity | reflexivity |].
  unfold sub_dword_in_place_gen, sub_dword_in_place, wsplit_dword. rewrite ov_sub_swb.
  destruct (sub_with_borrow w x0 (rhs mod B w) false) as [s0 c].
  destruct (sub_with_borrow w x1 (rhs / B w) c) as [s1 c1]. destruct c1; [|reflexivity].
  rewrite sub_one_in_place_gen_eq. destruct (sub_one_in_place w r); reflexivity.
Qed.

Lemma add_same_len_loop_gen_eq ws : forall rhs c, add_same_len_in_place_loop_gen w ws rhs c = add_same_len w ws rhs c.
Proof.
  induction ws as [|a ws IH]; intros [|b rhs] c; try reflexivity.
  cbn [add_same_len_in_place_loop_gen add_same_len]. destruct (add_with_carry w a b c) as [s c1].
  rewrite IH. destruct (add_same_len w ws rhs c1); reflexivity.
Qed.
Theorem add_same_len_in_place_gen_eq ws rhs : add_same_len_in_place_gen w ws rhs = add_same_len_in_place w ws rhs.
Proof.
  unfold add_same_len_in_place_gen, add_same_len_in_place. rewrite add_same_len_loop_gen_eq.
  destruct (add_same_len w ws rhs false); reflexivity.
Qed.
Lemma sub_same_len_loop_gen_eq ws : forall rhs c, sub_same_len_in_place_loop_gen w ws rhs c = sub_same_len w ws rhs c.
Proof.
  induction ws as [|a ws IH]; intros [|b rhs] c; try reflexivity.
  cbn [sub_same_len_in_place_loop_gen sub_same_len]. destruct (sub_with_borrow w a b c) as [s c1].
  rewrite IH. destruct (sub_same_len w ws rhs c1); reflexivity.
Qed.
Theorem sub_same_len_in_place_gen_eq ws rhs : sub_same_len_in_place_gen w ws rhs = sub_same_len_in_place w ws rhs.
Proof.
  unfold sub_same_len_in_place_gen, sub_same_len_in_place. rewrite sub_same_len_loop_gen_eq.
  destruct (sub_same_len w ws rhs false); reflexivity.
Qed.
Lemma sub_same_len_swap_loop_gen_eq lhs : forall rhs c,
  sub_same_len_in_place_swap_loop_gen w lhs rhs c = sub_same_len_swap w lhs rhs c.
Proof.
  induction lhs as [|a lhs IH]; intros [|b rhs] c; try reflexivity.
  cbn [sub_same_len_in_place_swap_loop_gen sub_same_len_swap]. destruct (sub_with_borrow w a b c) as [s c1].
  rewrite IH. destruct (sub_same_len_swap w lhs rhs c1); reflexivity.
Qed.
Theorem sub_same_len_in_place_swap_gen_eq lhs rhs :
  sub_same_len_in_place_swap_gen w lhs rhs = sub_same_len_in_place_swap w lhs rhs.
Proof.
  unfold sub_same_len_in_place_swap_gen, sub_same_len_in_place_swap. rewrite sub_same_len_swap_loop_gen_eq.
  destruct (sub_same_len_swap w lhs rhs false); reflexivity.
Qed.

Theorem add_in_place_gen_eq lhs rhs : add_in_place_gen w lhs rhs = add_in_place w lhs rhs.
Proof.
  unfold add_in_place_gen, add_in_place. rewrite add_same_len_in_place_gen_eq.
  destruct (add_same_len_in_place w (firstn (length rhs) lhs) rhs) as [lo c]. destruct c; [|reflexivity].
  rewrite add_one_in_place_gen_eq. destruct (add_one_in_place w (skipn (length rhs) lhs)); reflexivity.
Qed.
Theorem sub_in_place_gen_eq lhs rhs : sub_in_place_gen w lhs rhs = sub_in_place w lhs rhs.
Proof.
  unfold sub_in_place_gen, sub_in_place. rewrite sub_same_len_in_place_gen_eq.
  destruct (sub_same_len_in_place w (firstn (length rhs) lhs) rhs) as [lo c]. destruct c; [|reflexivity].
  rewrite sub_one_in_place_gen_eq. destruct (sub_one_in_place w (skipn (length rhs) lhs)); reflexivity.
Qed.

Theorem add_signed_word_in_place_gen_eq ws rhs : add_signed_word_in_place_gen w ws rhs = add_signed_word_in_place w ws rhs.
Proof.
  unfold add_signed_word_in_place_gen, add_signed_word_in_place, is_empty, to_sign_magnitude, sign_of.
  destruct (Z.eqb_spec rhs 0) as [E|NE]; cbn [orb]; [reflexivity|].
  destruct ws as [|x r]; [reflexivity|].
  destruct (Z.ltb_spec rhs 0) as [Hn|Hp]; destruct (Z.ltb_spec 0 rhs) as [Hq|Hq]; try lia.
  - rewrite sub_word_in_place_gen_eq. replace (Z.abs rhs) with (- rhs) by lia.
    destruct (sub_word_in_place w (x :: r) (- rhs)); reflexivity.
  - rewrite add_word_in_place_gen_eq. replace (Z.abs rhs) with rhs by lia.
    destruct (add_word_in_place w (x :: r) rhs); reflexivity.
Qed.
Theorem add_signed_same_len_in_place_gen_eq ws s rhs :
  add_signed_same_len_in_place_gen w ws s rhs = add_signed_same_len_in_place w ws s rhs.
Proof.
  unfold add_signed_same_len_in_place_gen, add_signed_same_len_in_place. destruct s.
  - rewrite add_same_len_in_place_gen_eq. destruct (add_same_len_in_place w ws rhs); reflexivity.
  - rewrite sub_same_len_in_place_gen_eq. destruct (sub_same_len_in_place w ws rhs); reflexivity.
Qed.
Theorem add_signed_in_place_gen_eq ws s rhs : add_signed_in_place_gen w ws s rhs = add_signed_in_place w ws s rhs.
Proof.
  unfold add_signed_in_place_gen, add_signed_in_place. destruct s.
  - rewrite add_in_place_gen_eq. destruct (add_in_place w ws rhs); reflexivity.
  - rewrite sub_in_place_gen_eq. destruct (sub_in_place w ws rhs); reflexivity.
Qed.

(** ---------------------------------------------------------------- sub_in_place_with_sign: three `while` loops *)
Lemma trim_len_char : forall ws n, (n <= length ws)%nat ->
  (forall i, (n <= i < length ws)%nat -> nth i ws 0 = 0) -> (n = O \/ nth (n - 1) ws 0 <> 0) -> trim_len ws = n.
Proof.
  induction ws as [|x r IH]; intros n Hn Hz Ht; cbn [length] in *.
  - cbn [trim_len]. lia.
  - cbn [trim_len]. destruct n as [|m].
    + rewrite (IH O); [| lia | intros i Hi; apply (Hz (S i)); lia | now left].
      assert (E : x = 0) by (apply (Hz O); lia). subst x. reflexivity.
    + rewrite (IH m); [| lia | intros i Hi; apply (Hz (S i)); lia |].
      * destruct m as [|k]; [|reflexivity].
        destruct Ht as [Ht|Ht]; [discriminate|]. cbn [Nat.sub nth] in Ht.
        destruct (Z.eqb_spec x 0); [contradiction | reflexivity].
      * destruct m as [|k]; [now left | right].
        destruct Ht as [Ht|Ht]; [discriminate|]. cbn [Nat.sub nth] in Ht. cbn [Nat.sub].
        rewrite Nat.sub_0_r in *. exact Ht.
Qed.

Lemma trim_while_gen_eq lhs : forall fuel n, (n < fuel)%nat -> (n <= length lhs)%nat ->
  (forall i, (n <= i < length lhs)%nat -> nth i lhs 0 = 0) ->
  sub_in_place_with_sign_while_gen w lhs fuel n = (trim_len lhs, false).
Proof.
  induction fuel as [|fuel IH]; intros n Hf Hn Hz; [lia|].
  cbn [sub_in_place_with_sign_while_gen]. destruct n as [|m].
  - cbn [Nat.eqb negb andb]. rewrite (trim_len_char lhs O); auto; lia.
  - cbn [Nat.eqb negb andb]. replace (S m - 1)%nat with m by lia.
    destruct (Z.eqb_spec (nth m lhs 0) 0) as [E|NE].
    + apply IH; [lia | lia |]. intros i Hi. destruct (Nat.eq_dec i m) as [->|Hne]; [exact E | apply Hz; lia].
    + rewrite (trim_len_char lhs (S m)); auto. right. replace (S m - 1)%nat with m by lia. exact NE.
Qed.
Lemma trim_while2_gen_eq rhs : forall fuel n, (n < fuel)%nat -> (n <= length rhs)%nat ->
  (forall i, (n <= i < length rhs)%nat -> nth i rhs 0 = 0) ->
  sub_in_place_with_sign_while2_gen w rhs fuel n = (trim_len rhs, false).
Proof.
  induction fuel as [|fuel IH]; intros n Hf Hn Hz; [lia|].
  cbn [sub_in_place_with_sign_while2_gen]. destruct n as [|m].
  - cbn [Nat.eqb negb andb]. rewrite (trim_len_char rhs O); auto; lia.
  - cbn [Nat.eqb negb andb]. replace (S m - 1)%nat with m by lia.
    destruct (Z.eqb_spec (nth m rhs 0) 0) as [E|NE].
    + apply IH; [lia | lia |]. intros i Hi. destruct (Nat.eq_dec i m) as [->|Hne]; [exact E | apply Hz; lia].
    + rewrite (trim_len_char rhs (S m)); auto. right. replace (S m - 1)%nat with m by lia. exact NE.
Qed.

(** the equal-length arm: the fuelled loop returns what sub_sign_eq returns (and never runs out of fuel) *)
Lemma eq_while3_gen_eq rhs : forall fuel n lhs, (n < fuel)%nat ->
  exists n' ret, sub_in_place_with_sign_while3_gen w rhs fuel lhs n = (fst (sub_sign_eq w n lhs rhs), n', ret, false) /\
                 match ret with Some v => v | None => Positive end = snd (sub_sign_eq w n lhs rhs).
Proof.
  induction fuel as [|fuel IH]; intros n lhs Hf; [lia|].
  cbn [sub_in_place_with_sign_while3_gen]. destruct n as [|k].
  - cbn [Nat.eqb negb]. exists O, None. split; reflexivity.
  - cbn [Nat.eqb negb]. replace (S k - 1)%nat with k by lia. cbn [sub_sign_eq].
    destruct (nth k lhs 0 ?= nth k rhs 0).
    + apply IH. lia.
    + rewrite sub_same_len_in_place_swap_gen_eq.
      destruct (sub_same_len_in_place_swap w (firstn (S k) rhs) (firstn (S k) lhs)) as [r b].
      exists (S k), (Some Negative). split; reflexivity.
    + rewrite sub_same_len_in_place_gen_eq.
      destruct (sub_same_len_in_place w (firstn (S k) lhs) (firstn (S k) rhs)) as [r b].
      exists (S k), (Some Positive). split; reflexivity.
Qed.

(** list bookkeeping for the index-based slices of the generated code *)
Lemma firstn_app_exact {A} (a b : list A) n : length a = n -> firstn n (a ++ b) = a.
Proof. intros <-. rewrite firstn_app, Nat.sub_diag, firstn_all. cbn [firstn]. apply app_nil_r. Qed.
Lemma skipn_app_exact {A} (a b : list A) n : length a = n -> skipn n (a ++ b) = b.
Proof. intros <-. rewrite skipn_app, Nat.sub_diag, skipn_all. reflexivity. Qed.
Lemma skipn_app_ge {A} (a b : list A) n m : length a = n -> (n <= m)%nat -> skipn m (a ++ b) = skipn (m - n) b.
Proof. intros <- H. rewrite skipn_app, skipn_all2 by lia. reflexivity. Qed.

Lemma skipn_skipn' {A} (x y : nat) (l : list A) : skipn x (skipn y l) = skipn (x + y) l.
Proof.
  revert l. induction y as [|y IH]; intros l; [now rewrite Nat.add_0_r|].
  rewrite Nat.add_succ_r. destruct l as [|a l]; [now rewrite !skipn_nil|]. cbn [skipn]. apply IH.
Qed.

Lemma sub_same_len_swap_length lhs : forall rhs c, length (fst (sub_same_len_swap w lhs rhs c)) = length rhs.
Proof.
  induction lhs as [|a lhs IH]; intros [|b rhs] c; try reflexivity.
  cbn [sub_same_len_swap]. destruct (sub_with_borrow w a b c) as [s c1]. specialize (IH rhs c1).
  destruct (sub_same_len_swap w lhs rhs c1). cbn [fst length] in *. now rewrite IH.
Qed.
Lemma sub_one_in_place_length ws : length (fst (sub_one_in_place w ws)) = length ws.
Proof.
  induction ws as [|x r IH]; [reflexivity|]. cbn [sub_one_in_place].
  destruct (sub_with_borrow w x 1 false) as [a o]. destruct o; [|reflexivity].
  destruct (sub_one_in_place w r). cbn [fst length] in *. now rewrite IH.
Qed.

Lemma trim_len_le' ws : (trim_len ws <= length ws)%nat.
Proof.
  induction ws as [|x r IH]; cbn [trim_len length]; [lia|].
  destruct (trim_len r); [destruct (x =? 0); lia | lia].
Qed.

Theorem sub_in_place_with_sign_gen_eq lhs rhs : sub_in_place_with_sign_gen w lhs rhs = sub_in_place_with_sign w lhs rhs.
Proof.
  unfold sub_in_place_with_sign_gen, sub_in_place_with_sign. cbv zeta.
  rewrite (trim_while_gen_eq lhs (S (length lhs)) (length lhs)) by (try lia; intros; lia). cbv beta iota.
  rewrite (trim_while2_gen_eq rhs (S (length rhs)) (length rhs)) by (try lia; intros; lia). cbv beta iota.
  pose proof (trim_len_le' lhs) as Hl. pose proof (trim_len_le' rhs) as Hr.
  set (ll := trim_len lhs) in *. set (rl := trim_len rhs) in *.
  destruct (Nat.compare ll rl) eqn:C.
  - destruct (eq_while3_gen_eq rhs (S ll) ll lhs ltac:(lia)) as (n' & ret & E & Hs). rewrite E. cbv beta iota.
    destruct (sub_sign_eq w ll lhs rhs) as [l s]. cbn [fst snd] in *. destruct ret; subst; reflexivity.
  - apply Nat.compare_lt_iff in C. rewrite sub_same_len_in_place_swap_gen_eq.
    pose proof (sub_same_len_swap_length (firstn ll rhs) (firstn ll lhs) false) as Lt1.
    unfold sub_same_len_in_place_swap in *.
    destruct (sub_same_len_swap w (firstn ll rhs) (firstn ll lhs) false) as [t1 b]. cbn [fst] in Lt1.
    rewrite firstn_length_le in Lt1 by lia.
    set (mid := firstn (rl - ll) (skipn ll rhs)).
    assert (Lm : length mid = (rl - ll)%nat).
    { unfold mid. rewrite firstn_length_le; [reflexivity|]. rewrite skipn_length. lia. }
    rewrite (firstn_app_exact t1 _ ll Lt1).
    rewrite (skipn_app_ge t1 (skipn ll lhs) ll rl Lt1) by lia. rewrite skipn_skipn'.
    replace (rl - ll + ll)%nat with rl by lia.
    destruct b; [|reflexivity].
    rewrite (skipn_app_exact t1 _ ll Lt1), (firstn_app_exact mid _ (rl - ll)%nat Lm), sub_one_in_place_gen_eq.
    pose proof (sub_one_in_place_length mid) as L2.
    destruct (sub_one_in_place w mid) as [t2 r2]. cbn [fst] in *.
    rewrite (firstn_app_exact t1 _ ll Lt1). rewrite (app_assoc t1 mid).
    rewrite (skipn_app_exact (t1 ++ mid) _ rl) by (rewrite app_length; lia). reflexivity.
  - rewrite sub_in_place_gen_eq. destruct (sub_in_place w (firstn ll lhs) (firstn rl rhs)); reflexivity.
Qed.

(** ---------------------------------------------------------------- mul/mod.rs *)
Lemma mul_word_loop_gen_eq rhs ws : forall carry,
  mul_word_in_place_with_carry_loop_gen w rhs ws carry = mul_word_loop w ws rhs carry.
Proof.
  induction ws as [|a ws IH]; intros carry; [reflexivity|].
  cbn [mul_word_in_place_with_carry_loop_gen mul_word_loop]. rewrite mul_add_carry_gen_eq.
  destruct (mul_add_carry w a rhs carry) as [lo hi]. rewrite IH. destruct (mul_word_loop w ws rhs hi); reflexivity.
Qed.
Theorem mul_word_in_place_with_carry_gen_eq ws rhs carry :
  mul_word_in_place_with_carry_gen w ws rhs carry = mul_word_in_place_with_carry w ws rhs carry.
Proof.
  unfold mul_word_in_place_with_carry_gen, mul_word_in_place_with_carry. destruct (rhs =? 0); [reflexivity|].
  rewrite mul_word_loop_gen_eq. destruct (mul_word_loop w ws rhs carry); reflexivity.
Qed.
Theorem mul_word_in_place_gen_eq ws rhs : mul_word_in_place_gen w ws rhs = mul_word_in_place w ws rhs.
Proof.
  unfold mul_word_in_place_gen, mul_word_in_place. rewrite mul_word_in_place_with_carry_gen_eq.
  destruct (mul_word_in_place_with_carry w ws rhs 0); reflexivity.
Qed.

Lemma list_ind2 {A} (P : list A -> Prop) : P [] -> (forall x, P [x]) -> (forall x y l, P l -> P (x :: y :: l)) -> forall l, P l.
Proof.
  intros H0 H1 H2. fix F 1. intros [|x [|y l]]; [exact H0 | apply H1 | apply H2, F].
Qed.

(** the remainder step of mul_dword_in_place, as the generated function has it after its chunk loop *)
Definition dword_tail_gen (rhs : Z) (words_rem : list Z) (carry : Z) : Z * list Z :=
  if negb (is_empty words_rem) then
    match words_rem with
    | [] => (carry, words_rem)
    | r0 :: r0_tl =>
        let '(m_lo, m_hi) := wsplit_dword w rhs in
        let '(c_lo, c_hi) := wsplit_dword w carry in
        let '(n_lo, nc_lo) := mul_add_carry_gen w r0 m_lo c_lo in
        let '(n_hi, nc_hi) := mul_add_2carry_gen w r0 m_hi nc_lo c_hi in
        (wdouble_word w n_hi nc_hi, n_lo :: r0_tl)
    end
  else (carry, words_rem).

Lemma mul_dword_in_place_gen_unfold ws rhs :
  mul_dword_in_place_gen w ws rhs =
  let '(d, r, c) := mul_dword_in_place_loop_gen w rhs ws 0 in
  let '(c2, r2) := dword_tail_gen rhs r c in (d ++ r2, c2).
Proof. reflexivity. Qed.

Lemma mul_dword_loop_gen_eq rhs ws : forall carry,
  (let '(d, r, c) := mul_dword_in_place_loop_gen w rhs ws carry in
   let '(c2, r2) := dword_tail_gen rhs r c in (d ++ r2, c2)) = mul_dword_loop w ws rhs carry.
Proof.
  induction ws as [| x | lo hi t IH] using list_ind2; intros carry.
  - reflexivity.
  - reflexivity.
  - cbn [mul_dword_in_place_loop_gen mul_dword_loop]. rewrite mul_add_carry_dword_gen_eq.
    change (wdouble_word w lo hi) with (lo + B w * hi).
    destruct (mul_add_carry_dword w (lo + B w * hi) rhs carry) as [p nc].
    change (wsplit_dword w p) with (split_dword w p). destruct (split_dword w p) as [nlo nhi].
    rewrite <- (IH nc). destruct (mul_dword_in_place_loop_gen w rhs t nc) as [[d r] c].
    destruct (dword_tail_gen rhs r c) as [c2 r2]. reflexivity.
Qed.
Theorem mul_dword_in_place_gen_eq ws rhs : mul_dword_in_place_gen w ws rhs = mul_dword_in_place w ws rhs.
Proof. rewrite mul_dword_in_place_gen_unfold. apply mul_dword_loop_gen_eq. Qed.

Lemma add_mul_word_loop_gen_eq mult ws : forall rhs carry,
  add_mul_word_same_len_in_place_loop_gen w mult ws rhs carry = add_mul_word_loop w ws mult rhs carry.
Proof.
  induction ws as [|a ws IH]; intros [|b rhs] carry; try reflexivity.
  cbn [add_mul_word_same_len_in_place_loop_gen add_mul_word_loop]. rewrite mul_add_2carry_gen_eq.
  destruct (mul_add_2carry w mult b a carry) as [lo hi]. rewrite IH. destruct (add_mul_word_loop w ws mult rhs hi); reflexivity.
Qed.
Theorem add_mul_word_same_len_in_place_gen_eq ws mult rhs :
  add_mul_word_same_len_in_place_gen w ws mult rhs = add_mul_word_same_len_in_place w ws mult rhs.
Proof.
  unfold add_mul_word_same_len_in_place_gen, add_mul_word_same_len_in_place. destruct (mult =? 0); [reflexivity|].
  cbv zeta. rewrite add_mul_word_loop_gen_eq. destruct (add_mul_word_loop w ws mult rhs 0); reflexivity.
Qed.

Lemma sub_mul_word_loop_gen_eq mult ws : forall rhs cpm,
  sub_mul_word_same_len_in_place_loop_gen w mult ws rhs cpm = sub_mul_word_loop w ws mult rhs cpm.
Proof.
  induction ws as [|a ws IH]; intros [|b rhs] cpm; try reflexivity.
  cbn [sub_mul_word_same_len_in_place_loop_gen sub_mul_word_loop]. unfold wdouble_word. rewrite Z.add_0_l.
  change (wsplit_dword w ?v) with (split_dword w v).
  destruct (split_dword w (a + cpm + (B w * (B w - 1) - (B w - 1)) - mult * b)) as [lo hi].
  rewrite IH. destruct (sub_mul_word_loop w ws mult rhs hi); reflexivity.
Qed.
Theorem sub_mul_word_same_len_in_place_gen_eq ws mult rhs :
  sub_mul_word_same_len_in_place_gen w ws mult rhs = sub_mul_word_same_len_in_place w ws mult rhs.
Proof.
  unfold sub_mul_word_same_len_in_place_gen, sub_mul_word_same_len_in_place. destruct (mult =? 0); [reflexivity|].
  cbv zeta. rewrite sub_mul_word_loop_gen_eq. destruct (sub_mul_word_loop w ws mult rhs (B w - 1)); reflexivity.
Qed.

(** ---------------------------------------------------------------- mul/simple.rs: the schoolbook rows.
    The generated loop indexes into c (`c[i..i + a.len()]`, `c[i + a.len()]`); the hand model peels one word of c per
    row.  They agree whenever the rows stay inside c (the code's debug_assert: c.len() == a.len() + b.len()). *)
Lemma nth_skipn' {A} i n (l : list A) d : nth i (skipn n l) d = nth (n + i) l d.
Proof.
  revert l. induction n as [|n IH]; intros l; [reflexivity|].
  destruct l as [|a l]; [destruct i; reflexivity|]. cbn [skipn Nat.add nth]. apply IH.
Qed.
Lemma add_mul_word_loop_length mult ws : forall rhs carry, length (fst (add_mul_word_loop w ws mult rhs carry)) = length ws.
Proof.
  induction ws as [|a ws IH]; intros [|b rhs] carry; try reflexivity.
  cbn [add_mul_word_loop]. destruct (mul_add_2carry w mult b a carry) as [lo hi]. specialize (IH rhs hi).
  destruct (add_mul_word_loop w ws mult rhs hi). cbn [fst length] in *. now rewrite IH.
Qed.
Lemma add_mul_word_same_len_length ws mult rhs : length (fst (add_mul_word_same_len_in_place w ws mult rhs)) = length ws.
Proof. unfold add_mul_word_same_len_in_place. destruct (mult =? 0); [reflexivity | apply add_mul_word_loop_length]. Qed.
Lemma sub_mul_word_loop_length mult ws : forall rhs cpm, length (fst (sub_mul_word_loop w ws mult rhs cpm)) = length ws.
Proof.
  induction ws as [|a ws IH]; intros [|b rhs] cpm; try reflexivity.
  cbn [sub_mul_word_loop]. destruct (split_dword w (a + cpm + (B w * (B w - 1) - (B w - 1)) - mult * b)) as [lo hi].
  specialize (IH rhs hi). destruct (sub_mul_word_loop w ws mult rhs hi). cbn [fst length] in *. now rewrite IH.
Qed.
Lemma sub_mul_word_same_len_length ws mult rhs : length (fst (sub_mul_word_same_len_in_place w ws mult rhs)) = length ws.
Proof.
  unfold sub_mul_word_same_len_in_place. destruct (mult =? 0); [reflexivity|].
  pose proof (sub_mul_word_loop_length mult ws rhs (B w - 1)) as H.
  destruct (sub_mul_word_loop w ws mult rhs (B w - 1)). exact H.
Qed.

(** one row written at offset i = the row of the hand model on the suffix *)
Lemma row_rebuild (c lo : list Z) (i la : nat) (top : Z) : (i + la < length c)%nat -> length lo = la ->
  set_nth (i + la) top (firstn i c ++ lo ++ skipn (i + la) c) = firstn i c ++ (lo ++ top :: skipn (S la) (skipn i c)).
Proof.
  intros H L. unfold set_nth. rewrite skipn_skipn'. replace (S la + i)%nat with (S (i + la)) by lia.
  assert (LA : length (firstn i c ++ lo) = (i + la)%nat) by (rewrite app_length, firstn_length_le; lia).
  rewrite (app_assoc (firstn i c) lo). rewrite (firstn_app_exact _ _ _ LA).
  rewrite (skipn_app_ge _ _ (i + la) (S (i + la)) LA) by lia. replace (S (i + la) - (i + la))%nat with 1%nat by lia.
  rewrite skipn_skipn'. replace (1 + (i + la))%nat with (S (i + la)) by lia. rewrite <- app_assoc. reflexivity.
Qed.
Lemma row_top (c lo : list Z) (i la : nat) : (i <= length c)%nat -> length lo = la ->
  nth (i + la) (firstn i c ++ lo ++ skipn (i + la) c) 0 = nth la (skipn i c) 0.
Proof.
  intros H L. rewrite app_nth2 by (rewrite firstn_length_le; lia). rewrite firstn_length_le by lia.
  rewrite app_nth2 by lia. rewrite !nth_skipn'. f_equal. lia.
Qed.

Lemma add_mul_chunk_loop_gen_eq a : forall b i c carry, (i + length a + length b <= length c)%nat ->
  add_mul_chunk_loop_gen w a i b c carry = let '(r, cf) := add_mul_chunk w (skipn i c) a b carry in (firstn i c ++ r, cf).
Proof.
  induction b as [|m b IH]; intros i c carry H.
  - cbn [add_mul_chunk_loop_gen add_mul_chunk]. now rewrite firstn_skipn.
  - cbn [add_mul_chunk_loop_gen add_mul_chunk length] in *.
    replace (i + length a - i)%nat with (length a) by lia. rewrite add_mul_word_same_len_in_place_gen_eq.
    pose proof (add_mul_word_same_len_length (firstn (length a) (skipn i c)) m a) as Llo.
    destruct (add_mul_word_same_len_in_place w (firstn (length a) (skipn i c)) m a) as [lo cw]. cbn [fst] in Llo.
    rewrite firstn_length_le in Llo by (rewrite skipn_length; lia).
    rewrite (row_top c lo i (length a)) by lia.
    destruct (add_with_carry w (nth (length a) (skipn i c) 0) cw carry) as [top cn].
    rewrite (row_rebuild c lo i (length a) top) by lia.
    destruct (lo ++ top :: skipn (S (length a)) (skipn i c)) as [|x c1] eqn:EL.
    { exfalso. destruct lo; discriminate EL. }
    assert (Lc1 : length (x :: c1) = (length c - i)%nat).
    { rewrite <- EL, app_length. cbn [length]. rewrite !skipn_length. lia. }
    cbn [length] in Lc1.
    assert (LA : length (firstn i c ++ [x]) = S i) by (rewrite app_length, firstn_length_le; cbn [length]; lia).
    replace (firstn i c ++ x :: c1) with ((firstn i c ++ [x]) ++ c1) by (rewrite <- app_assoc; reflexivity).
    rewrite IH by (rewrite app_length, LA; lia).
    rewrite (skipn_app_exact _ _ _ LA), (firstn_app_exact _ _ _ LA).
    destruct (add_mul_chunk w c1 a b cn) as [r cf]. rewrite <- app_assoc. reflexivity.
Qed.
Theorem add_mul_chunk_gen_eq c a b : (length a + length b <= length c)%nat ->
  add_mul_chunk_gen w c a b = add_mul_chunk w c a b false.
Proof.
  intros H. unfold add_mul_chunk_gen. cbv zeta. rewrite add_mul_chunk_loop_gen_eq by (cbn; lia).
  cbn [skipn firstn app]. destruct (add_mul_chunk w c a b false); reflexivity.
Qed.

Lemma sub_mul_chunk_loop_gen_eq a : forall b i c borrow, (i + length a + length b <= length c)%nat ->
  sub_mul_chunk_loop_gen w a i b c borrow = let '(r, cf) := sub_mul_chunk w (skipn i c) a b borrow in (firstn i c ++ r, cf).
Proof.
  induction b as [|m b IH]; intros i c borrow H.
  - cbn [sub_mul_chunk_loop_gen sub_mul_chunk]. now rewrite firstn_skipn.
  - cbn [sub_mul_chunk_loop_gen sub_mul_chunk length] in *.
    replace (i + length a - i)%nat with (length a) by lia. rewrite sub_mul_word_same_len_in_place_gen_eq.
    pose proof (sub_mul_word_same_len_length (firstn (length a) (skipn i c)) m a) as Llo.
    destruct (sub_mul_word_same_len_in_place w (firstn (length a) (skipn i c)) m a) as [lo cw]. cbn [fst] in Llo.
    rewrite firstn_length_le in Llo by (rewrite skipn_length; lia).
    rewrite (row_top c lo i (length a)) by lia.
    destruct (sub_with_borrow w (nth (length a) (skipn i c) 0) cw borrow) as [top cn].
    rewrite (row_rebuild c lo i (length a) top) by lia.
    destruct (lo ++ top :: skipn (S (length a)) (skipn i c)) as [|x c1] eqn:EL.
    { exfalso. destruct lo; discriminate EL. }
    assert (Lc1 : length (x :: c1) = (length c - i)%nat).
    { rewrite <- EL, app_length. cbn [length]. rewrite !skipn_length. lia. }
    cbn [length] in Lc1.
    assert (LA : length (firstn i c ++ [x]) = S i) by (rewrite app_length, firstn_length_le; cbn [length]; lia).
    replace (firstn i c ++ x :: c1) with ((firstn i c ++ [x]) ++ c1) by (rewrite <- app_assoc; reflexivity).
    rewrite IH by (rewrite app_length, LA; lia).
    rewrite (skipn_app_exact _ _ _ LA), (firstn_app_exact _ _ _ LA).
    destruct (sub_mul_chunk w c1 a b cn) as [r cf]. rewrite <- app_assoc. reflexivity.
Qed.
Theorem sub_mul_chunk_gen_eq c a b : (length a + length b <= length c)%nat ->
  sub_mul_chunk_gen w c a b = sub_mul_chunk w c a b false.
Proof.
  intros H. unfold sub_mul_chunk_gen. cbv zeta. rewrite sub_mul_chunk_loop_gen_eq by (cbn; lia).
  cbn [skipn firstn app]. destruct (sub_mul_chunk w c a b false); reflexivity.
Qed.
Theorem add_signed_mul_chunk_gen_eq c s a b : (length a + length b <= length c)%nat ->
  add_signed_mul_chunk_gen w c s a b = add_signed_mul_chunk w c s a b.
Proof.
  intros H. unfold add_signed_mul_chunk_gen, add_signed_mul_chunk. destruct s.
  - rewrite add_mul_chunk_gen_eq by exact H. destruct (add_mul_chunk w c a b false); reflexivity.
  - rewrite sub_mul_chunk_gen_eq by exact H. destruct (sub_mul_chunk w c a b false); reflexivity.
Qed.
End GenEq.
