(** C12 round 4 - the u128 cube root of base/src/ring/root.rs (impl NormalizedRootRem for u128,
    normalized_cbrt_rem; as-is model GrlPrimRoot.ncbrt128): cube root c1 of the high 62 bits by the u64 routine
    (on the high 65 bits with [c >>= 1] when the top bit is clear), one division step
    q = (r1*B + b2) / (3*c1^2), c = c1*B + q (B = 2^22), remainder u*B^2 + low - (3*c1*B + q)*q^2 in i128, then the
    adjustment loop [while r < 0 { r += 3*(c-1)*c + 1; c -= 1 }].
    Every answer is the exact cube root with its remainder: c1*B + q is never BELOW the root (so the loop, which
    only decrements, ends at it), the i128 remainder is n - c^3 exactly, all inputs 2^125 <= n < 2^128. *)
From Dashu Require Import Base.Prelude Int.GrlKsqrt Int.GrlKsqrtProof Int.GrlPrimRoot Int.GrlPrimRootProof.
Open Scope Z_scope.

(** the adjustment loop keeps r = n - c^3 and n < (c+1)^3 *)
Lemma cbrt128_adjust_sound : forall fuel n c r c' r', 0 <= c -> r = n - c ^ 3 -> n < (c + 1) ^ 3 ->
  cbrt128_adjust fuel c r = Ok (c', r') -> cb c' n /\ r' = n - c' ^ 3.
Proof.
  induction fuel as [|k IH]; intros n c r c' r' Hc Hr Hn; [discriminate|].
  cbn [cbrt128_adjust]. destruct (Z.ltb_spec r 0) as [Hneg|Hpos].
  - destruct (Z.eqb_spec c 0); [discriminate|]. apply IH; [lia| |].
    + rewrite Hr. ring.
    + replace (c - 1 + 1) with c by ring. lia.
  - intros E. injection E as <- <-. split; [|exact Hr]. unfold cb. lia.
Qed.

(** halving the root of a value = root of the value / 8 *)
Lemma cb_half : forall c0 a, 0 <= a -> cb c0 a -> cb (c0 / 2) (a / 2 ^ 3).
Proof.
  intros c0 a Ha [H0 [H1 H2]]. set (c := c0 / 2).
  pose proof (Z.div_mod c0 2 ltac:(lia)) as D. pose proof (Z.mod_pos_bound c0 2 ltac:(lia)) as M. fold c in D.
  assert (0 <= c) as Pc by (unfold c; apply Z.div_pos; lia).
  assert ((2 * c) ^ 3 <= c0 ^ 3) by (apply Z.pow_le_mono_l; lia).
  assert ((c0 + 1) ^ 3 <= (2 * c + 2) ^ 3) by (apply Z.pow_le_mono_l; lia).
  replace ((2 * c) ^ 3) with (2 ^ 3 * c ^ 3) in * by ring.
  replace ((2 * c + 2) ^ 3) with (2 ^ 3 * (c + 1) ^ 3) in * by ring.
  unfold cb. split; [exact Pc|]. split.
  - apply Z.div_le_lower_bound; lia.
  - apply Z.div_lt_upper_bound; lia.
Qed.

(** the division step: the remainder identity and c1*B + q + 1 above the root *)
Lemma cbrt_div_step : forall n A c1 r1 B b2 low q u,
  0 < B -> 1 <= c1 -> A = c1 ^ 3 + r1 -> n = A * B ^ 3 + b2 * B ^ 2 + low ->
  0 <= b2 < B -> 0 <= low < B ^ 2 -> 0 <= q ->
  r1 * B + b2 = q * (3 * (c1 * c1)) + u -> 0 <= u < 3 * (c1 * c1) ->
  n - (c1 * B + q) ^ 3 = u * B ^ 2 + low - (3 * c1 * B + q) * (q * q) /\ n < (c1 * B + q + 1) ^ 3.
Proof.
  intros n A c1 r1 B b2 low q u HB Hc1 EA En Hb2 Hlow Hq Ediv Hu.
  set (den := 3 * (c1 * c1)) in *.
  assert (n = (c1 * B) ^ 3 + (q * den + u) * B ^ 2 + low) as En2.
  { rewrite En, EA, <- Ediv. ring. }
  split.
  - rewrite En2. unfold den. ring.
  - set (X := c1 * B). set (Y := q + 1).
    assert (0 <= X) by (unfold X; apply Z.mul_nonneg_nonneg; lia).
    assert (0 <= Y) by (unfold Y; lia).
    assert ((X + Y) ^ 3 = X ^ 3 + 3 * X ^ 2 * Y + (3 * X * Y ^ 2 + Y ^ 3)) as E3 by ring.
    assert (0 <= 3 * X * Y ^ 2 + Y ^ 3).
    { apply Z.add_nonneg_nonneg; [|apply Z.pow_nonneg; lia].
      apply Z.mul_nonneg_nonneg; [lia|apply Z.pow_nonneg; lia]. }
    assert (0 < B ^ 2) as PB2 by (apply Z.pow_pos_nonneg; lia).
    assert ((u + 1) * B ^ 2 <= den * B ^ 2) as Hub by (apply Z.mul_le_mono_nonneg_r; lia).
    assert (3 * X ^ 2 * Y = q * den * B ^ 2 + den * B ^ 2) as E4 by (unfold X, Y, den; ring).
    replace (X + q + 1) with (X + Y) by (unfold Y; ring).
    rewrite E3, E4, En2. fold X.
    replace ((q * den + u) * B ^ 2) with (q * den * B ^ 2 + u * B ^ 2) by ring.
    replace ((u + 1) * B ^ 2) with (u * B ^ 2 + B ^ 2) in Hub by ring. lia.
Qed.

Theorem ncbrt128_sound : forall fuel n c r, 0 <= n < 2 ^ 128 -> ncbrt128 fuel n = Ok (c, r) -> cb c n /\ r = n - c ^ 3.
Proof.
  intros fuel n c r Hn H. unfold ncbrt128 in H.
  destruct (Z.ltb_spec n (2 ^ 125)) as [|Hlo]; [discriminate|].
  set (A := n / 2 ^ 66).
  assert (2 ^ 59 <= A < 2 ^ 62) as HA.
  { unfold A. split; [apply Z.div_le_lower_bound; lia|apply Z.div_lt_upper_bound; lia]. }
  (* step 1: the cube root of the high part *)
  match type of H with rbind ?first _ = _ => assert (forall c1 r1, first = Ok (c1, r1) -> cb c1 A /\ r1 = A - c1 ^ 3) as S1 end.
  { intros c1 r1. destruct (Z.ltb_spec n (2 ^ 127)) as [Hs|Hs].
    - set (a := (n / 2 ^ 63) mod T64).
      assert (a = n / 2 ^ 63) as Ea.
      { unfold a. apply Z.mod_small. split; [apply Z.div_pos; lia|]. apply Z.div_lt_upper_bound; [lia|]. unfold T64. lia. }
      assert (a / 2 ^ 3 = A) as EaA by (rewrite Ea; unfold A; rewrite Z.div_div by lia; reflexivity).
      intros E. bind_inv E.
      match goal with E0 : ncbrt64 _ _ = Ok ?p |- _ => destruct p as [c0 e0]; destruct (ncbrt64_sound _ _ _ _ E0) as [C0 _] end.
      cbn [fst] in *.
      match goal with E1 : chk T64 (_ * _ * _) = Ok ?z |- _ => destruct (chk_ok _ _ _ E1) as [-> _] end.
      match goal with E2 : chk T64 (_ - _) = Ok ?z |- _ => destruct (chk_ok _ _ _ E2) as [-> _] end.
      injection E as <- <-.
      assert (0 <= a) as Pa by (rewrite Ea; apply Z.div_pos; lia).
      pose proof (cb_half c0 a Pa C0) as CH. rewrite EaA in CH. split; [exact CH|]. change (Z.pow_pos 2 3) with (2 ^ 3). rewrite EaA. ring.
    - intros E. apply ncbrt64_sound in E. exact E. }
  match type of H with rbind ?first _ = _ => destruct first as [[c1 r1]|?|?|] eqn:E1; cbn [rbind] in H; try discriminate H end.
  destruct (S1 c1 r1 eq_refl) as [[P1 [L1 U1]] Er1]. clear S1 E1.
  set (B := 2 ^ 22). set (b2 := (n / 2 ^ 44) mod 2 ^ 22) in *. set (low := n mod 2 ^ 44) in *.
  assert (0 <= b2 < B) as Hb2 by (unfold b2, B; apply Z.mod_pos_bound; lia).
  assert (0 <= low < B ^ 2) as Hlow by (unfold low; change (B ^ 2) with (2 ^ 44); apply Z.mod_pos_bound; lia).
  assert (n = A * B ^ 3 + b2 * B ^ 2 + low) as En.
  { unfold A, b2, low. change (B ^ 3) with (2 ^ 66). change (B ^ 2) with (2 ^ 44).
    pose proof (Z.div_mod n (2 ^ 44) ltac:(lia)) as D1.
    pose proof (Z.div_mod (n / 2 ^ 44) (2 ^ 22) ltac:(lia)) as D2.
    rewrite Z.div_div in D2 by lia. change (2 ^ 44 * 2 ^ 22) with (2 ^ 66) in D2. lia. }
  (* sizes: c1 < 2^21, r1 <= 3*c1^2 + 3*c1 *)
  assert (c1 < 2 ^ 21) as Hc1hi.
  { destruct (Z.lt_ge_cases c1 (2 ^ 21)) as [|Hge]; [assumption|exfalso].
    assert ((2 ^ 21) ^ 3 <= c1 ^ 3) by (apply Z.pow_le_mono_l; lia). change ((2 ^ 21) ^ 3) with (2 ^ 63) in *. lia. }
  assert (0 <= r1) as Pr1 by lia.
  assert (r1 <= 3 * (c1 * c1) + 3 * c1) as Hr1.
  { replace ((c1 + 1) ^ 3) with (c1 ^ 3 + 3 * (c1 * c1) + 3 * c1 + 1) in U1 by ring. lia. }
  assert (c1 * c1 < 2 ^ 42) as Hcc.
  { assert (c1 * c1 <= (2 ^ 21 - 1) * (2 ^ 21 - 1)) by (apply Z.mul_le_mono_nonneg; lia). lia. }
  (* r0 *)
  assert (Z.lor ((r1 * 2 ^ 22) mod T128) b2 = r1 * B + b2) as Er0.
  { rewrite Z.mod_small by (unfold T128; lia). apply lor_disjoint; [lia|exact Hb2]. }
  rewrite Er0 in H.
  set (den := 3 * (c1 * c1)) in *.
  destruct (Z.eqb_spec den 0) as [|Hden]; [discriminate H|].
  assert (1 <= c1) as Hc1.
  { destruct (Z.eq_dec c1 0) as [e|e]; [subst c1; unfold den in Hden; lia|lia]. }
  assert (0 < den) as Pden by (unfold den; assert (1 * 1 <= c1 * c1) by (apply Z.mul_le_mono_nonneg; lia); lia).
  set (r0 := r1 * B + b2) in *.
  assert (0 <= r0) as Pr0 by (unfold r0; assert (0 <= r1 * B) by (apply Z.mul_nonneg_nonneg; unfold B; lia); lia).
  pose proof (Z.div_mod r0 den ltac:(lia)) as Dq. pose proof (Z.mod_pos_bound r0 den Pden) as Hu.
  set (q := r0 / den) in *. set (u := r0 mod den) in *.
  assert (0 <= q) as Pq by (unfold q; apply Z.div_pos; lia).
  (* q < 3*B *)
  assert (q < 3 * B) as Hq3.
  { assert (r0 < 3 * B * den) as Hr03.
    { unfold r0. assert (r1 * B <= (3 * (c1 * c1) + 3 * c1) * B) by (apply Z.mul_le_mono_nonneg_r; unfold B; lia).
      assert (3 * c1 * 1 <= 3 * c1 * c1) by (apply Z.mul_le_mono_nonneg_l; lia).
      assert ((3 * (c1 * c1) + 3 * c1) * B + B <= 3 * B * den).
      { unfold den. replace (3 * B * (3 * (c1 * c1))) with ((9 * (c1 * c1)) * B) by ring.
        replace ((3 * (c1 * c1) + 3 * c1) * B + B) with ((3 * (c1 * c1) + 3 * c1 + 1) * B) by ring.
        apply Z.mul_le_mono_nonneg_r; [unfold B; lia|]. assert (1 * 1 <= c1 * c1) by (apply Z.mul_le_mono_nonneg; lia). lia. }
      lia. }
    destruct (Z.lt_ge_cases q (3 * B)) as [|Hge]; [assumption|exfalso].
    assert (3 * B * den <= q * den) by (apply Z.mul_le_mono_nonneg_r; lia). lia. }
  (* c *)
  bind_inv H.
  match goal with E : chk T64 (_ + _) = Ok ?z |- _ => destruct (chk_ok _ _ _ E) as [-> _]; clear E end.
  match goal with E : chk T128 _ = Ok ?z |- _ => destruct (chk_ok _ _ _ E) as [-> _]; clear E end.
  rewrite (Z.mod_small (c1 * 2 ^ 22) T64) in H by (unfold T64; lia).
  rewrite (Z.mod_small q T64) in H by (unfold T64, B in *; lia).
  rewrite (Z.mod_small (3 * c1 * 2 ^ 22) T128) in H by (unfold T128; lia).
  assert (Z.lor ((u * 2 ^ 44) mod T128) low = u * B ^ 2 + low) as Et1.
  { rewrite Z.mod_small.
    - change (B ^ 2) with (2 ^ 44). apply lor_disjoint; [lia|exact Hlow].
    - unfold T128. split; [lia|]. unfold den in Hu. lia. }
  rewrite Et1 in H.
  destruct (cbrt_div_step n A c1 r1 B b2 low q u ltac:(unfold B; lia) Hc1 ltac:(lia) En Hb2 Hlow Pq) as [Rid Rub].
  - fold r0. fold den. rewrite Dq at 1. ring.
  - exact Hu.
  - refine (cbrt128_adjust_sound _ n _ _ _ _ _ _ _ H).
    + assert (0 <= c1 * 2 ^ 22) by (apply Z.mul_nonneg_nonneg; lia). lia.
    + change (2 ^ 22) with B. rewrite Rid. ring.
    + change (2 ^ 22) with B. exact Rub.
Qed.

(** the normalising wrapper only calls the routine on values of the type *)
Theorem prim_cbrt_rem_sound_bounded : forall norm bits n c e, 0 <= n < 2 ^ bits ->
  (forall m c e, 0 <= m < 2 ^ bits -> norm m = Ok (c, e) -> cb c m /\ e = m - c ^ 3) ->
  prim_cbrt_rem norm bits n = Ok (c, e) -> cb c n /\ e = n - c ^ 3.
Proof.
  intros norm bits n c e Hn Hnorm. unfold prim_cbrt_rem.
  destruct (Z.eqb_spec n 0) as [z|z]; [intros E; injection E as <- <-; subst n; unfold cb; cbn; lia|].
  pose proof (lzeros_nonneg bits n ltac:(lia)) as Hlz. set (lz := lzeros bits n) in *.
  pose proof (Z.div_mod lz 3 ltac:(lia)) as D3. pose proof (Z.mod_pos_bound lz 3 ltac:(lia)) as M3.
  assert (0 <= lz / 3) as Hh by (apply Z.div_pos; lia).
  replace (lz - lz mod 3) with (3 * (lz / 3)) by lia. set (h := lz / 3) in *.
  assert (0 <= n * 2 ^ (3 * h) < 2 ^ bits) as Hm.
  { pose proof (Z.log2_spec n ltac:(lia)) as [_ L2]. unfold lz, lzeros in D3, M3.
    assert (2 ^ Z.succ (Z.log2 n) * 2 ^ (3 * h) <= 2 ^ bits).
    { rewrite <- Z.pow_add_r by (pose proof (Z.log2_nonneg n); lia). apply Z.pow_le_mono_r; lia. }
    assert (0 < 2 ^ (3 * h)) by (apply Z.pow_pos_nonneg; lia).
    assert (n * 2 ^ (3 * h) < 2 ^ Z.succ (Z.log2 n) * 2 ^ (3 * h)) by (apply Z.mul_lt_mono_pos_r; lia).
    split; [apply Z.mul_nonneg_nonneg; lia|lia]. }
  destruct (norm (n * 2 ^ (3 * h))) as [[c0 e0]|?|?|] eqn:E; unfold rbind; try discriminate.
  destruct (Hnorm _ _ _ Hm E) as [Hc He].
  destruct (Z.eqb_spec (3 * h) 0) as [z0|z0].
  - intros E2. injection E2 as <- <-. rewrite z0 in *. rewrite Z.pow_0_r, Z.mul_1_r in *. auto.
  - intros E2. apply Ok_inj in E2. change (fst (c0, e0)) with c0 in E2.
    assert (c = c0 / 2 ^ (3 * h / 3) /\ e = n - c0 / 2 ^ (3 * h / 3) * (c0 / 2 ^ (3 * h / 3)) * (c0 / 2 ^ (3 * h / 3))) as [-> ->] by (split; congruence).
    replace (3 * h / 3) with h by (symmetry; rewrite Z.mul_comm; apply Z.div_mul; lia).
    split; [apply cbrt_unshift; [lia|lia|exact Hc] | rewrite cube_eq; reflexivity].
Qed.

(** the wrapper with the u128 routine, every width *)
Theorem prim_cbrt_rem_asis_sound_all : forall fuel bits n c e,
  (bits = 8 \/ bits = 16 \/ bits = 32 \/ bits = 64 \/ bits = 128) -> 0 <= n < 2 ^ bits ->
  prim_cbrt_rem_asis fuel bits n = Ok (c, e) -> cb c n /\ e = n - c ^ 3.
Proof.
  intros fuel bits n c e Hb Hn H.
  destruct Hb as [B|[B|[B|[B|B]]]]; try (apply (prim_cbrt_rem_asis_sound fuel bits); [tauto|exact Hn|exact H]).
  subst bits. unfold prim_cbrt_rem_asis in H. cbn [Z.eqb Pos.eqb] in H.
  apply (prim_cbrt_rem_sound_bounded (ncbrt128 fuel) 128); [exact Hn| |exact H].
  intros m c0 e0 Hm. apply ncbrt128_sound. exact Hm.
Qed.

(** non-vacuity: both branches of step 1 and the adjustment loop *)
Example ncbrt128_examples :
  ncbrt128 8 (2 ^ 128 - 1) = Ok (6981463658331, 2 ^ 128 - 1 - 6981463658331 ^ 3) /\
  ncbrt128 8 (2 ^ 126 + 12345) = Ok (2 ^ 42, 12345) /\
  ncbrt128 8 (2 ^ 126 - 1) = Ok (2 ^ 42 - 1, 2 ^ 126 - 1 - (2 ^ 42 - 1) ^ 3) /\
  prim_cbrt_rem_asis 8 128 (10 ^ 30 - 1) = Ok (9999999999, 10 ^ 30 - 1 - 9999999999 ^ 3).
Proof. repeat split; vm_compute; reflexivity. Qed.
