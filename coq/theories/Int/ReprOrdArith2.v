(** C05, integer part, arithmetic producers, second half (deepening round 3).
    ReprOrdArith.v covers + - * sqr cubic on IBig and the bit operators / shifts on magnitudes.  Here the rest of
    the operator surface is composed with the full representation (capacity field, sign, inline / heap layout):
      - division: the magnitudes go through the TRANSCRIBED kernels of C02 (Int/DivSrcInst.v: s_repr_div_rem,
        s_repr_div, s_repr_rem - two-word primitives, division by a word / double word, Knuth D and Burnikel-Ziegler
        over C01's multiplier, nothing assumed), the seven signed forms through the regenerated sign tables
        (DashuGen.SignTables via Int/DivSpec.v ibig_form_asis);
      - & | ^ on IBig of any signs (C09: Int/BitsKernels.v ibig_bit*_asis over the word-level kernels), !x;
      - >> and << on IBig (C09: ibig_shr_asis / ibig_shr_ref_asis / ibig_shl_asis).
    Each of these models returns the integer the library then stores with Repr::from_buffer + with_sign (the
    buffer may be longer than needed: from_buffer pops the zero words); [store_fit] is that last step.
    Proved for every word size w >= 8 and all operands: the stored result is CANONICAL (inline iff at most two
    words, no leading zero word, zero positive) and has the value the property demands; lifted to all finite
    histories mixing these with the steps of ReprOrdArith.v. *)
From Dashu Require Import Base.Prelude Base.Words.
From Dashu Require Import Int.RingOps.
From Dashu Require Import Int.BitsSpec Int.BitsSign Int.BitsKernels Int.BitsKernelsBase Int.BitsSignedProofs Int.BitsShiftProofs.
From Dashu Require Import Int.DivSpec Int.DivSign Int.DivSrcInst Int.DivSrcInstProofs.
From Dashu Require Import Int.ReprOrdModel Int.ReprOrdProofs Int.ReprOrdArith Int.ReprOrdArith2Model.
From DashuGen Require Import SignTables.
Open Scope Z_scope.

Section Arith2.
Variable w : Z.
Hypothesis w_ge : 8 <= w.
Let w_pos : 0 < w. Proof. lia. Qed.
Notation B := (Words.B w).

(* ---------------------------------------------------------------- the last step of every operation *)

Notation fit_words := (fit_words w).
Notation store_fit := (store_fit w).
Notation ibig_bit := (ibig_bit w).
Notation ibig_not := (ibig_not w).
Notation ibig_shift := (ibig_shift w).
Notation sbit_fn := (sbit_fn w).
Notation sshift_fn := (sshift_fn w).
Notation ubig_div_rem := (ubig_div_rem w).
Notation ubig_div := (ubig_div w).
Notation ubig_rem := (ubig_rem w).
Notation ibig_divform := (ibig_divform w).

(** the definitions of the model file are the compositions of ReprOrdArith.v *)
Lemma to_b2_eq r : to_b2 w r = to_b w r.
Proof. reflexivity. Qed.
Lemma store_fit_eq c v : store_fit c v = store_value w c (fit_words v) v.
Proof. reflexivity. Qed.

Lemma fit_words_ok v : 0 <= fit_words v /\ Z.abs v < B ^ fit_words v.
Proof.
  unfold fit_words. pose proof (Z.log2_nonneg (Z.abs v)) as L0.
  assert (0 <= Z.log2 (Z.abs v) / w) as Q0 by (apply Z.div_pos; lia).
  split; [lia|]. unfold Words.B. rewrite <- Z.pow_mul_r by lia.
  destruct (Z.eq_dec (Z.abs v) 0) as [E|NE].
  - rewrite E. apply Z.pow_pos_nonneg; [lia|]. cbn. lia.
  - pose proof (Z.log2_spec (Z.abs v) ltac:(lia)) as [_ L2].
    eapply Z.lt_le_trans; [exact L2|]. apply Z.pow_le_mono_r; [lia|].
    pose proof (Z.mul_succ_div_gt (Z.log2 (Z.abs v)) w w_pos). lia.
Qed.

Theorem store_fit_ok c v : canonical w (store_fit c v) /\ rvalue w (store_fit c v) = v.
Proof. destruct (fit_words_ok v) as [N L]. rewrite store_fit_eq. apply (store_value_ok w w_ge); assumption. Qed.

(** the layout follows the size: a canonical value is inline exactly when its magnitude fits a double word *)
Theorem canonical_inline_iff r : canonical w r ->
  match r with Inline _ _ _ => Z.abs (rvalue w r) < B * B | Heap _ _ => B * B <= Z.abs (rvalue w r) end.
Proof.
  intros C. pose proof (typed_value w w_pos r C) as T. pose proof (slice_value_nonneg w w_pos r C) as N.
  assert (Z.abs (rvalue w r) = Words.value w (as_slice r)) as ->.
  { unfold rvalue, signed. destruct (rsign r); cbn [sgnz]; lia. }
  destruct r as [c lo hi|c ws]; cbn [as_typed] in T.
  - destruct T as [E R]. lia.
  - destruct T as [E R]. cbn [as_slice]. exact R.
Qed.

(* ---------------------------------------------------------------- views *)

Lemma to_b_mag_ok r : canonical w r -> BitsSignedProofs.mag_ok w (rsign r) (to_b2 w r) /\
  signed (rsign r) (bvalue w (to_b2 w r)) = rvalue w r.
Proof.
  intros C. rewrite to_b2_eq. destruct (to_b_ok w w_ge r C) as [K V]. pose proof (rvalue_sign w w_pos r C) as S.
  split; [split; [exact K|]|].
  - intros E. rewrite E in S. rewrite V. lia.
  - rewrite V. apply (signed_abs_rvalue w w_ge). exact C.
Qed.

(* ---------------------------------------------------------------- & | ^ ! on IBig *)

Theorem ibig_bit_ok f o c a b : canonical w a -> canonical w b ->
  canonical w (ibig_bit f o c a b) /\ rvalue w (ibig_bit f o c a b) = sbit_spec f (rvalue w a) (rvalue w b).
Proof.
  intros Ca Cb. destruct (to_b_mag_ok a Ca) as [Ma Va]. destruct (to_b_mag_ok b Cb) as [Mb Vb].
  unfold ibig_bit. destruct (store_fit_ok c (sbit_fn f o (rsign a) (to_b2 w a) (rsign b) (to_b2 w b))) as [C V].
  split; [exact C|]. rewrite V.
  destruct (ibig_bitops_asis_correct w w_pos o _ _ _ _ Ma Mb) as (E1 & E2 & E3).
  destruct f; cbn [sbit_fn sbit_spec]; [rewrite E1 | rewrite E2 | rewrite E3]; rewrite Va, Vb; reflexivity.
Qed.

Theorem ibig_not_ok byref c a : canonical w a ->
  canonical w (ibig_not byref c a) /\ rvalue w (ibig_not byref c a) = Z.lnot (rvalue w a).
Proof.
  intros Ca. destruct (to_b_mag_ok a Ca) as [_ Va]. unfold ibig_not.
  destruct (store_fit_ok c ((if byref then ibig_not_ref_gen else ibig_not_gen) (rsign a) (bvalue w (to_b2 w a)))) as [C V].
  split; [exact C|]. rewrite V. destruct (ibig_not_correct (rsign a) (bvalue w (to_b2 w a))) as [E1 E2].
  destruct byref; [rewrite E2 | rewrite E1]; rewrite Va; reflexivity.
Qed.

(* ---------------------------------------------------------------- >> << on IBig *)

Theorem ibig_shift_ok f c a n : canonical w a -> 0 <= n ->
  canonical w (ibig_shift f c a n) /\ rvalue w (ibig_shift f c a n) = sshift_spec f (rvalue w a) n.
Proof.
  intros Ca Hn. destruct (to_b_mag_ok a Ca) as [[K _] Va]. unfold ibig_shift.
  destruct (store_fit_ok c (sshift_fn f (rsign a) (to_b2 w a) n)) as [C V]. split; [exact C|]. rewrite V.
  destruct (ibig_shr_asis_correct w w_pos (rsign a) _ n Hn K) as (E1 & E2 & _).
  pose proof (ibig_shl_asis_correct w w_pos (rsign a)) as E3.
  destruct f as [| |cap]; cbn [sshift_fn sshift_spec]; [rewrite E1 | rewrite E2 | rewrite (E3 cap _ n Hn K)];
    rewrite Va; reflexivity.
Qed.

(** the arithmetic shift right of a negative number rounds toward minus infinity *)
Corollary ibig_shr_floor c a n : canonical w a -> 0 <= n -> rvalue w (ibig_shift HShr c a n) = rvalue w a / 2 ^ n.
Proof.
  intros Ca Hn. rewrite (proj2 (ibig_shift_ok HShr c a n Ca Hn)). cbn [sshift_spec]. apply Z.shiftr_div_pow2. exact Hn.
Qed.

(* ---------------------------------------------------------------- division *)

Theorem ubig_div_rem_ok c a b : rvalue w b <> 0 ->
  exists q r, ubig_div_rem c a b = Ok (q, r) /\ ubig_div c a b = Ok q /\ ubig_rem c a b = Ok r /\
    canonical w q /\ canonical w r /\
    rvalue w q = Z.abs (rvalue w a) / Z.abs (rvalue w b) /\ rvalue w r = Z.abs (rvalue w a) mod Z.abs (rvalue w b).
Proof.
  intros Nb. unfold ubig_div_rem, ubig_div, ubig_rem.
  destruct (s_division_unconditional w w_ge (Z.abs (rvalue w a)) (Z.abs (rvalue w b)) ltac:(lia) ltac:(lia)) as (E1 & E2 & E3 & _).
  rewrite E1, E2, E3. cbn [rmap fst snd].
  destruct (store_fit_ok c (Z.abs (rvalue w a) / Z.abs (rvalue w b))) as [Cq Vq].
  destruct (store_fit_ok c (Z.abs (rvalue w a) mod Z.abs (rvalue w b))) as [Cr Vr].
  do 2 eexists. repeat split; try reflexivity; assumption.
Qed.

Theorem ubig_div_rem_zero c a b : rvalue w b = 0 ->
  ubig_div_rem c a b = Panic DivideBy0 /\ ubig_rem c a b = Panic DivideBy0.
Proof.
  intros E. unfold ubig_div_rem, ubig_rem. rewrite E. cbn [Z.abs].
  destruct (s_zero_divisor w (Z.abs (rvalue w a))) as (E1 & E2 & _). rewrite E1, E2. split; reflexivity.
Qed.

Lemma map_store_fit c vs : Forall (canonical w) (map (store_fit c) vs) /\ map (rvalue w) (map (store_fit c) vs) = vs.
Proof.
  induction vs as [|v vs [IH1 IH2]]; [split; [constructor | reflexivity]|].
  destruct (store_fit_ok c v) as [C V]. cbn [map]. split; [constructor; assumption|]. rewrite V, IH2. reflexivity.
Qed.

Theorem ibig_divform_ok f c a b :
  match form_spec f (rvalue w a) (rvalue w b) with
  | Ok vs => exists rs, ibig_divform f c a b = Ok rs /\ Forall (canonical w) rs /\ map (rvalue w) rs = vs
  | Panic p => ibig_divform f c a b = Panic p
  | Err e => ibig_divform f c a b = Err e
  | OutOfFuel => ibig_divform f c a b = OutOfFuel
  end.
Proof.
  unfold ibig_divform. rewrite (ibig_form_correct f (rvalue w a) (rvalue w b)).
  destruct (form_spec f (rvalue w a) (rvalue w b)) as [vs|p|e|]; cbn [rmap]; try reflexivity.
  destruct (map_store_fit c vs) as [C V]. eexists. split; [reflexivity|]. split; assumption.
Qed.

Lemma ibig_divform_canonical f c a b rs : ibig_divform f c a b = Ok rs -> Forall (canonical w) rs.
Proof.
  unfold ibig_divform. destruct (ibig_form_asis f (rvalue w a) (rvalue w b)) as [vs|p|e|]; cbn [rmap]; try discriminate.
  intros E. inversion E. apply map_store_fit.
Qed.

(* ---------------------------------------------------------------- histories over the whole operator surface *)

Inductive aop2 :=
| A1 (o : aop)                                   (* every step of ReprOrdArith.v *)
| ASBit (f : sbitop) (o : bown) (c : Z) (i j : nat)
| ASNot (byref : bool) (c : Z) (i : nat)
| ASShift (f : sshiftop) (c : Z) (i : nat) (n : Z)
| AUDivRem (c : Z) (i j : nat)                   (* pushes quotient and remainder; a zero divisor leaves the pool unchanged *)
| AUDiv (c : Z) (i j : nat)
| AURem (c : Z) (i j : nat)
| ADivForm (f : form) (c : Z) (i j : nat).

Definition aop2_ok (o : aop2) : Prop :=
  match o with
  | A1 a => aop_ok w a
  | ASShift _ _ _ n => 0 <= n
  | _ => True
  end.

Definition astep2 (p : list repr) (o : aop2) : list repr :=
  let g := pool_get p in
  match o with
  | A1 a => astep w p a
  | ASBit f o c i j => p ++ [ibig_bit f o c (g i) (g j)]
  | ASNot r c i => p ++ [ibig_not r c (g i)]
  | ASShift f c i n => p ++ [ibig_shift f c (g i) n]
  | AUDivRem c i j => match ubig_div_rem c (g i) (g j) with Ok (q, r) => p ++ [q; r] | _ => p end
  | AUDiv c i j => push p (ubig_div c (g i) (g j))
  | AURem c i j => push p (ubig_rem c (g i) (g j))
  | ADivForm f c i j => match ibig_divform f c (g i) (g j) with Ok rs => p ++ rs | _ => p end
  end.

Definition arun2 (p : list repr) (os : list aop2) : list repr := fold_left astep2 os p.

Lemma astep2_canonical p o : Forall (canonical w) p -> aop2_ok o -> Forall (canonical w) (astep2 p o).
Proof.
  intros Hp Ho.
  assert (G : forall i, canonical w (pool_get p i)) by (intro i; apply (pool_get_canonical w w_pos); exact Hp).
  destruct o as [a|f o c i j|r c i|f c i n|c i j|c i j|c i j|f c i j]; cbn [astep2 aop2_ok] in *.
  - apply (astep_canonical w w_ge); assumption.
  - apply Forall_app. split; [exact Hp|]. constructor; [|constructor]. apply ibig_bit_ok; apply G.
  - apply Forall_app. split; [exact Hp|]. constructor; [|constructor]. apply ibig_not_ok; apply G.
  - apply Forall_app. split; [exact Hp|]. constructor; [|constructor]. apply ibig_shift_ok; [apply G | exact Ho].
  - destruct (Z.eq_dec (rvalue w (pool_get p j)) 0) as [E|NE].
    + rewrite (proj1 (ubig_div_rem_zero c (pool_get p i) (pool_get p j) E)). exact Hp.
    + destruct (ubig_div_rem_ok c (pool_get p i) (pool_get p j) NE) as (q & r & E1 & _ & _ & Cq & Cr & _).
      rewrite E1. apply Forall_app. split; [exact Hp|]. repeat constructor; assumption.
  - apply (push_canonical w); [exact Hp|]. intros r E.
    destruct (Z.eq_dec (rvalue w (pool_get p j)) 0) as [E0|NE].
    + unfold ubig_div, s_repr_div, DivWordModel.repr_div in E. rewrite E0 in E. cbn [Z.abs] in E.
      fold (s_repr_div_rem w (Z.abs (rvalue w (pool_get p i))) 0) in E.
      rewrite (proj1 (s_zero_divisor w _)) in E. discriminate.
    + destruct (ubig_div_rem_ok c (pool_get p i) (pool_get p j) NE) as (q & r' & _ & E2 & _ & Cq & _).
      rewrite E in E2. inversion E2. subst. exact Cq.
  - apply (push_canonical w); [exact Hp|]. intros r E.
    destruct (Z.eq_dec (rvalue w (pool_get p j)) 0) as [E0|NE].
    + rewrite (proj2 (ubig_div_rem_zero c (pool_get p i) (pool_get p j) E0)) in E. discriminate.
    + destruct (ubig_div_rem_ok c (pool_get p i) (pool_get p j) NE) as (q & r' & _ & _ & E3 & _ & Cr & _).
      rewrite E in E3. inversion E3. subst. exact Cr.
  - destruct (ibig_divform f c (pool_get p i) (pool_get p j)) as [rs| | |] eqn:E; try exact Hp.
    apply Forall_app. split; [exact Hp|]. eapply ibig_divform_canonical. exact E.
Qed.

Theorem arun2_canonical os : forall p, Forall (canonical w) p -> Forall aop2_ok os -> Forall (canonical w) (arun2 p os).
Proof.
  induction os as [|o os IH]; intros p Hp Ho; [exact Hp|].
  inversion Ho; subst. cbn [arun2 fold_left]. apply IH; [|assumption]. apply astep2_canonical; assumption.
Qed.

(** whatever finite sequence of constructors, copies, sign changes, in-place updates, + - * sqr cubic, / % in all
    forms, & | ^ ! << >> on either sign produced the values: ==, cmp and the hasher input follow the value *)
Theorem full_history_values_compare os a b : Forall aop2_ok os ->
  In a (arun2 [] os) -> In b (arun2 [] os) ->
  (repr_eq a b = true <-> rvalue w a = rvalue w b) /\
  ibig_cmp w a b = (rvalue w a ?= rvalue w b) /\
  (ibig_cmp w a b = Eq <-> repr_eq a b = true) /\
  (rvalue w a = rvalue w b -> hash_input a = hash_input b) /\
  (abs_eq a b = true <-> Z.abs (rvalue w a) = Z.abs (rvalue w b)) /\
  abs_cmp w a b = (Z.abs (rvalue w a) ?= Z.abs (rvalue w b)).
Proof.
  intros Ho Ia Ib. pose proof (arun2_canonical os [] (Forall_nil _) Ho) as F. rewrite Forall_forall in F.
  pose proof (F a Ia) as Ca. pose proof (F b Ib) as Cb.
  split; [apply (repr_eq_correct w w_pos); assumption|].
  split; [apply (ibig_cmp_correct w w_pos); assumption|].
  split; [apply (cmp_eq_iff_eq w w_pos); assumption|].
  split; [apply (hash_input_eq w w_pos); assumption|].
  split; [apply (abs_eq_correct w w_pos); assumption|].
  apply (abs_cmp_correct w w_pos); assumption.
Qed.

End Arith2.

(** non-vacuity on 64-bit words: -(2^130 + 5) is reached as a quotient, as a floor shift and as !x; the remainder
    and an and-mask give a two-word value on both routes: all routes of a value are == and hash alike *)
Example full_history_example :
  let os := [A1 (ABase (HFromBuffer 5 [5; 0; 4])); A1 (ABase (HFromWord 3));       (* 0: 2^130+5   1: 3 *)
             A1 (AMul 0 0 1);                                                          (* 2: 3*(2^130+5) *)
             A1 (ABase (HNeg 2));                                                      (* 3: -3*(2^130+5) *)
             ADivForm FDivRem 0 3 1;                                                   (* 4: -(2^130+5)  5: 0 *)
             ASNot false 0 0;                                                          (* 6: -(2^130+6) *)
             A1 (AAdd OVV 0 6 1);                                                      (* 7: -(2^130+3) *)
             ASShift HShr 9 3 1;                                                       (* 8: floor(-3(2^130+5)/2) *)
             AUDivRem 7 0 1;                                                           (* 9: (2^130+5)/3  10: (2^130+5) mod 3 *)
             ASBit SAnd VV 0 4 0] in                                                   (* 11: -(2^130+5) & (2^130+5) = 1 *)
  Forall (aop2_ok 64) os /\
  map (rvalue 64) (arun2 64 [] os) =
    [2 ^ 130 + 5; 3; 3 * (2 ^ 130 + 5); - (3 * (2 ^ 130 + 5)); - (2 ^ 130 + 5); 0; - (2 ^ 130 + 6); - (2 ^ 130 + 3);
     (- (3 * (2 ^ 130 + 5))) / 2; (2 ^ 130 + 5) / 3; (2 ^ 130 + 5) mod 3; 1] /\
  forallb (canonicalb 64) (arun2 64 [] os) = true.
Proof.
  cbv zeta. split; [repeat constructor; cbn; try lia|]. split; [vm_compute; reflexivity|].
  vm_compute. reflexivity.
Qed.
