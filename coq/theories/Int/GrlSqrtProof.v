(** C12 - sqrt_rem_large (root_ops.rs): the normalising pre-shift and the recovery of root and remainder
    after the Karatsuba kernel, for every word size, length and shift.  The kernel enters through its
    contract  s'^2 + r' = x * 2^shift, 0 <= r' <= 2 s'  (decided per instance by the certificate). *)
From Dashu Require Import Base.Prelude Int.GrlSpec Int.GrlModel Int.GrlSpecProof.
Open Scope Z_scope.

Lemma sqrt_post_algebra : forall x h s' r', 0 <= h -> 0 <= s' ->
  s' * s' + r' = x * (2 ^ h * 2 ^ h) -> 0 <= r' <= 2 * s' ->
  let s := s' / 2 ^ h in
  let s0 := s' mod 2 ^ h in
  r' + 2 * s0 * s' - s0 * s0 = (x - s * s) * (2 ^ h * 2 ^ h) /\ s * s <= x < (s + 1) * (s + 1) /\ 0 <= s.
Proof.
  intros x h s' r' Hh Hs E Hr. cbv zeta.
  assert (0 < 2 ^ h) as HT by (apply Z.pow_pos_nonneg; lia). set (T := 2 ^ h) in *.
  pose proof (Z.div_mod s' T ltac:(lia)) as DM. pose proof (Z.mod_pos_bound s' T HT) as MB.
  assert (0 <= s' / T) as Hq by (apply Z.div_pos; lia).
  set (s := s' / T) in *. set (s0 := s' mod T) in *.
  assert (r' + 2 * s0 * s' - s0 * s0 = (x - s * s) * (T * T)) as E1 by nia.
  split; [exact E1|]. split; [|exact Hq]. split.
  - assert (s * s * (T * T) <= x * (T * T)) by nia. nia.
  - assert (s' + 1 <= T * (s + 1)) by nia.
    assert ((s' + 1) * (s' + 1) <= (T * (s + 1)) * (T * (s + 1))) by nia.
    assert (x * (T * T) < (s + 1) * (s + 1) * (T * T)) by nia. nia.
Qed.

Section Post.
Variable w : Z.
Hypothesis Hw : 2 <= w.
Let B := 2 ^ w.

(** the repaired post-processing returns (sqrt x, x - sqrt(x)^2) *)
Theorem sqrt_rem_post_correct : forall n x h s' r', 0 <= x -> 0 <= n ->
  0 <= h <= w - 1 -> 0 <= s' < B ^ n ->
  s' * s' + r' = x * 2 ^ (2 * h) -> 0 <= r' <= 2 * s' ->
  sqrt_rem_post w n (2 * h) s' r' = sqrt_rem_spec x.
Proof.
  intros n x h s' r' Hx Hn Hh Hs E Hr.
  assert (0 < B) as HB by (apply Z.pow_pos_nonneg; lia).
  assert (2 ^ (2 * h) = 2 ^ h * 2 ^ h) as E2 by (replace (2 * h) with (h + h) by lia; apply Z.pow_add_r; lia).
  rewrite E2 in E.
  pose proof (sqrt_post_algebra x h s' r' ltac:(lia) ltac:(lia) E Hr) as [A1 [A2 A3]]. cbv zeta in A1, A2, A3.
  assert (Z.sqrt x = s' / 2 ^ h) as ES.
  { apply Z.sqrt_unique. unfold Z.succ. exact A2. }
  unfold sqrt_rem_spec. rewrite ES. unfold sqrt_rem_post, sqrt_rem_post_gen.
  destruct (Z.eqb_spec (2 * h) 0) as [Z0|NZ].
  { assert (h = 0) by lia. subst h. change (2 ^ 0) with 1 in *. rewrite Z.div_1_r in *. f_equal. lia. }
  replace (2 * h / 2) with h by (apply Z.div_unique_exact; lia).
  rewrite Z.shiftr_div_pow2 by lia. f_equal.
  assert (0 < 2 ^ h) as HT by (apply Z.pow_pos_nonneg; lia).
  set (s := s' / 2 ^ h) in *. rewrite A1. set (d := x - s * s) in *. assert (0 <= d) by lia.
  (* size of the remainder buffer *)
  assert (d * (2 ^ h * 2 ^ h) < B ^ (n + 1)) as RB.
  { pose proof (Z.div_mod s' (2 ^ h) ltac:(lia)) as DM. pose proof (Z.mod_pos_bound s' (2 ^ h) HT) as MB. fold s in DM.
    assert (d <= 2 * s) by lia. rewrite Z.pow_add_r, Z.pow_1_r by lia.
    assert (2 * 2 ^ h <= B).
    { unfold B. replace (2 * 2 ^ h) with (2 ^ (h + 1)) by (rewrite Z.pow_add_r by lia; lia). apply Z.pow_le_mono_r; lia. }
    assert (0 < B ^ n) by (apply Z.pow_pos_nonneg; lia). nia. }
  fold B. assert (0 <= d * (2 ^ h * 2 ^ h)) as RN by (apply Z.mul_nonneg_nonneg; nia).
  rewrite (Z.mod_small (d * (2 ^ h * 2 ^ h))) by lia.
  destruct (Z.leb_spec w (2 * h)) as [L|L].
  - (* shift >= one word: drop a word, then shift by the rest *)
    assert (2 ^ h * 2 ^ h = B * 2 ^ (2 * h - w)) as EW.
    { rewrite <- E2. unfold B. rewrite <- Z.pow_add_r by lia. f_equal. lia. }
    rewrite EW. replace (d * (B * 2 ^ (2 * h - w))) with (d * 2 ^ (2 * h - w) * B) by ring.
    rewrite Z.div_mul by lia.
    assert (0 < 2 ^ (2 * h - w)) by (apply Z.pow_pos_nonneg; lia).
    assert (d * 2 ^ (2 * h - w) < B ^ n).
    { rewrite EW in RB. rewrite Z.pow_add_r, Z.pow_1_r in RB by lia. nia. }
    rewrite Z.mod_small by nia.
    assert ((2 * h) mod w = 2 * h - w) as EM.
    { symmetry. apply (Z.mod_unique_pos _ _ 1); lia. }
    rewrite EM, Z.shiftr_div_pow2 by lia. apply Z.div_mul. lia.
  - rewrite Z.mod_small by lia. rewrite Z.shiftr_div_pow2 by lia. rewrite E2. apply Z.div_mul. nia.
Qed.

End Post.

(** the pre-shift is even and at most 2w - 2 when the word size is even *)
Lemma sqrt_shift_bounds : forall w len lz, 0 <= lz <= w - 1 -> w mod 2 = 0 -> 2 <= w ->
  exists h, sqrt_shift w len lz = 2 * h /\ 0 <= h <= w - 1.
Proof.
  intros w len lz Hlz Hwe Hw. unfold sqrt_shift.
  pose proof (Z.div_mod w 2 ltac:(lia)) as DW. pose proof (Z.div_mod lz 2 ltac:(lia)) as DL.
  pose proof (Z.mod_pos_bound lz 2 ltac:(lia)). pose proof (Z.mod_pos_bound len 2 ltac:(lia)).
  exists (w / 2 * (len mod 2) + lz / 2). split; [nia|]. split; [nia|].
  assert (len mod 2 = 0 \/ len mod 2 = 1) as [E|E] by lia; rewrite E; lia.
Qed.

(** F03 (repaired): with the old test [shift > WORD_BITS] a three-word value with a full top word got its
    remainder back multiplied by 2^64 *)
Lemma sqrt_rem_large_prefix_refuted :
  sqrt_rem_large_gen false 64 (2 ^ 191 + 12345) <> sqrt_rem_spec (2 ^ 191 + 12345) /\
  sqrt_rem_large_gen true 64 (2 ^ 191 + 12345) = sqrt_rem_spec (2 ^ 191 + 12345).
Proof. split; [intros H; vm_compute in H; discriminate | vm_compute; reflexivity]. Qed.
