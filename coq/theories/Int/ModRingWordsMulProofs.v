(** C13 - mul_normalized / sqr_normalized / mul_in_place / pow of the multi-word ring on word lists
    refine the value-level model, given the contracts of the three kernels they call (mul::multiply,
    sqr::sqr, div::div_rem_in_place); at the end the kernels are instantiated with the as-is models of
    C01 (Ring*.v) and C02 (Div*.v) and their proved theorems. *)
From Dashu Require Import Base.Prelude Base.Words Int.DivWordModel Int.DivWordProofs Int.DivSimpleProofs Int.DivLargeProofs
  Int.ModRingSpec Int.ModRingPowModel Int.ModRingPowProofs Int.ModRingModel Int.ModRingProofs Int.ModRingWords Int.ModRingWordsProofs.
Open Scope Z_scope.

Section WordLevelMulProofs.
Variable w : Z.
Hypothesis w_ge : 2 <= w.
Local Notation B := (Words.B w).
Local Notation value := (Words.value w).
Local Notation wf := (Words.wf w).

Variable mulk : list Z -> list Z -> result (list Z).
Variable sqrk : list Z -> result (list Z).
Variable divk : list Z -> list Z -> result (list Z * bool).
Hypothesis mulk_ok : forall a b, wf a -> wf b ->
  exists r, mulk a b = Ok r /\ length r = (length a + length b)%nat /\ wf r /\ value r = value a * value b.
Hypothesis sqrk_ok : forall a, wf a ->
  exists r, sqrk a = Ok r /\ length r = (2 * length a)%nat /\ wf r /\ value r = value a * value a.
Hypothesis divk_ok : forall lhs rhs, kernel_pre w lhs rhs ->
  exists res c, divk lhs rhs = Ok (res, c) /\ kernel_post w lhs rhs res c.

Local Lemma w_pos : 0 < w. Proof. lia. Qed.
Local Lemma Bp : 0 < B. Proof. apply B_pos; lia. Qed.

(** ---------------- locate_top_word_plus_one ---------------- *)
Lemma top_plus_one_le ws : (top_plus_one ws <= length ws)%nat.
Proof.
  induction ws as [|x t IH]; cbn [top_plus_one length]; [lia|].
  destruct (top_plus_one t); [destruct (x =? 0); lia | lia].
Qed.

Lemma top_plus_one_value ws : wf ws -> value (firstn (top_plus_one ws) ws) = value ws.
Proof.
  induction ws as [|x t IH]; intros H; cbn [top_plus_one]; [reflexivity|].
  apply wf_cons in H. destruct H as [Hx Ht]. specialize (IH Ht).
  destruct (top_plus_one t) as [|k] eqn:Et.
  - cbn [firstn Words.value] in IH. destruct (Z.eqb_spec x 0) as [->|N].
    + cbn [firstn Words.value]. lia.
    + cbn [firstn Words.value]. lia.
  - rewrite firstn_cons. cbn [Words.value]. rewrite IH. reflexivity.
Qed.

Lemma top_plus_one_zero ws : wf ws -> top_plus_one ws = O -> value ws = 0.
Proof. intros H E. rewrite <- (top_plus_one_value ws H), E. reflexivity. Qed.

(** the top word it points to is not zero: B^(k-1) <= value *)
Lemma top_plus_one_lower ws : wf ws -> (0 < top_plus_one ws)%nat -> B ^ (Z.of_nat (top_plus_one ws) - 1) <= value ws.
Proof.
  pose proof Bp as HB.
  induction ws as [|x t IH]; intros H Hpos; cbn [top_plus_one] in *; [lia|].
  apply wf_cons in H. destruct H as [Hx Ht]. specialize (IH Ht).
  destruct (top_plus_one t) as [|k] eqn:Et.
  - destruct (Z.eqb_spec x 0) as [->|N]; [lia|]. cbn [Words.value]. pose proof (value_nonneg w w_pos t Ht).
    replace (Z.of_nat 1 - 1) with 0 by lia. rewrite Z.pow_0_r. nia.
  - specialize (IH ltac:(lia)). cbn [Words.value].
    replace (Z.of_nat (S (S k)) - 1) with ((Z.of_nat (S k) - 1) + 1) by lia.
    rewrite Z.pow_add_r, Z.pow_1_r by lia. nia.
Qed.

Lemma top_plus_one_nwords ws : wf ws -> Z.of_nat (top_plus_one ws) = nwords w (value ws).
Proof.
  intros H. pose proof Bp as HB. pose proof (value_nonneg w w_pos ws H) as H0.
  set (k := top_plus_one ws).
  assert (value ws < B ^ Z.of_nat k) as U.
  { rewrite <- (top_plus_one_value ws H). fold k.
    pose proof (value_bounds w w_pos (firstn k ws) (DivSimpleProofs.wf_firstn w k ws H)) as Hb. unfold len in Hb.
    rewrite firstn_length_le in Hb by apply top_plus_one_le. lia. }
  pose proof (nwords_bound w w_ge (value ws) H0) as [Hn0 Hnu].
  pose proof (nwords_le w w_ge (value ws) (Z.of_nat k) ltac:(lia) ltac:(unfold Words.B in U; lia)) as Hle.
  destruct (Nat.eq_dec k 0) as [K0|KN].
  - assert (value ws = 0) by (apply top_plus_one_zero; assumption). rewrite K0 in *. lia.
  - pose proof (top_plus_one_lower ws H ltac:(fold k; lia)) as L. fold k in L.
    destruct (Z.ltb_spec (nwords w (value ws)) (Z.of_nat k)) as [Hlt|Hge]; [|lia].
    exfalso. assert (B ^ nwords w (value ws) <= B ^ (Z.of_nat k - 1)) by (apply Z.pow_le_mono_r; lia).
    unfold Words.B in *. lia.
Qed.

Lemma pad_to_facts n ws : wf ws -> wf (pad_to n ws) /\ value (pad_to n ws) = value ws /\ length (pad_to n ws) = Nat.max n (length ws).
Proof.
  intros H. unfold pad_to. split; [|split].
  - apply wf_app. split; [exact H|]. apply Forall_forall. intros x Hx. apply repeat_spec in Hx. subst x. pose proof Bp. lia.
  - rewrite Words.value_app, value_repeat_zero. lia.
  - rewrite app_length, repeat_length. lia.
Qed.

(** ---------------- the common tail ---------------- *)
Lemma reduce_product_ok R r prod nn : lring_ok w R r -> ring_wf w r -> wf prod -> length prod = nn ->
  value prod mod 2 ^ r_shift r = 0 ->
  exists l, wl_reduce_product w divk R (pad_to (length (lr_nd R)) prod) (length (lr_nd R) <? nn)%nat = Ok l /\
    wf l /\ length l = length (lr_nd R) /\
    value l = let p := value prod / 2 ^ r_shift r in
              if r_n r <? Z.of_nat nn then p mod nd r else if nd r <=? p then p - nd r else p.
Proof.
  intros HR Hwf Hwp Hlp Hm0. pose proof HR as (Hk & Hwn & En & El & Es). pose proof Hwf as (Hm & Hs & Hn3 & HT & Hd).
  pose proof (wf_facts w w_ge r Hwf) as (P & _). rewrite Hk in Hn3. unfold len in El.
  set (n := length (lr_nd R)) in *.
  destruct (pad_to_facts n prod Hwp) as (Hwq & Evq & Hlq).
  unfold wl_reduce_product. fold n. rewrite Es.
  (* the shift *)
  assert (exists p1, shr_in_place w (pad_to n prod) (r_shift r) = (p1, 0) /\ wf p1 /\ length p1 = Nat.max n nn /\
                     value p1 = value prod / 2 ^ r_shift r) as (p1 & Eshr & Hw1 & Hl1 & Ev1).
  { destruct (Z.eq_dec (r_shift r) 0) as [S0|Sn].
    - exists (pad_to n prod). unfold shr_in_place. rewrite S0. replace (0 =? w) with false by (symmetry; apply Z.eqb_neq; lia). cbn [Z.eqb].
      rewrite Z.pow_0_r, Z.div_1_r. repeat split; try assumption. lia.
    - destruct (shr_in_place w (pad_to n prod) (r_shift r)) as [p1 c] eqn:Ea.
      destruct (shr_in_place_spec w w_pos _ (r_shift r) Hwq ltac:(lia) p1 c Ea) as (k & Ec & Hk' & E1 & Hw1 & Hl1).
      assert (k = 0) as K0.
      { assert (k = value (pad_to n prod) mod 2 ^ r_shift r) as Ek
          by (apply (Z.mod_unique _ (2 ^ r_shift r) (value p1) k); lia). rewrite Evq in Ek. lia. }
      subst k. exists p1. rewrite Ec. cbn [Z.mul]. split; [reflexivity|]. split; [exact Hw1|]. split; [lia|].
      rewrite <- Evq. apply (Z.div_unique _ (2 ^ r_shift r) (value p1) 0); lia. }
  rewrite Eshr. cbn [Z.eqb]. cbv zeta. rewrite <- Ev1.
  assert ((r_n r <? Z.of_nat nn) = (n <? nn)%nat) as Elong.
  { rewrite <- El. destruct (Nat.ltb_spec n nn); [apply Z.ltb_lt | apply Z.ltb_ge]; lia. }
  rewrite Elong. destruct (Nat.ltb_spec n nn) as [Hlong|Hshort].
  - (* full division *)
    assert (kernel_pre w p1 (lr_nd R)) as Hpre.
    { split; [exact Hw1|]. split; [exact Hwn|]. split; [fold n; lia|]. split; [fold n; lia|].
      unfold normalized_top, len. fold n. rewrite En, El. unfold tsize in HT, Hd. unfold Words.B. lia. }
    destruct (divk_ok p1 (lr_nd R) Hpre) as (res & c & Ed & Hwres & Hlres & Erem & _).
    rewrite Ed. cbn [rbind]. exists (firstn n res). split; [reflexivity|].
    split; [apply DivSimpleProofs.wf_firstn; exact Hwres|]. split; [apply firstn_length_le; lia|].
    fold n in Erem. rewrite Erem, En. reflexivity.
  - (* conditional subtraction *)
    assert (length p1 = n) as Hl1' by lia.
    rewrite (cmp_same_len_spec w w_pos p1 (lr_nd R) Hw1 Hwn Hl1'), En.
    assert (is_ge (value p1 ?= nd r) = (nd r <=? value p1)) as Ege.
    { unfold is_ge, Z.leb. rewrite (Z.compare_antisym (value p1) (nd r)). destruct (value p1 ?= nd r); reflexivity. }
    rewrite Ege. destruct (Z.leb_spec (nd r) (value p1)) as [Hge|Hlt].
    + destruct (sub_same_len w p1 (lr_nd R)) as [p2 c2] eqn:Es2.
      destruct (sub_same_len_spec w w_pos p1 (lr_nd R) Hw1 Hwn Hl1' p2 c2 Es2) as (E2 & Hw2 & Hl2 & Hc2).
      pose proof (value_bounds w w_pos p2 Hw2) as Hb2. pose proof (value_bounds w w_pos p1 Hw1) as Hb1.
      unfold len in *. rewrite Hl2 in Hb2. rewrite En in E2.
      assert (0 < B ^ Z.of_nat (length p1)) by (apply Z.pow_pos_nonneg; [apply Bp | lia]).
      assert (c2 = 0) as C0 by nia. subst c2. cbn [Z.eqb].
      exists p2. split; [reflexivity|]. split; [exact Hw2|]. split; [lia | lia].
    + exists p1. split; [reflexivity|]. split; [exact Hw1|]. split; [exact Hl1' | reflexivity].
Qed.

Lemma valid_mod0 R r a : lring_ok w R r -> ring_wf w r -> wf a -> wl_is_valid R a = true ->
  length a = length (lr_nd R) /\ value a mod 2 ^ r_shift r = 0 /\ 0 <= value a < nd r.
Proof.
  intros HR Hwf Hwa Hv. destruct (proj1 (wl_is_valid_iff w w_ge R r a HR Hwf Hwa) Hv) as (Hl & x & Hx & Ex).
  pose proof (wf_facts w w_ge r Hwf) as (P & _). split; [exact Hl|]. rewrite Ex. split; [apply Z.mod_mul; lia|]. unfold nd. nia.
Qed.

Lemma split_dword_ok x y : 0 <= x < B -> 0 <= y < B ->
  wf [x * y mod B; x * y / B] /\ value [x * y mod B; x * y / B] = x * y.
Proof.
  intros Hx Hy. pose proof Bp as HB. pose proof (Z.mod_pos_bound (x * y) B HB). pose proof (Z.div_mod (x * y) B ltac:(lia)).
  assert (0 <= x * y / B < B) by (split; [apply Z.div_pos; nia | apply Z.div_lt_upper_bound; nia]).
  split; [apply wf_cons; split; [lia | apply wf_cons; split; [lia | apply wf_nil]] | cbn [Words.value]; lia].
Qed.

Lemma hd_single ws : wf ws -> top_plus_one ws = 1%nat -> 0 <= hd 0 ws < B /\ value ws = hd 0 ws.
Proof.
  intros H E. rewrite <- (top_plus_one_value ws H), E. destruct ws as [|x t]; [discriminate|].
  apply wf_cons in H. cbn [firstn hd Words.value]. lia.
Qed.

(** ---------------- mul_normalized / sqr_normalized ---------------- *)
Theorem wl_mul_normalized_ok R r a b : lring_ok w R r -> ring_wf w r -> wf a -> wf b ->
  wl_is_valid R a = true -> wl_is_valid R b = true ->
  exists l, wl_mul_normalized w mulk divk R a b = Ok l /\ wf l /\ length l = length (lr_nd R) /\
            value l = l_mul_normalized w r (value a) (value b).
Proof.
  intros HR Hwf Hwa Hwb Va Vb.
  destruct (valid_mod0 R r a HR Hwf Hwa Va) as (Hla & Ma & Ba). destruct (valid_mod0 R r b HR Hwf Hwb Vb) as (Hlb & Mb & Bb).
  pose proof (wf_facts w w_ge r Hwf) as (P & _). pose proof HR as (Hk & Hwn & En & El & Es).
  unfold wl_mul_normalized, l_mul_normalized. rewrite Hla, Hlb, !Nat.eqb_refl. cbn [andb].
  rewrite <- !(top_plus_one_nwords) by assumption.
  set (na := top_plus_one a). set (nb := top_plus_one b).
  assert ((Z.of_nat na =? 0) = Nat.eqb na 0) as Ea0 by (destruct na; reflexivity).
  assert ((Z.of_nat nb =? 0) = Nat.eqb nb 0) as Eb0 by (destruct nb; reflexivity).
  rewrite Ea0, Eb0. destruct (Nat.eqb na 0 && Nat.eqb nb 0) eqn:Ez.
  - exists (repeat 0 (length (lr_nd R))). split; [reflexivity|].
    split; [apply Forall_forall; intros x Hx; apply repeat_spec in Hx; subst x; pose proof Bp; lia|].
    split; [apply repeat_length | apply value_repeat_zero].
  - assert (exists prod, (if Nat.eqb na 1 && Nat.eqb nb 1 then Ok [hd 0 a * hd 0 b mod B; hd 0 a * hd 0 b / B]
                          else mulk (firstn na a) (firstn nb b)) = Ok prod /\
                         wf prod /\ length prod = (na + nb)%nat /\ value prod = value a * value b) as (prod & Ep & Hwp & Hlp & Evp).
    { destruct (Nat.eqb na 1 && Nat.eqb nb 1) eqn:E11.
      - apply andb_prop in E11. destruct E11 as [E1 E2]. apply Nat.eqb_eq in E1. apply Nat.eqb_eq in E2.
        destruct (hd_single a Hwa E1) as [Ha0 Eva]. destruct (hd_single b Hwb E2) as [Hb0 Evb].
        destruct (split_dword_ok _ _ Ha0 Hb0) as [W V]. eexists. split; [reflexivity|]. split; [exact W|].
        split; [rewrite E1, E2; reflexivity|]. rewrite V, Eva, Evb. reflexivity.
      - destruct (mulk_ok (firstn na a) (firstn nb b) (DivSimpleProofs.wf_firstn w na a Hwa) (DivSimpleProofs.wf_firstn w nb b Hwb))
          as (pr & E & L & W & V).
        exists pr. split; [exact E|]. split; [exact W|].
        split; [rewrite L, !firstn_length_le by apply top_plus_one_le; reflexivity|].
        rewrite V. unfold na, nb. rewrite !top_plus_one_value by assumption. reflexivity. }
    rewrite Ep. cbn [rbind].
    assert (value prod mod 2 ^ r_shift r = 0) as Mp.
    { rewrite Evp. apply Z.mod_divide; [lia|]. apply Z.divide_mul_l. apply Z.mod_divide; [lia | exact Ma]. }
    destruct (reduce_product_ok R r prod (na + nb)%nat HR Hwf Hwp Hlp Mp) as (l & E & Hwl & Hll & Evl).
    exists l. split; [exact E|]. split; [exact Hwl|]. split; [exact Hll|]. rewrite Evl. cbv zeta. rewrite Evp.
    rewrite Nat2Z.inj_add. reflexivity.
Qed.

Theorem wl_sqr_normalized_ok R r a : lring_ok w R r -> ring_wf w r -> wf a -> wl_is_valid R a = true ->
  exists l, wl_sqr_normalized w sqrk divk R a = Ok l /\ wf l /\ length l = length (lr_nd R) /\
            value l = l_sqr_normalized w r (value a).
Proof.
  intros HR Hwf Hwa Va.
  destruct (valid_mod0 R r a HR Hwf Hwa Va) as (Hla & Ma & Ba).
  pose proof (wf_facts w w_ge r Hwf) as (P & _). pose proof HR as (Hk & Hwn & En & El & Es).
  unfold wl_sqr_normalized, l_sqr_normalized. rewrite Hla, Nat.eqb_refl.
  rewrite <- !(top_plus_one_nwords) by assumption.
  set (na := top_plus_one a).
  assert ((Z.of_nat na =? 0) = Nat.eqb na 0) as Ea0 by (destruct na; reflexivity).
  rewrite Ea0. destruct (Nat.eqb na 0) eqn:Ez.
  - exists (repeat 0 (length (lr_nd R))). split; [reflexivity|].
    split; [apply Forall_forall; intros x Hx; apply repeat_spec in Hx; subst x; pose proof Bp; lia|].
    split; [apply repeat_length | apply value_repeat_zero].
  - assert (exists prod, (if Nat.eqb na 1 then Ok [hd 0 a * hd 0 a mod B; hd 0 a * hd 0 a / B]
                          else sqrk (firstn na a)) = Ok prod /\
                         wf prod /\ length prod = (na * 2)%nat /\ value prod = value a * value a) as (prod & Ep & Hwp & Hlp & Evp).
    { destruct (Nat.eqb na 1) eqn:E11.
      - apply Nat.eqb_eq in E11. destruct (hd_single a Hwa E11) as [Ha0 Eva].
        destruct (split_dword_ok _ _ Ha0 Ha0) as [W V]. eexists. split; [reflexivity|]. split; [exact W|].
        split; [rewrite E11; reflexivity|]. rewrite V, Eva. reflexivity.
      - destruct (sqrk_ok (firstn na a) (DivSimpleProofs.wf_firstn w na a Hwa)) as (pr & E & L & W & V).
        exists pr. split; [exact E|]. split; [exact W|].
        split; [rewrite L, firstn_length_le by apply top_plus_one_le; lia|].
        rewrite V. unfold na. rewrite !top_plus_one_value by assumption. reflexivity. }
    rewrite Ep. cbn [rbind].
    assert (value prod mod 2 ^ r_shift r = 0) as Mp.
    { rewrite Evp. apply Z.mod_divide; [lia|]. apply Z.divide_mul_l. apply Z.mod_divide; [lia | exact Ma]. }
    destruct (reduce_product_ok R r prod (na * 2)%nat HR Hwf Hwp Hlp Mp) as (l & E & Hwl & Hll & Evl).
    exists l. split; [exact E|]. split; [exact Hwl|]. split; [exact Hll|]. rewrite Evl. cbv zeta. rewrite Evp.
    rewrite Nat2Z.inj_mul. reflexivity.
Qed.

Theorem wl_mul_in_place_ok R r a b : lring_ok w R r -> ring_wf w r -> wf a -> wf b ->
  wl_is_valid R a = true -> wl_is_valid R b = true ->
  exists l, wl_mul_in_place w mulk sqrk divk R a b = Ok l /\ wf l /\ length l = length (lr_nd R) /\
            value l = l_mul w r (value a) (value b).
Proof.
  intros HR Hwf Hwa Hwb Va Vb.
  destruct (valid_mod0 R r a HR Hwf Hwa Va) as (Hla & _). destruct (valid_mod0 R r b HR Hwf Hwb Vb) as (Hlb & _).
  unfold wl_mul_in_place, l_mul. rewrite (words_eqb_value w w_ge a b Hwa Hwb ltac:(congruence)).
  destruct (value a =? value b); [apply wl_sqr_normalized_ok | apply wl_mul_normalized_ok]; assumption.
Qed.

(** ---------------- property level ---------------- *)
Lemma l_mul_rep r x y : ring_wf w r ->
  l_mul_normalized w r ((x mod r_m r) * 2 ^ r_shift r) ((y mod r_m r) * 2 ^ r_shift r) = ((x * y) mod r_m r) * 2 ^ r_shift r /\
  l_mul w r ((x mod r_m r) * 2 ^ r_shift r) ((y mod r_m r) * 2 ^ r_shift r) = ((x * y) mod r_m r) * 2 ^ r_shift r /\
  l_sqr_normalized w r ((x mod r_m r) * 2 ^ r_shift r) = ((x * x) mod r_m r) * 2 ^ r_shift r.
Proof.
  intros Hwf. pose proof (wf_facts w w_ge r Hwf) as (P & _).
  pose proof (raw_bounds w w_ge r x Hwf) as Bx. pose proof (raw_bounds w w_ge r y Hwf) as By.
  assert (forall u v, u mod r_m r * 2 ^ r_shift r * (v mod r_m r * 2 ^ r_shift r) / 2 ^ r_shift r
                      = u mod r_m r * (v mod r_m r * 2 ^ r_shift r)) as Ediv.
  { intros u v. replace (u mod r_m r * 2 ^ r_shift r * (v mod r_m r * 2 ^ r_shift r))
      with (u mod r_m r * (v mod r_m r * 2 ^ r_shift r) * 2 ^ r_shift r) by ring. apply Z.div_mul. lia. }
  assert (l_sqr_normalized w r (x mod r_m r * 2 ^ r_shift r) = (x * x) mod r_m r * 2 ^ r_shift r) as Esq.
  { rewrite (l_sqr_normalized_ok w w_ge) by assumption. rewrite Ediv. eapply lift_mul; exact Hwf. }
  assert (l_mul_normalized w r (x mod r_m r * 2 ^ r_shift r) (y mod r_m r * 2 ^ r_shift r) = (x * y) mod r_m r * 2 ^ r_shift r) as Emul.
  { rewrite (l_mul_normalized_ok w w_ge) by assumption. rewrite Ediv. eapply lift_mul; exact Hwf. }
  split; [exact Emul|]. split; [|exact Esq].
  unfold l_mul. destruct (Z.eqb_spec (x mod r_m r * 2 ^ r_shift r) (y mod r_m r * 2 ^ r_shift r)) as [E|N]; [|exact Emul].
  rewrite Esq. assert (x mod r_m r = y mod r_m r) as Em by nia.
  f_equal. rewrite (Z.mul_mod x x), (Z.mul_mod x y) by (destruct Hwf; lia). rewrite Em. reflexivity.
Qed.

Theorem wl_mul_ops R r x y a b : lring_ok w R r -> ring_wf w r -> wrep w R r x a -> wrep w R r y b ->
  (exists c, wl_mul_in_place w mulk sqrk divk R a b = Ok c /\ wrep w R r (x * y) c) /\
  (exists c, wl_mul_normalized w mulk divk R a b = Ok c /\ wrep w R r (x * y) c) /\
  (exists c, wl_sqr w sqrk divk R a = Ok c /\ wrep w R r (x * x) c).
Proof.
  intros HR Hwf Ha Hb. pose proof Ha as (Ha1 & Ha2 & Ha3). pose proof Hb as (Hb1 & Hb2 & Hb3).
  pose proof (wrep_valid w w_ge R r x a HR Hwf Ha) as Va. pose proof (wrep_valid w w_ge R r y b HR Hwf Hb) as Vb.
  destruct (l_mul_rep r x y Hwf) as (E1 & E2 & E3).
  split; [|split].
  - destruct (wl_mul_in_place_ok R r a b HR Hwf Ha1 Hb1 Va Vb) as (l & E & Hw & Hl & Ev).
    exists l. split; [exact E|]. split; [exact Hw|]. split; [exact Hl|]. rewrite Ev, Ha3, Hb3. exact E2.
  - destruct (wl_mul_normalized_ok R r a b HR Hwf Ha1 Hb1 Va Vb) as (l & E & Hw & Hl & Ev).
    exists l. split; [exact E|]. split; [exact Hw|]. split; [exact Hl|]. rewrite Ev, Ha3, Hb3. exact E1.
  - destruct (wl_sqr_normalized_ok R r a HR Hwf Ha1 Va) as (l & E & Hw & Hl & Ev).
    assert (wrep w R r (x * x) l) as Hrep by (split; [exact Hw|]; split; [exact Hl|]; rewrite Ev, Ha3; exact E3).
    exists l. unfold wl_sqr. rewrite E. cbn [rbind]. unfold wl_from_large.
    rewrite (wrep_valid w w_ge R r (x * x) l HR Hwf Hrep). split; [reflexivity | exact Hrep].
Qed.

(** ---------------- large::pow on word lists: the generic sliding-window theorem, carrier = word lists ---------------- *)
Lemma large_m_gt1 R r : lring_ok w R r -> ring_wf w r -> 1 < r_m r.
Proof.
  intros (Hk & _) Hwf. pose proof (wf_facts w w_ge r Hwf) as (P & P2 & _). pose proof (tsize_kind w w_ge r Hwf) as HT.
  rewrite Hk in HT. destruct Hwf as (Hm & Hs & _ & HT2 & Hd). unfold nd in Hd.
  assert (4 <= 2 ^ w) as H4 by (replace 4 with (2 ^ 2) by reflexivity; apply Z.pow_le_mono_r; lia).
  set (T := tsize w r) in *. set (S := 2 ^ r_shift r) in *. set (Bw := 2 ^ w) in *.
  assert (Bw * Bw * Bw <= r_m r * Bw) as K by nia.
  assert (Bw * Bw <= r_m r) by nia. nia.
Qed.

Theorem wl_pow_ok R r x a e : lring_ok w R r -> ring_wf w r -> wrep w R r x a -> 0 <= e ->
  exists c, wl_pow w mulk sqrk divk R a e = Ok c /\ wrep w R r (x ^ e) c.
Proof.
  intros HR Hwf Ha He. pose proof (large_m_gt1 R r HR Hwf) as Hm1.
  set (Rel := fun (t : result (list Z)) (j : Z) => exists l, t = Ok l /\ wrep w R r (x ^ j) l).
  assert (Rel (Ok (wl_one R)) 0) as R0.
  { exists (wl_one R). split; [reflexivity|]. destruct (wl_one_ok w w_ge R r (fun _ _ => (0, 0)) HR Hwf) as (W & L & E).
    split; [exact W|]. split; [exact L|]. rewrite Z.pow_0_r, Z.mod_small by lia.
    assert (@Ok Z (2 ^ r_shift r) = Ok (value (wl_one R))) as E2
      by (rewrite <- E; unfold raw_one; destruct HR as (Hk & _); rewrite Hk; reflexivity).
    assert (2 ^ r_shift r = value (wl_one R)) as E3 by congruence. rewrite <- E3. lia. }
  assert (forall t j, 0 <= j -> Rel t j -> Rel (wlift1 (wl_sqr_normalized w sqrk divk R) t) (2 * j)) as Rs.
  { intros t j Hj (l & -> & Hl). unfold wlift1. cbn [rbind].
    destruct (wl_mul_ops R r (x ^ j) (x ^ j) l l HR Hwf Hl Hl) as (_ & _ & (c & E & Hc)).
    unfold wl_sqr in E. destruct (wl_sqr_normalized w sqrk divk R l) as [v| | |] eqn:Ev; cbn [rbind] in E; try discriminate.
    unfold wl_from_large in E. destruct (wl_is_valid R v); [|discriminate]. inversion E; subst c.
    exists v. split; [reflexivity|]. replace (2 * j) with (j + j) by lia. rewrite Z.pow_add_r by lia. exact Hc. }
  assert (forall t u j k, 0 <= j -> 0 <= k -> Rel t j -> Rel u k -> Rel (wlift2 (wl_mul_normalized w mulk divk R) t u) (j + k)) as Rm.
  { intros t u j k Hj Hk (l & -> & Hl) (l' & -> & Hl'). unfold wlift2. cbn [rbind].
    destruct (wl_mul_ops R r (x ^ j) (x ^ k) l l' HR Hwf Hl Hl') as (_ & (c & E & Hc) & _).
    exists c. split; [exact E|]. rewrite Z.pow_add_r by lia. exact Hc. }
  assert (Rel (Ok a) 1) as R1 by (exists a; split; [reflexivity | rewrite Z.pow_1_r; exact Ha]).
  destruct (pow_large_ok w (result (list Z)) (Ok (wl_one R)) (wlift1 (wl_sqr_normalized w sqrk divk R))
              (wlift2 (wl_mul_normalized w mulk divk R)) Rel R0 Rs Rm (window_at w) (Ok a) e R1 He
              ltac:(intros wl bit Hwl Hb; apply window_at_val; lia) w_ge) as (res & E & (l & -> & Hl)).
  exists l. unfold wl_pow. rewrite E. cbn [wflatten rbind]. unfold wl_from_large.
  rewrite (wrep_valid w w_ge R r (x ^ e) l HR Hwf Hl). split; [reflexivity | exact Hl].
Qed.

End WordLevelMulProofs.
