(** C13 - exponentiation as the code does it computes the power, in ANY structure:
    the carrier [T] comes with a relation [R x k] ("x represents base^k") that is closed under the
    operations - [R one 0], squaring doubles the exponent, multiplication adds exponents.  Instances:
    a monoid ([R x k := x = base^k]), and the as-is rings of ModRingModel.v, where [R] also carries the
    validity of the representation and the absence of panics.
    The theorems hold for every word size and, for the sliding window, for every window length. *)
From Dashu Require Import Base.Prelude Base.Words Int.BitsSpec Int.ModRingPowModel.
From DashuGen Require Import ModRingGen.
Open Scope Z_scope.

(** ---------------- small facts on binary digits ---------------- *)
Lemma mod_pow2_succ a b : 0 <= b -> a mod 2 ^ (b + 1) = a mod 2 ^ b + 2 ^ b * Z.b2z (Z.testbit a b).
Proof.
  intros Hb. rewrite Z.pow_add_r, Z.pow_1_r by lia.
  rewrite Z.rem_mul_r by (try apply Z.pow_nonzero; lia).
  rewrite Z.testbit_spec' by lia. reflexivity.
Qed.

Lemma div_pow2_succ a b : 0 <= b -> a / 2 ^ b = 2 * (a / 2 ^ (b + 1)) + Z.b2z (Z.testbit a b).
Proof.
  intros Hb. rewrite Z.pow_add_r, Z.pow_1_r by lia.
  rewrite <- Z.div_div by (try apply Z.pow_pos_nonneg; lia).
  rewrite Z.testbit_spec' by lia.
  pose proof (Z.div_mod (a / 2 ^ b) 2 ltac:(lia)). lia.
Qed.

Lemma log2_split e : 0 < e -> e = 2 ^ Z.log2 e + e mod 2 ^ Z.log2 e.
Proof.
  intros He. pose proof (Z.log2_spec e He) as [L U]. pose proof (Z.log2_nonneg e) as Hl.
  assert (0 < 2 ^ Z.log2 e) as Hp by (apply Z.pow_pos_nonneg; lia).
  assert (e / 2 ^ Z.log2 e = 1) as Q.
  { rewrite Z.pow_succ_r in U by lia. symmetry. apply (Z.div_unique e (2 ^ Z.log2 e) 1 (e - 2 ^ Z.log2 e)); lia. }
  pose proof (Z.div_mod e (2 ^ Z.log2 e) ltac:(lia)) as D. rewrite Q in D. lia.
Qed.

Section Proofs.
Variable w : Z.
Hypothesis w_pos : 0 < w.
Variable T : Type.
Variable one : T.
Variable sqr : T -> T.
Variable mul : T -> T -> T.
Variable R : T -> Z -> Prop.
Hypothesis R_one : R one 0.
Hypothesis R_sqr : forall x j, 0 <= j -> R x j -> R (sqr x) (2 * j).
Hypothesis R_mul : forall x y j k, 0 <= j -> 0 <= k -> R x j -> R y k -> R (mul x y) (j + k).

Local Notation B := (2 ^ w).
Local Notation pow_helper := (pow_helper T sqr mul).
Local Notation pow_word := (pow_word T one sqr mul).

(** ---------------- the binary method ---------------- *)
Lemma pow_helper_ok rhs exp : R rhs 1 -> forall bits res j, 0 <= j -> R res j ->
  R (pow_helper rhs exp bits res) (j * 2 ^ Z.of_nat bits + exp mod 2 ^ Z.of_nat bits).
Proof.
  intros Hr. induction bits as [|b IH]; intros res j Hj Hres.
  - cbn [ModRingPowModel.pow_helper Z.of_nat]. rewrite Z.pow_0_r, Z.mod_1_r. replace (j * 1 + 0) with j by lia. exact Hres.
  - cbn [ModRingPowModel.pow_helper].
    assert (R (if Z.testbit exp (Z.of_nat b) then mul (sqr res) rhs else sqr res)
              (2 * j + Z.b2z (Z.testbit exp (Z.of_nat b)))) as H1.
    { destruct (Z.testbit exp (Z.of_nat b)); cbn [Z.b2z].
      - apply R_mul; [lia | lia | apply R_sqr; assumption | exact Hr].
      - replace (2 * j + 0) with (2 * j) by lia. apply R_sqr; assumption. }
    apply IH in H1; [|destruct (Z.testbit exp (Z.of_nat b)); cbn [Z.b2z]; lia].
    rewrite Nat2Z.inj_succ, <- Z.add_1_r. rewrite mod_pow2_succ by lia.
    rewrite Z.pow_add_r, Z.pow_1_r by lia.
    match goal with H : R ?x ?e1 |- R ?x ?e2 => replace e2 with e1; [exact H | ring] end.
Qed.

Lemma pow_word_ok raw exp : R raw 1 -> 0 <= exp -> R (pow_word raw exp) exp.
Proof.
  intros Hr He. unfold ModRingPowModel.pow_word.
  destruct (Z.eqb_spec exp 0) as [->|N0]; [exact R_one|].
  destruct (Z.eqb_spec exp 1) as [->|N1]; [exact Hr|].
  destruct (Z.eqb_spec exp 2) as [->|N2]; [apply (R_sqr raw 1); [lia | exact Hr]|].
  pose proof (pow_helper_ok raw exp Hr (Z.to_nat (Z.log2 exp)) raw 1 ltac:(lia) Hr) as H.
  rewrite Z2Nat.id in H by apply Z.log2_nonneg.
  rewrite Z.mul_1_l, <- log2_split in H by lia. exact H.
Qed.

Lemma pow_small_ok raw exp : R raw 1 -> 0 <= exp -> R (pow_small w T one sqr mul raw exp) exp.
Proof.
  intros Hr He. unfold pow_small.
  assert (0 < B) as HB by (apply Z.pow_pos_nonneg; lia).
  pose proof (Z.div_mod exp B ltac:(lia)) as D. pose proof (Z.mod_pos_bound exp B HB) as Hlo.
  assert (0 <= exp / B) as Hhi by (apply Z.div_pos; lia).
  destruct (Z.eqb_spec (exp / B) 0) as [Z0|NZ].
  - replace exp with (exp mod B) at 2 by lia. apply pow_word_ok; [exact Hr | lia].
  - pose proof (pow_helper_ok raw (exp mod B) Hr (Z.to_nat w) (pow_word raw (exp / B)) (exp / B) Hhi
                  (pow_word_ok raw (exp / B) Hr Hhi)) as H.
    rewrite Z2Nat.id in H by lia. rewrite Z.mod_mod in H by lia.
    replace exp with (exp / B * B + exp mod B) at 3 by lia. exact H.
Qed.

(** big-endian value of a word list, as the top-down loop accumulates it *)
Definition be_val (j : Z) (l : list Z) : Z := fold_left (fun acc x => acc * B + x) l j.

Lemma be_val_value l : forall j, be_val j l = j * B ^ len l + value w (rev l).
Proof.
  induction l as [|x t IH]; intros j; unfold be_val in *; cbn [fold_left rev].
  - unfold len. cbn [length Z.of_nat value]. rewrite Z.pow_0_r. lia.
  - rewrite IH. rewrite value_app. cbn [value]. unfold len. rewrite rev_length. cbn [length].
    rewrite Nat2Z.inj_succ, Z.pow_succ_r by lia. unfold Words.B. ring.
Qed.

Lemma pow_words_down_ok raw : R raw 1 -> forall ws_rev res j, 0 <= j -> R res j ->
  Forall (fun x => 0 <= x < B) ws_rev ->
  R (pow_words_down w T sqr mul raw ws_rev res) (be_val j ws_rev).
Proof.
  intros Hr. induction ws_rev as [|x t IH]; intros res j Hj Hres Hwf; cbn [pow_words_down].
  - exact Hres.
  - inversion Hwf as [|? ? Hx Ht]; subst.
    pose proof (pow_helper_ok raw x Hr (Z.to_nat w) res j Hj Hres) as H.
    rewrite Z2Nat.id in H by lia. rewrite Z.mod_small in H by lia.
    unfold be_val. cbn [fold_left]. apply IH; [nia | exact H | exact Ht].
Qed.

Lemma pow_nontrivial_prim_ok raw ws : R raw 1 -> wf w ws -> R (pow_nontrivial_prim w T one sqr mul raw ws) (value w ws).
Proof.
  intros Hr Hwf. unfold pow_nontrivial_prim.
  assert (Forall (fun x => 0 <= x < B) (rev ws)) as Hrev.
  { apply Forall_rev. exact Hwf. }
  destruct (rev ws) as [|top rest] eqn:E.
  - apply (f_equal (@rev Z)) in E. rewrite rev_involutive in E. subst ws. exact R_one.
  - inversion Hrev as [|? ? Htop Hrest]; subst.
    pose proof (pow_words_down_ok raw Hr rest (pow_word raw top) top ltac:(lia) (pow_word_ok raw top Hr ltac:(lia)) Hrest) as H.
    rewrite be_val_value in H.
    apply (f_equal (@rev Z)) in E. rewrite rev_involutive in E. cbn [rev] in E. subst ws.
    rewrite value_app. cbn [value]. unfold len in *. rewrite rev_length.
    match goal with H : R ?x ?e1 |- R ?x ?e2 => replace e2 with e1; [exact H | unfold Words.B; ring] end.
Qed.

Lemma exp_nwords_enough exp : 0 <= exp -> exp < B ^ Z.of_nat (exp_nwords w exp).
Proof.
  intros He. unfold exp_nwords. pose proof (Z.log2_nonneg exp) as Hl.
  set (n := (Z.log2 exp + 1 + w - 1) / w).
  assert (0 <= n) as Hn by (apply Z.div_pos; lia).
  rewrite Z2Nat.id by exact Hn. rewrite <- Z.pow_mul_r by lia.
  assert (Z.log2 exp + 1 <= w * n) as Hc.
  { pose proof (Z.div_mod (Z.log2 exp + 1 + w - 1) w ltac:(lia)) as D.
    pose proof (Z.mod_pos_bound (Z.log2 exp + 1 + w - 1) w ltac:(lia)). fold n in D. lia. }
  destruct (Z.eq_dec exp 0) as [->|NZ]; [apply Z.pow_pos_nonneg; nia|].
  pose proof (Z.log2_spec exp ltac:(lia)) as [_ U].
  apply Z.lt_le_trans with (2 ^ Z.succ (Z.log2 exp)); [exact U|]. apply Z.pow_le_mono_r; lia.
Qed.

Theorem pow_prim_ok raw exp : R raw 1 -> 0 <= exp -> R (pow_prim w T one sqr mul raw exp) exp.
Proof.
  intros Hr He. unfold pow_prim. destruct (exp <? B * B); [apply pow_small_ok; assumption|].
  pose proof (pow_nontrivial_prim_ok raw (to_words w (exp_nwords w exp) exp) Hr (to_words_wf w w_pos _ _)) as H.
  rewrite value_to_words in H; [exact H | exact w_pos |].
  split; [exact He | apply exp_nwords_enough; exact He].
Qed.

(** ---------------- sliding window ---------------- *)
Local Notation build_table := (build_table T mul).
Local Notation iter_sqr := (iter_sqr T sqr).

Lemma build_table_ok val d : R val 2 -> forall cnt prev i k, 0 <= i -> R prev (2 * i + 1) -> (k < cnt)%nat ->
  R (nth k (build_table cnt prev val) d) (2 * (i + Z.of_nat k + 1) + 1).
Proof.
  intros Hv. induction cnt as [|c IH]; intros prev i k Hi Hp Hk; [lia|].
  cbn [ModRingPowModel.build_table].
  assert (R (mul prev val) (2 * (i + 1) + 1)) as Hc.
  { replace (2 * (i + 1) + 1) with ((2 * i + 1) + 2) by lia. apply R_mul; [lia | lia | exact Hp | exact Hv]. }
  destruct k as [|k]; cbn [nth].
  - cbn [Z.of_nat]. replace (i + 0 + 1) with (i + 1) by lia. exact Hc.
  - replace (i + Z.of_nat (S k) + 1) with ((i + 1) + Z.of_nat k + 1) by lia.
    apply IH; [lia | exact Hc | lia].
Qed.

Lemma iter_sqr_ok n : forall v j, 0 <= j -> R v j -> R (iter_sqr n v) (j * 2 ^ Z.of_nat n).
Proof.
  induction n as [|n IH]; intros v j Hj Hv; cbn [ModRingPowModel.iter_sqr].
  - cbn [Z.of_nat]. rewrite Z.pow_0_r, Z.mul_1_r. exact Hv.
  - rewrite Nat2Z.inj_succ, Z.pow_succ_r by lia.
    replace (j * (2 * 2 ^ Z.of_nat n)) with ((2 * j) * 2 ^ Z.of_nat n) by ring.
    apply IH; [lia | apply R_sqr; assumption].
Qed.

(** arithmetic of one window *)
Lemma window_facts exp bit wl p : 0 <= exp -> 0 <= bit -> 1 <= wl -> Z.testbit exp bit = true ->
  window_val exp bit wl = Zpos p ->
  let tz := tz_pos p in
  let nb := wl - tz in
  let W' := Zpos p / 2 ^ tz in
  0 <= tz < wl /\ W' mod 2 = 1 /\ 0 < W' < 2 ^ wl /\ 0 <= bit + 1 - nb /\
  exp / 2 ^ (bit + 1 - nb) = exp / 2 ^ (bit + 1) * 2 ^ nb + W'.
Proof.
  intros He Hbit Hwl Hset HW tz nb W'.
  set (k := bit + 1) in *.
  set (E' := exp * 2 ^ wl / 2 ^ k) in *.
  assert (0 < 2 ^ wl) as Pwl by (apply Z.pow_pos_nonneg; lia).
  assert (0 < 2 ^ k) as Pk by (apply Z.pow_pos_nonneg; lia).
  assert (Zpos p = E' mod 2 ^ wl) as HWE by (rewrite <- HW; reflexivity).
  pose proof (Z.mod_pos_bound E' (2 ^ wl) Pwl) as HWb. rewrite <- HWE in HWb.
  pose proof (tz_pos_spec p) as [Htop Hlow]. pose proof (tz_pos_nonneg p) as Htz0. fold tz in Htop, Hlow, Htz0.
  assert (0 < 2 ^ tz) as Ptz by (apply Z.pow_pos_nonneg; lia).
  (* the window is a multiple of 2^tz with an odd cofactor *)
  assert (Zpos p mod 2 ^ tz = 0) as Hdiv.
  { apply Z.bits_inj'. intros i Hi. rewrite Z.bits_0.
    destruct (Z.ltb_spec i tz); [rewrite Z.mod_pow2_bits_low by lia; apply Hlow; lia | apply Z.mod_pow2_bits_high; lia]. }
  assert (W' mod 2 = 1) as Hodd.
  { unfold W'. rewrite <- Z.testbit_spec' by lia. rewrite Htop. reflexivity. }
  assert (Zpos p = W' * 2 ^ tz) as HWW.
  { unfold W'. pose proof (Z.div_mod (Zpos p) (2 ^ tz) ltac:(lia)). lia. }
  assert (0 < W') as HW'pos.
  { assert (0 <= W') by (unfold W'; apply Z.div_pos; lia).
    destruct (Z.eq_dec W' 0) as [E0|]; [rewrite E0 in Hodd; cbn in Hodd; lia | lia]. }
  assert (tz < wl) as Htzwl.
  { destruct (Z.ltb_spec tz wl); [assumption|].
    assert (2 ^ wl <= 2 ^ tz) by (apply Z.pow_le_mono_r; lia). nia. }
  assert (W' < 2 ^ wl) as HW'ub by nia.
  (* position of the window *)
  assert (0 <= k - nb) as Hpos.
  { unfold nb. destruct (Z.leb_spec wl k) as [|Hlt]; [lia|].
    (* k < wl: E' = exp * 2^(wl-k), so bit tz of the window can only be set if tz >= wl - k *)
    destruct (Z.ltb_spec tz (wl - k)) as [Hbad|]; [|lia]. exfalso.
    assert (E' = exp * 2 ^ (wl - k)) as EE.
    { unfold E'. replace wl with ((wl - k) + k) at 1 by lia. rewrite Z.pow_add_r by lia.
      rewrite Z.mul_assoc. apply Z.div_mul. lia. }
    assert (Z.testbit (Zpos p) tz = false) as Hf.
    { rewrite HWE. rewrite Z.mod_pow2_bits_low by lia. rewrite EE. apply Z.mul_pow2_bits_low. lia. }
    congruence. }
  split; [lia|]. split; [exact Hodd|]. split; [lia|]. split; [exact Hpos|].
  (* exp / 2^(k-nb) = E' / 2^tz *)
  assert (exp / 2 ^ (k - nb) = E' / 2 ^ tz) as E1.
  { unfold E'. rewrite Z.div_div by lia. rewrite <- Z.pow_add_r by lia.
    replace (k + tz) with ((k - nb) + wl) by (unfold nb; lia). rewrite Z.pow_add_r by lia.
    rewrite Z.div_mul_cancel_r by lia. reflexivity. }
  assert (E' / 2 ^ wl = exp / 2 ^ k) as E2.
  { unfold E'. rewrite Z.div_div by lia. rewrite Z.div_mul_cancel_r by lia. reflexivity. }
  rewrite E1. pose proof (Z.div_mod E' (2 ^ wl) ltac:(lia)) as D. rewrite <- HWE, E2 in D.
  rewrite D. replace (2 ^ wl) with (2 ^ nb * 2 ^ tz) by (rewrite <- Z.pow_add_r by (unfold nb; lia); f_equal; unfold nb; lia).
  replace (2 ^ nb * 2 ^ tz * (exp / 2 ^ k) + Zpos p) with ((exp / 2 ^ k * 2 ^ nb) * 2 ^ tz + Zpos p) by ring.
  rewrite Z.div_add_l by lia. reflexivity.
Qed.

Lemma window_val_pos exp bit wl : 0 <= exp -> 0 <= bit -> 1 <= wl -> Z.testbit exp bit = true ->
  exists p, window_val exp bit wl = Zpos p.
Proof.
  intros He Hbit Hwl Hset. unfold window_val.
  assert (0 < 2 ^ wl) as Pwl by (apply Z.pow_pos_nonneg; lia).
  pose proof (Z.mod_pos_bound (exp * 2 ^ wl / 2 ^ (bit + 1)) (2 ^ wl) Pwl) as Hb.
  assert (Z.testbit ((exp * 2 ^ wl / 2 ^ (bit + 1)) mod 2 ^ wl) (wl - 1) = true) as Ht.
  { rewrite Z.mod_pow2_bits_low by lia. rewrite Z.div_pow2_bits by lia. rewrite Z.mul_pow2_bits by lia.
    replace (wl - 1 + (bit + 1) - wl) with bit by lia. exact Hset. }
  destruct ((exp * 2 ^ wl / 2 ^ (bit + 1)) mod 2 ^ wl) as [|p|p]; [rewrite Z.bits_0 in Ht; discriminate | exists p; reflexivity | lia].
Qed.

Variable winf : Z -> Z -> Z -> Z.
Local Notation window_loop := (window_loop T sqr mul winf).

Theorem window_loop_ok raw wl exp : R raw 1 -> 1 <= wl -> 0 <= exp ->
  (forall bit, 0 <= bit -> winf exp bit wl = window_val exp bit wl) ->
  let table := build_table (Z.to_nat (2 ^ (wl - 1) - 1)) raw (sqr raw) in
  forall fuel bit val, 0 <= bit -> (Z.to_nat bit < fuel)%nat -> R val (2 * (exp / 2 ^ (bit + 1))) ->
  exists res, window_loop fuel raw table wl exp bit val = Ok res /\ R res exp.
Proof.
  intros Hr Hwl He Hwin table.
  assert (R (sqr raw) 2) as Hsq by (apply (R_sqr raw 1); [lia | exact Hr]).
  induction fuel as [|f IH]; intros bit val Hbit Hfuel Hval; [lia|].
  cbn [ModRingPowModel.window_loop].
  assert (0 <= exp / 2 ^ (bit + 1)) as HE by (apply Z.div_pos; [lia | apply Z.pow_pos_nonneg; lia]).
  (* the state after the optional window step *)
  match goal with |- exists res, (let '(b0, v0) := ?st in _) = _ /\ _ =>
    assert (exists bit' val', 0 <= bit' <= bit /\ R val' (exp / 2 ^ bit') /\ st = (bit', val'))
      as (bit' & val' & Hb' & Hv' & Est) end.
  { destruct (Z.testbit exp bit) eqn:Hset.
    - rewrite Hwin by lia.
      destruct (window_val_pos exp bit wl He Hbit Hwl Hset) as [p HW]. rewrite HW. cbn [tzw].
      pose proof (window_facts exp bit wl p He Hbit Hwl Hset HW) as F. cbv zeta in F.
      destruct F as (Htz & Hodd & HWb & Hpos & Hexp).
      set (tz := tz_pos p) in *. set (nb := wl - tz) in *.
      replace (wl - nb) with tz by (unfold nb; lia).
      set (W' := Z.pos p / 2 ^ tz) in *.
      eexists; eexists; split; [|split; [|reflexivity]]; [lia|].
      replace (bit - (nb - 1)) with (bit + 1 - nb) by lia. rewrite Hexp.
      apply R_mul.
      + apply Z.mul_nonneg_nonneg; [lia | apply Z.pow_nonneg; lia].
      + lia.
      + pose proof (iter_sqr_ok (Z.to_nat (nb - 1)) val (2 * (exp / 2 ^ (bit + 1))) ltac:(lia) Hval) as H.
        rewrite Z2Nat.id in H by (unfold nb; lia).
        replace (exp / 2 ^ (bit + 1) * 2 ^ nb) with (2 * (exp / 2 ^ (bit + 1)) * 2 ^ (nb - 1)); [exact H|].
        assert (2 ^ nb = 2 * 2 ^ (nb - 1)) as Hp2.
        { rewrite <- Z.pow_succ_r by (unfold nb; lia). f_equal. lia. }
        rewrite Hp2. ring.
      + pose proof (Z.div_mod W' 2 ltac:(lia)) as D. rewrite Hodd in D.
        destruct (Z.eqb_spec (W' / 2) 0) as [I0|IN].
        * replace W' with 1 by lia. exact Hr.
        * assert (0 < W' / 2) as Hidx by (assert (0 <= W' / 2) by (apply Z.div_pos; lia); lia).
          pose proof (build_table_ok (sqr raw) raw Hsq (Z.to_nat (2 ^ (wl - 1) - 1)) raw 0 (Z.to_nat (W' / 2 - 1)) ltac:(lia)) as Ht.
          rewrite Z2Nat.id in Ht by lia.
          replace (2 * (0 + (W' / 2 - 1) + 1) + 1) with W' in Ht by lia.
          apply Ht; [exact Hr|].
          assert (W' / 2 < 2 ^ (wl - 1)) as Hlt.
          { apply Z.div_lt_upper_bound; [lia|]. replace (2 * 2 ^ (wl - 1)) with (2 ^ wl); [lia|].
            replace wl with ((wl - 1) + 1) at 1 by lia. rewrite Z.pow_add_r, Z.pow_1_r by lia. ring. }
          apply Z2Nat.inj_lt; lia.
    - exists bit, val. split; [lia|]. split; [|reflexivity].
      rewrite (div_pow2_succ exp bit Hbit), Hset. cbn [Z.b2z]. rewrite Z.add_0_r. exact Hval. }
  rewrite Est. destruct (Z.eqb_spec bit' 0) as [->|NZ].
  - exists val'. split; [reflexivity|]. rewrite Z.pow_0_r, Z.div_1_r in Hv'. exact Hv'.
  - apply IH; [lia | lia |].
    replace (bit' - 1 + 1) with bit' by lia. apply R_sqr; [|exact Hv'].
    apply Z.div_pos; [lia | apply Z.pow_pos_nonneg; lia].
Qed.

Theorem pow_window_with_ok wl raw exp : R raw 1 -> 1 <= wl -> 2 <= exp ->
  (forall bit, 0 <= bit -> winf exp bit wl = window_val exp bit wl) ->
  exists res, pow_window_with T sqr mul winf wl raw exp = Ok res /\ R res exp.
Proof.
  intros Hr Hwl He Hwin. unfold pow_window_with.
  assert (1 <= Z.log2 exp) as Hl.
  { replace 1 with (Z.log2 2) by reflexivity. apply Z.log2_le_mono. lia. }
  apply window_loop_ok; try assumption; try lia.
  replace (Z.log2 exp + 1 - 2 + 1) with (Z.log2 exp) by lia.
  pose proof (log2_split exp ltac:(lia)) as S.
  assert (exp / 2 ^ Z.log2 exp = 1) as Q.
  { assert (0 < 2 ^ Z.log2 exp) by (apply Z.pow_pos_nonneg; lia).
    pose proof (Z.mod_pos_bound exp (2 ^ Z.log2 exp) ltac:(lia)).
    symmetry. apply (Z.div_unique exp (2 ^ Z.log2 exp) 1 (exp mod 2 ^ Z.log2 exp)); lia. }
  rewrite Q. apply (R_sqr raw 1); [lia | exact Hr].
Qed.

Lemma choose_loop_lb fuel : forall n ws c, 1 <= ws -> 1 <= choose_loop w fuel n ws c.
Proof.
  induction fuel as [|f IH]; intros n ws c Hws; cbn [choose_loop]; [exact Hws|].
  destruct (ws + 1 <? w); [|exact Hws]. destruct (c <=? wcost n (ws + 1)); [exact Hws | apply IH; lia].
Qed.

Lemma choose_loop_ub fuel : forall n ws c, ws < w -> choose_loop w fuel n ws c < w.
Proof.
  induction fuel as [|f IH]; intros n ws c Hws; cbn [choose_loop]; [exact Hws|].
  destruct (Z.ltb_spec (ws + 1) w); [|exact Hws]. destruct (c <=? wcost n (ws + 1)); [exact Hws | apply IH; lia].
Qed.

Lemma choose_window_len_range n : 2 <= w -> 1 <= choose_window_len w n < w.
Proof.
  intros Hw. unfold choose_window_len. split; [apply choose_loop_lb; lia | apply choose_loop_ub; lia].
Qed.

(** the regenerated window-length function stays in [1, w): proved over the GENERATED definition, for whatever cost
    function and break test the source has (only the loop guard `window_size + 1 < WORD_BITS` and the first size matter) *)
Lemma gen_choose_loop_lb fuel : forall n ws c, 1 <= ws -> 1 <= gen_choose_loop fuel w n ws c.
Proof.
  induction fuel as [|f IH]; intros n ws c Hws; cbn [gen_choose_loop]; [exact Hws|].
  destruct (gen_window_guard w ws); [|exact Hws]. destruct (gen_window_break c (gen_wcost n (ws + 1))); [exact Hws | apply IH; lia].
Qed.

Lemma gen_choose_loop_ub fuel : forall n ws c, ws < w -> gen_choose_loop fuel w n ws c < w.
Proof.
  induction fuel as [|f IH]; intros n ws c Hws; cbn [gen_choose_loop]; [exact Hws|].
  unfold gen_window_guard. destruct (Z.ltb_spec (ws + 1) w); [|exact Hws].
  destruct (gen_window_break c (gen_wcost n (ws + 1))); [exact Hws | apply IH; lia].
Qed.

Lemma gen_choose_window_len_range n : 2 <= w -> 1 <= gen_choose_window_len w n < w.
Proof.
  intros Hw. unfold gen_choose_window_len.
  assert (1 <= gen_window_start < w) as Hs by (unfold gen_window_start; lia).
  split; [apply gen_choose_loop_lb; lia | apply gen_choose_loop_ub; lia].
Qed.

(** large::pow with the window function [winf], for every exponent *)
Theorem pow_large_ok raw exp : R raw 1 -> 0 <= exp ->
  (forall wl bit, 1 <= wl < w -> 0 <= bit -> winf exp bit wl = window_val exp bit wl) -> 2 <= w ->
  exists res, pow_large w T one sqr mul winf raw exp = Ok res /\ R res exp.
Proof.
  intros Hr He Hwin Hw. unfold pow_large.
  destruct (Z.eqb_spec exp 0) as [->|N0]; [exists one; split; [reflexivity | exact R_one]|].
  destruct (Z.eqb_spec exp 1) as [->|N1]; [exists raw; split; [reflexivity | exact Hr]|].
  unfold pow_nontrivial_large. pose proof (gen_choose_window_len_range (Z.log2 exp + 1) Hw) as Hc. cbv zeta.
  replace ((1 <=? gen_choose_window_len w (Z.log2 exp + 1)) && (gen_choose_window_len w (Z.log2 exp + 1) <? w)) with true
    by (symmetry; apply andb_true_intro; split; [apply Z.leb_le | apply Z.ltb_lt]; lia).
  apply pow_window_with_ok; [exact Hr | lia | lia |]. intros bit Hb. apply Hwin; [exact Hc | exact Hb].
Qed.

End Proofs.

(** ---------------- the word-level window of the code is the window of the whole exponent ---------------- *)
Lemma testbit_add_shifted n c w j : 0 <= w -> 0 <= n < 2 ^ w -> 0 <= j ->
  Z.testbit (n + 2 ^ w * c) j = if j <? w then Z.testbit n j else Z.testbit c (j - w).
Proof.
  intros Hw Hn Hj. assert (0 < 2 ^ w) as P by (apply Z.pow_pos_nonneg; lia).
  destruct (Z.ltb_spec j w) as [Hlt|Hge].
  - rewrite <- (Z.mod_pow2_bits_low (n + 2 ^ w * c) w j) by lia.
    rewrite (Z.mul_comm (2 ^ w)), Z.mod_add by lia. rewrite Z.mod_small by lia. reflexivity.
  - replace j with ((j - w) + w) at 1 by lia. rewrite <- Z.div_pow2_bits by lia.
    rewrite (Z.mul_comm (2 ^ w)), Z.div_add by lia. rewrite Z.div_small by lia. reflexivity.
Qed.

Theorem window_at_val w exp bit wl : 0 < w -> 0 <= exp -> 0 <= bit -> 1 <= wl < w ->
  window_at w exp bit wl = window_val exp bit wl.
Proof.
  intros Hw He Hbit Hwl. unfold window_at, window_val.
  pose proof (Z.div_mod bit w ltac:(lia)) as D. pose proof (Z.mod_pos_bound bit w Hw) as Hbi.
  assert (0 <= bit / w) as Hwi by (apply Z.div_pos; lia).
  set (wi := bit / w) in *. set (bi := bit mod w) in *.
  assert (0 < 2 ^ w) as PB by (apply Z.pow_pos_nonneg; lia).
  set (cur := (exp / 2 ^ (w * wi)) mod 2 ^ w).
  set (next := if wi =? 0 then 0 else (exp / 2 ^ (w * (wi - 1))) mod 2 ^ w).
  assert (0 <= next < 2 ^ w) as Hnext.
  { unfold next. destruct (wi =? 0); [lia | apply Z.mod_pos_bound; lia]. }
  apply Z.bits_inj'. intros i Hi.
  destruct (Z.ltb_spec i wl) as [Hlt|Hge].
  2:{ rewrite !Z.mod_pow2_bits_high by lia. reflexivity. }
  rewrite !(Z.mod_pow2_bits_low _ wl i) by lia.
  rewrite Z.mod_pow2_bits_low by lia.
  rewrite !Z.div_pow2_bits by lia. rewrite Z.mul_pow2_bits by lia.
  rewrite testbit_add_shifted by lia.
  destruct (Z.ltb_spec (i + (bi + 1 + w - wl)) w) as [Hlo|Hhi].
  - unfold next. destruct (Z.eqb_spec wi 0) as [W0|WN].
    + rewrite Z.bits_0. symmetry. apply Z.testbit_neg_r. lia.
    + rewrite Z.mod_pow2_bits_low by lia. rewrite Z.div_pow2_bits by nia. f_equal. nia.
  - unfold cur. rewrite Z.mod_pow2_bits_low by lia. rewrite Z.div_pow2_bits by nia. f_equal. nia.
Qed.
