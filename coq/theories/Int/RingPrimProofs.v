(** C01 (L1): the primitive-operand forms of + - * return exactly the mathematical result of the operation on the
    converted primitive (UBig - larger value = Panic NegativeUBig, nothing else), for every word size w >= 8,
    every primitive width and both operand orders. *)
From Dashu Require Import Base.Prelude Base.Words Int.RingSpec Int.RingAdd Int.RingAddProofs Int.RingMul Int.RingMulProofs
  Int.RingDispatchProofs Int.RingOps Int.RingOpsProofs Int.RingOpsMulProofs Int.RingPowProofs Int.RingTop Int.RingCanon
  Int.DivWordProofs Int.DivWordInst Int.RingMulW Int.RingMulWProofs Int.RingOpsW Int.RingOpsWProofs Int.RingTopW Int.RingPrim.
From DashuGen Require Import Params.
Open Scope Z_scope.

Section PrimProofs.
Variable w : Z.
Hypothesis w_ge : 8 <= w.
Variable div2by1 : Z -> Z -> Z * Z.
Hypothesis div2by1_ok : forall d a, norm1 w d -> 0 <= a < d * B w -> div2by1 d a = (a / d, a mod d).
Notation rv := (repr_value w).
Notation srv := (srepr_value w).

Theorem repr_from_unsigned_ok p : 0 <= p -> rv (repr_from_unsigned w p) = p /\ twf w (repr_from_unsigned w p).
Proof. apply (typed_of_value_twf w w_ge). Qed.

(** to_sign_magnitude of any value of the signed type: sign * magnitude is the value *)
Theorem to_sign_magnitude_ok bits x : 1 <= bits -> - 2 ^ (bits - 1) <= x < 2 ^ (bits - 1) ->
  let '(s, m) := to_sign_magnitude bits x in signed s m = x /\ 0 <= m.
Proof.
  intros Hb Hx. unfold to_sign_magnitude.
  assert (E : 2 ^ bits = 2 * 2 ^ (bits - 1)).
  { replace bits with (Z.succ (bits - 1)) at 1 by lia. rewrite Z.pow_succ_r by lia. reflexivity. }
  assert (P : 0 < 2 ^ (bits - 1)) by (apply Z.pow_pos_nonneg; lia).
  destruct (Z.leb_spec 0 x) as [H|H]; [unfold signed; cbn [sgnz]; lia|].
  assert (U : x mod 2 ^ bits = x + 2 ^ bits).
  { symmetry. apply Z.mod_unique with (-1); lia. }
  rewrite U. replace (2 ^ bits - (x + 2 ^ bits)) with (- x) by ring.
  rewrite Z.mod_small by lia. unfold signed. cbn [sgnz]. lia.
Qed.

Theorem ibig_from_signed_ok bits x : 1 <= bits -> - 2 ^ (bits - 1) <= x < 2 ^ (bits - 1) ->
  srv (ibig_from_signed w bits x) = x /\ twf w (snd (ibig_from_signed w bits x)).
Proof.
  intros Hb Hx. unfold ibig_from_signed. pose proof (to_sign_magnitude_ok bits x Hb Hx) as T.
  destruct (to_sign_magnitude bits x) as [s m]. destruct T as (V & Hm).
  destruct (repr_from_unsigned_ok m Hm) as (Vm & Tm).
  destruct (with_sign_value w s (repr_from_unsigned w m)) as (V' & S'). rewrite V', S', Vm. auto.
Qed.

Theorem ubig_prim_exact op side byref x p : twf w x -> 0 <= p ->
  let '(a, b) := match side with PLeft => (rv x, p) | PRight => (p, rv x) end in
  match ubig_prim w div2by1 src_T_simple src_T_kara src_CHUNK src_SQR op side byref x p, ubig_prim_spec op a b with
  | Ok r, Ok v => rv r = v /\ twf w r
  | Panic NegativeUBig, Panic NegativeUBig => True
  | _, _ => False
  end.
Proof.
  intros Hx Hp. destruct (repr_from_unsigned_ok p Hp) as (Vq & Tq).
  unfold ubig_prim. cbv zeta. set (q := repr_from_unsigned w p) in *.
  assert (G : forall o l r, twf w l -> twf w r ->
    match (match op with
           | PAdd => Ok (repr_add w o l r)
           | PSub => repr_sub w o l r
           | PMul => repr_mul_w w div2by1 src_T_simple src_T_kara src_CHUNK src_SQR l r end), ubig_prim_spec op (rv l) (rv r) with
    | Ok r, Ok v => rv r = v /\ twf w r
    | Panic NegativeUBig, Panic NegativeUBig => True
    | _, _ => False
    end).
  { intros o l r Hl Hr. destruct op; cbn [ubig_prim_spec].
    - destruct (ubig_add_exact w w_ge o l r Hl Hr) as (V & T). unfold ubig_add_spec in *. inversion V. auto.
    - exact (ubig_sub_exact w w_ge o l r Hl Hr).
    - destruct (ubig_mul_w_exact w w_ge div2by1 div2by1_ok l r (twf_tok w l Hl) (twf_tok w r Hr)) as (r0 & E & V & T).
      rewrite E. unfold ubig_mul_spec in *. inversion V. auto. }
  destruct side.
  - pose proof (G (prim_own PLeft byref) x q Hx Tq) as R. rewrite Vq in R. exact R.
  - pose proof (G (prim_own PRight byref) q x Tq Hx) as R. rewrite Vq in R. exact R.
Qed.

Theorem ibig_prim_exact op side byref x q : twf w (snd x) -> twf w (snd q) ->
  let '(a, b) := match side with PLeft => (srv x, srv q) | PRight => (srv q, srv x) end in
  exists r, ibig_prim w div2by1 src_T_simple src_T_kara src_CHUNK src_SQR op side byref x q = Ok r /\
            srv r = ibig_prim_spec op a b /\ twf w (snd r).
Proof.
  intros Hx Hq. unfold ibig_prim. cbv zeta.
  assert (G : forall o (l r : sign * trepr), twf w (snd l) -> twf w (snd r) ->
    exists r0, (match op with
                | PAdd => ibig_add_asis w o (fst l) (snd l) (fst r) (snd r)
                | PSub => ibig_sub_asis w o (fst l) (snd l) (fst r) (snd r)
                | PMul => ibig_mul_asis_w w div2by1 src_T_simple src_T_kara src_CHUNK src_SQR (fst l) (snd l) (fst r) (snd r) end) = Ok r0 /\
               srv r0 = ibig_prim_spec op (srv l) (srv r) /\ twf w (snd r0)).
  { intros o l r Hl Hr. unfold srepr_value. destruct op; cbn [ibig_prim_spec].
    - exact (ibig_add_exact w w_ge o (fst l) (snd l) (fst r) (snd r) Hl Hr).
    - exact (ibig_sub_exact w w_ge o (fst l) (snd l) (fst r) (snd r) Hl Hr).
    - exact (ibig_mul_w_exact w w_ge div2by1 div2by1_ok (fst l) (snd l) (fst r) (snd r) (twf_tok w _ Hl) (twf_tok w _ Hr)). }
  destruct side; apply G; auto.
Qed.

End PrimProofs.

(** non-vacuity (64-bit words): u128::MAX + 1-word UBig spills to three words; 5u8 - UBig(7) panics;
    i8::MIN converts to (Negative, 128); IBig(-3) * i16(-7) = 21 *)
Example prim_examples :
  ubig_prim 64 x2by1 src_T_simple src_T_kara src_CHUNK src_SQR PAdd PLeft true (Small 1) (2 ^ 128 - 1) = Ok (Large [0; 0; 1]) /\
  ubig_prim 64 x2by1 src_T_simple src_T_kara src_CHUNK src_SQR PSub PRight false (Small 7) 5 = Panic NegativeUBig /\
  ibig_from_signed 64 8 (-128) = (Negative, Small 128) /\
  ibig_prim 64 x2by1 src_T_simple src_T_kara src_CHUNK src_SQR PMul PLeft false (Negative, Small 3) (ibig_from_signed 64 16 (-7)) = Ok (Positive, Small 21).
Proof. vm_compute. repeat split; reflexivity. Qed.
