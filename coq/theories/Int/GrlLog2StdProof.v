(** C12 - the std-feature log2 estimator: PROOFS.
    With the libm assumption made explicit (Section hypotheses [flog2_format], [flog2_one_ulp]),
    every std [log2_bounds] of primitives, big integers and rationals encloses the true binary
    logarithm for every input; for floats [Repr<B>] the part that does not depend on the rounding of
    e * log2(B) is proved here (std_log2_repr_encloses_partial; the float composition on IEEE operations is
    C14's Cross/XLog2Flocq.v, after the repair 388fab5 of float/src/log.rs).
    Print Assumptions: only the axioms of the standard real-number library (no interval tactic: ln 2 >= 1/2
    is proved from exp 1 <= 3). *)
From Coq Require Import ZArith Reals Lra Lia Psatz.
From Flocq Require Import Core Relative.
From Dashu Require Import Base.Prelude Int.GrlSpec Int.GrlLog2Real Int.GrlLog2Std.
Open Scope R_scope.

(** * binary32 basics *)
Global Instance prec32_gt_0 : Prec_gt_0 24.
Proof. unfold Prec_gt_0. lia. Qed.
Global Instance fexp32_valid : Valid_exp fexp32.
Proof. unfold fexp32. apply FLT_exp_valid. exact prec32_gt_0. Qed.
Global Instance fexp32_monotone : Monotone_exp fexp32.
Proof. unfold fexp32. apply FLT_exp_monotone. Qed.

Lemma format32_F2R : forall m e : Z, (Z.abs m < 2 ^ 24)%Z -> (-149 <= e)%Z ->
  format32 (IZR m * bpow radix2 e).
Proof.
  intros m e Hm He. unfold format32, fexp32. apply generic_format_FLT.
  apply (FLT_spec radix2 (-149) 24 _ (Float radix2 m e)).
  - unfold F2R. reflexivity.
  - exact Hm.
  - exact He.
Qed.

Lemma format32_int : forall z : Z, (Z.abs z <= 2 ^ 24)%Z -> format32 (IZR z).
Proof.
  intros z Hz. destruct (Z.eq_dec (Z.abs z) (2 ^ 24)) as [E|N].
  - assert (z = 2 ^ 24 \/ z = - 2 ^ 24)%Z as [->| ->] by lia.
    + replace (IZR (2 ^ 24)) with (IZR 1 * bpow radix2 24) by (simpl; lra).
      apply format32_F2R; simpl; lia.
    + replace (IZR (- 2 ^ 24)) with (IZR (-1) * bpow radix2 24) by (simpl; lra).
      apply format32_F2R; simpl; lia.
  - replace (IZR z) with (IZR z * bpow radix2 0) by (simpl; lra).
    apply format32_F2R; lia.
Qed.

Lemma rnd32_id : forall x, format32 x -> rnd32 x = x.
Proof. intros x Hx. unfold rnd32. apply round_generic; [apply valid_rnd_N | exact Hx]. Qed.

Lemma of_int_exact : forall z : Z, (Z.abs z <= 2 ^ 24)%Z -> of_int z = IZR z.
Proof. intros z Hz. unfold of_int. apply rnd32_id. apply format32_int. exact Hz. Qed.

Lemma rnd32_le : forall x y, x <= y -> rnd32 x <= rnd32 y.
Proof. intros x y H. unfold rnd32. apply round_le; [exact fexp32_valid | apply valid_rnd_N | exact H]. Qed.

Lemma format32_rnd : forall x, format32 (rnd32 x).
Proof. intros x. unfold format32, rnd32. apply generic_format_round; [exact fexp32_valid | apply valid_rnd_N]. Qed.

Lemma next_down_rnd_le : forall x, next_down (rnd32 x) <= x.
Proof. intros x. unfold next_down, rnd32. apply pred_round_le_id; [exact fexp32_valid | apply valid_rnd_N]. Qed.

Lemma next_up_rnd_ge : forall x, x <= next_up (rnd32 x).
Proof. intros x. unfold next_up, rnd32. apply succ_round_ge_id; [exact fexp32_valid | apply valid_rnd_N]. Qed.

(** strict versions (x <> 0) *)
Lemma next_down_rnd_lt : forall x, x <> 0 -> next_down (rnd32 x) < x.
Proof.
  intros x Hx. destruct (generic_format_EM radix2 fexp32 x) as [F|NF].
  - rewrite rnd32_id by exact F. unfold next_down. apply pred_lt_id. exact Hx.
  - destruct (next_down_rnd_le x) as [L|E]; [exact L|]. exfalso. apply NF. rewrite <- E.
    unfold next_down. apply generic_format_pred; [exact fexp32_valid | apply format32_rnd].
Qed.

Lemma next_up_rnd_gt : forall x, x <> 0 -> x < next_up (rnd32 x).
Proof.
  intros x Hx. destruct (generic_format_EM radix2 fexp32 x) as [F|NF].
  - rewrite rnd32_id by exact F. unfold next_up. apply succ_gt_id. exact Hx.
  - destruct (next_up_rnd_ge x) as [L|E]; [exact L|]. exfalso. apply NF. rewrite E.
    unfold next_up. apply generic_format_succ; [exact fexp32_valid | apply format32_rnd].
Qed.

(** * the grid of multiples of 2^-19: every binary32 number of magnitude >= 16 lies on it *)
Definition g19 : R := bpow radix2 (-19).

Lemma g19_pos : 0 < g19.
Proof. unfold g19. apply bpow_gt_0. Qed.

Lemma format32_grid : forall x, format32 x -> 16 <= Rabs x -> exists k : Z, x = IZR k * g19.
Proof.
  intros x Fx Hx. unfold format32, generic_format in Fx.
  set (m := Ztrunc (scaled_mantissa radix2 fexp32 x)) in *.
  set (c := cexp radix2 fexp32 x) in *.
  assert (-19 <= c)%Z as Hc.
  { unfold c, cexp, fexp32, FLT_exp.
    assert (5 <= mag radix2 x)%Z as Hm.
    { apply mag_ge_bpow. simpl. lra. }
    lia. }
  exists (m * 2 ^ (c + 19))%Z. rewrite Fx. unfold F2R, g19. cbn [Fnum Fexp].
  rewrite mult_IZR. rewrite (IZR_Zpower radix2) by lia.
  rewrite Rmult_assoc. rewrite <- bpow_plus. f_equal. f_equal. lia.
Qed.

Lemma grid_format32 : forall k : Z, (Z.abs k < 2 ^ 24)%Z -> format32 (IZR k * g19).
Proof. intros k Hk. unfold g19. apply format32_F2R; [exact Hk | lia]. Qed.

Lemma format32_16 : format32 16.
Proof. apply (format32_int 16). simpl. lia. Qed.
Lemma format32_17 : format32 17.
Proof. apply (format32_int 17). simpl. lia. Qed.

(** rounding a grid point >= 17 and stepping down lands at least one grid step below it *)
Lemma next_down_rnd_grid : forall (k : Z), 17 <= IZR k * g19 ->
  next_down (rnd32 (IZR k * g19)) <= IZR k * g19 - g19.
Proof.
  intros k Hx. set (x := IZR k * g19) in *.
  assert (format32 (next_down (rnd32 x))) as Fp.
  { unfold next_down. apply generic_format_pred; [exact fexp32_valid | apply format32_rnd]. }
  assert (16 <= next_down (rnd32 x)) as Hp.
  { apply Rle_trans with (next_down 17).
    - unfold next_down. apply pred_ge_gt; [exact fexp32_valid | exact format32_16 | exact format32_17 | lra].
    - unfold next_down. apply pred_le; [exact fexp32_valid | exact format32_17 | apply format32_rnd |].
      rewrite <- (rnd32_id 17) by exact format32_17. apply rnd32_le. exact Hx. }
  destruct (format32_grid _ Fp) as [kp Ekp].
  { rewrite Rabs_pos_eq by lra. exact Hp. }
  assert (next_down (rnd32 x) < x) as Hlt by (apply next_down_rnd_lt; lra).
  rewrite Ekp in *. unfold x in *.
  assert (kp < k)%Z as Hk.
  { apply lt_IZR. apply (Rmult_lt_reg_r g19); [exact g19_pos | exact Hlt]. }
  assert (IZR kp <= IZR k - 1) as Hk' by (rewrite <- minus_IZR; apply IZR_le; lia).
  pose proof g19_pos as G. nra.
Qed.

Lemma next_up_rnd_grid : forall (k : Z), 16 <= IZR k * g19 ->
  IZR k * g19 + g19 <= next_up (rnd32 (IZR k * g19)).
Proof.
  intros k Hx. set (x := IZR k * g19) in *.
  assert (format32 (next_up (rnd32 x))) as Fp.
  { unfold next_up. apply generic_format_succ; [exact fexp32_valid | apply format32_rnd]. }
  assert (x < next_up (rnd32 x)) as Hlt by (apply next_up_rnd_gt; lra).
  destruct (format32_grid _ Fp) as [kp Ekp].
  { rewrite Rabs_pos_eq by lra. lra. }
  rewrite Ekp in *. unfold x in *.
  assert (k < kp)%Z as Hk.
  { apply lt_IZR. apply (Rmult_lt_reg_r g19); [exact g19_pos | exact Hlt]. }
  assert (IZR k + 1 <= IZR kp) as Hk' by (rewrite <- plus_IZR; apply IZR_le; lia).
  pose proof g19_pos as G. nra.
Qed.

(** one grid step below / above a binary32 number in [17, 25] is the neighbour or beyond *)
Lemma grid_bound : forall k : Z, IZR k * g19 <= 26 -> 0 <= IZR k * g19 -> (Z.abs (k + 1) < 2 ^ 24 /\ Z.abs (k - 1) < 2 ^ 24)%Z.
Proof.
  intros k Hu Hl. unfold g19 in *. simpl in Hu, Hl.
  assert (IZR k <= 26 * 524288) as H1 by lra.
  assert (0 <= IZR k) as H2 by lra.
  replace (26 * 524288) with (IZR 13631488) in H1 by (simpl; lra).
  apply le_IZR in H1. apply le_IZR in H2. simpl. lia.
Qed.

Lemma next_down_ge_grid : forall x, format32 x -> 17 <= x <= 26 -> x - g19 <= next_down x.
Proof.
  intros x Fx Hx. destruct (format32_grid x Fx) as [k Ek].
  { rewrite Rabs_pos_eq by lra. lra. }
  destruct (grid_bound k) as [_ Hk]; [rewrite <- Ek; lra | rewrite <- Ek; lra |].
  unfold next_down. apply pred_ge_gt; [exact fexp32_valid | | exact Fx | pose proof g19_pos; lra].
  rewrite Ek. replace (IZR k * g19 - g19) with (IZR (k - 1) * g19) by (rewrite minus_IZR; ring).
  apply grid_format32. exact Hk.
Qed.

Lemma next_up_le_grid : forall x, format32 x -> 17 <= x <= 26 -> next_up x <= x + g19.
Proof.
  intros x Fx Hx. destruct (format32_grid x Fx) as [k Ek].
  { rewrite Rabs_pos_eq by lra. lra. }
  destruct (grid_bound k) as [Hk _]; [rewrite <- Ek; lra | rewrite <- Ek; lra |].
  unfold next_up. apply succ_le_lt; [exact fexp32_valid | exact Fx | | pose proof g19_pos; lra].
  rewrite Ek. replace (IZR k * g19 + g19) with (IZR (k + 1) * g19) by (rewrite plus_IZR; ring).
  apply grid_format32. exact Hk.
Qed.

(** * facts about log2R *)
Lemma ln2_pos : 0 < ln 2.
Proof. rewrite <- ln_1. apply ln_increasing; lra. Qed.

Lemma log2R_le : forall x y, 0 < x -> x <= y -> log2R x <= log2R y.
Proof.
  intros x y Hx Hxy. unfold log2R. pose proof ln2_pos as L.
  apply Rmult_le_compat_r; [left; apply Rinv_0_lt_compat; exact L|].
  destruct Hxy as [Hlt|Heq]; [left; apply ln_increasing; assumption | right; rewrite Heq; reflexivity].
Qed.

Lemma log2R_mult : forall x y, 0 < x -> 0 < y -> log2R (x * y) = log2R x + log2R y.
Proof. intros x y Hx Hy. unfold log2R. rewrite ln_mult by assumption. pose proof ln2_pos. field. lra. Qed.

Lemma log2R_div : forall x y, 0 < x -> 0 < y -> log2R (x / y) = log2R x - log2R y.
Proof. intros x y Hx Hy. unfold log2R. rewrite ln_div' by assumption. pose proof ln2_pos. field. lra. Qed.

Lemma log2R_pow2 : forall k : Z, (0 <= k)%Z -> log2R (IZR (2 ^ k)) = IZR k.
Proof.
  intros k Hk. unfold log2R. rewrite IZR_pow_exp by lia. rewrite ln_exp. pose proof ln2_pos. field. lra.
Qed.

Lemma log2R_bpow : forall k : Z, log2R (bpow radix2 k) = IZR k.
Proof.
  intros k. unfold log2R. rewrite bpow_exp. rewrite ln_exp. simpl. pose proof ln2_pos. field. lra.
Qed.

(** * (a) primitives *)
Lemma shifted_facts : forall n : Z, (0 < n)%Z -> (24 < nbits n)%Z ->
  let sh := (nbits n - 24)%Z in let t := Z.shiftr n sh in
  (1 <= sh /\ 2 ^ 23 <= t < 2 ^ 24 /\ t * 2 ^ sh <= n < (t + 1) * 2 ^ sh)%Z.
Proof.
  intros n Hn Hb sh t. unfold nbits in *.
  assert (1 <= sh)%Z as Hsh by (unfold sh; lia).
  pose proof (Z.log2_spec n Hn) as [L1 L2].
  assert (Z.log2 n = sh + 23)%Z as EL by (unfold sh; lia).
  replace (Z.succ (Z.log2 n)) with (sh + 24)%Z in L2 by lia. rewrite EL in L1.
  assert (0 < 2 ^ sh)%Z as Hp by (apply Z.pow_pos_nonneg; lia).
  unfold t. rewrite Z.shiftr_div_pow2 by lia.
  pose proof (Z.div_mod n (2 ^ sh) ltac:(lia)) as Hdm.
  pose proof (Z.mod_pos_bound n (2 ^ sh) Hp) as Hmb.
  rewrite Z.pow_add_r in L1, L2 by lia.
  split; [exact Hsh|]. split; [|nia]. split.
  - apply Z.div_le_lower_bound; [exact Hp|]. lia.
  - apply Z.div_lt_upper_bound; [exact Hp|]. lia.
Qed.

Lemma grid_shift : forall k sh : Z, IZR (k + sh * 2 ^ 19) * g19 = IZR k * g19 + IZR sh.
Proof.
  intros k sh. rewrite plus_IZR, mult_IZR. unfold g19.
  replace (IZR (2 ^ 19)) with (bpow radix2 19) by (simpl; lra).
  rewrite Rmult_plus_distr_r. rewrite Rmult_assoc. rewrite <- bpow_plus. simpl. lra.
Qed.


(** * relative error of one rounding, for arguments >= 1 *)
Definition eps32 : R := / 16777216.

Lemma rnd32_rel : forall x, 1 <= x -> x * (1 - eps32) <= rnd32 x <= x * (1 + eps32).
Proof.
  intros x Hx. unfold rnd32, fexp32.
  pose proof (relative_error_N_FLT radix2 (-149) 24 prec32_gt_0 (fun z => negb (Z.even z)) x) as H.
  assert (bpow radix2 (-149 + 24 - 1) <= Rabs x) as Hb.
  { rewrite Rabs_pos_eq by lra. apply Rle_trans with 1; [|exact Hx].
    replace 1 with (bpow radix2 0) by reflexivity. apply bpow_le. lia. }
  specialize (H Hb). rewrite (Rabs_pos_eq x) in H by lra.
  replace (/ 2 * bpow radix2 (- (24) + 1)) with eps32 in H by (unfold eps32; simpl; lra).
  apply Rabs_le_inv in H. unfold eps32 in *. lra.
Qed.

Lemma rnd32_0 : rnd32 0 = 0.
Proof. unfold rnd32. apply round_0. apply valid_rnd_N. Qed.

Lemma adjust32_val : adjust32 = / 4194304.
Proof.
  unfold adjust32, fmul. replace (2 * bpow radix2 (-23)) with (IZR 1 * bpow radix2 (-22)) by (simpl; lra).
  rewrite rnd32_id by (apply format32_F2R; simpl; lia). simpl. lra.
Qed.

Lemma one_minus_adjust : fsub 1 adjust32 = 1 - / 4194304.
Proof.
  rewrite adjust32_val. unfold fsub. apply rnd32_id.
  replace (1 - / 4194304) with (IZR 4194303 * bpow radix2 (-22)) by (simpl; lra).
  apply format32_F2R; simpl; lia.
Qed.

Lemma one_plus_adjust : fadd 1 adjust32 = 1 + / 4194304.
Proof.
  rewrite adjust32_val. unfold fadd. apply rnd32_id.
  replace (1 + / 4194304) with (IZR 4194305 * bpow radix2 (-22)) by (simpl; lra).
  apply format32_F2R; simpl; lia.
Qed.

(** ln 2 >= 1/2, elementary (exp 1 <= 3), so that no interval arithmetic - and none of the primitive-integer /
    primitive-float axioms its tactic brings in - is needed *)
Lemma ln2_ge_half : / 2 <= ln 2.
Proof.
  rewrite <- (ln_exp (/ 2)). left. apply ln_increasing; [apply exp_pos | ].
  assert (exp (/ 2) * exp (/ 2) = exp 1) as H by (rewrite <- exp_plus; f_equal; lra).
  pose proof exp_le_3 as E3. pose proof (exp_pos (/ 2)) as P.
  destruct (Rlt_or_le (exp (/ 2)) 2) as [ | C]; [assumption | exfalso].
  assert (2 * 2 <= exp (/ 2) * exp (/ 2)) by (apply Rmult_le_compat; lra). lra.
Qed.

(** log2 (x + 1) - log2 x <= 2 / x *)
Lemma log2R_succ : forall x, 0 < x -> log2R (x + 1) <= log2R x + 2 / x.
Proof.
  intros x Hx. assert (0 < / x) as Hi by (apply Rinv_0_lt_compat; exact Hx).
  replace (x + 1) with (x * (1 + / x)) by (field; lra).
  rewrite log2R_mult by lra. apply Rplus_le_compat_l. unfold log2R.
  assert (ln (1 + / x) <= / x) as H1.
  { left. rewrite <- (ln_exp (/ x)) at 2. apply ln_increasing; [lra|]. apply exp_ineq1. lra. }
  pose proof ln2_ge_half as H2.
  assert (0 <= ln (1 + / x)) as H0.
  { rewrite <- ln_1. destruct (Req_dec (/ x) 0) as [E|N]; [lra|]. left. apply ln_increasing; lra. }
  unfold Rdiv. apply Rle_trans with (/ x * / ln 2).
  - apply Rmult_le_compat_r; [left; apply Rinv_0_lt_compat; lra | exact H1].
  - assert (/ ln 2 <= / / 2) as H3 by (apply Rinv_le_contravar; lra).
    assert (/ / 2 = 2) as H4 by field.
    rewrite H4 in H3. clear - H3 Hi. nra.
Qed.

(** the two ADJUST steps of log2_bounds_large, for any bounds of the logarithm of the top part *)
Lemma large_lower : forall hlb Lh (rem : Z), hlb <= Lh -> 32 <= Lh -> (32 <= rem)%Z ->
  fmul (fadd hlb (of_int rem)) (fsub 1 adjust32) <= Lh + IZR rem.
Proof.
  intros hlb Lh rem H1 H2 H3. rewrite one_minus_adjust.
  assert (32 <= IZR rem) as Hr by (apply IZR_le; exact H3).
  pose proof (rnd32_rel (IZR rem) ltac:(lra)) as [_ R2]. fold (of_int rem) in R2.
  set (A := Lh + IZR rem * (1 + eps32)).
  assert (1 <= A) as HA by (unfold A, eps32; nra).
  assert (fadd hlb (of_int rem) <= A * (1 + eps32)) as HS.
  { unfold fadd. apply Rle_trans with (rnd32 A); [apply rnd32_le; unfold A; lra|].
    apply (rnd32_rel A HA). }
  set (S := fadd hlb (of_int rem)) in *. unfold fmul.
  destruct (Rle_lt_dec S 0) as [Neg|Pos].
  - apply Rle_trans with (rnd32 0); [apply rnd32_le; nra | rewrite rnd32_0; lra].
  - set (Bv := A * (1 + eps32) * (1 - / 4194304)).
    assert (1 <= Bv) as HB by (unfold Bv, A, eps32 in *; nra).
    apply Rle_trans with (rnd32 Bv); [apply rnd32_le; unfold Bv; nra|].
    apply Rle_trans with (Bv * (1 + eps32)); [apply (rnd32_rel Bv HB)|].
    unfold Bv, A, eps32. lra.
Qed.

Lemma large_upper : forall hub Lh (rem : Z), Lh <= hub -> 32 <= Lh -> (32 <= rem)%Z ->
  Lh + IZR rem + / 2147483648 <= fmul (fadd hub (of_int rem)) (fadd 1 adjust32).
Proof.
  intros hub Lh rem H1 H2 H3. rewrite one_plus_adjust.
  assert (32 <= IZR rem) as Hr by (apply IZR_le; exact H3).
  pose proof (rnd32_rel (IZR rem) ltac:(lra)) as [R1 _]. fold (of_int rem) in R1.
  set (A := Lh + IZR rem * (1 - eps32)).
  assert (1 <= A) as HA by (unfold A, eps32; nra).
  assert (A * (1 - eps32) <= fadd hub (of_int rem)) as HS.
  { unfold fadd. apply Rle_trans with (rnd32 A); [apply (rnd32_rel A HA) | apply rnd32_le; unfold A; lra]. }
  set (S := fadd hub (of_int rem)) in *. unfold fmul.
  set (Bv := A * (1 - eps32) * (1 + / 4194304)).
  assert (1 <= Bv) as HB by (unfold Bv, A, eps32 in *; nra).
  apply Rle_trans with (rnd32 Bv); [|apply rnd32_le; unfold Bv; unfold eps32 in *; nra].
  apply Rle_trans with (Bv * (1 - eps32)); [|apply (rnd32_rel Bv HB)].
  unfold Bv, A, eps32. lra.
Qed.

Lemma large_split : forall wb n len : Z, (32 <= wb)%Z -> (3 <= len)%Z ->
  (2 ^ ((len - 1) * wb) <= n < 2 ^ (len * wb))%Z ->
  let rem := ((len - 2) * wb)%Z in let hi := (n / 2 ^ rem)%Z in
  (32 <= rem /\ 2 ^ wb <= hi < 2 ^ (2 * wb) /\ hi * 2 ^ rem <= n < (hi + 1) * 2 ^ rem)%Z.
Proof.
  intros wb n len Hwb Hlen [Hn1 Hn2] rem hi.
  assert (32 <= rem)%Z as Hrem by (unfold rem; nia).
  assert (0 < 2 ^ rem)%Z as Hp by (apply Z.pow_pos_nonneg; lia).
  replace ((len - 1) * wb)%Z with (wb + rem)%Z in Hn1 by (unfold rem; ring).
  replace (len * wb)%Z with (2 * wb + rem)%Z in Hn2 by (unfold rem; ring).
  rewrite Z.pow_add_r in Hn1, Hn2 by lia.
  pose proof (Z.div_mod n (2 ^ rem) ltac:(lia)) as Hdm.
  pose proof (Z.mod_pos_bound n (2 ^ rem) Hp) as Hmb.
  split; [exact Hrem|]. split; [|unfold hi; nia]. split.
  - apply Z.div_le_lower_bound; [exact Hp|]. lia.
  - apply Z.div_lt_upper_bound; [exact Hp|]. lia.
Qed.

Section StdProofs.
  Variable flog2 : R -> R.
  (** the libm assumption, made explicit: on positive binary32 arguments [f32::log2] returns a
      binary32 number whose two neighbours enclose the true logarithm ("within one ulp") *)
  Hypothesis flog2_format : forall x, 0 < x -> format32 x -> format32 (flog2 x).
  Hypothesis flog2_one_ulp : forall x, 0 < x -> format32 x ->
    next_down (flog2 x) <= log2R x <= next_up (flog2 x).

  (** an estimate of a logarithm in [23, 24] lies in [17, 25] *)
  Lemma flog2_range : forall x, 0 < x -> format32 x -> 23 <= log2R x <= 24 -> 17 <= flog2 x <= 25.
  Proof.
    intros x Hx Fx [Hl Hu]. pose proof (flog2_one_ulp x Hx Fx) as [H1 H2].
    pose proof (flog2_format x Hx Fx) as Ff. split.
    - destruct (Rle_lt_dec 17 (flog2 x)) as [L|G]; [exact L|]. exfalso.
      assert (next_up (flog2 x) <= 17).
      { unfold next_up. apply succ_le_lt; [exact fexp32_valid | exact Ff | exact format32_17 | exact G]. }
      lra.
    - destruct (Rle_lt_dec (flog2 x) 25) as [L|G]; [exact L|]. exfalso.
      assert (25 <= next_down (flog2 x)).
      { unfold next_down. apply pred_ge_gt; [exact fexp32_valid | | exact Ff | exact G].
        apply (format32_int 25). simpl. lia. }
      lra.
  Qed.

  Theorem std_log2_uint_encloses : forall n : Z, (0 < n < 2 ^ 128)%Z ->
    encloses (std_log2_uint flog2 n) (IZR n).
  Proof.
    intros n [Hn Hn128]. unfold encloses, std_log2_uint.
    assert (Z.log2 n < 128)%Z as Hlog by (apply Z.log2_lt_pow2; lia).
    pose proof (Z.log2_nonneg n) as Hlog0.
    assert (0 < IZR n) as Pn by (apply IZR_lt; exact Hn).
    destruct (is_pow2 n) eqn:Ep.
    - (* power of two *)
      unfold is_pow2 in Ep. apply Z.eqb_eq in Ep. cbn [fst snd].
      rewrite of_int_exact by (simpl; lia).
      assert (log2R (IZR n) = IZR (Z.log2 n)) as EL.
      { rewrite Ep at 1. apply log2R_pow2. lia. }
      rewrite EL. lra.
    - destruct (Z.leb_spec (nbits n) 24) as [Hb|Hb].
      + (* exact conversion *)
        cbn [fst snd]. unfold nbits in Hb.
        assert (n < 2 ^ 24)%Z as Hn24.
        { apply Z.log2_lt_pow2; [exact Hn | lia]. }
        rewrite of_int_exact by lia.
        apply flog2_one_ulp; [exact Pn | apply format32_int; lia].
      + (* shifted *)
        cbn [fst snd].
        destruct (shifted_facts n Hn Hb) as [Hsh [[Ht1 Ht2] [Hn1 Hn2]]].
        set (sh := (nbits n - 24)%Z) in *. set (t := Z.shiftr n sh) in *.
        assert (sh <= 104)%Z as Hsh' by (unfold sh, nbits; lia).
        rewrite (of_int_exact t) by lia. rewrite (of_int_exact sh) by (simpl; lia).
        assert (fadd (IZR t) 1 = IZR (t + 1)) as Et1.
        { unfold fadd. rewrite <- plus_IZR. apply rnd32_id. apply format32_int. lia. }
        rewrite Et1.
        assert (0 < IZR t) as Pt by (apply IZR_lt; lia).
        assert (0 < IZR (t + 1)) as Pt1 by (apply IZR_lt; lia).
        assert (format32 (IZR t)) as Ft by (apply format32_int; lia).
        assert (format32 (IZR (t + 1))) as Ft1 by (apply format32_int; lia).
        assert (0 < IZR (2 ^ sh)) as Psh by (apply IZR_lt; apply Z.pow_pos_nonneg; lia).
        assert (23 <= log2R (IZR t) <= 24) as Rt.
        { rewrite <- (log2R_pow2 23), <- (log2R_pow2 24) by lia. split; apply log2R_le.
          - apply IZR_lt. reflexivity.
          - apply IZR_le. lia.
          - exact Pt.
          - apply IZR_le. lia. }
        assert (23 <= log2R (IZR (t + 1)) <= 24) as Rt1.
        { rewrite <- (log2R_pow2 23), <- (log2R_pow2 24) by lia. split; apply log2R_le.
          - apply IZR_lt. reflexivity.
          - apply IZR_le. lia.
          - exact Pt1.
          - apply IZR_le. lia. }
        pose proof g19_pos as G.
        split.
        * (* lower *)
          pose proof (flog2_range _ Pt Ft Rt) as Re.
          pose proof (flog2_format _ Pt Ft) as Fe.
          pose proof (flog2_one_ulp _ Pt Ft) as [U1 _].
          destruct (format32_grid _ Fe) as [k Ek]; [rewrite Rabs_pos_eq by lra; lra|].
          unfold fadd.
          replace (flog2 (IZR t) + IZR sh) with (IZR (k + sh * 2 ^ 19) * g19).
          2:{ rewrite grid_shift, Ek. reflexivity. }
          eapply Rle_trans; [apply next_down_rnd_grid|].
          { rewrite grid_shift, <- Ek.
            assert (1 <= IZR sh) by (apply IZR_le; lia). lra. }
          replace (IZR (k + sh * 2 ^ 19) * g19) with (flog2 (IZR t) + IZR sh).
          2:{ rewrite grid_shift, Ek. reflexivity. }
          pose proof (next_down_ge_grid _ Fe ltac:(lra)) as ND.
          apply Rle_trans with (log2R (IZR t) + IZR sh); [lra|].
          rewrite <- (log2R_pow2 sh) by lia. rewrite <- log2R_mult by assumption.
          rewrite <- mult_IZR. apply log2R_le; [apply IZR_lt; nia | apply IZR_le; lia].
        * (* upper *)
          pose proof (flog2_range _ Pt1 Ft1 Rt1) as Re.
          pose proof (flog2_format _ Pt1 Ft1) as Fe.
          pose proof (flog2_one_ulp _ Pt1 Ft1) as [_ U2].
          destruct (format32_grid _ Fe) as [k Ek]; [rewrite Rabs_pos_eq by lra; lra|].
          unfold fadd.
          replace (flog2 (IZR (t + 1)) + IZR sh) with (IZR (k + sh * 2 ^ 19) * g19).
          2:{ rewrite grid_shift, Ek. reflexivity. }
          eapply Rle_trans; [|apply next_up_rnd_grid].
          2:{ rewrite grid_shift, <- Ek.
            assert (1 <= IZR sh) by (apply IZR_le; lia). lra. }
          replace (IZR (k + sh * 2 ^ 19) * g19) with (flog2 (IZR (t + 1)) + IZR sh).
          2:{ rewrite grid_shift, Ek. reflexivity. }
          pose proof (next_up_le_grid _ Fe ltac:(lra)) as NU.
          apply Rle_trans with (log2R (IZR (t + 1)) + IZR sh); [|lra].
          rewrite <- (log2R_pow2 sh) by lia. rewrite <- log2R_mult by assumption.
          rewrite <- mult_IZR. apply log2R_le; [exact Pn | apply IZR_le; lia].
  Qed.

  (** ** (b) big integers *)
  Theorem std_log2_large_encloses : forall wb n len : Z, (32 <= wb <= 64)%Z -> (3 <= len)%Z ->
    (2 ^ ((len - 1) * wb) <= n < 2 ^ (len * wb))%Z ->
    encloses (std_log2_large flog2 wb n len) (IZR n).
  Proof.
    intros wb n len Hwb Hlen Hn.
    destruct (large_split wb n len ltac:(lia) Hlen Hn) as [Hrem [[Hh1 Hh2] [Hs1 Hs2]]].
    unfold encloses, std_log2_large.
    set (rem := ((len - 2) * wb)%Z) in *. set (hi := (n / 2 ^ rem)%Z) in *.
    assert (0 < 2 ^ wb)%Z as Pw by (apply Z.pow_pos_nonneg; lia).
    assert (2 ^ (2 * wb) <= 2 ^ 128)%Z as P128 by (apply Z.pow_le_mono_r; lia).
    assert (2 ^ 32 <= 2 ^ wb)%Z as P32 by (apply Z.pow_le_mono_r; lia).
    pose proof (std_log2_uint_encloses hi ltac:(lia)) as [E1 E2].
    destruct (std_log2_uint flog2 hi) as [hlb hub]. cbn [fst snd] in *.
    assert (0 < IZR hi) as Phi by (apply IZR_lt; lia).
    assert (0 < IZR (2 ^ rem)) as Prem by (apply IZR_lt; apply Z.pow_pos_nonneg; lia).
    assert (32 <= log2R (IZR hi)) as HL.
    { rewrite <- (log2R_pow2 32) by lia. apply log2R_le; [apply IZR_lt; reflexivity | apply IZR_le; lia]. }
    split.
    - eapply Rle_trans; [apply (large_lower hlb (log2R (IZR hi)) rem E1 HL Hrem)|].
      rewrite <- (log2R_pow2 rem) by lia. rewrite <- log2R_mult by assumption.
      rewrite <- mult_IZR. apply log2R_le; [apply IZR_lt; nia | apply IZR_le; lia].
    - eapply Rle_trans; [|apply (large_upper hub (log2R (IZR hi)) rem E2 HL Hrem)].
      apply Rle_trans with (log2R (IZR (hi + 1)) + IZR rem).
      + rewrite <- (log2R_pow2 rem) by lia. rewrite <- log2R_mult; [|apply IZR_lt; lia|exact Prem].
        rewrite <- mult_IZR. apply log2R_le; [apply IZR_lt; lia | apply IZR_le; lia].
      + rewrite plus_IZR. pose proof (log2R_succ (IZR hi) Phi) as HS.
        assert (2 / IZR hi <= / 2147483648) as HQ.
        { assert (IZR (2 ^ 32) <= IZR hi) as Hge by (apply IZR_le; lia).
          replace (IZR (2 ^ 32)) with 4294967296 in Hge by (simpl; lra).
          unfold Rdiv. replace (/ 2147483648) with (2 * / 4294967296) by lra.
          apply Rmult_le_compat_l; [lra|]. apply Rinv_le_contravar; lra. }
        lra.
  Qed.

  Theorem std_log2_ubig_encloses : forall wb n : Z, (32 <= wb <= 64)%Z -> (0 < n)%Z ->
    encloses (std_log2_ubig flog2 wb n) (IZR n).
  Proof.
    intros wb n Hwb Hn. unfold std_log2_ubig.
    assert (2 ^ (2 * wb) <= 2 ^ 128)%Z as P128 by (apply Z.pow_le_mono_r; lia).
    destruct (Z.ltb_spec n (2 ^ (2 * wb))) as [Hs|Hl].
    - apply std_log2_uint_encloses. lia.
    - unfold word_len. pose proof (Z.log2_spec n Hn) as [L1 L2].
      assert (2 * wb <= Z.log2 n)%Z as HL by (apply Z.log2_le_pow2; lia).
      pose proof (Z.div_mod (Z.log2 n) wb ltac:(lia)) as Hdm.
      pose proof (Z.mod_pos_bound (Z.log2 n) wb ltac:(lia)) as Hmb.
      set (q := (Z.log2 n / wb)%Z) in *.
      assert (2 <= q)%Z as Hq by (apply Z.div_le_lower_bound; lia).
      apply std_log2_large_encloses; [exact Hwb | lia |].
      replace (q + 1 - 1)%Z with q by ring. split.
      + apply Z.le_trans with (2 ^ Z.log2 n)%Z; [apply Z.pow_le_mono_r; nia | exact L1].
      + apply Z.lt_le_trans with (2 ^ Z.succ (Z.log2 n))%Z; [exact L2 | apply Z.pow_le_mono_r; nia].
  Qed.

  (** ** (d) rationals (as repaired by 9b4fb4f): the widening covers the rounding of the subtraction *)
  Theorem std_log2_ratio_encloses : forall wb num den : Z, (32 <= wb <= 64)%Z -> num <> 0%Z -> (0 < den)%Z ->
    encloses (std_log2_ratio flog2 wb num den) (IZR (Z.abs num) / IZR den).
  Proof.
    intros wb num den Hwb Hnum Hden. unfold encloses, std_log2_ratio.
    pose proof (std_log2_ubig_encloses wb (Z.abs num) Hwb ltac:(lia)) as [N1 N2].
    pose proof (std_log2_ubig_encloses wb den Hwb Hden) as [D1 D2].
    destruct (std_log2_ubig flog2 wb (Z.abs num)) as [n_lb n_ub].
    destruct (std_log2_ubig flog2 wb den) as [d_lb d_ub]. cbn [fst snd] in *.
    rewrite log2R_div by (apply IZR_lt; lia). unfold fsub. split.
    - eapply Rle_trans; [apply next_down_rnd_le|]. lra.
    - eapply Rle_trans; [|apply next_up_rnd_ge]. lra.
  Qed.

  (** ** (c) floats Repr<B>: the part that IS sound - exact exponent conversion and exact products
      (e = 0, +-1, powers of two; every exponent below 2^24 in magnitude when B is a power of two).
      The true value is log2 (|s| * B^e) = log2 |s| + e * log2 B.
      The general statement is false: see [repr_scheme_refuted] and [std_log2_repr_refuted]. *)
  Theorem std_log2_repr_encloses_partial : forall wb B s e : Z, (32 <= wb <= 64)%Z -> (2 <= B < 2 ^ 64)%Z ->
    s <> 0%Z -> format32 (IZR e) ->
    format32 (IZR e * fst (std_log2_uint flog2 B)) -> format32 (IZR e * snd (std_log2_uint flog2 B)) ->
    let truth := log2R (IZR (Z.abs s)) + IZR e * log2R (IZR B) in
    fst (std_log2_repr flog2 wb B s e) <= truth /\ truth <= snd (std_log2_repr flog2 wb B s e).
  Proof.
    intros wb B s e Hwb HB Hs Fe Fl Fu truth. unfold std_log2_repr.
    pose proof (std_log2_ubig_encloses wb (Z.abs s) Hwb ltac:(lia)) as [S1 S2].
    assert (2 ^ 64 < 2 ^ 128)%Z as P by (apply Z.pow_lt_mono_r; lia).
    pose proof (std_log2_uint_encloses B ltac:(lia)) as [B1 B2].
    destruct (std_log2_ubig flog2 wb (Z.abs s)) as [logs_lb logs_ub].
    destruct (std_log2_uint flog2 B) as [logb_lb logb_ub]. cbn [fst snd] in *.
    unfold of_int. rewrite (rnd32_id _ Fe). unfold fmul. rewrite (rnd32_id _ Fl), (rnd32_id _ Fu).
    unfold truth. destruct (Z.leb_spec 0 e) as [He|He]; cbn [fst snd]; unfold fadd.
    - assert (0 <= IZR e) as Pe by (apply IZR_le; exact He). split.
      + eapply Rle_trans; [apply next_down_rnd_le|]. nra.
      + eapply Rle_trans; [|apply next_up_rnd_ge]. nra.
    - assert (IZR e <= 0) as Pe by (apply IZR_le; lia). split.
      + eapply Rle_trans; [apply next_down_rnd_le|]. nra.
      + eapply Rle_trans; [|apply next_up_rnd_ge]. nra.
  Qed.
End StdProofs.

(** the libm contract is satisfiable (non-vacuity of the section hypotheses): the correctly rounded logarithm
    fulfils it, so every theorem of the section applies at least to a correctly rounding libm *)
Lemma libm_contract_inhabited :
  let f := fun x => rnd32 (log2R x) in
  (forall x, 0 < x -> format32 x -> format32 (f x)) /\
  (forall x, 0 < x -> format32 x -> next_down (f x) <= log2R x <= next_up (f x)).
Proof.
  cbv zeta. split.
  - intros x _ _. apply format32_rnd.
  - intros x _ _. split; [apply next_down_rnd_le | apply next_up_rnd_ge].
Qed.

Example std_log2_uint_example : forall n : Z, (0 < n < 2 ^ 128)%Z ->
  encloses (std_log2_uint (fun x => rnd32 (log2R x)) n) (IZR n).
Proof.
  intros n Hn. destruct libm_contract_inhabited as [H1 H2]. exact (std_log2_uint_encloses _ H1 H2 n Hn).
Qed.
