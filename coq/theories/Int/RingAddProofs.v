(** C01 (L0): value contracts of the add.rs kernels, for every word size and every length. *)
From Dashu Require Import Base.Prelude Base.Words Int.RingAdd.
Open Scope Z_scope.

Section AddProofs.
Variable w : Z.
Hypothesis w_pos : 0 < w.
Notation BB := (B w).
Notation val := (value w).
Notation wfw := (wf w).

Let HB : 0 < BB := B_pos w w_pos.

(** [upd ws r c d]: r replaces ws in place (same length, well-formed words) and
    value r + c * B^len = value ws + d *)
Definition upd (ws r : list Z) (c d : Z) : Prop :=
  length r = length ws /\ wfw r /\ val r + c * BB ^ len ws = val ws + d.

Lemma len_cons {A} (x : A) r : len (x :: r) = 1 + len r.
Proof. unfold len. cbn [length]. lia. Qed.
Lemma len_nil {A} : len (@nil A) = 0. Proof. reflexivity. Qed.
Lemma len_app {A} (a b : list A) : len (a ++ b) = len a + len b.
Proof. unfold len. rewrite app_length. lia. Qed.
Lemma len_nonneg {A} (a : list A) : 0 <= len a. Proof. unfold len. lia. Qed.
Lemma len_eq {A C} (a : list A) (b : list C) : length a = length b -> len a = len b.
Proof. unfold len. intros ->. reflexivity. Qed.

Lemma pow_cons {A} (x : A) r : BB ^ len (x :: r) = BB * BB ^ len r.
Proof. rewrite len_cons, Z.pow_add_r, Z.pow_1_r by (pose proof (len_nonneg r); lia). reflexivity. Qed.
Lemma pow_len_pos {A} (a : list A) : 0 < BB ^ len a.
Proof. apply Z.pow_pos_nonneg; [exact HB | apply len_nonneg]. Qed.
Lemma pow_app {A} (a b : list A) : BB ^ len (a ++ b) = BB ^ len a * BB ^ len b.
Proof. rewrite len_app, Z.pow_add_r by apply len_nonneg. reflexivity. Qed.

Lemma mod_carry x : 0 <= x < 2 * BB -> 0 <= x mod BB < BB /\ x mod BB + b2z (BB <=? x) * BB = x.
Proof.
  intros Hx. split; [apply Z.mod_pos_bound; lia|].
  destruct (Z.leb_spec BB x); cbn [b2z].
  - replace x with ((x - BB) + 1 * BB) at 1 by lia. rewrite Z.mod_add, Z.mod_small by lia. lia.
  - rewrite Z.mod_small by lia. lia.
Qed.

Lemma mod_borrow d : - BB <= d < BB -> 0 <= d mod BB < BB /\ d mod BB - b2z (d <? 0) * BB = d.
Proof.
  intros Hd. split; [apply Z.mod_pos_bound; lia|].
  destruct (Z.ltb_spec d 0); cbn [b2z].
  - replace d with ((d + BB) + (-1) * BB) at 1 by lia. rewrite Z.mod_add, Z.mod_small by lia. lia.
  - rewrite Z.mod_small by lia. lia.
Qed.

Lemma b2z_range c : 0 <= b2z c <= 1. Proof. destruct c; cbn; lia. Qed.

Lemma add_with_carry_spec a b c s c' : 0 <= a < BB -> 0 <= b < BB ->
  add_with_carry w a b c = (s, c') -> 0 <= s < BB /\ s + b2z c' * BB = a + b + b2z c.
Proof.
  intros Ha Hb E. unfold add_with_carry in E. inversion E; subst; clear E.
  pose proof (b2z_range c). apply mod_carry. lia.
Qed.

Lemma sub_with_borrow_spec a b c s c' : 0 <= a < BB -> 0 <= b < BB ->
  sub_with_borrow w a b c = (s, c') -> 0 <= s < BB /\ s - b2z c' * BB = a - b - b2z c.
Proof.
  intros Ha Hb E. unfold sub_with_borrow in E. inversion E; subst; clear E.
  pose proof (b2z_range c). apply mod_borrow. lia.
Qed.

(** ------------------------------------------------------------------ add_one / sub_one *)
Lemma add_one_in_place_spec ws : wfw ws ->
  forall r c, add_one_in_place w ws = (r, c) -> upd ws r (b2z c) 1.
Proof.
  induction ws as [|x t IH]; intros Hw r c E; cbn [add_one_in_place] in E.
  - inversion E; subst. unfold upd. cbn [value b2z]. change (len (@nil Z)) with 0; rewrite Z.pow_0_r. split; [|split]; [first [reflexivity | lia | assumption] | apply wf_nil | lia].
  - apply wf_cons in Hw. destruct Hw as [Hx Ht].
    destruct (add_with_carry w x 1 false) as [a o] eqn:Ea.
    pose proof (B_ge_2 w w_pos) as HB2.
    apply add_with_carry_spec in Ea; [|lia|lia]. cbn [b2z] in Ea. destruct Ea as [Ha Es].
    destruct o.
    + destruct (add_one_in_place w t) as [r' c'] eqn:Er. inversion E; subst; clear E.
      specialize (IH Ht _ _ eq_refl). destruct IH as (L & W & V).
      unfold upd. cbn [length value]. rewrite pow_cons. split; [|split]; [lia | apply wf_cons; auto |].
      cbn [b2z] in Es. nia.
    + inversion E; subst; clear E. unfold upd. cbn [length value b2z] in *. rewrite pow_cons.
      split; [|split]; [first [reflexivity | lia | assumption] | apply wf_cons; auto | lia].
Qed.

Lemma sub_one_in_place_spec ws : wfw ws ->
  forall r c, sub_one_in_place w ws = (r, c) -> upd ws r (- b2z c) (-1).
Proof.
  induction ws as [|x t IH]; intros Hw r c E; cbn [sub_one_in_place] in E.
  - inversion E; subst. unfold upd. cbn [value b2z]. change (len (@nil Z)) with 0; rewrite Z.pow_0_r. split; [|split]; [first [reflexivity | lia | assumption] | apply wf_nil | lia].
  - apply wf_cons in Hw. destruct Hw as [Hx Ht].
    destruct (sub_with_borrow w x 1 false) as [a o] eqn:Ea.
    pose proof (B_ge_2 w w_pos) as HB2.
    apply sub_with_borrow_spec in Ea; [|lia|lia]. cbn [b2z] in Ea. destruct Ea as [Ha Es].
    destruct o.
    + destruct (sub_one_in_place w t) as [r' c'] eqn:Er. inversion E; subst; clear E.
      specialize (IH Ht _ _ eq_refl). destruct IH as (L & W & V).
      unfold upd. cbn [length value]. rewrite pow_cons. split; [|split]; [lia | apply wf_cons; auto |].
      cbn [b2z] in Es. nia.
    + inversion E; subst; clear E. unfold upd. cbn [length value b2z] in *. rewrite pow_cons.
      split; [|split]; [first [reflexivity | lia | assumption] | apply wf_cons; auto | lia].
Qed.

(** ------------------------------------------------------------------ word / dword *)
Lemma add_word_in_place_spec ws rhs : wfw ws -> ws <> [] -> 0 <= rhs < BB ->
  forall r c, add_word_in_place w ws rhs = (r, c) -> upd ws r (b2z c) rhs.
Proof.
  intros Hw Hne Hr r c E. destruct ws as [|x t]; [congruence|]. cbn [add_word_in_place] in E.
  apply wf_cons in Hw. destruct Hw as [Hx Ht].
  destruct (add_with_carry w x rhs false) as [a o] eqn:Ea.
  apply add_with_carry_spec in Ea; [|lia|lia]. cbn [b2z] in Ea. destruct Ea as [Ha Es].
  destruct o.
  - destruct (add_one_in_place w t) as [r' c'] eqn:Er. inversion E; subst; clear E.
    destruct (add_one_in_place_spec t Ht _ _ Er) as (L & W & V).
    unfold upd. cbn [length value]. rewrite pow_cons. split; [|split]; [lia | apply wf_cons; auto |].
    cbn [b2z] in Es. nia.
  - inversion E; subst; clear E. unfold upd. cbn [length value b2z] in *. rewrite pow_cons.
    split; [|split]; [first [reflexivity | lia | assumption] | apply wf_cons; auto | lia].
Qed.

Lemma sub_word_in_place_spec ws rhs : wfw ws -> ws <> [] -> 0 <= rhs < BB ->
  forall r c, sub_word_in_place w ws rhs = (r, c) -> upd ws r (- b2z c) (- rhs).
Proof.
  intros Hw Hne Hr r c E. destruct ws as [|x t]; [congruence|]. cbn [sub_word_in_place] in E.
  apply wf_cons in Hw. destruct Hw as [Hx Ht].
  destruct (sub_with_borrow w x rhs false) as [a o] eqn:Ea.
  apply sub_with_borrow_spec in Ea; [|lia|lia]. cbn [b2z] in Ea. destruct Ea as [Ha Es].
  destruct o.
  - destruct (sub_one_in_place w t) as [r' c'] eqn:Er. inversion E; subst; clear E.
    destruct (sub_one_in_place_spec t Ht _ _ Er) as (L & W & V).
    unfold upd. cbn [length value]. rewrite pow_cons. split; [|split]; [lia | apply wf_cons; auto |].
    cbn [b2z] in Es. nia.
  - inversion E; subst; clear E. unfold upd. cbn [length value b2z] in *. rewrite pow_cons.
    split; [|split]; [first [reflexivity | lia | assumption] | apply wf_cons; auto | lia].
Qed.

Lemma dword_split rhs : 0 <= rhs < BB * BB -> 0 <= rhs mod BB < BB /\ 0 <= rhs / BB < BB /\ rhs = rhs mod BB + BB * (rhs / BB).
Proof.
  intros H. split; [apply Z.mod_pos_bound; lia|]. split.
  - split; [apply Z.div_pos; lia | apply Z.div_lt_upper_bound; lia].
  - pose proof (Z.div_mod rhs BB ltac:(lia)). lia.
Qed.

Lemma add_dword_in_place_spec x0 x1 t rhs : wfw (x0 :: x1 :: t) -> 0 <= rhs < BB * BB ->
  forall r c, add_dword_in_place w (x0 :: x1 :: t) rhs = (r, c) -> upd (x0 :: x1 :: t) r (b2z c) rhs.
Proof.
  intros Hw Hr r c E. cbn [add_dword_in_place] in E.
  apply wf_cons in Hw. destruct Hw as [Hx0 Hw]. apply wf_cons in Hw. destruct Hw as [Hx1 Ht].
  destruct (dword_split rhs Hr) as (Hb0 & Hb1 & Erhs).
  destruct (add_with_carry w x0 (rhs mod BB) false) as [s0 c0] eqn:E0.
  destruct (add_with_carry w x1 (rhs / BB) c0) as [s1 c1] eqn:E1.
  apply add_with_carry_spec in E0; [|lia|lia]. apply add_with_carry_spec in E1; [|lia|lia].
  cbn [b2z] in E0. destruct E0 as [Hs0 V0]. destruct E1 as [Hs1 V1].
  destruct c1.
  - destruct (add_one_in_place w t) as [r' c'] eqn:Er. inversion E; subst; clear E.
    destruct (add_one_in_place_spec t Ht _ _ Er) as (L & W & V).
    unfold upd. cbn [length value]. rewrite !pow_cons. split; [|split]; [lia | apply wf_cons; split; [auto | apply wf_cons; auto] |].
    cbn [b2z] in V1. nia.
  - inversion E; subst; clear E. unfold upd. cbn [length value b2z] in *. rewrite !pow_cons.
    split; [|split]; [first [reflexivity | lia | assumption] | apply wf_cons; split; [auto | apply wf_cons; auto] | nia].
Qed.

Lemma sub_dword_in_place_spec x0 x1 t rhs : wfw (x0 :: x1 :: t) -> 0 <= rhs < BB * BB ->
  forall r c, sub_dword_in_place w (x0 :: x1 :: t) rhs = (r, c) -> upd (x0 :: x1 :: t) r (- b2z c) (- rhs).
Proof.
  intros Hw Hr r c E. cbn [sub_dword_in_place] in E.
  apply wf_cons in Hw. destruct Hw as [Hx0 Hw]. apply wf_cons in Hw. destruct Hw as [Hx1 Ht].
  destruct (dword_split rhs Hr) as (Hb0 & Hb1 & Erhs).
  destruct (sub_with_borrow w x0 (rhs mod BB) false) as [s0 c0] eqn:E0.
  destruct (sub_with_borrow w x1 (rhs / BB) c0) as [s1 c1] eqn:E1.
  apply sub_with_borrow_spec in E0; [|lia|lia]. apply sub_with_borrow_spec in E1; [|lia|lia].
  cbn [b2z] in E0. destruct E0 as [Hs0 V0]. destruct E1 as [Hs1 V1].
  destruct c1.
  - destruct (sub_one_in_place w t) as [r' c'] eqn:Er. inversion E; subst; clear E.
    destruct (sub_one_in_place_spec t Ht _ _ Er) as (L & W & V).
    unfold upd. cbn [length value]. rewrite !pow_cons. split; [|split]; [lia | apply wf_cons; split; [auto | apply wf_cons; auto] |].
    cbn [b2z] in V1. nia.
  - inversion E; subst; clear E. unfold upd. cbn [length value b2z] in *. rewrite !pow_cons.
    split; [|split]; [first [reflexivity | lia | assumption] | apply wf_cons; split; [auto | apply wf_cons; auto] | nia].
Qed.

(** ------------------------------------------------------------------ same length *)
Lemma add_same_len_spec ws : forall rhs c, length ws = length rhs -> wfw ws -> wfw rhs ->
  forall r c', add_same_len w ws rhs c = (r, c') -> upd ws r (b2z c') (val rhs + b2z c).
Proof.
  induction ws as [|a t IH]; intros [|b u] c L Hw Hr r c' E; try discriminate; cbn [add_same_len] in E.
  - inversion E; subst. unfold upd. cbn [value]. change (len (@nil Z)) with 0; rewrite Z.pow_0_r. split; [|split]; [first [reflexivity | lia | assumption] | apply wf_nil | lia].
  - apply wf_cons in Hw. destruct Hw as [Ha Ht]. apply wf_cons in Hr. destruct Hr as [Hb Hu].
    destruct (add_with_carry w a b c) as [s c1] eqn:E1.
    destruct (add_same_len w t u c1) as [r' c2] eqn:E2. inversion E; subst; clear E.
    apply add_with_carry_spec in E1; [|lia|lia]. destruct E1 as [Hs V1].
    cbn [length] in L. destruct (IH u c1 ltac:(lia) Ht Hu _ _ E2) as (L' & W' & V').
    unfold upd. cbn [length value]. rewrite pow_cons. split; [|split]; [lia | apply wf_cons; auto | nia].
Qed.

Lemma sub_same_len_spec ws : forall rhs c, length ws = length rhs -> wfw ws -> wfw rhs ->
  forall r c', sub_same_len w ws rhs c = (r, c') -> upd ws r (- b2z c') (- val rhs - b2z c).
Proof.
  induction ws as [|a t IH]; intros [|b u] c L Hw Hr r c' E; try discriminate; cbn [sub_same_len] in E.
  - inversion E; subst. unfold upd. cbn [value]. change (len (@nil Z)) with 0; rewrite Z.pow_0_r. split; [|split]; [first [reflexivity | lia | assumption] | apply wf_nil | lia].
  - apply wf_cons in Hw. destruct Hw as [Ha Ht]. apply wf_cons in Hr. destruct Hr as [Hb Hu].
    destruct (sub_with_borrow w a b c) as [s c1] eqn:E1.
    destruct (sub_same_len w t u c1) as [r' c2] eqn:E2. inversion E; subst; clear E.
    apply sub_with_borrow_spec in E1; [|lia|lia]. destruct E1 as [Hs V1].
    cbn [length] in L. destruct (IH u c1 ltac:(lia) Ht Hu _ _ E2) as (L' & W' & V').
    unfold upd. cbn [length value]. rewrite pow_cons. split; [|split]; [lia | apply wf_cons; auto | nia].
Qed.

(** the swapped form writes into rhs: value r - borrow * B^n = value lhs - value rhs - c *)
Lemma sub_same_len_swap_spec lhs : forall rhs c, length lhs = length rhs -> wfw lhs -> wfw rhs ->
  forall r c', sub_same_len_swap w lhs rhs c = (r, c') ->
  length r = length rhs /\ wfw r /\ val r - b2z c' * BB ^ len rhs = val lhs - val rhs - b2z c.
Proof.
  induction lhs as [|a t IH]; intros [|b u] c L Hw Hr r c' E; try discriminate; cbn [sub_same_len_swap] in E.
  - inversion E; subst. cbn [value]. change (len (@nil Z)) with 0; rewrite Z.pow_0_r. split; [|split]; [first [reflexivity | lia | assumption] | apply wf_nil | lia].
  - apply wf_cons in Hw. destruct Hw as [Ha Ht]. apply wf_cons in Hr. destruct Hr as [Hb Hu].
    destruct (sub_with_borrow w a b c) as [s c1] eqn:E1.
    destruct (sub_same_len_swap w t u c1) as [r' c2] eqn:E2. inversion E; subst; clear E.
    apply sub_with_borrow_spec in E1; [|lia|lia]. destruct E1 as [Hs V1].
    cbn [length] in L. destruct (IH u c1 ltac:(lia) Ht Hu _ _ E2) as (L' & W' & V').
    cbn [length value]. rewrite pow_cons. split; [|split]; [lia | apply wf_cons; auto | nia].
Qed.

(** no borrow when the minuend is not smaller; a borrow when it is *)
Lemma upd_carry_range ws r c d : wfw ws -> upd ws r c d -> 0 <= val ws + d < BB ^ len ws -> c = 0.
Proof.
  intros Hw (L & W & V) Hd. pose proof (value_bounds w w_pos r W) as Hr.
  rewrite (len_eq r ws L) in Hr. pose proof (pow_len_pos ws). nia.
Qed.

(** ------------------------------------------------------------------ slices *)
Lemma firstn_skipn_val (n : nat) ws : val ws = val (firstn n ws) + BB ^ len (firstn n ws) * val (skipn n ws).
Proof. rewrite <- value_app, firstn_skipn. reflexivity. Qed.

Lemma wf_firstn n ws : wfw ws -> wfw (firstn n ws).
Proof. intros H. rewrite <- (firstn_skipn n ws) in H. apply wf_app in H. tauto. Qed.
Lemma wf_skipn n ws : wfw ws -> wfw (skipn n ws).
Proof. intros H. rewrite <- (firstn_skipn n ws) in H. apply wf_app in H. tauto. Qed.

Lemma len_firstn {A} n (ws : list A) : (n <= length ws)%nat -> len (firstn n ws) = Z.of_nat n.
Proof. intros H. unfold len. rewrite firstn_length_le by assumption. reflexivity. Qed.

(** ------------------------------------------------------------------ add_in_place / sub_in_place *)
Lemma add_in_place_spec lhs rhs : (length rhs <= length lhs)%nat -> wfw lhs -> wfw rhs ->
  forall r c, add_in_place w lhs rhs = (r, c) -> upd lhs r (b2z c) (val rhs).
Proof.
  intros L Hl Hr r c E. unfold add_in_place, add_same_len_in_place in E.
  set (lo := firstn (length rhs) lhs) in *. set (hi := skipn (length rhs) lhs) in *.
  assert (Llo : length lo = length rhs) by (subst lo; apply firstn_length_le; exact L).
  assert (Wlo : wfw lo) by (apply wf_firstn; exact Hl). assert (Whi : wfw hi) by (apply wf_skipn; exact Hl).
  assert (Vl : val lhs = val lo + BB ^ len lo * val hi) by (apply firstn_skipn_val).
  assert (Ll : len lhs = len lo + len hi) by (subst lo hi; rewrite <- len_app, firstn_skipn; reflexivity).
  assert (Ln : length lhs = (length lo + length hi)%nat) by (subst lo hi; rewrite <- app_length, firstn_skipn; reflexivity).
  destruct (add_same_len w lo rhs false) as [lo' c1] eqn:E1.
  destruct (add_same_len_spec lo rhs false Llo Wlo Hr _ _ E1) as (L1 & W1 & V1). cbn [b2z] in V1.
  pose proof (len_nonneg lo). pose proof (len_nonneg hi).
  destruct c1.
  - destruct (add_one_in_place w hi) as [hi' c'] eqn:E2. inversion E; subst r c; clear E.
    destruct (add_one_in_place_spec hi Whi _ _ E2) as (L2 & W2 & V2).
    unfold upd. rewrite app_length, value_app, (len_eq lo' lo L1), Ll, Z.pow_add_r by lia.
    split; [|split]; [lia | apply wf_app; auto |]. cbn [b2z] in V1. nia.
  - inversion E; subst r c; clear E.
    unfold upd. rewrite app_length, value_app, (len_eq lo' lo L1), Ll, Z.pow_add_r by lia.
    split; [|split]; [lia | apply wf_app; auto |]. cbn [b2z] in *. nia.
Qed.

Lemma sub_in_place_spec lhs rhs : (length rhs <= length lhs)%nat -> wfw lhs -> wfw rhs ->
  forall r c, sub_in_place w lhs rhs = (r, c) -> upd lhs r (- b2z c) (- val rhs).
Proof.
  intros L Hl Hr r c E. unfold sub_in_place, sub_same_len_in_place in E.
  set (lo := firstn (length rhs) lhs) in *. set (hi := skipn (length rhs) lhs) in *.
  assert (Llo : length lo = length rhs) by (subst lo; apply firstn_length_le; exact L).
  assert (Wlo : wfw lo) by (apply wf_firstn; exact Hl). assert (Whi : wfw hi) by (apply wf_skipn; exact Hl).
  assert (Vl : val lhs = val lo + BB ^ len lo * val hi) by (apply firstn_skipn_val).
  assert (Ll : len lhs = len lo + len hi) by (subst lo hi; rewrite <- len_app, firstn_skipn; reflexivity).
  assert (Ln : length lhs = (length lo + length hi)%nat) by (subst lo hi; rewrite <- app_length, firstn_skipn; reflexivity).
  destruct (sub_same_len w lo rhs false) as [lo' c1] eqn:E1.
  destruct (sub_same_len_spec lo rhs false Llo Wlo Hr _ _ E1) as (L1 & W1 & V1). cbn [b2z] in V1.
  pose proof (len_nonneg lo). pose proof (len_nonneg hi).
  destruct c1.
  - destruct (sub_one_in_place w hi) as [hi' c'] eqn:E2. inversion E; subst r c; clear E.
    destruct (sub_one_in_place_spec hi Whi _ _ E2) as (L2 & W2 & V2).
    unfold upd. rewrite app_length, value_app, (len_eq lo' lo L1), Ll, Z.pow_add_r by lia.
    split; [|split]; [lia | apply wf_app; auto |]. cbn [b2z] in V1. nia.
  - inversion E; subst r c; clear E.
    unfold upd. rewrite app_length, value_app, (len_eq lo' lo L1), Ll, Z.pow_add_r by lia.
    split; [|split]; [lia | apply wf_app; auto |]. cbn [b2z] in *. nia.
Qed.

(** ------------------------------------------------------------------ signed wrappers *)
Lemma add_signed_same_len_in_place_spec ws s rhs : length ws = length rhs -> wfw ws -> wfw rhs ->
  forall r c, add_signed_same_len_in_place w ws s rhs = (r, c) -> upd ws r c (sgnz s * val rhs) /\ -1 <= c <= 1.
Proof.
  intros L Hw Hr r c E. unfold add_signed_same_len_in_place, add_same_len_in_place, sub_same_len_in_place in E. destruct s.
  - destruct (add_same_len w ws rhs false) as [r' c'] eqn:E1. inversion E; subst; clear E.
    pose proof (add_same_len_spec ws rhs false L Hw Hr _ _ E1) as U. cbn [b2z sgnz] in *.
    split; [|destruct c'; cbn; lia]. destruct U as (A & C & D). repeat split; auto; try lia.
  - destruct (sub_same_len w ws rhs false) as [r' c'] eqn:E1. inversion E; subst; clear E.
    pose proof (sub_same_len_spec ws rhs false L Hw Hr _ _ E1) as U. cbn [b2z sgnz] in *.
    split; [|destruct c'; cbn; lia]. destruct U as (A & C & D). repeat split; auto; try lia.
Qed.

Lemma add_signed_in_place_spec ws s rhs : (length rhs <= length ws)%nat -> wfw ws -> wfw rhs ->
  forall r c, add_signed_in_place w ws s rhs = (r, c) -> upd ws r c (sgnz s * val rhs) /\ -1 <= c <= 1.
Proof.
  intros L Hw Hr r c E. unfold add_signed_in_place in E. destruct s.
  - destruct (add_in_place w ws rhs) as [r' c'] eqn:E1. inversion E; subst; clear E.
    pose proof (add_in_place_spec ws rhs L Hw Hr _ _ E1) as U. cbn [sgnz].
    split; [|destruct c'; cbn; lia]. destruct U as (A & C & D). repeat split; auto; try lia.
  - destruct (sub_in_place w ws rhs) as [r' c'] eqn:E1. inversion E; subst; clear E.
    pose proof (sub_in_place_spec ws rhs L Hw Hr _ _ E1) as U. cbn [sgnz].
    split; [|destruct c'; cbn; lia]. destruct U as (A & C & D). repeat split; auto; try lia.
Qed.

(** add_signed_word_in_place: rhs is a SignedWord with |rhs| < B; on an empty slice the carry is rhs itself *)
Lemma add_signed_word_in_place_spec ws rhs : wfw ws -> - BB < rhs < BB ->
  forall r c, add_signed_word_in_place w ws rhs = (r, c) ->
  upd ws r c rhs /\ (ws <> [] -> -1 <= c <= 1) /\ (ws = [] -> c = rhs).
Proof.
  intros Hw Hr r c E. unfold add_signed_word_in_place in E.
  destruct (Z.eqb_spec rhs 0) as [->|Hne]; cbn [orb] in E.
  { inversion E; subst. split; [|split; intros; lia]. unfold upd. repeat split; auto; try lia. }
  destruct ws as [|x t].
  { inversion E; subst. split; [|split; [congruence | reflexivity]]. unfold upd. cbn [value]. change (len (@nil Z)) with 0; rewrite Z.pow_0_r. repeat split; auto; try lia. }
  destruct (Z.ltb_spec 0 rhs).
  - destruct (add_word_in_place w (x :: t) rhs) as [r' c'] eqn:E1. inversion E; subst; clear E.
    pose proof (add_word_in_place_spec (x :: t) rhs Hw ltac:(congruence) ltac:(lia) _ _ E1) as U.
    split; [exact U | split; [intros _; destruct c'; cbn; lia | congruence]].
  - destruct (sub_word_in_place w (x :: t) (- rhs)) as [r' c'] eqn:E1. inversion E; subst; clear E.
    pose proof (sub_word_in_place_spec (x :: t) (- rhs) Hw ltac:(congruence) ltac:(lia) _ _ E1) as U.
    split; [|split; [intros _; destruct c'; cbn; lia | congruence]].
    destruct U as (A & C & D). repeat split; auto; try lia.
Qed.

(** ------------------------------------------------------------------ sub_in_place_with_sign *)
Lemma trim_len_le ws : (trim_len ws <= length ws)%nat.
Proof. induction ws as [|x r IH]; cbn [trim_len length]; [lia|]. destruct (trim_len r); [destruct (x =? 0)|]; lia. Qed.

Lemma trim_len_val ws : val (skipn (trim_len ws) ws) = 0.
Proof.
  induction ws as [|x r IH]; cbn [trim_len]; [reflexivity|].
  destruct (trim_len r) as [|k] eqn:E.
  - destruct (Z.eqb_spec x 0) as [->|Hx].
    + cbn [skipn value]. cbn [skipn] in IH. rewrite IH. lia.
    + cbn [skipn]. exact IH.
  - cbn [skipn]. exact IH.
Qed.

(** the top word inside the trimmed length is not zero *)
Lemma trim_len_top ws k : trim_len ws = S k -> nth k ws 0 <> 0.
Proof.
  revert k. induction ws as [|x r IH]; intros k E; cbn [trim_len] in E; [discriminate|].
  destruct (trim_len r) as [|j] eqn:Er.
  - destruct (Z.eqb_spec x 0); [discriminate|]. inversion E; subst. cbn [nth]. assumption.
  - inversion E; subst. cbn [nth]. apply IH. reflexivity.
Qed.

Lemma val_firstn_trim ws : val (firstn (trim_len ws) ws) = val ws.
Proof. rewrite (firstn_skipn_val (trim_len ws) ws), trim_len_val. lia. Qed.

Lemma val_lower_bound ws k : wfw ws -> (k < length ws)%nat -> nth k ws 0 * BB ^ Z.of_nat k <= val ws.
Proof.
  revert k. induction ws as [|x r IH]; intros k Hw Hk; cbn [length] in Hk; [lia|].
  apply wf_cons in Hw. destruct Hw as [Hx Hr]. pose proof (value_nonneg w w_pos r Hr). destruct k as [|k]; cbn [nth value].
  - cbn [Z.of_nat]. rewrite Z.pow_0_r. nia.
  - specialize (IH k Hr ltac:(lia)). rewrite Nat2Z.inj_succ, Z.pow_succ_r by lia. nia.
Qed.

(** value of a list from its top word: v = top * B^k + (value of the k low words) *)
Lemma val_split_top ws k : (k < length ws)%nat ->
  val (firstn (S k) ws) = val (firstn k ws) + BB ^ Z.of_nat k * nth k ws 0.
Proof.
  revert k. induction ws as [|x r IH]; intros k Hk; cbn [length] in Hk; [lia|].
  destruct k as [|k].
  - cbn [firstn value nth Z.of_nat]. rewrite Z.pow_0_r. lia.
  - rewrite !firstn_cons. cbn [value nth]. rewrite (IH k ltac:(lia)). rewrite Nat2Z.inj_succ, Z.pow_succ_r by lia. ring.
Qed.

Lemma set_nth_length k v l : (k < length l)%nat -> length (set_nth k v l) = length l.
Proof. intros H. unfold set_nth. rewrite app_length, firstn_length_le by lia. cbn [length]. rewrite skipn_length. lia. Qed.

Lemma firstn_set_nth k v l : (k <= length l)%nat -> firstn k (set_nth k v l) = firstn k l.
Proof. intros H. unfold set_nth. rewrite firstn_app, firstn_firstn, firstn_length_le, Nat.sub_diag, Nat.min_id by lia. cbn [firstn]. apply app_nil_r. Qed.

Lemma skipn_set_nth k v l : (k < length l)%nat -> skipn k (set_nth k v l) = v :: skipn (S k) l.
Proof.
  intros H. unfold set_nth. rewrite skipn_app, firstn_length_le, Nat.sub_diag by lia. cbn [skipn].
  rewrite skipn_all2 by (rewrite firstn_length_le; lia). reflexivity.
Qed.

Lemma wf_set_nth k l : wfw l -> wfw (set_nth k 0 l).
Proof.
  intros H. unfold set_nth. apply wf_app. split; [apply wf_firstn; exact H|].
  apply wf_cons. split; [lia | apply wf_skipn; exact H].
Qed.

Lemma skipn_S_val k ws : (k < length ws)%nat -> val (skipn k ws) = nth k ws 0 + BB * val (skipn (S k) ws).
Proof.
  revert k. induction ws as [|x r IH]; intros k Hk; cbn [length] in Hk; [lia|].
  destruct k as [|k]; [reflexivity|]. cbn [skipn nth]. apply IH. lia.
Qed.

Lemma sub_sign_eq_S k lhs rhs : sub_sign_eq w (S k) lhs rhs =
  match nth k lhs 0 ?= nth k rhs 0 with
  | Gt => let '(r, _) := sub_same_len_in_place w (firstn (S k) lhs) (firstn (S k) rhs) in (r ++ skipn (S k) lhs, Positive)
  | Lt => let '(r, _) := sub_same_len_in_place_swap w (firstn (S k) rhs) (firstn (S k) lhs) in (r ++ skipn (S k) lhs, Negative)
  | Eq => sub_sign_eq w k (set_nth k 0 lhs) rhs
  end.
Proof. reflexivity. Qed.

(** the equal-length arm.  Invariant: every word of lhs at index >= n is zero *)
Lemma sub_sign_eq_spec n : forall lhs rhs, (n <= length rhs)%nat -> (length rhs <= length lhs)%nat ->
  wfw lhs -> wfw rhs -> val (skipn n lhs) = 0 ->
  forall r s, sub_sign_eq w n lhs rhs = (r, s) ->
  length r = length lhs /\ wfw r /\ signed s (val r) = val (firstn n lhs) - val (firstn n rhs).
Proof.
  induction n as [|k IH]; intros lhs rhs Ln Ll Hl Hr Zl r s E; [cbn [sub_sign_eq] in E | rewrite sub_sign_eq_S in E].
  - inversion E; subst. cbn [skipn firstn value] in *. unfold signed; cbn [sgnz]. repeat split; auto; try lia.
  - pose proof (val_split_top lhs k ltac:(lia)) as Tl. pose proof (val_split_top rhs k ltac:(lia)) as Tr.
    assert (Wfl : wfw (firstn k lhs)) by (apply wf_firstn; auto).
    assert (Wfr : wfw (firstn k rhs)) by (apply wf_firstn; auto).
    pose proof (value_bounds w w_pos _ Wfl) as Bl. pose proof (value_bounds w w_pos _ Wfr) as Br.
    rewrite len_firstn in Bl, Br by lia.
    assert (0 < BB ^ Z.of_nat k) as Hpk by (apply Z.pow_pos_nonneg; lia).
    assert (WSl : wfw (firstn (S k) lhs)) by (apply wf_firstn; auto).
    assert (WSr : wfw (firstn (S k) rhs)) by (apply wf_firstn; auto).
    assert (LS : length (firstn (S k) lhs) = length (firstn (S k) rhs)) by (rewrite !firstn_length_le; lia).
    pose proof (value_bounds w w_pos _ WSl) as BSl. pose proof (value_bounds w w_pos _ WSr) as BSr.
    destruct (Z.compare_spec (nth k lhs 0) (nth k rhs 0)) as [Heq|Hlt|Hgt].
    + assert (Hz : val (skipn k (set_nth k 0 lhs)) = 0).
      { rewrite skipn_set_nth by lia. cbn [value]. rewrite Zl. lia. }
      specialize (IH (set_nth k 0 lhs) rhs ltac:(lia) ltac:(rewrite set_nth_length; lia) (wf_set_nth k lhs Hl) Hr Hz _ _ E).
      rewrite set_nth_length, firstn_set_nth in IH by lia. destruct IH as (A & C & D). repeat split; auto; try nia.
    + unfold sub_same_len_in_place_swap in E.
      destruct (sub_same_len_swap w (firstn (S k) rhs) (firstn (S k) lhs) false) as [r' c'] eqn:E1.
      injection E as Er Es; subst r s.
      change (match lhs with [] => [] | _ :: l => skipn k l end) with (skipn (S k) lhs).
      destruct (sub_same_len_swap_spec _ _ false (eq_sym LS) WSr WSl _ _ E1) as (L1 & W1 & V1). cbn [b2z] in V1.
      pose proof (value_bounds w w_pos _ W1) as B1. rewrite (len_eq r' _ L1) in B1.
      assert (c' = false) as ->. { destruct c'; [|reflexivity]. exfalso. cbn [b2z] in V1. nia. }
      cbn [b2z] in V1.
      rewrite app_length, L1, value_app, Zl. rewrite <- (firstn_skipn (S k) lhs) at 3. rewrite app_length.
      split; [|split]; [lia | apply wf_app; split; [auto | apply wf_skipn; auto] |]. unfold signed; cbn [sgnz]. lia.
    + unfold sub_same_len_in_place in E.
      destruct (sub_same_len w (firstn (S k) lhs) (firstn (S k) rhs) false) as [r' c'] eqn:E1.
      injection E as Er Es; subst r s.
      change (match lhs with [] => [] | _ :: l => skipn k l end) with (skipn (S k) lhs).
      destruct (sub_same_len_spec _ _ false LS WSl WSr _ _ E1) as (L1 & W1 & V1). cbn [b2z] in V1.
      pose proof (value_bounds w w_pos _ W1) as B1. rewrite (len_eq r' _ L1) in B1.
      assert (c' = false) as ->. { destruct c'; [|reflexivity]. exfalso. cbn [b2z] in V1. nia. }
      cbn [b2z] in V1.
      rewrite app_length, L1, value_app, Zl. rewrite <- (firstn_skipn (S k) lhs) at 3. rewrite app_length.
      split; [|split]; [lia | apply wf_app; split; [auto | apply wf_skipn; auto] |]. unfold signed; cbn [sgnz]. lia.
Qed.

Lemma skipn_above_trim ws : forall k, (trim_len ws <= k)%nat -> val (skipn k ws) = 0.
Proof.
  induction ws as [|x r IH]; intros k Hk; [destruct k; reflexivity|].
  cbn [trim_len] in Hk. destruct k as [|k].
  - destruct (trim_len r) eqn:Er; [|lia]. destruct (Z.eqb_spec x 0) as [->|]; [|lia].
    cbn [skipn value]. specialize (IH O ltac:(lia)). cbn [skipn] in IH. rewrite IH. lia.
  - cbn [skipn]. apply IH. destruct (trim_len r); [lia|lia].
Qed.

Lemma firstn_add_split {A} (a b : nat) (l : list A) : firstn (a + b) l = firstn a l ++ firstn b (skipn a l).
Proof.
  revert l. induction a as [|a IH]; intros l; [reflexivity|].
  destruct l as [|x l]; cbn [Nat.add firstn skipn app]; [now rewrite firstn_nil | now rewrite IH].
Qed.

Lemma nth_firstn_lt {A} i n (l : list A) d : (i < n)%nat -> nth i (firstn n l) d = nth i l d.
Proof.
  revert i l. induction n as [|n IH]; intros i l H; [lia|]. destruct l as [|x l]; [destruct i; reflexivity|].
  destruct i as [|i]; cbn [firstn nth]; [reflexivity | apply IH; lia].
Qed.

Lemma nth_skipn_add {A} i n (l : list A) d : nth i (skipn n l) d = nth (n + i) l d.
Proof.
  revert l. induction n as [|n IH]; intros l; [reflexivity|]. destruct l as [|x l]; [destruct i; reflexivity|].
  cbn [skipn Nat.add nth]. apply IH.
Qed.

(** lhs - rhs with its sign, for every pair of lengths len lhs >= len rhs *)
Theorem sub_in_place_with_sign_spec lhs rhs : (length rhs <= length lhs)%nat -> wfw lhs -> wfw rhs ->
  forall r s, sub_in_place_with_sign w lhs rhs = (r, s) ->
  length r = length lhs /\ wfw r /\ signed s (val r) = val lhs - val rhs.
Proof.
  intros L Hl Hr r s E. unfold sub_in_place_with_sign in E.
  pose proof (trim_len_le lhs) as Tl. pose proof (trim_len_le rhs) as Tr.
  pose proof (val_firstn_trim lhs) as Vl. pose proof (val_firstn_trim rhs) as Vr.
  set (ll := trim_len lhs) in *. set (rl := trim_len rhs) in *.
  assert (Wl : wfw (firstn ll lhs)) by (apply wf_firstn; auto).
  assert (Wr : wfw (firstn rl rhs)) by (apply wf_firstn; auto).
  destruct (Nat.compare_spec ll rl) as [Heq|Hlt|Hgt].
  - (* Equal *)
    destruct (sub_sign_eq_spec ll lhs rhs ltac:(lia) L Hl Hr (trim_len_val lhs) _ _ E) as (A & C & D).
    repeat split; auto. rewrite D, Vl, Heq, Vr. reflexivity.
  - (* Less: rhs - lhs, negative *)
    unfold sub_same_len_in_place_swap in E.
    destruct (sub_same_len_swap w (firstn ll rhs) (firstn ll lhs) false) as [r' bo] eqn:E1.
    inversion E; subst r s; clear E.
    assert (LS : length (firstn ll rhs) = length (firstn ll lhs)) by (rewrite !firstn_length_le; lia).
    destruct (sub_same_len_swap_spec _ _ false LS (wf_firstn ll rhs Hr) Wl _ _ E1) as (L1 & W1 & V1). cbn [b2z] in V1.
    rewrite len_firstn in V1 by lia.
    set (mid := firstn (rl - ll) (skipn ll rhs)) in *.
    assert (Wm : wfw mid) by (apply wf_firstn, wf_skipn; auto).
    assert (Lm : length mid = (rl - ll)%nat) by (subst mid; rewrite firstn_length_le; [reflexivity | rewrite skipn_length; lia]).
    assert (Vrhs : val (firstn rl rhs) = val (firstn ll rhs) + BB ^ Z.of_nat ll * val mid).
    { replace rl with (ll + (rl - ll))%nat at 1 by lia. rewrite firstn_add_split, value_app, len_firstn by lia. reflexivity. }
    (* the top word of rhs lies in mid, so mid is not zero *)
    assert (Hmid : 1 <= val mid).
    { destruct rl as [|k] eqn:Erl; [lia|]. pose proof (trim_len_top rhs k Erl) as Htop.
      assert (Hn : nth (k - ll) mid 0 = nth k rhs 0).
      { subst mid. rewrite nth_firstn_lt by lia. rewrite nth_skipn_add. f_equal. lia. }
      pose proof (val_lower_bound mid (k - ll) Wm ltac:(lia)) as LB. rewrite Hn in LB.
      assert (0 <= nth k rhs 0 < BB).
      { assert (In (nth k rhs 0) rhs) by (apply nth_In; lia). unfold wf in Hr. rewrite Forall_forall in Hr. apply Hr. assumption. }
      assert (0 < BB ^ Z.of_nat (k - ll)) by (apply Z.pow_pos_nonneg; lia). nia. }
    set (mid' := if bo then fst (sub_one_in_place w mid) else mid).
    assert (Hm' : length mid' = length mid /\ wfw mid' /\ val mid' = val mid - b2z bo).
    { subst mid'. destruct bo; cbn [b2z]; [|repeat split; auto; lia].
      destruct (sub_one_in_place w mid) as [m2 c2] eqn:E2. cbn [fst].
      pose proof (sub_one_in_place_spec mid Wm _ _ E2) as U.
      assert (- b2z c2 = 0) by (apply (upd_carry_range mid m2 _ (-1) Wm U); pose proof (value_bounds w w_pos mid Wm); lia).
      destruct U as (A & C & D). repeat split; auto; try lia. }
    destruct Hm' as (Lm' & Wm' & Vm').
    assert (Zs : val (skipn rl lhs) = 0) by (apply skipn_above_trim; lia).
    rewrite !app_length, !value_app, Zs, L1, Lm', Lm, skipn_length, (len_eq r' _ L1), len_firstn, firstn_length_le by lia.
    split; [|split]; [lia | apply wf_app; split; [auto | apply wf_app; split; [auto | apply wf_skipn; auto]] |].
    unfold signed; cbn [sgnz]. nia.
  - (* Greater *)
    destruct (sub_in_place w (firstn ll lhs) (firstn rl rhs)) as [r' bo] eqn:E1. inversion E; subst r s; clear E.
    assert (LS : (length (firstn rl rhs) <= length (firstn ll lhs))%nat) by (rewrite !firstn_length_le; lia).
    pose proof (sub_in_place_spec _ _ LS Wl Wr _ _ E1) as U.
    assert (Hge : val (firstn rl rhs) <= val (firstn ll lhs)).
    { destruct ll as [|k] eqn:Ell; [lia|]. pose proof (trim_len_top lhs k Ell) as Htop.
      pose proof (val_lower_bound lhs k Hl ltac:(lia)) as LB.
      pose proof (value_bounds w w_pos _ Wr) as Br. rewrite len_firstn in Br by lia.
      assert (0 <= nth k lhs 0 < BB).
      { assert (In (nth k lhs 0) lhs) by (apply nth_In; lia). unfold wf in Hl. rewrite Forall_forall in Hl. apply Hl. assumption. }
      assert (BB ^ Z.of_nat rl <= BB ^ Z.of_nat k) by (apply Z.pow_le_mono_r; lia).
      assert (0 < BB ^ Z.of_nat k) by (apply Z.pow_pos_nonneg; lia). nia. }
    assert (- b2z bo = 0).
    { apply (upd_carry_range _ _ _ _ Wl U). pose proof (value_bounds w w_pos _ Wl). pose proof (value_nonneg w w_pos _ Wr). lia. }
    destruct U as (A & C & D).
    assert (Zs : val (skipn ll lhs) = 0) by apply trim_len_val.
    rewrite app_length, value_app, Zs, A. rewrite <- (firstn_skipn ll lhs) at 3. rewrite app_length.
    split; [|split]; [lia | apply wf_app; split; [auto | apply wf_skipn; auto] |]. unfold signed; cbn [sgnz]. lia.
Qed.

End AddProofs.
