(** C13 (round 3) - the word-level conversions of ModRingConv.v compute what the value-level model computes, for every
    word size >= 2, every multi-word modulus and every operand:
      wl_new            ConstLargeDivisor::new builds THE word-level form of the ring new_ring describes (no carry is lost)
      wl_rem_large      shift, optional carry word, full division only for long buffers  = (x << shift) mod nd
      wl_rem_repr / wl_from_ubig / wl_into_ring_ubig / wl_into_ring_ibig  = the reduced form of x (any sign)
      wl_transform      = rd_transform (Reducer::transform)
      wl_divisor        = the modulus
      wl_inv            inv_large on word lists (all three gcd branches, the g == 1 test on words) = inverse iff gcd = 1
      ws_from_ubig / wd_from_ubig  the single / double word rings on the words of a multi-word operand (C02's
                        rem_word_loop / rem_dword_loop theorems instead of a contract). *)
From Dashu Require Import Base.Prelude Base.Words Int.DivWordModel Int.DivWordProofs Int.DivSimpleProofs Int.DivLargeProofs
  Int.DivReprProofs Int.DivConstProofs Int.DivContracts
  Int.ModRingSpec Int.ModRingSpecProofs Int.ModRingPowModel Int.ModRingModel Int.ModRingProofs Int.ModRingOpsProofs
  Int.ModRingWords Int.ModRingWordsProofs Int.ModRingWordsMulProofs Int.ModRingConv.
Open Scope Z_scope.

Section ConvProofs.
Variable w : Z.
Hypothesis w_ge : 2 <= w.
Local Notation B := (Words.B w).
Local Notation value := (Words.value w).
Local Notation wf := (Words.wf w).
Let w_pos : 0 < w. Proof. lia. Qed.
Let Bp : 0 < B. Proof. apply Words.B_pos; lia. Qed.

Variable divk : list Z -> list Z -> result (list Z * bool).
Hypothesis divk_ok : forall lhs rhs, kernel_pre w lhs rhs -> exists res c, divk lhs rhs = Ok (res, c) /\ kernel_post w lhs rhs res c.

(** a right shift that loses no bit *)
Lemma shr_exact ws s : wf ws -> 0 <= s < w -> value ws mod 2 ^ s = 0 ->
  exists l, shr_in_place w ws s = (l, 0) /\ wf l /\ length l = length ws /\ value l = value ws / 2 ^ s.
Proof.
  intros Hw Hs Hm. destruct (Z.eq_dec s 0) as [S0|Sn].
  - exists ws. unfold shr_in_place. rewrite S0. replace (0 =? w) with false by (symmetry; apply Z.eqb_neq; lia). cbn [Z.eqb].
    rewrite Z.pow_0_r, Z.div_1_r. repeat split; assumption.
  - assert (0 < 2 ^ s) as P by (apply Z.pow_pos_nonneg; lia).
    destruct (shr_in_place w ws s) as [l c] eqn:Ea.
    destruct (shr_in_place_spec w w_pos ws s Hw ltac:(lia) l c Ea) as (k & Ec & Hk & E1 & Hw1 & Hl1).
    assert (k = value ws mod 2 ^ s) as Ek by (apply (Z.mod_unique (value ws) (2 ^ s) (value l) k); lia).
    assert (k = 0) as K0 by lia. clear Ek. subst k. exists l. rewrite Ec. cbn [Z.mul]. split; [reflexivity|]. split; [exact Hw1|]. split; [exact Hl1|].
    apply (Z.div_unique (value ws) (2 ^ s) (value l) 0); lia.
Qed.

Lemma value_lt_len ws : wf ws -> 0 <= value ws < B ^ Z.of_nat (length ws).
Proof. intros H. exact (Words.value_bounds w w_pos ws H). Qed.

Lemma Bpow_pos' k : 0 <= k -> 0 < B ^ k.
Proof. intros. apply Z.pow_pos_nonneg; [exact Bp | assumption]. Qed.

(** the two word counts agree *)
Lemma nwords_agree x : 0 < x -> Z.of_nat (DivWordModel.nwords w x) = ModRingModel.nwords w x.
Proof.
  intros Hx. destruct (nwords_spec w w_pos x Hx) as (H1 & Hlo & Hhi).
  set (n := Z.of_nat (DivWordModel.nwords w x)) in *.
  pose proof (nwords_bound w w_ge x ltac:(lia)) as [N0 NU]. unfold Words.B in *.
  pose proof (nwords_le w w_ge x n ltac:(lia) ltac:(lia)) as Hle.
  destruct (Z.lt_ge_cases (ModRingModel.nwords w x) n) as [Hlt|]; [|lia].
  assert ((2 ^ w) ^ ModRingModel.nwords w x <= (2 ^ w) ^ (n - 1)) by (apply Z.pow_le_mono_r; [apply Z.pow_pos_nonneg; lia | lia]).
  lia.
Qed.

(** the normalisation shift is determined by the bounds it achieves *)
Lemma shift_unique m T s s' : 0 < m -> 0 <= s -> 0 <= s' -> T <= 2 * (m * 2 ^ s) -> m * 2 ^ s < T ->
  T <= 2 * (m * 2 ^ s') -> m * 2 ^ s' < T -> s = s'.
Proof.
  intros Hm Hs Hs' A1 A2 B1 B2.
  destruct (Z.lt_trichotomy s s') as [L|[E|L]]; [exfalso | exact E | exfalso].
  - assert (2 * 2 ^ s <= 2 ^ s') by (rewrite <- Z.pow_succ_r by lia; apply Z.pow_le_mono_r; lia).
    assert (0 < 2 ^ s) by (apply Z.pow_pos_nonneg; lia). nia.
  - assert (2 * 2 ^ s' <= 2 ^ s) by (rewrite <- Z.pow_succ_r by lia; apply Z.pow_le_mono_r; lia).
    assert (0 < 2 ^ s') by (apply Z.pow_pos_nonneg; lia). nia.
Qed.

(** ---------------- ConstLargeDivisor::new ---------------- *)
Theorem wl_new_ok id m : B * B <= m ->
  exists R r, wl_new w m = Ok R /\ new_ring w id m = Ok r /\ lring_ok w R r /\ ring_wf w r /\ r_m r = m /\ r_id r = id /\
              r_kind r = KLarge.
Proof.
  intros Hm. assert (1 <= m) as Hm1 by nia.
  destruct (new_ring_ok w w_ge id m Hm1) as (r & Enew & Hwf & Erm & Eid).
  assert (r_kind r = KLarge /\ r_n r = ModRingModel.nwords w m) as [Hk Hrn].
  { unfold new_ring in Enew. destruct (Z.leb_spec m 0); [lia|]. unfold Words.B in Hm.
    destruct (Z.ltb_spec m (2 ^ w)); [nia|]. destruct (Z.ltb_spec m (2 ^ w * 2 ^ w)); [lia|].
    inversion Enew; subst r. split; reflexivity. }
  destruct (words_of_spec w w_pos m ltac:(lia)) as (Hww & Hwv & Hwl).
  destruct (nwords_spec w w_pos m ltac:(lia)) as (Hn1 & Hlo & Hhi).
  pose proof (nwords_agree m ltac:(lia)) as Hag.
  pose proof (words_of_top w w_pos m ltac:(lia)) as Htop.
  set (ws := words_of w m) in *. set (n := DivWordModel.nwords w m) in *.
  (* the top word *)
  assert (highest_word w ws < B) as HtopB.
  { unfold highest_word, top_words. pose proof (value_lt_len (skipn (length ws - 1) ws) (wf_skipn w _ _ Hww)) as Hb.
    rewrite skipn_length in Hb. replace (length ws - (length ws - 1))%nat with 1%nat in Hb by lia.
    change (Z.of_nat 1) with 1 in Hb. rewrite Z.pow_1_r in Hb. lia. }
  set (top := highest_word w ws) in *.
  pose proof (lzw_spec w w_pos 1 top ltac:(lia) ltac:(rewrite Z.pow_1_r; lia)) as (Hs & Hs1 & Hs2).
  rewrite Z.pow_1_r in Hs1, Hs2. set (s := lzw w 1 top) in *.
  assert (0 < 2 ^ s) as P by (apply Z.pow_pos_nonneg; lia).
  (* m between top * B^(n-1) and (top+1) * B^(n-1) *)
  pose proof (value_split w (n - 1) ws ltac:(lia)) as Hsp. rewrite Hwv in Hsp.
  pose proof (value_lt_len (firstn (n - 1) ws) (wf_firstn w _ _ Hww)) as Hf. rewrite firstn_length_le in Hf by lia.
  replace (Z.of_nat (n - 1)) with (Z.of_nat n - 1) in * by lia.
  assert (value (skipn (n - 1) ws) = top) as Etop by (unfold top, highest_word, top_words; rewrite Hwl; reflexivity).
  rewrite Etop in Hsp.
  pose proof (Bpow_pos' (Z.of_nat n - 1) ltac:(lia)) as PB.
  assert (B ^ Z.of_nat n = B * B ^ (Z.of_nat n - 1)) as EBn by (rewrite <- Z.pow_succ_r by lia; f_equal; lia).
  assert (B ^ Z.of_nat n <= 2 * (m * 2 ^ s) /\ m * 2 ^ s < B ^ Z.of_nat n) as [N1 N2].
  { rewrite EBn. split.
    - assert (B * B ^ (Z.of_nat n - 1) <= 2 * (top * 2 ^ s) * B ^ (Z.of_nat n - 1)) by nia. nia.
    - assert ((top + 1) * 2 ^ s <= B).
      { pose proof (B_split w s ltac:(lia)) as EB. assert (0 < 2 ^ (w - s)) by (apply Z.pow_pos_nonneg; lia).
        rewrite EB in Hs2 |- *. assert (top < 2 ^ (w - s)) by nia. nia. }
      assert (m < (top + 1) * B ^ (Z.of_nat n - 1)) by nia.
      assert (m * 2 ^ s < (top + 1) * B ^ (Z.of_nat n - 1) * 2 ^ s) by nia. nia. }
  (* the shift of the value-level ring is the same *)
  pose proof Hwf as (_ & Hrs & Hn3 & HT & Hd). rewrite Hk in Hn3. unfold nd, tsize in HT, Hd. rewrite Hrn, <- Hag in HT. rewrite Erm, Hrn, <- Hag in Hd.
  change (2 ^ w) with (Words.B w) in HT, Hd.
  assert (r_shift r = s) as Es.
  { apply (shift_unique m (B ^ Z.of_nat n)); try lia. }
  (* the shift on words *)
  unfold wl_new. fold ws. fold top. fold s.
  destruct (shl_in_place w ws s) as [ndw c] eqn:Esh.
  destruct (shl_in_place_spec w w_pos ws s Hww ltac:(lia) ndw c Esh) as (E1 & Hwn & Hln & Hc).
  unfold len in E1. rewrite Hwl, Hwv in E1. fold n in E1.
  pose proof (value_lt_len ndw Hwn) as Hbn. rewrite Hln, Hwl in Hbn. fold n in Hbn.
  assert (c = 0) as C0.
  { pose proof (Bpow_pos' (Z.of_nat n) ltac:(lia)). nia. }
  subst c. cbn [Z.eqb]. exists (mklring ndw s), r. split; [reflexivity|]. split; [exact Enew|].
  split; [|split; [exact Hwf|split; [exact Erm|split; [exact Eid|exact Hk]]]].
  unfold lring_ok. cbn [lr_nd lr_shift]. split; [exact Hk|]. split; [exact Hwn|].
  split; [unfold nd; rewrite Erm, Es; lia|]. split; [unfold len; rewrite Hln, Hwl, Hrn; exact Hag | symmetry; exact Es].
Qed.

(** ---------------- rem_large / rem_repr / from_ubig ---------------- *)
Lemma lring_facts R r : lring_ok w R r -> ring_wf w r ->
  (3 <= length (lr_nd R))%nat /\ B ^ Z.of_nat (length (lr_nd R)) <= 2 * nd r /\ nd r < B ^ Z.of_nat (length (lr_nd R)) /\
  kernel_pre w (lr_nd R) (lr_nd R).
Proof.
  intros (Hk & Hwn & En & El & Es) (Hm & Hs & Hn3 & HT & Hd). rewrite Hk in Hn3. unfold len in El.
  unfold tsize in HT, Hd. rewrite <- El in HT, Hd. fold B in HT, Hd.
  split; [lia|]. split; [lia|]. split; [lia|].
  split; [exact Hwn|]. split; [exact Hwn|]. split; [lia|]. split; [lia|]. unfold normalized_top, len. rewrite En. lia.
Qed.

Theorem wl_rem_large_ok R r words : lring_ok w R r -> ring_wf w r -> wf words ->
  exists buf, wl_rem_large w divk R words = Ok buf /\ wf buf /\ (length buf <= length (lr_nd R))%nat /\
              value buf = (value words * 2 ^ r_shift r) mod nd r.
Proof.
  intros HR Hwf Hww. pose proof (lring_facts R r HR Hwf) as (Hn3 & N1 & N2 & (_ & Hwn & _ & _ & Hnorm)).
  pose proof HR as (Hk & _ & En & El & Es). pose proof Hwf as (Hm & Hs & _).
  pose proof (wf_facts w w_ge r Hwf) as (P & P2 & Pn & _).
  set (n := length (lr_nd R)) in *.
  unfold wl_rem_large. rewrite Es. fold n.
  destruct (shl_in_place w words (r_shift r)) as [ws1 c] eqn:Esh.
  destruct (shl_in_place_spec w w_pos words (r_shift r) Hww ltac:(lia) ws1 c Esh) as (E1 & Hw1 & Hl1 & Hc).
  set (ws2 := if c =? 0 then ws1 else ws1 ++ [c]).
  assert (wf ws2 /\ value ws2 = value words * 2 ^ r_shift r) as [Hw2 Ev2].
  { unfold ws2. destruct (Z.eqb_spec c 0) as [->|Cn].
    - split; [exact Hw1 | lia].
    - split.
      + apply Words.wf_app. split; [exact Hw1|]. apply Words.wf_cons. split; [unfold Words.B in *; lia | apply Words.wf_nil].
      + rewrite Words.value_app. cbn [Words.value]. unfold len in *. rewrite Hl1. lia. }
  rewrite <- Ev2.
  destruct (Nat.leb_spec n (length ws2)) as [Hlong|Hshort].
  - assert (kernel_pre w ws2 (lr_nd R)) as Hpre.
    { split; [exact Hw2|]. split; [exact Hwn|]. split; [fold n; lia|]. split; [fold n; lia | exact Hnorm]. }
    destruct (divk_ok ws2 (lr_nd R) Hpre) as (res & cc & Ed & Hwres & Hlres & Erem & _).
    rewrite Ed. cbn [rbind]. exists (firstn n res). split; [reflexivity|]. split; [apply wf_firstn; exact Hwres|].
    split; [rewrite firstn_length; lia|]. fold n in Erem. rewrite Erem, En. reflexivity.
  - exists ws2. split; [reflexivity|]. split; [exact Hw2|]. split; [lia|].
    pose proof (value_lt_len ws2 Hw2) as Hb.
    assert (B ^ Z.of_nat (length ws2) <= B ^ (Z.of_nat n - 1)) as Hle by (apply Z.pow_le_mono_r; [exact Bp | lia]).
    assert (B ^ Z.of_nat n = B * B ^ (Z.of_nat n - 1)) as EBn by (rewrite <- Z.pow_succ_r by lia; f_equal; lia).
    pose proof (Bpow_pos' (Z.of_nat n - 1) ltac:(lia)) as PB. pose proof (Words.B_ge_2 w w_pos) as HB2.
    rewrite Z.mod_small; [reflexivity|]. split; [lia|]. nia.
Qed.

Theorem wl_rem_repr_ok R r x : lring_ok w R r -> ring_wf w r -> 0 <= x ->
  exists buf, wl_rem_repr w divk R x = Ok buf /\ wf buf /\ (length buf <= length (lr_nd R))%nat /\
              value buf = (x mod r_m r) * 2 ^ r_shift r.
Proof.
  intros HR Hwf Hx. pose proof (lring_facts R r HR Hwf) as (Hn3 & _).
  pose proof HR as (Hk & _ & En & El & Es). pose proof Hwf as (Hm & Hs & _).
  pose proof (wf_facts w w_ge r Hwf) as (P & P2 & Pn & _).
  unfold wl_rem_repr. rewrite Es. unfold Words.B.
  destruct (Z.ltb_spec x (2 ^ w * 2 ^ w)) as [Hsmall|Hbig].
  - pose proof (shl_dword_ok w w_ge x (r_shift r) ltac:(lia) ltac:(lia) ltac:(lia)) as Hsh.
    destruct (ModRingModel.shl_dword w x (r_shift r)) as [[n0 n1] n2]. destruct Hsh as (E & H0 & H1 & H2).
    exists [n0; n1; n2]. split; [reflexivity|]. split.
    + repeat (apply Words.wf_cons; split; [unfold Words.B; lia|]). apply Words.wf_nil.
    + split; [cbn [length]; lia|]. cbn [Words.value]. unfold Words.B.
      pose proof (large_m_lb w w_ge r Hwf) as Hlb. unfold len in El.
      assert (2 ^ w * 2 ^ w <= (2 ^ w) ^ (r_n r - 1)) as H2'.
      { replace (2 ^ w * 2 ^ w) with ((2 ^ w) ^ 2) by ring. apply Z.pow_le_mono_r; [apply Z.pow_pos_nonneg; lia | lia]. }
      rewrite (Z.mod_small x (r_m r)) by lia. lia.
  - destruct (words_of_spec w w_pos x Hx) as (Hww & Hwv & Hwl).
    destruct (wl_rem_large_ok R r (words_of w x) HR Hwf Hww) as (buf & E & Hwb & Hlb & Evb).
    exists buf. split; [exact E|]. split; [exact Hwb|]. split; [exact Hlb|]. rewrite Evb, Hwv.
    unfold nd. apply lift_mod; lia.
Qed.

Theorem wl_from_ubig_ok R r x : lring_ok w R r -> ring_wf w r -> 0 <= x ->
  exists l, wl_from_ubig w divk R x = Ok l /\ wrep w R r x l.
Proof.
  intros HR Hwf Hx. destruct (wl_rem_repr_ok R r x HR Hwf Hx) as (buf & E & Hwb & Hlb & Evb).
  unfold wl_from_ubig. rewrite E. cbn [rbind].
  destruct (Nat.leb_spec (length buf) (length (lr_nd R))); [|lia].
  eexists. split; [reflexivity|]. split; [|split].
  - apply Words.wf_app. split; [exact Hwb | apply Words.wf_repeat_zero; lia].
  - rewrite app_length, repeat_length. lia.
  - rewrite Words.value_app, Words.value_repeat_zero. lia.
Qed.

Theorem wl_into_ring_ubig_ok R r x : lring_ok w R r -> ring_wf w r -> 0 <= x ->
  exists l, wl_into_ring_ubig w divk R x = Ok l /\ wrep w R r x l.
Proof.
  intros HR Hwf Hx. destruct (wl_from_ubig_ok R r x HR Hwf Hx) as (l & E & Hrep).
  unfold wl_into_ring_ubig. rewrite E. cbn [rbind]. unfold wl_from_large.
  rewrite (wrep_valid w w_ge R r x l HR Hwf Hrep). exists l. split; [reflexivity | exact Hrep].
Qed.

(** IntoRing for IBig (every sign): the canonical representative of the residue class *)
Theorem wl_into_ring_ibig_ok R r a : lring_ok w R r -> ring_wf w r ->
  exists l, wl_into_ring_ibig w divk R a = Ok l /\ wrep w R r a l.
Proof.
  intros HR Hwf. unfold wl_into_ring_ibig. destruct (Z.leb_spec 0 a) as [Hp|Hn].
  - apply wl_into_ring_ubig_ok; assumption.
  - destruct (wl_into_ring_ubig_ok R r (- a) HR Hwf ltac:(lia)) as (l & E & Hrep). rewrite E. cbn [rbind].
    destruct (wl_ring_ops w w_ge R r (- a) (- a) l l HR Hwf Hrep Hrep) as (_ & _ & _ & (c & Ec & Hc) & _).
    exists c. split; [exact Ec|]. rewrite Z.opp_involutive in Hc. exact Hc.
Qed.

(** Reducer::transform on the Large arm returns the raw form the value-level model returns *)
Theorem wl_transform_ok R r x : lring_ok w R r -> ring_wf w r -> 0 <= x ->
  wl_transform w divk R x = Ok ((x mod r_m r) * 2 ^ r_shift r) /\
  wl_transform w divk R x = rd_transform w (fun _ _ => (0, 0)) (fun _ _ _ => (0, 0)) r x.
Proof.
  intros HR Hwf Hx. destruct (wl_rem_repr_ok R r x HR Hwf Hx) as (buf & E & _ & _ & Evb).
  pose proof HR as (Hk & _). unfold wl_transform, rd_transform. rewrite E, Hk. cbn [rbind]. rewrite Evb.
  split; [reflexivity|]. rewrite (l_rem_repr_ok w w_ge r x Hwf Hk Hx). reflexivity.
Qed.

(** ConstLargeDivisor::divisor / Reduced::modulus *)
Theorem wl_divisor_ok R r : lring_ok w R r -> ring_wf w r ->
  exists l, wl_divisor w R = Ok l /\ wf l /\ value l = r_m r.
Proof.
  intros HR Hwf. pose proof HR as (Hk & Hwn & En & El & Es). pose proof Hwf as (Hm & Hs & _).
  pose proof (wf_facts w w_ge r Hwf) as (P & _ & _ & _ & Hdiv).
  destruct (shr_exact (lr_nd R) (r_shift r) Hwn Hs) as (l & E & Hwl & _ & Evl).
  { rewrite En. unfold nd. apply Z.mod_mul. lia. }
  unfold wl_divisor, wl_residue. rewrite Es, E. cbn [Z.eqb]. exists l. split; [reflexivity|]. split; [exact Hwl|].
  rewrite Evl, En. exact Hdiv.
Qed.

(** ---------------- inv_large ---------------- *)
Variable fgcd : Z -> Z -> Z * Z * sign.
Hypothesis fgcd_ok : forall lhs rhs, 0 < rhs < lhs ->
  let '(g, b, s) := fgcd lhs rhs in
  g = Z.gcd lhs rhs /\ 0 <= b < lhs /\ (g = 1 -> (rhs * signed s b) mod lhs = 1 mod lhs).

Definition winv_post (R : lring) (r : ring) (x : Z) (o : option (list Z)) : Prop :=
  match o with
  | Some c => exists v, wrep w R r v c /\ is_inverse (r_m r) x (v mod r_m r) /\ Z.gcd x (r_m r) = 1
  | None => Z.gcd x (r_m r) <> 1
  end.

(** the test `g_len == 1 && raw[0] == 1` on the words of g says g = 1 *)
Lemma g_one_words k g : (1 <= k)%nat -> 0 <= g < B ^ Z.of_nat k ->
  (Nat.eqb (top_plus_one (to_words w k g)) 1 && (hd 0 (to_words w k g) =? 1)) = (g =? 1).
Proof.
  intros Hk Hg. pose proof (Words.to_words_wf w w_pos k g) as Hwg. pose proof (Words.value_to_words w w_pos k g Hg) as Evg.
  set (gw := to_words w k g) in *.
  destruct (Nat.eqb_spec (top_plus_one gw) 1) as [T1|Tn]; cbn [andb].
  - destruct (hd_single w gw Hwg T1) as (_ & Eh). rewrite <- Eh, Evg. reflexivity.
  - symmetry. apply Z.eqb_neq. intros G1. apply Tn.
    pose proof (top_plus_one_nwords w w_ge gw Hwg) as Hn. rewrite Evg, G1 in Hn.
    assert (ModRingModel.nwords w 1 = 1) as N1.
    { unfold ModRingModel.nwords, bitlen. cbn [Z.leb Z.compare Z.log2]. replace (0 + 1 + w - 1) with (1 * w) by lia. apply Z.div_mul. lia. }
    lia.
Qed.

Theorem wl_inv_ok R r x raw : lring_ok w R r -> ring_wf w r -> wrep w R r x raw ->
  exists o, wl_inv w fgcd R raw = Ok o /\ winv_post R r x o.
Proof.
  intros HR Hwf Hrep. pose proof Hrep as (Hwr & Hlr & Evr).
  pose proof (lring_facts R r HR Hwf) as (Hn3 & N1 & N2 & _).
  pose proof HR as (Hk & Hwn & En & El & Es). pose proof Hwf as (Hm & Hs & _).
  pose proof (wf_facts w w_ge r Hwf) as (P & P2 & Pn & _ & Hdiv).
  pose proof (Z.mod_pos_bound x (r_m r) ltac:(lia)) as Hx. set (xm := x mod r_m r) in *.
  set (n := length (lr_nd R)) in *.
  unfold wl_inv, wl_inv_large. fold n. rewrite Es.
  destruct (shr_exact (lr_nd R) (r_shift r) Hwn Hs) as (md & E1 & Hwmd & Hlmd & Evmd).
  { rewrite En. unfold nd. apply Z.mod_mul. lia. }
  rewrite E1. cbn [Z.eqb negb]. rewrite En, Hdiv in Evmd.
  destruct (shr_exact raw (r_shift r) Hwr Hs) as (raw1 & E2 & Hw1 & Hl1 & Ev1).
  { rewrite Evr. apply Z.mod_mul. lia. }
  rewrite E2. cbn [Z.eqb negb]. rewrite Evr, Z.div_mul in Ev1 by lia.
  assert (Z.gcd xm (r_m r) <> 1 -> winv_post R r x None) as Hnone.
  { intros G. cbn [winv_post]. unfold xm in G. rewrite gcd_mod_l in G by lia. exact G. }
  destruct (Nat.eqb_spec (top_plus_one raw1) 0) as [T0|Tn].
  - cbn [rbind]. exists None. split; [reflexivity|]. apply Hnone.
    rewrite <- Ev1, (top_plus_one_zero w raw1 Hw1 T0), Z.gcd_0_l, Z.abs_eq by lia.
    pose proof (large_m_gt1 w w_ge R r HR Hwf). lia.
  - set (k := top_plus_one raw1) in *.
    pose proof (top_plus_one_value w raw1 Hw1) as Etv. fold k in Etv. rewrite Etv, Ev1, Evmd.
    assert (0 < xm) as Hxp.
    { pose proof (top_plus_one_lower w w_ge raw1 Hw1 ltac:(fold k; lia)) as Hl. fold k in Hl. rewrite Ev1 in Hl.
      pose proof (Bpow_pos' (Z.of_nat k - 1) ltac:(lia)). lia. }
    assert (xm < B ^ Z.of_nat k) as Hxk.
    { rewrite <- Ev1, <- (top_plus_one_value w raw1 Hw1). fold k.
      pose proof (value_lt_len (firstn k raw1) (wf_firstn w _ _ Hw1)) as Hb. rewrite firstn_length_le in Hb; [lia|].
      pose proof (top_plus_one_le raw1). fold k in H. lia. }
    pose proof (fgcd_ok (r_m r) xm ltac:(lia)) as Hg.
    destruct (fgcd (r_m r) xm) as [[g b] sg]. destruct Hg as (Eg & Hb & Hbez).
    assert (0 < g <= xm) as Hgx.
    { rewrite Eg. split.
      - pose proof (Z.gcd_nonneg (r_m r) xm). destruct (Z.eq_dec (Z.gcd (r_m r) xm) 0) as [E0|]; [|lia].
        apply Z.gcd_eq_0_l in E0. lia.
      - apply Z.divide_pos_le; [lia | apply Z.gcd_divide_r]. }
    assert ((if (k <=? 2)%nat then g =? 1 else Nat.eqb (top_plus_one (to_words w k g)) 1 && (hd 0 (to_words w k g) =? 1)) = (g =? 1)) as Eone.
    { destruct (k <=? 2)%nat; [reflexivity|]. apply g_one_words; lia. }
    rewrite Eone. destruct (Z.eqb_spec g 1) as [G1|GN]; cbn [negb].
    + specialize (Hbez G1).
      (* the cofactor, shifted back *)
      assert (0 <= b < B ^ Z.of_nat n) as Hbn.
      { pose proof (m_le_nd w w_ge r Hwf). lia. }
      pose proof (Words.to_words_wf w w_pos n b) as Hwb. pose proof (Words.value_to_words w w_pos n b Hbn) as Evb.
      pose proof (Words.to_words_length w n b) as Hlb.
      destruct (shl_in_place w (to_words w n b) (r_shift r)) as [inv c] eqn:Esh.
      destruct (shl_in_place_spec w w_pos _ (r_shift r) Hwb ltac:(lia) inv c Esh) as (E3 & Hwi & Hli & Hc).
      unfold len in E3. rewrite Hlb, Evb in E3.
      pose proof (value_lt_len inv Hwi) as Hbi. rewrite Hli, Hlb in Hbi.
      assert (b * 2 ^ r_shift r < nd r) as Hbnd by (unfold nd; nia).
      assert (c = 0) as C0 by (pose proof (Bpow_pos' (Z.of_nat n) ltac:(lia)); nia). subst c.
      assert (wrep w R r b inv) as Hrb.
      { split; [exact Hwi|]. split; [lia|]. rewrite Z.mod_small by lia. lia. }
      rewrite (wrep_valid w w_ge R r b inv HR Hwf Hrb).
      assert (forall v l, wrep w R r v l -> (xm * (v mod r_m r)) mod r_m r = 1 mod r_m r -> winv_post R r x (Some l)) as Hsome.
      { intros v l Hl Ev. cbn [winv_post]. exists v.
        assert ((x * (v mod r_m r)) mod r_m r = 1 mod r_m r) as Ev' by (rewrite <- Zmult_mod_idemp_l; exact Ev).
        pose proof (Z.mod_pos_bound v (r_m r) ltac:(lia)).
        split; [exact Hl|]. split; [split; [lia | exact Ev'] | apply (inverse_gcd (r_m r) x (v mod r_m r)); [lia | exact Ev']]. }
      destruct sg.
      * cbn [rbind]. unfold wl_from_large. rewrite (wrep_valid w w_ge R r b inv HR Hwf Hrb). cbn [rbind].
        exists (Some inv). split; [reflexivity|]. apply (Hsome b inv Hrb).
        rewrite (Z.mod_small b (r_m r)) by lia. rewrite <- Hbez. f_equal; try (unfold signed, sgnz; lia).
      * destruct (wl_ring_ops w w_ge R r b b inv inv HR Hwf Hrb Hrb) as (_ & _ & _ & (cn & Ecn & Hcn) & _).
        unfold wl_neg in Ecn. destruct (wl_negate_in_place w R inv) as [c'| | |]; cbn [rbind] in Ecn; try discriminate.
        cbn [rbind]. rewrite Ecn. cbn [rbind]. exists (Some cn). split; [reflexivity|]. apply (Hsome (- b) cn Hcn).
        rewrite Zmult_mod_idemp_r. rewrite <- Hbez. f_equal; try (unfold signed, sgnz; lia).
    + cbn [rbind]. exists None. split; [reflexivity|]. apply Hnone. rewrite Z.gcd_comm, <- Eg. exact GN.
Qed.

End ConvProofs.

(** ---------------- single / double word rings on the words of a multi-word operand ---------------- *)
Section SmallRings.
Variable w : Z.
Hypothesis w_ge : 2 <= w.
Local Notation B := (Words.B w).
Variable f1 : Z -> Z -> Z * Z.
Variable f2 : Z -> Z -> Z * Z.
Variable f22 : Z -> Z -> Z * Z.
Variable f3 : Z -> Z -> Z -> Z * Z.
Variable f4 : Z -> Z -> Z -> Z * Z.
Hypothesis f1_ok : contract_1by1 w f1.
Hypothesis f2_ok : contract_2by1 w f2.
Hypothesis f22_ok : contract_2by2 w f22.
Hypothesis f3_ok : contract_3by2 w f3.
Hypothesis f4_ok : contract_4by2 w f4.
Let w_pos : 0 < w. Proof. lia. Qed.

(** ReducedWord::from_ubig: the RefLarge arm run on the word list (fast_rem_by_normalized_word as proved by C02)
    returns what the value-level model returns *)
Theorem ws_from_ubig_eq r x : ring_wf w r -> r_kind r = KSingle -> 0 <= x ->
  ws_from_ubig w f1 f2 r x = s_from_ubig w f2 r x.
Proof.
  intros Hwf Hk Hx. unfold ws_from_ubig, s_from_ubig. fold B. unfold Words.B.
  destruct (x <? 2 ^ w); [reflexivity|]. destruct (Z.ltb_spec x (2 ^ w * 2 ^ w)) as [|Hbig]; [reflexivity|].
  unfold ws_rem_large, s_rem_large.
  destruct (words_of_spec w w_pos x Hx) as (Hww & Hwv & Hwl).
  pose proof (single_nd w w_ge r Hwf Hk) as Hd. pose proof (B_even w w_ge) as Ev.
  assert (words_of w x <> []) as Hne.
  { intros E. rewrite E in Hwv. cbn in Hwv. assert (0 < 2 ^ w) by (apply Z.pow_pos_nonneg; lia). nia. }
  rewrite (rem_word_loop_spec w w_pos f1 f2 f1_ok f2_ok (nd r) (words_of w x)); [rewrite Hwv; reflexivity | | exact Hww | exact Hne].
  unfold norm1, Words.B. lia.
Qed.

(** ReducedDword::from_ubig likewise (fast_rem_by_normalized_dword) *)
Theorem wd_from_ubig_eq r x : ring_wf w r -> r_kind r = KDouble -> 0 <= x ->
  wd_from_ubig w f22 f3 f4 r x = d_from_ubig w f3 r x.
Proof.
  intros Hwf Hk Hx. unfold wd_from_ubig, d_from_ubig. fold B. unfold Words.B.
  destruct (Z.ltb_spec x (2 ^ w * 2 ^ w)) as [|Hbig]; [reflexivity|].
  unfold wd_rem_large, d_rem_large.
  destruct (words_of_spec w w_pos x Hx) as (Hww & Hwv & Hwl).
  pose proof (double_nd w w_ge r Hwf Hk) as Hd. pose proof (BB_half w w_ge) as Ev. pose proof (B_even w w_ge) as Ev1.
  pose proof (nwords_ge3 w w_pos x ltac:(unfold Words.B; lia)) as H3.
  rewrite (rem_dword_loop_spec w w_pos f22 f3 f4 f22_ok f3_ok f4_ok (nd r) (words_of w x)); [rewrite Hwv; reflexivity | | exact Hww | lia].
  unfold norm2, Words.B. lia.
Qed.

End SmallRings.
