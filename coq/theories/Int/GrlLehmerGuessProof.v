(** C12 round 4 - "a guessed Lehmer step never goes negative", proved from the tests lehmer_guess applies
    (integer/src/gcd/lehmer.rs lines 40-88 / 115-164, model GrlLehmer.lehmer_guess_loop).

    x, y are the operands, xh = floor(x / P), yh = floor(y / P) their aligned leading bits (P = 2^k).  The
    loop keeps   xbar = a*xh - b*yh,  ybar = d*yh - c*xh,  b <= xbar,  c <= ybar
    (the tests [t < s => break] of both halves are exactly b <= xbar, c <= ybar for the new values), hence
      a*x - b*y >= (xbar - b)*P + b >= 0   and   d*y - c*x >= (ybar - c)*P + c >= 0
    whatever the low bits of x and y are.  After the first half step the new x is x - q*y < y (q = xh / yh)
    and it never grows again, so a*x - b*y < y: the new x fits the words of y.  All word sizes, both guesses
    (word and double word), any P. *)
From Dashu Require Import Base.Prelude Int.GrlSpec Int.GrlModel Int.GrlLehmer Int.GrlLehmerProof.
Open Scope Z_scope.

Lemma lehmer_half_step2 : forall B L u0 u1 v0 v1 num den sub r s t,
  lehmer_half B L u0 u1 v0 v1 num den sub = HStep r s t ->
  den <> 0 /\ num / den <= L /\ r = u0 + num / den * v0 /\ s = u1 + num / den * v1 /\ t = num - num / den * den
  /\ r <= L /\ s <= L /\ s <= t.
Proof.
  intros B L u0 u1 v0 v1 num den sub r s t. unfold lehmer_half.
  destruct (Z.eqb_spec den 0); [discriminate|].
  destruct (Z.ltb_spec L (num / den)); [discriminate|].
  destruct (negb _); [discriminate|].
  destruct (Z.ltb_spec L (u0 + num / den * v0)); [discriminate|].
  destruct (Z.ltb_spec L (u1 + num / den * v1)); [discriminate|]. cbn [orb].
  destruct (Z.ltb_spec (num - num / den * den) (u1 + num / den * v1)); [discriminate|].
  destruct (negb _); [discriminate|].
  destruct (_ <? _); [discriminate|].
  intros E. injection E as <- <- <-. repeat split; try assumption; lia.
Qed.

Lemma ginv_pos : forall L a b c d, ginv L a b c d -> 1 <= a /\ 1 <= d.
Proof.
  intros L a b c d [Ga [Gb [Gc [Gd Gdet]]]].
  assert (0 <= b * c) by (apply Z.mul_nonneg_nonneg; lia).
  split.
  - destruct (Z.eq_dec a 0) as [e|e]; [rewrite e in Gdet; lia|lia].
  - destruct (Z.eq_dec d 0) as [e|e]; [rewrite e, Z.mul_0_r in Gdet; lia|lia].
Qed.

Section Guess.
Variables x y P xh yh : Z.
Hypothesis HP : 0 < P.
Hypothesis Hx : xh * P <= x < (xh + 1) * P.
Hypothesis Hy : yh * P <= y < (yh + 1) * P.
Hypothesis Hxh : 0 <= xh.
Hypothesis Hyh : 0 <= yh.

(** the state of the guess loop *)
Definition gst (L a b c d xb yb : Z) : Prop :=
  ginv L a b c d /\ xb = a * xh - b * yh /\ yb = d * yh - c * xh /\ b <= xb /\ c <= yb /\
  (b = 0 -> a = 1 /\ c = 0 /\ d = 1) /\
  (1 <= b -> a * x - b * y < y /\ xh < (L + 1) * yh).

Lemma lin_nonneg : forall p q ub vb, 0 <= p -> 0 <= q -> q <= p * ub - q * vb ->
  ub * P <= x -> y < (vb + 1) * P -> 0 <= p * x - q * y.
Proof.
  intros p q ub vb Hp Hq Hd H1 H2.
  assert (p * (ub * P) <= p * x) by (apply Z.mul_le_mono_nonneg_l; lia).
  assert (q * y <= q * ((vb + 1) * P - 1)) by (apply Z.mul_le_mono_nonneg_l; lia).
  assert (0 <= (p * ub - q * vb - q) * P) by (apply Z.mul_nonneg_nonneg; lia).
  replace (p * (ub * P)) with ((p * ub - q * vb - q) * P + q * (vb + 1) * P) in * by ring.
  replace (q * ((vb + 1) * P - 1)) with (q * (vb + 1) * P - q) in * by ring. lia.
Qed.

Lemma gst_nonneg : forall L a b c d xb yb, gst L a b c d xb yb ->
  0 <= a * x - b * y /\ 0 <= d * y - c * x.
Proof.
  intros L a b c d xb yb [[Ga [Gb [Gc [Gd Gdet]]]] [Ex [Ey [Hb [Hc _]]]]]. split.
  - apply (lin_nonneg a b xh yh); lia.
  - clear Hb. revert Hc. rewrite Ey. intros Hc.
    assert (d * (yh * P) <= d * y) by (apply Z.mul_le_mono_nonneg_l; lia).
    assert (c * x <= c * ((xh + 1) * P - 1)) by (apply Z.mul_le_mono_nonneg_l; lia).
    assert (0 <= (d * yh - c * xh - c) * P) by (apply Z.mul_nonneg_nonneg; lia).
    replace (d * (yh * P)) with ((d * yh - c * xh - c) * P + c * (xh + 1) * P) in * by ring.
    replace (c * ((xh + 1) * P - 1)) with (c * (xh + 1) * P - c) in * by ring. lia.
Qed.

Lemma gst_init : forall L, 1 <= L -> gst L 1 0 0 1 xh yh.
Proof.
  intros L HL. unfold gst. split; [apply ginv_init; exact HL|].
  repeat split; try lia.
Qed.

(** the first half step (lines 41-59) *)
Lemma gst_half1 : forall L a b c d xb yb r s t, 0 < yb <= xb -> gst L a b c d xb yb ->
  xb / yb <= L -> r = a + xb / yb * c -> s = b + xb / yb * d -> t = xb - xb / yb * yb ->
  r <= L -> s <= L -> s <= t ->
  gst L r s c d t yb /\ 1 <= s /\ 0 <= t < yb.
Proof.
  intros L a b c d xb yb r s t Hyx G HqL Er Es Et Hr Hs Hst.
  pose proof (gst_nonneg _ _ _ _ _ _ _ G) as [Nx Ny].
  destruct G as [GI [Ex [Ey [Hb [Hc [H0 H1]]]]]].
  pose proof (ginv_pos _ _ _ _ _ GI) as [Pa Pd].
  destruct GI as [Ga [Gb [Gc [Gd Gdet]]]].
  assert (1 <= xb / yb) as Hq by (apply Z.div_le_lower_bound; lia).
  pose proof (Z.mod_pos_bound xb yb ltac:(lia)) as Hm. rewrite Z.mod_eq in Hm by lia.
  set (q := xb / yb) in *.
  replace (xb - yb * q) with t in Hm by (rewrite Et; ring).
  assert (0 <= q * c) by (apply Z.mul_nonneg_nonneg; lia).
  assert (1 * d <= q * d) by (apply Z.mul_le_mono_nonneg_r; lia).
  assert (1 <= s) as Hs1 by lia.
  split; [|split; [exact Hs1|exact Hm]].
  unfold gst. split; [|split; [|split; [|split; [|split; [|split]]]]].
  - assert (r * d - s * c = 1) as D1.
    { rewrite Er, Es. replace ((a + q * c) * d - (b + q * d) * c) with (a * d - b * c) by ring. exact Gdet. }
    unfold ginv. repeat split; first [exact D1 | lia].
  - rewrite Et, Er, Es, Ex, Ey. ring.
  - exact Ey.
  - exact Hst.
  - exact Hc.
  - intros e. lia.
  - intros _. destruct (Z.eq_dec b 0) as [eb|eb].
    + (* the very first step: x - q*y < y *)
      destruct (H0 eb) as [-> [-> ->]]. subst b.
      assert (xb = xh) as Exh by lia. assert (yb = yh) as Eyh by lia.
      assert (r = 1) as -> by lia. assert (s = q) as -> by lia.
      assert (xh + 1 <= (q + 1) * yh) as Hk by (rewrite <- Exh, <- Eyh; lia).
      assert ((xh + 1) * P <= (q + 1) * yh * P) as Hk2 by (apply Z.mul_le_mono_nonneg_r; lia).
      assert ((q + 1) * (yh * P) <= (q + 1) * y) as Hk3 by (apply Z.mul_le_mono_nonneg_l; lia).
      split.
      * replace ((q + 1) * (yh * P)) with ((q + 1) * yh * P) in Hk3 by ring.
        replace ((q + 1) * y) with (q * y + y) in Hk3 by ring. lia.
      * assert ((q + 1) * yh <= (L + 1) * yh) by (apply Z.mul_le_mono_nonneg_r; lia). lia.
    + destruct (H1 ltac:(lia)) as [K1 K2]. split; [|exact K2].
      assert (0 <= q * (d * y - c * x)) by (apply Z.mul_nonneg_nonneg; lia).
      rewrite Er, Es. replace ((a + q * c) * x - (b + q * d) * y) with ((a * x - b * y) - q * (d * y - c * x)) by ring. lia.
Qed.

(** the second half step (lines 65-83) *)
Lemma gst_half2 : forall L a b c d xb yb r s t, 0 < xb -> 0 <= yb -> 1 <= b -> gst L a b c d xb yb ->
  r = d + yb / xb * b -> s = c + yb / xb * a -> t = yb - yb / xb * xb ->
  r <= L -> s <= L -> s <= t ->
  gst L a b s r xb t /\ 0 <= t < xb.
Proof.
  intros L a b c d xb yb r s t Hxb Hyb Hb1 G Er Es Et Hr Hs Hst.
  destruct G as [GI [Ex [Ey [Hb [Hc [H0 H1]]]]]].
  pose proof (ginv_pos _ _ _ _ _ GI) as [Pa Pd].
  destruct GI as [Ga [Gb [Gc [Gd Gdet]]]].
  assert (0 <= yb / xb) as Hq by (apply Z.div_pos; lia).
  pose proof (Z.mod_pos_bound yb xb ltac:(lia)) as Hm. rewrite Z.mod_eq in Hm by lia.
  set (q := yb / xb) in *.
  replace (yb - xb * q) with t in Hm by (rewrite Et; ring).
  assert (0 <= q * b) by (apply Z.mul_nonneg_nonneg; lia).
  assert (0 <= q * a) by (apply Z.mul_nonneg_nonneg; lia).
  split; [|exact Hm].
  unfold gst. split; [|split; [|split; [|split; [|split; [|split]]]]].
  - assert (a * r - b * s = 1) as D1.
    { rewrite Er, Es. replace (a * (d + q * b) - b * (c + q * a)) with (a * d - b * c) by ring. exact Gdet. }
    unfold ginv. repeat split; first [exact D1 | lia].
  - exact Ex.
  - rewrite Et, Er, Es, Ex, Ey. ring.
  - exact Hb.
  - exact Hst.
  - intros e. lia.
  - exact H1.
Qed.

(** every exit of the loop returns a state of the invariant *)
Lemma guess_loop_gst : forall fuel B L a b c d xb yb a' b' c' d',
  0 <= yb <= xb -> gst L a b c d xb yb ->
  lehmer_guess_loop fuel B L a b c d xb yb = Ok (a', b', c', d') ->
  exists xb' yb', gst L a' b' c' d' xb' yb'.
Proof.
  induction fuel as [|k IH]; intros B L a b c d xb yb a' b' c' d' Hyx G; [discriminate|].
  cbn [lehmer_guess_loop].
  destruct (Z.eqb_spec yb 0) as [e0|e0]; [intros E; injection E as <- <- <- <-; eauto|].
  destruct (lehmer_half B L a b c d xb yb c) as [|?|r s t] eqn:H1; [intros E; injection E as <- <- <- <-; eauto|discriminate|].
  destruct (lehmer_half_step2 _ _ _ _ _ _ _ _ _ _ _ _ H1) as [Hd [HqL [Er [Es [Et [Hr [Hs Hst]]]]]]].
  destruct (gst_half1 L a b c d xb yb r s t ltac:(lia) G HqL Er Es Et Hr Hs Hst) as [G1 [Hs1 Ht]].
  destruct (Z.eqb_spec t s); [intros E; injection E as <- <- <- <-; eauto|].
  destruct (lehmer_half B L d c s r yb t c) as [|?|r2 s2 t2] eqn:H2; [intros E; injection E as <- <- <- <-; eauto|discriminate|].
  destruct (lehmer_half_step2 _ _ _ _ _ _ _ _ _ _ _ _ H2) as [Hd2 [HqL2 [Er2 [Es2 [Et2 [Hr2 [Hs2 Hst2]]]]]]].
  destruct (gst_half2 L r s c d t yb r2 s2 t2 ltac:(lia) ltac:(lia) Hs1 G1 Er2 Es2 Et2 Hr2 Hs2 Hst2) as [G2 Ht2].
  destruct (Z.eqb_spec t2 s2); [intros E; injection E as <- <- <- <-; eauto|].
  apply IH; [lia|exact G2].
Qed.

(** the guess from the aligned leading bits of x and y: both new values are non-negative, and once a step was
    taken the new x is below y and y has at least 1/(L+1) of the leading bits of x *)
Theorem guess_loop_nonneg : forall fuel B L a b c d, 1 <= L -> yh <= xh ->
  lehmer_guess_loop fuel B L 1 0 0 1 xh yh = Ok (a, b, c, d) ->
  ginv L a b c d /\ 0 <= a * x - b * y /\ 0 <= d * y - c * x /\
  (b <> 0 -> a * x - b * y < y /\ xh < (L + 1) * yh).
Proof.
  intros fuel B L a b c d HL Hyx E.
  assert (0 <= yh <= xh) as Hr by lia.
  destruct (guess_loop_gst _ _ _ _ _ _ _ _ _ _ _ _ _ Hr (gst_init L HL) E) as [xb' [yb' G]].
  pose proof (gst_nonneg _ _ _ _ _ _ _ G) as [Nx Ny].
  destruct G as [GI [_ [_ [_ [_ [_ H1]]]]]].
  split; [exact GI|]. split; [exact Nx|]. split; [exact Ny|].
  intros Hb. apply H1. destruct GI as [_ [Gb _]]. lia.
Qed.
End Guess.

(** * no intermediate result of lehmer_guess / lehmer_guess_dword overflows
    All products and sums of the loop body are computed in the unsigned type of the leading bits (Word resp.
    DoubleWord, [B] values).  With  xh = d*xbar + b*ybar,  yh = c*xbar + a*ybar  (the inverse of the cosequence
    matrix) every one of them is bounded by xh or yh:  (a + q*c)*ybar <= yh,  (b + q*d)*ybar <= xh,
    t + r <= r*ybar <= yh, ...; the subtraction [xbar - c] of the second half (the source subtracts c, not b)
    does not underflow because c <= d <= b <= xbar.  Any B > xh, any L. *)
Section NoOverflow.
Variables xh yh B : Z.
Hypothesis HxB : xh < B.
Hypothesis Hyx : 0 <= yh <= xh.

Definition gst2 (L a b c d xb yb : Z) : Prop :=
  ginv L a b c d /\ xb = a * xh - b * yh /\ yb = d * yh - c * xh /\ b <= xb /\ c <= yb /\
  c <= d /\ (1 <= b -> a <= b) /\ (b = 0 -> c = 0).

Lemma gst2_inverse : forall L a b c d xb yb, gst2 L a b c d xb yb -> xh = d * xb + b * yb /\ yh = c * xb + a * yb.
Proof.
  intros L a b c d xb yb [[_ [_ [_ [_ Gdet]]]] [Ex [Ey _]]]. rewrite Ex, Ey. split.
  - replace (d * (a * xh - b * yh) + b * (d * yh - c * xh)) with ((a * d - b * c) * xh) by ring. rewrite Gdet. ring.
  - replace (c * (a * xh - b * yh) + a * (d * yh - c * xh)) with ((a * d - b * c) * yh) by ring. rewrite Gdet. ring.
Qed.

Lemma fits_true : forall v, 0 <= v < B -> fits B v = true.
Proof. intros v Hv. unfold fits. apply andb_true_intro. split; [apply Z.leb_le|apply Z.ltb_lt]; lia. Qed.

(** one half of the loop body: the checked operations succeed when (u0 + q*v0)*den and (u1 + q*v1)*den are
    bounded by values of the type *)
Lemma lehmer_half_no_panic : forall L u0 u1 v0 v1 num den sub M1 M2 r,
  0 < den -> 0 <= num < B -> 1 <= u0 -> 0 <= u1 -> 0 <= v0 -> 0 <= v1 -> 0 <= sub <= den ->
  (u0 + num / den * v0) * den <= M1 -> M1 < B -> (u1 + num / den * v1) * den <= M2 -> M2 < B ->
  lehmer_half B L u0 u1 v0 v1 num den sub <> HPanic r.
Proof.
  intros L u0 u1 v0 v1 num den sub M1 M2 r0 Hden Hnum Hu0 Hu1 Hv0 Hv1 Hsub HM1 HM1B HM2 HM2B.
  unfold lehmer_half. destruct (Z.eqb_spec den 0); [lia|].
  assert (0 <= num / den) as Hq by (apply Z.div_pos; lia).
  pose proof (Z.mod_pos_bound num den Hden) as Hm. rewrite Z.mod_eq in Hm by lia.
  set (q := num / den) in *.
  destruct (L <? q); [discriminate|].
  assert (0 <= q * v0) as P0 by (apply Z.mul_nonneg_nonneg; lia).
  assert (0 <= q * v1) as P1 by (apply Z.mul_nonneg_nonneg; lia).
  assert (forall z, 0 <= z -> z * den <= B - 1 -> z < B) as Small.
  { intros z Hz Hzd. assert (z * 1 <= z * den) by (apply Z.mul_le_mono_nonneg_l; lia). lia. }
  assert (u0 + q * v0 < B) as F1 by (apply Small; lia).
  assert (u1 + q * v1 < B) as F2 by (apply Small; lia).
  assert (0 <= q * den) as P2 by (apply Z.mul_nonneg_nonneg; lia).
  rewrite (fits_true (q * v0)), (fits_true (u0 + q * v0)), (fits_true (q * v1)), (fits_true (u1 + q * v1)),
    (fits_true (q * den)), (fits_true (num - q * den)) by lia.
  cbn [andb negb].
  destruct (_ || _); [discriminate|]. destruct (_ <? _); [discriminate|].
  (* t + r <= r * den *)
  assert (num - q * den + (u0 + q * v0) < B) as F3.
  { set (rr := u0 + q * v0) in *. set (t := num - q * den) in *.
    assert (0 <= (den - 1) * (rr - 1)) by (apply Z.mul_nonneg_nonneg; lia).
    replace ((den - 1) * (rr - 1)) with (rr * den - den - rr + 1) in * by ring. lia. }
  assert (den < B) as F4.
  { assert (1 * den <= (u0 + q * v0) * den) by (apply Z.mul_le_mono_nonneg_r; lia). lia. }
  rewrite (fits_true (num - q * den + (u0 + q * v0))), (fits_true (den - sub)) by lia.
  cbn [andb negb]. destruct (_ <? _); discriminate.
Qed.

Lemma gst2_init : forall L, 1 <= L -> gst2 L 1 0 0 1 xh yh.
Proof. intros L HL. unfold gst2. split; [apply ginv_init; exact HL|]. repeat split; lia. Qed.

Theorem guess_loop_no_panic : forall fuel L a b c d xb yb r,
  0 <= yb <= xb -> gst2 L a b c d xb yb -> lehmer_guess_loop fuel B L a b c d xb yb <> Panic r.
Proof.
  induction fuel as [|k IH]; intros L a b c d xb yb r0 Hybx G; [discriminate|].
  cbn [lehmer_guess_loop].
  destruct (Z.eqb_spec yb 0) as [e0|e0]; [discriminate|].
  destruct (gst2_inverse _ _ _ _ _ _ _ G) as [Ixh Iyh].
  pose proof G as [GI [Ex [Ey [Hb [Hc [Hcd [Hab Hb0]]]]]]].
  pose proof (ginv_pos _ _ _ _ _ GI) as [Pa Pd].
  pose proof GI as [Ga [Gb [Gc [Gd Gdet]]]].
  assert (0 <= xb / yb) as Hq by (apply Z.div_pos; lia).
  pose proof (Z.mod_pos_bound xb yb ltac:(lia)) as Hm. rewrite Z.mod_eq in Hm by lia.
  (* first half *)
  assert (lehmer_half B L a b c d xb yb c <> HPanic r0) as NP1.
  { apply (lehmer_half_no_panic L a b c d xb yb c yh xh); try lia.
    - assert (1 * xb <= d * xb) by (apply Z.mul_le_mono_nonneg_r; lia). assert (0 <= b * yb) by (apply Z.mul_nonneg_nonneg; lia). lia.
    - assert (c * (xb / yb * yb) <= c * xb) by (apply Z.mul_le_mono_nonneg_l; lia).
      replace ((a + xb / yb * c) * yb) with (a * yb + c * (xb / yb * yb)) by ring. lia.
    - assert (d * (xb / yb * yb) <= d * xb) by (apply Z.mul_le_mono_nonneg_l; lia).
      replace ((b + xb / yb * d) * yb) with (b * yb + d * (xb / yb * yb)) by ring. lia. }
  destruct (lehmer_half B L a b c d xb yb c) as [|?|r s t] eqn:H1; [discriminate|congruence|].
  destruct (lehmer_half_step2 _ _ _ _ _ _ _ _ _ _ _ _ H1) as [Hd [HqL [Er [Es [Et [Hr [Hs Hst]]]]]]].
  assert (1 <= xb / yb) as Hq1 by (apply Z.div_le_lower_bound; lia).
  set (q := xb / yb) in *.
  assert (0 <= q * c) by (apply Z.mul_nonneg_nonneg; lia).
  assert (1 * d <= q * d) by (apply Z.mul_le_mono_nonneg_r; lia).
  assert (q * c <= q * d) by (apply Z.mul_le_mono_nonneg_l; lia).
  assert (0 <= t < yb) as Ht by lia.
  assert (gst2 L r s c d t yb /\ 1 <= s /\ d <= s) as [G1 [Hs1 Hds]].
  { split; [|lia]. unfold gst2. split; [|split; [|split; [|split; [|split; [|split; [|split]]]]]]; [| | | | | | |lia].
    - assert (r * d - s * c = 1) as D1.
      { rewrite Er, Es. replace ((a + q * c) * d - (b + q * d) * c) with (a * d - b * c) by ring. exact Gdet. }
      unfold ginv. repeat split; first [exact D1 | lia].
    - rewrite Et, Er, Es, Ex, Ey. ring.
    - exact Ey.
    - exact Hst.
    - exact Hc.
    - exact Hcd.
    - intros _. destruct (Z.eq_dec b 0) as [eb|eb].
      + specialize (Hb0 eb). subst b c. assert (a = 1 /\ d = 1) as [-> ->].
        { rewrite Z.mul_0_l, Z.sub_0_r in Gdet. apply Z.eq_mul_1_nonneg in Gdet; lia. }
        lia.
      + specialize (Hab ltac:(lia)). lia. }
  destruct (Z.eqb_spec t s); [discriminate|].
  (* second half *)
  destruct (gst2_inverse _ _ _ _ _ _ _ G1) as [Ixh1 Iyh1].
  assert (0 < t) as Ht0 by lia.
  assert (0 <= yb / t) as Hq2 by (apply Z.div_pos; lia).
  pose proof (Z.mod_pos_bound yb t ltac:(lia)) as Hm2. rewrite Z.mod_eq in Hm2 by lia.
  assert (lehmer_half B L d c s r yb t c <> HPanic r0) as NP2.
  { assert (yb < B) as HybB.
    { assert (1 * yb <= r * yb) by (apply Z.mul_le_mono_nonneg_r; lia). assert (0 <= c * t) by (apply Z.mul_nonneg_nonneg; lia). lia. }
    apply (lehmer_half_no_panic L d c s r yb t c xh yh); try lia.
    - assert (s * (yb / t * t) <= s * yb) by (apply Z.mul_le_mono_nonneg_l; lia).
      replace ((d + yb / t * s) * t) with (d * t + s * (yb / t * t)) by ring. lia.
    - assert (r * (yb / t * t) <= r * yb) by (apply Z.mul_le_mono_nonneg_l; lia).
      replace ((c + yb / t * r) * t) with (c * t + r * (yb / t * t)) by ring. lia. }
  destruct (lehmer_half B L d c s r yb t c) as [|?|r2 s2 t2] eqn:HH2; [discriminate|congruence|].
  destruct (lehmer_half_step2 _ _ _ _ _ _ _ _ _ _ _ _ HH2) as [Hd2 [HqL2 [Er2 [Es2 [Et2 [Hr2 [Hs2 Hst2]]]]]]].
  set (q2 := yb / t) in *.
  destruct G1 as [GI1 [Ex1 [Ey1 [Hb1 [Hc1 [Hcd1 [Hab1 _]]]]]]]. specialize (Hab1 Hs1).
  pose proof GI1 as [Ga1 [Gb1 [_ [_ Gdet1]]]].
  destruct (Z.eqb_spec t2 s2); [discriminate|].
  apply IH; [lia|].
  assert (0 <= q2 * s) by (apply Z.mul_nonneg_nonneg; lia).
  assert (0 <= q2 * r) by (apply Z.mul_nonneg_nonneg; lia).
  assert (q2 * r <= q2 * s) by (apply Z.mul_le_mono_nonneg_l; lia).
  unfold gst2. split; [|split; [|split; [|split; [|split; [|split; [|split]]]]]]; [| | | | | | |lia].
  - assert (r * r2 - s * s2 = 1) as D2.
    { rewrite Er2, Es2. replace (r * (d + q2 * s) - s * (c + q2 * r)) with (r * d - s * c) by ring. exact Gdet1. }
    unfold ginv. repeat split; first [exact D2 | lia].
  - exact Ex1.
  - rewrite Et2, Er2, Es2, Ex1, Ey1. ring.
  - exact Hb1.
  - exact Hst2.
  - lia.
  - intros _. exact Hab1.
Qed.
End NoOverflow.

(** lehmer_guess and lehmer_guess_dword never panic on ordered leading bits of their type *)
Theorem lehmer_guess_no_panic : forall w xb yb r, 2 <= w -> 0 <= yb <= xb -> xb < 2 ^ w ->
  lehmer_guess w xb yb <> Panic r.
Proof.
  intros w xb yb r Hw Hyx HB. unfold lehmer_guess. destruct (Z.ltb_spec xb yb); [lia|].
  apply (guess_loop_no_panic xb yb (2 ^ w) HB Hyx _ _ _ _ _ _ _ _ _ Hyx).
  apply gst2_init; try lia. apply coeff_limit_facts; exact Hw.
Qed.

Theorem lehmer_guess_dword_no_panic : forall w xb yb r, 2 <= w -> 0 <= yb <= xb -> xb < 2 ^ (2 * w) ->
  lehmer_guess_dword w xb yb <> Panic r.
Proof.
  intros w xb yb r Hw Hyx HB. unfold lehmer_guess_dword. destruct (Z.ltb_spec xb yb); [lia|].
  assert (gst2 xb yb (coeff_limit w) 1 0 0 1 xb yb) as G0 by (apply gst2_init; try lia; apply coeff_limit_facts; exact Hw).
  pose proof (guess_loop_no_panic xb yb (2 ^ (2 * w)) HB Hyx (guess_fuel w) (coeff_limit w) 1 0 0 1 xb yb r Hyx G0) as NP.
  destruct (lehmer_guess_loop _ _ _ 1 0 0 1 xb yb) as [[[[a0 b0] c0] d0]|?|?|]; cbn [rbind]; try discriminate. congruence.
Qed.
