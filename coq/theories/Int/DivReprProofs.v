(** C02 - div_ops.rs::repr: the dispatch of DivRem / Div over operand sizes (two-word primitives,
    division by a word, by a double word, by a multi-word divisor through normalisation and the
    division kernel) computes the floor quotient and remainder of the magnitudes.  Relative to the
    contracts of num-modular's reciprocal division and of the multiplication kernel; any word size. *)
From Dashu Require Import Base.Prelude Base.Words Int.DivWordModel Int.DivWordProofs Int.DivSimpleProofs
  Int.DivLargeProofs Int.DivDCProofs.
Open Scope Z_scope.

Section DivRepr.
Variable w : Z.
Hypothesis w_pos : 0 < w.
Notation B := (Words.B w).
Notation value := (Words.value w).
Notation wf := (Words.wf w).

Local Lemma Bpos : 0 < B. Proof. apply B_pos; lia. Qed.
Local Notation Bpow_pos := (DivWordProofs.Bpow_pos w w_pos).
Local Notation value_lt := (DivSimpleProofs.value_lt w w_pos).
Local Notation value_split := (DivSimpleProofs.value_split w).
Local Notation wf_firstn := (DivSimpleProofs.wf_firstn w).
Local Notation wf_skipn := (DivSimpleProofs.wf_skipn w).

(** *** words_of: the normalised word list of a magnitude *)
Lemma B_pow_2 k : 0 <= k -> B ^ k = 2 ^ (w * k).
Proof. intros. unfold Words.B. rewrite <- Z.pow_mul_r by lia. reflexivity. Qed.

Lemma nwords_spec v : 0 < v ->
  (1 <= nwords w v)%nat /\ B ^ (Z.of_nat (nwords w v) - 1) <= v < B ^ Z.of_nat (nwords w v).
Proof.
  intros Hv. unfold nwords. destruct (Z.leb_spec v 0); [lia|].
  pose proof (Z.log2_spec v Hv) as [L1 L2]. pose proof (Z.log2_nonneg v) as L0.
  set (k := Z.log2 v / w). assert (0 <= k) by (apply Z.div_pos; lia).
  pose proof (Z.mul_div_le (Z.log2 v) w w_pos) as H1. fold k in H1.
  pose proof (Z.mul_succ_div_gt (Z.log2 v) w w_pos) as H2. fold k in H2.
  rewrite Z2Nat.id by lia. replace (k + 1 - 1) with k by lia.
  rewrite !B_pow_2 by lia. split; [lia|]. split.
  - apply Z.le_trans with (2 ^ Z.log2 v); [apply Z.pow_le_mono_r; lia | exact L1].
  - apply Z.lt_le_trans with (2 ^ Z.succ (Z.log2 v)); [exact L2 | apply Z.pow_le_mono_r; lia].
Qed.

Lemma words_of_spec v : 0 <= v ->
  wf (words_of w v) /\ value (words_of w v) = v /\ length (words_of w v) = nwords w v.
Proof.
  intros Hv. unfold words_of. split; [apply to_words_wf; lia|]. split; [|apply to_words_length].
  apply value_to_words; [lia|]. destruct (Z.eq_dec v 0) as [->|Hne].
  - unfold nwords. cbn. lia.
  - pose proof (nwords_spec v ltac:(lia)). lia.
Qed.

Lemma words_of_top v : 0 < v -> 0 < highest_word w (words_of w v).
Proof.
  intros Hv. destruct (words_of_spec v ltac:(lia)) as (Hwf & Hval & Hlen).
  destruct (nwords_spec v Hv) as (Hn1 & Hlo & Hhi). pose proof Bpos as HB.
  unfold highest_word, top_words. set (ws := words_of w v) in *. rewrite Hlen. set (n := nwords w v) in *.
  pose proof (value_split (n - 1) ws ltac:(lia)) as Hsp. rewrite Hval in Hsp.
  pose proof (value_lt (firstn (n - 1) ws) (wf_firstn _ _ Hwf)) as Hf. unfold len in Hf. rewrite firstn_length_le in Hf by lia.
  replace (Z.of_nat (n - 1)) with (Z.of_nat n - 1) in * by lia.
  pose proof (Bpow_pos (Z.of_nat n - 1) ltac:(lia)). nia.
Qed.

Lemma nwords_lt a b : 0 < a -> 0 < b -> (nwords w a < nwords w b)%nat -> a < b.
Proof.
  intros Ha Hb Hlt. destruct (nwords_spec a Ha) as (_ & _ & Hahi). destruct (nwords_spec b Hb) as (_ & Hblo & _).
  assert (B ^ Z.of_nat (nwords w a) <= B ^ (Z.of_nat (nwords w b) - 1)) by (apply Z.pow_le_mono_r; [apply Bpos | lia]).
  lia.
Qed.

Lemma nwords_ge3 b : B * B <= b -> (3 <= nwords w b)%nat.
Proof.
  intros Hb. pose proof Bpos as HB. destruct (nwords_spec b ltac:(nia)) as (_ & _ & Hhi).
  destruct (le_lt_dec 3 (nwords w b)) as [|Hlt]; [assumption | exfalso].
  assert (B ^ Z.of_nat (nwords w b) <= B ^ 2) by (apply Z.pow_le_mono_r; lia).
  replace (B ^ 2) with (B * B) in * by ring. lia.
Qed.

Variable div2by1 : Z -> Z -> Z * Z.
Variable div3by2 : Z -> Z -> Z -> Z * Z.
Variable div4by2 : Z -> Z -> Z -> Z * Z.
Hypothesis div2by1_ok : forall d a, norm1 w d -> 0 <= a < d * B -> div2by1 d a = (a / d, a mod d).
Hypothesis div3by2_ok : forall d lo hi, norm2 w d -> 0 <= lo < B -> 0 <= hi < d ->
  div3by2 d lo hi = ((lo + B * hi) / d, (lo + B * hi) mod d).
Hypothesis div4by2_ok : forall d lo hi, norm2 w d -> 0 <= lo < B * B -> 0 <= hi < d ->
  div4by2 d lo hi = ((lo + B * B * hi) / d, (lo + B * B * hi) mod d).
Variable mul_sub : list Z -> list Z -> list Z -> list Z * Z.
Hypothesis mul_sub_ok : forall c a b c' k, wf c -> wf a -> wf b -> length c = (length a + length b)%nat ->
  mul_sub c a b = (c', k) ->
  wf c' /\ length c' = length c /\ value c' + B ^ len c * k = value c - value a * value b.
Variable T : nat.
Hypothesis T_ge : (2 <= T)%nat.

(** div_rem_large on normalised word lists, every algorithm behind the switch *)
Theorem div_rem_large_sound fuel lhs rhs q r :
  wf lhs -> wf rhs -> (2 <= length rhs)%nat -> (length rhs <= length lhs)%nat -> 0 < highest_word w rhs ->
  div_rem_large w div3by2 mul_sub T fuel lhs rhs = Ok (q, r) ->
  value q = value lhs / value rhs /\ value r = value lhs mod value rhs /\
  wf q /\ wf r /\ length r = length rhs /\ length q = (length lhs - length rhs + 1)%nat.
Proof.
  intros Hwl Hwr Hn2 Hnl Htop E.
  destruct (div_rem_large_reduce w w_pos div3by2 div3by2_ok mul_sub T fuel lhs rhs Hwl Hwr Hn2 Hnl Htop)
    as (lhs2 & rhs1 & Hpre & _ & _ & _ & Hsound).
  apply Hsound; [|exact E]. intros res c E'.
  exact (div_rem_in_place_sound w w_pos div3by2 div3by2_ok mul_sub mul_sub_ok T T_ge fuel lhs2 rhs1 res c Hpre E').
Qed.

(** DivRem for TypedRepr: whatever the dispatch returns is the floor quotient and the remainder *)
Theorem repr_div_rem_sound a b q r : 0 <= a -> 0 < b ->
  repr_div_rem w div2by1 div3by2 div4by2 mul_sub T a b = Ok (q, r) -> q = a / b /\ r = a mod b.
Proof.
  intros Ha Hb E. pose proof Bpos as HB. unfold repr_div_rem in E.
  destruct (Z.eqb_spec b 0) as [|_]; [lia|].
  destruct (Z.ltb_spec a (B * B)) as [Hsa|Hla].
  { destruct (Z.ltb_spec b (B * B)); inversion E; subst; [split; reflexivity|].
    split; [symmetry; apply Z.div_small; lia | symmetry; apply Z.mod_small; lia]. }
  destruct (words_of_spec a Ha) as (Hwa & Hva & Hla').
  pose proof (nwords_ge3 a Hla) as Hna.
  destruct (Z.ltb_spec b B) as [Hb1|Hb1].
  { destruct (div_by_word w div2by1 (words_of w a) b) as [qw rw] eqn:E1. inversion E; subst q r; clear E.
    destruct (div_by_word_correct w w_pos div2by1 div2by1_ok (words_of w a) b Hwa ltac:(lia) _ _ E1) as (Hq & Hr & _).
    rewrite Hva in *. split; assumption. }
  destruct (Z.ltb_spec b (B * B)) as [Hb2|Hb2].
  { destruct (div_by_dword w div3by2 div4by2 (words_of w a) b) as [qw rw] eqn:E1. inversion E; subst q r; clear E.
    destruct (div_by_dword_correct w w_pos div3by2 div4by2 div3by2_ok div4by2_ok (words_of w a) b Hwa ltac:(lia) ltac:(lia) _ _ E1)
      as (Hq & Hr & _).
    rewrite Hva in *. split; assumption. }
  destruct (words_of_spec b ltac:(lia)) as (Hwb & Hvb & Hlb').
  pose proof (nwords_ge3 b Hb2) as Hnb.
  destruct (Nat.leb_spec (length (words_of w b)) (length (words_of w a))) as [Hle|Hgt].
  - destruct (div_rem_large w div3by2 mul_sub T (fuel_for (words_of w a)) (words_of w a) (words_of w b)) as [[ql rl]| | |] eqn:E1;
      cbn [rbind] in E; try discriminate.
    inversion E; subst q r; clear E.
    destruct (div_rem_large_sound _ _ _ _ _ Hwa Hwb ltac:(lia) Hle (words_of_top b Hb) E1) as (Hq & Hr & _).
    rewrite Hva, Hvb in *. split; assumption.
  - inversion E; subst q r; clear E.
    assert (a < b) by (apply nwords_lt; lia).
    split; [symmetry; apply Z.div_small; lia | symmetry; apply Z.mod_small; lia].
Qed.

Theorem repr_div_rem_zero a : repr_div_rem w div2by1 div3by2 div4by2 mul_sub T a 0 = Panic DivideBy0.
Proof. reflexivity. Qed.

Corollary repr_div_sound a b q : 0 <= a -> 0 < b ->
  repr_div w div2by1 div3by2 div4by2 mul_sub T a b = Ok q -> q = a / b.
Proof.
  intros Ha Hb E. unfold repr_div in E.
  destruct (repr_div_rem w div2by1 div3by2 div4by2 mul_sub T a b) as [[q' r']| | |] eqn:E1; cbn [rbind fst] in E; try discriminate.
  inversion E; subst. apply (repr_div_rem_sound a b q r' Ha Hb E1).
Qed.

End DivRepr.
