(** C09 (round 5, part 2): the remaining typed dispatch bodies of bits.rs `impl TypedReprRef` as REGENERATED
    (is_power_of_two, trailing_zeros, trailing_ones, count_ones, count_zeros, trailing_ones_neg; the literal patterns
    RefSmall(0) / RefSmall(1) as an if-chain, every `as usize` of a u32 count as an explicit truncation) are equal to the
    hand-written models of Int/BitsKernels.v for every magnitude that satisfies the representation invariant. *)
From Dashu Require Import Base.Prelude Base.Words Int.BitsSpec Int.BitsWords Int.BitsKernels Int.BitsKernelsBase Int.BitsCountProofs
  Int.BitsTrailProofs Int.BitsBodiesPrims Int.BitsBodiesGenProof.
From DashuGen Require Import BitsBodiesGen.
Import ListNotations.
Open Scope Z_scope.

Lemma pop_pos_le_size p : pop_pos p <= Zpos (Pos.size p).
Proof. induction p; cbn [pop_pos Pos.size]; rewrite ?Pos2Z.inj_succ; lia. Qed.
Lemma pop_le_bit_len d : 0 <= d -> count_ones_spec d <= bit_len_spec d.
Proof.
  intros Hd. destruct d as [|p|p]; [cbn; lia| |lia]. unfold bit_len_spec, count_ones_spec.
  change (Zpos p =? 0) with false. cbv iota. rewrite Z.abs_eq by lia. pose proof (pop_pos_le_size p).
  destruct p; cbn [Z.log2 Pos.size] in *; rewrite ?Pos2Z.inj_succ in *; lia.
Qed.
Lemma tz_opp a : trailing_zeros_spec (- a) = trailing_zeros_spec a.
Proof. destruct a; reflexivity. Qed.

Section BodiesGen2.
Variable w uw : Z.
Hypothesis Hw : 0 < w.
Hypothesis H32 : 2 * w < 2 ^ 32.
Hypothesis Huw : 2 * w < 2 ^ uw.
Notation B := (B w).

Lemma B2w : Words.B (2 * w) = B * B.
Proof. unfold Words.B. rewrite <- Z.pow_add_r by lia. f_equal. lia. Qed.

Lemma dword_tz_spec d : 0 < d < B * B -> trailing_zeros_spec d = Some (dword_tz w d) /\ 0 <= dword_tz w d < 2 * w.
Proof.
  intros Hd. rewrite <- B2w in Hd. destruct (word_tz_spec (2 * w) d Hd) as (R & _).
  split; [|exact R]. unfold dword_tz, word_tz. destruct (trailing_zeros_spec d) eqn:E; [reflexivity|].
  apply trailing_zeros_spec_none in E. lia.
Qed.

Lemma dword_to_spec x : 0 <= x < B * B -> trailing_ones_spec x = Some (dword_to w x) /\ 0 <= dword_to w x <= 2 * w.
Proof.
  intros Hx. unfold dword_to, word_to. rewrite B2w. set (c := B * B - 1 - x).
  assert (EB : B * B = 2 ^ (2 * w)) by (rewrite <- B2w; reflexivity).
  destruct (Z.eq_dec c 0) as [C0|C0].
  - rewrite C0. unfold word_tz. cbn [trailing_zeros_spec]. split; [|lia].
    unfold trailing_ones_spec. replace (Z.lnot x) with (- 2 ^ (2 * w)) by (unfold Z.lnot, c in *; lia).
    rewrite tz_opp. apply tz_char; [lia|apply Z.pow2_bits_true; lia|intros i Hi; apply Z.pow2_bits_false; lia].
  - assert (Hc : 0 < c < B * B) by (unfold c in *; lia).
    destruct (dword_tz_spec c Hc) as (E & R). unfold dword_tz in *. split; [|lia].
    rewrite <- E. unfold trailing_ones_spec. replace (Z.lnot x) with (c + (-1) * 2 ^ (2 * w)) by (unfold Z.lnot, c; lia).
    apply tz_mod_pow2; lia.
Qed.

Lemma last_word_range ws : brepr_ok w (BLarge ws) -> 0 < last ws 0 < B.
Proof.
  intros (Hwf & L & Hl). assert (Hne : ws <> []) by (destruct ws; [cbn in L; lia|discriminate]).
  destruct (exists_last Hne) as [a [x E]]. rewrite E, last_last in *.
  assert (In x (a ++ [x])) by (apply in_or_app; right; left; reflexivity).
  pose proof (proj1 (Forall_forall _ _) Hwf _ H) as X. cbv beta in X. lia.
Qed.
Lemma last_word_lz_range ws : brepr_ok w (BLarge ws) -> 0 <= word_lz w (last ws 0) <= 2 * w.
Proof.
  intros Hr. pose proof (last_word_range ws Hr) as R. assert (HB : 0 < B) by (unfold Words.B; apply Z.pow_pos_nonneg; lia).
  assert (R2 : 0 < last ws 0 < B * B).
  { assert (B * 1 <= B * B) by (apply Z.mul_le_mono_nonneg_l; lia). lia. }
  destruct (dword_bit_len w uw Hw _ R2) as [[L1 _] U]. unfold word_lz.
  assert (bit_len_spec (last ws 0) <= w).
  { destruct (Z_lt_le_dec w (bit_len_spec (last ws 0))) as [G|G]; [|exact G]. exfalso.
    pose proof (bit_len_spec_ok (last ws 0) ltac:(lia)) as [Lo _]. rewrite Z.abs_eq in Lo by lia.
    assert (2 ^ w <= 2 ^ (bit_len_spec (last ws 0) - 1)) by (apply Z.pow_le_mono_r; lia).
    unfold Words.B in R. lia. }
  lia.
Qed.

Theorem ref_is_power_of_two_gen_ok r : ref_is_power_of_two_gen w uw r = repr_is_power_of_two r.
Proof.
  destruct r as [d|ws]; cbn [ref_is_power_of_two_gen repr_is_power_of_two]; [reflexivity|].
  rewrite removelast_firstn_len. unfold len. replace (Z.to_nat (Z.of_nat (length ws) - 1)) with (pred (length ws)) by lia.
  reflexivity.
Qed.

Theorem ref_trailing_zeros_gen_ok r : brepr_ok w r -> ref_trailing_zeros_gen w uw r = repr_trailing_zeros w r.
Proof.
  intros Hr. destruct r as [d|ws]; cbn [ref_trailing_zeros_gen repr_trailing_zeros brepr_ok] in *; [|reflexivity].
  destruct (Z.eqb_spec d 0) as [->|N]; [reflexivity|].
  destruct (dword_tz_spec d ltac:(lia)) as (E & R). rewrite E, (cast_usize_small w uw) by lia. reflexivity.
Qed.

Theorem ref_trailing_ones_gen_ok r : brepr_ok w r -> ref_trailing_ones_gen w uw r = repr_trailing_ones w r.
Proof.
  intros Hr. destruct r as [d|ws]; cbn [ref_trailing_ones_gen repr_trailing_ones brepr_ok] in *; [|reflexivity].
  destruct (dword_to_spec d Hr) as (E & R). rewrite E, (cast_usize_small w uw) by lia. reflexivity.
Qed.

Theorem ref_trailing_ones_neg_gen_ok r : ref_trailing_ones_neg_gen w uw r = repr_trailing_ones_neg w r.
Proof.
  destruct r as [d|ws]; cbn [ref_trailing_ones_neg_gen repr_trailing_ones_neg]; [|reflexivity].
  destruct (d =? 0); [reflexivity|]. destruct (d =? 1); [reflexivity|].
  assert (HB : 0 < B) by (unfold Words.B; apply Z.pow_pos_nonneg; lia).
  assert (HBB : 0 < B * B) by (apply Z.mul_pos_pos; lia).
  destruct (dword_to_spec ((dword_not w d + 1) mod (B * B)) (Z.mod_pos_bound _ _ HBB)) as (E & R).
  rewrite E, (cast_usize_small w uw) by lia. reflexivity.
Qed.

Theorem ref_count_ones_gen_ok r : brepr_ok w r -> ref_count_ones_gen w uw r = repr_count_ones r.
Proof.
  intros Hr. destruct r as [d|ws]; cbn [ref_count_ones_gen repr_count_ones brepr_ok] in *; [|reflexivity].
  apply (cast_usize_small w uw Huw). pose proof (pop_nonneg d). pose proof (pop_le_bit_len d ltac:(lia)).
  destruct (Z.eq_dec d 0) as [->|N]; [change (count_ones_spec 0) with 0; lia|].
  assert (Hd : 0 < d < B * B) by lia. destruct (dword_bit_len w uw Hw d Hd) as [[_ U] _]. lia.
Qed.

Theorem ref_count_zeros_gen_ok r : brepr_ok w r -> ref_count_zeros_gen w uw r = repr_count_zeros w r.
Proof.
  intros Hr. destruct r as [d|ws]; cbn [ref_count_zeros_gen repr_count_zeros].
  - cbn [brepr_ok] in Hr. destruct (Z.eqb_spec d 0) as [->|N]; [reflexivity|]. f_equal.
    apply (cast_usize_small w uw Huw). pose proof (pop_nonneg d). pose proof (pop_le_bit_len d ltac:(lia)).
    assert (Hd : 0 < d < B * B) by lia. destruct (dword_bit_len w uw Hw d Hd) as [[L U] _]. unfold dword_lz. lia.
  - rewrite (cast_usize_small w uw Huw) by (apply last_word_lz_range; exact Hr). reflexivity.
Qed.
End BodiesGen2.

Theorem gen_ref_bodies2 w uw : widths_ok w uw ->
  (forall r, ref_is_power_of_two_gen w uw r = repr_is_power_of_two r) /\
  (forall r, brepr_ok w r -> ref_trailing_zeros_gen w uw r = repr_trailing_zeros w r) /\
  (forall r, brepr_ok w r -> ref_trailing_ones_gen w uw r = repr_trailing_ones w r) /\
  (forall r, ref_trailing_ones_neg_gen w uw r = repr_trailing_ones_neg w r) /\
  (forall r, brepr_ok w r -> ref_count_ones_gen w uw r = repr_count_ones r) /\
  (forall r, brepr_ok w r -> ref_count_zeros_gen w uw r = repr_count_zeros w r).
Proof.
  intros (Hw & H32 & Huw). repeat apply conj.
  - apply ref_is_power_of_two_gen_ok.
  - apply ref_trailing_zeros_gen_ok; assumption.
  - apply ref_trailing_ones_gen_ok; assumption.
  - apply ref_trailing_ones_neg_gen_ok; assumption.
  - apply ref_count_ones_gen_ok; assumption.
  - apply ref_count_zeros_gen_ok; assumption.
Qed.
Example gen_ref_bodies2_nonvacuous : widths_ok 32 64 /\ brepr_ok 32 (BSmall 12). Proof. split; [exact widths_ok_32|]. cbn. unfold Words.B. lia. Qed.
