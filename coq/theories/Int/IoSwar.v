(** C07: arch/generic/digits.rs digit_chunk_raw_to_ascii - the SWAR conversion of WORD_BYTES raw
    digits to ASCII inside one machine word (add a bias so that bit 7 of each byte says "digit >= 10",
    shift/mask it down to one flag per byte, multiply by the letter offset, add '0' to every byte) -
    is, for EVERY chunk length (word size) and every letter offset that keeps the bytes below 256,
    the byte-wise map digit -> '0' + digit (+ offset for digits >= 10): no carry ever crosses a byte.
    The constants (0xff, 0x76, 7, b'0', DigitCase offsets) are the regenerated ones of coq/gen/IoTables.v. *)
From Dashu Require Import Base.Prelude Base.Words Int.IoSpec Int.IoBytes Int.BitsKernelsBase Int.BitsLogicProofs.
From DashuGen Require Import IoTables.
Open Scope Z_scope.

(** [n] = DIGIT_CHUNK_LEN = WORD_BYTES; Word::from_ne_bytes / to_ne_bytes are inverse to each other,
    so the byte order is immaterial: little endian here; [case_off] = digit_case as Word *)
Definition swar_chunk (n : nat) (case_off : Z) (digits : list Z) : list Z :=
  let word := le_value digits in
  let all_ones := (256 ^ Z.of_nat n - 1) / gen_swar_ones_div in
  let word1 :=
    if case_off =? 0 then word
    else let letters := Z.land (Z.shiftr (gen_swar_bias * all_ones + word) gen_swar_shift) all_ones in
         word + letters * case_off in
  le_bytes_n n (word1 + all_ones * gen_swar_zero).

Definition ones_of (ds : list Z) : Z := le_value (map (fun _ => 1) ds).

Lemma ones_of_255 ds : 255 * ones_of ds = 256 ^ len ds - 1.
Proof.
  unfold ones_of. induction ds as [|d t IH]; [reflexivity|]. cbn [map le_value].
  unfold len in *. cbn [length]. rewrite Nat2Z.inj_succ, Z.pow_succ_r by lia. lia.
Qed.

Lemma all_ones_of ds : (256 ^ len ds - 1) / gen_swar_ones_div = ones_of ds.
Proof. rewrite <- ones_of_255. unfold gen_swar_ones_div. rewrite Z.mul_comm. apply Z.div_mul. lia. Qed.

Lemma le_value_linear (f g : Z -> Z) k ds :
  le_value (map f ds) + k * le_value (map g ds) = le_value (map (fun d => f d + k * g d) ds).
Proof. induction ds as [|d t IH]; cbn [map le_value]; [lia | rewrite <- IH; ring]. Qed.

Lemma land_split8 x y u v : 0 <= x < 256 -> 0 <= y < 256 ->
  Z.land (x + 256 * u) (y + 256 * v) = Z.land x y + 256 * Z.land u v.
Proof. exact (op_split 8 ltac:(lia) Z.land andb land_spec' eq_refl land_nn x y u v). Qed.

(** one flag per byte: bit 7 of every byte, shifted down and masked, without crossing bytes *)
Lemma top_bits xs : bytes_ok xs ->
  Z.land (Z.shiftr (le_value xs) 7) (ones_of xs) = le_value (map (fun x => x / 128) xs).
Proof.
  unfold ones_of. induction xs as [|x t IH]; intros H; [reflexivity|].
  inversion H as [|? ? Hx Ht]; subst. specialize (IH Ht). cbn [map le_value].
  rewrite Z.shiftr_div_pow2 in * by lia. change (2 ^ 7) with 128 in *.
  set (V := le_value t) in *. set (O := le_value (map (fun _ => 1) t)) in *.
  pose proof (le_value_bounds t Ht) as [HV _]. fold V in HV.
  replace (x + 256 * V) with (x + (2 * V) * 128) by ring. rewrite Z.div_add by lia.
  pose proof (Z.div_mod V 128 ltac:(lia)) as HdV. pose proof (Z.mod_pos_bound V 128 ltac:(lia)) as HmV.
  assert (Hx128 : 0 <= x / 128 <= 1).
  { split; [apply Z.div_pos; lia|]. assert (x / 128 < 2) by (apply Z.div_lt_upper_bound; lia). lia. }
  replace (x / 128 + 2 * V) with ((x / 128 + 2 * (V mod 128)) + 256 * (V / 128)) by lia.
  replace 1 with (1 + 256 * 0) at 3 by lia. replace (1 + 256 * 0 + 256 * O) with (1 + 256 * O) by lia.
  rewrite land_split8 by lia. rewrite IH. f_equal.
  change 1 with (Z.ones 1). rewrite Z.land_ones by lia. change (2 ^ 1) with 2.
  replace (x / 128 + 2 * (V mod 128)) with (x / 128 + (V mod 128) * 2) by ring.
  rewrite Z.mod_add by lia. apply Z.mod_small. lia.
Qed.

Theorem swar_chunk_correct n off ds : length ds = n -> Forall (fun d => 0 <= d < 36) ds -> 0 <= off <= 172 ->
  swar_chunk n off ds = map (fun d => gen_swar_zero + d + (if d <? 10 then 0 else off)) ds.
Proof.
  intros Hn Hds Hoff. unfold swar_chunk.
  replace (Z.of_nat n) with (len ds) by (unfold len; lia). rewrite all_ones_of.
  unfold gen_swar_bias, gen_swar_shift, gen_swar_zero.
  assert (Ew : le_value ds = le_value (map (fun d => d) ds)) by (rewrite map_id; reflexivity).
  set (flag := fun d : Z => (118 + d) / 128).
  assert (Hletters : Z.land (Z.shiftr (118 * ones_of ds + le_value ds) 7) (ones_of ds) = le_value (map flag ds)).
  { unfold ones_of at 1. rewrite Ew, Z.add_comm, le_value_linear.
    assert (Hok : bytes_ok (map (fun d => d + 118 * 1) ds)).
    { unfold bytes_ok. rewrite Forall_map. eapply Forall_impl; [|exact Hds]. cbn beta. intros; lia. }
    replace (ones_of ds) with (ones_of (map (fun d => d + 118 * 1) ds)) by (unfold ones_of; rewrite map_map; reflexivity).
    rewrite (top_bits _ Hok), map_map. f_equal. apply map_ext. intros d. unfold flag. f_equal. lia. }
  assert (Hword1 : (if off =? 0 then le_value ds
                    else le_value ds + Z.land (Z.shiftr (118 * ones_of ds + le_value ds) 7) (ones_of ds) * off)
                   = le_value (map (fun d => d + off * flag d) ds)).
  { rewrite Hletters. destruct (Z.eqb_spec off 0) as [->|NZ].
    - rewrite Ew at 1. f_equal. apply map_ext. intros; lia.
    - rewrite Ew at 1. rewrite (Z.mul_comm _ off). apply le_value_linear. }
  rewrite Hword1. unfold ones_of. rewrite (Z.mul_comm _ 48), le_value_linear.
  rewrite <- Hn. rewrite <- (map_length (fun d => d + off * flag d + 48 * 1) ds).
  assert (Hfl : forall d, 0 <= d < 36 -> flag d = if d <? 10 then 0 else 1).
  { intros d Hd. unfold flag. destruct (Z.ltb_spec d 10).
    - apply Z.div_small. lia.
    - symmetry. apply Z.div_unique with (118 + d - 128); lia. }
  rewrite le_bytes_of_value.
  - apply map_ext_in. intros d Hin. rewrite Forall_forall in Hds. rewrite (Hfl d (Hds d Hin)). destruct (d <? 10); lia.
  - unfold bytes_ok. rewrite Forall_map. rewrite Forall_forall in *. intros d Hin. specialize (Hds d Hin).
    rewrite (Hfl d Hds). destruct (d <? 10); lia.
Qed.

(** with the DigitCase offsets of radix.rs: the characters the specification prints *)
Corollary swar_chunk_digit_char n (upper : bool) ds : length ds = n -> Forall (fun d => 0 <= d < 36) ds ->
  swar_chunk n (if upper then gen_case_upper else gen_case_lower) ds = map (digit_char upper) ds.
Proof.
  intros Hn Hds. rewrite swar_chunk_correct; [|exact Hn | exact Hds | destruct upper; unfold gen_case_upper, gen_case_lower; lia].
  apply map_ext. intros d. unfold digit_char, gen_swar_zero, gen_case_upper, gen_case_lower. destruct (d <? 10); destruct upper; lia.
Qed.

(** DigitCase::NoLetters (decimal and below): no letter pass at all *)
Corollary swar_chunk_no_letters n ds : length ds = n -> Forall (fun d => 0 <= d < 10) ds ->
  swar_chunk n 0 ds = map (digit_char false) ds.
Proof.
  intros Hn Hds. rewrite swar_chunk_correct; [|exact Hn | eapply Forall_impl; [|exact Hds]; cbn beta; intros; lia | lia].
  apply map_ext_in. intros d Hin. rewrite Forall_forall in Hds. specialize (Hds d Hin).
  unfold digit_char, gen_swar_zero. destruct (Z.ltb_spec d 10); lia.
Qed.

Example swar_chunk_ex : swar_chunk 8 gen_case_lower [0; 9; 10; 35; 15; 1; 0; 0] = [48; 57; 97; 122; 102; 49; 48; 48].
Proof. vm_compute. reflexivity. Qed.
