(** C17 - proofs about the storage machine of StorageModel.v: for every word size w and every
    MAX_CAPACITY >= 8.  Part 1: ghost heap ownership, weakest-precondition rules, buffer.rs, repr.rs. *)
From Dashu Require Import Base.Prelude Base.Words Int.StorageModel.
From Coq Require Import Permutation.
Open Scope Z_scope.

(** the blocks in [bl] are exactly the live blocks of [m], each once; ids at or above [next] are fresh *)
Definition Own (bl : list (Z * Z)) (m : mem) : Prop :=
  NoDup (map fst bl) /\ (forall p c, blk m p = Some c <-> In (p, c) bl) /\ (forall p, next m <= p -> blk m p = None).

(** an outcome is acceptable when it is a result satisfying Q, or one of the two "value too large for
    the address space" outcomes (the documented AllocateTooMuch panic / the debug assertion
    num_words <= MAX_CAPACITY).  Every other guard failure, double free, size mismatch is excluded. *)
Definition safe {A} (c : M_ A) (m : mem) (Q : A -> mem -> Prop) : Prop :=
  match c m with
  | Ok (a, m') => Q a m'
  | Err e => e = 12
  | Panic r => r = AllocateTooMuch
  | OutOfFuel => False
  end.

Lemma Own_perm bl bl' m : Permutation bl bl' -> Own bl m -> Own bl' m.
Proof.
  intros P (N & I & F). split; [|split]; auto.
  - eapply Permutation_NoDup; [apply Permutation_map; exact P | exact N].
  - intros p c. rewrite I. split; intros H; [eapply Permutation_in; eauto | eapply Permutation_in; [apply Permutation_sym; exact P | exact H]].
Qed.

Lemma Own_alloc bl m cap nl nw :
  Own bl m -> Own ((next m, cap) :: bl) (mkmem (upd (blk m) (next m) (Some cap)) (next m + 1) nl nw).
Proof.
  intros (N & I & F). split; [|split]; cbn [map fst blk next].
  - constructor; [|exact N]. intros H. apply in_map_iff in H. destruct H as ((p & c) & E & H). cbn in E. subst p.
    apply I in H. rewrite F in H by lia. discriminate.
  - intros p c. unfold upd. destruct (Z.eqb_spec p (next m)) as [->|Hne].
    + split; [intros E; injection E as <-; left; reflexivity|].
      intros [E|H]; [injection E as <-; reflexivity|]. apply I in H. rewrite F in H by lia. discriminate.
    + rewrite I. split; [right; assumption|]. intros [E|H]; [injection E as E1 E2; congruence | assumption].
  - intros p Hp. unfold upd. destruct (Z.eqb_spec p (next m)); [lia|]. apply F. lia.
Qed.

Lemma Own_dealloc p c bl m nl nw :
  Own ((p, c) :: bl) m -> blk m p = Some c /\ Own bl (mkmem (upd (blk m) p None) (next m) nl nw).
Proof.
  intros (N & I & F). cbn [map fst] in N. inversion N as [|? ? Hnot N']; subst.
  split; [apply I; left; reflexivity|]. split; [|split]; cbn [blk next]; auto.
  - intros q d. unfold upd. destruct (Z.eqb_spec q p) as [->|Hne].
    + split; [discriminate|]. intros H. exfalso. apply Hnot. apply in_map_iff. exists (p, d). split; [reflexivity | assumption].
    + rewrite I. split; [intros [E|H]; [injection E as E1 E2; congruence | assumption] | right; assumption].
  - intros q Hq. unfold upd. destruct (Z.eqb_spec q p); [reflexivity | apply F; assumption].
Qed.

Lemma safe_ret {A} (a : A) m (Q : A -> mem -> Prop) : Q a m -> safe (ret a) m Q.
Proof. intros H. exact H. Qed.

Lemma safe_bind {A B} (c : M_ A) (f : A -> M_ B) m (Q : B -> mem -> Prop) :
  safe c m (fun a m' => safe (f a) m' Q) -> safe (bind c f) m Q.
Proof. unfold safe, bind. destruct (c m) as [[a m']| | |]; auto. Qed.

Lemma safe_mono {A} (c : M_ A) m (Q Q' : A -> mem -> Prop) :
  safe c m Q -> (forall a m', Q a m' -> Q' a m') -> safe c m Q'.
Proof. unfold safe. destruct (c m) as [[a m']| | |]; auto. Qed.

Lemma safe_guard k (c : bool) m (Q : unit -> mem -> Prop) : c = true -> Q tt m -> safe (guard k c) m Q.
Proof. intros -> H. exact H. Qed.

Lemma safe_guard12 (c : bool) m (Q : unit -> mem -> Prop) : (c = true -> Q tt m) -> safe (guard 12 c) m Q.
Proof. intros H. unfold safe, guard. destruct c; [apply H; reflexivity | reflexivity]. Qed.

Definition bblk (b : buffer) : Z * Z := (bptr b, bcap b).
Definition rblks (r : repr) : list (Z * Z) := match r with RInline _ _ _ _ => [] | RHeap _ b => [bblk b] end.
Definition tblks (a : targ) : list (Z * Z) := match a with TLarge b => [bblk b] | _ => [] end.

Lemma strip_cases ws : strip ws = [] \/ last (strip ws) 0 <> 0.
Proof.
  induction ws as [|x r IH]; cbn [strip]; [left; reflexivity|].
  destruct (strip r) as [|y r'] eqn:E.
  - destruct (Z.eqb_spec x 0); [left; reflexivity | right; cbn; assumption].
  - right. destruct IH as [IH|IH]; [discriminate|]. cbn [last] in *. exact IH.
Qed.

Lemma strip_len ws : len (strip ws) <= len ws.
Proof.
  unfold len. induction ws as [|x r IH]; cbn [strip length]; [lia|].
  destruct (strip r) as [|y r'] eqn:E; [destruct (x =? 0); cbn [length]; lia | cbn [length] in *; lia].
Qed.

Lemma len_nonneg {A} (l : list A) : 0 <= len l.
Proof. unfold len. lia. Qed.
Lemma len_app {A} (a b : list A) : len (a ++ b) = len a + len b.
Proof. unfold len. rewrite app_length. lia. Qed.
Lemma len_repeat {A} (x : A) n : 0 <= n -> len (repeat x (Z.to_nat n)) = n.
Proof. intros H. unfold len. rewrite repeat_length. lia. Qed.
Lemma len_cons {A} (x : A) l : len (x :: l) = 1 + len l.
Proof. unfold len. cbn [length]. lia. Qed.
Lemma len_nil {A} : len (@nil A) = 0.
Proof. reflexivity. Qed.
Ltac lnil := change (len (@nil Z)) with 0 in *.

Section Proofs.
Variable w : Z.
Variable M : Z.
Hypothesis w_pos : 0 < w.
Hypothesis M_big : 8 <= M.

Lemma default_capacity_bounds n : 0 <= n <= M ->
  n <= default_capacity M n <= max_compact_capacity M n /\ 2 <= default_capacity M n <= M.
Proof.
  intros H. unfold default_capacity, max_compact_capacity.
  assert (n / 8 <= n / 4) by (apply Z.div_le_compat_l; lia).
  assert (0 <= n / 8) by (apply Z.div_pos; lia).
  lia.
Qed.

Lemma max_compact_le_M n : max_compact_capacity M n <= M.
Proof. unfold max_compact_capacity. lia. Qed.

Lemma len_tow n v : 0 <= n -> len (tow w n v) = n.
Proof. intros H. unfold len, tow. rewrite to_words_length. lia. Qed.

(** a buffer whose block is owned and whose length fits its capacity *)
Definition BufOK (b : buffer) : Prop := 2 <= bcap b <= M /\ len (bws b) <= bcap b.

(** the representation invariant of the property *)
Definition ReprInv (r : repr) : Prop :=
  match r with
  | RInline s lo hi cap => (cap = 1 /\ hi = 0 /\ (lo = 0 -> s = Positive)) \/ (cap = 2 /\ hi <> 0)
  | RHeap s b => 3 <= len (bws b) /\ last (bws b) 0 <> 0 /\ len (bws b) <= bcap b <= max_compact_capacity M (len (bws b))
  end.

(* ------------------------------------------------------------------ allocation *)
Lemma wp_allocate_raw cap F m (Q : Z -> mem -> Prop) :
  Own F m -> 0 < cap <= M -> (forall p m', Own ((p, cap) :: F) m' -> Q p m') -> safe (allocate_raw M cap) m Q.
Proof.
  intros HO Hc HQ. unfold allocate_raw. apply safe_bind. apply safe_guard.
  { apply andb_true_intro. split; [apply Z.ltb_lt | apply Z.leb_le]; lia. }
  unfold safe, raw_alloc. apply HQ. apply Own_alloc. exact HO.
Qed.

Lemma wp_raw_alloc cap F m (Q : Z -> mem -> Prop) :
  Own F m -> (forall p m', Own ((p, cap) :: F) m' -> Q p m') -> safe (raw_alloc cap) m Q.
Proof. intros HO HQ. unfold safe, raw_alloc. apply HQ. apply Own_alloc. exact HO. Qed.

Lemma wp_deallocate_raw p c F m (Q : unit -> mem -> Prop) :
  Own ((p, c) :: F) m -> (forall m', Own F m' -> Q tt m') -> safe (deallocate_raw p c) m Q.
Proof.
  intros HO HQ. unfold safe, deallocate_raw.
  destruct (Own_dealloc p c F m (nlive m - 1) (nwords m - c) HO) as [E HO']. rewrite E, Z.eqb_refl. apply HQ. exact HO'.
Qed.

Lemma wp_allocate n F m (Q : buffer -> mem -> Prop) :
  Own F m -> 0 <= n ->
  (forall b m', Own (bblk b :: F) m' -> bws b = [] -> bcap b = default_capacity M n -> n <= M -> BufOK b -> Q b m') ->
  safe (allocate M n) m Q.
Proof.
  intros HO Hn HQ. unfold allocate, default_capacity_chk. apply safe_bind. apply safe_bind. apply safe_guard12. intros Hle.
  apply Z.leb_le in Hle. apply safe_ret.
  destruct (default_capacity_bounds n ltac:(lia)) as [B1 B2].
  unfold allocate_exact. destruct (Z.gtb_spec (default_capacity M n) M); [lia|].
  apply safe_bind. eapply wp_allocate_raw; [exact HO | lia |]. intros p m' HO'. apply safe_ret.
  apply HQ; cbn [bws bcap]; auto. unfold BufOK. cbn [bws bcap]. lnil. lia.
Qed.

Lemma wp_drop_buffer b F m (Q : unit -> mem -> Prop) :
  Own (bblk b :: F) m -> (forall m', Own F m' -> Q tt m') -> safe (drop_buffer b) m Q.
Proof. intros. unfold drop_buffer. eapply wp_deallocate_raw; eauto. Qed.

Lemma wp_reallocate b n F m (Q : buffer -> mem -> Prop) :
  Own (bblk b :: F) m -> len (bws b) <= n ->
  (forall b' m', Own (bblk b' :: F) m' -> bws b' = bws b -> bcap b' = default_capacity M n -> n <= M -> BufOK b' -> Q b' m') ->
  safe (reallocate M b n) m Q.
Proof.
  intros HO Hn HQ. pose proof (len_nonneg (bws b)) as L0.
  unfold reallocate, default_capacity_chk. apply safe_bind. apply safe_guard; [apply Z.leb_le; lia|].
  apply safe_bind. apply safe_bind. apply safe_guard12. intros Hle. apply Z.leb_le in Hle. apply safe_ret.
  destruct (default_capacity_bounds n ltac:(lia)) as [B1 B2].
  unfold reallocate_raw. apply safe_bind. apply safe_guard.
  { apply andb_true_intro. split; [apply Z.ltb_lt | apply Z.leb_le]; lia. }
  apply safe_bind. eapply wp_deallocate_raw; [exact HO|]. intros m1 HO1.
  apply safe_bind. eapply wp_raw_alloc; [exact HO1|]. intros p m2 HO2. apply safe_ret.
  apply HQ; cbn [bws bcap]; auto. unfold BufOK. cbn [bws bcap]. lia.
Qed.

Lemma wp_ensure_capacity b n F m (Q : buffer -> mem -> Prop) :
  Own (bblk b :: F) m -> BufOK b -> len (bws b) <= n ->
  (forall b' m', Own (bblk b' :: F) m' -> bws b' = bws b -> BufOK b' -> (n <= bcap b' \/ (n <= 2 /\ b' = b)) -> Q b' m') ->
  safe (ensure_capacity M b n) m Q.
Proof.
  intros HO HB Hn HQ. unfold ensure_capacity.
  destruct (Z.gtb_spec n (bcap b)); destruct (Z.gtb_spec n 2); cbn [andb].
  - eapply wp_reallocate; [exact HO | exact Hn |]. intros b' m' HO' E1 E2 E3 HB'. apply HQ; auto.
    left. rewrite E2. destruct (default_capacity_bounds n) as [B1 B2]; [pose proof (len_nonneg (bws b)); lia | lia].
  - apply safe_ret. apply HQ; auto.
  - apply safe_ret. apply HQ; auto; left; lia.
  - apply safe_ret. apply HQ; auto; left; lia.
Qed.

(* ------------------------------------------------------------------ pure guarded operations *)
Lemma wp_push b x m (Q : buffer -> mem -> Prop) :
  len (bws b) < bcap b -> Q (setws b (bws b ++ [x])) m -> safe (push b x) m Q.
Proof. intros H HQ. unfold push. apply safe_bind. apply safe_guard; [apply Z.ltb_lt; exact H|]. apply safe_ret. exact HQ. Qed.

Lemma wp_push_repeat b x n m (Q : buffer -> mem -> Prop) :
  n <= bcap b - len (bws b) -> Q (setws b (bws b ++ repeat x (Z.to_nat n))) m -> safe (push_repeat b x n) m Q.
Proof. intros H HQ. unfold push_repeat. apply safe_bind. apply safe_guard; [apply Z.leb_le; exact H|]. apply safe_ret. exact HQ. Qed.

Lemma wp_push_zeros_front b n m (Q : buffer -> mem -> Prop) :
  n <= bcap b - len (bws b) -> Q (setws b (repeat 0 (Z.to_nat n) ++ bws b)) m -> safe (push_zeros_front b n) m Q.
Proof. intros H HQ. unfold push_zeros_front. apply safe_bind. apply safe_guard; [apply Z.leb_le; exact H|]. apply safe_ret. exact HQ. Qed.

Lemma wp_push_slice b xs m (Q : buffer -> mem -> Prop) :
  len xs <= bcap b - len (bws b) -> Q (setws b (bws b ++ xs)) m -> safe (push_slice b xs) m Q.
Proof. intros H HQ. unfold push_slice. apply safe_bind. apply safe_guard; [apply Z.leb_le; exact H|]. apply safe_ret. exact HQ. Qed.

Lemma wp_erase_front b n m (Q : buffer -> mem -> Prop) :
  n <= len (bws b) -> Q (setws b (skipn (Z.to_nat n) (bws b))) m -> safe (erase_front b n) m Q.
Proof. intros H HQ. unfold erase_front. apply safe_bind. apply safe_guard; [apply Z.leb_le; exact H|]. apply safe_ret. exact HQ. Qed.

Lemma wp_push_resizing b x F m (Q : buffer -> mem -> Prop) :
  Own (bblk b :: F) m -> BufOK b ->
  (forall b' m', Own (bblk b' :: F) m' -> BufOK b' -> (bws b' = bws b \/ bws b' = bws b ++ [x]) -> Q b' m') ->
  safe (push_resizing M b x) m Q.
Proof.
  intros HO HB HQ. unfold push_resizing. destruct (x =? 0).
  - apply safe_ret. apply HQ; auto.
  - apply safe_bind. pose proof (len_nonneg (bws b)).
    eapply wp_ensure_capacity; [exact HO | exact HB | lia |]. intros b' m' HO' E HB' Hc.
    destruct HB as [HB1 HB2]. destruct HB' as [HB1' HB2'].
    assert (len (bws b') < bcap b') as Hlt.
    { destruct Hc as [Hc|[Hc1 Hc2]]; [rewrite E; lia|]. subst b'. lia. }
    apply wp_push; [exact Hlt|]. apply HQ.
    + exact HO'.
    + unfold BufOK, setws. cbn [bws bcap]. rewrite len_app, len_cons; lnil; lia.
    + right. cbn [setws bws]. rewrite E. reflexivity.
Qed.

Lemma wp_buffer_from ws F m (Q : buffer -> mem -> Prop) :
  Own F m ->
  (forall b m', Own (bblk b :: F) m' -> bws b = ws -> bcap b = default_capacity M (len ws) -> len ws <= M -> BufOK b -> Q b m') ->
  safe (buffer_from M ws) m Q.
Proof.
  intros HO HQ. unfold buffer_from. apply safe_bind. pose proof (len_nonneg ws).
  eapply wp_allocate; [exact HO | lia |]. intros b m' HO' E1 E2 E3 HB.
  destruct (default_capacity_bounds (len ws) ltac:(lia)) as [B1 B2].
  apply wp_push_slice; [rewrite E1; lnil; lia|]. apply HQ; cbn [setws bws bcap bptr]; auto.
  - rewrite E1. reflexivity.
  - unfold BufOK, setws. cbn [bws bcap]. rewrite E1. cbn [app]. lia.
Qed.

(* ------------------------------------------------------------------ repr.rs *)
Lemma ReprInv_from_word x : ReprInv (from_word x).
Proof. left. auto. Qed.

Lemma ReprInv_from_dword dw : ReprInv (from_dword w dw).
Proof. unfold from_dword. cbn [ReprInv]. destruct (Z.eqb_spec (dw / Bw w) 0); [left | right]; auto. Qed.

Lemma ReprInv_with_sign r s : ReprInv r -> ReprInv (with_sign r s).
Proof.
  intros H. unfold with_sign. destruct (is_zero r) eqn:E; [exact H|].
  destruct r as [s0 lo hi cap|s0 b]; cbn [set_sign ReprInv] in *; [|exact H].
  destruct H as [(H1 & H2 & H3)|H]; [left | right; exact H]. repeat split; auto.
  intros ->. subst cap. cbn in E. discriminate.
Qed.

Lemma ReprInv_neg r : ReprInv r -> ReprInv (neg r).
Proof.
  intros H. unfold neg. destruct (is_zero r) eqn:E; [exact H|].
  destruct r as [s0 lo hi cap|s0 b]; cbn [set_sign ReprInv] in *; [|exact H].
  destruct H as [(H1 & H2 & H3)|H]; [left | right; exact H]. repeat split; auto.
  intros ->. subst cap. cbn in E. discriminate.
Qed.

Lemma rblks_with_sign r s : rblks (with_sign r s) = rblks r.
Proof. unfold with_sign. destruct (is_zero r); [reflexivity|]. destruct r; reflexivity. Qed.
Lemma rblks_neg r : rblks (neg r) = rblks r.
Proof. unfold neg. destruct (is_zero r); [reflexivity|]. destruct r; reflexivity. Qed.

Lemma wp_repr_drop r F m (Q : unit -> mem -> Prop) :
  Own (rblks r ++ F) m -> (forall m', Own F m' -> Q tt m') -> safe (repr_drop r) m Q.
Proof.
  intros HO HQ. destruct r as [s lo hi cap|s b]; cbn [repr_drop rblks app] in *.
  - apply safe_ret. apply HQ. exact HO.
  - eapply wp_deallocate_raw; [exact HO | exact HQ].
Qed.

(** from_buffer: from ANY owned buffer whose length fits its capacity, the result satisfies the
    representation invariant, owns exactly its block (the buffer is freed when the value is inline),
    and is non-negative *)
Theorem wp_from_buffer b F m (Q : repr -> mem -> Prop) :
  Own (bblk b :: F) m -> BufOK b ->
  (forall r m', Own (rblks r ++ F) m' -> ReprInv r -> rsign r = Positive -> Q r m') ->
  safe (from_buffer w M b) m Q.
Proof.
  intros HO [HB1 HB2] HQ. unfold from_buffer.
  pose proof (strip_cases (bws b)) as Hs. pose proof (strip_len (bws b)) as Hl.
  destruct (strip (bws b)) as [|x [|y [|z rest]]] eqn:E.
  - apply safe_bind. eapply wp_drop_buffer; [exact HO|]. intros m' HO'. apply safe_ret. apply HQ; auto. apply ReprInv_from_word.
  - apply safe_bind. eapply wp_drop_buffer; [exact HO|]. intros m' HO'. apply safe_ret. apply HQ; auto. apply ReprInv_from_word.
  - apply safe_bind. eapply wp_drop_buffer; [exact HO|]. intros m' HO'. apply safe_ret. apply HQ; auto. apply ReprInv_from_dword.
  - set (ws := x :: y :: z :: rest) in *.
    assert (3 <= len ws) as H3 by (unfold ws; rewrite !len_cons; pose proof (len_nonneg rest); lia).
    destruct Hs as [Hs|Hs]; [discriminate|].
    apply safe_bind. unfold shrink_to_fit, max_compact_chk. cbn [setws bws bcap].
    apply safe_bind. apply safe_bind. apply safe_guard12. intros Hle. apply Z.leb_le in Hle. apply safe_ret.
    destruct (Z.gtb_spec (bcap b) (max_compact_capacity M (len ws))).
    + eapply wp_reallocate; [exact HO | cbn [setws bws]; lia |]. cbn [setws bws].
      intros b' m' HO' E1 E2 E3 HB'. apply safe_ret. apply HQ; cbn [rblks app rsign]; auto.
      cbn [ReprInv]. rewrite E1, E2. destruct (default_capacity_bounds (len ws) ltac:(lia)) as [B1 B2]. repeat split; auto; lia.
    + apply safe_ret. apply HQ; cbn [rblks app rsign]; auto. cbn [ReprInv setws bws bcap]. repeat split; auto; lia.
Qed.

(** what clone / clone_from may read: a view that comes from a value satisfying the invariant, or a static *)
Definition ViewInv (v : view) : Prop :=
  match v with
  | VInline s lo hi cap => ReprInv (RInline s lo hi cap)
  | VHeap s ws cap => 3 <= len ws /\ last ws 0 <> 0 /\ len ws <= cap
  end.

Lemma ViewInv_view_of r : ReprInv r -> ViewInv (view_of r).
Proof. destruct r as [s lo hi cap|s b]; cbn [view_of ViewInv ReprInv]; [auto|]. intros (H1 & H2 & H3). repeat split; auto; lia. Qed.

Lemma ViewInv_static s ws : (ws = [] \/ last ws 0 <> 0) -> ViewInv (static_view s ws).
Proof.
  intros H. destruct ws as [|x [|y [|z rest]]]; cbn [static_view ViewInv ReprInv].
  - left. auto.
  - destruct H as [H|H]; [discriminate|]. cbn in H. left. repeat split; auto. intros; contradiction.
  - destruct H as [H|H]; [discriminate|]. cbn in H. right. auto.
  - destruct H as [H|H]; [discriminate|]. repeat split; auto; [|lia]. rewrite !len_cons. pose proof (len_nonneg rest). lia.
Qed.

Theorem wp_repr_clone v F m (Q : repr -> mem -> Prop) :
  Own F m -> ViewInv v ->
  (forall r m', Own (rblks r ++ F) m' -> ReprInv r -> Q r m') ->
  safe (repr_clone M v) m Q.
Proof.
  intros HO HV HQ. destruct v as [s lo hi cap|s ws cap]; cbn [repr_clone ViewInv] in *.
  - apply safe_ret. apply HQ; [rewrite rblks_with_sign; exact HO|]. apply ReprInv_with_sign.
    cbn [ReprInv] in *. destruct HV as [(H1 & H2 & H3)|H]; [left | right; exact H]. auto.
  - destruct HV as (H1 & H2 & H3). apply safe_bind. eapply wp_allocate; [exact HO | lia |].
    intros b m' HO' E1 E2 E3 HB. destruct (default_capacity_bounds (len ws) ltac:(lia)) as [B1 B2].
    apply safe_bind. apply wp_push_slice; [rewrite E1; lnil; lia|].
    apply safe_bind. apply safe_guard; [cbn [setws bcap]; apply Z.ltb_lt; lia|]. apply safe_ret.
    apply HQ; [rewrite rblks_with_sign; exact HO'|]. apply ReprInv_with_sign.
    cbn [ReprInv setws bws bcap]. rewrite E1. cbn [app]. repeat split; auto; lia.
Qed.

Theorem wp_repr_clone_from self v F m (Q : repr -> mem -> Prop) :
  Own (rblks self ++ F) m -> ReprInv self -> ViewInv v ->
  (forall r m', Own (rblks r ++ F) m' -> ReprInv r -> Q r m') ->
  safe (repr_clone_from M self v) m Q.
Proof.
  intros HO HI HV HQ. destruct v as [s lo hi cap|s ws cap]; cbn [repr_clone_from ViewInv] in *.
  - apply safe_bind. eapply wp_repr_drop; [exact HO|]. intros m' HO'. apply safe_ret. apply HQ; auto.
  - destruct HV as (H1 & H2 & H3). unfold max_compact_chk.
    apply safe_bind. apply safe_bind. apply safe_guard12. intros Hle. apply Z.leb_le in Hle. apply safe_ret.
    apply safe_bind.
    destruct ((rcap self <? len ws) || (rcap self >? max_compact_capacity M (len ws))) eqn:Ere.
    + apply safe_bind. eapply wp_repr_drop; [exact HO|]. intros m1 HO1. unfold default_capacity_chk.
      apply safe_bind. apply safe_bind. apply safe_guard12. intros _. apply safe_ret.
      destruct (default_capacity_bounds (len ws) ltac:(lia)) as [B1 B2].
      apply safe_bind. eapply wp_allocate_raw; [exact HO1 | lia |]. intros p m2 HO2. apply safe_ret. cbn [fst snd].
      apply safe_bind. apply safe_guard; [apply Z.leb_le; lia|]. apply safe_ret.
      apply HQ; cbn [rblks app]; auto. cbn [ReprInv bws bcap]. repeat split; auto; lia.
    + apply orb_false_elim in Ere. destruct Ere as [E1 E2]. apply Z.ltb_ge in E1.
      assert (rcap self <= max_compact_capacity M (len ws)) as E2' by (destruct (Z.gtb_spec (rcap self) (max_compact_capacity M (len ws))); [discriminate | lia]).
      destruct self as [s0 lo hi c0|s0 b]; cbn [rcap ReprInv] in *.
      * exfalso. destruct HI as [(Hc & _)|(Hc & _)]; lia.
      * apply safe_ret. cbn [fst snd]. apply safe_bind. apply safe_guard; [apply Z.leb_le; lia|]. apply safe_ret.
        apply HQ; cbn [rblks app]; auto. cbn [ReprInv bws bcap]. repeat split; auto; lia.
Qed.

Theorem wp_ones n F m (Q : repr -> mem -> Prop) :
  Own F m -> 0 <= n ->
  (forall r m', Own (rblks r ++ F) m' -> ReprInv r -> rsign r = Positive -> Q r m') ->
  safe (ones w M n) m Q.
Proof.
  intros HO Hn HQ. unfold ones.
  destruct (Z.ltb_spec n w); [apply safe_ret; apply HQ; auto; apply ReprInv_from_word|].
  destruct (Z.leb_spec n (2 * w)); [apply safe_ret; apply HQ; auto; apply ReprInv_from_dword|].
  assert (2 <= n / w) as Hq by (apply Z.div_le_lower_bound; lia).
  pose proof (Z.mod_pos_bound n w w_pos) as Hm.
  assert (n = w * (n / w) + n mod w) as Hdm by (apply Z.div_mod; lia).
  apply safe_bind. eapply wp_allocate; [exact HO | lia |]. intros b m' HO' E1 E2 E3 [HB1 HB2].
  destruct (default_capacity_bounds (n / w + 1) ltac:(lia)) as [B1 B2].
  apply safe_bind. apply wp_push_repeat; [rewrite E1; lnil; lia|].
  assert (2 ^ w - 1 <> 0) as Hmax.
  { assert (2 ^ 1 <= 2 ^ w) by (apply Z.pow_le_mono_r; lia). lia. }
  destruct (Z.ltb_spec 0 (n mod w)) as [Hhi|Hhi].
  - apply safe_bind. apply wp_push.
    { cbn [setws bws bcap]. rewrite E1. cbn [app]. rewrite len_repeat by lia. lia. }
    apply safe_bind. apply safe_guard; [cbn [setws bcap]; apply Z.ltb_lt; lia|]. apply safe_ret.
    apply HQ; cbn [rblks app rsign]; auto.
    cbn [ReprInv setws bws bcap]. rewrite E1. cbn [app]. rewrite len_app, len_repeat, len_cons by lia; lnil. replace (n / w + (1 + 0)) with (n / w + 1) by lia.
    assert (last (repeat (Bw w - 1) (Z.to_nat (n / w)) ++ [2 ^ (n mod w) - 1]) 0 <> 0) as HL.
    { rewrite last_last. assert (2 ^ 1 <= 2 ^ (n mod w)) by (apply Z.pow_le_mono_r; lia). lia. }
    repeat split; auto; lia.
  - apply safe_bind. apply safe_ret. apply safe_bind. apply safe_guard; [cbn [setws bcap]; apply Z.ltb_lt; lia|]. apply safe_ret.
    assert (n mod w = 0) as Hz by lia.
    assert (3 <= n / w) as Hq3 by (rewrite Hz in Hdm; nia).
    apply HQ; cbn [rblks app rsign]; auto.
    cbn [ReprInv setws bws bcap]. rewrite E1. cbn [app]. rewrite len_repeat by lia.
    assert (last (repeat (Bw w - 1) (Z.to_nat (n / w))) 0 <> 0) as HL.
    { replace (Z.to_nat (n / w)) with (Z.to_nat (n / w - 1) + 1)%nat by lia.
      rewrite repeat_app. cbn [repeat]. rewrite last_last. unfold Bw. exact Hmax. }
    assert (bcap b <= max_compact_capacity M (n / w)) as HC.
    { rewrite E2. unfold max_compact_capacity, default_capacity in *.
      assert (0 <= (n / w + 1) / 8) by (apply Z.div_pos; lia).
      assert ((n / w + 1) / 8 <= n / w / 4 + 1).
      { apply Z.div_le_upper_bound; [lia|]. pose proof (Z.mod_pos_bound (n / w) 4 ltac:(lia)).
        pose proof (Z.div_mod (n / w) 4 ltac:(lia)). lia. }
      lia. }
    repeat split; auto; lia.
Qed.

End Proofs.
