(** C17 (round 4) - non-vacuity of the theorems about the machine of StorageOps3.v (64-bit words): a history through
    sqrt / sqrt_rem of a five-word value, ring steps with a three-word modulus (reduce, multiply, clone_from between rings of
    different lengths, Rem / Div by the ConstDivisor, pow), ConstDivisor::new(0) (the documented panic, the operands are
    released), & | ^ ! of negative values, >> of a negative value, both parsers (with an invalid digit: the estimated buffer
    is dropped) and the chunk round trip.  The premises of the history theorem hold along the run and the ledger balances. *)
From Dashu Require Import Base.Prelude Base.Words Int.StorageModel Int.StorageProofs Int.StorageArith Int.StorageHistory
  Int.StorageOps2 Int.StorageOps2Proofs Int.StorageOps3 Int.StorageOps3History.
Open Scope Z_scope.

Definition gk0 := gk_inst 64 true.
Definition jv0 : list Z -> Z := fun _ => 0.
Definition M64 : Z := 2 ^ 58.

Definition X5 : list Z := [11; 22; 33; 44; 2 ^ 61 + 5].
Definition MOD3 : list Z := [7; 0; 2 ^ 40].
Definition MOD4 : list Z := [9; 1; 0; 3].

Definition example_ops : list op3 :=
  [ O2 (O1 (OCtor 0%nat (CWords Positive X5))); OSqrt 1%nat 0%nat; OSqrtRem 2%nat 3%nat 0%nat;
    (* ring over a 3-word modulus: slots 5 (x), 6 (y), 7 (modulus) are taken by value *)
    O2 (O1 (OCtor 7%nat (CWords Positive MOD3))); O2 (O1 (OClone 5%nat (ByRef 0%nat))); ORing RRes 1%nat 5%nat 6%nat 7%nat 0;
    O2 (O1 (OCtor 7%nat (CWords Positive MOD3))); O2 (O1 (OClone 5%nat (ByRef 0%nat))); O2 (O1 (OClone 6%nat (ByRef 2%nat)));
    ORing RMul 1%nat 5%nat 6%nat 7%nat 0;
    O2 (O1 (OCtor 7%nat (CWords Positive MOD3))); O2 (O1 (OClone 5%nat (ByRef 0%nat))); O2 (O1 (OCtor 6%nat (CWords Positive MOD4)));
    ORing RCloneFrom 1%nat 5%nat 6%nat 7%nat 0;
    O2 (O1 (OCtor 7%nat (CWords Positive MOD3))); O2 (O1 (OClone 5%nat (ByRef 0%nat))); ORing RRem 2%nat 5%nat 6%nat 7%nat 0;
    O2 (O1 (OCtor 7%nat (CWords Positive MOD3))); O2 (O1 (OClone 5%nat (ByRef 0%nat))); ORing RDiv 3%nat 5%nat 6%nat 7%nat 0;
    O2 (O1 (OCtor 7%nat (CWords Positive MOD3))); O2 (O1 (OClone 5%nat (ByRef 0%nat))); ORing RPow 3%nat 5%nat 6%nat 7%nat 5;
    (* ConstDivisor::new(0): Thrown, the by-value operand in slot 5 is released *)
    O2 (O1 (OClone 5%nat (ByRef 0%nat))); ORing RNew 3%nat 5%nat 6%nat 7%nat 0;
    (* signed bit operations and shifts *)
    O2 (O1 (ONeg 0%nat)); OSBit SAnd 1%nat (ByRef 0%nat) (ByRef 2%nat); OSBit SOr 2%nat (ByRef 0%nat) (ByVal 2%nat);
    OSBit SXor 3%nat (ByVal 1%nat) (ByRef 0%nat); ONot 1%nat (ByRef 0%nat); OIShr 2%nat (ByRef 0%nat) 130; OIShl 3%nat (ByVal 3%nat) 70;
    (* parsers: 40 hex digits with a separator; the same with an invalid digit; 45 decimal digits in 3 groups; a bad group *)
    OParse2 1%nat Negative 4 (repeat (PD 15) 20 ++ [PSep] ++ repeat (PD 3) 20);
    OParse2 2%nat Positive 4 (repeat (PD 15) 20 ++ [PBad] ++ repeat (PD 3) 20);
    OParseN 2%nat Positive (10 ^ 19) [Some 1234567; Some 1; Some 99];
    OParseN 3%nat Positive (10 ^ 19) [Some 1234567; None; Some 99];
    OChunks 0%nat 70; OChunks 1%nat 400;
    (* set_bit(2^62) on a heap value: the growth fails, the panic unwinds, the value's block is freed exactly once *)
    OGrowFail 0%nat (2 ^ 62) ].

Ltac pre_tac :=
  cbn [pre_along];
  first [ exact I
        | split; [cbn; repeat split; try lia; auto |
          split; [try exact I; cbn [op3_pre]; apply (proj1 (Words.wfb_wf 64 _)); vm_compute; reflexivity |
                  let pr := fresh "pr" in let m' := fresh "m" in let E := fresh "E" in
                  intros pr m' E; vm_compute in E; injection E as <- <-; cbn [fst]; pre_tac]] ].

Example history3_example_pre : pre_along 64 M64 gk0 jv0 8 example_ops (repeat zero 8) mem0.
Proof. unfold example_ops. pre_tac. Qed.

Example history3_example_run :
  match run3 64 M64 gk0 jv0 example_ops (repeat zero 8) mem0 with
  | Ok (pool, m) => nlive m = Z.of_nat (length (filter (fun r => 2 <? Z.abs (signed_cap r)) pool)) /\
                    match drop_all pool m with Ok (_, m') => nlive m' = 0 /\ nwords m' = 0 | _ => False end
  | _ => False
  end.
Proof. vm_compute. repeat split; reflexivity. Qed.

(** the ledger after selected prefixes: (live blocks, signed capacities of the pool); after the ConstDivisor::new(0) step
    (prefix 25) the cloned operand of slot 5 has been released, nothing else changed *)
Example history3_example_ledger :
  map (fun k => match run3 64 M64 gk0 jv0 (firstn k example_ops) (repeat zero 8) mem0 with
                | Ok (pool, m) => (nlive m, map signed_cap pool) | _ => (-1, []) end) [3; 14; 17; 20; 23; 25; 32; 38]%nat
  = [(4, [7; 5; 5; 5; 1; 1; 1; 1]); (4, [7; 5; 5; 5; 1; 1; 1; 1]); (4, [7; 5; 7; 5; 1; 1; 1; 1]); (4, [7; 5; 7; 7; 1; 1; 1; 1]);
     (4, [7; 5; 7; 5; 1; 1; 1; 1]); (4, [7; 5; 7; 5; 1; 1; 1; 1]); (4, [-7; 7; -5; -7; 1; 1; 1; 1]); (4, [-7; -6; 5; -7; 1; 1; 1; 1])].
Proof. vm_compute. reflexivity. Qed.
