(** C12 - AS-IS model of the Lehmer gcd (definitions only), value level.
    Transcribed from integer/src/gcd/lehmer.rs (lehmer_guess, lehmer_guess_dword, highest_word_normalized,
    highest_dword_normalized, gcd_in_place, gcd_ext_in_place) and integer/src/gcd_ops.rs (gcd_large,
    gcd_ext_large, after the repair eee6adb of the exact division).

    Operands are non-negative integers; [w] is the number of bits of a Word, [W = 2^w]; the number of
    words of a value is [wlen w v] (GrlModel.v).  Unsigned machine arithmetic is modelled as the debug
    build behaves: an overflow / underflow / division by zero / failed debug_assert is a [Panic].
    What is NOT modelled (word level only): the carry bookkeeping inside lehmer_step / lehmer_ext_step,
    the scratch memory, the lengths t0_len / t1_len (the model keeps the values t0, t1 and checks that they
    fit the buffers of lhs_len + 1 words). *)
From Dashu Require Import Base.Prelude Int.GrlSpec Int.GrlModel.
Open Scope Z_scope.

(** [const COEFF_LIMIT: Word = SignedWord::MAX as Word] (lehmer.rs:37, :112) *)
Definition coeff_limit (w : Z) : Z := 2 ^ (w - 1) - 1.

(** [pub const MIN_DWORD_GUESS_LEN: usize = 300] (lehmer.rs:29) *)
Definition MIN_DWORD_GUESS_LEN : Z := 300.

(** a value of an unsigned type with [B] values *)
Definition fits (B v : Z) : bool := (0 <=? v) && (v <? B).

(** * lehmer_guess / lehmer_guess_dword *)
(** One half-step of the loop body.  With (u0,u1,v0,v1,num,den,sub) = (a,b,c,d,xbar,ybar,c) these are the
    lines 41-55 (115-131 for the double word variant):
      q = xbar / ybar; if q > LIMIT break; r = a + q*c; s = b + q*d; t = xbar - q*ybar;
      if r > LIMIT || s > LIMIT break; if t < s || t + r > ybar - c break;
    and with (d,c,b,a,ybar,xbar,c) the lines 65-79 (141-155):
      q = ybar / xbar; if q > LIMIT break; r = d + q*b; s = c + q*a; t = ybar - q*xbar;
      if r > LIMIT || s > LIMIT break; if t < s || t + r > xbar - c break;
    (the source really subtracts [c] in both tests; [sub] is that subtrahend).
    [B] is the number of values of the unsigned type the computation is carried out in (Word: 2^w,
    DoubleWord: 2^(2w)); every intermediate result is checked against it. *)
Inductive half_res := HBreak | HPanic (r : reason) | HStep (r s t : Z).

Definition lehmer_half (B L u0 u1 v0 v1 num den sub : Z) : half_res :=
  if den =? 0 then HPanic DivideBy0 else
  let q := num / den in
  if L <? q then HBreak else
  if negb (fits B (q * v0) && fits B (u0 + q * v0) && fits B (q * v1) && fits B (u1 + q * v1)
           && fits B (q * den) && fits B (num - q * den)) then HPanic Undocumented else
  let r := u0 + q * v0 in
  let s := u1 + q * v1 in
  let t := num - q * den in
  if (L <? r) || (L <? s) then HBreak else
  if t <? s then HBreak else
  if negb (fits B (t + r) && fits B (den - sub)) then HPanic Undocumented else
  if den - sub <? t + r then HBreak else HStep r s t.

(** [while ybar != 0 { ... }] (lines 40-88 / 115-164); every [break] returns the current (a, b, c, d) *)
Fixpoint lehmer_guess_loop (fuel : nat) (B L a b c d xbar ybar : Z) : result (Z * Z * Z * Z) :=
  match fuel with
  | O => OutOfFuel
  | S k =>
      if ybar =? 0 then Ok (a, b, c, d) else
      match lehmer_half B L a b c d xbar ybar c with
      | HBreak => Ok (a, b, c, d)
      | HPanic r => Panic r
      | HStep r s t =>
          let a := r in let b := s in let xbar := t in          (* lines 57-59 *)
          if xbar =? b then Ok (a, b, c, d) else                 (* lines 61-63 *)
          match lehmer_half B L d c b a ybar xbar c with
          | HBreak => Ok (a, b, c, d)
          | HPanic r => Panic r
          | HStep r s t =>
              let d := r in let c := s in let ybar := t in      (* lines 81-83 *)
              if ybar =? c then Ok (a, b, c, d)                  (* lines 85-87 *)
              else lehmer_guess_loop k B L a b c d xbar ybar
          end
      end
  end.

(** the loop runs at most w + 1 times (b + d at least doubles in every full iteration and stays below 2^w);
    proved in GrlLehmerProof.v (lehmer_guess_total) *)
Definition guess_fuel (w : Z) : nat := S (Z.to_nat w).

(** [fn lehmer_guess(xbar: Word, ybar: Word)] with [debug_assert!(xbar >= ybar)] *)
Definition lehmer_guess (w xbar ybar : Z) : result (Z * Z * Z * Z) :=
  if xbar <? ybar then Panic Undocumented
  else lehmer_guess_loop (guess_fuel w) (2 ^ w) (coeff_limit w) 1 0 0 1 xbar ybar.

(** [fn lehmer_guess_dword(xbar: DoubleWord, ybar: DoubleWord)]: the same loop in double word arithmetic
    with the same COEFF_LIMIT; the final [as Word] casts do not truncate because a, b, c, d <= COEFF_LIMIT *)
Definition lehmer_guess_dword (w xbar ybar : Z) : result (Z * Z * Z * Z) :=
  if xbar <? ybar then Panic Undocumented
  else rbind (lehmer_guess_loop (guess_fuel w) (2 ^ (2 * w)) (coeff_limit w) 1 0 0 1 xbar ybar)
             (fun r => let '(a, b, c, d) := r in Ok (a mod 2 ^ w, b mod 2 ^ w, c mod 2 ^ w, d mod 2 ^ w)).

(** * the aligned leading bits *)
(** [leading_zeros] of a non-zero value of a [bits]-bit type *)
Definition leading_zeros (bits v : Z) : Z := bits - bit_len v.

(** [fn highest_word_normalized(x, y)] (lines 96-107); x.len() >= 2 (highest_dword).
    [highest_dword w v], [top_word w v] of GrlModel.v are the top two words / the top word of the
    trimmed value. *)
Definition highest_word_normalized (w x y : Z) : Z * Z :=
  let x_hi2 := highest_dword w x in
  let dl := wlen w x - wlen w y in
  let y_hi2 := if dl =? 0 then highest_dword w y else if dl =? 1 then top_word w y else 0 in
  let shift := leading_zeros (2 * w) x_hi2 in
  (((x_hi2 * 2 ^ shift) mod 2 ^ (2 * w)) / 2 ^ w, ((y_hi2 * 2 ^ shift) mod 2 ^ (2 * w)) / 2 ^ w).

(** the double word made of the words i+1, i of a slice holding the value v *)
Definition slice_dword (w v i : Z) : Z := (v / 2 ^ (w * i)) mod 2 ^ (2 * w).

(** [fn highest_dword_normalized(x, y)] (lines 173-190); x.len() >= 3 *)
Definition highest_dword_normalized (w x y : Z) : Z * Z :=
  let n := wlen w x in
  let x0 := top_word w x in
  let x12 := slice_dword w x (n - 3) in                      (* highest_dword(x_lo), x_lo = x[..n-1] *)
  let dl := n - wlen w y in
  let '(y0, y12) :=
    if dl =? 0 then (top_word w y, slice_dword w y (n - 3))
    else if dl =? 1 then (0, highest_dword w y)
    else if dl =? 2 then (0, top_word w y)
    else (0, 0) in
  let shift := leading_zeros w x0 in
  let hi v0 v12 := Z.lor ((v0 * 2 ^ (shift + w)) mod 2 ^ (2 * w)) (Z.shiftr v12 (w - shift)) in
  (hi x0 x12, hi y0 y12).

(** lines 246-252 / 372-378: which guess is used; [mdl] = MIN_DWORD_GUESS_LEN *)
Definition lehmer_guess_for (mdl w x y : Z) : result (Z * Z * Z * Z) :=
  if wlen w x <? mdl then
    let '(xh, yh) := highest_word_normalized w x y in lehmer_guess w xh yh
  else
    let '(xh, yh) := highest_dword_normalized w x y in lehmer_guess_dword w xh yh.

(** * one iteration of the main loops (lines 254-275 / 380-449), before the ordering swap *)
Inductive lstep :=
| StEuclid (q r : Z)                 (* b == 0: x = q*y + r, the new pair is (y, r), swapped flips *)
| StLehmer (a b c d x' y' : Z).      (* lehmer_step: x' = a*x - b*y, y' = d*y - c*x *)

(** lehmer_step computes a*x - b*y and d*y - c*x in two's complement and stores the low words: a negative
    result cannot be represented (the debug_asserts on the carries fail), modelled as a panic. *)
Definition lehmer_iter (mdl w x y : Z) : result lstep :=
  rbind (lehmer_guess_for mdl w x y) (fun g =>
    let '(a, b, c, d) := g in
    if b =? 0 then Ok (StEuclid (x / y) (x mod y))
    else
      let x' := a * x - b * y in
      let y' := d * y - c * x in
      if (x' <? 0) || (y' <? 0) then Panic Undocumented else Ok (StLehmer a b c d x' y')).

(** * gcd_in_place (lines 235-301): [while y.len() > ml] with ml = 2 *)
Fixpoint lehmer_loop (fuel : nat) (mdl w ml x y : Z) (swapped : bool) : result (Z * Z * bool) :=
  match fuel with
  | O => OutOfFuel
  | S k =>
      if wlen w y <=? ml then Ok (x, y, swapped) else
      match lehmer_iter mdl w x y with
      | Ok (StEuclid q r) => lehmer_loop k mdl w ml y r (negb swapped)
      | Ok (StLehmer a b c d x' y') =>
          if x' <=? y' then lehmer_loop k mdl w ml y' x' (negb swapped)      (* cmp_in_place(x, y).is_le() *)
          else lehmer_loop k mdl w ml x' y' swapped
      | Panic r => Panic r
      | Err e => Err e
      | OutOfFuel => OutOfFuel
      end
  end.

(** the three endings (lines 278-300); [lf] fuel of the Lehmer loop, [pf] fuel of the primitive gcd.
    Result: (gcd, swapped) - swapped tells in which buffer the result lies. *)
Definition gcd_in_place_gen (lf pf : nat) (mdl w lhs rhs : Z) : result (Z * bool) :=
  if lhs <? rhs then Panic Undocumented                    (* debug_assert!(cmp_in_place(lhs, rhs).is_ge()) *)
  else
    rbind (lehmer_loop lf mdl w 2 lhs rhs false) (fun st =>
      let '(x, y, swapped) := st in
      if y =? 0 then Ok (x, swapped)
      else if (y / 2 ^ w) mod 2 ^ w =? 0 then                (* y.get(1).unwrap_or(&0) == &0 *)
        rbind (prim_gcd_asis pf w (x mod y) y) (fun g => Ok (g, swapped))
      else
        rbind (prim_gcd_asis pf (2 * w) (x mod y) y) (fun g => Ok (g, swapped))).

(** gcd_large (gcd_ops.rs:129-150) *)
Definition lehmer_gcd_gen (lf pf : nat) (mdl w a b : Z) : result Z :=
  if a =? b then Ok a
  else
    let '(lhs, rhs) := if b <? a then (a, b) else (b, a) in
    rbind (gcd_in_place_gen lf pf mdl w lhs rhs) (fun r => Ok (fst r)).

Definition lehmer_gcd_asis (fuel : nat) (w x y : Z) : result Z :=
  lehmer_gcd_gen fuel fuel MIN_DWORD_GUESS_LEN w x y.

(** fuel that is always enough for the Lehmer loop: x*y at least halves in every iteration
    (lehmer_loop_terminates in GrlLehmerProof.v) *)
Definition lehmer_fuel (x y : Z) : nat := S (Z.to_nat (Z.log2 (x * y) + 1)).

(** * gcd_ext_in_place (lines 348-505) *)
(** [while y.len() > 1]; t0, t1 are the unsigned cofactors of rhs:
      not swapped: x = -t0*rhs, y = +t1*rhs (mod lhs);  swapped: x = +t0*rhs, y = -t1*rhs (mod lhs).
    [cap] = lhs_len + 1, the number of words of the two buffers. *)
Fixpoint lehmer_ext_loop (fuel : nat) (mdl w cap x y t0 t1 : Z) (swapped : bool)
  : result (Z * Z * Z * Z * bool) :=
  match fuel with
  | O => OutOfFuel
  | S k =>
      if wlen w y <=? 1 then Ok (x, y, t0, t1, swapped) else
      match lehmer_iter mdl w x y with
      | Ok (StEuclid q r) =>
          let t0' := t0 + q * t1 in                                        (* lines 392-413 *)
          if cap <? wlen w t0' then Panic Undocumented
          else lehmer_ext_loop k mdl w cap y r t1 t0' (negb swapped)       (* lines 415-419 *)
      | Ok (StLehmer a b c d x' y') =>
          let t0' := a * t0 + b * t1 in                                    (* lehmer_ext_step, lines 426-440 *)
          let t1' := c * t0 + d * t1 in
          if (cap <? wlen w t0') || (cap <? wlen w t1') then Panic Undocumented
          else if x' <=? y' then lehmer_ext_loop k mdl w cap y' x' t1' t0' (negb swapped)
          else lehmer_ext_loop k mdl w cap x' y' t0' t1' swapped
      | Panic r => Panic r
      | Err e => Err e
      | OutOfFuel => OutOfFuel
      end
  end.

Definition sign_of_swapped (swapped : bool) : sign := if swapped then Positive else Negative.

(** the sign line 486: [swapped ^= (cx < 0) || (cx == 0 && cy > 0)];
    [full = false] is the variant with [swapped ^= cx < 0] only *)
Definition ext_sign_flip (full : bool) (cx cy : Z) : bool :=
  if full then (cx <? 0) || ((cx =? 0) && (0 <? cy)) else (cx <? 0).

(** result (g, |b|, sign of b) with g = b * rhs (mod lhs) *)
Definition gcd_ext_in_place_gen (full : bool) (lf pf : nat) (mdl w lhs rhs : Z) : result (Z * Z * sign) :=
  if lhs <? rhs then Panic Undocumented
  else
    let lhs_len := wlen w lhs in
    rbind (lehmer_ext_loop lf mdl w (lhs_len + 1) lhs rhs 0 1 false) (fun st =>
      let '(x, y, t0, t1, swapped) := st in
      if y =? 0 then                                                       (* lines 454-468 *)
        if lhs_len <? wlen w t0 then Panic Undocumented                    (* lhs[..t0_len].copy_from_slice *)
        else Ok (x, t0, sign_of_swapped swapped)
      else
        let x_word := x mod y in                                           (* lines 472-482 *)
        let q := x / y in
        if lhs_len + 1 <? wlen w x + wlen w t1 then Panic Undocumented      (* &mut t0[..t0_len] *)
        else
          let t0 := t0 + q * t1 in
          if 2 ^ (w * (wlen w x + wlen w t1)) <=? t0 then Panic Undocumented (* debug_assert_zero!(carry) *)
          else
            rbind (prim_gcd_ext_asis pf x_word y) (fun r =>                 (* line 485 *)
              let '(g, cx, cy) := r in
              let swapped := xorb swapped (ext_sign_flip full cx cy) in     (* line 486 *)
              let b_mag := Z.abs cx * t0 + Z.abs cy * t1 in                 (* lines 496-498 *)
              if 2 ^ (w * lhs_len) <=? b_mag then Panic Undocumented        (* debug_assert_zero! on the carries *)
              else Ok (g, b_mag, sign_of_swapped swapped))).

(** gcd_ext_large (gcd_ops.rs:261-349): the other coefficient by the exact division
    a = (g - rhs*b) / lhs; result (g, s, t) with g = s*x + t*y *)
Definition lehmer_gcd_ext_gen (full : bool) (lf pf : nat) (mdl w x y : Z) : result (Z * Z * Z) :=
  if x =? y then Ok (x, 1, 0)
  else
    let swapped := x <? y in
    let '(lhs, rhs) := if swapped then (y, x) else (x, y) in
    rbind (gcd_ext_in_place_gen full lf pf mdl w lhs rhs) (fun r =>
      let '(g, b_mag, b_sign) := r in
      (* residue = rhs * |b|, then + g (b negative) or - g (b positive, debug_assert!(!overflow)) *)
      let residue := match b_sign with Negative => rhs * b_mag + g | Positive => rhs * b_mag - g end in
      if residue <? 0 then Panic Undocumented
      else
        let a_res :=
          if wlen w rhs + wlen w b_mag + 1 <? wlen w lhs then       (* residue.len() < lhs_len *)
            (if residue =? 0 then Ok 0 else Panic Undocumented)
          (* debug_assert_eq!(residue[0], 0) "this division is an exact division": only the lowest word
             of the remainder, still shifted left by the normalisation shift of lhs, is inspected *)
          else if negb (((residue mod lhs) * 2 ^ leading_zeros w (top_word w lhs)) mod 2 ^ w =? 0)
               then Panic Undocumented
          else Ok (residue / lhs) in
        rbind a_res (fun a_mag =>
          let a := signed (sign_neg b_sign) a_mag in
          let b := signed b_sign b_mag in
          if swapped then Ok (g, b, a) else Ok (g, a, b))).

Definition lehmer_gcd_ext_asis (fuel : nat) (w x y : Z) : result (Z * Z * Z) :=
  lehmer_gcd_ext_gen true fuel fuel MIN_DWORD_GUESS_LEN w x y.

(** the variant whose sign line is [swapped ^= cx < 0] *)
Definition lehmer_gcd_ext_nozero (fuel : nat) (w x y : Z) : result (Z * Z * Z) :=
  lehmer_gcd_ext_gen false fuel fuel MIN_DWORD_GUESS_LEN w x y.
