(** C07: fmt/mod.rs InRadixWriter::format_prepared lays the text out exactly as
    core::fmt::Formatter::pad_integral does, for every flag combination (sign, '+', '#', '0', width,
    fill, alignment); hence Display/Binary/Octal/LowerHex/UpperHex/in_radix = fmt_spec wherever the
    digit generator is correct (IoRadix.v, IoPow2.v). *)
From Dashu Require Import Base.Prelude Base.Words Int.IoSpec Int.IoModel Int.IoDigits Int.IoPrint Int.IoParse Int.IoRadix.
Open Scope Z_scope.

Lemma center_split p : (p + 1) / 2 = p - p / 2.
Proof. pose proof (Z.div_mod p 2 ltac:(lia)). pose proof (Z.mod_pos_bound p 2 ltac:(lia)).
  pose proof (Z.div_mod (p + 1) 2 ltac:(lia)). pose proof (Z.mod_pos_bound (p + 1) 2 ltac:(lia)). lia. Qed.

Theorem format_prepared_correct f neg prefix digits :
  format_prepared_asis f neg (if f_alt f then prefix else []) digits = pad_integral_spec f (negb neg) prefix digits.
Proof.
  unfold format_prepared_asis, pad_integral_spec. rewrite negb_involutive.
  set (sg := if neg then [45] else if f_plus f then [43] else []).
  set (pre := if f_alt f then prefix else []).
  replace (len digits + (len sg + len pre)) with (len digits + len sg + len pre) by lia.
  set (width := len digits + len sg + len pre).
  destruct (f_width f) as [min|]; [|reflexivity].
  rewrite Z.geb_leb. destruct (min <=? width); [reflexivity|].
  destruct (f_zero f); [reflexivity|].
  destruct (f_align f) as [[| |]|].
  - rewrite Z.sub_0_r. reflexivity.
  - replace (min - width - (min - width)) with 0 by lia. reflexivity.
  - rewrite center_split. reflexivity.
  - replace (min - width - (min - width)) with 0 by lia. reflexivity.
Qed.

Theorem fmt_asis_correct_if w k f v :
  digits_asis w (kind_radix k) (Z.abs v) = digits_spec (kind_radix k) (Z.abs v) ->
  fmt_asis w k f v = fmt_spec k f v.
Proof.
  intros Hd. unfold fmt_asis, fmt_spec. destruct (radix_valid (kind_radix k)); [|reflexivity].
  rewrite Hd, format_prepared_correct. unfold digit_text. f_equal. f_equal.
  destruct (Z.ltb_spec v 0), (Z.leb_spec 0 v); try reflexivity; lia.
Qed.

Lemma radix_valid_range r : radix_valid r = true -> 2 <= r <= 36.
Proof. unfold radix_valid. intros H. apply andb_prop in H. destruct H as [H1 H2].
  apply Z.leb_le in H1. apply Z.leb_le in H2. lia. Qed.

(** Display and in_radix of every radix that is not a power of two: the whole text, any word size
    that holds the radix *)
Theorem fmt_asis_np2_correct w k f v : 0 < w -> w mod 2 = 0 -> kind_radix k < Bw w -> is_pow2 (kind_radix k) = false ->
  fmt_asis w k f v = fmt_spec k f v.
Proof.
  intros Hw He Hr Hp. destruct (radix_valid (kind_radix k)) eqn:Ev.
  - apply fmt_asis_correct_if. unfold digits_asis. rewrite Hp.
    apply radix_valid_range in Ev. apply digits_np2_asis_total; try lia.
  - unfold fmt_asis, fmt_spec. rewrite Ev. reflexivity.
Qed.

(** a negative number is '-' followed by the layout of ... the same digits: without width the text
    of -m is '-' ++ text of m (no '+') *)
Theorem fmt_spec_negative k f m : 0 < m -> f_width f = None -> f_plus f = false ->
  forall t, fmt_spec k f m = Ok t -> fmt_spec k f (- m) = Ok (45 :: t).
Proof.
  intros Hm Hw Hp t. unfold fmt_spec. destruct (radix_valid (kind_radix k)); [|discriminate].
  unfold pad_integral_spec. rewrite Hw, Hp.
  destruct (Z.leb_spec 0 m); [|lia]. destruct (Z.leb_spec 0 (- m)); [lia|]. cbn [negb].
  rewrite Z.abs_opp. intros Heq. inversion Heq. reflexivity.
Qed.

Example fmt_spec_negative_nonvacuous :
  fmt_spec KLowerHex (mkflags false true false None None [32]) 255 = Ok [48; 120; 102; 102] /\
  fmt_spec KLowerHex (mkflags false true false None None [32]) (-255) = Ok [45; 48; 120; 102; 102].
Proof. split; vm_compute; reflexivity. Qed.

Example fmt_asis_layout_example :
  fmt_asis 64 KDisplay (mkflags true false false (Some ACenter) (Some 8) [42]) 1234 = Ok [42; 43; 49; 50; 51; 52; 42; 42].
Proof. vm_compute. reflexivity. Qed.
