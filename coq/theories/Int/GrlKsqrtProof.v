(** C12 - the Karatsuba square root kernel (integer/src/root.rs sqrt_rem / sqrt_rem_42) and
    sqrt_rem_large around it: the as-is models of GrlKsqrt.v return the integer square root and the
    remainder for EVERY normalised input, every length and every word size w >= 2, with the stated fuel
    (Zimmermann's invariant  n = s^2 + r, 0 <= r <= 2s, by induction on the length).
    No nia: every product fact is given explicitly. *)
From Dashu Require Import Base.Prelude Int.GrlSpec Int.GrlModel Int.GrlSqrtProof Int.GrlKsqrt.
Open Scope Z_scope.

Lemma b2z_range b : 0 <= b2z b <= 1.
Proof. destruct b; cbn; lia. Qed.

Lemma sub_ip_spec M x y : 0 < M -> - M <= x - y < M ->
  sub_ip M x y = (x - y + M * b2z (x <? y), x <? y).
Proof.
  intros HM Hr. unfold sub_ip. f_equal.
  destruct (Z.ltb_spec x y); cbn [b2z].
  - symmetry. apply (Z.mod_unique_pos _ _ (-1)); lia.
  - rewrite Z.mod_small by lia. lia.
Qed.

Lemma add_ip_spec M x y : 0 < M -> 0 <= x + y < 2 * M ->
  add_ip M x y = (x + y - M * b2z (M <=? x + y), M <=? x + y).
Proof.
  intros HM Hr. unfold add_ip. f_equal.
  destruct (Z.leb_spec M (x + y)); cbn [b2z].
  - symmetry. apply (Z.mod_unique_pos _ _ 1); lia.
  - rewrite Z.mod_small by lia. lia.
Qed.

Lemma as_i8_small k : -128 <= k <= 127 -> as_i8 k = k.
Proof. intros. unfold as_i8. rewrite Z.mod_small by lia. lia. Qed.

Lemma sqrt_by_rem A s R : 0 <= s -> A = s * s + R -> 0 <= R <= 2 * s -> Z.sqrt A = s.
Proof. intros Hs E HR. apply Z.sqrt_unique. unfold Z.succ. lia. Qed.

(** a signed carry [c] in front of [lo] represents R *)
Lemma rep_carry M c lo R : 0 < M -> 0 <= lo < M -> R = c * M + lo ->
  R mod M = lo /\ (M <=? R) = (0 <? c).
Proof.
  intros HM Hlo E. split.
  - symmetry. apply (Z.mod_unique_pos _ _ c); lia.
  - destruct (Z.leb_spec M R), (Z.ltb_spec 0 c); try reflexivity; exfalso.
    + assert (c * M <= 0 * M) by (apply Z.mul_le_mono_nonneg_r; lia). lia.
    + assert (1 * M <= c * M) by (apply Z.mul_le_mono_nonneg_r; lia). lia.
Qed.

Lemma kstep_abs_correct : forall L2 L H2 Hh M LL (oddn : bool) A s1 r1,
  0 < L2 -> L = 2 * L2 -> Hh = 2 * H2 -> L <= Hh -> M = Hh * L -> LL = L * L ->
  (if oddn then 2 * LL <= M else LL = M) ->
  0 <= A ->
  A / LL = s1 * s1 + r1 -> 0 <= r1 <= 2 * s1 -> H2 <= s1 < Hh ->
  exists S R, kstep_abs L Hh M LL L2 oddn A (s1, r1 mod Hh, Hh <=? r1) = Ok (S, R mod M, M <=? R)
    /\ A = S * S + R /\ 0 <= R <= 2 * S /\ 0 <= S.
Proof.
  intros L2 L H2 Hh M LL oddn A s1 r1 HL2 EL EH HLH EM ELL Hodd HA Hhi Hr1 Hs1.
  assert (0 < L) as HL by lia. assert (0 < H2) as HH2 by lia. assert (0 < Hh) as HHh by lia.
  assert (0 < M) as HM by (subst M; apply Z.mul_pos_pos; lia).
  assert (0 < LL) as HLL by (subst LL; apply Z.mul_pos_pos; lia).
  assert (0 < s1) as Hs1p by lia.
  unfold kstep_abs.
  set (b0 := A mod L). set (b1 := (A / L) mod L).
  assert (0 <= b0 < L) as Hb0 by (apply Z.mod_pos_bound; lia).
  assert (0 <= b1 < L) as Hb1 by (apply Z.mod_pos_bound; lia).
  assert (A = (A / LL) * LL + b1 * L + b0) as EA.
  { subst LL. rewrite <- Z.div_div by lia.
    transitivity (L * (L * (A / L / L) + b1) + b0); [|ring].
    unfold b1, b0. rewrite <- Z.div_mod by lia. apply Z.div_mod. lia. }
  rewrite Hhi in EA. clearbody b0 b1. clear Hhi.
  (* step 1: remove the carry of r1 *)
  set (T := Hh <=? r1).
  assert (exists r1', (if T then sub_ip Hh (r1 mod Hh) s1 else (r1 mod Hh, true)) = (r1', true)
     /\ r1 = r1' + b2z T * s1 /\ 0 <= r1' < Hh /\ (T = true -> r1' <= s1)) as [r1' [E1 [Er1 [Hr1' Hr1t]]]].
  { unfold T. destruct (Z.leb_spec Hh r1) as [G|G]; cbn [b2z].
    - assert (r1 mod Hh = r1 - Hh) as Em by (symmetry; apply (Z.mod_unique_pos _ _ 1); lia).
      rewrite Em, sub_ip_spec by lia.
      assert (r1 - Hh <? s1 = true) as Eb by (apply Z.ltb_lt; lia). rewrite Eb. cbn [b2z].
      exists (r1 - s1). split; [f_equal; lia|]. lia.
    - rewrite Z.mod_small by lia. exists r1. split; [reflexivity|]. split; [lia|]. split; [lia|]. discriminate. }
  rewrite E1. cbv beta iota zeta delta [negb].
  assert (s1 <? Hh / 2 = false) as En.
  { apply Z.ltb_ge. subst Hh. rewrite Z.mul_comm, Z.div_mul by lia. lia. }
  rewrite En. cbv beta iota.
  (* step 2: the division by s1 *)
  set (D := b1 + r1' * L).
  assert (0 <= D < Hh * L) as HD.
  { unfold D. assert (r1' * L <= (Hh - 1) * L) by (apply Z.mul_le_mono_nonneg_r; lia).
    assert (0 <= r1' * L) by (apply Z.mul_nonneg_nonneg; lia). lia. }
  pose proof (Z.div_mod D s1 ltac:(lia)) as DM. pose proof (Z.mod_pos_bound D s1 Hs1p) as HU.
  set (Q := D / s1) in *. set (U := D mod s1) in *.
  assert (0 <= Q < 2 * L) as HQ.
  { split; [apply Z.div_pos; lia|]. apply Z.div_lt_upper_bound; [lia|].
    assert (Hh * L <= (2 * s1) * L) by (apply Z.mul_le_mono_nonneg_r; lia). lia. }
  clearbody Q U.
  set (CY := L <=? Q).
  assert (Q mod L = Q - b2z CY * L) as EQlo.
  { unfold CY. destruct (Z.leb_spec L Q); cbn [b2z].
    - symmetry. apply (Z.mod_unique_pos _ _ 1); lia.
    - rewrite Z.mod_small; lia. }
  set (Qlo := Q mod L) in *.
  assert (0 <= Qlo < L) as HQlo by (apply Z.mod_pos_bound; lia).
  pose proof (Z.div_mod Qlo 2 ltac:(lia)) as DQ. pose proof (Z.mod_pos_bound Qlo 2 ltac:(lia)) as Hp.
  set (p := Qlo mod 2) in *. set (qh := Qlo / 2) in *.
  set (qlow := qh + b2z (xorb T CY) * L2).
  set (QT := T && CY).
  assert (0 <= qlow < L) as Hqlow.
  { unfold qlow. assert (0 <= qh < L2) by lia. destruct (xorb T CY); cbn [b2z]; lia. }
  set (q := qlow + b2z QT * L).
  assert (Q + b2z T * L = 2 * q + p) as EQf.
  { unfold q, qlow, QT. destruct T, CY; cbn [xorb andb b2z] in *; lia. }
  set (u := U + p * s1).
  assert (r1 * L + b1 = 2 * s1 * q + u /\ 0 <= u < 2 * s1) as [Hid Hu].
  { unfold u. assert (p * s1 = 0 \/ p * s1 = s1) as Hps.
    { assert (p = 0 \/ p = 1) as [e|e] by lia; rewrite e; lia. }
    split; [|lia]. unfold D in DM. rewrite Er1.
    replace (2 * s1 * q) with (s1 * (2 * q)) by ring. replace (2 * q) with (Q + b2z T * L - p) by lia. lia. }
  assert (0 <= q <= L) as Hq.
  { split; [unfold q; destruct QT; cbn [b2z]; lia|].
    assert (r1 * L <= (2 * s1) * L) by (apply Z.mul_le_mono_nonneg_r; lia).
    assert ((2 * s1) * q < (2 * s1) * (L + 1)) as Hlt by lia.
    apply Z.mul_lt_mono_pos_l in Hlt; lia. }
  assert (QT = true -> qlow = 0 /\ q = L) as HQT.
  { intros Eq. unfold q in *. rewrite Eq in *. cbn [b2z] in *. lia. }
  (* the odd quotient fix *)
  assert (exists ulo c0, (if Z.odd Qlo then add_ip Hh U s1 else (U, false)) = (ulo, c0)
     /\ 0 <= ulo < Hh /\ ulo + Hh * b2z c0 = u) as [ulo [c0 [E3 [Hulo Eu]]]].
  { unfold u. pose proof (Zmod_odd Qlo) as Ho. fold p in Ho. destruct (Z.odd Qlo); rewrite Ho.
    - rewrite add_ip_spec by lia.
      eexists; eexists; split; [reflexivity|].
      destruct (Z.leb_spec Hh (U + s1)); cbn [b2z] in *; lia.
    - exists U, false. cbn [b2z]. split; [reflexivity|lia]. }
  rewrite E3. cbv beta iota.
  set (q2 := if QT then 0 else qlow * qlow).
  assert (q2 + b2z QT * LL = q * q) as Eq2.
  { assert (QT = true \/ QT = false) as [Eq|Eq] by (destruct QT; auto).
    - destruct (HQT Eq) as [Z0 ZL]. rewrite ZL. unfold q2. rewrite Eq. cbn [b2z]. lia.
    - unfold q2, q. rewrite Eq. cbn [b2z]. ring. }
  assert (0 <= q2) as Hq2 by (unfold q2; destruct QT; [lia|apply Z.square_nonneg]).
  assert (QT = false -> q2 = qlow * qlow) as Hq2f by (intros e; unfold q2; rewrite e; reflexivity).
  assert (QT = true -> q2 = 0) as Hq2t by (intros e; unfold q2; rewrite e; reflexivity).
  assert (exists ahi c1, (if oddn then (q2 + b2z QT * LL, b2z c0) else (q2, b2z c0 - b2z QT)) = (ahi, c1)
     /\ c1 * M - ahi = b2z c0 * M - q * q /\ 0 <= ahi < M) as [ahi [c1 [E4 [Ec1 Hahi]]]].
  { destruct oddn.
    - eexists; eexists; split; [reflexivity|]. rewrite Eq2. split; [ring|]. split; [apply Z.square_nonneg|].
      assert (q * q <= L * L) by (apply Z.mul_le_mono_nonneg; lia). lia.
    - eexists; eexists; split; [reflexivity|]. split; [rewrite <- Eq2, Hodd; ring|]. split; [lia|].
      assert (QT = true \/ QT = false) as [e|e] by (destruct QT; auto); [rewrite (Hq2t e); lia|].
      rewrite (Hq2f e). assert (qlow * qlow < L * L) by (apply Z.mul_lt_mono_nonneg; lia). lia. }
  rewrite E4. cbv beta iota.
  set (alo := b0 + ulo * L).
  assert (0 <= alo < M) as Halo.
  { unfold alo. assert (ulo * L <= (Hh - 1) * L) by (apply Z.mul_le_mono_nonneg_r; lia).
    assert (0 <= ulo * L) by (apply Z.mul_nonneg_nonneg; lia). lia. }
  rewrite sub_ip_spec by lia. cbv beta iota.
  set (bo2 := b2z (alo <? ahi)). assert (0 <= bo2 <= 1) as Hbo2 by apply b2z_range.
  set (alo2 := alo - ahi + M * bo2).
  assert (0 <= alo2 < M) as Halo2.
  { unfold alo2, bo2. destruct (Z.ltb_spec alo ahi); cbn [b2z]; lia. }
  set (c2 := c1 - bo2).
  set (R := u * L + b0 - q * q).
  assert (R = c2 * M + alo2) as ER.
  { unfold R, c2, alo2, alo. rewrite <- Eu. subst M. lia. }
  set (S := s1 * L + q).
  assert (A = S * S + R) as EAS.
  { rewrite EA. subst LL. unfold R, S.
    replace ((s1 * s1 + r1) * (L * L) + b1 * L + b0) with (s1 * s1 * L * L + (r1 * L + b1) * L + b0) by ring.
    rewrite Hid. ring. }
  assert (0 <= S) as HS by (unfold S; assert (0 <= s1 * L) by (apply Z.mul_nonneg_nonneg; lia); lia).
  destruct (Z.ltb_spec c2 0) as [Cn|Cp].
  - (* the estimate is one too big *)
    assert (R < 0) as HRn by (assert (c2 * M <= (-1) * M) by (apply Z.mul_le_mono_nonneg_r; lia); lia).
    pose proof (b2z_range QT) as HqtR.
    rewrite add_ip_spec by lia. cbv beta iota.
    set (OV := Hh <=? s1 + b2z QT). set (ov := b2z OV). assert (0 <= ov <= 1) as Hov by apply b2z_range.
    set (s1' := s1 + b2z QT - Hh * ov).
    set (b' := qlow + s1' * L).
    assert (b' = S - ov * M) as Eb' by (unfold b', s1', S, q; subst M; ring).
    assert (OV = true \/ OV = false) as HOVc by (destruct OV; auto).
    assert (QT = true \/ QT = false) as HQTc by (destruct QT; auto).
    assert (OV = true -> b' = 0 /\ ov = 1) as Hovb.
    { intros Eo. assert (Hh <= s1 + b2z QT) as G by (apply Z.leb_le; exact Eo).
      destruct HQTc as [Eq|Eq]; [|rewrite Eq in G; cbn [b2z] in G; lia].
      destruct (HQT Eq) as [Z0 ZL]. unfold b', s1', ov. rewrite Eo, Eq, Z0 in *. cbn [b2z] in *.
      replace (s1 + 1 - Hh * 1) with 0 by lia. split; [ring|reflexivity]. }
    assert (OV = false -> 0 < b' < M /\ ov = 0) as Hnovb.
    { intros Eo. assert (s1 + b2z QT < Hh) as G by (apply Z.leb_gt; exact Eo).
      unfold b', s1', ov. rewrite Eo. cbn [b2z]. rewrite Z.mul_0_r, Z.sub_0_r.
      assert ((s1 + b2z QT) * L <= (Hh - 1) * L) by (apply Z.mul_le_mono_nonneg_r; lia).
      assert (1 * L <= (s1 + b2z QT) * L) by (apply Z.mul_le_mono_nonneg_r; lia). subst M. lia. }
    assert (0 <= b' < M) as Hb'.
    { destruct HOVc as [Eo|Eo]; [destruct (Hovb Eo) as [e _]; rewrite e; lia | destruct (Hnovb Eo); lia]. }
    set (t := alo2 + 2 * b').
    assert (0 <= t < 3 * M) as Ht by (unfold t; lia).
    pose proof (Z.div_mod t M ltac:(lia)) as Dt. pose proof (Z.mod_pos_bound t M HM) as Hal3.
    assert (0 <= t / M <= 2) as Hk.
    { split; [apply Z.div_pos; lia|]. assert (t / M < 3) by (apply Z.div_lt_upper_bound; lia). lia. }
    rewrite as_i8_small by lia.
    set (k := t / M) in *. set (alo3 := t mod M) in *.
    rewrite sub_ip_spec by lia. cbv beta iota.
    set (bo3 := b2z (alo3 <? 1)). assert (0 <= bo3 <= 1) as Hbo3 by apply b2z_range.
    rewrite sub_ip_spec by lia. cbv beta iota.
    assert (xorb OV (b' <? 1) = false /\ b' - 1 + M * b2z (b' <? 1) = S - 1) as [Ex Eb''].
    { destruct HOVc as [Eo|Eo].
      - destruct (Hovb Eo) as [e1 e2]. rewrite Eo. rewrite e1, e2 in *. change (0 <? 1) with true. cbn [xorb b2z].
        split; [reflexivity|lia].
      - destruct (Hnovb Eo) as [e1 e2]. rewrite Eo. assert (b' <? 1 = false) as Eb by (apply Z.ltb_ge; lia). rewrite Eb.
        cbn [xorb b2z]. split; [reflexivity|lia]. }
    fold ov. rewrite Ex. cbv iota.
    rewrite Eb''.
    set (c4 := c2 + k + 2 * ov - bo3).
    set (alo4 := alo3 - 1 + M * bo3).
    assert (0 <= alo4 < M) as Hal4.
    { unfold alo4, bo3. destruct (Z.ltb_spec alo3 1); cbn [b2z]; lia. }
    set (R' := R + 2 * S - 1).
    assert (R' = c4 * M + alo4) as ER'.
    { unfold R', c4, alo4. rewrite ER. unfold t in Dt. lia. }
    destruct (rep_carry M c4 alo4 R' HM Hal4 ER') as [Y1 Y2].
    exists (S - 1), R'. rewrite Y1, Y2. split; [reflexivity|].
    split; [unfold R'; rewrite EAS; ring|].
    assert (0 <= R') as HR'.
    { unfold R', R, S.
      assert (L * L <= (2 * s1) * L) by (apply Z.mul_le_mono_nonneg_r; lia).
      assert (0 <= u * L) by (apply Z.mul_nonneg_nonneg; lia).
      assert (q = L \/ q <= L - 1) as [Eq|Lq] by lia.
      - rewrite Eq. lia.
      - assert (q * q <= (L - 1) * (L - 1)) by (apply Z.mul_le_mono_nonneg; lia). lia. }
    unfold R' in *. lia.
  - (* the estimate is right *)
    assert (0 <= R) as HRp by (assert (0 <= c2 * M) by (apply Z.mul_nonneg_nonneg; lia); lia).
    assert (QT = false) as Eq.
    { destruct QT eqn:Eq; [|reflexivity]. exfalso. destruct (HQT eq_refl) as [Z0 ZL].
      rewrite ZL in *. assert (r1 * L <= (2 * s1) * L) by (apply Z.mul_le_mono_nonneg_r; lia).
      assert (u <= L - 1) by lia. assert (u * L <= (L - 1) * L) by (apply Z.mul_le_mono_nonneg_r; lia).
      unfold R in HRp. lia. }
    destruct (rep_carry M c2 alo2 R HM Halo2 ER) as [Y1 Y2].
    exists S, R. rewrite Y1, Y2.
    assert (qlow + s1 * L = S) as ES by (unfold S, q; rewrite Eq; cbn [b2z]; ring).
    rewrite ES. split; [reflexivity|]. split; [exact EAS|]. split; [|exact HS].
    split; [exact HRp|]. unfold R, S. assert (0 <= q * q) by apply Z.square_nonneg.
    assert ((u + 1) * L <= (2 * s1) * L) by (apply Z.mul_le_mono_nonneg_r; lia). lia.
Qed.

Lemma lor_disjoint hi lo k : 0 <= k -> 0 <= lo < 2 ^ k -> Z.lor (hi * 2 ^ k) lo = hi * 2 ^ k + lo.
Proof.
  intros Hk Hlo.
  assert (Z.land (hi * 2 ^ k) lo = 0) as E.
  { apply Z.bits_inj'. intros n Hn. rewrite Z.land_spec, Z.bits_0.
    destruct (Z.lt_ge_cases n k).
    - rewrite Z.mul_pow2_bits_low by lia. reflexivity.
    - rewrite <- (Z.mod_small lo (2 ^ k)) by lia. rewrite Z.mod_pow2_bits_high by lia. apply andb_false_r. }
  rewrite <- Z.lxor_lor by exact E. symmetry. apply Z.add_nocarry_lxor. exact E.
Qed.

Lemma mul_half_mod x H : 0 < H -> (x * H) mod (2 * H) = (x mod 2) * H.
Proof. intros. apply Z.mul_mod_distr_r; lia. Qed.

Section K42.
Variable w : Z.
Hypothesis Hw : 2 <= w.
Let W := 2 ^ w.

Lemma sqrt_rem_42_correct : forall A, W ^ 4 <= 4 * A -> A < W ^ 4 ->
  exists S R, sqrt_rem_42 w A = Ok (S, R mod W ^ 2, W ^ 2 <=? R)
    /\ A = S * S + R /\ 0 <= R <= 2 * S /\ 0 <= S.
Proof.
  intros A HA1 HA2. unfold sqrt_rem_42. fold W.
  set (H := 2 ^ (w - 1)).
  assert (W = 2 * H) as EW.
  { unfold W, H. replace w with (1 + (w - 1)) at 1 by lia. rewrite Z.pow_add_r by lia. reflexivity. }
  assert (2 <= H) as HH.
  { unfold H. change 2 with (2 ^ 1) at 1. apply Z.pow_le_mono_r; lia. }
  assert (W ^ 2 = W * W) as EW2 by ring. assert (W ^ 4 = (W * W) * (W * W)) as EW4 by ring.
  rewrite EW2 in *. rewrite EW4 in *. clear EW2 EW4.
  assert (0 <= A) as HA0.
  { assert (0 <= (W * W) * (W * W)) by (apply Z.square_nonneg). lia. }
  assert (4 <= W) as HW4 by lia.
  set (a0 := A mod W). set (a1 := (A / W) mod W). set (hd := A / (W * W)).
  assert (0 <= a0 < W) as Ha0 by (apply Z.mod_pos_bound; lia).
  assert (0 <= a1 < W) as Ha1 by (apply Z.mod_pos_bound; lia).
  assert (A = hd * (W * W) + a1 * W + a0) as EA.
  { unfold hd. rewrite <- Z.div_div by lia.
    transitivity (W * (W * (A / W / W) + a1) + a0); [|ring].
    unfold a1, a0. rewrite <- Z.div_mod by lia. apply Z.div_mod. lia. }
  assert (H * H <= hd < W * W) as Hhd.
  { unfold hd. split.
    - apply Z.div_le_lower_bound; [lia|]. rewrite EW in *. lia.
    - apply Z.div_lt_upper_bound; lia. }
  clearbody a0 a1 hd.
  set (s1 := Z.sqrt hd).
  assert (H <= s1 < W) as Hs1.
  { unfold s1. split; [apply Z.sqrt_le_square; lia | apply Z.sqrt_lt_square; lia]. }
  pose proof (Z.sqrt_spec hd ltac:(lia)) as Hsp. fold s1 in Hsp. unfold Z.succ in Hsp.
  set (r1 := hd - s1 * s1). assert (0 <= r1 <= 2 * s1) as Hr1 by (unfold r1; lia).
  assert (hd = s1 * s1 + r1) as Ehd by (unfold r1; lia).
  clearbody s1 r1. clear Hsp.
  assert (s1 =? 0 = false) as E0 by (apply Z.eqb_neq; lia). rewrite E0. cbv iota. clear E0.
  (* r0 = (r1*W + a1) / 2 *)
  pose proof (Z.div_mod r1 W ltac:(lia)) as Dr1. pose proof (Z.mod_pos_bound r1 W ltac:(lia)) as Hrl.
  assert (0 <= r1 / W <= 1) as Hrh.
  { split; [apply Z.div_pos; lia|]. assert (r1 / W < 2) by (apply Z.div_lt_upper_bound; lia). lia. }
  set (rl := r1 mod W) in *. set (rh := r1 / W) in *. clearbody rl rh.
  pose proof (Z.div_mod rl 2 ltac:(lia)) as Drl. pose proof (Z.mod_pos_bound rl 2 ltac:(lia)) as Hrlp.
  pose proof (Z.div_mod a1 2 ltac:(lia)) as Da1. pose proof (Z.mod_pos_bound a1 2 ltac:(lia)) as Ha1p.
  set (x := rl / 2) in *. set (y := rl mod 2) in *. set (a1h := a1 / 2) in *. set (bit := a1 mod 2) in *.

  replace ((rh * H) mod W) with (rh * H).
  2:{ rewrite EW, mul_half_mod by lia. rewrite (Z.mod_small rh 2) by lia. reflexivity. }
  replace ((rl * H) mod W) with (y * H).
  2:{ rewrite EW, mul_half_mod by lia. reflexivity. }
  assert (forall hi lo, 0 <= lo < H -> Z.lor (hi * H) lo = hi * H + lo) as LorH.
  { intros hi lo Hlo. apply lor_disjoint; [lia|exact Hlo]. }
  rewrite (LorH rh x) by lia. rewrite (LorH y a1h) by lia.
  set (r0 := y * H + a1h + (rh * H + x) * W).
  assert (2 * r0 + bit = r1 * W + a1) as Er0.
  { unfold r0. rewrite Dr1, Drl, Da1. rewrite EW. ring. }
  assert (0 <= r0) as Hr0.
  { unfold r0. assert (0 <= y * H) by (apply Z.mul_nonneg_nonneg; lia).
    assert (0 <= (rh * H + x) * W) by (apply Z.mul_nonneg_nonneg; [assert (0 <= rh * H) by (apply Z.mul_nonneg_nonneg; lia)|]; lia). lia. }
  clearbody r0.
  pose proof (Z.div_mod r0 s1 ltac:(lia)) as Dq. pose proof (Z.mod_pos_bound r0 s1 ltac:(lia)) as Hu0.
  assert (0 <= r0 / s1 <= W) as Hq0.
  { split; [apply Z.div_pos; lia|]. assert (r0 / s1 < W + 1); [|lia]. apply Z.div_lt_upper_bound; [lia|].
    assert (r1 * W <= (2 * s1) * W) by (apply Z.mul_le_mono_nonneg_r; lia). lia. }
  set (q0 := r0 / s1) in *. set (u0 := r0 mod s1) in *. clearbody q0 u0.
  assert (exists q u', (if 0 <? q0 / W then (q0 - 1, u0 + s1) else (q0, u0)) = (q, u')
     /\ r0 = s1 * q + u' /\ 0 <= q <= W - 1 /\ 0 <= u' < 2 * s1
     /\ (u' < s1 \/ (q = W - 1 /\ 2 * (u' - s1) + bit <= W - 1))) as [q [u' [Eq [Er0q [Hq [Hu' Hcase]]]]]].
  { destruct (Z.eq_dec q0 W) as [e|e].
    - rewrite e, Z.div_same by lia. change (0 <? 1) with true. cbv iota.
      eexists; eexists; split; [reflexivity|]. split; [lia|]. split; [lia|]. split; [lia|]. right. split; [reflexivity|].
      assert (r1 * W <= (2 * s1) * W) by (apply Z.mul_le_mono_nonneg_r; lia). lia.
    - rewrite Z.div_small by lia. change (0 <? 0) with false. cbv iota.
      eexists; eexists; split; [reflexivity|]. split; [lia|]. split; [lia|]. split; [lia|]. left. lia. }
  rewrite Eq. cbv beta iota.
  assert (W * W <=? u' = false) as Eov by (apply Z.leb_gt; assert (4 * W <= W * W) by (apply Z.mul_le_mono_nonneg_r; lia); lia).
  rewrite Eov. cbv iota.
  assert (4 * W <= W * W) as H4W by (apply Z.mul_le_mono_nonneg_r; lia).
  rewrite (Z.mod_small (u' * 2)) by lia.
  change (u' * 2) with (u' * 2 ^ 1). rewrite lor_disjoint by (change (2 ^ 1) with 2; lia). change (2 ^ 1) with 2.
  set (u := u' * 2 + bit).
  assert (r1 * W + a1 = 2 * s1 * q + u) as Hid by (unfold u; lia).
  assert (0 <= u < 4 * s1) as Hu by (unfold u; lia).
  rewrite (Z.mod_small q W) by lia.
  pose proof (Z.div_mod u W ltac:(lia)) as Du. pose proof (Z.mod_pos_bound u W ltac:(lia)) as Hul.
  assert (0 <= u / W <= 3) as Huh.
  { split; [apply Z.div_pos; lia|]. assert (u / W < 4) by (apply Z.div_lt_upper_bound; lia). lia. }
  rewrite as_i8_small by lia.
  set (ul := u mod W) in *. set (uh := u / W) in *.
  assert (0 <= q * q <= (W - 1) * (W - 1)) as Hqq.
  { split; [apply Z.square_nonneg | apply Z.mul_le_mono_nonneg; lia]. }
  assert (0 <= a0 + ul * W < W * W) as Hx.
  { assert (ul * W <= (W - 1) * W) by (apply Z.mul_le_mono_nonneg_r; lia).
    assert (0 <= ul * W) by (apply Z.mul_nonneg_nonneg; lia). lia. }
  rewrite sub_ip_spec by lia. cbv beta iota.
  set (bo := b2z (a0 + ul * W <? q * q)). assert (0 <= bo <= 1) as Hbo by apply b2z_range.
  set (r := a0 + ul * W - q * q + W * W * bo).
  assert (0 <= r < W * W) as Hr.
  { unfold r, bo. destruct (Z.ltb_spec (a0 + ul * W) (q * q)); cbn [b2z]; lia. }
  set (c := uh - bo).
  set (R := u * W + a0 - q * q).
  assert (R = c * (W * W) + r) as ER by (unfold R, c, r; rewrite Du; ring).
  set (S := q + s1 * W).
  assert (A = S * S + R) as EAS.
  { rewrite EA, Ehd. unfold R, S.
    replace ((s1 * s1 + r1) * (W * W) + a1 * W + a0) with (s1 * s1 * W * W + (r1 * W + a1) * W + a0) by ring.
    rewrite Hid. ring. }
  assert (H * W <= s1 * W <= (W - 1) * W) as Hs1W by (split; apply Z.mul_le_mono_nonneg_r; lia).
  assert (0 < S < W * W) as HS by (unfold S; lia).
  assert (0 < W * W) as HWW by lia.
  destruct (Z.ltb_spec c 0) as [Cn|Cp].
  - assert (R < 0) as HRn by (assert (c * (W * W) <= (-1) * (W * W)) by (apply Z.mul_le_mono_nonneg_r; lia); lia).
    rewrite add_ip_spec by lia. cbv beta iota.
    assert (S =? 0 = false) as E0 by (apply Z.eqb_neq; lia). rewrite E0. cbv iota.
    set (c1 := b2z (W * W <=? r + S)). assert (0 <= c1 <= 1) as Hc1 by apply b2z_range.
    set (r2 := r + S - W * W * c1).
    assert (0 <= r2 < W * W) as Hr2.
    { unfold r2, c1. destruct (Z.leb_spec (W * W) (r + S)); cbn [b2z]; lia. }
    rewrite add_ip_spec by lia. cbv beta iota.
    set (c2 := b2z (W * W <=? r2 + (S - 1))). assert (0 <= c2 <= 1) as Hc2 by apply b2z_range.
    set (r3 := r2 + (S - 1) - W * W * c2).
    assert (0 <= r3 < W * W) as Hr3.
    { unfold r3, c2. destruct (Z.leb_spec (W * W) (r2 + (S - 1))); cbn [b2z]; lia. }
    set (R' := R + 2 * S - 1).
    assert (R' = (c + c1 + c2) * (W * W) + r3) as ER' by (unfold R', r3, r2; rewrite ER; ring).
    destruct (rep_carry (W * W) (c + c1 + c2) r3 R' HWW Hr3 ER') as [Y1 Y2].
    exists (S - 1), R'. rewrite Y1, Y2. split; [reflexivity|].
    split; [unfold R'; rewrite EAS; ring|].
    assert (0 <= R'); [|unfold R' in *; lia].
    unfold R', R, S. assert (0 <= u * W) by (apply Z.mul_nonneg_nonneg; lia).
    rewrite EW in Hs1W at 1. replace ((W - 1) * (W - 1)) with (W * W - 2 * W + 1) in Hqq by ring.
    assert (2 * H * W = W * W) by (rewrite EW at 2; ring). lia.
  - assert (0 <= R) as HRp by (assert (0 <= c * (W * W)) by (apply Z.mul_nonneg_nonneg; lia); lia).
    destruct (rep_carry (W * W) c r R HWW Hr ER) as [Y1 Y2].
    exists S, R. rewrite Y1, Y2. split; [reflexivity|]. split; [exact EAS|]. split; [|lia]. split; [exact HRp|].
    unfold R, S. destruct Hcase as [Hc|[Hc1 Hc2]].
    + assert ((u + 1) * W <= (2 * s1) * W) by (apply Z.mul_le_mono_nonneg_r; unfold u; lia). lia.
    + rewrite Hc1. unfold u.
      assert ((2 * (u' - s1) + bit) * W <= (W - 1) * W) by (apply Z.mul_le_mono_nonneg_r; lia). lia.
Qed.

End K42.

Section KS.
Variable w : Z.
Hypothesis Hw : 2 <= w.
Let W := 2 ^ w.

Definition kpost (n A : Z) (res : result (Z * Z * bool)) : Prop :=
  exists S R, res = Ok (S, R mod W ^ n, W ^ n <=? R) /\ A = S * S + R /\ 0 <= R <= 2 * S /\ 0 <= S.

Lemma W_pos : 0 < W. Proof. apply Z.pow_pos_nonneg; lia. Qed.

Lemma Wpow_half : forall k, 1 <= k -> W ^ k = 2 * 2 ^ (w * k - 1).
Proof.
  intros k Hk. unfold W. rewrite <- Z.pow_mul_r by lia.
  replace (w * k) with (1 + (w * k - 1)) at 1 by lia. rewrite Z.pow_add_r by nia. reflexivity.
Qed.

Lemma ksqrt_post : forall fuel n A, 2 <= n -> (Z.to_nat n <= fuel)%nat ->
  W ^ (2 * n) <= 4 * A -> A < W ^ (2 * n) -> kpost n A (ksqrt w fuel n A).
Proof.
  induction fuel as [|k IH]; intros n A Hn Hf HA1 HA2; [lia|].
  pose proof W_pos as HW.
  cbn [ksqrt]. destruct (Z.ltb_spec n 2); [lia|]. destruct (Z.eqb_spec n 2) as [E2|N2].
  - subst n. change (2 * 2) with 4 in *. destruct (sqrt_rem_42_correct w Hw A HA1 HA2) as [S [R HH]].
    exists S, R. exact HH.
  - set (split := n / 2). set (h := n - split).
    assert (1 <= split /\ 2 <= h < n /\ (n = 2 * split \/ n = 2 * split + 1)) as [Hsp [Hhr Hpar]].
    { unfold h, split. pose proof (Z.div_mod n 2 ltac:(lia)). pose proof (Z.mod_pos_bound n 2 ltac:(lia)). lia. }
    set (L := W ^ split). set (Hh := W ^ h). set (M := W ^ n). set (LL := W ^ (2 * split)).
    set (L2 := 2 ^ (w * split - 1)). set (H2 := 2 ^ (w * h - 1)).
    assert (L = 2 * L2) as EL by (apply Wpow_half; lia).
    assert (Hh = 2 * H2) as EH by (apply Wpow_half; lia).
    assert (0 < L2) as HL2 by (apply Z.pow_pos_nonneg; nia).
    assert (0 < H2) as HH2 by (apply Z.pow_pos_nonneg; nia).
    assert (L <= Hh) as HLH by (apply Z.pow_le_mono_r; lia).
    assert (M = Hh * L) as EM by (unfold M, Hh, L; rewrite <- Z.pow_add_r by lia; f_equal; lia).
    assert (LL = L * L) as ELL by (unfold LL, L; rewrite <- Z.pow_add_r by lia; f_equal; lia).
    assert (W ^ (2 * h) = Hh * Hh) as EHH by (unfold Hh; rewrite <- Z.pow_add_r by lia; f_equal; lia).
    assert (W ^ (2 * n) = (Hh * Hh) * LL) as EWn.
    { rewrite <- EHH. unfold LL. rewrite <- Z.pow_add_r by lia. f_equal. lia. }
    assert (0 < LL) as HLL by (apply Z.pow_pos_nonneg; lia).
    assert (if 2 * split <? n then 2 * LL <= M else LL = M) as Hodd.
    { destruct (Z.ltb_spec (2 * split) n).
      - assert (n = 2 * split + 1) as En by lia. unfold M, LL. rewrite En, Z.pow_add_r, Z.pow_1_r by lia.
        assert (2 <= W) by (unfold W; change 2 with (2 ^ 1) at 1; apply Z.pow_le_mono_r; lia). fold LL. nia.
      - unfold M, LL. f_equal. lia. }
    assert (0 <= A) as HA0.
    { assert (0 <= W ^ (2 * n)) by (apply Z.pow_nonneg; lia). lia. }
    set (hi := A / LL).
    assert (W ^ (2 * h) <= 4 * hi /\ hi < W ^ (2 * h)) as [Hhi1 Hhi2].
    { rewrite EHH. rewrite EWn in HA1, HA2. unfold hi. split.
      - assert (H2 * H2 <= A / LL); [|rewrite EH; lia].
        apply Z.div_le_lower_bound; [lia|]. rewrite EH in HA1. lia.
      - apply Z.div_lt_upper_bound; lia. }
    assert (Z.to_nat h <= k)%nat as Hfk by lia.
    destruct (IH h hi ltac:(lia) Hfk Hhi1 Hhi2) as [s1 [r1 [Eres [Ehi [Hr1 Hs1]]]]].
    change (A / (2 ^ w) ^ (2 * split)) with hi.
    rewrite Eres. cbn [rbind].
    change (kstep w n A) with (kstep_abs L Hh M LL L2 (2 * split <? n) A).
    assert (H2 <= s1 < Hh) as Hs1b.
    { rewrite EHH in Hhi1, Hhi2. split.
      - destruct (Z.lt_ge_cases s1 H2) as [Lt|]; [exfalso|lia].
        assert ((s1 + 1) * (s1 + 1) <= H2 * H2) by (apply Z.mul_le_mono_nonneg; lia). rewrite EH in Hhi1. lia.
      - destruct (Z.lt_ge_cases s1 Hh) as [|Ge]; [lia|exfalso].
        assert (Hh * Hh <= s1 * s1) by (apply Z.mul_le_mono_nonneg; lia). lia. }
    destruct (kstep_abs_correct L2 L H2 Hh M LL (2 * split <? n) A s1 r1 HL2 EL EH HLH EM ELL Hodd HA0 Ehi Hr1 Hs1b)
      as [S [R HH]].
    exists S, R. exact HH.
Qed.

(** the kernel returns the integer square root, the low words of the remainder and its carry *)
Theorem ksqrt_correct : forall fuel n A, 2 <= n -> (Z.to_nat n <= fuel)%nat ->
  W ^ (2 * n) <= 4 * A -> A < W ^ (2 * n) ->
  ksqrt w fuel n A = Ok (Z.sqrt A, (A - Z.sqrt A * Z.sqrt A) mod W ^ n, W ^ n <=? A - Z.sqrt A * Z.sqrt A).
Proof.
  intros fuel n A Hn Hf H1 H2. destruct (ksqrt_post fuel n A Hn Hf H1 H2) as [S [R [E [EA [HR HS]]]]].
  rewrite (sqrt_by_rem A S R HS EA HR). replace (A - S * S) with R by lia. exact E.
Qed.

End KS.

Section Large.
Variable w : Z.
Hypothesis Hw : 2 <= w.
Hypothesis Hwe : w mod 2 = 0.
Let W := 2 ^ w.

(** the post-processing of sqrt_rem_large with its carries = the value-level recovery of GrlModel *)
Lemma large_post_eq : forall n x h s' r', 0 <= x -> 2 <= n -> 0 <= h <= w - 1 -> 0 <= s' < W ^ n ->
  s' * s' + r' = x * 2 ^ (2 * h) -> 0 <= r' <= 2 * s' ->
  (let shift := 2 * h in
   let rlo := r' mod W ^ n in let r_top := W ^ n <=? r' in
   if shift =? 0 then Ok (s', rlo + b2z r_top * W ^ n)
   else
     let s0 := s' mod 2 ^ (shift / 2) in
     let t := rlo + 2 * s0 * s' in
     let c1 := t / W ^ n in
     let '(t2, c2) := sub_ip (W ^ n) (t mod W ^ n) (s0 * s0) in
     let top := b2z r_top + c1 - b2z c2 in
     if (top <? 0) || (W <=? top) then Panic Undocumented else
     let buf := t2 + top * W ^ n in
     let root := Z.shiftr s' (shift / 2) in
     let buf := if w <=? shift then buf / W else buf in
     Ok (root, Z.shiftr buf (shift mod w))) = Ok (sqrt_rem_spec x).
Proof.
  intros n x h s' r' Hx Hn Hh Hs E Hr. cbv zeta.
  rewrite <- (sqrt_rem_post_correct w Hw n x h s' r' Hx ltac:(lia) Hh Hs E Hr).
  unfold sqrt_rem_post, sqrt_rem_post_gen. fold W.
  assert (0 < W) as HW by (apply Z.pow_pos_nonneg; lia).
  set (M := W ^ n). assert (0 < M) as HM by (apply Z.pow_pos_nonneg; lia).
  assert (W * W <= M) as HWM.
  { unfold M. replace (W * W) with (W ^ 2) by ring. apply Z.pow_le_mono_r; lia. }
  assert (r' mod M + b2z (M <=? r') * M = r') as Erep.
  { destruct (Z.leb_spec M r'); cbn [b2z].
    - assert (r' mod M = r' - M) as e by (symmetry; apply (Z.mod_unique_pos _ _ 1); lia). lia.
    - rewrite Z.mod_small by lia. lia. }
  destruct (Z.eqb_spec (2 * h) 0) as [Z0|NZ].
  { rewrite Erep. reflexivity. }
  replace (2 * h / 2) with h by (apply Z.div_unique_exact; lia).
  assert (0 < 2 ^ h) as HT by (apply Z.pow_pos_nonneg; lia).
  assert (2 * 2 ^ h <= W) as HTW.
  { unfold W. replace (2 * 2 ^ h) with (2 ^ (h + 1)) by (rewrite Z.pow_add_r by lia; lia). apply Z.pow_le_mono_r; lia. }
  pose proof (Z.mod_pos_bound s' (2 ^ h) HT) as Hs0. set (s0 := s' mod 2 ^ h) in *.
  pose proof (Z.mod_pos_bound r' M HM) as Hrlo. set (rlo := r' mod M) in *.
  set (rt := b2z (M <=? r')) in *. assert (0 <= rt <= 1) as Hrt by apply b2z_range.
  set (t := rlo + 2 * s0 * s').
  assert (0 <= 2 * s0 * s') as Hss by (apply Z.mul_nonneg_nonneg; lia).
  pose proof (Z.div_mod t M ltac:(lia)) as Dt. pose proof (Z.mod_pos_bound t M HM) as Htm.
  assert (0 <= s0 * s0 < M) as Hs00.
  { split; [apply Z.square_nonneg|]. assert (s0 * s0 < 2 ^ h * 2 ^ h) by (apply Z.mul_lt_mono_nonneg; lia).
    assert (2 ^ h * 2 ^ h <= W * W) by (apply Z.mul_le_mono_nonneg; lia). lia. }
  rewrite sub_ip_spec by lia. cbv beta iota.
  set (c2 := b2z (t mod M <? s0 * s0)).
  set (V := r' + 2 * s0 * s' - s0 * s0).
  (* the value of the remainder buffer and its size *)
  assert (2 ^ (2 * h) = 2 ^ h * 2 ^ h) as E2 by (replace (2 * h) with (h + h) by lia; apply Z.pow_add_r; lia).
  rewrite E2 in E.
  pose proof (sqrt_post_algebra x h s' r' ltac:(lia) ltac:(lia) E Hr) as [A1 [A2 A3]]. cbv zeta in A1, A2, A3.
  fold s0 in A1. fold V in A1.
  assert (0 <= V < W * M) as HV.
  { pose proof (Z.div_mod s' (2 ^ h) ltac:(lia)) as DM. fold s0 in DM. set (s := s' / 2 ^ h) in *.
    rewrite A1. set (d := x - s * s) in *. assert (0 <= d <= 2 * s) as Hd by lia.
    split; [apply Z.mul_nonneg_nonneg; [lia|apply Z.mul_nonneg_nonneg; lia]|].
    assert (d * (2 ^ h * 2 ^ h) <= (2 * s) * (2 ^ h * 2 ^ h)) by (apply Z.mul_le_mono_nonneg_r; [apply Z.mul_nonneg_nonneg; lia|lia]).
    assert (2 ^ h * s <= s') by lia.
    assert ((2 ^ h * s) * (2 * 2 ^ h) <= s' * (2 * 2 ^ h)) by (apply Z.mul_le_mono_nonneg_r; lia).
    assert (s' * (2 * 2 ^ h) <= s' * W) by (apply Z.mul_le_mono_nonneg_l; lia).
    assert (s' * W <= (M - 1) * W) by (apply Z.mul_le_mono_nonneg_r; lia). lia. }
  set (t2 := t mod M - s0 * s0 + M * c2).
  assert (0 <= t2 < M) as Ht2.
  { unfold t2, c2. destruct (Z.ltb_spec (t mod M) (s0 * s0)); cbn [b2z]; lia. }
  set (top := rt + t / M - c2).
  assert (t = rlo + 2 * s0 * s') as Et by reflexivity.
  assert (V = top * M + t2) as EV by (unfold V, top, t2; lia).
  assert (0 <= top < W) as Htop.
  { split.
    - destruct (Z.lt_ge_cases top 0); [exfalso|lia].
      assert (top * M <= (-1) * M) by (apply Z.mul_le_mono_nonneg_r; lia). lia.
    - destruct (Z.lt_ge_cases top W); [lia|exfalso].
      assert (W * M <= top * M) by (apply Z.mul_le_mono_nonneg_r; lia). lia. }
  assert ((top <? 0) || (W <=? top) = false) as Ec.
  { apply orb_false_iff. split; [apply Z.ltb_ge|apply Z.leb_gt]; lia. }
  rewrite Ec. cbv iota.
  replace (t2 + top * M) with V by lia.
  replace (W ^ (n + 1)) with (W * M) by (unfold M; rewrite Z.pow_add_r, Z.pow_1_r by lia; ring).
  rewrite (Z.mod_small V (W * M)) by lia.
  destruct (Z.leb_spec w (2 * h)); [|reflexivity].
  rewrite (Z.mod_small (V / W) M); [reflexivity|].
  split; [apply Z.div_pos; lia | apply Z.div_lt_upper_bound; lia].
Qed.

(** sqrt_rem_large, kernel included, returns the integer square root and the remainder for every
    integer of at least three words *)
Theorem sqrt_rem_large_asis_correct : forall x, W ^ 2 <= x -> sqrt_rem_large_asis w x = Ok (sqrt_rem_spec x).
Proof.
  intros x Hx. assert (0 < W) as HW by (apply Z.pow_pos_nonneg; lia).
  assert (0 < x) as Hx0 by (assert (0 < W ^ 2) by (apply Z.pow_pos_nonneg; lia); lia).
  unfold sqrt_rem_large_asis. fold W.
  pose proof (Z.log2_spec x Hx0) as Hb. set (b := Z.log2 x) in *.
  assert (2 * w <= b) as Hb2.
  { destruct (Z.lt_ge_cases b (2 * w)) as [Lt|]; [exfalso|lia].
    assert (2 ^ Z.succ b <= 2 ^ (2 * w)) by (apply Z.pow_le_mono_r; lia).
    assert (W ^ 2 = 2 ^ (2 * w)) by (unfold W; rewrite <- Z.pow_mul_r by lia; f_equal; lia). lia. }
  pose proof (Z.div_mod b w ltac:(lia)) as Db. pose proof (Z.mod_pos_bound b w ltac:(lia)) as Hbm.
  assert (2 <= b / w) as Hbw by (apply Z.div_le_lower_bound; lia).
  set (len := b / w + 1) in *. set (lz := w * len - (b + 1)).
  assert (0 <= lz <= w - 1) as Hlz by (unfold lz, len; lia).
  pose proof (Z.div_mod len 2 ltac:(lia)) as Dl. pose proof (Z.mod_pos_bound len 2 ltac:(lia)) as Hlm.
  pose proof (Z.div_mod lz 2 ltac:(lia)) as Dz. pose proof (Z.mod_pos_bound lz 2 ltac:(lia)) as Hzm.
  pose proof (Z.div_mod w 2 ltac:(lia)) as Dw. rewrite Hwe in Dw.
  set (n := (len + 1) / 2).
  assert (2 * n = len + len mod 2) as En.
  { unfold n. pose proof (Z.div_mod (len + 1) 2 ltac:(lia)) as D1. pose proof (Z.mod_pos_bound (len + 1) 2 ltac:(lia)).
    assert (len mod 2 = 0 \/ len mod 2 = 1) as [e|e] by lia.
    - assert ((len + 1) mod 2 = 1); [|lia]. rewrite <- Zplus_mod_idemp_l, e. reflexivity.
    - assert ((len + 1) mod 2 = 0); [|lia]. rewrite <- Zplus_mod_idemp_l, e. reflexivity. }
  assert (2 <= n) as Hn by (unfold len in *; lia).
  set (h := w / 2 * (len mod 2) + lz / 2).
  assert (w * (len mod 2) + 2 * (lz / 2) = 2 * h) as Esh by (unfold h; lia).
  assert (0 <= h <= w - 1) as Hh.
  { unfold h. assert (len mod 2 = 0 \/ len mod 2 = 1) as [e|e] by lia; rewrite e; lia. }
  rewrite Esh. set (y := x * 2 ^ (2 * h)).
  assert (0 < 2 ^ (2 * h)) as H2h by (apply Z.pow_pos_nonneg; lia).
  (* normalisation of y *)
  assert (b + 1 + 2 * h = w * (2 * n) - lz mod 2) as Ebits by (rewrite En, <- Esh; unfold lz in *; lia).
  assert (W ^ (2 * n) = 2 ^ (w * (2 * n))) as EWn by (unfold W; rewrite <- Z.pow_mul_r by lia; reflexivity).
  assert (W ^ (2 * n) <= 4 * y /\ y < W ^ (2 * n)) as [Hy1 Hy2].
  { rewrite EWn. unfold y. split.
    - assert (2 ^ (w * (2 * n)) <= 2 ^ (b + 2 * h + 2)) by (apply Z.pow_le_mono_r; lia).
      replace (2 ^ (b + 2 * h + 2)) with (4 * (2 ^ b * 2 ^ (2 * h))) in * by (rewrite !Z.pow_add_r by lia; ring).
      assert (2 ^ b * 2 ^ (2 * h) <= x * 2 ^ (2 * h)) by (apply Z.mul_le_mono_nonneg_r; lia). lia.
    - assert (2 ^ (Z.succ b + 2 * h) <= 2 ^ (w * (2 * n))) by (apply Z.pow_le_mono_r; lia).
      rewrite Z.pow_add_r in * by lia.
      assert (x * 2 ^ (2 * h) < 2 ^ Z.succ b * 2 ^ (2 * h)) by (apply Z.mul_lt_mono_pos_r; lia). lia. }
  rewrite (ksqrt_correct w Hw (ksqrt_fuel n) n y Hn ltac:(unfold ksqrt_fuel; lia) Hy1 Hy2). cbn [rbind].
  pose proof (Z.sqrt_spec y ltac:(unfold y; apply Z.mul_nonneg_nonneg; lia)) as Hsp. unfold Z.succ in Hsp.
  set (s' := Z.sqrt y) in *. set (r' := y - s' * s').
  assert (0 <= s') as Hs0 by apply Z.sqrt_nonneg.
  assert (s' < W ^ n) as Hs1.
  { destruct (Z.lt_ge_cases s' (W ^ n)); [lia|exfalso].
    assert (0 < W ^ n) by (apply Z.pow_pos_nonneg; lia).
    assert (W ^ n * W ^ n <= s' * s') by (apply Z.mul_le_mono_nonneg; lia).
    assert (W ^ (2 * n) = W ^ n * W ^ n) by (rewrite <- Z.pow_add_r by lia; f_equal; lia). lia. }
  exact (large_post_eq n x h s' r' ltac:(lia) Hn Hh ltac:(lia) ltac:(unfold r', y; lia) ltac:(unfold r'; lia)).
Qed.

End Large.

(** non-vacuity: a five-word root with 64-bit words; the recursion passes through n = 5, 3, 2 *)
Example ksqrt_correct_example :
  ksqrt 64 (ksqrt_fuel 5) 5 (2 ^ 639 + 7) =
    Ok (Z.sqrt (2 ^ 639 + 7), (2 ^ 639 + 7 - Z.sqrt (2 ^ 639 + 7) * Z.sqrt (2 ^ 639 + 7)) mod (2 ^ 64) ^ 5,
        (2 ^ 64) ^ 5 <=? 2 ^ 639 + 7 - Z.sqrt (2 ^ 639 + 7) * Z.sqrt (2 ^ 639 + 7)).
Proof. apply ksqrt_correct; [lia | lia | unfold ksqrt_fuel; lia | vm_compute; discriminate | vm_compute; reflexivity]. Qed.

Example sqrt_rem_large_asis_example : sqrt_rem_large_asis 64 (2 ^ 191 + 12345) = Ok (sqrt_rem_spec (2 ^ 191 + 12345)).
Proof. apply sqrt_rem_large_asis_correct; [lia | reflexivity | vm_compute; discriminate]. Qed.
