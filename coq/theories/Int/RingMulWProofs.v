(** C01 (L0): the WORD-LEVEL size dispatch of RingMulW.v (schoolbook / Karatsuba / word-level Toom-3 with
    div_by_word_in_place and shr_in_place at word level, chunk splitting for unbalanced operands) meets the
    kernel contract  c' + carry * B^len c = c + sign * a * b  for ALL operand lengths, every word size w >= 8,
    every admissible threshold triple (1 <= T_simple, 15 <= T_kara: Toom-3 is only entered at or above its
    MIN_LEN = 16, 1 <= CHUNK); the fuel the definitions pass always suffices; no debug assertion of the
    kernels can fire.  Since the contract determines the answer, the word-level dispatch and the dispatch of
    RingMul.v (Toom-3 interpolation at value level) are the same function on well-formed operands. *)
From Dashu Require Import Base.Prelude Base.Words Int.RingAdd Int.RingAddProofs Int.RingMul Int.RingMulProofs
  Int.RingKaraProofs Int.RingToomProofs Int.RingToomW Int.RingToomWProofs Int.RingDispatchProofs Int.RingSqrProofs
  Int.DivWordModel Int.DivWordProofs Int.RingMulW.
From DashuGen Require Import Params.
Open Scope Z_scope.

Section GenericDispatch.
Variable w : Z.
Hypothesis w_ge : 8 <= w.
Let w_pos : 0 < w. Proof. lia. Qed.
Variable toom : mulfn -> mulfn.
Variable TMIN : nat.
Hypothesis toom_ok : forall rec_same c s a b,
  pre w c a b -> length a = length b -> (TMIN <= length a)%nat -> same_ok w rec_same (length a) ->
  mul_ok w (toom rec_same) c s a b.
Variable T_simple T_kara CHUNK : nat.
Hypothesis T_simple_ok : (1 <= T_simple)%nat.
Hypothesis T_kara_ok : (3 <= T_kara)%nat.
Hypothesis T_kara_toom : (TMIN <= T_kara + 1)%nat.
Hypothesis CHUNK_ok : (1 <= CHUNK)%nat.
Notation BB := (B w).
Notation val := (value w).
Notation wfw := (wf w).
Notation msame := (mulg_same w toom T_simple T_kara).
Notation mgen := (mulg_gen w toom T_simple T_kara CHUNK).

Lemma mulg_same_ok : forall fuel c s a b, pre w c a b -> length a = length b -> (length a < fuel)%nat ->
  mul_ok w (msame fuel) c s a b.
Proof.
  induction fuel as [|f IH]; intros c s a b Hpre Lab Hf; [lia|].
  assert (Hrec : same_ok w (msame f) (length a)).
  { intros c' s' a' b' Hp' L' Hl'. apply IH; auto. lia. }
  unfold mul_ok. cbn [mulg_same].
  destruct (Nat.leb_spec (length a) T_simple) as [H1|H1]; [apply simple_chunk_ok; auto|].
  destruct (Nat.leb_spec (length a) T_kara) as [H2|H2].
  - apply karatsuba_ok; auto; lia.
  - apply toom_ok; auto; lia.
Qed.

Lemma pre_swap_g c a b : pre w c a b -> pre w c b a.
Proof. intros (Hc & Ha & Hb & L). repeat split; auto. lia. Qed.

(** the body of mul::add_signed_mul once the operands are ordered (len a >= len b) *)
Definition ordered_body_g (f : nat) : mulfn := fun c s a b =>
  if (length b <=? T_simple)%nat then
    if (length a <=? CHUNK)%nat then simple_chunk_fn w c s a b
    else split_into_chunks w (simple_chunk_fn w) (mgen f) CHUNK c s a b
  else if (length b <=? T_kara)%nat then split_into_chunks w (karatsuba_same_len w (msame f)) (mgen f) (length b) c s a b
  else split_into_chunks w (toom (msame f)) (mgen f) (length b) c s a b.

Lemma mulg_gen_unfold f c s a b :
  mgen (S f) c s a b = if (length a <? length b)%nat then ordered_body_g f c s b a else ordered_body_g f c s a b.
Proof. cbn [mulg_gen]. unfold ordered_body_g. destruct (length a <? length b)%nat; reflexivity. Qed.

Lemma mulg_gen_ordered f c s a b : pre w c a b -> (length b <= length a)%nat -> (length a + length b <= f)%nat ->
  (forall c s a b, pre w c a b -> (length a + length b < f)%nat -> mul_ok w (mgen f) c s a b) ->
  mul_ok w (ordered_body_g f) c s a b.
Proof.
  intros Hpre Hab Hf IH.
  assert (Hsame : forall m, (m <= length b)%nat -> same_ok w (msame f) m).
  { intros m Hm c' s' a' b' Hp' L' Hl'. apply mulg_same_ok; auto. lia. }
  unfold mul_ok, ordered_body_g.
  destruct (Nat.leb_spec (length b) T_simple) as [H1|H1].
  - destruct (Nat.leb_spec (length a) CHUNK) as [H3|H3]; [apply simple_chunk_ok; auto|].
    apply (split_into_chunks_ok w w_ge _ _ CHUNK (length a + length b)); auto; try lia.
    + intros c' s' a' Hp' _. apply simple_chunk_ok; auto.
    + intros c' s' a' b' Hp' Hl'. apply IH; auto. lia.
  - destruct (Nat.leb_spec (length b) T_kara) as [H2|H2].
    + apply (split_into_chunks_ok w w_ge _ _ (length b) (length a + length b)); auto; try lia.
      * intros c' s' a' Hp' Hl'. destruct Hp' as (P1 & P2 & P3 & P4).
        apply karatsuba_ok; auto; try lia; [repeat split; auto|]. apply Hsame. lia.
      * intros c' s' a' b' Hp' Hl'. apply IH; auto. lia.
    + apply (split_into_chunks_ok w w_ge _ _ (length b) (length a + length b)); auto; try lia.
      * intros c' s' a' Hp' Hl'. destruct Hp' as (P1 & P2 & P3 & P4).
        apply toom_ok; auto; try lia; [repeat split; auto|]. apply Hsame. lia.
      * intros c' s' a' b' Hp' Hl'. apply IH; auto. lia.
Qed.

Lemma mulg_gen_ok : forall fuel c s a b, pre w c a b -> (length a + length b < fuel)%nat ->
  mul_ok w (mgen fuel) c s a b.
Proof.
  induction fuel as [|f IH]; intros c s a b Hpre Hf; [lia|].
  unfold mul_ok. rewrite mulg_gen_unfold.
  destruct (Nat.ltb_spec (length a) (length b)) as [Hlt|Hge].
  - destruct (mulg_gen_ordered f c s b a (pre_swap_g c a b Hpre) ltac:(lia) ltac:(lia) IH) as (r & k & E & Lr & Wr & V).
    exists r, k. split; [exact E|]. repeat split; auto. rewrite V. ring.
  - exact (mulg_gen_ordered f c s a b Hpre ltac:(lia) ltac:(lia) IH).
Qed.

Theorem add_signed_mul_same_len_g_ok c s a b : pre w c a b -> length a = length b ->
  mul_ok w (add_signed_mul_same_len_g w toom T_simple T_kara) c s a b.
Proof. intros Hp L. unfold add_signed_mul_same_len_g, mul_ok. apply mulg_same_ok; auto. Qed.

Theorem add_signed_mul_g_ok c s a b : pre w c a b -> mul_ok w (add_signed_mul_g w toom T_simple T_kara CHUNK) c s a b.
Proof. intros Hp. unfold add_signed_mul_g, mul_ok. apply mulg_gen_ok; auto. Qed.

Theorem multiply_g_correct a b : wfw a -> wfw b ->
  exists r, multiply_g w toom T_simple T_kara CHUNK a b = Ok r /\ length r = (length a + length b)%nat /\ wfw r /\
            val r = val a * val b.
Proof.
  intros Ha Hb. unfold multiply_g. apply (product_ok w w_ge); auto.
  apply add_signed_mul_g_ok. repeat split; auto; [apply wf_repeat_zero, w_pos | apply repeat_length].
Qed.

Theorem sqr_g_correct SQR_SIMPLE a : wfw a ->
  exists r, sqr_g w toom T_simple T_kara SQR_SIMPLE a = Ok r /\ length r = (2 * length a)%nat /\ wfw r /\ val r = val a * val a.
Proof.
  intros Ha. unfold sqr_g. destruct (Nat.leb_spec (length a) SQR_SIMPLE) as [H|H].
  - eexists. split; [reflexivity|]. apply simple_square_correct; auto.
  - apply (product_ok w w_ge); auto; [lia|].
    apply add_signed_mul_same_len_g_ok; auto.
    repeat split; auto; [apply wf_repeat_zero, w_pos | rewrite repeat_length; lia].
Qed.

End GenericDispatch.

(** the contract determines the answer *)
Lemma mul_ok_unique w : 0 < w -> forall (f g : mulfn) c s a b,
  mul_ok w f c s a b -> mul_ok w g c s a b -> f c s a b = g c s a b.
Proof.
  intros Hw f g c s a b (r & k & E & Lr & Wr & V) (r' & k' & E' & Lr' & Wr' & V').
  rewrite E, E'. pose proof (value_bounds w Hw r Wr) as Br. pose proof (value_bounds w Hw r' Wr') as Br'.
  rewrite (len_eq r c Lr) in Br. rewrite (len_eq r' c Lr') in Br'.
  set (P := B w ^ len c) in *.
  assert (k = k') by nia. subst k'.
  assert (value w r = value w r') by lia.
  rewrite (value_inj w Hw r r' Wr Wr' ltac:(lia) H). reflexivity.
Qed.

Section WordLevel.
Variable w : Z.
Hypothesis w_ge : 8 <= w.
Let w_pos : 0 < w. Proof. lia. Qed.
(** num-modular's Normalized2by1Divisor::div_rem_2by1 with its contract, exactly as assumed in C02 *)
Variable div2by1 : Z -> Z -> Z * Z.
Hypothesis div2by1_ok : forall d a, norm1 w d -> 0 <= a < d * B w -> div2by1 d a = (a / d, a mod d).
Notation BB := (B w).
Notation val := (value w).
Notation wfw := (wf w).

Lemma toom_div6_ok : divk_ok w 6 (toom_div6 w div2by1).
Proof.
  intros t q r Wt E. unfold toom_div6 in E. pose proof (B_ge_256 w w_ge).
  destruct (div_by_word_correct w w_pos div2by1 div2by1_ok t 6 Wt ltac:(lia) q r E) as (V & R & Wq & Lq).
  repeat split; auto. intros Hz. lia.
Qed.

Lemma toom_shr1_ok : divk_ok w 2 (toom_shr1 w).
Proof.
  intros t q r Wt E. unfold toom_shr1 in E.
  destruct (shr_in_place_spec w w_pos t 1 Wt ltac:(lia) q r E) as (k' & -> & Hk & V & Wq & Lq).
  change (2 ^ 1) with 2 in *.
  assert (val q = val t / 2 /\ k' = val t mod 2) as (Hq & Hm).
  { split; [apply Z.div_unique with k'; lia | apply Z.mod_unique with (val q); lia]. }
  repeat split; auto. intros Hz. rewrite Hz in Hm. subst k'. reflexivity.
Qed.

(** toom_3::add_signed_mul_same_len entirely at word level *)
Theorem toom3x_ok (rec_same : mulfn) c s a b :
  pre w c a b -> length a = length b -> (16 <= length a)%nat -> same_ok w rec_same (length a) ->
  mul_ok w (toom3x_same_len w div2by1 rec_same) c s a b.
Proof. apply (toom3g_ok w w_ge); [apply toom_div6_ok | apply toom_shr1_ok]. Qed.

Variable T_simple T_kara CHUNK SQR_SIMPLE : nat.
Hypothesis T_simple_ok : (1 <= T_simple)%nat.
Hypothesis T_kara_ok : (15 <= T_kara)%nat.
Hypothesis CHUNK_ok : (1 <= CHUNK)%nat.

Theorem add_signed_mul_same_len_w_ok c s a b : pre w c a b -> length a = length b ->
  mul_ok w (add_signed_mul_same_len_w w div2by1 T_simple T_kara) c s a b.
Proof.
  apply (add_signed_mul_same_len_g_ok w w_ge _ 16 toom3x_ok T_simple T_kara CHUNK); lia.
Qed.

Theorem add_signed_mul_w_ok c s a b : pre w c a b ->
  mul_ok w (add_signed_mul_w w div2by1 T_simple T_kara CHUNK) c s a b.
Proof.
  apply (add_signed_mul_g_ok w w_ge _ 16 toom3x_ok T_simple T_kara CHUNK); lia.
Qed.

Theorem add_signed_mul_w_carry c s a b r k : pre w c a b ->
  add_signed_mul_w w div2by1 T_simple T_kara CHUNK c s a b = Ok (r, k) -> -1 <= k <= 1.
Proof.
  intros Hp E. destruct (add_signed_mul_w_ok c s a b Hp) as (r' & k' & E' & Lr & Wr & V).
  rewrite E in E'. inversion E'; subst. eapply contract_carry_range; eauto.
Qed.

Theorem multiply_w_correct a b : wfw a -> wfw b ->
  exists r, multiply_w w div2by1 T_simple T_kara CHUNK a b = Ok r /\ length r = (length a + length b)%nat /\ wfw r /\
            val r = val a * val b.
Proof.
  apply (multiply_g_correct w w_ge _ 16 toom3x_ok T_simple T_kara CHUNK); lia.
Qed.

Theorem sqr_w_correct a : wfw a ->
  exists r, sqr_w w div2by1 T_simple T_kara SQR_SIMPLE a = Ok r /\ length r = (2 * length a)%nat /\ wfw r /\ val r = val a * val a.
Proof.
  apply (sqr_g_correct w w_ge _ 16 toom3x_ok T_simple T_kara CHUNK); lia.
Qed.

(** the kernels verif_hooks::mul_kernel drives directly (which = 1, 2, 3), on their documented domain *)
Theorem simple_add_signed_mul_w_ok c s a b : pre w c a b -> (length b <= length a)%nat ->
  mul_ok w (simple_add_signed_mul_w w div2by1 T_simple T_kara CHUNK) c s a b.
Proof.
  intros Hp Hab. unfold mul_ok, simple_add_signed_mul_w.
  destruct (Nat.leb_spec (length a) CHUNK) as [H|H]; [apply simple_chunk_ok; auto|].
  apply (split_into_chunks_ok w w_ge _ _ CHUNK (S (length a + length b))); auto; try lia.
  - intros c' s' a' Hp' _. apply simple_chunk_ok; auto.
  - intros c' s' a' b' Hp' _. apply add_signed_mul_w_ok; auto.
Qed.

Theorem karatsuba_add_signed_mul_w_ok c s a b : pre w c a b -> (length b <= length a)%nat -> (2 <= length b)%nat ->
  mul_ok w (karatsuba_add_signed_mul_w w div2by1 T_simple T_kara CHUNK) c s a b.
Proof.
  intros Hp Hab Hb. unfold mul_ok, karatsuba_add_signed_mul_w.
  apply (split_into_chunks_ok w w_ge _ _ (length b) (S (length a + length b))); auto; try lia.
  - intros c' s' a' (P1 & P2 & P3 & P4) Hl'. apply karatsuba_ok; auto; try lia; [repeat split; auto|].
    intros c2 s2 a2 b2 Hp2 L2 _. apply add_signed_mul_same_len_w_ok; auto.
  - intros c' s' a' b' Hp' _. apply add_signed_mul_w_ok; auto.
Qed.

Theorem toom3_add_signed_mul_w_ok c s a b : pre w c a b -> (length b <= length a)%nat -> (16 <= length b)%nat ->
  mul_ok w (toom3_add_signed_mul_w w div2by1 T_simple T_kara CHUNK) c s a b.
Proof.
  intros Hp Hab Hb. unfold mul_ok, toom3_add_signed_mul_w.
  apply (split_into_chunks_ok w w_ge _ _ (length b) (S (length a + length b))); auto; try lia.
  - intros c' s' a' (P1 & P2 & P3 & P4) Hl'. apply toom3x_ok; auto; try lia; [repeat split; auto|].
    intros c2 s2 a2 b2 Hp2 L2 _. apply add_signed_mul_same_len_w_ok; auto.
  - intros c' s' a' b' Hp' _. apply add_signed_mul_w_ok; auto.
Qed.

(** word-level dispatch = value-level dispatch of RingMul.v on well-formed operands *)
Theorem add_signed_mul_w_eq c s a b : pre w c a b ->
  add_signed_mul_w w div2by1 T_simple T_kara CHUNK c s a b = add_signed_mul w T_simple T_kara CHUNK c s a b.
Proof.
  intros Hp. apply (mul_ok_unique w w_pos); [apply add_signed_mul_w_ok; auto|].
  apply (add_signed_mul_ok w w_ge); auto; lia.
Qed.

Theorem multiply_w_eq a b : wfw a -> wfw b ->
  multiply_w w div2by1 T_simple T_kara CHUNK a b = multiply w T_simple T_kara CHUNK a b.
Proof.
  intros Ha Hb. unfold multiply_w, multiply_g, multiply.
  change (add_signed_mul_g w (toom3x_same_len w div2by1) T_simple T_kara CHUNK) with (add_signed_mul_w w div2by1 T_simple T_kara CHUNK).
  rewrite add_signed_mul_w_eq; [reflexivity|].
  repeat split; auto; [apply wf_repeat_zero, w_pos | apply repeat_length].
Qed.

Theorem sqr_w_eq a : wfw a ->
  sqr_w w div2by1 T_simple T_kara SQR_SIMPLE a = sqr w T_simple T_kara SQR_SIMPLE a.
Proof.
  intros Ha. destruct (sqr_w_correct a Ha) as (r & E & Lr & Wr & V).
  destruct (sqr_correct w w_ge T_simple T_kara CHUNK SQR_SIMPLE T_simple_ok ltac:(lia) CHUNK_ok a Ha) as (r' & E' & Lr' & Wr' & V').
  rewrite E, E'. f_equal. apply (value_inj w w_pos); auto; lia.
Qed.

End WordLevel.

(** ------------------------------------------------------------------ with the thresholds of the source *)
Lemma source_thresholds_admissible_w :
  (1 <= src_T_simple)%nat /\ (15 <= src_T_kara)%nat /\ (1 <= src_CHUNK)%nat /\
  (* Toom-3 is entered only at or above its MIN_LEN, and the word-level proof covers every n >= MIN_LEN *)
  toom3_min_len <= mul_threshold_karatsuba + 1 /\ 16 <= toom3_min_len /\
  karatsuba_min_len <= mul_threshold_simple + 1 /\ 2 <= karatsuba_min_len.
Proof.
  unfold src_T_simple, src_T_kara, src_CHUNK, mul_threshold_simple, mul_threshold_karatsuba, mul_simple_chunk_len,
    karatsuba_min_len, toom3_min_len. lia.
Qed.

Theorem add_signed_mul_w_source_ok w : 8 <= w -> forall div2by1,
  (forall d a, norm1 w d -> 0 <= a < d * B w -> div2by1 d a = (a / d, a mod d)) ->
  forall c s a b, pre w c a b ->
  exists r carry, add_signed_mul_w w div2by1 src_T_simple src_T_kara src_CHUNK c s a b = Ok (r, carry) /\
    length r = length c /\ wf w r /\ -1 <= carry <= 1 /\
    value w r + carry * B w ^ len c = value w c + sgnz s * (value w a * value w b).
Proof.
  intros Hw d2 Hd c s a b Hp. destruct source_thresholds_admissible_w as (A1 & A2 & A3 & _).
  destruct (add_signed_mul_w_ok w Hw d2 Hd _ _ _ A1 A2 A3 c s a b Hp) as (r & k & E & Lr & Wr & V).
  exists r, k. repeat split; auto; eapply (add_signed_mul_w_carry w Hw d2 Hd _ _ _ A1 A2 A3); eauto.
Qed.

Theorem multiply_w_source_correct w : 8 <= w -> forall div2by1,
  (forall d a, norm1 w d -> 0 <= a < d * B w -> div2by1 d a = (a / d, a mod d)) ->
  forall a b, wf w a -> wf w b ->
  exists r, multiply_w w div2by1 src_T_simple src_T_kara src_CHUNK a b = Ok r /\ length r = (length a + length b)%nat /\ wf w r /\
            value w r = value w a * value w b.
Proof.
  intros Hw d2 Hd a b Ha Hb. destruct source_thresholds_admissible_w as (A1 & A2 & A3 & _).
  apply (multiply_w_correct w Hw d2 Hd _ _ _ A1 A2 A3); auto.
Qed.
