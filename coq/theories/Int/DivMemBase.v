(** C02 - the atoms that the regenerated fragment coq/gen/DivDispatch.v (tools/translate_c02_r3.py) is
    written in.  Definitions only; nothing here depends on the Rust sources. *)
From Coq Require Import ZArith List Bool.
Import ListNotations.
Open Scope Z_scope.

(** math::ceil_log2(x) = bit_len(x - 1)  (x non-zero) *)
Definition ceil_log2 (x : Z) : Z := if x <=? 1 then 0 else Z.log2 (x - 1) + 1.

(** one step of a scratch-memory trace: a block opens / closes (allocations made inside a block are released
    when it closes: `let (s, mut memory) = memory.allocate_..` shadows `memory` until the end of the block),
    an allocation of n words, a recursive same-length multiplication of n-word factors *)
Inductive mem_ev := EvOpen | EvClose | EvAlloc (n : Z) | EvCall (n : Z).

Inductive mul_kernel := KSimple | KKaratsuba | KToom3.

(** div_ops.rs::repr: the operand kinds and what a match arm does *)
Inductive own := Owned | Borrowed.          (* TypedRepr | TypedReprRef *)
Inductive rkind := KSmall | KLarge.         (* (Ref)Small(dword) | (Ref)Large(words) *)
Inductive role := RL | RR.                  (* the lhs / the rhs operand of the arm *)
Inductive short_arm :=
| ShortZero                                 (* Repr::zero()                                     (Div) *)
| ShortDword (r : role)                     (* [(Repr::zero(),] Repr::from_dword(d) [)]                *)
| ShortBuffer (r : role)                    (* [(Repr::zero(),] Repr::from_buffer(buffer | words.into()) [)] *)
| ShortCloneInto (src dst : role).          (* dst.clone_from_slice(src); .. Repr::from_buffer(dst)    *)
Inductive repr_arm :=
| ArmDword (a b : role)                     (* div_rem_dword / div_dword / rem_dword (a, b) *)
| ArmLargeDword (a b : role)                (* *_large_dword(a, b) *)
| ArmShort (s : short_arm)                  (* Small dividend, Large divisor *)
| ArmLargeLarge (c0 c1 a b : role) (s : short_arm).   (* if c0.len() >= c1.len() { *_large(a, b) } else { s } *)

(** impl_div_primitive_with_ubig! / _ibig! *)
Inductive gbig := GU | GI.
Inductive prim_trait := TDiv | TRDiv | TRem | TDivAssign | TDivRem | TDivRemAssign.
