(** C13 (round 4) - Reduced::inv, division and every expression of the multi-word ring with NO contract:
    the extended gcd is the source's (ModRingLehmer.gcd_ext_src) - gcd_ext_word / gcd_ext_dword as transcribed in round 3,
    gcd_ext_in_place = C12's as-is model, proved TOTAL with a cofactor below lhs in ModRingLehmerProofs.v (partial
    correctness: C12's GrlLehmerProof.gcd_ext_in_place_gen_correct).
    What inv_large needs from gcd_ext_in_place and where it comes from:
      g = gcd(lhs, rhs)            C12 (gcd_ext_in_place_gen_correct)
      lhs | g - b * rhs, b = sign * |b| with sign = Positive iff `swapped` after line 486      C12
      0 <= |b| < lhs  (|b| is written into the lhs_len words of the modulus buffer, zero filled, shifted back by the
                       normalisation shift and must pass is_valid: a value below the modulus)            here
      the function returns at all (no debug assertion / slice bound / checked operation)                   here. *)
From Dashu Require Import Base.Prelude Base.Words Int.GrlSpec Int.GrlModel Int.GrlLehmer Int.GrlLehmerProof
  Int.ModRingSpec Int.ModRingSpecProofs Int.ModRingPowModel Int.ModRingModel Int.ModRingProofs Int.ModRingOpsProofs Int.ModRingMain
  Int.ModRingNumModularDefs Int.ModRingNumModular Int.ModRingInst
  Int.ModRingWords Int.ModRingWordsProofs Int.ModRingWordsMulProofs Int.ModRingWordsInst Int.ModRingConv Int.ModRingConvProofs
  Int.ModRingGcdSmall Int.ModRingWordsSrc Int.ModRingConvInst Int.ModRingConvInstProofs
  Int.ModRingLehmer Int.ModRingLehmerGuess Int.ModRingLehmerProofs Int.ModRingLehmerInst
  Int.DivContracts Int.DivSrcInst Int.DivSrcInstProofs Int.DivNumModular Int.DivNumModularProofs.
From Coq Require Import Znumtheory.
Open Scope Z_scope.

Lemma divide_to_mod lhs rhs g sb : 0 < lhs -> (lhs | g - sb * rhs) -> g = 1 -> (rhs * sb) mod lhs = 1 mod lhs.
Proof.
  intros Hl [k D] ->. replace (rhs * sb) with (1 + (- k) * lhs) by lia. apply Z.mod_add. lia.
Qed.

(** gcd_ext_in_place with the constants of the source: total, meets the contract - every w >= 2, every 0 < rhs < lhs *)
Theorem lehmer_inplace_ok w lhs rhs : 2 <= w -> 0 < rhs < lhs ->
  exists g b s, lehmer_inplace_asis w lhs rhs = Ok (g, b, s) /\
    g = Z.gcd lhs rhs /\ 0 <= b < lhs /\ (lhs | g - signed s b * rhs) /\
    (g = 1 -> (rhs * signed s b) mod lhs = 1 mod lhs).
Proof.
  intros Hw Hr. unfold lehmer_inplace_asis, lehmer_fuel_log.
  assert (0 < lhs * rhs) as Pp by (apply Z.mul_pos_pos; lia).
  destruct (gcd_ext_in_place_total w Hw MIN_DWORD_GUESS_LEN (Z.to_nat (Z.log2 (lhs * rhs) + 1)) (Z.to_nat (2 * w)) lhs rhs
              ltac:(unfold MIN_DWORD_GUESS_LEN; lia) Hr (log2_fuel_bound _ Pp) ltac:(rewrite Z2Nat.id; lia))
    as (g & b & s & E & G & Hb & D).
  exists g, b, s. split; [exact E|]. split; [exact G|]. split; [exact Hb|]. split; [exact D|].
  apply (divide_to_mod lhs rhs g (signed s b)); [lia | exact D].
Qed.

(** the dispatch of inv_large as a result: Ok for every operand pair, with the contract *)
Theorem gcd_ext_src_ok w lhs rhs : 2 <= w -> 0 < rhs < lhs ->
  exists g b s, gcd_ext_src w lhs rhs = Ok (g, b, s) /\
    g = Z.gcd lhs rhs /\ 0 <= b < lhs /\ (g = 1 -> (rhs * signed s b) mod lhs = 1 mod lhs).
Proof.
  intros Hw Hr. unfold gcd_ext_src. destruct (Z.ltb_spec rhs (2 ^ w * 2 ^ w)).
  - pose proof (nwords_bound w Hw lhs ltac:(lia)) as [_ Hcap]. unfold prim_fuel.
    exact (gcd_ext_small_log_ok ((2 ^ w) ^ ModRingModel.nwords w lhs) lhs rhs Hr ltac:(unfold Words.B in Hcap; lia)).
  - destruct (lehmer_inplace_ok w lhs rhs Hw Hr) as (g & b & s & E & G & Hb & _ & C). exists g, b, s. auto.
Qed.

Theorem gcd_src_ok w : 2 <= w -> gcd_ext_ok (gcd_src w).
Proof.
  intros Hw lhs rhs Hr. unfold gcd_src. destruct (gcd_ext_src_ok w lhs rhs Hw Hr) as (g & b & s & -> & H). exact H.
Qed.

(** Reduced::inv of the multi-word ring on word lists: NO premise *)
Theorem src_inv_nocontract w : 8 <= w -> forall R r x raw, lring_ok w R r -> ring_wf w r -> wrep w R r x raw ->
  exists o, wl_inv w (gcd_src w) R raw = Ok o /\ winv_post w R r x o.
Proof.
  intros Hw R r x raw HR Hwf Hrep.
  exact (wl_inv_ok w ltac:(lia) (gcd_src w) (gcd_src_ok w ltac:(lia)) R r x raw HR Hwf Hrep).
Qed.

(** every external function of the value-level model instantiated by a transcription: NO premise *)
Theorem src_externals_nocontract w : 2 <= w -> externals_ok w (nm2by1 w) (nm3by2 w) nm_finv (gcd_src w).
Proof. intros Hw. apply (externals_nm w _ Hw). exact (gcd_src_ok w Hw). Qed.

(** ---------------- the 64-bit runs of the oracle ---------------- *)
Local Lemma w64_2 : 2 <= 64. Proof. lia. Qed.
Local Lemma w64_8 : 8 <= 64. Proof. lia. Qed.

Lemma w_inv_src_spec R r a x : lring_ok 64 R r -> ring_wf 64 r -> wrep 64 R r a x ->
  match inv_spec (r_m r) a with
  | Some iv => exists c, wl_inv 64 (gcd_src 64) R x = Ok (Some c) /\ wrep 64 R r iv c
  | None => wl_inv 64 (gcd_src 64) R x = Ok None
  end.
Proof.
  intros HR Hwf Hx. pose proof (wf_m_pos 64 r Hwf) as Hmp.
  destruct (wl_inv_ok 64 w64_2 (gcd_src 64) (gcd_src_ok 64 w64_2) R r a x HR Hwf Hx) as (o & Eo & Hp).
  pose proof (inv_spec_ok (r_m r) a Hmp) as Hs.
  destruct o as [c|], (inv_spec (r_m r) a) as [iv|]; cbn [winv_post] in Hp.
  - destruct Hp as (v & Hc & Hinv & _). destruct Hs as [Hiv _]. exists c. split; [exact Eo|].
    assert (v mod r_m r = iv) as E by (apply (inverse_unique (r_m r) a); [lia | exact Hinv | exact Hiv]).
    destruct Hc as (H1 & H2 & H3). split; [exact H1|]. split; [exact H2|]. rewrite H3, E.
    destruct Hiv as [Hr _]. rewrite (Z.mod_small iv) by lia. reflexivity.
  - destruct Hp as (v & _ & _ & G). contradiction.
  - destruct Hs as [_ G]. contradiction.
  - exact Eo.
Qed.

Local Ltac large_ring m Hl R r HR Hwf Em :=
  let H := fresh in
  assert (Words.B 64 * Words.B 64 <= m) as H by (unfold is_large in Hl; apply Z.leb_le in Hl; unfold Words.B; exact Hl);
  destruct (wl_new_ok 64 w64_2 0 m H) as (R & r & Enew & _ & HR & Hwf & Em & _); rewrite Enew; cbn [rbind]; clear H.
Local Ltac wred R r a HR Hwf x Hx := destruct (w_reduce_ok R r a HR Hwf) as (x & Ered & Hx); rewrite Ered; clear Ered; cbn [rbind].

Theorem hrun_inv_src_correct m a : 1 <= m -> hrun_inv_src m a = Ok (inv_spec m a).
Proof.
  intros Hm. unfold hrun_inv_src. destruct (is_large m) eqn:Hl; [|exact (hrun_inv_correct m a Hm)].
  large_ring m Hl R r HR Hwf Em. wred R r a HR Hwf x Hx.
  pose proof (w_inv_src_spec R r a x HR Hwf Hx) as Hi. rewrite Em in Hi.
  pose proof (inv_spec_ok m a ltac:(lia)) as Hs. destruct (inv_spec m a) as [iv|].
  - destruct Hi as (c & -> & Hc). cbn [rbind]. rewrite (w_residue_ok R r iv c HR Hwf Hc), Em. cbn [rbind].
    destruct Hs as [[Hr _] _]. rewrite Z.mod_small by lia. reflexivity.
  - rewrite Hi. reflexivity.
Qed.

Theorem hrun_div_src_correct m a b : 1 <= m -> hrun_div_src m a b = div_spec m a b.
Proof.
  intros Hm. unfold hrun_div_src. destruct (is_large m) eqn:Hl; [|exact (hrun_bin_correct ODiv m a b Hm)].
  large_ring m Hl R r HR Hwf Em. wred R r a HR Hwf x Hx. wred R r b HR Hwf y Hy.
  unfold w_div_src, div_spec. pose proof (w_inv_src_spec R r b y HR Hwf Hy) as Hi. rewrite Em in Hi.
  destruct (inv_spec m b) as [iv|].
  - destruct Hi as (c & -> & Hc). cbn [rbind].
    destruct (real_mul_ops_nm 64 (c01_mul_sub 64) w64_8 (c01_mul_sub_contract 64 w64_8) R r iv a c x HR Hwf Hc Hx) as ((cm & Emul & Hmul) & _).
    rewrite KM_eq, KS_eq, KD_eq, Emul. cbn [rbind]. rewrite (w_residue_ok R r (iv * a) cm HR Hwf Hmul), Em.
    unfold mul_spec, reduce_spec. f_equal. f_equal. ring.
  - rewrite Hi. reflexivity.
Qed.

(** the probe: the gcd code returns, with the gcd and a cofactor below the modulus *)
Theorem hrun_gcd_probe_ok m a : 1 <= m -> a mod m <> 0 ->
  exists br g b s, hrun_gcd_probe m a = Ok (br, g, b, s) /\ g = Z.gcd m (a mod m) /\ 0 <= b < m /\ 1 <= br <= 3.
Proof.
  intros Hm Hn. unfold hrun_gcd_probe. destruct (Z.eqb_spec (a mod m) 0); [contradiction|].
  pose proof (Z.mod_pos_bound a m ltac:(lia)) as MB.
  destruct (gcd_ext_src_ok 64 m (a mod m) w64_2 ltac:(lia)) as (g & b & s & -> & G & Hb & _). cbn [rbind].
  exists (gcd_src_branch 64 (a mod m)), g, b, s. split; [reflexivity|]. split; [exact G|]. split; [exact Hb|].
  unfold gcd_src_branch. destruct (_ <? _); [lia|]. destruct (_ <? _); lia.
Qed.

(** non-vacuity: a three-word modulus, three-word residue: the Lehmer branch; inverse of the multi-word ring *)
Example src_inv_example :
  hrun_gcd_probe (2 ^ 190 + 7) (2 ^ 170 + 11) = Ok (3, 1, 754734920350425750578215823984127115081688326561716722320, Negative) /\
  hrun_inv_src (2 ^ 190 + 7) (2 ^ 170 + 11) = Ok (Some ((2 ^ 190 + 7) - 754734920350425750578215823984127115081688326561716722320)).
Proof. vm_compute. split; reflexivity. Qed.
