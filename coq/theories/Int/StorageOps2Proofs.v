(** C17 (round 3) - proofs about the extended storage machine of StorageOps2.v: pow (with the "actually never
    resize" claims of pow_word_base / pow_dword_base and the sufficiency of Buffer::allocate(exp + 1) /
    Buffer::allocate(2 * exp) for res.push_zeros(res.len())), sqr, gcd, div_rem, next_power_of_two,
    clear_high_bits, split_bits preserve the pool invariant, fail no guard, free every block exactly once;
    lifted to all finite histories of the extended machine.  For every word size w > 0, MAX_CAPACITY >= 8
    and every gcd kernel that honours its length contract. *)
From Dashu Require Import Base.Prelude Base.Words Int.StorageModel Int.StorageProofs Int.StorageArith Int.StorageHistory Int.StorageOps2.
From DashuGen Require Import StorageGen.
From Coq Require Import Permutation.
Open Scope Z_scope.

(* ------------------------------------------------------------------ exponent bits *)
Lemma half_step e k : 0 <= k -> e / 2 ^ k = 2 * (e / 2 ^ (k + 1)) + Z.b2z (Z.testbit e k).
Proof.
  intros Hk. rewrite Z.testbit_spec' by exact Hk.
  replace (k + 1) with (Z.succ k) by lia. rewrite Z.pow_succ_r by exact Hk.
  assert (0 < 2 ^ k) as Hp by (apply Z.pow_pos_nonneg; lia).
  rewrite (Z.mul_comm 2 (2 ^ k)), <- Z.div_div by lia.
  pose proof (Z.div_mod (e / 2 ^ k) 2 ltac:(lia)). lia.
Qed.

Lemma top_bit e : 1 <= e -> e / 2 ^ Z.log2 e = 1.
Proof.
  intros H. destruct (Z.log2_spec e ltac:(lia)) as [H1 H2]. rewrite Z.pow_succ_r in H2 by apply Z.log2_nonneg.
  symmetry. apply Z.div_unique with (e - 2 ^ Z.log2 e); lia.
Qed.

Lemma shr_le e k : 0 <= e -> 0 <= k -> 0 <= e / 2 ^ k <= e.
Proof.
  intros He Hk. assert (0 < 2 ^ k) as Hp by (apply Z.pow_pos_nonneg; lia). split; [apply Z.div_pos; lia|].
  apply Z.div_le_upper_bound; [exact Hp|]. nia.
Qed.

Lemma shr_le_half e k : 0 <= e -> 0 <= k -> e / 2 ^ (k + 1) <= e / 2.
Proof.
  intros He Hk. replace (k + 1) with (Z.succ k) by lia. rewrite Z.pow_succ_r by exact Hk.
  assert (0 < 2 ^ k) by (apply Z.pow_pos_nonneg; lia). rewrite <- Z.div_div by lia.
  apply shr_le; [apply Z.div_pos; lia | exact Hk].
Qed.

Lemma log2_ge_1 e : 2 <= e -> 1 <= Z.log2 e.
Proof. intros H. change 1 with (Z.log2 2). apply Z.log2_le_mono. exact H. Qed.

Section Ops2Proofs.
Variable w : Z.
Variable M : Z.
Hypothesis w_pos : 0 < w.
Hypothesis M_big : 8 <= M.
Variable gk : list Z -> list Z -> Z * bool.
(** the contract of gcd::gcd_in_place: the result is stored in the low words of one of its two arguments *)
Hypothesis gk_ok : forall l r, 0 <= fst (gk l r) <= len (if snd (gk l r) then r else l).

Notation ReprInv := (ReprInv M).
Notation BufOK := (BufOK M).
Notation RQ := (RQ M).
Notation OQ := (OQ M).
Notation TargInv := (TargInv M).

Ltac lens := cbn [setws bws bcap bptr];
  repeat (rewrite len_app || rewrite len_cons || (rewrite len_repeat by lia) || (rewrite (len_tow' w) by lia)); lnil.

Lemma ReprInv_one : ReprInv one.
Proof. left. repeat split; auto. Qed.

Lemma wp_from_ref a F m Q : Own F m -> RQ F Q -> safe (from_ref w M a) m Q.
Proof.
  intros HO HQ. unfold from_ref. destruct (small_of a).
  - apply safe_ret. apply HQ; [exact HO | apply ReprInv_from_dword].
  - apply safe_bind. eapply (wp_bfrom M M_big); [exact HO|]. intros b m1 HO1 E1 HB1. eapply (wp_fb w M M_big); eauto.
Qed.

(* ------------------------------------------------------------------ sqr *)
Lemma wp_square_large ws F m Q : Own F m -> 2 <= len ws -> RQ F Q -> safe (square_large w M ws) m Q.
Proof.
  intros HO H2 HQ. unfold square_large, gen_square_large_request. cbv zeta.
  apply safe_bind. apply safe_guard; [apply Z.leb_le; exact H2|].
  apply safe_bind. eapply (wp_alloc M M_big); [exact HO | lia |]. intros b m1 HO1 E1 E2 HB.
  apply safe_bind. eapply wp_push_repeat; [rewrite E1; lnil; lia|].
  eapply (wp_fb w M M_big); [exact HO1 | | exact HQ].
  apply BufOK_setws; [apply BufOK_setws; [exact HB|]|]; lens; [rewrite E1; lens|]; lia.
Qed.

Lemma wp_sqr_ref a F m Q : Own F m -> TargInv a -> RQ F Q -> safe (sqr_ref w M a) m Q.
Proof.
  intros HO Ha HQ. unfold sqr_ref. destruct (small_of a) as [d|] eqn:Ea.
  - destruct (d <? Bw w).
    + apply safe_ret. apply HQ; [exact HO | apply ReprInv_from_dword].
    + cbv zeta. unfold gen_square_dword_spilled_request. apply safe_bind. eapply (wp_alloc M M_big); [exact HO | lia |]. intros b0 m1 HO1 E1 E2 HB.
      apply safe_bind. eapply wp_push; [rewrite E1; lnil; lia|].
      apply safe_bind. eapply wp_push; [lens; rewrite E1; lens; lia|].
      apply safe_bind. eapply wp_push; [lens; rewrite E1; lens; lia|].
      apply safe_bind. eapply wp_push; [lens; rewrite E1; lens; lia|].
      eapply (wp_fb w M M_big); [exact HO1 | | exact HQ].
      repeat (apply BufOK_setws; [|lens; rewrite E1; lens; lia]). exact HB.
  - pose proof (twords_len M a Ha Ea). eapply wp_square_large; eauto. lia.
Qed.

(* ------------------------------------------------------------------ pow: the loops never resize *)
(** Buffer::push_resizing on a buffer with spare capacity does not touch the allocator
    ("actually never resize" in pow_word_base / pow_dword_base) *)
Lemma push_resizing_fits b x m (Q : buffer -> mem -> Prop) :
  len (bws b) < bcap b -> Q b m -> Q (setws b (bws b ++ [x])) m -> safe (push_resizing M b x) m Q.
Proof.
  intros H H0 H1. unfold push_resizing. destruct (x =? 0); [apply safe_ret; exact H0|].
  apply safe_bind. unfold ensure_capacity.
  destruct (Z.gtb_spec (len (bws b) + 1) (bcap b)) as [Hgt|Hle]; [lia|]. cbn [andb].
  apply safe_ret. apply wp_push; [exact H | exact H1].
Qed.

Definition same_block (b0 : buffer) (m0 : mem) (lo hi : Z) : buffer -> mem -> Prop :=
  fun r m' => m' = m0 /\ bblk r = bblk b0 /\ lo <= len (bws r) <= hi.

Lemma wp_pow_square sc res m :
  2 <= len (bws res) -> 2 * len (bws res) <= bcap res -> len (bws res) <= sc ->
  safe (pow_square w sc res) m (same_block res m (2 * len (bws res)) (2 * len (bws res))).
Proof.
  intros H2 HC HS. unfold pow_square. cbv zeta.
  apply safe_bind. apply safe_guard; [apply Z.leb_le; exact HS|].
  apply safe_bind. apply wp_push_repeat; [lia|].
  apply safe_bind. apply safe_guard; [apply Z.leb_le; exact H2|].
  apply safe_ret. split; [reflexivity|]. split; [reflexivity|]. lens. lia.
Qed.

Lemma wp_word_mul_step (bit : bool) res wbase m :
  (bit = true -> len (bws res) < bcap res) ->
  safe (if bit then
          let n := len (bws res) in let v := val w (bws res) * wbase in
          push_resizing M (setws res (tow w n v)) (v / Bw w ^ n)
        else ret res) m (same_block res m (len (bws res)) (len (bws res) + Z.b2z bit)).
Proof.
  intros H. pose proof (len_nonneg (bws res)) as L0. destruct bit; cbn [Z.b2z].
  - cbv zeta. apply push_resizing_fits.
    + lens. apply H. reflexivity.
    + split; [reflexivity|]. split; [reflexivity|]. lens. lia.
    + split; [reflexivity|]. split; [reflexivity|]. lens. lia.
  - apply safe_ret. split; [reflexivity|]. split; [reflexivity|]. lia.
Qed.

Lemma BufOK_same b b' : BufOK b -> bblk b' = bblk b -> len (bws b') <= bcap b -> BufOK b'.
Proof. intros HB E HL. unfold bblk in E. injection E as _ E2. eapply BufOK_any; eauto. Qed.

Lemma bcap_same (b b' : buffer) : bblk b' = bblk b -> bcap b' = bcap b.
Proof. unfold bblk. intros E. injection E as _ E2. exact E2. Qed.

(** pow_word_base: with res = wbase^(2 * (e >> (p+1))) in at most 2 * (e >> (p+1)) words and a capacity of at
    least e + 1 words, the loop runs to the end inside the same block: every push_resizing fits and every
    res.push_zeros(res.len()) has room *)
Lemma wp_pow_word_loop sc p : forall e wbase res m,
  0 <= e -> 2 <= len (bws res) <= 2 * (e / 2 ^ (Z.of_nat p + 1)) -> e + 1 <= bcap res -> e / 2 <= sc ->
  safe (pow_word_loop w M sc p e wbase res) m (same_block res m 2 e).
Proof.
  induction p as [|p' IH]; intros e wbase res m He HL HC HSC; cbn [pow_word_loop].
  - apply safe_bind. eapply safe_mono; [apply wp_word_mul_step|].
    + intros _. pose proof (shr_le e (Z.of_nat 0) He ltac:(lia)). pose proof (half_step e (Z.of_nat 0) ltac:(lia)).
      destruct (Z.testbit e (Z.of_nat 0)); cbn [Z.b2z] in *; lia.
    + intros r m' (-> & EB & HR). apply safe_ret. split; [reflexivity|]. split; [exact EB|].
      pose proof (half_step e (Z.of_nat 0) ltac:(lia)) as HS. change (Z.of_nat 0) with 0 in *. rewrite Z.pow_0_r, Z.div_1_r in HS. lia.
  - apply safe_bind. eapply safe_mono; [apply wp_word_mul_step|].
    + intros _. pose proof (shr_le e (Z.of_nat (S p')) He ltac:(lia)). pose proof (half_step e (Z.of_nat (S p')) ltac:(lia)).
      destruct (Z.testbit e (Z.of_nat (S p'))); cbn [Z.b2z] in *; lia.
    + intros r m' (-> & EB & HR).
      pose proof (half_step e (Z.of_nat (S p')) ltac:(lia)) as HS.
      pose proof (half_step e (Z.of_nat p') ltac:(lia)) as HS'.
      replace (Z.of_nat (S p')) with (Z.of_nat p' + 1) in * by lia.
      pose proof (shr_le e (Z.of_nat p') He ltac:(lia)) as HE.
      assert (0 <= Z.b2z (Z.testbit e (Z.of_nat p')) <= 1) as Hb by (destruct (Z.testbit e (Z.of_nat p')); cbn; lia).
      pose proof (bcap_same _ _ EB) as EC.
      pose proof (shr_le_half e (Z.of_nat p') He ltac:(lia)) as HH.
      apply safe_bind. eapply safe_mono; [apply wp_pow_square; lia|].
      intros r2 m2 (-> & EB2 & HR2). pose proof (bcap_same _ _ EB2) as EC2.
      eapply safe_mono; [apply IH; [exact He | lia | lia | exact HSC]|].
      intros r3 m3 (-> & EB3 & HR3). split; [reflexivity|]. split; [congruence | exact HR3].
Qed.

Lemma max_exp_loop_ge fuel : forall base k pw, k <= fst (max_exp_loop w fuel base k pw).
Proof.
  induction fuel as [|f IH]; intros base k pw; cbn [max_exp_loop fst]; [lia|].
  destruct (pw * base <? Bw w); cbn [fst]; [|lia]. specialize (IH base (k + 1) (pw * base)). lia.
Qed.

Lemma wp_pow_word_base base e F m Q : Own F m -> 3 <= e -> RQ F Q -> safe (pow_word_base w M base e) m Q.
Proof.
  intros HO He HQ. unfold pow_word_base, gen_pow_word_request.
  apply safe_bind. apply safe_guard; [apply Z.ltb_lt; lia|].
  destruct (base =? 0); [apply safe_ret; apply HQ; [exact HO | apply ReprInv_zero']|].
  destruct (base =? 1); [apply safe_ret; apply HQ; [exact HO | apply ReprInv_one]|].
  destruct (base =? 2).
  { eapply (wp_set_bit w M w_pos M_big); [cbn [tblks app]; exact HO | exact I | reflexivity | lia | exact HQ]. }
  destruct (is_pow2 base).
  { eapply (wp_set_bit w M w_pos M_big); [cbn [tblks app]; exact HO | exact I | reflexivity | | exact HQ].
    pose proof (Z.log2_nonneg base). nia. }
  cbv zeta. set (wexp := fst (max_exp_in_word w base)). set (wbase := snd (max_exp_in_word w base)).
  assert (1 <= wexp) as Hw by (apply max_exp_loop_ge).
  destruct (e <? wexp); [apply safe_ret; apply HQ; [exact HO | apply ReprInv_from_word]|].
  destruct (Z.ltb_spec e (2 * wexp)) as [Hlt|Hge]; [apply safe_ret; apply HQ; [exact HO | apply ReprInv_from_dword]|].
  assert (2 <= e / wexp) as Hex by (apply Z.div_le_lower_bound; lia).
  pose proof (log2_ge_1 _ Hex) as Hl.
  apply safe_bind. eapply (wp_alloc M M_big); [exact HO | lia |]. intros res m1 HO1 E1 E2 HB.
  apply safe_bind. apply safe_guard; [apply Z.leb_le; lia|].
  apply safe_bind. eapply wp_push; [rewrite E1; lnil; lia|].
  apply safe_bind. eapply wp_push; [lens; rewrite E1; lens; lia|].
  set (r2 := setws (setws res _) _).
  assert (len (bws r2) = 2) as L2 by (unfold r2; lens; rewrite E1; lens; lia).
  apply safe_bind. eapply safe_mono.
  { apply (wp_pow_word_loop _ (Z.to_nat (Z.log2 (e / wexp) + 1 - 2)) (e / wexp) wbase r2 m1); [lia | | unfold r2; lens; lia | unfold gen_pow_word_scratch_copy; lia].
    rewrite L2. replace (Z.of_nat (Z.to_nat (Z.log2 (e / wexp) + 1 - 2)) + 1) with (Z.log2 (e / wexp)) by lia.
    rewrite top_bit by lia. lia. }
  intros r3 m3 (-> & EB3 & HR3).
  assert (bblk r3 = bblk res) as EBr by (rewrite EB3; reflexivity).
  assert (BufOK r3) as HB3 by (eapply BufOK_same; [exact HB | exact EBr | lia]).
  apply safe_bind. eapply (wp_presize M M_big (setws r3 _) _ F).
  - unfold bblk in *. cbn [setws bptr bcap]. rewrite EBr. exact HO1.
  - apply BufOK_setws; [exact HB3|]. lens. destruct HB3; lia.
  - intros r4 m4 HO4 HB4. eapply (wp_fb w M M_big); eauto.
Qed.

Lemma wp_dword_mul_step (bit : bool) res base m :
  (bit = true -> len (bws res) + 2 <= bcap res) ->
  safe (if bit then
          let n := len (bws res) in let v := val w (bws res) * base in let carry := v / Bw w ^ n in
          let res' := setws res (tow w n v) in
          if 0 <? carry then r <- push res' (carry mod Bw w) ;; push_resizing M r (carry / Bw w) else ret res'
        else ret res) m (same_block res m (len (bws res)) (len (bws res) + 2 * Z.b2z bit)).
Proof.
  intros H. pose proof (len_nonneg (bws res)) as L0. destruct bit; cbn [Z.b2z].
  - specialize (H eq_refl). cbv zeta. destruct (0 <? _).
    + apply safe_bind. apply wp_push; [lens; lia|]. apply push_resizing_fits.
      * lens. lia.
      * split; [reflexivity|]. split; [reflexivity|]. lens. lia.
      * split; [reflexivity|]. split; [reflexivity|]. lens. lia.
    + apply safe_ret. split; [reflexivity|]. split; [reflexivity|]. lens. lia.
  - apply safe_ret. split; [reflexivity|]. split; [reflexivity|]. lia.
Qed.

(** pow_dword_base: at most 4 * (e >> (p+1)) words on entry, capacity at least 2 * e *)
Lemma wp_pow_dword_loop sc p : forall e base res m,
  0 <= e -> 2 <= len (bws res) <= 4 * (e / 2 ^ (Z.of_nat p + 1)) -> 2 * e <= bcap res -> e <= sc ->
  safe (pow_dword_loop w M sc p e base res) m (same_block res m 2 (2 * e)).
Proof.
  induction p as [|p' IH]; intros e base res m He HL HC HSC; cbn [pow_dword_loop].
  - pose proof (half_step e (Z.of_nat 0) ltac:(lia)) as HS. change (Z.of_nat 0) with 0 in *. rewrite Z.pow_0_r, Z.div_1_r in HS.
    apply safe_bind. eapply safe_mono; [apply wp_dword_mul_step|].
    + intros Hb. rewrite Hb in HS. cbn [Z.b2z] in HS. lia.
    + intros r m' (-> & EB & HR). apply safe_ret. split; [reflexivity|]. split; [exact EB|]. lia.
  - pose proof (half_step e (Z.of_nat (S p')) ltac:(lia)) as HS.
    pose proof (half_step e (Z.of_nat p') ltac:(lia)) as HS'.
    replace (Z.of_nat (S p')) with (Z.of_nat p' + 1) in * by lia.
    pose proof (shr_le e (Z.of_nat p') He ltac:(lia)) as HE.
    assert (0 <= Z.b2z (Z.testbit e (Z.of_nat p')) <= 1) as Hb' by (destruct (Z.testbit e (Z.of_nat p')); cbn; lia).
    apply safe_bind. eapply safe_mono; [apply wp_dword_mul_step|].
    + intros Hb. rewrite Hb in HS. cbn [Z.b2z] in HS. lia.
    + intros r m' (-> & EB & HR). pose proof (bcap_same _ _ EB) as EC.
      assert (0 <= Z.b2z (Z.testbit e (Z.of_nat p' + 1)) <= 1) as Hb by (destruct (Z.testbit e (Z.of_nat p' + 1)); cbn; lia).
      apply safe_bind. eapply safe_mono; [apply wp_pow_square; lia|].
      intros r2 m2 (-> & EB2 & HR2). pose proof (bcap_same _ _ EB2) as EC2.
      eapply safe_mono; [apply IH; [exact He | lia | lia | exact HSC]|].
      intros r3 m3 (-> & EB3 & HR3). split; [reflexivity|]. split; [congruence | exact HR3].
Qed.

Lemma wp_pow_dword_base base e F m Q : Own F m -> 3 <= e -> Bw w <= base -> RQ F Q -> safe (pow_dword_base w M base e) m Q.
Proof.
  intros HO He Hb HQ. unfold pow_dword_base, gen_pow_dword_request.
  apply safe_bind. apply safe_guard; [apply andb_true_intro; split; [apply Z.ltb_lt | apply Z.leb_le]; lia|].
  assert (2 <= e) as He2 by lia. pose proof (log2_ge_1 _ He2) as Hl.
  apply safe_bind. eapply (wp_alloc M M_big); [exact HO | lia |]. intros res m1 HO1 E1 E2 HB.
  cbv zeta. apply safe_bind. apply safe_guard; [apply Z.leb_le; lia|].
  apply safe_bind. eapply wp_push; [rewrite E1; lnil; lia|].
  apply safe_bind. eapply wp_push; [lens; rewrite E1; lens; lia|].
  apply safe_bind. eapply wp_push; [lens; rewrite E1; lens; lia|].
  apply safe_bind. eapply wp_push; [lens; rewrite E1; lens; lia|].
  set (r4 := setws (setws (setws (setws res _) _) _) _).
  assert (len (bws r4) = 4) as L4 by (unfold r4; lens; rewrite E1; lens; lia).
  apply safe_bind. eapply safe_mono.
  { apply (wp_pow_dword_loop _ (Z.to_nat (Z.log2 e + 1 - 2)) e base r4 m1); [lia | | unfold r4; lens; lia | unfold gen_pow_dword_scratch_copy; lia].
    rewrite L4. replace (Z.of_nat (Z.to_nat (Z.log2 e + 1 - 2)) + 1) with (Z.log2 e) by lia.
    rewrite top_bit by lia. lia. }
  intros r5 m5 (-> & EB5 & HR5).
  assert (bblk r5 = bblk res) as EBr by (rewrite EB5; reflexivity).
  eapply (wp_fb w M M_big); [unfold bblk in *; rewrite EBr; exact HO1 | | exact HQ].
  eapply BufOK_same; [exact HB | exact EBr | lia].
Qed.

(* ------------------------------------------------------------------ pow_large_base *)
Lemma wp_mul_large_nd lhs rhs F m Q : Own F m -> RQ F Q -> safe (mul_large_nd w M lhs rhs) m Q.
Proof.
  intros HO HQ. unfold mul_large_nd, gen_mul_large_request. cbv zeta. pose proof (len_nonneg lhs). pose proof (len_nonneg rhs).
  apply safe_bind. eapply (wp_alloc M M_big); [exact HO | lia |]. intros b m1 HO1 E1 E2 HB.
  apply safe_bind. eapply wp_push_repeat; [rewrite E1; lnil; lia|].
  eapply (wp_fb w M M_big); [exact HO1 | | exact HQ].
  apply BufOK_setws; [apply BufOK_setws; [exact HB|]|]; lens; [rewrite E1; lens|]; lia.
Qed.

Lemma wp_pow_large_loop p : forall e base res F m Q,
  Own (rblks res ++ F) m -> ReprInv res -> RQ F Q -> safe (pow_large_loop w M p e base res) m Q.
Proof.
  induction p as [|p' IH]; intros e base res F m Q HO HR HQ; cbn [pow_large_loop].
  - apply safe_bind. destruct (Z.testbit e _).
    + apply safe_bind. eapply wp_mul_large_nd; [exact HO|]. intros r m1 HO1 HR1.
      apply safe_bind. eapply wp_repr_drop; [apply Own_swap_app'; exact HO1|]. intros m2 HO2.
      apply safe_ret. apply safe_ret. apply HQ; auto.
    + apply safe_ret. apply safe_ret. apply HQ; auto.
  - apply safe_bind.
    apply (safe_mono _ _ (fun r1 m1 => Own (rblks r1 ++ F) m1 /\ ReprInv r1)).
    { destruct (Z.testbit e _).
      + apply safe_bind. eapply wp_mul_large_nd; [exact HO|]. intros r m1 HO1 HR1.
        apply safe_bind. eapply wp_repr_drop; [apply Own_swap_app'; exact HO1|]. intros m2 HO2.
        apply safe_ret. split; assumption.
      + apply safe_ret. split; assumption. }
    intros r1 m1 [HO1 HR1].
    apply safe_bind. eapply wp_mul_large_nd; [exact HO1|]. intros r2 m2 HO2 HR2.
    apply safe_bind. eapply wp_repr_drop; [apply Own_swap_app'; exact HO2|]. intros m3 HO3.
    eapply IH; eauto.
Qed.

Lemma wp_pow_large_base base e F m Q : Own F m -> 3 <= len base -> 3 <= e -> RQ F Q -> safe (pow_large_base w M base e) m Q.
Proof.
  intros HO Hb He HQ. unfold pow_large_base.
  apply safe_bind. apply safe_guard; [apply Z.ltb_lt; lia|]. cbv zeta.
  assert (2 <= e) as He2 by lia. pose proof (log2_ge_1 _ He2) as Hl.
  apply safe_bind. apply safe_guard; [apply Z.leb_le; lia|].
  apply safe_bind. eapply wp_square_large; [exact HO | lia |]. intros res m1 HO1 HR1.
  eapply wp_pow_large_loop; eauto.
Qed.

Theorem wp_pow_ref a e F m Q : Own F m -> TargInv a -> 0 <= e -> RQ F Q -> safe (pow_ref w M a e) m Q.
Proof.
  intros HO Ha He HQ. unfold pow_ref.
  destruct (Z.eqb_spec e 0); [apply safe_ret; apply HQ; [exact HO | apply ReprInv_one]|].
  destruct (Z.eqb_spec e 1); [eapply wp_from_ref; eauto|].
  destruct (Z.eqb_spec e 2); [eapply wp_sqr_ref; eauto|].
  destruct (small_of a) as [d|] eqn:Ea.
  - destruct (Z.ltb_spec d (Bw w)); [eapply wp_pow_word_base | eapply wp_pow_dword_base]; eauto; lia.
  - pose proof (twords_len M a Ha Ea). eapply wp_pow_large_base; eauto. lia.
Qed.

Lemma as_ref_inv r : ReprInv r -> TargInv (as_ref w r) /\ tblks (as_ref w r) = [].
Proof. intros H. unfold as_ref. apply (typed_ref_inv w M). apply ViewInv_view_of. exact H. Qed.

Lemma tzeros_nonneg v : 0 <= tzeros v.
Proof. unfold tzeros. apply Z.log2_nonneg. Qed.

(** IBig::pow / UBig::pow of a borrowed operand *)
Theorem wp_pow_top s a e F m Q :
  Own F m -> TargInv a -> tblks a = [] -> 0 <= e -> RQ F Q -> safe (pow_top w M s a e) m Q.
Proof.
  intros HO Ha Hr He HQ. unfold pow_top. cbv zeta. apply safe_bind.
  apply (safe_mono _ _ (fun r m1 => Own (rblks r ++ F) m1 /\ ReprInv r)).
  - destruct (tzeros (tvalue w a) =? 0).
    + eapply wp_pow_ref; eauto. intros r m1 H1 H2. split; assumption.
    + pose proof (tzeros_nonneg (tvalue w a)) as Ht.
      apply safe_bind. eapply (wp_shr_mag w M w_pos M_big a _ F); [rewrite Hr; exact HO | exact Ha | exact Ht |].
      intros t m1 HO1 HRt. destruct (as_ref_inv t HRt) as [Ta Tb].
      apply safe_bind. eapply (wp_pow_ref (as_ref w t) e (rblks t ++ F)); [exact HO1 | exact Ta | exact He |].
      intros r1 m2 HO2 HR1. destruct (typed_inv w M r1 HR1) as (T1 & T2 & _).
      apply safe_bind. eapply (wp_shl_mag w M w_pos M_big (typed w r1) _ (rblks t ++ F)); [rewrite T2; exact HO2 | exact T1 | nia |].
      intros r2 m3 HO3 HR2.
      apply safe_bind. eapply wp_repr_drop; [apply Own_swap_app'; exact HO3|]. intros m4 HO4.
      apply safe_ret. split; assumption.
  - intros r m1 [HO1 HR1]. apply safe_ret. apply HQ; [rewrite rblks_with_sign; exact HO1 | apply ReprInv_with_sign; exact HR1].
Qed.

(* ------------------------------------------------------------------ gcd *)
Lemma wp_gcd_large_dword ws d F m Q : Own F m -> RQ F Q -> safe (gcd_large_dword w M ws d) m Q.
Proof.
  intros HO HQ. unfold gcd_large_dword. destruct (d =? 0).
  - apply safe_bind. eapply (wp_bfrom M M_big); [exact HO|]. intros b m1 HO1 E1 HB1. eapply (wp_fb w M M_big); eauto.
  - cbv zeta. destruct (d <? Bw w); apply safe_ret; apply HQ; auto; [apply ReprInv_from_word | apply ReprInv_from_dword].
Qed.

Lemma wp_truncate b n m (Q : buffer -> mem -> Prop) :
  n <= len (bws b) -> Q (setws b (firstn (Z.to_nat n) (bws b))) m -> safe (truncate b n) m Q.
Proof. intros H HQ. unfold truncate. apply safe_bind. apply safe_guard; [apply Z.leb_le; exact H|]. apply safe_ret. exact HQ. Qed.

(** the buffer that holds the result is truncated to the length the kernel reports and normalized, the other
    one is freed *)
Lemma wp_gcd_finish big small g F m Q :
  Own (bblk big :: bblk small :: F) m -> BufOK big -> BufOK small -> RQ F Q ->
  safe (let k := gk (bws big) (bws small) in
        if snd k then s1 <- truncate small (fst k) ;; res <- from_buffer w M (setws s1 (tow w (fst k) g)) ;; drop_buffer big ;;; ret res
        else b1 <- truncate big (fst k) ;; res <- from_buffer w M (setws b1 (tow w (fst k) g)) ;; drop_buffer small ;;; ret res) m Q.
Proof.
  intros HO HBb HBs HQ. cbv zeta. pose proof (gk_ok (bws big) (bws small)) as Hk. destruct (snd (gk (bws big) (bws small))).
  - apply safe_bind. apply wp_truncate; [lia|].
    apply safe_bind. eapply (wp_fb_any w M M_big small); [apply Own_swap; exact HO | exact HBs | reflexivity | reflexivity | |].
    { cbn [setws bws]. rewrite (len_tow' w) by lia. destruct HBs. lia. }
    intros r m1 HO1 HR1. apply safe_bind. eapply wp_drop; [apply Own_mid; exact HO1|]. intros m2 HO2. apply safe_ret. apply HQ; auto.
  - apply safe_bind. apply wp_truncate; [lia|].
    apply safe_bind. eapply (wp_fb_any w M M_big big); [exact HO | exact HBb | reflexivity | reflexivity | |].
    { cbn [setws bws]. rewrite (len_tow' w) by lia. destruct HBb. lia. }
    intros r m1 HO1 HR1. apply safe_bind. eapply wp_drop; [apply Own_mid; exact HO1|]. intros m2 HO2. apply safe_ret. apply HQ; auto.
Qed.

Lemma wp_gcd_large w0 w1 F m Q : Own F m -> RQ F Q -> safe (gcd_large w M gk w0 w1) m Q.
Proof.
  intros HO HQ. unfold gcd_large.
  apply safe_bind. eapply (wp_bfrom M M_big); [exact HO|]. intros l m1 HO1 E1 HB1.
  apply safe_bind. eapply (wp_bfrom M M_big); [exact HO1|]. intros r m2 HO2 E2 HB2.
  destruct (cmp_words w w0 w1).
  - apply safe_bind. eapply (wp_fb w M M_big); [apply Own_swap; exact HO2 | exact HB1 |]. intros res m3 HO3 HR3.
    apply safe_bind. eapply wp_drop; [apply Own_mid; exact HO3|]. intros m4 HO4. apply safe_ret. apply HQ; auto.
  - eapply (wp_gcd_finish r l _ F); [exact HO2 | exact HB2 | exact HB1 | exact HQ].
  - eapply (wp_gcd_finish l r _ F); [apply Own_swap; exact HO2 | exact HB1 | exact HB2 | exact HQ].
Qed.

Lemma wp_release2 a b F m (Q : unit -> mem -> Prop) :
  Own (tblks a ++ tblks b ++ F) m -> (forall m', Own F m' -> Q tt m') -> safe (release a ;;; release b) m Q.
Proof.
  intros HO HQ. apply safe_bind. eapply wp_release; [exact HO|]. intros m1 HO1. eapply wp_release; [exact HO1 | exact HQ].
Qed.

Theorem wp_gcd_mag a b F m Q :
  Own (tblks a ++ tblks b ++ F) m -> OQ F Q -> safe (gcd_mag w M gk a b) m Q.
Proof.
  intros HO HQ. unfold gcd_mag. destruct (_ && _).
  - apply safe_bind. eapply wp_release; [exact HO|]. intros m1 HO1.
    apply safe_bind. eapply wp_release; [exact HO1|]. intros m2 HO2. apply safe_ret. apply HQ. exact HO2.
  - apply safe_bind.
    apply (safe_mono _ _ (fun r m1 => Own (rblks r ++ tblks a ++ tblks b ++ F) m1 /\ ReprInv r)).
    + destruct (small_of a) as [x|]; destruct (small_of b) as [y|].
      * apply safe_ret. split; [exact HO | apply ReprInv_from_dword].
      * eapply wp_gcd_large_dword; [exact HO|]. intros r m1 H1 H2. split; assumption.
      * eapply wp_gcd_large_dword; [exact HO|]. intros r m1 H1 H2. split; assumption.
      * eapply wp_gcd_large; [exact HO|]. intros r m1 H1 H2. split; assumption.
    + intros r m1 [HO1 HR1].
      apply safe_bind. eapply wp_release; [apply Own_swap_app'; exact HO1|]. intros m2 HO2.
      apply safe_bind. eapply wp_release; [apply Own_swap_app'; exact HO2|]. intros m3 HO3.
      apply safe_ret. apply HQ. cbn. auto.
Qed.

(* ------------------------------------------------------------------ div_rem *)
Lemma wp_div_rem_large lhs rhs F m (Q : repr * repr -> mem -> Prop) :
  Own (bblk lhs :: bblk rhs :: F) m -> BufOK lhs -> BufOK rhs -> len (bws rhs) <= len (bws lhs) ->
  (forall q r m', Own (rblks q ++ rblks r ++ F) m' -> ReprInv q -> ReprInv r -> Q (q, r) m') ->
  safe (div_rem_large w M lhs rhs) m Q.
Proof.
  intros HO HB HBr Hn HQ. unfold div_rem_large. cbv zeta. pose proof (len_nonneg (bws rhs)) as L0.
  apply safe_bind. eapply (wp_div_rem_in_lhs w M M_big); [exact HO | exact HB | exact Hn |]. intros l1 m1 HO1 HB1 H1.
  apply safe_bind. apply safe_guard; [apply Z.leb_le; lia|].
  apply safe_bind. apply wp_erase_front; [lia|].
  apply safe_bind. eapply (wp_fb_any w M M_big l1); [exact HO1 | exact HB1 | reflexivity | reflexivity | |].
  { cbn [setws bws]. pose proof (len_skipn_le (bws l1) (Z.to_nat (len (bws rhs)))). destruct HB1. lia. }
  intros q m2 HO2 HRq.
  apply safe_bind. eapply (wp_fb_any w M M_big rhs _ (rblks q ++ F)); [apply Own_mid; exact HO2 | exact HBr | reflexivity | reflexivity | |].
  { cbn [setws bws]. rewrite (len_tow' w) by lia. destruct HBr. lia. }
  intros r m3 HO3 HRr. apply safe_ret. apply HQ; auto. apply Own_swap_app'. exact HO3.
Qed.

Definition OQ2 (F : list (Z * Z)) (Q : outcome2 -> mem -> Prop) : Prop :=
  forall o m', match o with Done2 q r => Own (rblks q ++ rblks r ++ F) m' /\ ReprInv q /\ ReprInv r | Thrown2 _ => Own F m' end -> Q o m'.

Theorem wp_div_rem_ref a b F m Q :
  Own F m -> TargInv a -> TargInv b -> OQ2 F Q -> safe (div_rem_ref w M a b) m Q.
Proof.
  intros HO Ha Hb HQ. unfold div_rem_ref.
  destruct (small_of a) as [x|] eqn:Ea; destruct (small_of b) as [y|] eqn:Eb.
  - destruct (y =? 0); apply safe_ret; apply HQ; [exact HO|]. cbn [rblks from_dword app].
    split; [exact HO|]. split; apply ReprInv_from_dword.
  - apply safe_ret. apply HQ. cbn [rblks from_dword zero app]. split; [exact HO|]. split; [apply ReprInv_zero' | apply ReprInv_from_dword].
  - apply safe_bind. eapply (wp_bfrom M M_big); [exact HO|]. intros bf m1 HO1 E1 HB1.
    destruct (y =? 0).
    + apply safe_bind. eapply wp_drop; [exact HO1|]. intros m2 HO2. apply safe_ret. apply HQ. exact HO2.
    + cbv zeta. apply safe_bind. eapply (wp_fb_any w M M_big bf); [exact HO1 | exact HB1 | reflexivity | reflexivity | |].
      { cbn [setws bws]. pose proof (len_nonneg (bws bf)). rewrite (len_tow' w) by lia. destruct HB1. lia. }
      intros q m2 HO2 HRq. apply safe_ret. apply HQ.
      destruct (y <? Bw w); cbn [rblks from_word from_dword app]; (split; [exact HO2|]); split; auto;
        [apply ReprInv_from_word | apply ReprInv_from_dword].
  - pose proof (twords_len M a Ha Ea) as La. pose proof (twords_len M b Hb Eb) as Lb.
    destruct (Z.leb_spec (len (twords b)) (len (twords a))) as [Hle|Hgt].
    + apply safe_bind. eapply (wp_bfrom M M_big); [exact HO|]. intros l m1 HO1 E1 HB1.
      apply safe_bind. eapply (wp_bfrom M M_big); [exact HO1|]. intros r m2 HO2 E2 HB2.
      apply safe_bind. eapply wp_div_rem_large; [apply Own_swap; exact HO2 | exact HB1 | exact HB2 | rewrite E1, E2; exact Hle |].
      intros q rr m3 HO3 HRq HRr. apply safe_ret. apply HQ. cbn [fst snd]. auto.
    + apply safe_bind. eapply (wp_bfrom M M_big); [exact HO|]. intros b0 m1 HO1 E1 HB1.
      apply safe_bind. eapply (wp_fb w M M_big); [exact HO1 | exact HB1 |]. intros r m2 HO2 HR2.
      apply safe_ret. apply HQ. cbn [rblks zero app]. split; [exact HO2|]. split; [apply ReprInv_zero' | exact HR2].
Qed.

(* ------------------------------------------------------------------ bits.rs *)
Theorem wp_next_power_of_two a F m Q :
  Own (tblks a ++ F) m -> TargInv a -> is_ref a = false -> RQ F Q -> safe (next_power_of_two w M a) m Q.
Proof.
  intros HO Ha Hr HQ. destruct a as [d|b|d|ws]; cbn [next_power_of_two tblks app TargInv is_ref] in *; try discriminate.
  - destruct (_ <? _).
    + apply safe_ret. apply HQ; [exact HO | apply ReprInv_from_dword].
    + apply safe_bind. eapply (wp_alloc M M_big); [exact HO | lia |]. intros b m1 HO1 E1 E2 HB.
      apply safe_bind. eapply wp_push_repeat; [rewrite E1; lnil; lia|].
      apply safe_bind. eapply wp_push; [lens; rewrite E1; lens; lia|].
      eapply (wp_fb w M M_big); [exact HO1 | | exact HQ].
      repeat (apply BufOK_setws; [|lens; rewrite E1; lens; lia]). exact HB.
  - destruct Ha as [HB H3]. cbv zeta.
    apply safe_bind. apply safe_guard; [apply Z.ltb_lt; lia|].
    apply safe_bind. eapply (wp_presize M M_big (setws b _) _ F); [exact HO | | ].
    + apply BufOK_setws; [exact HB|]. lens. destruct HB; lia.
    + intros b1 m1 HO1 HB1. eapply (wp_fb w M M_big); eauto.
  - destruct (_ <? _).
    + apply safe_ret. apply HQ; [exact HO | apply ReprInv_from_dword].
    + apply safe_bind. eapply (wp_alloc M M_big); [exact HO | lia |]. intros b m1 HO1 E1 E2 HB.
      apply safe_bind. eapply wp_push_repeat; [rewrite E1; lnil; lia|].
      apply safe_bind. eapply wp_push; [lens; rewrite E1; lens; lia|].
      eapply (wp_fb w M M_big); [exact HO1 | | exact HQ].
      repeat (apply BufOK_setws; [|lens; rewrite E1; lens; lia]). exact HB.
Qed.

Lemma nw_nonneg n : 0 <= n -> 0 <= (n + w - 1) / w.
Proof. intros H. apply Z.div_pos; lia. Qed.

Lemma nw_pos n : 0 <= n -> n mod w <> 0 -> 0 < (n + w - 1) / w.
Proof.
  intros H Hm. apply Z.div_str_pos. split; [lia|].
  destruct (Z.eq_dec n 0) as [->|]; [rewrite Z.mod_0_l in Hm by lia; contradiction | lia].
Qed.

Lemma wp_clear_high_bits_large b n F m Q :
  Own (bblk b :: F) m -> BufOK b -> 0 <= n -> RQ F Q -> safe (clear_high_bits_large w M b n) m Q.
Proof.
  intros HO HB Hn HQ. unfold clear_high_bits_large. cbv zeta. pose proof (nw_nonneg n Hn) as H0.
  destruct (Z.gtb_spec ((n + w - 1) / w) (len (bws b))) as [Hgt|Hle]; [eapply (wp_fb w M M_big); eauto|].
  apply safe_bind. apply wp_truncate; [lia|].
  apply safe_bind. apply safe_guard.
  { cbn [setws bws]. rewrite len_firstn by lia. destruct (Z.eqb_spec (n mod w) 0); [reflexivity|]. cbn [orb].
    apply Z.ltb_lt. apply nw_pos; auto. }
  eapply (wp_fb_any w M M_big b); [exact HO | exact HB | reflexivity | reflexivity | | exact HQ].
  cbn [setws bws]. rewrite (len_tow' w) by lia. destruct HB. lia.
Qed.

Theorem wp_clear_high_bits a n F m Q :
  Own (tblks a ++ F) m -> TargInv a -> is_ref a = false -> 0 <= n -> RQ F Q -> safe (clear_high_bits w M a n) m Q.
Proof.
  intros HO Ha Hr Hn HQ. destruct a as [d|b|d|ws]; cbn [clear_high_bits tblks app TargInv is_ref] in *; try discriminate.
  - destruct (n <? 2 * w); apply safe_ret; apply HQ; auto; apply ReprInv_from_dword.
  - eapply wp_clear_high_bits_large; eauto. tauto.
  - destruct (n <? 2 * w); apply safe_ret; apply HQ; auto; apply ReprInv_from_dword.
Qed.

Theorem wp_split_bits a n F m (Q : repr * repr -> mem -> Prop) :
  Own (tblks a ++ F) m -> TargInv a -> is_ref a = false -> 0 <= n ->
  (forall lo hi m', Own (rblks lo ++ rblks hi ++ F) m' -> ReprInv lo -> ReprInv hi -> Q (lo, hi) m') ->
  safe (split_bits w M a n) m Q.
Proof.
  intros HO Ha Hr Hn HQ. destruct a as [d|b|d|ws]; cbn [split_bits tblks app TargInv is_ref] in *; try discriminate.
  - destruct (n <? 2 * w); apply safe_ret; apply HQ; cbn [rblks from_dword zero app]; auto;
      try apply ReprInv_from_dword; apply ReprInv_zero'.
  - destruct Ha as [HB H3]. destruct (n =? 0).
    + apply safe_bind. eapply (wp_fb w M M_big); [exact HO | exact HB |]. intros r m1 HO1 HR1.
      apply safe_ret. apply HQ; cbn [rblks zero app]; auto. apply ReprInv_zero'.
    + apply safe_bind. eapply (wp_shr_large_ref w M M_big); [exact HO|]. intros hi m1 HO1 HRh.
      apply safe_bind. eapply wp_clear_high_bits_large; [apply Own_mid; exact HO1 | exact HB | exact Hn |].
      intros lo m2 HO2 HRl. apply safe_ret. apply HQ; auto.
  - destruct (n <? 2 * w); apply safe_ret; apply HQ; cbn [rblks from_dword zero app]; auto;
      try apply ReprInv_from_dword; apply ReprInv_zero'.
Qed.

(* ------------------------------------------------------------------ the extended machine *)
Notation StateInv := (StateInv M).

Lemma wp_store_frame d r pool G m (Q : list repr -> mem -> Prop) :
  (d < length pool)%nat -> Own (rblks r ++ blocks pool ++ G) m ->
  (forall m', Own (blocks (set_nth d r pool) ++ G) m' -> Q (set_nth d r pool) m') ->
  safe (store d r pool) m Q.
Proof.
  intros Hd HO HQ. unfold store. apply safe_bind.
  eapply (wp_repr_drop (get d pool) (rblks r ++ blocks (set_nth d zero pool) ++ G)).
  - eapply Own_perm; [|exact HO].
    eapply perm_trans; [apply Permutation_app_head; apply Permutation_app_tail; apply (blocks_take d pool Hd)|].
    rewrite <- app_assoc. apply Permutation_app_swap_app.
  - intros m' HO'. apply safe_ret. apply HQ. eapply Own_perm; [|exact HO'].
    pose proof (blocks_set_nth d r (set_nth d zero pool)) as P. rewrite length_set_nth in P. specialize (P Hd).
    rewrite get_set_nth, Nat.eqb_refl in P by exact Hd. cbn [rblks zero app] in P. rewrite set_nth_set_nth in P.
    rewrite app_assoc. apply Permutation_app_tail. apply Permutation_sym. exact P.
Qed.

Lemma wp_store2 d e q r pool m n :
  (d < length pool)%nat -> (e < length pool)%nat -> Forall ReprInv pool -> length pool = n ->
  Own (rblks q ++ rblks r ++ blocks pool) m -> ReprInv q -> ReprInv r ->
  safe (p <- store d q pool ;; p' <- store e r p ;; ret (p', @None reason)) m
       (fun pr m' => StateInv (fst pr) m' /\ length (fst pr) = n).
Proof.
  intros Hd He HI Hn HO Hq Hr.
  apply safe_bind. eapply (wp_store_frame d q pool (rblks r)); [exact Hd | |].
  { eapply Own_perm; [|exact HO]. apply Permutation_app_head. apply Permutation_app_comm. }
  intros m1 HO1.
  apply safe_bind. eapply (wp_store_frame e r (set_nth d q pool) []); [rewrite length_set_nth; exact He | |].
  { rewrite app_nil_r. eapply Own_perm; [|exact HO1]. apply Permutation_app_comm. }
  intros m2 HO2. rewrite app_nil_r in HO2. apply safe_ret. cbn [fst].
  split; [split; [apply Forall_set_nth; [apply Forall_set_nth|]; auto | exact HO2] | rewrite !length_set_nth; exact Hn].
Qed.

Definition op2_ok (n : nat) (o : op2) : Prop :=
  match o with
  | O1 o => op_ok w M n o
  | OPow d a e => (d < n)%nat /\ (a < n)%nat /\ 0 <= e
  | OSqr d a => (d < n)%nat /\ (a < n)%nat
  | OGcd d a b => (d < n)%nat /\ opnd_ok n a /\ opnd_ok n b
  | ODivRem d e a b => (d < n)%nat /\ (e < n)%nat /\ (a < n)%nat /\ (b < n)%nat
  | ONextPow2 d => (d < n)%nat
  | OClearHigh d k => (d < n)%nat /\ 0 <= k
  | OSplit d e a k => (d < n)%nat /\ (e < n)%nat /\ (a < n)%nat /\ 0 <= k
  end.

Lemma fetch_ref i pool : (i < length pool)%nat -> Forall ReprInv pool ->
  exists s x, fetch w (ByRef i) pool = ((s, x), pool) /\ TargInv x /\ tblks x = [].
Proof.
  intros Hi HI. cbn [fetch]. eexists _, _. split; [reflexivity|].
  apply (typed_ref_inv w M). apply ViewInv_view_of. apply (get_inv M). exact HI.
Qed.

Theorem step2_safe o pool m :
  op2_ok (length pool) o -> StateInv pool m ->
  safe (step2 w M gk o pool) m (fun pr m' => StateInv (fst pr) m' /\ length (fst pr) = length pool).
Proof.
  intros Hok HS. destruct o; cbn [op2_ok] in Hok; cbn [step2].
  - apply (step_safe w M w_pos M_big); assumption.
  - (* OPow *)
    destruct HS as [HI HO]. destruct Hok as (Hd & Ha & He).
    destruct (fetch_ref a pool Ha HI) as (s & x & E & Tx & Bx). rewrite E.
    apply safe_bind. eapply (wp_pow_top s x e (blocks pool)); [exact HO | exact Tx | exact Bx | exact He |].
    intros r m1 HO1 HR. apply (wp_store_out M d (Done r) pool (length pool)); auto.
  - (* OSqr *)
    destruct HS as [HI HO]. destruct Hok as (Hd & Ha).
    destruct (fetch_ref a pool Ha HI) as (s & x & E & Tx & Bx). rewrite E.
    apply safe_bind. eapply (wp_sqr_ref x (blocks pool)); [exact HO | exact Tx |].
    intros r m1 HO1 HR. apply (wp_store_out M d (Done r) pool (length pool)); auto.
  - (* OGcd *)
    destruct HS as [HI HO]. destruct Hok as (Hd & Ha & Hb).
    destruct (fetch w a pool) as [[s0 x] p1] eqn:E1.
    destruct (fetch_spec w M a pool s0 x p1 Ha HI E1) as (L1 & I1 & T1 & P1 & _).
    destruct (fetch w b p1) as [[s1 y] p2] eqn:E2. rewrite <- L1 in Hb.
    destruct (fetch_spec w M b p1 s1 y p2 Hb I1 E2) as (L2 & I2 & T2 & P2 & _).
    apply safe_bind. eapply (wp_gcd_mag x y (blocks p2)).
    + eapply Own_perm; [|exact HO]. eapply perm_trans; [exact P1|]. apply Permutation_app_head. exact P2.
    + intros o m1 Ho. apply (wp_store_out M); auto; lia.
  - (* ODivRem *)
    destruct HS as [HI HO]. destruct Hok as (Hd & He & Ha & Hb).
    destruct (fetch_ref a pool Ha HI) as (s0 & x & E1 & Tx & Bx). rewrite E1.
    destruct (fetch_ref b pool Hb HI) as (s1 & y & E2 & Ty & By). rewrite E2.
    apply safe_bind. eapply (wp_div_rem_ref x y (blocks pool)); [exact HO | exact Tx | exact Ty |].
    intros o m1 Ho. destruct o as [q r|why]; cbn [store_out2].
    + destruct Ho as (H1 & H2 & H3). apply wp_store2; auto.
    + apply safe_ret. cbn [fst]. split; [split; assumption | reflexivity].
  - (* ONextPow2 *)
    destruct HS as [HI HO].
    destruct (fetch w (ByVal d) pool) as [[s0 x] p1] eqn:E1.
    destruct (fetch_spec w M (ByVal d) pool s0 x p1 Hok HI E1) as (L1 & I1 & T1 & P1 & R1).
    apply safe_bind. eapply (wp_next_power_of_two x (blocks p1)); [| exact T1 | exact R1 |].
    + eapply Own_perm; [exact P1 | exact HO].
    + intros r m1 HO1 HR. apply (wp_store_out M d (Done r) p1 (length pool)); auto; lia.
  - (* OClearHigh *)
    destruct HS as [HI HO]. destruct Hok as (Hd & Hk).
    destruct (fetch w (ByVal d) pool) as [[s0 x] p1] eqn:E1.
    destruct (fetch_spec w M (ByVal d) pool s0 x p1 Hd HI E1) as (L1 & I1 & T1 & P1 & R1).
    apply safe_bind. eapply (wp_clear_high_bits x n (blocks p1)); [| exact T1 | exact R1 | exact Hk |].
    + eapply Own_perm; [exact P1 | exact HO].
    + intros r m1 HO1 HR. apply (wp_store_out M d (Done r) p1 (length pool)); auto; lia.
  - (* OSplit *)
    destruct HS as [HI HO]. destruct Hok as (Hd & He & Ha & Hk).
    destruct (fetch w (ByVal a) pool) as [[s0 x] p1] eqn:E1.
    destruct (fetch_spec w M (ByVal a) pool s0 x p1 Ha HI E1) as (L1 & I1 & T1 & P1 & R1).
    apply safe_bind. eapply (wp_split_bits x n (blocks p1)); [| exact T1 | exact R1 | exact Hk |].
    + eapply Own_perm; [exact P1 | exact HO].
    + intros lo hi m1 HO1 HRl HRh. cbn [fst snd]. apply wp_store2; auto; lia.
Qed.

Theorem run2_safe ops : forall pool m,
  Forall (op2_ok (length pool)) ops -> StateInv pool m ->
  safe (run2 w M gk ops pool) m (fun pool' m' => StateInv pool' m' /\ length pool' = length pool).
Proof.
  induction ops as [|o rest IH]; intros pool m Hops HS; cbn [run2].
  - apply safe_ret. auto.
  - inversion Hops as [|? ? Ho Hrest]; subst. apply safe_bind.
    eapply safe_mono; [apply step2_safe; eauto|]. intros pr m1 [HS1 HL1]. cbn beta.
    eapply safe_mono; [apply IH; [rewrite HL1; exact Hrest | exact HS1]|]. intros pool' m' [HS' HL']. split; [exact HS' | lia].
Qed.

Corollary history2_safe n ops :
  Forall (op2_ok n) ops ->
  safe (run2 w M gk ops (repeat zero n)) mem0
       (fun pool m => StateInv pool m /\ safe (drop_all pool) m (fun _ m' => forall p, blk m' p = None)).
Proof.
  intros H. eapply safe_mono.
  - apply run2_safe; [rewrite repeat_length; exact H | apply StateInv_init].
  - intros pool m [HS _]. split; [exact HS|]. apply drop_all_safe. exact (proj2 HS).
Qed.

End Ops2Proofs.

(** the executable instance of the gcd kernel honours the contract *)
Lemma gk_inst_ok w sw : 0 < w -> forall l r,
  0 <= fst (gk_inst w sw l r) <= len (if snd (gk_inst w sw l r) then r else l).
Proof.
  intros Hw l r. unfold gk_inst. cbn [fst snd].
  assert (0 <= nwords_of w (Z.gcd (Words.value w l) (Words.value w r))) as H.
  { unfold nwords_of. destruct (_ =? 0); [lia|]. pose proof (Z.log2_nonneg (Z.gcd (Words.value w l) (Words.value w r))).
    assert (0 <= Z.log2 (Z.gcd (Words.value w l) (Words.value w r)) / w) by (apply Z.div_pos; lia). lia. }
  pose proof (len_nonneg (if sw then r else l)). lia.
Qed.

(** non-vacuity (64-bit words): 3^200 through pow_word_base's loop (wexp = 40, five squarings/multiplications in a
    buffer of capacity 8), (2^64+1)^5 through pow_dword_base, a 3-word base cubed, (-12)^3 through the shift path,
    gcd of two 3-word values with the result in either buffer, div_rem, next_power_of_two across the word
    boundary, clear_high_bits and split_bits; the ledger balances *)
Example history2_example :
  let gk := gk_inst 64 true in
  let ops := [O1 (OCtor 0%nat (CDword Positive 3)); OPow 1%nat 0%nat 200;
              O1 (OCtor 0%nat (CDword Positive (2 ^ 64 + 1))); OPow 2%nat 0%nat 5;
              O1 (OCtor 0%nat (CWords Positive [5; 0; 1])); OPow 3%nat 0%nat 3; OSqr 0%nat 3%nat;
              O1 (OCtor 0%nat (CDword Negative 12)); OPow 0%nat 0%nat 3;
              OGcd 0%nat (ByRef 1%nat) (ByVal 3%nat); ODivRem 0%nat 3%nat 1%nat 2%nat;
              ONextPow2 2%nat; OClearHigh 1%nat 130; OSplit 0%nat 3%nat 2%nat 70] in
  Forall (op2_ok 64 (2 ^ 58) 4) ops /\
  map (fun k => match run2 64 (2 ^ 58) gk (firstn k ops) (repeat zero 4) mem0 with
                | Ok (pool, m) => (nlive m, map signed_cap pool) | _ => (-1, []) end) [2; 4; 7; 9; 10; 11]%nat
  = [(1, [1; 8; 1; 1]); (2, [2; 8; 8; 1]); (4, [17; 8; 8; 11]); (3, [-1; 8; 8; 11]); (2, [1; 8; 8; 1]); (3, [1; 8; 8; 7])] /\
  match run2 64 (2 ^ 58) gk ops (repeat zero 4) mem0 with
  | Ok (pool, m) => nlive m = 2 /\ map signed_cap pool = [1; 5; 1; 7] /\
                    match drop_all pool m with Ok (_, m') => nlive m' = 0 /\ nwords m' = 0 | _ => False end
  | _ => False
  end.
Proof.
  cbn zeta. split; [|split].
  - repeat (apply Forall_cons || apply Forall_nil); cbn [op2_ok op_ok opnd_ok]; repeat split; try lia.
  - vm_compute. reflexivity.
  - vm_compute. repeat split; reflexivity.
Qed.
