(** C01 (L1): the multiplicative operator arms of mul_ops.rs (mul_large, square_large, the Small/Large
    dispatch, IBig sign rule, cubic) over the WORD-LEVEL kernels of RingMulW.v (multiply_w, sqr_w: dispatch
    with the word-level Toom-3).  Same structure as RingOps.v; only the kernels differ.  Definitions only. *)
From Dashu Require Import Base.Prelude Base.Words Int.RingAdd Int.RingMul Int.RingOps Int.RingMulW.
Open Scope Z_scope.

Section OpsW.
Variable w : Z.
Variable div2by1 : Z -> Z -> Z * Z.
Variable T_simple T_kara CHUNK SQR_SIMPLE : nat.

(** mul_ops.rs repr::square_large: zero-filled buffer of 2n words, sqr::sqr, Repr::from_buffer *)
Definition square_large_w (ws : list Z) : result trepr :=
  match sqr_w w div2by1 T_simple T_kara SQR_SIMPLE ws with
  | Ok r => Ok (from_buffer w r)
  | Panic p => Panic p | Err e => Err e | OutOfFuel => OutOfFuel
  end.

(** mul_ops.rs repr::mul_large: square shortcut when the operands are equal, else mul::multiply *)
Definition mul_large_w (lhs rhs : list Z) : result trepr :=
  if list_eqb lhs rhs then square_large_w lhs
  else match multiply_w w div2by1 T_simple T_kara CHUNK lhs rhs with
       | Ok r => Ok (from_buffer w r)
       | Panic p => Panic p | Err e => Err e | OutOfFuel => OutOfFuel
       end.

Definition repr_mul_w (x y : trepr) : result trepr :=
  match x, y with
  | Small d0, Small d1 => Ok (mul_dword w d0 d1)
  | Small d0, Large b1 => Ok (mul_large_dword w b1 d0)
  | Large b0, Small d1 => Ok (mul_large_dword w b0 d1)
  | Large b0, Large b1 => mul_large_w b0 b1
  end.

Definition repr_sqr_w (x : trepr) : result trepr :=
  match x with
  | Small d => if d <? B w then Ok (Small (d * d)) else Ok (mul_dword_spilled w d d)
  | Large ws => square_large_w ws
  end.

Definition ibig_mul_asis_w (s0 : sign) (x : trepr) (s1 : sign) (y : trepr) : result (sign * trepr) :=
  match repr_mul_w x y with
  | Ok r => Ok (with_sign (sign_mul s0 s1) r)
  | Panic p => Panic p | Err e => Err e | OutOfFuel => OutOfFuel
  end.

(** UBig::cubic / IBig::cubic: self * self.sqr() *)
Definition ubig_cubic_asis_w (x : trepr) : result trepr :=
  match repr_sqr_w x with Ok q => repr_mul_w x q | e => e end.
Definition ibig_cubic_asis_w (s : sign) (x : trepr) : result (sign * trepr) :=
  match repr_sqr_w x with
  | Ok q => ibig_mul_asis_w s x Positive q
  | Panic p => Panic p | Err e => Err e | OutOfFuel => OutOfFuel
  end.

End OpsW.
