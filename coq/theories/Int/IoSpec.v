(** C07 specifications: positional digits, the text grammar of the integer parsers, the layout of
    Rust's integer formatting (core::fmt::Formatter::pad_integral), byte and bit-chunk encodings.
    Definitions only (proofs: IoDigits.v, IoLayout.v, IoBytes.v).  Text = list of byte values. *)
From Dashu Require Import Base.Prelude.
Open Scope Z_scope.

(* ------------------------------------------------------------------------------------------ *)
(** * positional digits (most significant first) *)

Fixpoint digits_fuel (fuel : nat) (r n : Z) (acc : list Z) : list Z :=
  match fuel with
  | O => acc
  | S f => if n <=? 0 then acc else digits_fuel f r (n / r) (n mod r :: acc)
  end.

(** fuel = bit length: enough for every radix >= 2 (lemma [digits_fuel_enough]) *)
Definition digits_spec (r n : Z) : list Z :=
  if n <=? 0 then [0] else digits_fuel (Z.to_nat (Z.log2 n + 1)) r n [].

Definition digits_value (r : Z) (ds : list Z) : Z := fold_left (fun acc d => acc * r + d) ds 0.

(** exactly [k] digits, zero padded: the digits of [n mod r^k] *)
Fixpoint digits_pad_acc (k : nat) (r n : Z) (acc : list Z) : list Z :=
  match k with O => acc | S j => digits_pad_acc j r (n / r) (n mod r :: acc) end.
Definition digits_pad (k : nat) (r n : Z) : list Z := digits_pad_acc k r n [].

Definition digit_char (upper : bool) (d : Z) : Z :=
  if d <? 10 then 48 + d else if upper then 55 + d else 87 + d.

Definition digit_of_char (c : Z) : option Z :=
  if (48 <=? c) && (c <=? 57) then Some (c - 48)
  else if (97 <=? c) && (c <=? 122) then Some (c - 87)
  else if (65 <=? c) && (c <=? 90) then Some (c - 55)
  else None.

(** radix.rs digit_from_ascii_byte *)
Definition digit_from_ascii (r c : Z) : option Z :=
  match digit_of_char c with
  | Some d => if d <? r then Some d else None
  | None => None
  end.

Definition radix_valid (r : Z) : bool := (2 <=? r) && (r <=? 36).

(* ------------------------------------------------------------------------------------------ *)
(** * formatter layout *)

Inductive align := ALeft | ARight | ACenter.
Record fmtflags := mkflags {
  f_plus : bool; f_alt : bool; f_zero : bool;
  f_align : option align; f_width : option Z; f_fill : list Z (* UTF-8 bytes of the fill char *) }.

Definition rep (n : Z) (c : list Z) : list Z := concat (repeat c (Z.to_nat n)).

(** core::fmt::Formatter::pad_integral(is_nonnegative, prefix, buf) *)
Definition pad_integral_spec (f : fmtflags) (nonneg : bool) (prefix buf : list Z) : list Z :=
  let sg := if negb nonneg then [45] else if f_plus f then [43] else [] in
  let pre := if f_alt f then prefix else [] in
  let width := len buf + len sg + len pre in
  match f_width f with
  | None => sg ++ pre ++ buf
  | Some min =>
    if min <=? width then sg ++ pre ++ buf
    else if f_zero f then sg ++ pre ++ rep (min - width) [48] ++ buf
    else
      let p := min - width in
      let '(l, r) := match f_align f with
                     | Some ALeft => (0, p)
                     | Some ARight | None => (p, 0)
                     | Some ACenter => (p / 2, (p + 1) / 2)
                     end in
      rep l (f_fill f) ++ sg ++ pre ++ buf ++ rep r (f_fill f)
  end.

Inductive fkind := KDisplay | KBinary | KOctal | KLowerHex | KUpperHex | KInRadix (r : Z).

Definition kind_radix (k : fkind) : Z :=
  match k with KDisplay => 10 | KBinary => 2 | KOctal => 8 | KLowerHex | KUpperHex => 16 | KInRadix r => r end.
Definition kind_prefix (k : fkind) : list Z :=
  match k with KBinary => [48; 98] | KOctal => [48; 111] | KLowerHex | KUpperHex => [48; 120] | _ => [] end.
Definition kind_upper (k : fkind) (f : fmtflags) : bool :=
  match k with KUpperHex => true | KInRadix _ => f_alt f | _ => false end.

Definition digit_text (upper : bool) (r m : Z) : list Z := map (digit_char upper) (digits_spec r m).

(** what the property demands of Display/Binary/Octal/LowerHex/UpperHex/in_radix: sign '-' and the
    digits of the magnitude, laid out as the primitive integers are *)
Definition fmt_spec (k : fkind) (f : fmtflags) (v : Z) : result (list Z) :=
  if radix_valid (kind_radix k)
  then Ok (pad_integral_spec f (0 <=? v) (kind_prefix k) (digit_text (kind_upper k f) (kind_radix k) (Z.abs v)))
  else Panic InvalidRadix.

(* ------------------------------------------------------------------------------------------ *)
(** * text grammar and its meaning *)

(** error codes of dashu_base::ParseError *)
Definition E_NoDigits : Z := 1.
Definition E_InvalidDigit : Z := 2.
Definition E_UnsupportedRadix : Z := 3.

(** body := (digit | '_')*, at least one digit; [None] = a byte that is neither *)
Fixpoint body_digits (r : Z) (s : list Z) : option (list Z) :=
  match s with
  | [] => Some []
  | c :: t =>
    if c =? 95 then body_digits r t
    else match digit_from_ascii r c, body_digits r t with
         | Some d, Some ds => Some (d :: ds)
         | _, _ => None
         end
  end.

Definition body_spec (r : Z) (s : list Z) : result Z :=
  match body_digits r s with
  | None => Err E_InvalidDigit
  | Some [] => Err E_NoDigits
  | Some ds => Ok (digits_value r ds)
  end.

(** the grammar as a relation: text |-> digit values *)
Inductive body_rel (r : Z) : list Z -> list Z -> Prop :=
| br_nil : body_rel r [] []
| br_us s ds : body_rel r s ds -> body_rel r (95 :: s) ds
| br_digit c d s ds : c <> 95 -> digit_from_ascii r c = Some d -> body_rel r s ds -> body_rel r (c :: s) (d :: ds).

(** front ends shared by specification and model (parse/mod.rs); [body] is the unsigned parser *)
Definition strip_sign (is_signed : bool) (s : list Z) : sign * list Z :=
  match s with
  | 45 :: t => if is_signed then (Negative, t) else (Positive, s)
  | 43 :: t => (Positive, t)
  | _ => (Positive, s)
  end.

Definition strip_radix_prefix (default : Z) (s : list Z) : Z * list Z :=
  match s with
  | 48 :: 98 :: t => (2, t)
  | 48 :: 111 :: t => (8, t)
  | 48 :: 120 :: t => (16, t)
  | _ => (default, s)
  end.

Definition rmap {A B} (f : A -> B) (x : result A) : result B := rbind x (fun a => Ok (f a)).

Definition from_str_radix_gen (body : Z -> list Z -> result Z) (is_signed : bool) (r : Z) (s : list Z) : result Z :=
  if radix_valid r
  then let '(sg, b) := strip_sign is_signed s in rmap (signed sg) (body r b)
  else Err E_UnsupportedRadix.

Definition from_str_prefix_gen (body : Z -> list Z -> result Z) (is_signed : bool) (default : Z) (s : list Z) : result (Z * Z) :=
  let '(sg, b) := strip_sign is_signed s in
  let '(r, b') := strip_radix_prefix default b in
  rmap (fun m => (signed sg m, r)) (body r b').

Definition from_str_radix_spec := from_str_radix_gen body_spec.
Definition from_str_prefix_spec := from_str_prefix_gen body_spec.

(* ------------------------------------------------------------------------------------------ *)
(** * bytes *)

Fixpoint le_value (bs : list Z) : Z := match bs with [] => 0 | b :: t => b + 256 * le_value t end.
Definition le_signed_value (bs : list Z) : Z :=
  if 128 <=? last bs 0 then le_value bs - 256 ^ len bs else le_value bs.
Definition be_value (bs : list Z) : Z := le_value (rev bs).
Definition be_signed_value (bs : list Z) : Z := le_signed_value (rev bs).

Fixpoint le_bytes_n (n : nat) (v : Z) : list Z :=
  match n with O => [] | S k => v mod 256 :: le_bytes_n k (v / 256) end.

Definition blen (v : Z) : Z := if v <=? 0 then 0 else Z.log2 v + 1.
Definition byte_len (v : Z) : Z := (blen v + 7) / 8.

(** shortest unsigned encoding *)
Definition to_le_bytes_spec (v : Z) : list Z := le_bytes_n (Z.to_nat (byte_len v)) v.
(** two's complement in the fewest bytes that hold the magnitude plus, if its top bit is used, a sign byte *)
Definition signed_byte_len (v : Z) : Z :=
  let m := Z.abs v in if blen m mod 8 =? 0 then byte_len m + 1 else byte_len m.
Definition to_signed_le_bytes_spec (v : Z) : list Z :=
  if v =? 0 then [] else
  let n := signed_byte_len v in le_bytes_n (Z.to_nat n) (v mod 256 ^ n).

(* ------------------------------------------------------------------------------------------ *)
(** * bit chunks *)

Definition chunk_count (v cb : Z) : Z := (blen v + cb - 1) / cb.
Definition to_chunks_spec (v cb : Z) : list Z :=
  map (fun i => (v / 2 ^ (Z.of_nat i * cb)) mod 2 ^ cb) (seq 0 (Z.to_nat (chunk_count v cb))).
Fixpoint from_chunks_spec (cb : Z) (cs : list Z) : Z :=
  match cs with [] => 0 | c :: t => c + 2 ^ cb * from_chunks_spec cb t end.
