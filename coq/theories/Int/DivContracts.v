(** C02 - the contracts under which the word-level division theorems hold, as named predicates
    (they unfold to the hypotheses of the Sections in DivWordProofs / DivSimpleProofs / DivDCProofs).
    num-modular 0.6: Normalized2by1Divisor::{div_rem_1by1, div_rem_2by1},
    Normalized3by2Divisor::{div_rem_2by2, div_rem_3by2, div_rem_4by2} for a normalised divisor d;
    dashu-int mul::add_signed_mul(c, Negative, a, b) (property C01). *)
From Dashu Require Import Base.Prelude Base.Words Int.DivWordProofs.
Open Scope Z_scope.

Definition contract_1by1 (w : Z) (f : Z -> Z -> Z * Z) : Prop :=
  forall d a, norm1 w d -> 0 <= a < B w -> f d a = (a / d, a mod d).
Definition contract_2by1 (w : Z) (f : Z -> Z -> Z * Z) : Prop :=
  forall d a, norm1 w d -> 0 <= a < d * B w -> f d a = (a / d, a mod d).
Definition contract_2by2 (w : Z) (f : Z -> Z -> Z * Z) : Prop :=
  forall d a, norm2 w d -> 0 <= a < B w * B w -> f d a = (a / d, a mod d).
Definition contract_3by2 (w : Z) (f : Z -> Z -> Z -> Z * Z) : Prop :=
  forall d lo hi, norm2 w d -> 0 <= lo < B w -> 0 <= hi < d ->
  f d lo hi = ((lo + B w * hi) / d, (lo + B w * hi) mod d).
Definition contract_4by2 (w : Z) (f : Z -> Z -> Z -> Z * Z) : Prop :=
  forall d lo hi, norm2 w d -> 0 <= lo < B w * B w -> 0 <= hi < d ->
  f d lo hi = ((lo + B w * B w * hi) / d, (lo + B w * B w * hi) mod d).
Definition contract_mul_sub (w : Z) (f : list Z -> list Z -> list Z -> list Z * Z) : Prop :=
  forall c a b c' k, wf w c -> wf w a -> wf w b -> length c = (length a + length b)%nat ->
  f c a b = (c', k) ->
  wf w c' /\ length c' = length c /\ value w c' + B w ^ len c * k = value w c - value w a * value w b.
