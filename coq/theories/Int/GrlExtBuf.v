(** C12 round 5 - the cofactor BUFFER of the Euclidean step of gcd_ext_in_place (integer/src/gcd/lehmer.rs, the lines
    repaired by 1be8c4c / finding F09), with the lengths t0_len / t1_len / q_lo.len() the value-level model does not see.
    A buffer is its value (little-endian words of w bits) - a slice t[a..b] is (T / W^a) mod W^(b-a).  The kernels are
    taken by their contracts (add_signed_mul: c += a*b on c.len() == a.len() + b.len(), carry out; add_mul_word_in_place:
    asserts words.len() >= rhs.len(), carry word out; add_word_in_place: carry bit out).  Index errors, the failed
    assert and the overflow of `t_carry +=` are [Panic Undocumented].  DEFINITIONS ONLY (proofs: GrlExtBufProof.v). *)
From Dashu Require Import Base.Prelude Int.GrlKsqrt Int.GrlModel Int.GrlPrimRoot.
Open Scope Z_scope.

Definition bslice (W T a b : Z) : Z := (T / W ^ a) mod W ^ (b - a).

(** one `t0 += q * t1` of the Euclidean step; q = q_top * W^qlo_len + q_lo, L = qt1_len = q_lo.len() + t1_len.
    First the products into t0[..qt1_len]: answer (new t0[..qt1_len], t_carry) *)
Definition ebuf_mul (w lhs_len T0 T1 t1_len q_lo qlo_len q_top : Z) : result (Z * Z) :=
  let W := 2 ^ w in
  let L := qlo_len + t1_len in
  let low := T0 mod W ^ L in
  let s1 := low + q_lo * bslice W T1 0 t1_len in                   (* add_signed_mul(&mut t0[..qt1_len], +, q_lo, &t1[..t1_len]) *)
  let low1 := s1 mod W ^ L in
  let c1 := s1 / W ^ L in
  if 0 <? q_top then
    let hi_idx := Z.min L lhs_len in
    if hi_idx <? qlo_len then Panic Undocumented                     (* t0[q_lo.len()..min(..)]: start > end *)
    else if hi_idx - qlo_len <? t1_len then Panic Undocumented       (* assert!(words.len() >= rhs.len()) *)
    else
      let k := hi_idx - qlo_len in
      let mid := bslice W low1 qlo_len hi_idx in
      let s2 := mid + q_top * bslice W T1 0 t1_len in
      tc <- chk W (c1 + s2 / W ^ k) ;;                               (* t_carry += ... *)
      Ok (low1 mod W ^ qlo_len + (s2 mod W ^ k) * W ^ qlo_len + (low1 / W ^ hi_idx) * W ^ hi_idx, tc)
  else Ok (low1, c1).

(** then the carry: [fixed] = the repaired source (carry added into the words above qt1_len); [fixed = false] = the code
    before 1be8c4c (carry stored at qt1_len, t0_len taken from qt1_len).  Answer: (new value of the whole buffer, new t0_len) *)
Definition ebuf_carry (fixed : bool) (w cap T0 t0_len L low2 tc : Z) : result (Z * Z) :=
  let W := 2 ^ w in
  if fixed then
    let t0_top := Z.max t0_len L in
    let s3 := bslice W T0 L t0_top + tc in                         (* add_word_in_place(&mut t0[qt1_len..t0_top], t_carry) *)
    let high' := if L <? t0_top then s3 mod W ^ (t0_top - L) else 0 in
    let tc' := if L <? t0_top then s3 / W ^ (t0_top - L) else tc in
    if 0 <? tc' then
      if cap <=? t0_top then Panic Undocumented                      (* t0[t0_top] = t_carry *)
      else Ok (low2 + high' * W ^ L + tc' * W ^ t0_top, t0_top + 1)
    else
      let T' := low2 + high' * W ^ L in Ok (T' + (T0 / W ^ t0_top) * W ^ t0_top, wlen w T')
  else
    if 0 <? tc then
      if cap <=? L then Panic Undocumented
      else Ok (low2 + tc * W ^ L + (T0 / W ^ (L + 1)) * W ^ (L + 1), L + 1)
    else Ok (low2 + (T0 / W ^ L) * W ^ L, wlen w low2).

Definition ebuf_step (fixed : bool) (w cap lhs_len T0 t0_len T1 t1_len q_lo qlo_len q_top : Z) : result (Z * Z) :=
  let L := qlo_len + t1_len in
  if cap <? L then Panic Undocumented else                         (* &mut t0[..qt1_len] *)
  r <- ebuf_mul w lhs_len T0 T1 t1_len q_lo qlo_len q_top ;;
  ebuf_carry fixed w cap T0 t0_len L (fst r) (snd r).
