(** C05, integer part, arithmetic producers, second half (deepening round 3): DEFINITIONS (proofs: ReprOrdArith2.v; kept
    apart so that the oracle still builds when a proof - here or in C01 / C02 / C09 - breaks).
    ReprOrdArith.v covers + - * sqr cubic on IBig and the bit operators / shifts on magnitudes.  Here the rest of
    the operator surface is composed with the full representation (capacity field, sign, inline / heap layout):
      - division: the magnitudes go through the TRANSCRIBED kernels of C02 (Int/DivSrcInst.v: s_repr_div_rem,
        s_repr_div, s_repr_rem - two-word primitives, division by a word / double word, Knuth D and Burnikel-Ziegler
        over C01's multiplier, nothing assumed), the seven signed forms through the regenerated sign tables
        (DashuGen.SignTables via Int/DivSpec.v ibig_form_asis);
      - & | ^ on IBig of any signs (C09: Int/BitsKernels.v ibig_bit*_asis over the word-level kernels), !x;
      - >> and << on IBig (C09: ibig_shr_asis / ibig_shr_ref_asis / ibig_shl_asis).
    Each of these models returns the integer the library then stores with Repr::from_buffer + with_sign (the
    buffer may be longer than needed: from_buffer pops the zero words); [store_fit] is that last step. *)
From Dashu Require Import Base.Prelude Base.Words.
From Dashu Require Import Int.BitsSpec Int.BitsKernels.
From Dashu Require Import Int.DivSpec Int.DivSrcInst.
From Dashu Require Import Int.ReprOrdModel.
From DashuGen Require Import SignTables.
Open Scope Z_scope.

Section Arith2Model.
Variable w : Z.
Notation B := (Words.B w).

(** the magnitude of a representation as C09's typed view (ReprOrdArith.to_b) *)
Definition to_b2 (r : repr) : brepr :=
  match as_typed w r with RefSmall d => BSmall d | RefLarge ws => BLarge ws end.

(** number of words the magnitude of [v] needs (at least 1) *)
Definition fit_words (v : Z) : Z := Z.log2 (Z.abs v) / w + 1.
(** Repr::from_buffer on a buffer holding |v|, then with_sign (ReprOrdArith.store_value with n = fit_words v) *)
Definition store_fit (c v : Z) : repr :=
  ReprOrdModel.with_sign (ReprOrdModel.from_buffer w (Z.max c (fit_words v)) (words_of w (fit_words v) (Z.abs v))) (sign_of v).

(* ---------------------------------------------------------------- & | ^ ! on IBig *)

Inductive sbitop := SAnd | SOr | SXor.
Definition sbit_fn (f : sbitop) : bown -> sign -> brepr -> sign -> brepr -> Z :=
  match f with SAnd => ibig_bitand_asis w | SOr => ibig_bitor_asis w | SXor => ibig_bitxor_asis w end.
Definition sbit_spec (f : sbitop) : Z -> Z -> Z := match f with SAnd => Z.land | SOr => Z.lor | SXor => Z.lxor end.

Definition ibig_bit (f : sbitop) (o : bown) (c : Z) (a b : repr) : repr :=
  store_fit c (sbit_fn f o (rsign a) (to_b2 a) (rsign b) (to_b2 b)).
(** impl Not for IBig / &IBig (the regenerated table) *)
Definition ibig_not (byref : bool) (c : Z) (a : repr) : repr :=
  store_fit c ((if byref then ibig_not_ref_gen else ibig_not_gen) (rsign a) (bvalue w (to_b2 a))).

(* ---------------------------------------------------------------- >> << on IBig *)

Inductive sshiftop := HShr | HShrRef | HShl (cap : bool).
Definition sshift_fn (f : sshiftop) (s : sign) (r : brepr) (n : Z) : Z :=
  match f with
  | HShr => ibig_shr_asis w s r n | HShrRef => ibig_shr_ref_asis w s r n | HShl cap => ibig_shl_asis w s cap r n
  end.
Definition sshift_spec (f : sshiftop) : Z -> Z -> Z :=
  match f with HShr | HShrRef => Z.shiftr | HShl _ => Z.shiftl end.
Definition ibig_shift (f : sshiftop) (c : Z) (a : repr) (n : Z) : repr :=
  store_fit c (sshift_fn f (rsign a) (to_b2 a) n).

(* ---------------------------------------------------------------- division *)

Definition rmap {A C} (f : A -> C) (x : result A) : result C :=
  match x with Ok a => Ok (f a) | Panic p => Panic p | Err e => Err e | OutOfFuel => OutOfFuel end.

(** DivRem / Div / Rem for UBig (and the magnitude part of every signed form): the transcribed kernels *)
Definition ubig_div_rem (c : Z) (a b : repr) : result (repr * repr) :=
  rmap (fun qr => (store_fit c (fst qr), store_fit c (snd qr)))
       (s_repr_div_rem w (Z.abs (rvalue w a)) (Z.abs (rvalue w b))).
Definition ubig_div (c : Z) (a b : repr) : result repr :=
  rmap (store_fit c) (s_repr_div w (Z.abs (rvalue w a)) (Z.abs (rvalue w b))).
Definition ubig_rem (c : Z) (a b : repr) : result repr :=
  rmap (store_fit c) (s_repr_rem w (Z.abs (rvalue w a)) (Z.abs (rvalue w b))).

(** the seven forms on IBig (/, %, div_rem, div_euclid, rem_euclid, div_rem_euclid, is_multiple_of as 0/1):
    impl_ibig_div ... of div_ops.rs, the sign layer regenerated into DashuGen.SignTables *)
Definition ibig_divform (f : form) (c : Z) (a b : repr) : result (list repr) :=
  rmap (map (store_fit c)) (ibig_form_asis f (rvalue w a) (rvalue w b)).

End Arith2Model.
