(** C07: the cached radix-power tables of the divide-and-conquer printer (PreparedLarge::new) and
    parser (parse_large), and the side conditions the code relies on:
    - printer: every entry is the square of the next one down to range_per_word^CHUNK_LEN; the
      word-count shortcut `2 * prev.len() - 1 > number.len()` only skips a squaring that would
      exceed the number; the fuel of the model never runs out; so the largest entry p satisfies
      p <= x < p*p, and the quotient left for the top chunk after the division cascade is below
      range_per_word^CHUNK_LEN - it fits the CHUNK_LEN-word buffer of PreparedMedium;
    - parser: the table built by the `while chunk_bytes <= (len - 1) >> powers.len()` loop satisfies
      the debug_assert!(bytes.len() <= chunk_bytes << radix_powers.len()) of
      parse_large_divide_conquer at the entry and at EVERY recursive call (and that of parse_chunk
      at the leaves): the model with the assertions as panics equals the model without them. *)
From Dashu Require Import Base.Prelude Base.Words Int.IoSpec Int.IoModel Int.IoDigits Int.IoPrint Int.IoParse Int.IoRadix.
From DashuGen Require Import Params.
Open Scope Z_scope.

(* ------------------------------------------------------------------------------------------ *)
(** * bit and word lengths *)
Lemma blen_pos_spec x : 0 < x -> 2 ^ (blen x - 1) <= x < 2 ^ blen x /\ 0 < blen x.
Proof.
  intros Hx. unfold blen. destruct (Z.leb_spec x 0); [lia|].
  pose proof (Z.log2_spec x Hx). pose proof (Z.log2_nonneg x).
  replace (Z.log2 x + 1 - 1) with (Z.log2 x) by lia. replace (Z.log2 x + 1) with (Z.succ (Z.log2 x)) by lia. lia.
Qed.

Lemma blen_mono a b : 0 < a <= b -> blen a <= blen b.
Proof.
  intros H. unfold blen. destruct (Z.leb_spec a 0); [lia|]. destruct (Z.leb_spec b 0); [lia|].
  pose proof (Z.log2_le_mono a b ltac:(lia)). lia.
Qed.

Lemma blen_square p : 2 <= p -> blen p + 1 <= blen (p * p).
Proof.
  intros Hp. apply Z.le_trans with (blen (2 * p)).
  - unfold blen. destruct (Z.leb_spec p 0); [lia|]. destruct (Z.leb_spec (2 * p) 0); [lia|].
    rewrite Z.log2_double by lia. lia.
  - apply blen_mono. nia.
Qed.

Section Lengths.
Variable w : Z.
Hypothesis w_pos : 0 < w.

Lemma wlen_spec v : 0 < v -> Bw w ^ (wlen w v - 1) <= v < Bw w ^ wlen w v /\ 0 < wlen w v.
Proof.
  intros Hv. destruct (blen_pos_spec v Hv) as [[Hlo Hhi] Hb]. unfold wlen, Bw.
  set (n := (blen v + w - 1) / w).
  assert (Hn : w * n <= blen v + w - 1 < w * n + w).
  { pose proof (Z.div_mod (blen v + w - 1) w ltac:(lia)). pose proof (Z.mod_pos_bound (blen v + w - 1) w ltac:(lia)). unfold n. lia. }
  assert (Hn1 : 0 < n) by nia.
  rewrite <- !Z.pow_mul_r by lia. split; [|exact Hn1]. split.
  - apply Z.le_trans with (2 ^ (blen v - 1)); [apply Z.pow_le_mono_r; nia | exact Hlo].
  - apply Z.lt_le_trans with (2 ^ blen v); [exact Hhi | apply Z.pow_le_mono_r; nia].
Qed.

(** the word-count shortcut of the squaring loop is sound *)
Lemma len_shortcut_sound prev x : 0 < prev -> 0 < x -> 2 * wlen w prev - 1 > wlen w x -> x < prev * prev.
Proof.
  intros Hp Hx Hs. destruct (wlen_spec prev Hp) as [[Hplo _] Hpn]. destruct (wlen_spec x Hx) as [[_ Hxhi] Hxn].
  assert (HB : 0 < Bw w) by (unfold Bw; apply Z.pow_pos_nonneg; lia).
  assert (Bw w ^ wlen w x <= Bw w ^ (wlen w prev - 1 + (wlen w prev - 1))) by (apply Z.pow_le_mono_r; lia).
  rewrite Z.pow_add_r in H by lia.
  assert (0 < Bw w ^ (wlen w prev - 1)) by (apply Z.pow_pos_nonneg; lia). nia.
Qed.
End Lengths.

(* ------------------------------------------------------------------------------------------ *)
(** * the printer's table *)
(** largest first: every entry is the square of the next one *)
Fixpoint squares_chain (ps : list Z) : Prop :=
  match ps with
  | p :: (q :: _) as rest => p = q * q /\ squares_chain rest
  | _ => True
  end.

Section PrinterTable.
Variable w : Z.
Hypothesis w_pos : 0 < w.

Lemma fmt_powers_table f : forall x ps, 0 < x -> squares_chain ps -> Forall (fun p => 2 <= p) ps ->
  (match ps with p :: _ => p <= x /\ blen x < Z.of_nat f + blen p | [] => False end) ->
  let ps' := fmt_powers w f x ps in
  squares_chain ps' /\ last ps' 0 = last ps 0 /\ Forall (fun p => 2 <= p) ps' /\
  (match ps' with p :: _ => p <= x < p * p | [] => False end).
Proof.
  induction f as [|f IH]; intros x ps Hx Hc Hge Hhd.
  - (* no fuel left is impossible: the head would be longer than x *)
    destruct ps as [|p rest]; [contradiction|]. destruct Hhd as [Hle Hf]. exfalso.
    inversion Hge; subst. pose proof (blen_mono p x ltac:(lia)). cbn [Z.of_nat] in Hf. lia.
  - destruct ps as [|prev rest]; [contradiction|]. destruct Hhd as [Hle Hf]. inversion Hge as [|? ? Hp2 Hrest]; subst.
    cbn [fmt_powers]. destruct (Z.gtb_spec (2 * wlen w prev - 1) (wlen w x)) as [Hs|Hs].
    + split; [exact Hc|]. split; [reflexivity|]. split; [exact Hge|]. split; [exact Hle|].
      apply (len_shortcut_sound w w_pos prev x); lia.
    + destruct (Z.gtb_spec (prev * prev) x) as [Hgt|Hle2].
      * split; [exact Hc|]. split; [reflexivity|]. split; [exact Hge|]. lia.
      * specialize (IH x (prev * prev :: prev :: rest) Hx).
        assert (Hlast : last (prev * prev :: prev :: rest) 0 = last (prev :: rest) 0) by reflexivity.
        rewrite <- Hlast. apply IH.
        -- split; [reflexivity | exact Hc].
        -- constructor; [nia | exact Hge].
        -- split; [exact Hle2|]. pose proof (blen_square prev Hp2). lia.
Qed.

(** the running quotient of the division cascade (the x of PreparedLarge::new) *)
Fixpoint cascade_top (ps : list Z) (first : bool) (x : Z) : Z :=
  match ps with
  | [] => x
  | p :: rest => if first || (x >=? p) then cascade_top rest false (x / p) else cascade_top rest false x
  end.

Lemma large_split_top r ps : forall first x tail,
  exists tail', large_split w r ps first x tail = prepared_medium w r (cascade_top ps first x) ++ tail'.
Proof.
  induction ps as [|p rest IH]; intros first x tail; cbn [large_split cascade_top].
  - exists tail. reflexivity.
  - destruct (first || (x >=? p)); apply IH.
Qed.

Lemma cascade_top_bound ps : forall first x, ps <> [] -> squares_chain ps -> Forall (fun p => 2 <= p) ps ->
  0 <= x -> (match ps with p :: _ => x < p * p | [] => True end) ->
  0 <= cascade_top ps first x < last ps 0.
Proof.
  induction ps as [|p rest IH]; intros first x Hne Hc Hge Hx Hlt; [contradiction|].
  inversion Hge as [|? ? Hp2 Hrest]; subst. cbn [cascade_top].
  assert (Hstep : forall x', 0 <= x' < p -> 0 <= cascade_top rest false x' < last (p :: rest) 0).
  { intros x' Hx'. destruct rest as [|q rest'].
    - cbn [cascade_top last]. exact Hx'.
    - destruct Hc as [Epq Hc']. change (last (p :: q :: rest') 0) with (last (q :: rest') 0).
      apply IH; [discriminate | exact Hc' | exact Hrest | lia | lia]. }
  destruct (first || (x >=? p)) eqn:Ec.
  - apply Hstep. split; [apply Z.div_pos; lia | apply Z.div_lt_upper_bound; lia].
  - apply Hstep. apply orb_false_iff in Ec. destruct Ec as [_ Ec]. destruct (Z.geb_spec x p); [discriminate | lia].
Qed.

(** PreparedLarge::new: table and top chunk *)
Theorem prepared_large_table R x : 2 <= R -> R ^ fmt_chunk_len <= x ->
  let ps := fmt_powers w (Z.to_nat (blen x)) x [R ^ fmt_chunk_len] in
  squares_chain ps /\ last ps 0 = R ^ fmt_chunk_len /\
  (match ps with p :: _ => p <= x < p * p | [] => False end) /\
  0 <= cascade_top ps true x < R ^ fmt_chunk_len.
Proof.
  intros HR Hle.
  assert (HP : 2 <= R ^ fmt_chunk_len).
  { change 2 with (2 ^ 1) at 1. apply Z.le_trans with (R ^ 1); [rewrite !Z.pow_1_r; lia|]. apply Z.pow_le_mono_r; unfold fmt_chunk_len; lia. }
  assert (Hx : 0 < x) by lia.
  destruct (blen_pos_spec (R ^ fmt_chunk_len) ltac:(lia)) as [_ Hb0].
  pose proof (fmt_powers_table (Z.to_nat (blen x)) x [R ^ fmt_chunk_len] Hx I ltac:(constructor; [exact HP | constructor])
                ltac:(split; [exact Hle|]; destruct (blen_pos_spec x Hx); lia)) as H.
  cbn zeta in H. destruct H as (Hc & Hl & Hge & Hhd). cbn [last] in Hl.
  split; [exact Hc|]. split; [exact Hl|]. split; [exact Hhd|].
  destruct (fmt_powers w (Z.to_nat (blen x)) x [R ^ fmt_chunk_len]) as [|p rest] eqn:E; [contradiction|].
  rewrite <- Hl. apply cascade_top_bound; [discriminate | exact Hc | exact Hge | lia | lia].
Qed.
End PrinterTable.

(* ------------------------------------------------------------------------------------------ *)
(** * the parser's table and the debug assertions *)
Section ParserTable.
Variables w r cb : Z.
Hypothesis cb_pos : 0 < cb.

(** parse_chunk with its debug_assert!(bytes.len() <= CHUNK_LEN * digits_per_word) *)
Definition parse_chunk_dbg (s : list Z) : result Z :=
  if len s <=? cb then parse_chunk w r s else Panic Undocumented.

(** parse_large_divide_conquer with its debug_assert!(bytes.len() <= chunk_bytes << radix_powers.len()) *)
Fixpoint parse_dc_dbg (ps : list Z) (s : list Z) : result Z :=
  match ps with
  | [] => parse_chunk_dbg s
  | p :: rest =>
    if len s <=? cb * 2 ^ len ps then
      let lo_len := cb * 2 ^ len rest in
      if len s <=? lo_len then parse_dc_dbg rest s
      else
        let k := Z.to_nat (len s - lo_len) in
        rbind (parse_dc_dbg rest (firstn k s)) (fun hi =>
        rbind (parse_dc_dbg rest (skipn k s)) (fun lo => Ok (hi * p + lo)))
    else Panic Undocumented
  end.

Theorem parse_dc_asserts_hold ps : forall s, len s <= cb * 2 ^ len ps -> parse_dc_dbg ps s = parse_dc w r cb ps s.
Proof.
  induction ps as [|p rest IH]; intros s Hs.
  - cbn [parse_dc_dbg parse_dc]. unfold parse_chunk_dbg. unfold len in Hs at 2. cbn [length Z.of_nat] in Hs.
    rewrite Z.pow_0_r, Z.mul_1_r in Hs. destruct (Z.leb_spec (len s) cb); [reflexivity | lia].
  - cbn [parse_dc_dbg parse_dc]. destruct (Z.leb_spec (len s) (cb * 2 ^ len (p :: rest))); [|lia].
    pose proof (len_nonneg rest) as Hr. assert (Hp : 0 < 2 ^ len rest) by (apply Z.pow_pos_nonneg; lia).
    rewrite len_cons, Z.pow_add_r, Z.pow_1_r in Hs by lia.
    destruct (Z.leb_spec (len s) (cb * 2 ^ len rest)) as [Hle|Hgt]; [apply IH; exact Hle|].
    set (k := Z.to_nat (len s - cb * 2 ^ len rest)).
    assert (Hk : (k <= length s)%nat) by (unfold k, len in *; nia).
    rewrite !IH; [reflexivity | |].
    + unfold len in *. rewrite skipn_length. unfold k. nia.
    + unfold len in *. rewrite firstn_length, Nat.min_l by exact Hk. unfold k. nia.
Qed.

(** the squaring loop of parse_large: its exit condition is the assertion, and the fuel never matters *)
Lemma parse_powers_covers f : forall n ps, 0 <= n -> ps <> [] -> blen n < Z.of_nat f + len ps ->
  n <= cb * 2 ^ len (parse_powers f cb n ps).
Proof.
  induction f as [|f IH]; intros n ps Hn Hne Hf.
  - (* the table is already longer than the bit length of n *)
    replace (parse_powers 0 cb n ps) with ps by (destruct ps; reflexivity).
    cbn [Z.of_nat] in Hf. pose proof (len_nonneg ps).
    destruct (Z.eq_dec n 0) as [->|NZ]; [assert (0 < 2 ^ len ps) by (apply Z.pow_pos_nonneg; lia); nia|].
    destruct (blen_pos_spec n ltac:(lia)) as [[_ Hhi] _].
    assert (2 ^ blen n <= 2 ^ len ps) by (apply Z.pow_le_mono_r; lia). nia.
  - destruct ps as [|prev rest]; [contradiction|]. cbn [parse_powers].
    pose proof (len_nonneg (prev :: rest)) as Hl. assert (Hp : 0 < 2 ^ len (prev :: rest)) by (apply Z.pow_pos_nonneg; lia).
    destruct (Z.leb_spec cb ((n - 1) / 2 ^ len (prev :: rest))) as [Hgo|Hstop].
    + apply IH; [exact Hn | discriminate|]. rewrite (len_cons (prev * prev)). lia.
    + assert (n - 1 < cb * 2 ^ len (prev :: rest)); [|lia].
      apply Z.lt_le_trans with (2 ^ len (prev :: rest) * ((n - 1) / 2 ^ len (prev :: rest) + 1)); [|nia].
      pose proof (Z.div_mod (n - 1) (2 ^ len (prev :: rest)) ltac:(lia)).
      pose proof (Z.mod_pos_bound (n - 1) (2 ^ len (prev :: rest)) ltac:(lia)). lia.
Qed.

End ParserTable.

(** parse_large: with every debug assertion as a panic the model is unchanged, for texts of every length *)
Theorem parse_large_asserts_hold w r s :
  let '(dpw, R) := radix_info w r in
  0 < dpw ->
  let cb := parse_chunk_len * dpw in
  let ps := parse_powers (Z.to_nat (blen (len s))) cb (len s) [R ^ parse_chunk_len] in
  len s <= cb * 2 ^ len ps /\ parse_dc_dbg w r cb ps s = parse_large_np2 w r s.
Proof.
  unfold parse_large_np2. destruct (radix_info w r) as [dpw R]. intros Hd. cbn zeta.
  assert (Hcb : 0 < parse_chunk_len * dpw) by (unfold parse_chunk_len; lia).
  assert (Hcov : len s <= parse_chunk_len * dpw * 2 ^ len (parse_powers (Z.to_nat (blen (len s))) (parse_chunk_len * dpw) (len s) [R ^ parse_chunk_len])).
  { apply parse_powers_covers; [exact Hcb | apply len_nonneg | discriminate|].
    unfold len at 3. cbn [length Z.of_nat]. pose proof (len_nonneg s). unfold blen. destruct (len s <=? 0); [lia|].
    pose proof (Z.log2_nonneg (len s)). lia. }
  split; [exact Hcov|]. apply parse_dc_asserts_hold; [exact Hcb | exact Hcov].
Qed.

Example prepared_large_table_ex :
  let ps := fmt_powers 64 (Z.to_nat (blen (10 ^ 900))) (10 ^ 900) [(10 ^ 19) ^ 16] in
  map Z.log2 ps = map Z.log2 [10 ^ 608; 10 ^ 304] /\ cascade_top ps true (10 ^ 900) = 10 ^ 292.
Proof. vm_compute. split; reflexivity. Qed.
