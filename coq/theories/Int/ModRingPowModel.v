(** C13 - the two exponentiation algorithms of integer/src/modular/pow.rs, transcribed over an
    arbitrary carrier [T] with a multiplication, a squaring and a unit (definitions only).
      - single / double word rings:  pow_word / pow_helper / pow / pow_nontrivial  (binary method,
        one exponent word at a time, top word first)
      - multi-word rings: large::pow / pow_nontrivial (sliding window with a table of odd powers)
    The carrier operations are total; rings whose operations may panic instantiate [T := result Z]. *)
From Dashu Require Import Base.Prelude Base.Words Int.BitsSpec.
From DashuGen Require Import ModRingGen.
Open Scope Z_scope.

Section GenericPow.
Variable w : Z.                      (* WORD_BITS *)
Variable T : Type.
Variable one : T.
Variable sqr : T -> T.
Variable mul : T -> T -> T.

(** [pow_helper]: while bits > 0 { res = sqr(res); bits -= 1; if exp & (1 << bits) != 0 { res = mul(res, rhs) } } *)
Fixpoint pow_helper (rhs : T) (exp : Z) (bits : nat) (res : T) : T :=
  match bits with
  | O => res
  | S b =>
      let res := sqr res in
      let res := if Z.testbit exp (Z.of_nat b) then mul res rhs else res in
      pow_helper rhs exp b res
  end.

(** [pow_word]: match exp { 0 => one, 1 => raw, 2 => sqr(raw), _ => pow_helper(raw, raw, exp, WORD_BITS-1-lz) } *)
Definition pow_word (raw : T) (exp : Z) : T :=
  if exp =? 0 then one
  else if exp =? 1 then raw
  else if exp =? 2 then sqr raw
  else pow_helper raw exp (Z.to_nat (Z.log2 exp)) raw.

(** RefSmall(dword): split into (lo, hi) *)
Definition pow_small (raw : T) (exp : Z) : T :=
  let lo := exp mod 2 ^ w in
  let hi := exp / 2 ^ w in
  if hi =? 0 then pow_word raw lo else pow_helper raw lo (Z.to_nat w) (pow_word raw hi).

(** RefLarge(words): pow_nontrivial - the top word by pow_word, every lower word by pow_helper *)
Fixpoint pow_words_down (raw : T) (ws_rev : list Z) (res : T) : T :=
  match ws_rev with
  | [] => res
  | x :: t => pow_words_down raw t (pow_helper raw x (Z.to_nat w) res)
  end.

Definition pow_nontrivial_prim (raw : T) (exp_words : list Z) : T :=
  match rev exp_words with
  | [] => one
  | top :: rest => pow_words_down raw rest (pow_word raw top)
  end.

Definition exp_nwords (exp : Z) : nat := Z.to_nat ((Z.log2 exp + 1 + w - 1) / w).

Definition pow_prim (raw : T) (exp : Z) : T :=
  if exp <? 2 ^ w * 2 ^ w then pow_small raw exp
  else pow_nontrivial_prim raw (to_words w (exp_nwords exp) exp).

(** ---------------- sliding window (large::pow_nontrivial) ---------------- *)

(** choose_pow_window_len: cost(ws) = (1 << (ws-1)) - 1 + n / (ws+1) - the hand transcription of the pinned source,
    kept for reference; the model below runs [gen_choose_window_len], REGENERATED from pow.rs on every run
    (coq/gen/ModRingGen.v), so a retuned cost function or break test changes the model with the code *)
Definition wcost (n ws : Z) : Z := 2 ^ (ws - 1) - 1 + n / (ws + 1).

Fixpoint choose_loop (fuel : nat) (n ws c : Z) : Z :=
  match fuel with
  | O => ws
  | S f =>
      if ws + 1 <? w then
        let c2 := wcost n (ws + 1) in
        if c <=? c2 then ws else choose_loop f n (ws + 1) c2
      else ws
  end.

Definition choose_window_len (n : Z) : Z := choose_loop (Z.to_nat w) n 1 (wcost n 1).

(** the table of odd powers raw^3, raw^5, ...: raw^(2i+1) = raw^(2i-1) * raw^2 *)
Fixpoint build_table (cnt : nat) (prev val : T) : list T :=
  match cnt with
  | O => []
  | S c => let cur := mul prev val in cur :: build_table c cur val
  end.

Fixpoint iter_sqr (n : nat) (v : T) : T :=
  match n with O => v | S k => iter_sqr k (sqr v) end.

(** the window of [wl] bits whose top bit is bit [bit] of the exponent, read from the two exponent
    words it can touch (word-level transcription) *)
Definition window_at (exp bit wl : Z) : Z :=
  let word_idx := bit / w in
  let bit_idx := bit mod w in
  let cur_word := (exp / 2 ^ (w * word_idx)) mod 2 ^ w in
  let next_word := if word_idx =? 0 then 0 else (exp / 2 ^ (w * (word_idx - 1))) mod 2 ^ w in
  (((next_word + 2 ^ w * cur_word) / 2 ^ (bit_idx + 1 + w - wl)) mod 2 ^ w) mod 2 ^ wl.

(** the same window as arithmetic on the whole exponent (positions below bit 0 read as zeros) *)
Definition window_val (exp bit wl : Z) : Z := (exp * 2 ^ wl / 2 ^ (bit + 1)) mod 2 ^ wl.

Definition tzw (x : Z) : Z := match x with Zpos p => tz_pos p | _ => 0 end.

Variable winf : Z -> Z -> Z -> Z.    (* window_at (the code) or window_val (its meaning) *)

Fixpoint window_loop (fuel : nat) (raw : T) (table : list T) (wl exp bit : Z) (val : T) : result T :=
  match fuel with
  | O => OutOfFuel
  | S f =>
      let '(bit, val) :=
        if Z.testbit exp bit then
          let window := winf exp bit wl in
          let num_bits := wl - tzw window in
          let window := window / 2 ^ (wl - num_bits) in
          let val := iter_sqr (Z.to_nat (num_bits - 1)) val in
          let bit := bit - (num_bits - 1) in
          let entry_idx := window / 2 in
          let entry := if entry_idx =? 0 then raw else nth (Z.to_nat (entry_idx - 1)) table raw in
          (bit, mul val entry)
        else (bit, val) in
      if bit =? 0 then Ok val else window_loop f raw table wl exp (bit - 1) (sqr val)
  end.

Definition pow_window_with (wl : Z) (raw : T) (exp : Z) : result T :=
  let bl := Z.log2 exp + 1 in
  let val := sqr raw in
  let table := build_table (Z.to_nat (2 ^ (wl - 1) - 1)) raw val in
  window_loop (Z.to_nat bl) raw table wl exp (bl - 2) val.

(** window_len = choose_pow_window_len(exp.bit_len()); a length outside [1, WORD_BITS) would make the shifts of the
    window extraction overflow (a panic of the debug build) *)
Definition pow_nontrivial_large (raw : T) (exp : Z) : result T :=
  let wl := gen_choose_window_len w (Z.log2 exp + 1) in
  if (1 <=? wl) && (wl <? w) then pow_window_with wl raw exp else Panic Undocumented.

(** large::pow *)
Definition pow_large (raw : T) (exp : Z) : result T :=
  if exp =? 0 then Ok one else if exp =? 1 then Ok raw else pow_nontrivial_large raw exp.

End GenericPow.
