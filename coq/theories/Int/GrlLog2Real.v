(** C12 - the integer statements used for log2 enclosures mean what they should over the reals:
    log2_lb_holds m k p q  <->  m / 2^k <= log2 (p / q)   and   log2_ub_holds  <->  log2 (p / q) <= m / 2^k. *)
From Coq Require Import ZArith Reals Lra Lia.
From Dashu Require Import Base.Prelude Int.GrlSpec.
Open Scope R_scope.

Lemma IZR_pow_exp : forall p a : Z, (0 < p)%Z -> (0 <= a)%Z -> IZR (p ^ a) = exp (IZR a * ln (IZR p)).
Proof.
  intros p a Hp Ha. assert (0 < IZR p) as Pp by (apply IZR_lt; exact Hp).
  rewrite <- (Z2Nat.id a Ha) at 1. rewrite <- pow_IZR.
  rewrite <- (exp_ln (IZR p ^ Z.to_nat a)) by (apply pow_lt; exact Pp).
  f_equal. rewrite ln_pow by exact Pp. rewrite INR_IZR_INZ, Z2Nat.id by exact Ha. reflexivity.
Qed.

Lemma exp_le_iff : forall x y, exp x <= exp y <-> x <= y.
Proof.
  intros x y. split.
  - intros [L|E]; [left; apply exp_lt_inv; exact L | right; apply exp_inv; exact E].
  - intros [L|E]; [left; apply exp_increasing; exact L | right; rewrite E; reflexivity].
Qed.

Lemma ln_div' : forall x y, 0 < x -> 0 < y -> ln (x / y) = ln x - ln y.
Proof.
  intros x y Hx Hy. unfold Rdiv. rewrite ln_mult by (try apply Rinv_0_lt_compat; assumption).
  rewrite ln_Rinv by exact Hy. ring.
Qed.

Definition log2R (x : R) : R := ln x / ln 2.

Theorem log2_lb_holds_real : forall m k p q, (0 < p)%Z -> (0 < q)%Z ->
  log2_lb_holds m k p q <-> IZR m / 2 ^ k <= log2R (IZR p / IZR q).
Proof.
  intros m k p q Hp Hq. unfold log2_lb_holds, log2R.
  assert (0 < IZR p) as Pp by (apply IZR_lt; exact Hp).
  assert (0 < IZR q) as Pq by (apply IZR_lt; exact Hq).
  assert (0 < ln 2) as L2 by (rewrite <- ln_1; apply ln_increasing; lra).
  set (K := (2 ^ Z.of_nat k)%Z).
  assert (0 < K)%Z as HK by (apply Z.pow_pos_nonneg; lia).
  assert (IZR K = 2 ^ k) as EK by (unfold K; rewrite <- pow_IZR; reflexivity).
  assert (0 < IZR K) as PK by (apply IZR_lt; exact HK).
  rewrite <- EK. rewrite ln_div' by assumption.
  set (mp := Z.max m 0). set (mn := Z.max (- m) 0).
  assert (IZR m = IZR mp - IZR mn) as Em by (rewrite <- minus_IZR; f_equal; unfold mp, mn; lia).
  split.
  - intros H. apply IZR_le in H. rewrite !mult_IZR in H.
    rewrite !IZR_pow_exp in H by (unfold mp, mn; lia). rewrite <- !exp_plus in H. apply (proj1 (exp_le_iff _ _)) in H.
    apply (Rmult_le_reg_r (IZR K * ln 2)); [apply Rmult_lt_0_compat; assumption|].
    replace (IZR m / IZR K * (IZR K * ln 2)) with (IZR m * ln 2) by (field; lra).
    replace ((ln (IZR p) - ln (IZR q)) / ln 2 * (IZR K * ln 2)) with (IZR K * (ln (IZR p) - ln (IZR q))) by (field; lra).
    rewrite Em. lra.
  - intros H. apply le_IZR. rewrite !mult_IZR.
    rewrite !IZR_pow_exp by (unfold mp, mn; lia). rewrite <- !exp_plus. apply (proj2 (exp_le_iff _ _)).
    apply (Rmult_le_compat_r (IZR K * ln 2)) in H; [|left; apply Rmult_lt_0_compat; assumption].
    replace (IZR m / IZR K * (IZR K * ln 2)) with (IZR m * ln 2) in H by (field; lra).
    replace ((ln (IZR p) - ln (IZR q)) / ln 2 * (IZR K * ln 2)) with (IZR K * (ln (IZR p) - ln (IZR q))) in H by (field; lra).
    rewrite Em in H. lra.
Qed.

Theorem log2_ub_holds_real : forall m k p q, (0 < p)%Z -> (0 < q)%Z ->
  log2_ub_holds m k p q <-> log2R (IZR p / IZR q) <= IZR m / 2 ^ k.
Proof.
  intros m k p q Hp Hq. unfold log2_ub_holds. rewrite (log2_lb_holds_real (- m) k q p Hq Hp). unfold log2R.
  assert (0 < IZR p) as Pp by (apply IZR_lt; exact Hp).
  assert (0 < IZR q) as Pq by (apply IZR_lt; exact Hq).
  rewrite !ln_div' by assumption. rewrite opp_IZR.
  replace (- IZR m / 2 ^ k) with (- (IZR m / 2 ^ k)) by (unfold Rdiv; ring).
  replace ((ln (IZR q) - ln (IZR p)) / ln 2) with (- ((ln (IZR p) - ln (IZR q)) / ln 2)) by (unfold Rdiv; ring).
  split; intros H; lra.
Qed.

Example log2_lb_holds_real_ex : log2_lb_holds 3 1%nat 3 1 /\ ~ log2_lb_holds 4 1%nat 3 1.
Proof. unfold log2_lb_holds. cbn. split; lia. Qed.
