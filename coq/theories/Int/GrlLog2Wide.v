(** C12 - AS-IS model of the no_std log2 estimator of base/src/math/log.rs for the unsigned types
    WIDER than u16 (macro impl_log2_bounds_for_uint!(u32 u64 u128 usize) under
    #[cfg(not(feature = "std"))], log.rs lines 183-222) and of next_up / next_down (log.rs lines
    94-136).  Definitions only; the proofs are in GrlLog2WideProof.v.

    Bounds are dyadic fractions (m, k) = m / 2^k as in GrlLog2Tab.v.  The f32 values of the wide
    branch are modelled exactly:
      - lb as f32 (lb <= 4096), / 256.0, shift as f32 (shift <= 112) are exact;
      - lb / 256 + shift = (lb + 256*shift) / 256 with lb + 256*shift < 2^24 is an f32 value, so the
        correctly rounded IEEE addition returns it (fp8_is_f32 in the proof file);
      - next_down / next_up are modelled on normalised (mantissa, exponent) pairs [nf] AND on the 32-bit
        patterns exactly as the source text; the two are proved to agree through GrlSpec.f32_decode. *)
From Dashu Require Import Base.Prelude Int.GrlSpec Int.GrlLog2Tab.
Open Scope Z_scope.

(** * next_up / next_down on bit patterns (log.rs 98-114 and 120-136) *)

(** f.is_nan() || f.is_infinite(): exponent field all ones *)
Definition f32_nonfinite_bits (bits : Z) : bool := (bits / 2 ^ 23) mod 256 =? 255.

(** log.rs 101-112: TINY_BITS = 1, CLEAR_SIGN_MASK = 0x7fffffff,
    abs == 0 -> TINY_BITS | bits == abs -> bits + 1 | else bits - 1 *)
Definition f32_next_up_bits (bits : Z) : Z :=
  let abs := Z.land bits 0x7fffffff in
  if abs =? 0 then 0x1
  else if bits =? abs then bits + 1
  else bits - 1.

(** log.rs 123-134: NEG_TINY_BITS = 0x80000001,
    abs == 0 -> NEG_TINY_BITS | bits == abs -> bits - 1 | else bits + 1 *)
Definition f32_next_down_bits (bits : Z) : Z :=
  let abs := Z.land bits 0x7fffffff in
  if abs =? 0 then 0x80000001
  else if bits =? abs then bits - 1
  else bits + 1.

(** with the assert of lines 99 / 121 (a panic that error.rs does not document) *)
Definition f32_next_up_asis (bits : Z) : result Z :=
  if f32_nonfinite_bits bits then Panic Undocumented else Ok (f32_next_up_bits bits).
Definition f32_next_down_asis (bits : Z) : result Z :=
  if f32_nonfinite_bits bits then Panic Undocumented else Ok (f32_next_down_bits bits).

(** * the same two functions on positive normal values
    [nf] = (m, e) stands for m * 2^e with 2^23 <= m < 2^24 (so 2^(e+23) <= value < 2^(e+24)) *)
Definition nf := (Z * Z)%type.

(** value + 2^e  (one unit in the last place) *)
Definition nf_next_up (x : nf) : nf :=
  let '(m, e) := x in if m + 1 =? 2 ^ 24 then (2 ^ 23, e + 1) else (m + 1, e).

(** value - 2^e, except at a power of two (m = 2^23) where the spacing below is 2^(e-1) *)
Definition nf_next_down (x : nf) : nf :=
  let '(m, e) := x in if m =? 2 ^ 23 then (2 ^ 24 - 1, e - 1) else (m - 1, e).

(** the bit pattern of a positive normal value (biased exponent e + 150 in 1..254) and back *)
Definition nf_bits (x : nf) : Z := let '(m, e) := x in (e + 150) * 2 ^ 23 + (m - 2 ^ 23).
Definition nf_of_bits (bits : Z) : nf := (bits mod 2 ^ 23 + 2 ^ 23, bits / 2 ^ 23 - 150).

(** as a dyadic fraction (e <= 0 for every value used here) *)
Definition nf_dy (x : nf) : dy := let '(m, e) := x in (m, Z.to_nat (- e)).

(** * the 8-bit fixed point value M / 256 (0 < M < 2^24) as an f32 *)
Definition bitlen (n : Z) : Z := Z.log2 n + 1.
Definition nf_of_fp8 (M : Z) : nf := (M * 2 ^ (24 - bitlen M), bitlen M - 32).

(** * log.rs 186-216: log2_bounds for u32 / u64 / u128 / usize without std
    (the width only bounds n; bits = <$t>::BITS - leading_zeros = bit length of n) *)

(** lines 205-212 *)
Definition nostd_wide_ub (hi : Z) : Z :=
  if hi =? 2 ^ 15 then (16 - 1) * 256 + 1 else ceil_log2_fp8 hi.

Definition nostd_wide_shift (n : Z) : Z := bitlen n - 16.                    (* line 202 *)
Definition nostd_wide_hi (n : Z) : Z := Z.shiftr n (nostd_wide_shift n).      (* line 203 *)
(** the two sums of line 214 before next_down / next_up, in units of 1/256 *)
Definition nostd_wide_lb256 (n : Z) : Z := log2_fp8 (nostd_wide_hi n) + 256 * nostd_wide_shift n.
Definition nostd_wide_ub256 (n : Z) : Z := nostd_wide_ub (nostd_wide_hi n) + 256 * nostd_wide_shift n.

Definition nostd_log2_wide (n : Z) : option (dy * dy) :=
  if n <=? 0xff then nostd_log2_u8 n                                           (* 189-190 *)
  else if pow2b n then Some ((Z.log2 n, 0%nat), (Z.log2 n, 0%nat))              (* 191-194 *)
  else if bitlen n <=? 16 then
    Some ((log2_fp8 n, 8%nat), (ceil_log2_fp8 n, 8%nat))                       (* 197-200 *)
  else
    Some (nf_dy (nf_next_down (nf_of_fp8 (nostd_wide_lb256 n))),               (* 202-214 *)
          nf_dy (nf_next_up (nf_of_fp8 (nostd_wide_ub256 n)))).

(** the answer of the wide branch as the two f32 bit patterns, through the source's bit functions *)
Definition nostd_wide_bits (n : Z) : Z * Z :=
  (f32_next_down_bits (nf_bits (nf_of_fp8 (nostd_wide_lb256 n))),
   f32_next_up_bits (nf_bits (nf_of_fp8 (nostd_wide_ub256 n)))).

(** * order of dyadic fractions:  a <= b *)
Definition dy_le (a b : dy) : Prop :=
  fst a * 2 ^ Z.of_nat (snd b) <= fst b * 2 ^ Z.of_nat (snd a).

(** * the finite checks (domain 2^15 .. 2^16 - 1), decided with 40-bit brackets *)
(** "the ceiling handled by the highest word will cover the requirement for ceiling the low bits":
    (hi + 1)^256 <= 2^(ub hi) *)
Definition wide_ub_check (hi : Z) : bool :=
  match log2_lb_dec 40 (- nostd_wide_ub hi) 8 1 (hi + 1) with Some true => true | _ => false end.

(** the top word's estimates stay in 15*256 .. 16*256 (so the sums are below 2^24) *)
Definition wide_range_check (hi : Z) : bool :=
  (15 * 256 <=? log2_fp8 hi) && (log2_fp8 hi <=? 4095) &&
  (15 * 256 <? nostd_wide_ub hi) && (nostd_wide_ub hi <=? 4096).
