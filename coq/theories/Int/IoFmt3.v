(** C07 (round 3): fmt/mod.rs through the regenerated trait tables = the specification text.
    Every trait impl of UBig and of IBig hands InRadixWriter the radix, prefix and digit case of the
    specification; NoLetters is only ever chosen where no digit reaches 10; the in_radix digit-case rule
    (NoLetters up to radix 10, upper case under `#`, lower case otherwise) prints the specification's
    characters; the sign and zero-padding literals of format_prepared are the specification's. *)
From Dashu Require Import Base.Prelude Base.Words Int.IoSpec Int.IoModel Int.IoDigits Int.IoPrint Int.IoParse
  Int.IoRadix Int.IoLayout Int.IoPow2 Int.IoTop Int.IoFmt3Model.
From DashuGen Require Import IoTables IoTables3.
Open Scope Z_scope.

Theorem layout_literals_ok : gen_sign_minus = [45] /\ gen_sign_plus = [43] /\ gen_zero_pad = 48 /\ gen_separator = 95.
Proof. repeat split; reflexivity. Qed.

Ltac case_char_tac :=
  unfold case_char, digit_char, case_offset, gen_swar_zero, gen_swar_shift, gen_swar_bias, gen_case_lower, gen_case_upper;
  change (2 ^ 7 - 118) with 10; change (1 =? 1) with true; change (2 =? 1) with false; change (2 =? 2) with true;
  change (0 =? 1) with false; change (0 =? 2) with false; cbv iota.

Lemma case_char_lower d : case_char 1 d = digit_char false d.
Proof. case_char_tac. destruct (d <? 10); lia. Qed.
Lemma case_char_upper d : case_char 2 d = digit_char true d.
Proof. case_char_tac. destruct (d <? 10); lia. Qed.
Lemma case_char_none d up : d < 10 -> case_char 0 d = digit_char up d.
Proof. intros H. case_char_tac. destruct (Z.ltb_spec d 10); [destruct up; lia | lia]. Qed.

(** the trait table: same entry for UBig and IBig, equal to the specification's radix / prefix / case *)
Theorem trait_table_ok k t y : trait_id k = Some t -> y = 0 \/ y = 1 ->
  exists p c, trait_lookup t y gen_fmt_traits = Some (kind_radix k, p, c) /\ p = kind_prefix k /\
    forall f d, d < kind_radix k -> case_char c d = digit_char (kind_upper k f) d.
Proof.
  intros Ht Hy.
  destruct k; cbn [trait_id] in Ht; inversion Ht; subst t; destruct Hy as [-> | ->];
    (eexists; eexists; split; [vm_compute; reflexivity | split; [reflexivity|]]); intros f d Hd; cbn [kind_radix kind_upper] in *;
    first [ apply case_char_none; lia | apply case_char_lower | apply case_char_upper ].
Qed.

Theorem inradix_case_ok r f d : d < r -> case_char (inradix_case r (f_alt f)) d = digit_char (kind_upper (KInRadix r) f) d.
Proof.
  intros Hd. unfold inradix_case, gen_inradix_noletters_max, gen_inradix_case_small, gen_inradix_case_alt, gen_inradix_case_plain.
  cbn [kind_upper]. destruct (Z.leb_spec r 10).
  - apply case_char_none. lia.
  - destruct (f_alt f); [apply case_char_upper | apply case_char_lower].
Qed.

Lemma map_digits_ext c up r ds : in_range r ds -> (forall d, d < r -> case_char c d = digit_char up d) ->
  map (case_char c) ds = map (digit_char up) ds.
Proof.
  intros Hr H. apply map_ext_in. intros d Hin. apply H. unfold in_range in Hr. rewrite Forall_forall in Hr. apply Hr in Hin. lia.
Qed.

(** the formatting entry points, read through the regenerated tables, print the specification text *)
Section FmtTables.
Variables w y : Z.
Variable f : fmtflags.
Variable v : Z.
Hypothesis Hw : 0 < w.
Hypothesis He : w mod 2 = 0.
Hypothesis HB : 36 < Bw w.
Hypothesis Hy : y = 0 \/ y = 1.

Lemma Hdig r : 2 <= r <= 36 -> digits_asis w r (Z.abs v) = digits_spec r (Z.abs v) /\ in_range r (digits_spec r (Z.abs v)).
Proof. intros Hr. split; [apply digits_asis_correct; lia | apply digits_spec_range; lia]. Qed.

Lemma trait_case k t : trait_id k = Some t ->
  match trait_lookup t y gen_fmt_traits with
  | Some (r, p, c) => Ok (format_prepared_asis f (v <? 0) (if f_alt f then p else []) (map (case_char c) (digits_asis w r (Z.abs v))))
  | None => Panic Undocumented
  end = fmt_asis w k f v.
Proof.
  intros Et. destruct (trait_table_ok k t y Et Hy) as (p & c & El & Ep & Hc).
  assert (Hv : radix_valid (kind_radix k) = true) by (destruct k; try discriminate; reflexivity).
  assert (Hr : 2 <= kind_radix k <= 36) by (destruct k; try discriminate; cbn; lia).
  unfold fmt_asis. rewrite Hv, El, Ep. destruct (Hdig _ Hr) as (Ed & Hrange). rewrite Ed. f_equal. f_equal.
  apply (map_digits_ext c (kind_upper k f) (kind_radix k)); [exact Hrange | intros d Hd; apply Hc; exact Hd].
Qed.

Theorem fmt_tables_asis_correct k : fmt_tables_asis w y k f v = fmt_spec k f v.
Proof.
  rewrite <- (fmt_asis_correct w k f v Hw He HB).
  destruct k as [| | | | |r];
    [exact (trait_case KDisplay 0 eq_refl) | exact (trait_case KBinary 1 eq_refl) | exact (trait_case KOctal 2 eq_refl)
    | exact (trait_case KLowerHex 3 eq_refl) | exact (trait_case KUpperHex 4 eq_refl) |].
  unfold fmt_tables_asis, fmt_asis. cbn [kind_radix kind_prefix]. unfold radix_valid, gen_min_radix, gen_max_radix.
  destruct ((2 <=? r) && (r <=? 36)) eqn:Ev; [|reflexivity].
  assert (Hr : 2 <= r <= 36) by (apply andb_prop in Ev; destruct Ev as [E1 E2]; apply Z.leb_le in E1; apply Z.leb_le in E2; lia).
  destruct (Hdig r Hr) as (Ed & Hrange). rewrite Ed. f_equal. f_equal.
  - destruct (f_alt f); reflexivity.
  - apply (map_digits_ext _ (kind_upper (KInRadix r) f) r); [exact Hrange | intros d Hd; apply inradix_case_ok; exact Hd].
Qed.
End FmtTables.

(** third_party/num_traits.rs: both `Num::from_str_radix` are `Self::from_str_radix(s, radix)`; third_party/serde.rs: both
    human readable forms are `collect_str(self)` (= Display) and `from_str_with_radix_prefix(v)` with the radix dropped -
    so these string forms are the functions of C07_from_str_radix / C07_fmt / C07_from_str_prefix *)
Theorem third_party_routes : gen_num_traits_routes = 2 /\ gen_serde_routes = 2.
Proof. split; reflexivity. Qed.

Example fmt_tables_ex : fmt_tables_asis 64 1 KUpperHex (mkflags false true false None None [32]) (- 3000) = Ok [45; 48; 120; 66; 66; 56].
Proof. vm_compute. reflexivity. Qed.
Example fmt_tables_ex2 : fmt_tables_asis 64 0 (KInRadix 36) (mkflags true false false None None [32]) 35 = Ok [43; 122].
Proof. vm_compute. reflexivity. Qed.

(* ------------------------------------------------------------------------------------------ *)
(** * radix.rs digit_from_ascii_byte, evaluated by the translator for all 256 byte values (coq/gen/IoTables3.v
      gen_digit_table), is the grammar's digit function on EVERY byte 0..255 (finite domain: the argument is a u8) *)
Definition table_digit (c : Z) : option Z := nth (Z.to_nat c) gen_digit_table None.

Definition opt_eqb (a b : option Z) : bool :=
  match a, b with Some x, Some y => x =? y | None, None => true | _, _ => false end.

Lemma opt_eqb_eq a b : opt_eqb a b = true -> a = b.
Proof. destruct a, b; cbn; intros H; try discriminate; [apply Z.eqb_eq in H; subst|]; reflexivity. Qed.

Lemma digit_table_check :
  length gen_digit_table = 256%nat /\
  forallb (fun n => opt_eqb (nth n gen_digit_table None) (digit_of_char (Z.of_nat n))) (seq 0 256) = true.
Proof. split; vm_compute; reflexivity. Qed.

Theorem digit_table_ok c : 0 <= c < 256 -> table_digit c = digit_of_char c.
Proof.
  intros Hc. destruct digit_table_check as [_ H]. rewrite forallb_forall in H.
  specialize (H (Z.to_nat c) ltac:(apply in_seq; lia)). apply opt_eqb_eq in H.
  rewrite Z2Nat.id in H by lia. exact H.
Qed.

Corollary digit_from_ascii_table256 r c : 0 <= c < 256 ->
  digit_from_ascii r c = match table_digit c with Some d => if d <? r then Some d else None | None => None end.
Proof. intros Hc. unfold digit_from_ascii. rewrite (digit_table_ok c Hc). reflexivity. Qed.

(** in particular no control byte, no neighbour of the ranges and no byte above 127 is a digit *)
Example digit_table_ex : table_digit 17 = None /\ table_digit 64 = None /\ table_digit 96 = None /\ table_digit 177 = None /\
  table_digit 65 = Some 10 /\ table_digit 122 = Some 35.
Proof. repeat split; vm_compute; reflexivity. Qed.
