(** C01 (L0): the word-level Toom-3 model (RingToomW.v: slice bookkeeping and deferred carries of
    toom_3.rs) meets the kernel contract for every word size w >= 8 and every length n >= 16
    (= toom_3::MIN_LEN), given the recursive multiplier is correct on shorter operands: none of the
    debug_assert_zero!s fires, the subtraction t1 -= 12 V(inf) never borrows, both divisions are
    exact, and c' + carry * B^(2n) = c + sign * a * b. *)
From Dashu Require Import Base.Prelude Base.Words Int.RingAdd Int.RingAddProofs Int.RingMul Int.RingMulProofs
  Int.RingKaraProofs Int.RingToomProofs Int.RingToomW.
Open Scope Z_scope.

Section ToomWProofs.
Variable w : Z.
Hypothesis w_ge : 8 <= w.
Let w_pos : 0 < w. Proof. lia. Qed.
Notation BB := (B w).
Notation val := (value w).
Notation wfw := (wf w).
Let HB : 0 < BB := B_pos w w_pos.
Let HB256 : 256 <= BB := B_ge_256 w w_ge.

Lemma wf_snoc' l x : wfw l -> 0 <= x < BB -> wfw (l ++ [x]).
Proof. intros H Hx. apply wf_app. split; [auto|]. apply wf_cons. split; [lia | apply wf_nil]. Qed.
Lemma val_snoc' l x : val (l ++ [x]) = val l + BB ^ len l * x.
Proof. rewrite value_app. cbn [value]. ring. Qed.

Lemma add_mul_word_in_place_spec ws mult rhs : (length rhs <= length ws)%nat -> wfw ws -> wfw rhs -> 0 <= mult < BB ->
  forall r c, add_mul_word_in_place w ws mult rhs = (r, c) ->
  length r = length ws /\ wfw r /\ 0 <= c < BB /\ val r + c * BB ^ len ws = val ws + mult * val rhs.
Proof.
  intros L Hw Hr Hm r c E. unfold add_mul_word_in_place in E.
  destruct (Z.eqb_spec mult 0) as [->|Hne].
  { inversion E; subst. repeat split; auto; lia. }
  set (n := length rhs) in *.
  destruct (add_mul_word_same_len_in_place w (firstn n ws) mult rhs) as [lo carry] eqn:E1.
  destruct (add_mul_word_same_len_spec w w_ge (firstn n ws) mult rhs ltac:(rewrite firstn_length_le; lia)
              (wf_firstn w n ws Hw) Hr Hm _ _ E1) as (Llo & Wlo & Bc & Vlo).
  rewrite firstn_length_le in Llo by lia. unfold len in Vlo. rewrite firstn_length_le in Vlo by lia.
  pose proof (firstn_skipn_val w n ws) as S. unfold len in S. rewrite firstn_length_le in S by lia.
  set (P := BB ^ Z.of_nat n) in *.
  assert (PW : BB ^ len ws = P * BB ^ Z.of_nat (length ws - n)).
  { subst P. rewrite <- pow_nat_add. unfold len. f_equal. f_equal. lia. }
  destruct (Nat.ltb_spec n (length ws)) as [H|H].
  - destruct (add_word_in_place w (skipn n ws) carry) as [hi cc] eqn:E2. inversion E; subst r c; clear E.
    destruct (add_word_in_place_spec w w_pos (skipn n ws) carry (wf_skipn w n ws Hw)
                ltac:(intros Z0; apply (f_equal (@length Z)) in Z0; rewrite skipn_length in Z0; cbn [length] in Z0; lia) Bc _ _ E2)
      as (Lhi & Whi & Vhi).
    rewrite skipn_length in Lhi. unfold len in Vhi. rewrite skipn_length in Vhi.
    split; [rewrite app_length; lia|]. split; [apply wf_app; auto|].
    pose proof (b2z_range cc). split; [lia|].
    rewrite value_app. unfold len at 1. rewrite Llo. fold P. rewrite PW. nia.
  - inversion E; subst r c; clear E. rewrite skipn_all2 in * by lia. rewrite app_nil_r. cbn [value] in S.
    assert (length ws = n) by lia. split; [lia|]. split; [auto|]. split; [lia|].
    unfold len. replace (length ws) with n by lia. fold P. lia.
Qed.

Lemma eval2_spec x0 x1 x2 : wfw x0 -> wfw x1 -> wfw x2 -> length x1 = length x0 -> (length x2 <= length x0)%nat ->
  length (eval2 w x0 x1 x2) = S (length x0) /\ wfw (eval2 w x0 x1 x2) /\
  val (eval2 w x0 x1 x2) = val x0 + 2 * val x1 + 4 * val x2.
Proof.
  intros W0 W1 W2 L1 L2. unfold eval2.
  destruct (add_mul_word_same_len_in_place w x0 2 x1) as [lo c1] eqn:E1.
  destruct (add_mul_word_same_len_spec w w_ge x0 2 x1 ltac:(lia) W0 W1 ltac:(lia) _ _ E1) as (Llo & Wlo & B1 & V1).
  destruct (add_mul_word_in_place w lo 4 x2) as [lo' c2] eqn:E2.
  destruct (add_mul_word_in_place_spec lo 4 x2 ltac:(lia) Wlo W2 ltac:(lia) _ _ E2) as (Llo' & Wlo' & B2 & V2).
  pose proof (value_bounds w w_pos x0 W0) as Bx0. pose proof (value_bounds w w_pos x1 W1) as Bx1.
  pose proof (val_lt_pow w w_ge x2 _ W2 eq_refl) as Bx2.
  pose proof (value_bounds w w_pos lo Wlo) as Blo. pose proof (value_bounds w w_pos lo' Wlo') as Blo'.
  rewrite (len_eq x1 x0 L1) in Bx1. rewrite (len_eq lo x0 Llo) in *. rewrite (len_eq lo' x0 ltac:(lia)) in *.
  assert (BB ^ Z.of_nat (length x2) <= BB ^ len x0) by (apply Z.pow_le_mono_r; unfold len; lia).
  set (P := BB ^ len x0) in *. assert (0 < P) by apply plen_pos, w_ge.
  assert (c1 <= 2) by nia. assert (c2 <= 4) by nia.
  split; [rewrite app_length; cbn [length]; lia|]. split; [apply wf_snoc'; auto; lia|].
  rewrite val_snoc', (len_eq lo' x0 ltac:(lia)). fold P. nia.
Qed.

Lemma eval02_spec x0 x2 : wfw x0 -> wfw x2 -> (length x2 <= length x0)%nat ->
  length (eval02 w x0 x2) = S (length x0) /\ wfw (eval02 w x0 x2) /\ val (eval02 w x0 x2) = val x0 + val x2.
Proof.
  intros W0 W2 L. unfold eval02. destruct (add_in_place w x0 x2) as [lo cr] eqn:E.
  destruct (add_in_place_spec w w_pos x0 x2 L W0 W2 _ _ E) as (Llo & Wlo & V).
  pose proof (b2z_range cr). split; [rewrite app_length; cbn [length]; lia|]. split; [apply wf_snoc'; auto; lia|].
  rewrite val_snoc', (len_eq lo x0 Llo). lia.
Qed.

Lemma val_top l k : length l = S k -> val l = val (firstn k l) + BB ^ Z.of_nat k * nth k l 0.
Proof.
  intros L. rewrite (val_at w k l) by lia. rewrite skipn_all2 by lia. cbn [value]. ring.
Qed.

Lemma eval1_spec x02 x1 n3 : wfw x02 -> wfw x1 -> length x02 = S n3 -> length x1 = n3 -> val x02 < 2 * BB ^ Z.of_nat n3 ->
  length (eval1 w x02 x1 n3) = S n3 /\ wfw (eval1 w x02 x1 n3) /\ val (eval1 w x02 x1 n3) = val x02 + val x1.
Proof.
  intros W02 W1 L02 L1 Bx. unfold eval1.
  destruct (add_same_len_in_place w (firstn n3 x02) x1) as [lo cr] eqn:E. unfold add_same_len_in_place in E.
  destruct (add_same_len_spec w w_pos (firstn n3 x02) x1 false ltac:(rewrite firstn_length_le; lia)
              (wf_firstn w n3 x02 W02) W1 _ _ E) as (Llo & Wlo & V).
  rewrite firstn_length_le in Llo by lia. unfold len in V. rewrite firstn_length_le in V by lia. cbn [b2z] in V.
  pose proof (val_top x02 n3 L02) as T. pose proof (wf_nth w n3 x02 W02 ltac:(lia)) as Bt.
  pose proof (val_lt_pow w w_ge x1 n3 W1 L1) as B1. pose proof (val_lt_pow w w_ge lo n3 Wlo Llo) as Blo.
  pose proof (value_nonneg w w_pos _ (wf_firstn w n3 x02 W02)) as Bf.
  set (P := BB ^ Z.of_nat n3) in *. assert (0 < P) by apply pow_nat_pos, w_ge. pose proof (b2z_range cr).
  assert (nth n3 x02 0 + b2z cr <= 2) by nia.
  split; [rewrite app_length; cbn [length]; lia|]. split; [apply wf_snoc'; auto; lia|].
  rewrite val_snoc'. unfold len. rewrite Llo. fold P. nia.
Qed.

Lemma BB_pow2 : BB ^ Z.of_nat 2 = BB * BB.
Proof. change (Z.of_nat 2) with 2. apply Z.pow_2_r. Qed.

Lemma sixteen_facts (n : nat) : (16 <= n)%nat ->
  let n3 := ((n + 2) / 3)%nat in (2 * n3 <= n /\ n <= 3 * n3 /\ n3 + 1 < n /\ 6 <= n3 /\ 5 * n3 + 2 <= 2 * n)%nat.
Proof.
  intros Hn n3. subst n3.
  pose proof (Nat.div_mod (n + 2) 3 ltac:(lia)). pose proof (Nat.mod_upper_bound (n + 2) 3 ltac:(lia)). lia.
Qed.

(** Side conditions of [toom3w_ok] are discharged in a context reduced to the facts about lengths
    (resp. about the deferred carries): with the ~300 hypotheses of that proof, zify's case analysis on
    every natural subtraction in the context makes a plain [lia] take tens of minutes. *)
Ltac keep_nat := repeat match goal with H : ?T |- _ => lazymatch T with
  | (_ <= _)%nat => fail | (_ < _)%nat => fail | @eq nat _ _ => fail | _ => clear H end end.
Ltac keep_carry := repeat match goal with H : ?T |- _ => lazymatch T with
  | (-1 <= _ <= 1) => fail | (256 <= _) => fail | (0 < _) => fail | _ => clear H end end.
Ltac flia := first [ solve [keep_nat; lia] | solve [keep_carry; lia] | lia ].

(** what the proof needs of div::div_by_word_in_place(_, k) / shift::shr_in_place(_, 1): the quotient in the
    same number of words, and a zero remainder whenever the division is exact *)
Definition divk_ok (k : Z) (f : list Z -> list Z * Z) : Prop :=
  forall t q r, wfw t -> f t = (q, r) ->
    val q = val t / k /\ (val t mod k = 0 -> r = 0) /\ wfw q /\ length q = length t.

Theorem toom3g_ok (div6 shr1 : list Z -> list Z * Z) (rec_same : mulfn) c s a b :
  divk_ok 6 div6 -> divk_ok 2 shr1 ->
  pre w c a b -> length a = length b -> (16 <= length a)%nat -> same_ok w rec_same (length a) ->
  mul_ok w (toom3g_same_len w div6 shr1 rec_same) c s a b.
Proof.
  intros Hdiv6 Hshr1 (Hc & Ha & Hb & L) Lab Hn Hrec. pose proof (BB_sq_ge w w_ge) as HB2.
  unfold mul_ok, toom3g_same_len. cbv zeta.
  destruct (sixteen_facts (length a) Hn) as (M1 & M2 & M3 & M4 & M5). cbv zeta in M1, M2, M3, M4, M5.
  set (n := length a) in *. set (n3 := ((n + 2) / 3)%nat) in *.
  set (a0 := firstn n3 a). set (a1 := slice n3 n3 a). set (a2 := skipn (2 * n3) a).
  set (b0 := firstn n3 b). set (b1 := slice n3 n3 b). set (b2 := skipn (2 * n3) b).
  assert (La0 : length a0 = n3) by (subst a0; rewrite firstn_length_le; flia).
  assert (Lb0 : length b0 = n3) by (subst b0; rewrite firstn_length_le; flia).
  assert (La1 : length a1 = n3) by (subst a1; apply slice_length; flia).
  assert (Lb1 : length b1 = n3) by (subst b1; apply slice_length; flia).
  assert (La2 : length a2 = (n - 2 * n3)%nat) by (subst a2; rewrite skipn_length; flia).
  assert (Lb2 : length b2 = (n - 2 * n3)%nat) by (subst b2; rewrite skipn_length; flia).
  assert (Wa0 : wfw a0) by (apply wf_firstn; auto). assert (Wb0 : wfw b0) by (apply wf_firstn; auto).
  assert (Wa1 : wfw a1) by (apply wf_slice; auto). assert (Wb1 : wfw b1) by (apply wf_slice; auto).
  assert (Wa2 : wfw a2) by (apply wf_skipn; auto). assert (Wb2 : wfw b2) by (apply wf_skipn; auto).
  set (X := BB ^ Z.of_nat n3) in *.
  assert (HX : 0 < X) by apply pow_nat_pos, w_ge.
  assert (Sa : val a = val a0 + X * val a1 + X * X * val a2).
  { rewrite (split3 n3 n3 a) at 1. fold a0 a1. replace (n3 + n3)%nat with (2 * n3)%nat by flia. fold a2.
    rewrite !value_app. unfold len. rewrite La0, La1. fold X. ring. }
  assert (Sb : val b = val b0 + X * val b1 + X * X * val b2).
  { rewrite (split3 n3 n3 b) at 1. fold b0 b1. replace (n3 + n3)%nat with (2 * n3)%nat by flia. fold b2.
    rewrite !value_app. unfold len. rewrite Lb0, Lb1. fold X. ring. }
  pose proof (val_lt_pow w w_ge a0 n3 Wa0 La0) as Ba0. pose proof (val_lt_pow w w_ge a1 n3 Wa1 La1) as Ba1.
  pose proof (val_lt_pow w w_ge b0 n3 Wb0 Lb0) as Bb0. pose proof (val_lt_pow w w_ge b1 n3 Wb1 Lb1) as Bb1.
  assert (Ba2 : 0 <= val a2 < X).
  { pose proof (val_lt_pow w w_ge a2 _ Wa2 La2) as H. split; [flia|]. eapply Z.lt_le_trans; [apply H|]. apply Z.pow_le_mono_r; flia. }
  assert (Bb2 : 0 <= val b2 < X).
  { pose proof (val_lt_pow w w_ge b2 _ Wb2 Lb2) as H. split; [flia|]. eapply Z.lt_le_trans; [apply H|]. apply Z.pow_le_mono_r; flia. }
  fold X in Ba0, Ba1, Bb0, Bb1.
  assert (PS : BB ^ Z.of_nat (S n3) = BB * X) by apply pow_nat_S.
  set (m := (2 * n3 + 2)%nat) in *.
  assert (Pm : BB ^ Z.of_nat m = BB * BB * (X * X)).
  { subst m. replace (2 * n3 + 2)%nat with (S n3 + S n3)%nat by flia. rewrite pow_nat_add, PS. ring. }
  assert (P2 : BB ^ Z.of_nat (2 * n3) = X * X).
  { replace (2 * n3)%nat with (n3 + n3)%nat by flia. rewrite pow_nat_add. reflexivity. }
  set (A0 := val a0) in *. set (A1 := val a1) in *. set (A2 := val a2) in *.
  set (B0 := val b0) in *. set (B1 := val b1) in *. set (B2 := val b2) in *.
  assert (Lc : length c = (2 * n)%nat) by flia.
  (* ---- V(0) *)
  destruct (product_ok w w_ge rec_same (2 * n3) a0 b0 Wa0 Wb0 ltac:(flia)) as (t1s & E0 & Lt1s & Wt1s & Vt1s).
  { apply Hrec; [repeat split; auto; [apply wf_repeat_zero, w_pos | rewrite repeat_length; flia] | flia | flia]. }
  rewrite E0. cbn [rbind]. fold A0 B0 in Vt1s.
  destruct (add_signed_same_len_in_place w (slice 0 (2 * n3) c) s t1s) as [x1 k0] eqn:E1.
  destruct (step_signed_same w w_ge c 0 (2 * n3) s t1s x1 k0 ltac:(flia) Hc Wt1s Lt1s E1) as (L1 & W1 & K0 & V1).
  set (c1 := splice 0 x1 c) in *.
  destruct (add_signed_in_place w (slice (2 * n3) m c1) (sign_neg s) t1s) as [x2 k2a] eqn:E2.
  destruct (step_signed w w_ge c1 (2 * n3) m (sign_neg s) t1s x2 k2a ltac:(flia) W1 Wt1s ltac:(flia) E2) as (L2 & W2 & K2a & V2).
  set (c2 := splice (2 * n3) x2 c1) in *.
  destruct (mul_word_in_place w t1s 3) as [t1s3 cw3] eqn:E3.
  destruct (mul_word_in_place_spec w w_ge t1s 3 Wt1s ltac:(flia) _ _ E3) as (Lt3 & Wt3 & Bcw3 & Vt3).
  assert (Wt1i : wfw (t1s3 ++ [cw3; 0])).
  { apply wf_app. split; [auto|]. apply wf_cons; split; [flia|]. apply wf_cons; split; [flia | apply wf_nil]. }
  assert (Lt1i : length (t1s3 ++ [cw3; 0]) = m) by (rewrite app_length; cbn [length]; flia).
  assert (Vt1i : val (t1s3 ++ [cw3; 0]) = 3 * (A0 * B0)).
  { rewrite value_app. cbn [value]. rewrite (len_eq t1s3 t1s Lt3). flia. }
  (* ---- V(2) *)
  destruct (eval2_spec a0 a1 a2 Wa0 Wa1 Wa2 ltac:(flia) ltac:(flia)) as (Le2a & We2a & Ve2a).
  destruct (eval2_spec b0 b1 b2 Wb0 Wb1 Wb2 ltac:(flia) ltac:(flia)) as (Le2b & We2b & Ve2b).
  fold A0 A1 A2 in Ve2a. fold B0 B1 B2 in Ve2b. rewrite La0 in Le2a. rewrite Lb0 in Le2b.
  set (a_e2 := eval2 w a0 a1 a2) in *. set (b_e2 := eval2 w b0 b1 b2) in *.
  assert (Pre2 : pre w (t1s3 ++ [cw3; 0]) a_e2 b_e2) by (repeat split; auto; flia).
  destruct (accum_ok w w_ge rec_same _ a_e2 b_e2 Pre2) as (t1a & E4 & Lt1a & Wt1a & Vt1a).
  { apply Hrec; [exact Pre2 | flia | flia]. }
  { unfold len. rewrite Lt1i, Pm, Vt1i, Ve2a, Ve2b. nia. }
  rewrite E4. cbn [rbind]. rewrite Vt1i, Ve2a, Ve2b in Vt1a. rewrite Lt1i in Lt1a.
  (* ---- V(inf) *)
  destruct (product_ok w w_ge rec_same (2 * (n - 2 * n3)) a2 b2 Wa2 Wb2 ltac:(flia)) as (csh & E5 & Lcsh & Wcsh & Vcsh).
  { apply Hrec; [repeat split; auto; [apply wf_repeat_zero, w_pos | rewrite repeat_length; flia] | flia | flia]. }
  rewrite E5. cbn [rbind]. fold A2 B2 in Vcsh.
  destruct (add_signed_in_place w (slice (2 * n3) m c2) (sign_neg s) csh) as [x3 k2b] eqn:E6.
  destruct (step_signed w w_ge c2 (2 * n3) m (sign_neg s) csh x3 k2b ltac:(flia) W2 Wcsh ltac:(flia) E6) as (L3 & W3 & K2b & V3).
  set (c3 := splice (2 * n3) x3 c2) in *.
  destruct (add_signed_same_len_in_place w (slice (4 * n3) (length c3 - 4 * n3) c3) s csh) as [x4 kc] eqn:E7.
  destruct (step_signed_same w w_ge c3 (4 * n3) (length c3 - 4 * n3) s csh x4 kc ltac:(flia) W3 Wcsh ltac:(flia) E7) as (L4 & W4 & Kc & V4).
  set (c4 := splice (4 * n3) x4 c3) in *.
  destruct (mul_word_in_place w csh 12) as [cs12 cw12] eqn:E8.
  destruct (mul_word_in_place_spec w w_ge csh 12 Wcsh ltac:(flia) _ _ E8) as (L12 & W12 & Bcw12 & V12).
  assert (W12' : wfw (cs12 ++ [cw12])) by (apply wf_snoc'; auto).
  assert (V12' : val (cs12 ++ [cw12]) = 12 * (A2 * B2)) by (rewrite val_snoc', (len_eq cs12 csh L12); flia).
  destruct (sub_in_place w t1a (cs12 ++ [cw12])) as [t1b borrow] eqn:E9.
  destruct (sub_in_place_spec w w_pos t1a (cs12 ++ [cw12]) ltac:(rewrite app_length; cbn [length]; flia) Wt1a W12' _ _ E9) as (Lt1b & Wt1b & Vt1b).
  rewrite V12', Vt1a in Vt1b. rewrite Lt1a in Lt1b.
  pose proof (value_bounds w w_pos t1b Wt1b) as Bt1b. unfold len in Bt1b, Vt1b. rewrite Lt1b in Bt1b. rewrite Lt1a in Vt1b. rewrite Pm in Bt1b, Vt1b.
  destruct borrow; cbn [b2z] in Vt1b.
  { exfalso. assert (P16 : 16 * (A2 * B2) <= (A0 + 2 * A1 + 4 * A2) * (B0 + 2 * B1 + 4 * B2)) by (clear - Ba0 Ba1 Ba2 Bb0 Bb1 Bb2; nia).
    assert (Q0 : 0 <= A0 * B0) by (clear - Ba0 Bb0; nia). assert (Q2 : 0 <= A2 * B2) by (clear - Ba2 Bb2; nia).
    clear - Vt1b Bt1b P16 Q0 Q2. lia. }
  (* ---- V(1) *)
  destruct (eval02_spec a0 a2 Wa0 Wa2 ltac:(flia)) as (L02a & W02a & V02a).
  destruct (eval02_spec b0 b2 Wb0 Wb2 ltac:(flia)) as (L02b & W02b & V02b).
  fold A0 A2 in V02a. fold B0 B2 in V02b. rewrite La0 in L02a. rewrite Lb0 in L02b.
  set (a02 := eval02 w a0 a2) in *. set (b02 := eval02 w b0 b2) in *.
  destruct (eval1_spec a02 a1 n3 W02a Wa1 L02a La1 ltac:(fold X; flia)) as (Le1a & We1a & Ve1a).
  destruct (eval1_spec b02 b1 n3 W02b Wb1 L02b Lb1 ltac:(fold X; flia)) as (Le1b & We1b & Ve1b).
  fold A1 in Ve1a. fold B1 in Ve1b. rewrite V02a in Ve1a. rewrite V02b in Ve1b.
  set (a_e1 := eval1 w a02 a1 n3) in *. set (b_e1 := eval1 w b02 b1 n3) in *.
  destruct (product_ok w w_ge rec_same m a_e1 b_e1 We1a We1b ltac:(flia)) as (t2a & E10 & Lt2a & Wt2a & Vt2a).
  { apply Hrec; [repeat split; auto; [apply wf_repeat_zero, w_pos | rewrite repeat_length; flia] | flia | flia]. }
  rewrite E10. cbn [rbind]. rewrite Ve1a, Ve1b in Vt2a.
  destruct (add_signed_in_place w (slice n3 m c4) s t2a) as [x5 k1a] eqn:E11.
  destruct (step_signed w w_ge c4 n3 m s t2a x5 k1a ltac:(flia) W4 Wt2a ltac:(flia) E11) as (L5 & W5 & K1a & V5).
  set (c5 := splice n3 x5 c4) in *.
  (* ---- V(-1) *)
  destruct (sub_in_place_with_sign w a02 a1) as [a_em sa] eqn:E12.
  destruct (sub_in_place_with_sign_spec w w_pos a02 a1 ltac:(flia) W02a Wa1 _ _ E12) as (Lema & Wema & Vema).
  destruct (sub_in_place_with_sign w b02 b1) as [b_em sb] eqn:E13.
  destruct (sub_in_place_with_sign_spec w w_pos b02 b1 ltac:(flia) W02b Wb1 _ _ E13) as (Lemb & Wemb & Vemb).
  fold A1 in Vema. fold B1 in Vemb. rewrite V02a in Vema. rewrite V02b in Vemb. unfold signed in Vema, Vemb.
  destruct (product_ok w w_ge rec_same (2 * (n3 + 1)) a_em b_em Wema Wemb ltac:(flia)) as (cev & E14 & Lcev & Wcev & Vcev).
  { apply Hrec; [repeat split; auto; [apply wf_repeat_zero, w_pos | rewrite repeat_length; flia] | flia | flia]. }
  rewrite E14. cbn [rbind].
  set (vs := sign_mul sa sb) in *.
  assert (Vm1 : sgnz vs * val cev = (A0 + A2 - A1) * (B0 + B2 - B1)).
  { subst vs. rewrite sgnz_mul, Vcev, <- Vema, <- Vemb. ring. }
  (* the coefficients of the product polynomial *)
  set (c0 := A0 * B0) in *. set (q1 := A0 * B1 + A1 * B0). set (q2 := A0 * B2 + A1 * B1 + A2 * B0).
  set (q3 := A1 * B2 + A2 * B1). set (c4' := A2 * B2) in *.
  assert (C0 : 0 <= c0 < X * X) by (clear - Ba0 Bb0 HX; subst c0; nia).
  assert (C1 : 0 <= q1 < 2 * (X * X)) by (clear - Ba0 Ba1 Bb0 Bb1 HX; subst q1; nia).
  assert (C2 : 0 <= q2 < 3 * (X * X)) by (clear - Ba0 Ba1 Ba2 Bb0 Bb1 Bb2 HX; subst q2; nia).
  assert (C3 : 0 <= q3 < 2 * (X * X)) by (clear - Ba1 Ba2 Bb1 Bb2 HX; subst q3; nia).
  assert (C4 : 0 <= c4' < X * X) by (clear - Ba2 Bb2 HX; subst c4'; nia).
  assert (T2 : (A0 + A2 + A1) * (B0 + B2 + B1) + (A0 + A2 - A1) * (B0 + B2 - B1) = (c0 + q2 + c4') * 2) by (subst c0 q2 c4'; ring).
  assert (T1 : 3 * c0 + (A0 + 2 * A1 + 4 * A2) * (B0 + 2 * B1 + 4 * B2) - 12 * c4' + 2 * ((A0 + A2 - A1) * (B0 + B2 - B1))
               = (c0 + q2 + q3 + c4') * 6) by (subst c0 q2 q3 c4'; ring).
  assert (Vone : (A0 + A2 + A1) * (B0 + B2 + B1) = c0 + q1 + q2 + q3 + c4') by (subst c0 q1 q2 q3 c4'; ring).
  (* t2 += V(-1) *)
  destruct (add_signed_same_len_in_place w t2a vs cev) as [t2b kt2] eqn:E15.
  destruct (add_signed_same_len_in_place_spec w w_pos t2a vs cev ltac:(flia) Wt2a Wcev _ _ E15) as (U15 & _).
  assert (Kt2 : kt2 = 0).
  { apply (upd_carry_range w w_pos t2a t2b kt2 _ Wt2a U15). unfold len. rewrite Lt2a, Pm, Vt2a, Vm1, T2.
    clear - C0 C2 C4 HB2 HX. nia. }
  destruct U15 as (Lt2b & Wt2b & Vt2b). subst kt2. cbn [Z.eqb negb]. rewrite Vt2a, Vm1, T2 in Vt2b. rewrite Lt2a in Lt2b.
  (* t1 += 2 V(-1) *)
  assert (S6 : val t1b + sgnz vs * (2 * val cev) = (c0 + q2 + q3 + c4') * 6).
  { rewrite <- T1. replace (sgnz vs * (2 * val cev)) with (2 * (sgnz vs * val cev)) by ring. rewrite Vm1. clear - Vt1b. lia. }
  assert (Ht1c : exists t1c, (match vs with
                  | Positive => add_mul_word_same_len_in_place w t1b 2 cev
                  | Negative => sub_mul_word_same_len_in_place w t1b 2 cev
                  end) = (t1c, 0) /\ length t1c = m /\ wfw t1c /\ val t1c = (c0 + q2 + q3 + c4') * 6).
  { destruct vs; cbn [sgnz] in S6.
    - destruct (add_mul_word_same_len_in_place w t1b 2 cev) as [t1c k] eqn:E16.
      destruct (add_mul_word_same_len_spec w w_ge t1b 2 cev ltac:(flia) Wt1b Wcev ltac:(flia) _ _ E16) as (Lc' & Wc' & Bk & Vc').
      pose proof (value_bounds w w_pos t1c Wc') as Bc'. rewrite (len_eq t1c t1b Lc') in Bc'. unfold len in Bc', Vc'. rewrite Lt1b, Pm in Bc', Vc'.
      assert (k = 0) by (clear - Vc' S6 Bc' Bk C0 C2 C3 C4 HB2 HX; nia). subst k.
      exists t1c. split; [reflexivity|]. split; [rewrite Lc'; exact Lt1b|]. split; [exact Wc'|]. clear - Vc' S6. lia.
    - destruct (sub_mul_word_same_len_in_place w t1b 2 cev) as [t1c k] eqn:E16.
      destruct (sub_mul_word_same_len_spec w w_ge t1b 2 cev ltac:(flia) Wt1b Wcev ltac:(flia) _ _ E16) as (Lc' & Wc' & Bk & Vc').
      pose proof (value_bounds w w_pos t1c Wc') as Bc'. rewrite (len_eq t1c t1b Lc') in Bc'. unfold len in Bc', Vc'. rewrite Lt1b, Pm in Bc', Vc'.
      assert (k = 0) by (clear - Vc' S6 Bc' Bk C0 C2 C3 C4 HB2 HX; nia). subst k.
      exists t1c. split; [reflexivity|]. split; [rewrite Lc'; exact Lt1b|]. split; [exact Wc'|]. clear - Vc' S6. lia. }
  destruct Ht1c as (t1c & E16 & Lt1c & Wt1c & Vt1c). rewrite E16. cbn [Z.eqb negb].
  (* exact divisions *)
  assert (Vt2b' : val t2b = (c0 + q2 + c4') * 2) by (clear - Vt2b; lia).
  destruct (div6 t1c) as [u1 r1] eqn:Ed1. destruct (Hdiv6 t1c u1 r1 Wt1c Ed1) as (Vu1 & Ru1 & Wu1 & Lu1).
  destruct (shr1 t2b) as [u2 r2] eqn:Ed2. destruct (Hshr1 t2b u2 r2 Wt2b Ed2) as (Vu2 & Ru2 & Wu2 & Lu2).
  rewrite Vt1c in Vu1, Ru1. rewrite Vt2b' in Vu2, Ru2. rewrite Z.mod_mul in Ru1, Ru2 by lia. rewrite Z.div_mul in Vu1, Vu2 by lia.
  rewrite (Ru1 eq_refl), (Ru2 eq_refl). cbn [Z.eqb negb orb]. clear Ru1 Ru2.
  rewrite Lt1c in Lu1. rewrite Lt2b in Lu2.
  (* ---- interpolation *)
  destruct (add_signed_same_len_in_place w (slice n3 m c5) (sign_neg s) u1) as [x6 k1b] eqn:E17.
  destruct (step_signed_same w w_ge c5 n3 m (sign_neg s) u1 x6 k1b ltac:(flia) W5 Wu1 Lu1 E17) as (L6 & W6 & K1b & V6).
  set (c6 := splice n3 x6 c5) in *.
  destruct (add_signed_same_len_in_place w (slice (3 * n3) m c6) s u1) as [x7 k3a] eqn:E18.
  destruct (step_signed_same w w_ge c6 (3 * n3) m s u1 x7 k3a ltac:(flia) W6 Wu1 Lu1 E18) as (L7 & W7 & K3a & V7).
  set (c7 := splice (3 * n3) x7 c6) in *.
  destruct (add_signed_same_len_in_place w (slice (2 * n3) m c7) s u2) as [x8 k2c] eqn:E19.
  destruct (step_signed_same w w_ge c7 (2 * n3) m s u2 x8 k2c ltac:(flia) W7 Wu2 Lu2 E19) as (L8 & W8 & K2c & V8).
  set (c8 := splice (2 * n3) x8 c7) in *.
  destruct (add_signed_same_len_in_place w (slice (3 * n3) m c8) (sign_neg s) u2) as [x9 k3b] eqn:E20.
  destruct (step_signed_same w w_ge c8 (3 * n3) m (sign_neg s) u2 x9 k3b ltac:(flia) W8 Wu2 Lu2 E20) as (L9 & W9 & K3b & V9).
  set (c9 := splice (3 * n3) x9 c8) in *.
  (* ---- deferred carries *)
  destruct (add_signed_word_in_place w (slice (2 * n3) (n3 + 2) c9) k0) as [x10 k1c] eqn:E21.
  destruct (step_signed_word w w_ge c9 (2 * n3) (n3 + 2) k0 x10 k1c ltac:(flia) W9 ltac:(flia) E21) as (L10 & W10 & K1c & _ & V10).
  specialize (K1c ltac:(flia)). set (c10 := splice (2 * n3) x10 c9) in *.
  destruct (add_signed_word_in_place w (slice (3 * n3 + 2) n3 c10) (k1a + k1b + k1c)) as [x11 k2d] eqn:E22.
  destruct (step_signed_word w w_ge c10 (3 * n3 + 2) n3 (k1a + k1b + k1c) x11 k2d ltac:(flia) W10 ltac:(flia) E22) as (L11 & W11 & K2d & _ & V11).
  specialize (K2d ltac:(flia)). set (c11 := splice (3 * n3 + 2) x11 c10) in *.
  destruct (add_signed_word_in_place w (slice (4 * n3 + 2) n3 c11) (k2a + k2b + k2c + k2d)) as [x12 k3c] eqn:E23.
  destruct (step_signed_word w w_ge c11 (4 * n3 + 2) n3 (k2a + k2b + k2c + k2d) x12 k3c ltac:(flia) W11 ltac:(flia) E23) as (L12' & W12'' & K3c & _ & V12'').
  specialize (K3c ltac:(flia)). set (c12 := splice (4 * n3 + 2) x12 c11) in *.
  destruct (add_signed_word_in_place w (slice (5 * n3 + 2) (length c12 - (5 * n3 + 2)) c12) (k3a + k3b + k3c)) as [x13 kf] eqn:E24.
  destruct (step_signed_word w w_ge c12 (5 * n3 + 2) (length c12 - (5 * n3 + 2)) (k3a + k3b + k3c) x13 kf ltac:(flia) W12'' ltac:(flia) E24)
    as (L13 & W13 & _ & _ & V13).
  eexists _, _. split; [reflexivity|]. split; [flia|]. split; [exact W13|].
  (* ---- the arithmetic *)
  rewrite V13, V12'', V11, V10, V9, V8, V7, V6, V5, V4, V3, V2, V1.
  rewrite !sgnz_neg. rewrite Vu1, Vu2, Vt2a, Vone, Vcsh, Vt1s. fold c0 c4'.
  rewrite Sa, Sb. fold A0 A1 A2 B0 B1 B2.
  assert (EP : A0 * B0 = c0 /\ A2 * B2 = c4') by (split; reflexivity). 
  replace ((A0 + X * A1 + X * X * A2) * (B0 + X * B1 + X * X * B2))
    with (c0 + q1 * X + q2 * (X * X) + q3 * (X * X * X) + c4' * (X * X * X * X)) by (subst c0 q1 q2 q3 c4'; ring).
  clearbody c0 q1 q2 q3 c4'.
  assert (Pc : BB ^ len c = BB ^ Z.of_nat (4 * n3) * BB ^ Z.of_nat (length c3 - 4 * n3)).
  { rewrite <- pow_nat_add. unfold len. f_equal. f_equal. flia. }
  assert (Pc' : BB ^ len c = BB ^ Z.of_nat (5 * n3 + 2) * BB ^ Z.of_nat (length c12 - (5 * n3 + 2))).
  { rewrite <- pow_nat_add. unfold len. f_equal. f_equal. flia. }
  assert (Q4 : BB ^ Z.of_nat (4 * n3) = X * X * X * X).
  { replace (4 * n3)%nat with (n3 + n3 + n3 + n3)%nat by flia. rewrite !pow_nat_add. reflexivity. }
  assert (Q3 : BB ^ Z.of_nat (3 * n3) = X * X * X).
  { replace (3 * n3)%nat with (n3 + n3 + n3)%nat by flia. rewrite !pow_nat_add. reflexivity. }
  assert (Q32 : BB ^ Z.of_nat (3 * n3 + 2) = X * X * X * (BB * BB)).
  { rewrite pow_nat_add, Q3, BB_pow2. reflexivity. }
  assert (Q42 : BB ^ Z.of_nat (4 * n3 + 2) = X * X * X * X * (BB * BB)).
  { rewrite pow_nat_add, Q4, BB_pow2. reflexivity. }
  assert (Q52 : BB ^ Z.of_nat (5 * n3 + 2) = X * X * X * X * X * (BB * BB)).
  { replace (5 * n3 + 2)%nat with (n3 + (4 * n3 + 2))%nat by flia. rewrite pow_nat_add, Q42. fold X. ring. }
  assert (Qn2 : BB ^ Z.of_nat (n3 + 2) = X * (BB * BB)).
  { rewrite pow_nat_add, BB_pow2. reflexivity. }
  rewrite Q52 in Pc'. rewrite Q4 in Pc.
  rewrite ?Q3, ?Q4, ?Q32, ?Q42, ?Q52, ?Qn2, ?P2, ?Pm. cbn [Z.of_nat]. rewrite ?Z.pow_0_r.
  set (Y4 := BB ^ Z.of_nat (length c3 - 4 * n3)) in *.
  set (Y5 := BB ^ Z.of_nat (length c12 - (5 * n3 + 2))) in *.
  set (P := BB ^ len c) in *. set (BW := BB * BB) in *.
  assert (Hc4 : kc * (X * X * X * X * Y4) = kc * P) by (rewrite Pc; ring).
  assert (Hc5 : kf * (X * X * X * X * X * BW * Y5) = kf * P) by (rewrite Pc'; ring).
  fold X. rewrite Z.mul_add_distr_r, <- Hc4, <- Hc5. ring.
Qed.

Lemma div_small_by_value_ok k : 0 < k -> divk_ok k (div_small_by_value w k).
Proof.
  intros Hk t q r Wt E. unfold div_small_by_value in E. inversion E; subst q r; clear E.
  pose proof (value_bounds w w_pos t Wt) as Bt.
  assert (0 <= val t / k < BB ^ len t).
  { split; [apply Z.div_pos; lia|]. apply Z.div_lt_upper_bound; [lia|]. nia. }
  split; [apply value_to_words; [exact w_pos | exact H]|]. split; [auto|]. split; [apply to_words_wf; exact w_pos | apply to_words_length].
Qed.

Theorem toom3w_ok (rec_same : mulfn) c s a b :
  pre w c a b -> length a = length b -> (16 <= length a)%nat -> same_ok w rec_same (length a) ->
  mul_ok w (toom3w_same_len w rec_same) c s a b.
Proof. apply toom3g_ok; apply div_small_by_value_ok; lia. Qed.

End ToomWProofs.
