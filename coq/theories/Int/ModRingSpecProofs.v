(** C13 - the specifications of ModRingSpec.v have the properties the statement demands. *)
From Dashu Require Import Base.Prelude Int.ModRingSpec.
From Coq Require Import Znumtheory.
Open Scope Z_scope.

(** ---------------- reducing then operating = operating then reducing ---------------- *)
Lemma residue_range m a : 0 < m -> 0 <= reduce_spec m a < m.
Proof. intros; unfold reduce_spec; apply Z.mod_pos_bound; lia. Qed.

Lemma add_hom m a b : 0 < m -> add_spec m (reduce_spec m a) (reduce_spec m b) = reduce_spec m (a + b).
Proof. intros; unfold add_spec, reduce_spec; rewrite <- Zplus_mod; reflexivity. Qed.
Lemma sub_hom m a b : 0 < m -> sub_spec m (reduce_spec m a) (reduce_spec m b) = reduce_spec m (a - b).
Proof. intros; unfold sub_spec, reduce_spec; rewrite <- Zminus_mod; reflexivity. Qed.
Lemma mul_hom m a b : 0 < m -> mul_spec m (reduce_spec m a) (reduce_spec m b) = reduce_spec m (a * b).
Proof. intros; unfold mul_spec, reduce_spec; rewrite <- Zmult_mod; reflexivity. Qed.
Lemma neg_hom m a : 0 < m -> neg_spec m (reduce_spec m a) = reduce_spec m (- a).
Proof.
  intros; unfold neg_spec, reduce_spec.
  replace (- (a mod m)) with (0 - a mod m) by lia. replace (- a) with (0 - a) by lia.
  rewrite Zminus_mod_idemp_r. reflexivity.
Qed.
Lemma dbl_hom m a : 0 < m -> dbl_spec m (reduce_spec m a) = reduce_spec m (2 * a).
Proof. intros; unfold dbl_spec, reduce_spec. rewrite Zmult_mod_idemp_r. reflexivity. Qed.
Lemma sqr_hom m a : 0 < m -> sqr_spec m (reduce_spec m a) = reduce_spec m (a * a).
Proof. intros; unfold sqr_spec, reduce_spec; rewrite <- Zmult_mod; reflexivity. Qed.

Lemma pow_mod_base m a e : 0 < m -> 0 <= e -> ((a mod m) ^ e) mod m = (a ^ e) mod m.
Proof.
  intros Hm He. pattern e. apply natlike_ind; [reflexivity | | exact He].
  intros x Hx IH. rewrite !Z.pow_succ_r by lia.
  rewrite Zmult_mod, IH, Z.mod_mod, <- Zmult_mod by lia. reflexivity.
Qed.
Lemma pow_hom m a e : 0 < m -> 0 <= e -> pow_spec m (reduce_spec m a) e = reduce_spec m (a ^ e).
Proof. intros; unfold pow_spec, reduce_spec; apply pow_mod_base; assumption. Qed.

(** ---------------- the executable power is the power ---------------- *)
Lemma powm_pos_correct m a p : 0 < m -> powm_pos m a p = (a ^ Zpos p) mod m.
Proof.
  intros Hm. induction p as [p IH | p IH |]; cbn [powm_pos].
  - rewrite IH. rewrite Pos2Z.inj_xI.
    replace (2 * Z.pos p + 1) with (Z.pos p + Z.pos p + 1) by lia.
    rewrite !Z.pow_add_r, Z.pow_1_r by lia.
    rewrite <- (Zmult_mod (a ^ Z.pos p) (a ^ Z.pos p)). rewrite Zmult_mod_idemp_l. reflexivity.
  - rewrite IH. rewrite Pos2Z.inj_xO.
    replace (2 * Z.pos p) with (Z.pos p + Z.pos p) by lia.
    rewrite Z.pow_add_r by lia. rewrite <- Zmult_mod. reflexivity.
  - rewrite Z.pow_1_r. reflexivity.
Qed.

Theorem powm_correct m a e : 0 < m -> 0 <= e -> powm m a e = pow_spec m a e.
Proof.
  intros Hm He. unfold powm, pow_spec. destruct e as [|p|p]; [reflexivity | apply powm_pos_correct; assumption | lia].
Qed.

(** ---------------- inverse: uniqueness, and Euclid computes it ---------------- *)
Lemma inverse_unique m a x y : 0 < m -> is_inverse m a x -> is_inverse m a y -> x = y.
Proof.
  intros Hm [Hx Ex] [Hy Ey].
  (* x = x * (a * y) = (x * a) * y = y  (mod m) *)
  assert (x mod m = y mod m) as E.
  { assert (x mod m = (x * (a * y)) mod m) as E1.
    { rewrite (Zmult_mod x (a * y)), Ey, <- Zmult_mod, Z.mul_1_r. reflexivity. }
    assert (y mod m = ((a * x) * y) mod m) as E2.
    { rewrite (Zmult_mod (a * x) y), Ex, <- Zmult_mod, Z.mul_1_l. reflexivity. }
    rewrite E1, E2. f_equal. ring. }
  rewrite !Z.mod_small in E by lia. exact E.
Qed.

Lemma inverse_gcd m a x : 0 < m -> (a * x) mod m = 1 mod m -> Z.gcd a m = 1.
Proof.
  intros Hm E.
  destruct (Z.eq_dec m 1) as [->|Hne]; [apply Z.gcd_1_r|].
  rewrite (Z.mod_small 1 m) in E by lia.
  pose proof (Z.div_mod (a * x) m ltac:(lia)) as D. rewrite E in D.
  apply Zgcd_1_rel_prime. apply bezout_rel_prime.
  apply Bezout_intro with (u := x) (v := - ((a * x) / m)). lia.
Qed.

(** the loop invariant *)
Lemma egcd_loop_ok fuel : forall m x last_r r last_t t,
  0 < m -> 0 <= r < last_r -> last_r * r < 2 ^ Z.of_nat fuel \/ r = 0 ->
  (last_t * x) mod m = last_r mod m -> (t * x) mod m = r mod m ->
  Z.gcd last_r r = Z.gcd m x -> (0 <= last_t < m) -> (0 <= t < m) ->
  exists g u, egcd_loop (S fuel) m last_r r last_t t = Ok (g, u) /\ g = Z.gcd m x /\
              (u * x) mod m = g mod m /\ 0 <= u < m.
Proof.
  induction fuel as [|f IH]; intros m x last_r r last_t t Hm Hr Hmu Elast Et Eg Hlt Ht.
  - assert (r = 0) as -> by (destruct Hmu as [Hmu|]; [cbn in Hmu; nia | assumption]).
    cbn [egcd_loop]. rewrite Z.eqb_refl. exists last_r, last_t.
    rewrite Z.gcd_0_r, Z.abs_eq in Eg by lia. repeat split; try assumption; lia.
  - remember (S f) as sf. cbn [egcd_loop]. destruct (Z.eqb_spec r 0) as [->|Hne].
    + exists last_r, last_t. rewrite Z.gcd_0_r, Z.abs_eq in Eg by lia. repeat split; try assumption; lia.
    + subst sf. pose proof (Z.mod_pos_bound last_r r ltac:(lia)) as Hb.
      pose proof (Z.div_mod last_r r ltac:(lia)) as D.
      assert (1 <= last_r / r) as Hq.
      { apply Z.div_le_lower_bound; lia. }
      apply IH; try assumption; try lia.
      * destruct (Z.eq_dec (last_r mod r) 0) as [Z0|NZ]; [right; exact Z0 | left].
        destruct Hmu as [Hmu|]; [|lia].
        rewrite Nat2Z.inj_succ, Z.pow_succ_r in Hmu by lia. nia.
      * (* (last_t - q t) x = last_r - q r = last_r mod r *)
        rewrite Zmult_mod_idemp_l.
        replace ((last_t - last_r / r * t) * x) with (last_t * x - (last_r / r) * (t * x)) by ring.
        rewrite Zminus_mod, Elast. rewrite (Zmult_mod (last_r / r) (t * x)), Et.
        rewrite <- Zmult_mod, <- Zminus_mod. f_equal. lia.
      * rewrite <- Eg. rewrite (Z.gcd_comm r (last_r mod r)). rewrite Z.gcd_mod by lia. apply Z.gcd_comm.
      * apply Z.mod_pos_bound; lia.
Qed.

Lemma egcd_fuel_enough m x : 0 < m -> 0 <= x < m -> m * x < 2 ^ Z.of_nat (Z.to_nat (Z.log2 (m * m) + 1)).
Proof.
  intros Hm Hx. rewrite Z2Nat.id by (pose proof (Z.log2_nonneg (m * m)); lia).
  pose proof (Z.log2_spec (m * m) ltac:(nia)) as [_ H]. rewrite Z.add_1_r. nia.
Qed.

Theorem inv_euclid_ok m a : 0 < m ->
  exists r, inv_euclid m a = Ok r /\
    match r with
    | Some x => is_inverse m a x /\ Z.gcd a m = 1
    | None => Z.gcd a m <> 1
    end.
Proof.
  intros Hm. unfold inv_euclid, egcd_fuel.
  pose proof (Z.mod_pos_bound a m Hm) as Hx.
  destruct (egcd_loop_ok (Z.to_nat (Z.log2 (m * m) + 1)) m (a mod m) m (a mod m) 0 (1 mod m))
    as (g & u & -> & Eg & Eu & Hu); try lia.
  - left. apply egcd_fuel_enough; assumption.
  - rewrite Z.mul_0_l, Z.mod_0_l, Z_mod_same_full by lia. reflexivity.
  - rewrite Zmult_mod_idemp_l, Z.mul_1_l, Z.mod_mod by lia. reflexivity.
  - apply Z.mod_pos_bound; lia.
  - assert (Z.gcd m (a mod m) = Z.gcd a m) as Egm.
    { rewrite (Z.gcd_comm m (a mod m)). rewrite Z.gcd_mod by lia. apply Z.gcd_comm. }
    rewrite Egm in Eg.
    assert ((a * u) mod m = g mod m) as Eu'.
    { rewrite <- Eu. rewrite (Z.mul_comm u), Zmult_mod_idemp_l. reflexivity. }
    destruct (Z.eqb_spec g 1) as [G1|G1].
    + eexists; split; [reflexivity|]. split; [split; [exact Hu | rewrite Eu', G1; reflexivity] | lia].
    + eexists; split; [reflexivity|]. cbv beta iota. lia.
Qed.

Theorem inv_spec_ok m a : 0 < m ->
  match inv_spec m a with
  | Some x => is_inverse m a x /\ Z.gcd a m = 1
  | None => Z.gcd a m <> 1
  end.
Proof.
  intros Hm. unfold inv_spec. destruct (inv_euclid_ok m a Hm) as (r & -> & H). exact H.
Qed.

(** "inv(a) is Some(x) with a*x = 1 (mod m) exactly when gcd(a, m) = 1" *)
Theorem inv_spec_some_iff m a : 0 < m -> ((exists x, inv_spec m a = Some x) <-> Z.gcd a m = 1).
Proof.
  intros Hm. pose proof (inv_spec_ok m a Hm) as H. destruct (inv_spec m a) as [x|].
  - split; [intros _; apply H | intros _; exists x; reflexivity].
  - split; [intros [x E]; discriminate | intros G; contradiction].
Qed.

(** the checker used by the oracle accepts exactly the specified answer *)
Theorem inv_ok_iff m a r : 0 < m -> (inv_ok m a r = true <-> r = inv_spec m a).
Proof.
  intros Hm. pose proof (inv_spec_ok m a Hm) as H. unfold inv_ok. split.
  - destruct r as [x|].
    + intros E. apply andb_prop in E. destruct E as [E E4]. apply andb_prop in E. destruct E as [E E3].
      apply andb_prop in E. destruct E as [E1 E2].
      apply Z.leb_le in E1. apply Z.ltb_lt in E2. apply Z.eqb_eq in E3. apply Z.eqb_eq in E4.
      destruct (inv_spec m a) as [y|]; [|contradiction].
      f_equal. apply (inverse_unique m a); [assumption | split; [lia | assumption] | apply H].
    + intros E. apply negb_true_iff in E. apply Z.eqb_neq in E.
      destruct (inv_spec m a) as [y|]; [destruct H; contradiction | reflexivity].
  - intros ->. destruct (inv_spec m a) as [y|].
    + destruct H as [[Hy Ey] G]. rewrite Ey, G, !Z.eqb_refl.
      replace (0 <=? y) with true by (symmetry; apply Z.leb_le; lia).
      replace (y <? m) with true by (symmetry; apply Z.ltb_lt; lia). reflexivity.
    + apply negb_true_iff. apply Z.eqb_neq. exact H.
Qed.

(** division = multiplication by the inverse, the documented panic otherwise *)
Theorem div_spec_ok m a b : 0 < m ->
  (Z.gcd b m = 1 -> exists x, is_inverse m b x /\ div_spec m a b = Ok (mul_spec m a x)) /\
  (Z.gcd b m <> 1 -> div_spec m a b = Panic NonInvertible).
Proof.
  intros Hm. pose proof (inv_spec_ok m b Hm) as H. unfold div_spec. destruct (inv_spec m b) as [x|].
  - split; [intros _; exists x; split; [apply H | reflexivity] | intros G; destruct H; contradiction].
  - split; [intros G; contradiction | reflexivity].
Qed.

(** what the quotient is: the unique residue q with q * b = a (mod m) *)
Theorem div_spec_mul_back m a b q : 0 < m -> div_spec m a b = Ok q -> 0 <= q < m /\ (q * b) mod m = a mod m.
Proof.
  intros Hm. pose proof (inv_spec_ok m b Hm) as H. unfold div_spec. destruct (inv_spec m b) as [x|]; [|discriminate].
  intros E. injection E as <-. destruct H as [[Hx Ex] _]. split; [apply Z.mod_pos_bound; lia|].
  rewrite Zmult_mod_idemp_l. replace (a * x * b) with (a * (b * x)) by ring.
  rewrite Zmult_mod, Ex, <- Zmult_mod, Z.mul_1_r. reflexivity.
Qed.

Example inv_spec_ex : inv_spec 7 3 = Some 5 /\ inv_spec 12 4 = None /\ inv_spec 1 0 = Some 0.
Proof. vm_compute. auto. Qed.
Example powm_ex : powm 1000 7 13 = (7 ^ 13) mod 1000.
Proof. vm_compute. reflexivity. Qed.
Example div_spec_ex : div_spec 7 3 5 = Ok 2 /\ div_spec 12 5 4 = Panic NonInvertible.
Proof. vm_compute. auto. Qed.
