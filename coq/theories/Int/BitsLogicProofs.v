(** C09: the word-loop kernels bitand_large / bitor_large / bitxor_large / and_not_large (operands
    of any two lengths), their *_large_dword companions and the Small/Large dispatch of
    BitAnd / BitOr / BitXor / AndNot on magnitudes compute Z.land / Z.lor / Z.lxor / Z.ldiff of the
    values and return a normalised representation - for every word size. *)
From Dashu Require Import Base.Prelude Base.Words Int.BitsSpec Int.BitsWords Int.BitsKernels Int.BitsKernelsBase.
Open Scope Z_scope.

Section Logic.
Variable w : Z.
Hypothesis w_pos : 0 < w.
Notation B := (B w).
Notation value := (value w).
Notation wf := (wf w).

Let w2_pos : 0 < 2 * w. Proof. lia. Qed.
Lemma B2 : Words.B (2 * w) = B * B.
Proof. unfold Words.B. rewrite <- Z.pow_add_r by lia. f_equal. lia. Qed.

(* ---------------------------------------------------------------- generic loops *)
Section Op.
Variable op : Z -> Z -> Z.
Variable fb : bool -> bool -> bool.
Hypothesis op_spec : forall a b i, 0 <= i -> Z.testbit (op a b) i = fb (Z.testbit a i) (Z.testbit b i).
Hypothesis fb_ff : fb false false = false.
Hypothesis op_nonneg : forall a b, 0 <= a -> 0 <= b -> 0 <= op a b.

(** | and ^ (and and_not in its first argument): 0 is neutral on the right, the tail of a longer
    buffer survives *)
Lemma zip_keep (op_r0 : forall u, op u 0 = u) a : forall b, wf a -> wf b -> (length b <= length a)%nat ->
  wf (zip_in_place op a b) /\ value (zip_in_place op a b) = op (value a) (value b).
Proof.
  induction a as [|x r IH]; intros [|y s] Ha Hb Hl; cbn [length] in Hl; try lia.
  - cbn. split; [constructor | symmetry; apply (op_0_0 op fb op_spec fb_ff)].
  - cbn [zip_in_place]. split; [exact Ha | cbn [Words.value]; symmetry; apply op_r0].
  - apply wf_cons in Ha. apply wf_cons in Hb. destruct Ha as [Hx Hr], Hb as [Hy Hs].
    destruct (IH s Hr Hs ltac:(lia)) as [W V]. cbn [zip_in_place Words.value]. split.
    + apply wf_cons. split; [apply (op_word w w_pos op fb op_spec fb_ff op_nonneg); assumption | exact W].
    + rewrite V. symmetry. apply (op_split w w_pos op fb op_spec fb_ff op_nonneg); assumption.
Qed.

(** | and ^: 0 is neutral on both sides, the tail of a longer rhs is pushed *)
Lemma zip_push (op_r0 : forall u, op u 0 = u) (op_l0 : forall v, op 0 v = v) a : forall b, wf a -> wf b ->
  wf (zip_in_place op a b ++ skipn (length a) b) /\
  value (zip_in_place op a b ++ skipn (length a) b) = op (value a) (value b).
Proof.
  induction a as [|x r IH]; intros [|y s] Ha Hb.
  - cbn. split; [constructor | symmetry; apply (op_0_0 op fb op_spec fb_ff)].
  - cbn [zip_in_place length skipn app]. split; [exact Hb | cbn [Words.value]; symmetry; apply op_l0].
  - cbn [zip_in_place length skipn]. rewrite app_nil_r. split; [exact Ha | cbn [Words.value]; symmetry; apply op_r0].
  - apply wf_cons in Ha. apply wf_cons in Hb. destruct Ha as [Hx Hr], Hb as [Hy Hs].
    destruct (IH s Hr Hs) as [W V]. cbn [zip_in_place length skipn app Words.value]. split.
    + apply wf_cons. split; [apply (op_word w w_pos op fb op_spec fb_ff op_nonneg); assumption | exact W].
    + rewrite V. symmetry. apply (op_split w w_pos op fb op_spec fb_ff op_nonneg); assumption.
Qed.

(** &: 0 is absorbing, the buffer is cut to the length of rhs first *)
Lemma zip_cut (op_r0 : forall u, op u 0 = 0) (op_l0 : forall v, op 0 v = 0) a : forall b, wf a -> wf b ->
  wf (zip_in_place op (firstn (length b) a) b) /\
  value (zip_in_place op (firstn (length b) a) b) = op (value a) (value b).
Proof.
  induction a as [|x r IH]; intros [|y s] Ha Hb.
  - cbn. split; [constructor | symmetry; apply (op_0_0 op fb op_spec fb_ff)].
  - cbn [length firstn zip_in_place]. split; [constructor | cbn [Words.value]; symmetry; apply op_l0].
  - cbn [length firstn zip_in_place]. split; [constructor | cbn [Words.value]; symmetry; apply op_r0].
  - apply wf_cons in Ha. apply wf_cons in Hb. destruct Ha as [Hx Hr], Hb as [Hy Hs].
    destruct (IH s Hr Hs) as [W V]. cbn [length firstn zip_in_place Words.value]. split.
    + apply wf_cons. split; [apply (op_word w w_pos op fb op_spec fb_ff op_nonneg); assumption | exact W].
    + rewrite V. symmetry. apply (op_split w w_pos op fb op_spec fb_ff op_nonneg); assumption.
Qed.

(** the two lowest words combined with the halves of a double word *)
Lemma large_dword_ok (op_r0 : forall u, op u 0 = u) (f : Z -> Z -> Z)
  (f_op : forall x y, 0 <= x < B -> 0 <= y < B -> f x y = op x y) buf d :
  wf buf -> (2 <= length buf)%nat -> 0 <= d < B * B ->
  bvalue w (large_dword w f buf d) = op (value buf) d /\ brepr_ok w (large_dword w f buf d).
Proof.
  intros Hb Hl Hd. pose proof (B_pos w w_pos) as HB.
  destruct buf as [|x [|y r]]; cbn [length] in Hl; try lia. unfold large_dword.
  apply wf_cons in Hb. destruct Hb as [Hx Hb]. apply wf_cons in Hb. destruct Hb as [Hy Hr].
  assert (H0 : 0 <= d mod B < B) by (apply Z.mod_pos_bound; lia).
  assert (H1 : 0 <= d / B < B) by (split; [apply Z.div_pos; lia | apply Z.div_lt_upper_bound; lia]).
  rewrite !f_op by assumption.
  assert (Wf : wf (op x (d mod B) :: op y (d / B) :: r)).
  { apply wf_cons. split; [apply (op_word w w_pos op fb op_spec fb_ff op_nonneg); assumption|].
    apply wf_cons. split; [apply (op_word w w_pos op fb op_spec fb_ff op_nonneg); assumption | exact Hr]. }
  destruct (from_buffer_ok w w_pos _ Wf) as [V K]. split; [|exact K]. rewrite V. cbn [Words.value].
  transitivity (op (x + B * (y + B * value r)) (d mod B + B * (d / B + B * 0))).
  2:{ f_equal. pose proof (Z.div_mod d B ltac:(lia)). lia. }
  rewrite (op_split w w_pos op fb op_spec fb_ff op_nonneg) by assumption.
  rewrite (op_split w w_pos op fb op_spec fb_ff op_nonneg) by assumption. rewrite op_r0. reflexivity.
Qed.
End Op.

(* ---------------------------------------------------------------- instances *)

Lemma land_nn a b : 0 <= a -> 0 <= b -> 0 <= Z.land a b.
Proof. intros. apply Z.land_nonneg. left. assumption. Qed.
Lemma lor_nn a b : 0 <= a -> 0 <= b -> 0 <= Z.lor a b.
Proof. intros. apply Z.lor_nonneg. split; assumption. Qed.
Lemma lxor_nn a b : 0 <= a -> 0 <= b -> 0 <= Z.lxor a b.
Proof. intros. apply Z.lxor_nonneg. split; intros; assumption. Qed.
Lemma ldiff_spec' a b i : 0 <= i -> Z.testbit (Z.ldiff a b) i = (fun x y => x && negb y) (Z.testbit a i) (Z.testbit b i).
Proof. intros _. apply Z.ldiff_spec. Qed.
Lemma land_spec' a b i : 0 <= i -> Z.testbit (Z.land a b) i = andb (Z.testbit a i) (Z.testbit b i).
Proof. intros _. apply Z.land_spec. Qed.
Lemma lor_spec' a b i : 0 <= i -> Z.testbit (Z.lor a b) i = orb (Z.testbit a i) (Z.testbit b i).
Proof. intros _. apply Z.lor_spec. Qed.
Lemma lxor_spec' a b i : 0 <= i -> Z.testbit (Z.lxor a b) i = xorb (Z.testbit a i) (Z.testbit b i).
Proof. intros _. apply Z.lxor_spec. Qed.

Theorem bitand_large_correct buf rhs : wf buf -> wf rhs ->
  bvalue w (bitand_large w buf rhs) = Z.land (value buf) (value rhs) /\ brepr_ok w (bitand_large w buf rhs).
Proof.
  intros Ha Hb. unfold bitand_large.
  assert (E : (if (length rhs <? length buf)%nat then firstn (length rhs) buf else buf) = firstn (length rhs) buf).
  { destruct (Nat.ltb_spec (length rhs) (length buf)); [reflexivity | symmetry; apply firstn_all2; lia]. }
  rewrite E.
  destruct (zip_cut Z.land andb land_spec' eq_refl land_nn Z.land_0_r Z.land_0_l buf rhs Ha Hb) as [W V].
  destruct (from_buffer_ok w w_pos _ W) as [V' K]. split; [rewrite V', V; reflexivity | exact K].
Qed.

Lemma push_form (buf' buf rhs : list Z) :
  (if (length buf <? length rhs)%nat then buf' ++ skipn (length buf) rhs else buf') = buf' ++ skipn (length buf) rhs.
Proof.
  destruct (Nat.ltb_spec (length buf) (length rhs)); [reflexivity|].
  rewrite skipn_all2 by lia. symmetry. apply app_nil_r.
Qed.

Theorem bitor_large_correct buf rhs : wf buf -> wf rhs ->
  bvalue w (bitor_large w buf rhs) = Z.lor (value buf) (value rhs) /\ brepr_ok w (bitor_large w buf rhs).
Proof.
  intros Ha Hb. unfold bitor_large. rewrite push_form.
  destruct (zip_push Z.lor orb lor_spec' eq_refl lor_nn Z.lor_0_r Z.lor_0_l buf rhs Ha Hb) as [W V].
  destruct (from_buffer_ok w w_pos _ W) as [V' K]. split; [rewrite V', V; reflexivity | exact K].
Qed.

Theorem bitxor_large_correct buf rhs : wf buf -> wf rhs ->
  bvalue w (bitxor_large w buf rhs) = Z.lxor (value buf) (value rhs) /\ brepr_ok w (bitxor_large w buf rhs).
Proof.
  intros Ha Hb. unfold bitxor_large. rewrite push_form.
  destruct (zip_push Z.lxor xorb lxor_spec' eq_refl lxor_nn Z.lxor_0_r Z.lxor_0_l buf rhs Ha Hb) as [W V].
  destruct (from_buffer_ok w w_pos _ W) as [V' K]. split; [rewrite V', V; reflexivity | exact K].
Qed.

(** and_not_large: the loop body x & !y is ldiff on words; words of the buffer beyond rhs stay,
    words of rhs beyond the buffer are ignored *)
Lemma zip_and_not a : forall b, wf a -> wf b ->
  wf (zip_in_place (fun x y => Z.land x (word_not w y)) a b) /\
  value (zip_in_place (fun x y => Z.land x (word_not w y)) a b) = Z.ldiff (value a) (value b).
Proof.
  induction a as [|x r IH]; intros [|y s] Ha Hb.
  - cbn. split; [constructor | reflexivity].
  - cbn [zip_in_place Words.value]. split; [constructor | rewrite Z.ldiff_0_l; reflexivity].
  - cbn [zip_in_place]. split; [exact Ha | cbn [Words.value]; rewrite Z.ldiff_0_r; reflexivity].
  - apply wf_cons in Ha. apply wf_cons in Hb. destruct Ha as [Hx Hr], Hb as [Hy Hs].
    destruct (IH s Hr Hs) as [W V]. cbn [zip_in_place Words.value].
    rewrite (land_word_not w w_pos) by assumption. split.
    + apply wf_cons. split; [apply (op_word w w_pos Z.ldiff _ ldiff_spec' eq_refl (ldiff_nonneg)); assumption | exact W].
    + rewrite V. symmetry. apply (op_split w w_pos Z.ldiff _ ldiff_spec' eq_refl ldiff_nonneg); assumption.
Qed.

Theorem and_not_large_correct buf rhs : wf buf -> wf rhs ->
  bvalue w (and_not_large w buf rhs) = Z.ldiff (value buf) (value rhs) /\ brepr_ok w (and_not_large w buf rhs).
Proof.
  intros Ha Hb. unfold and_not_large. destruct (zip_and_not buf rhs Ha Hb) as [W V].
  destruct (from_buffer_ok w w_pos _ W) as [V' K]. split; [rewrite V', V; reflexivity | exact K].
Qed.

Theorem bitor_large_dword_correct buf d : wf buf -> (2 <= length buf)%nat -> 0 <= d < B * B ->
  bvalue w (bitor_large_dword w buf d) = Z.lor (value buf) d /\ brepr_ok w (bitor_large_dword w buf d).
Proof. apply (large_dword_ok Z.lor orb lor_spec' eq_refl lor_nn Z.lor_0_r). reflexivity. Qed.

Theorem bitxor_large_dword_correct buf d : wf buf -> (2 <= length buf)%nat -> 0 <= d < B * B ->
  bvalue w (bitxor_large_dword w buf d) = Z.lxor (value buf) d /\ brepr_ok w (bitxor_large_dword w buf d).
Proof. apply (large_dword_ok Z.lxor xorb lxor_spec' eq_refl lxor_nn Z.lxor_0_r). reflexivity. Qed.

Theorem and_not_large_dword_correct buf d : wf buf -> (2 <= length buf)%nat -> 0 <= d < B * B ->
  bvalue w (and_not_large_dword w buf d) = Z.ldiff (value buf) d /\ brepr_ok w (and_not_large_dword w buf d).
Proof.
  apply (large_dword_ok Z.ldiff _ ldiff_spec' eq_refl ldiff_nonneg Z.ldiff_0_r).
  intros x y Hx Hy. apply (land_word_not w w_pos); assumption.
Qed.

(* ---------------------------------------------------------------- the lowest double word *)

Lemma lowest_dword_split ws : wf ws -> exists hi, 0 <= hi /\ value ws = lowest_dword w ws + B * B * hi /\ 0 <= lowest_dword w ws < B * B.
Proof.
  intros H. pose proof (B_pos w w_pos) as HB. destruct ws as [|x [|y r]].
  - exists 0. cbn. nia.
  - apply wf_cons in H. destruct H as [Hx _]. exists 0. cbn. nia.
  - apply wf_cons in H. destruct H as [Hx H]. apply wf_cons in H. destruct H as [Hy Hr].
    exists (value r). pose proof (value_nonneg w w_pos r Hr). cbn [lowest_dword Words.value]. nia.
Qed.

(** an operation whose result bit is 0 when the first operand bit is 0 (and, and_not) sees only
    the lowest double word of a long second operand when the first is a double word *)
Lemma small_large_op (op : Z -> Z -> Z) fb
  (op_spec : forall a b i, 0 <= i -> Z.testbit (op a b) i = fb (Z.testbit a i) (Z.testbit b i))
  (fb_ff : fb false false = false) (op_nonneg : forall a b, 0 <= a -> 0 <= b -> 0 <= op a b)
  (op_l0 : forall v, op 0 v = 0) d ws : 0 <= d < B * B -> wf ws ->
  op d (lowest_dword w ws) = op d (value ws) /\ 0 <= op d (lowest_dword w ws) < B * B.
Proof.
  intros Hd Hw. destruct (lowest_dword_split ws Hw) as (hi & Hhi & E & Hl). rewrite E.
  rewrite <- B2 in *. split.
  - replace d with (d + Words.B (2 * w) * 0) at 2 by lia.
    rewrite (op_split (2 * w) w2_pos op fb op_spec fb_ff op_nonneg) by assumption.
    rewrite op_l0. lia.
  - apply (op_word (2 * w) w2_pos op fb op_spec fb_ff op_nonneg); assumption.
Qed.

(* ---------------------------------------------------------------- BitAnd / BitOr / BitXor / AndNot on magnitudes *)

Lemma large_parts ws : brepr_ok w (BLarge ws) -> wf ws /\ (2 <= length ws)%nat.
Proof. intros (W & L & _). split; [exact W | lia]. Qed.

Theorem repr_bitand_correct o a b : brepr_ok w a -> brepr_ok w b ->
  bvalue w (repr_bitand w o a b) = Z.land (bvalue w a) (bvalue w b) /\ brepr_ok w (repr_bitand w o a b).
Proof.
  intros Ha Hb. destruct a as [d0|b0], b as [d1|b1]; cbn [repr_bitand bvalue].
  - unfold from_dword. cbn [bvalue brepr_ok]. split; [reflexivity|]. cbn [brepr_ok] in Ha, Hb.
    rewrite <- B2 in *. apply (op_word (2 * w) w2_pos Z.land andb land_spec' eq_refl land_nn); assumption.
  - destruct (large_parts b1 Hb) as [W1 _]. cbn [brepr_ok] in Ha.
    destruct (small_large_op Z.land andb land_spec' eq_refl land_nn Z.land_0_l d0 b1 Ha W1) as [E K].
    unfold from_dword. cbn [bvalue brepr_ok]. split; assumption.
  - destruct (large_parts b0 Ha) as [W0 _]. cbn [brepr_ok] in Hb.
    destruct (small_large_op Z.land andb land_spec' eq_refl land_nn Z.land_0_l d1 b0 Hb W0) as [E K].
    unfold from_dword. cbn [bvalue brepr_ok]. rewrite (Z.land_comm (lowest_dword w b0)), (Z.land_comm (value b0)).
    split; assumption.
  - destruct (large_parts b0 Ha) as [W0 _]. destruct (large_parts b1 Hb) as [W1 _].
    pose proof (bitand_large_correct b0 b1 W0 W1) as H01.
    pose proof (bitand_large_correct b1 b0 W1 W0) as H10. rewrite Z.land_comm in H10.
    destruct o; try destruct (length b0 <=? length b1)%nat; assumption.
Qed.

Theorem repr_bitor_correct o a b : brepr_ok w a -> brepr_ok w b ->
  bvalue w (repr_bitor w o a b) = Z.lor (bvalue w a) (bvalue w b) /\ brepr_ok w (repr_bitor w o a b).
Proof.
  intros Ha Hb. destruct a as [d0|b0], b as [d1|b1]; cbn [repr_bitor bvalue].
  - unfold from_dword. cbn [bvalue brepr_ok]. split; [reflexivity|]. cbn [brepr_ok] in Ha, Hb.
    rewrite <- B2 in *. apply (op_word (2 * w) w2_pos Z.lor orb lor_spec' eq_refl lor_nn); assumption.
  - destruct (large_parts b1 Hb) as [W1 L1]. cbn [brepr_ok] in Ha. rewrite Z.lor_comm.
    apply bitor_large_dword_correct; assumption.
  - destruct (large_parts b0 Ha) as [W0 L0]. cbn [brepr_ok] in Hb. apply bitor_large_dword_correct; assumption.
  - destruct (large_parts b0 Ha) as [W0 _]. destruct (large_parts b1 Hb) as [W1 _].
    pose proof (bitor_large_correct b0 b1 W0 W1) as H01.
    pose proof (bitor_large_correct b1 b0 W1 W0) as H10. rewrite Z.lor_comm in H10.
    destruct o; try destruct (length b1 <=? length b0)%nat; assumption.
Qed.

Theorem repr_bitxor_correct o a b : brepr_ok w a -> brepr_ok w b ->
  bvalue w (repr_bitxor w o a b) = Z.lxor (bvalue w a) (bvalue w b) /\ brepr_ok w (repr_bitxor w o a b).
Proof.
  intros Ha Hb. destruct a as [d0|b0], b as [d1|b1]; cbn [repr_bitxor bvalue].
  - unfold from_dword. cbn [bvalue brepr_ok]. split; [reflexivity|]. cbn [brepr_ok] in Ha, Hb.
    rewrite <- B2 in *. apply (op_word (2 * w) w2_pos Z.lxor xorb lxor_spec' eq_refl lxor_nn); assumption.
  - destruct (large_parts b1 Hb) as [W1 L1]. cbn [brepr_ok] in Ha. rewrite Z.lxor_comm.
    apply bitxor_large_dword_correct; assumption.
  - destruct (large_parts b0 Ha) as [W0 L0]. cbn [brepr_ok] in Hb. apply bitxor_large_dword_correct; assumption.
  - destruct (large_parts b0 Ha) as [W0 _]. destruct (large_parts b1 Hb) as [W1 _].
    pose proof (bitxor_large_correct b0 b1 W0 W1) as H01.
    pose proof (bitxor_large_correct b1 b0 W1 W0) as H10. rewrite Z.lxor_comm in H10.
    destruct o; try destruct (length b1 <=? length b0)%nat; assumption.
Qed.

Theorem repr_and_not_correct a b : brepr_ok w a -> brepr_ok w b ->
  bvalue w (repr_and_not w a b) = Z.ldiff (bvalue w a) (bvalue w b) /\ brepr_ok w (repr_and_not w a b).
Proof.
  intros Ha Hb. destruct a as [d0|b0], b as [d1|b1]; cbn [repr_and_not bvalue].
  - unfold from_dword. cbn [bvalue brepr_ok]. cbn [brepr_ok] in Ha, Hb.
    rewrite (land_dword_not w w_pos) by assumption. split; [reflexivity|].
    rewrite <- B2 in *. apply (op_word (2 * w) w2_pos Z.ldiff _ ldiff_spec' eq_refl ldiff_nonneg); assumption.
  - destruct (large_parts b1 Hb) as [W1 _]. cbn [brepr_ok] in Ha.
    destruct (lowest_dword_split b1 W1) as (hi & _ & _ & Hl).
    destruct (small_large_op Z.ldiff _ ldiff_spec' eq_refl ldiff_nonneg Z.ldiff_0_l d0 b1 Ha W1) as [E K].
    unfold from_dword. cbn [bvalue brepr_ok]. rewrite (land_dword_not w w_pos) by assumption. split; assumption.
  - destruct (large_parts b0 Ha) as [W0 L0]. cbn [brepr_ok] in Hb. apply and_not_large_dword_correct; assumption.
  - destruct (large_parts b0 Ha) as [W0 _]. destruct (large_parts b1 Hb) as [W1 _].
    apply and_not_large_correct; assumption.
Qed.

End Logic.
