(** C13 - word-level layout of the multi-word ring (integer/src/modular/repr.rs ReducedLarge,
    add.rs add_in_place / sub_in_place / sub_in_place_swap / dbl_in_place / negate_in_place,
    convert.rs ReducedLarge::residue, repr.rs ReducedLarge::one / is_valid).  Definitions only
    (proofs in ModRingWordsProofs.v).

    A ReducedLarge value is a little-endian list of words of exactly the length of the normalised
    divisor; the kernels are the as-is models of C02's DivWordModel.v (add::add_same_len_in_place,
    add::sub_same_len_in_place(_swap), cmp::cmp_same_len, shift::shl_in_place / shr_in_place), whose
    carry/borrow contracts are proved in DivWordProofs.v.  Debug assertions are [Panic Undocumented]. *)
From Dashu Require Import Base.Prelude Base.Words Int.DivWordModel Int.ModRingPowModel Int.ModRingModel.
Open Scope Z_scope.

(** ConstLargeDivisor { normalized_divisor, shift, fast_div_top } (fast_div_top only feeds the division) *)
Record lring := mklring { lr_nd : list Z; lr_shift : Z }.

Definition is_ge (c : comparison) : bool := match c with Lt => false | _ => true end.
Definition is_lt (c : comparison) : bool := match c with Lt => true | _ => false end.
Definition is_le (c : comparison) : bool := match c with Gt => false | _ => true end.

(** math::ones_word(n) = the n low bits set *)
Definition ones_word (s : Z) : Z := 2 ^ s - 1.

Section WordLevel.
Variable w : Z.
Local Notation B := (Words.B w).
Local Notation value := (Words.value w).

(** ReducedLarge::is_valid (as repaired: strictly below the normalised divisor) *)
Definition wl_is_valid (R : lring) (raw : list Z) : bool :=
  Nat.eqb (length raw) (length (lr_nd R)) &&
  is_lt (cmp_same_len raw (lr_nd R)) &&
  (Z.land (hd 0 raw) (ones_word (lr_shift R)) =? 0).

(** ... and before the repair of F03 (is_le) *)
Definition wl_is_valid_prefix (R : lring) (raw : list Z) : bool :=
  Nat.eqb (length raw) (length (lr_nd R)) &&
  is_le (cmp_same_len raw (lr_nd R)) &&
  (Z.land (hd 0 raw) (ones_word (lr_shift R)) =? 0).

(** `raw.0.iter().all(|w| *w == 0)` *)
Definition all_zero (ws : list Z) : bool := forallb (fun x => x =? 0) ws.

(** add_in_place *)
Definition wl_add_in_place (R : lring) (lhs rhs : list Z) : result (list Z) :=
  if wl_is_valid R lhs && wl_is_valid R rhs then
    let '(l1, overflow) := add_same_len w lhs rhs in
    if (overflow =? 1) || is_ge (cmp_same_len l1 (lr_nd R)) then
      let '(l2, overflow2) := sub_same_len w l1 (lr_nd R) in
      if overflow =? overflow2 then Ok l2 else Panic Undocumented
    else Ok l1
  else Panic Undocumented.

(** dbl_in_place: shl_in_place(raw, 1) > 0 is the overflow flag *)
Definition wl_dbl_in_place (R : lring) (raw : list Z) : result (list Z) :=
  if wl_is_valid R raw then
    let '(l1, carry) := shl_in_place w raw 1 in
    let overflow := if 0 <? carry then 1 else 0 in
    if (overflow =? 1) || is_ge (cmp_same_len l1 (lr_nd R)) then
      let '(l2, overflow2) := sub_same_len w l1 (lr_nd R) in
      if overflow =? overflow2 then Ok l2 else Panic Undocumented
    else Ok l1
  else Panic Undocumented.

(** sub_in_place (lhs -= rhs) and sub_in_place_swap (rhs = lhs - rhs): the same words, stored in
    the other operand *)
Definition wl_sub_in_place (R : lring) (lhs rhs : list Z) : result (list Z) :=
  if wl_is_valid R lhs && wl_is_valid R rhs then
    let '(l1, overflow) := sub_same_len w lhs rhs in
    if overflow =? 1 then
      let '(l2, overflow2) := add_same_len w l1 (lr_nd R) in
      if overflow2 =? 1 then Ok l2 else Panic Undocumented
    else Ok l1
  else Panic Undocumented.

(** negate_in_place *)
Definition wl_negate_in_place (R : lring) (raw : list Z) : result (list Z) :=
  if wl_is_valid R raw then
    if all_zero raw then Ok raw
    else
      let '(l1, overflow) := sub_same_len w (lr_nd R) raw in
      if overflow =? 0 then Ok l1 else Panic Undocumented
  else Panic Undocumented.

(** Reduced::from_large: debug_assert!(raw.is_valid(ring)) *)
Definition wl_from_large (R : lring) (raw : list Z) : result (list Z) :=
  if wl_is_valid R raw then Ok raw else Panic Undocumented.

(** Reduced::dbl / Neg for Reduced on the Large arm: the in-place kernel, then from_large *)
Definition wl_dbl (R : lring) (raw : list Z) : result (list Z) := rbind (wl_dbl_in_place R raw) (wl_from_large R).
Definition wl_neg (R : lring) (raw : list Z) : result (list Z) := rbind (wl_negate_in_place R raw) (wl_from_large R).

(** ReducedLarge::residue: copy, shr_in_place by the shift, the bits shifted out must be zero *)
Definition wl_residue (R : lring) (raw : list Z) : result (list Z) :=
  let '(l1, carry) := shr_in_place w raw (lr_shift R) in
  if carry =? 0 then Ok l1 else Panic Undocumented.

(** ConstLargeDivisor::divisor: the same on the normalised divisor *)
Definition wl_divisor (R : lring) : result (list Z) := wl_residue R (lr_nd R).

(** ReducedLarge::one: [1 << shift, 0, ..., 0] *)
Definition wl_one (R : lring) : list Z := 2 ^ lr_shift R :: repeat 0 (length (lr_nd R) - 1).

(** PartialEq of ReducedLarge: slice equality *)
Fixpoint words_eqb (a b : list Z) : bool :=
  match a, b with
  | [], [] => true
  | x :: a', y :: b' => (x =? y) && words_eqb a' b'
  | _, _ => false
  end.

(** the value-level ring the word-level one stands for *)
Definition lring_ok (R : lring) (r : ring) : Prop :=
  r_kind r = KLarge /\ Words.wf w (lr_nd R) /\ value (lr_nd R) = nd r /\ len (lr_nd R) = r_n r /\ lr_shift R = r_shift r.

End WordLevel.

(** ---------------- mul.rs / pow.rs on word lists ---------------- *)
(** primitive::locate_top_word_plus_one: index of the most significant non-zero word, plus one *)
Fixpoint top_plus_one (ws : list Z) : nat :=
  match ws with
  | [] => O
  | x :: t => match top_plus_one t with
              | O => if x =? 0 then O else 1%nat
              | S k => S (S k)
              end
  end.

(** `allocate_slice_fill(n.max(len), 0)` with the product written into its low words *)
Definition pad_to (n : nat) (ws : list Z) : list Z := ws ++ repeat 0 (n - length ws).

Section WordLevelMul.
Variable w : Z.
Local Notation B := (Words.B w).
(** the multi-word kernels the modular code calls: mul::multiply, sqr::sqr (subjects of C01) and
    div::div_rem_in_place (subject of C02: [lhs] becomes remainder ++ quotient, overflow flag) *)
Variable mulk : list Z -> list Z -> result (list Z).
Variable sqrk : list Z -> result (list Z).
Variable divk : list Z -> list Z -> result (list Z * bool).

(** the common tail of mul_normalized / sqr_normalized: `(product >> shift) % normalized_modulus`,
    by a full division when the product is longer than the modulus, else one conditional subtraction *)
Definition wl_reduce_product (R : lring) (product : list Z) (long : bool) : result (list Z) :=
  let n := length (lr_nd R) in
  let '(p1, carry) := shr_in_place w product (lr_shift R) in
  if carry =? 0 then
    if long then rbind (divk p1 (lr_nd R)) (fun '(res, _) => Ok (firstn n res))
    else if is_ge (cmp_same_len p1 (lr_nd R)) then
      let '(p2, borrow) := sub_same_len w p1 (lr_nd R) in
      if borrow =? 0 then Ok p2 else Panic Undocumented
    else Ok p1
  else Panic Undocumented.

Definition wl_mul_normalized (R : lring) (a b : list Z) : result (list Z) :=
  let n := length (lr_nd R) in
  if Nat.eqb (length a) n && Nat.eqb (length b) n then
    let na := top_plus_one a in
    let nb := top_plus_one b in
    if Nat.eqb na 0 && Nat.eqb nb 0 then Ok (repeat 0 n)
    else
      rbind (if Nat.eqb na 1 && Nat.eqb nb 1 then
               let p := hd 0 a * hd 0 b in Ok [p mod B; p / B]            (* split_dword(a0 * b0) *)
             else mulk (firstn na a) (firstn nb b))
            (fun prod => wl_reduce_product R (pad_to n prod) (n <? na + nb)%nat)
  else Panic Undocumented.

Definition wl_sqr_normalized (R : lring) (a : list Z) : result (list Z) :=
  let n := length (lr_nd R) in
  if Nat.eqb (length a) n then
    let na := top_plus_one a in
    if Nat.eqb na 0 then Ok (repeat 0 n)
    else
      rbind (if Nat.eqb na 1 then let p := hd 0 a * hd 0 a in Ok [p mod B; p / B]
             else sqrk (firstn na a))
            (fun prod => wl_reduce_product R (pad_to n prod) (n <? na * 2)%nat)
  else Panic Undocumented.

(** mul_in_place: `if lhs.0 == rhs.0` squaring shortcut *)
Definition wl_mul_in_place (R : lring) (lhs rhs : list Z) : result (list Z) :=
  if words_eqb lhs rhs then wl_sqr_normalized R lhs else wl_mul_normalized R lhs rhs.

(** Reduced::sqr on the Large arm: sqr_in_place, then from_large *)
Definition wl_sqr (R : lring) (a : list Z) : result (list Z) := rbind (wl_sqr_normalized R a) (wl_from_large R).

(** large::pow: the sliding-window algorithm of ModRingPowModel.v on word lists (squarings by
    sqr_in_place, table and window products by mul_normalized), then from_large *)
Definition wlift1 (f : list Z -> result (list Z)) (x : result (list Z)) : result (list Z) := rbind x f.
Definition wlift2 (f : list Z -> list Z -> result (list Z)) (x y : result (list Z)) : result (list Z) :=
  rbind x (fun a => rbind y (fun b => f a b)).
Definition wflatten (x : result (result (list Z))) : result (list Z) :=
  match x with Ok v => v | Panic p => Panic p | Err e => Err e | OutOfFuel => OutOfFuel end.

Definition wl_pow (R : lring) (raw : list Z) (exp : Z) : result (list Z) :=
  rbind (wflatten (pow_large w (result (list Z)) (Ok (wl_one R)) (wlift1 (wl_sqr_normalized R))
                    (wlift2 (wl_mul_normalized R)) (window_at w) (Ok raw) exp))
        (wl_from_large R).

End WordLevelMul.
