(** C13 - word-level layout of the multi-word ring (integer/src/modular/repr.rs ReducedLarge,
    add.rs add_in_place / sub_in_place / sub_in_place_swap / dbl_in_place / negate_in_place,
    convert.rs ReducedLarge::residue, repr.rs ReducedLarge::one / is_valid).  Definitions only
    (proofs in ModRingWordsProofs.v).

    A ReducedLarge value is a little-endian list of words of exactly the length of the normalised
    divisor; the kernels are the as-is models of C02's DivWordModel.v (add::add_same_len_in_place,
    add::sub_same_len_in_place(_swap), cmp::cmp_same_len, shift::shl_in_place / shr_in_place), whose
    carry/borrow contracts are proved in DivWordProofs.v.  Debug assertions are [Panic Undocumented]. *)
From Dashu Require Import Base.Prelude Base.Words Int.DivWordModel Int.ModRingModel.
Open Scope Z_scope.

(** ConstLargeDivisor { normalized_divisor, shift, fast_div_top } (fast_div_top only feeds the division) *)
Record lring := mklring { lr_nd : list Z; lr_shift : Z }.

Definition is_ge (c : comparison) : bool := match c with Lt => false | _ => true end.
Definition is_lt (c : comparison) : bool := match c with Lt => true | _ => false end.
Definition is_le (c : comparison) : bool := match c with Gt => false | _ => true end.

(** math::ones_word(n) = the n low bits set *)
Definition ones_word (s : Z) : Z := 2 ^ s - 1.

Section WordLevel.
Variable w : Z.
Local Notation B := (Words.B w).
Local Notation value := (Words.value w).

(** ReducedLarge::is_valid (as repaired: strictly below the normalised divisor) *)
Definition wl_is_valid (R : lring) (raw : list Z) : bool :=
  Nat.eqb (length raw) (length (lr_nd R)) &&
  is_lt (cmp_same_len raw (lr_nd R)) &&
  (Z.land (hd 0 raw) (ones_word (lr_shift R)) =? 0).

(** ... and before the repair of F03 (is_le) *)
Definition wl_is_valid_prefix (R : lring) (raw : list Z) : bool :=
  Nat.eqb (length raw) (length (lr_nd R)) &&
  is_le (cmp_same_len raw (lr_nd R)) &&
  (Z.land (hd 0 raw) (ones_word (lr_shift R)) =? 0).

(** `raw.0.iter().all(|w| *w == 0)` *)
Definition all_zero (ws : list Z) : bool := forallb (fun x => x =? 0) ws.

(** add_in_place *)
Definition wl_add_in_place (R : lring) (lhs rhs : list Z) : result (list Z) :=
  if wl_is_valid R lhs && wl_is_valid R rhs then
    let '(l1, overflow) := add_same_len w lhs rhs in
    if (overflow =? 1) || is_ge (cmp_same_len l1 (lr_nd R)) then
      let '(l2, overflow2) := sub_same_len w l1 (lr_nd R) in
      if overflow =? overflow2 then Ok l2 else Panic Undocumented
    else Ok l1
  else Panic Undocumented.

(** dbl_in_place: shl_in_place(raw, 1) > 0 is the overflow flag *)
Definition wl_dbl_in_place (R : lring) (raw : list Z) : result (list Z) :=
  if wl_is_valid R raw then
    let '(l1, carry) := shl_in_place w raw 1 in
    let overflow := if 0 <? carry then 1 else 0 in
    if (overflow =? 1) || is_ge (cmp_same_len l1 (lr_nd R)) then
      let '(l2, overflow2) := sub_same_len w l1 (lr_nd R) in
      if overflow =? overflow2 then Ok l2 else Panic Undocumented
    else Ok l1
  else Panic Undocumented.

(** sub_in_place (lhs -= rhs) and sub_in_place_swap (rhs = lhs - rhs): the same words, stored in
    the other operand *)
Definition wl_sub_in_place (R : lring) (lhs rhs : list Z) : result (list Z) :=
  if wl_is_valid R lhs && wl_is_valid R rhs then
    let '(l1, overflow) := sub_same_len w lhs rhs in
    if overflow =? 1 then
      let '(l2, overflow2) := add_same_len w l1 (lr_nd R) in
      if overflow2 =? 1 then Ok l2 else Panic Undocumented
    else Ok l1
  else Panic Undocumented.

(** negate_in_place *)
Definition wl_negate_in_place (R : lring) (raw : list Z) : result (list Z) :=
  if wl_is_valid R raw then
    if all_zero raw then Ok raw
    else
      let '(l1, overflow) := sub_same_len w (lr_nd R) raw in
      if overflow =? 0 then Ok l1 else Panic Undocumented
  else Panic Undocumented.

(** Reduced::from_large: debug_assert!(raw.is_valid(ring)) *)
Definition wl_from_large (R : lring) (raw : list Z) : result (list Z) :=
  if wl_is_valid R raw then Ok raw else Panic Undocumented.

(** Reduced::dbl / Neg for Reduced on the Large arm: the in-place kernel, then from_large *)
Definition wl_dbl (R : lring) (raw : list Z) : result (list Z) := rbind (wl_dbl_in_place R raw) (wl_from_large R).
Definition wl_neg (R : lring) (raw : list Z) : result (list Z) := rbind (wl_negate_in_place R raw) (wl_from_large R).

(** ReducedLarge::residue: copy, shr_in_place by the shift, the bits shifted out must be zero *)
Definition wl_residue (R : lring) (raw : list Z) : result (list Z) :=
  let '(l1, carry) := shr_in_place w raw (lr_shift R) in
  if carry =? 0 then Ok l1 else Panic Undocumented.

(** ConstLargeDivisor::divisor: the same on the normalised divisor *)
Definition wl_divisor (R : lring) : result (list Z) := wl_residue R (lr_nd R).

(** ReducedLarge::one: [1 << shift, 0, ..., 0] *)
Definition wl_one (R : lring) : list Z := 2 ^ lr_shift R :: repeat 0 (length (lr_nd R) - 1).

(** PartialEq of ReducedLarge: slice equality *)
Fixpoint words_eqb (a b : list Z) : bool :=
  match a, b with
  | [], [] => true
  | x :: a', y :: b' => (x =? y) && words_eqb a' b'
  | _, _ => false
  end.

(** the value-level ring the word-level one stands for *)
Definition lring_ok (R : lring) (r : ring) : Prop :=
  r_kind r = KLarge /\ Words.wf w (lr_nd R) /\ value (lr_nd R) = nd r /\ len (lr_nd R) = r_n r /\ lr_shift R = r_shift r.

End WordLevel.
