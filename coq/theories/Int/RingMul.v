(** C01 (L0): as-is models of the multiplication and squaring kernels (integer/src/mul/*.rs,
    sqr/*.rs) over little-endian word lists of an arbitrary word size [w].
    - word / double-word multipliers, add_mul / sub_mul rows (with the carry_plus_max trick)
    - schoolbook [simple::add_signed_mul] (chunked for long operands)
    - helpers::add_signed_mul_split_into_chunks (carry_n threaded between chunks, tail swap)
    - Karatsuba (three recursive products, deferred carries carry_c0 / carry_c1) at word level
    - Toom-3: real recursion structure (five recursive word-level products), evaluation,
      sign handling, exact divisions and interpolation at VALUE level (the slice/deferred-carry
      bookkeeping of toom_3.rs is not transcribed)
    - size dispatch by thresholds (section variables; instantiated from DashuGen.Params)
    - sqr::simple::square (triangular part, fused doubling + diagonal, three carry bits)
    Recursion through [mul::add_signed_mul(_same_len)] is by fuel; RingMulProofs.v shows that
    fuel = length + 1 suffices.  Definitions only. *)
From Dashu Require Import Base.Prelude Base.Words Int.RingAdd.
Open Scope Z_scope.

Definition slice (lo n : nat) (l : list Z) : list Z := firstn n (skipn lo l).
Definition splice (lo : nat) (s l : list Z) : list Z := firstn lo l ++ s ++ skipn (lo + length s) l.

Definition mulres := result (list Z * Z).
Definition mulfn := list Z -> sign -> list Z -> list Z -> mulres.

(** debug_assert_zero!(carry): a non-zero carry would be a (debug) panic *)
Definition assert_zero (r : mulres) : result (list Z) :=
  match r with
  | Ok (l, c) => if c =? 0 then Ok l else Panic Undocumented
  | Panic p => Panic p | Err e => Err e | OutOfFuel => OutOfFuel
  end.

Section MulKernels.
Variable w : Z.
Notation BB := (B w).
Notation val := (value w).

Definition split_dword (d : Z) : Z * Z := (d mod BB, d / BB).
Definition mul_add_carry (a b c : Z) : Z * Z := split_dword (a * b + c).
Definition mul_add_2carry (a b c0 c1 : Z) : Z * Z := split_dword (a * b + c0 + c1).

(** math::mul_add_carry_dword: four word products *)
Definition mul_add_carry_dword (lhs rhs carry : Z) : Z * Z :=
  let '(x0, x1) := split_dword lhs in
  let '(y0, y1) := split_dword rhs in
  let '(ic0, ic1) := split_dword carry in
  let '(z0, c0) := mul_add_carry x0 y0 ic0 in
  let '(z1, c1a) := mul_add_carry x1 y0 c0 in
  let '(z1, c1b) := mul_add_2carry x0 y1 z1 ic1 in
  let '(z2, z3) := mul_add_2carry x1 y1 c1a c1b in
  (z0 + BB * z1, z2 + BB * z3).

(** mul_word_in_place_with_carry.  NOTE (as-is): for rhs = 0 the code returns carry 0 WITHOUT
    clearing [words]; no caller reachable from the C01 operators passes 0 *)
Fixpoint mul_word_loop (ws : list Z) (rhs carry : Z) : list Z * Z :=
  match ws with
  | [] => ([], carry)
  | a :: t => let '(lo, hi) := mul_add_carry a rhs carry in
              let '(t', c) := mul_word_loop t rhs hi in (lo :: t', c)
  end.
Definition mul_word_in_place_with_carry (ws : list Z) (rhs carry : Z) : list Z * Z :=
  if rhs =? 0 then (ws, 0) else mul_word_loop ws rhs carry.
Definition mul_word_in_place (ws : list Z) (rhs : Z) : list Z * Z := mul_word_in_place_with_carry ws rhs 0.

(** mul_dword_in_place: 2-word chunks, then the odd tail word by two 1x1 products *)
Fixpoint mul_dword_loop (ws : list Z) (rhs carry : Z) : list Z * Z :=
  match ws with
  | lo :: hi :: t =>
      let '(p, nc) := mul_add_carry_dword (lo + BB * hi) rhs carry in
      let '(nlo, nhi) := split_dword p in
      let '(t', c) := mul_dword_loop t rhs nc in (nlo :: nhi :: t', c)
  | [r0] =>
      let '(m_lo, m_hi) := split_dword rhs in
      let '(c_lo, c_hi) := split_dword carry in
      let '(n_lo, nc_lo) := mul_add_carry r0 m_lo c_lo in
      let '(n_hi, nc_hi) := mul_add_2carry r0 m_hi nc_lo c_hi in
      ([n_lo], n_hi + BB * nc_hi)
  | [] => ([], carry)
  end.
Definition mul_dword_in_place (ws : list Z) (rhs : Z) : list Z * Z := mul_dword_loop ws rhs 0.

(** add_mul_word_same_len_in_place: words += mult * rhs *)
Fixpoint add_mul_word_loop (ws : list Z) (mult : Z) (rhs : list Z) (carry : Z) : list Z * Z :=
  match ws, rhs with
  | a :: ws', b :: rhs' =>
      let '(lo, hi) := mul_add_2carry mult b a carry in
      let '(r, c) := add_mul_word_loop ws' mult rhs' hi in (lo :: r, c)
  | _, _ => (ws, carry)
  end.
Definition add_mul_word_same_len_in_place (ws : list Z) (mult : Z) (rhs : list Z) : list Z * Z :=
  if mult =? 0 then (ws, 0) else add_mul_word_loop ws mult rhs 0.

(** sub_mul_word_same_len_in_place: words -= mult * rhs, the borrow is kept as carry + MAX *)
Fixpoint sub_mul_word_loop (ws : list Z) (mult : Z) (rhs : list Z) (cpm : Z) : list Z * Z :=
  match ws, rhs with
  | a :: ws', b :: rhs' =>
      let v := a + cpm + (BB * (BB - 1) - (BB - 1)) - mult * b in
      let '(lo, hi) := split_dword v in
      let '(r, c) := sub_mul_word_loop ws' mult rhs' hi in (lo :: r, c)
  | _, _ => (ws, cpm)
  end.
Definition sub_mul_word_same_len_in_place (ws : list Z) (mult : Z) (rhs : list Z) : list Z * Z :=
  if mult =? 0 then (ws, 0)
  else let '(r, cpm) := sub_mul_word_loop ws mult rhs (BB - 1) in (r, (BB - 1) - cpm).

(** simple::add_mul_chunk / sub_mul_chunk: one row per word of b; the row's carry word is added
    to c[i + len a] together with the carry bit of the previous row *)
Fixpoint add_mul_chunk (c a b : list Z) (carry : bool) : list Z * bool :=
  match b with
  | [] => (c, carry)
  | m :: b' =>
      let la := length a in
      let '(lo, cw) := add_mul_word_same_len_in_place (firstn la c) m a in
      let '(top, cn) := add_with_carry w (nth la c 0) cw carry in
      match lo ++ top :: skipn (S la) c with
      | x :: c1 => let '(r, cf) := add_mul_chunk c1 a b' cn in (x :: r, cf)
      | [] => ([], cn)
      end
  end.

Fixpoint sub_mul_chunk (c a b : list Z) (borrow : bool) : list Z * bool :=
  match b with
  | [] => (c, borrow)
  | m :: b' =>
      let la := length a in
      let '(lo, bw) := sub_mul_word_same_len_in_place (firstn la c) m a in
      let '(top, bn) := sub_with_borrow w (nth la c 0) bw borrow in
      match lo ++ top :: skipn (S la) c with
      | x :: c1 => let '(r, bf) := sub_mul_chunk c1 a b' bn in (x :: r, bf)
      | [] => ([], bn)
      end
  end.

Definition add_signed_mul_chunk (c : list Z) (s : sign) (a b : list Z) : list Z * Z :=
  match s with
  | Positive => let '(r, k) := add_mul_chunk c a b false in (r, b2z k)
  | Negative => let '(r, k) := sub_mul_chunk c a b false in (r, - b2z k)
  end.

Definition simple_chunk_fn : mulfn := fun c s a b => Ok (add_signed_mul_chunk c s a b).

(** helpers::add_signed_mul_split_into_chunks.  [k] bounds the number of loop iterations. *)
Fixpoint chunks_loop (k : nat) (f rec_gen : mulfn) (chunk_len : nat)
         (c : list Z) (s : sign) (a b : list Z) (carry_n : Z) : mulres :=
  let n := length b in
  if (chunk_len <=? length a)%nat then
    match k with
    | O => OutOfFuel
    | S k' =>
        let a_lo := firstn chunk_len a in
        let a_hi := skipn chunk_len a in
        (* carry_n = add_signed_word_in_place(&mut c[n..chunk_len + n], carry_n) *)
        let '(m1, cn1) := add_signed_word_in_place w (slice n chunk_len c) carry_n in
        let c1 := splice n m1 c in
        (* carry_n += f(&mut c[..chunk_len + n], sign, a_lo, b) *)
        match f (firstn (chunk_len + n) c1) s a_lo b with
        | Ok (lo, cf) =>
            let c2 := lo ++ skipn (chunk_len + n) c1 in
            (* a = a_hi; c = &mut c[chunk_len..] *)
            match chunks_loop k' f rec_gen chunk_len (skipn chunk_len c2) s a_hi b (cn1 + cf) with
            | Ok (r, carry) => Ok (firstn chunk_len c2 ++ r, carry)
            | e => e
            end
        | e => e
        end
    end
  else
    let '(hi, carry) := add_signed_word_in_place w (skipn n c) carry_n in
    let c1 := firstn n c ++ hi in
    if (length b <=? length a)%nat then
      match rec_gen c1 s a b with Ok (r, cf) => Ok (r, carry + cf) | e => e end
    else if (0 <? length a)%nat then
      match rec_gen c1 s b a with Ok (r, cf) => Ok (r, carry + cf) | e => e end
    else Ok (c1, carry).

Definition split_into_chunks (f rec_gen : mulfn) (chunk_len : nat) : mulfn :=
  fun c s a b => chunks_loop (length a) f rec_gen chunk_len c s a b 0.

(** karatsuba::add_signed_mul_same_len; [rec_same] is mul::add_signed_mul_same_len *)
Definition karatsuba_same_len (rec_same : mulfn) : mulfn := fun c s a b =>
  let n := length a in
  let mid := ((n + 1) / 2)%nat in
  let a_lo := firstn mid a in let a_hi := skipn mid a in
  let b_lo := firstn mid b in let b_hi := skipn mid b in
  (* c_0 += a_lo * b_lo ; c_1 += a_lo * b_lo *)
  match assert_zero (rec_same (repeat 0 (2 * mid)) Positive a_lo b_lo) with
  | Ok c_lo =>
      let '(s0, k0) := add_signed_same_len_in_place w (slice 0 (2 * mid) c) s c_lo in
      let c := splice 0 s0 c in
      let '(s1, k1) := add_signed_same_len_in_place w (slice mid (2 * mid) c) s c_lo in
      let c := splice mid s1 c in
      (* c_2 += a_hi * b_hi ; c_1 += a_hi * b_hi *)
      match assert_zero (rec_same (repeat 0 (2 * (n - mid))) Positive a_hi b_hi) with
      | Ok c_hi =>
          let '(s2, k2) := add_signed_same_len_in_place w (slice (2 * mid) (length c - 2 * mid) c) s c_hi in
          let c := splice (2 * mid) s2 c in
          let '(s3, k3) := add_signed_in_place w (slice mid (2 * mid) c) s c_hi in
          let c := splice mid s3 c in
          (* c1 -= (a_lo - a_hi) * (b_lo - b_hi) *)
          let '(a_diff, sa) := sub_in_place_with_sign w a_lo a_hi in
          let '(b_diff, sb) := sub_in_place_with_sign w b_lo b_hi in
          let diff_sign := sign_mul sa sb in
          match rec_same (slice mid (2 * mid) c) (sign_mul (sign_neg s) diff_sign) a_diff b_diff with
          | Ok (s4, k4) =>
              let c := splice mid s4 c in
              (* propagate carries *)
              let '(s5, k5) := add_signed_word_in_place w (slice (2 * mid) mid c) k0 in
              let c := splice (2 * mid) s5 c in
              let carry_c1 := k1 + k3 + k4 + k5 in
              let '(s6, k6) := add_signed_word_in_place w (slice (3 * mid) (length c - 3 * mid) c) carry_c1 in
              let c := splice (3 * mid) s6 c in
              Ok (c, k2 + k6)
          | e => e
          end
      | Panic p => Panic p | Err e => Err e | OutOfFuel => OutOfFuel
      end
  | Panic p => Panic p | Err e => Err e | OutOfFuel => OutOfFuel
  end.

(** toom_3::add_signed_mul_same_len, evaluation / interpolation at value level.
    The five products go through [rec_same] on word lists exactly as in the code:
    V(0) into zeros, V(2) accumulated on top of 3 V(0), V(inf), V(1), |V(-1)| into zeros. *)
Definition toom3_same_len (rec_same : mulfn) : mulfn := fun c s a b =>
  let n := length a in
  let n3 := ((n + 2) / 3)%nat in
  let n3s := (n - 2 * n3)%nat in
  let a0 := firstn n3 a in let a1 := slice n3 n3 a in let a2 := skipn (2 * n3) a in
  let b0 := firstn n3 b in let b1 := slice n3 n3 b in let b2 := skipn (2 * n3) b in
  match assert_zero (rec_same (repeat 0 (2 * n3)) Positive a0 b0) with
  | Ok v0w =>
      let v0 := val v0w in
      let a_e2 := to_words w (S n3) (val a0 + 2 * val a1 + 4 * val a2) in
      let b_e2 := to_words w (S n3) (val b0 + 2 * val b1 + 4 * val b2) in
      match assert_zero (rec_same (to_words w (2 * n3 + 2) (3 * v0)) Positive a_e2 b_e2) with
      | Ok t1w =>
          match assert_zero (rec_same (repeat 0 (2 * n3s)) Positive a2 b2) with
          | Ok vinfw =>
              let vinf := val vinfw in
              let t1 := val t1w - 12 * vinf in
              if t1 <? 0 then Panic Undocumented else    (* debug_assert_zero!(sub_in_place(t1, ..)) *)
              let a02 := val a0 + val a2 in
              let b02 := val b0 + val b2 in
              let a_e1 := to_words w (S n3) (a02 + val a1) in
              let b_e1 := to_words w (S n3) (b02 + val b1) in
              match assert_zero (rec_same (repeat 0 (2 * n3 + 2)) Positive a_e1 b_e1) with
              | Ok t2w =>
                  let v1 := val t2w in
                  let sa := sign_of (a02 - val a1) in
                  let sb := sign_of (b02 - val b1) in
                  let a_em := to_words w (S n3) (Z.abs (a02 - val a1)) in
                  let b_em := to_words w (S n3) (Z.abs (b02 - val b1)) in
                  match assert_zero (rec_same (repeat 0 (2 * (n3 + 1))) Positive a_em b_em) with
                  | Ok cew =>
                      let vm1 := signed (sign_mul sa sb) (val cew) in
                      let t2 := v1 + vm1 in
                      let t1 := t1 + 2 * vm1 in
                      let lim := BB ^ Z.of_nat (2 * n3 + 2) in
                      if (t1 <? 0) || (t2 <? 0) || (lim <=? t1) || (lim <=? t2) then Panic Undocumented else
                      (* assert_eq!(t1_rem, 0); assert_eq!(t2_rem, 0) *)
                      if negb (t1 mod 6 =? 0) || negb (t2 mod 2 =? 0) then Panic Undocumented else
                      let t1 := t1 / 6 in
                      let t2 := t2 / 2 in
                      let X := BB ^ Z.of_nat n3 in
                      let total := val c + sgnz s * (v0 + (v1 - t1) * X + (t2 - v0 - vinf) * X ^ 2
                                                     + (t1 - t2) * X ^ 3 + vinf * X ^ 4) in
                      let m := BB ^ len c in
                      Ok (to_words w (length c) (total mod m), total / m)
                  | Panic p => Panic p | Err e => Err e | OutOfFuel => OutOfFuel
                  end
              | Panic p => Panic p | Err e => Err e | OutOfFuel => OutOfFuel
              end
          | Panic p => Panic p | Err e => Err e | OutOfFuel => OutOfFuel
          end
      | Panic p => Panic p | Err e => Err e | OutOfFuel => OutOfFuel
      end
  | Panic p => Panic p | Err e => Err e | OutOfFuel => OutOfFuel
  end.

(** size dispatch.  T_simple = THRESHOLD_SIMPLE, T_kara = THRESHOLD_KARATSUBA, CHUNK = simple::CHUNK_LEN *)
Variable T_simple T_kara CHUNK : nat.

Definition mul_same_step (rec_same : mulfn) : mulfn := fun c s a b =>
  let n := length a in
  if (n <=? T_simple)%nat then simple_chunk_fn c s a b
  else if (n <=? T_kara)%nat then karatsuba_same_len rec_same c s a b
  else toom3_same_len rec_same c s a b.

Definition simple_add_signed_mul (rec_gen : mulfn) : mulfn := fun c s a b =>
  if (length a <=? CHUNK)%nat then simple_chunk_fn c s a b
  else split_into_chunks simple_chunk_fn rec_gen CHUNK c s a b.

Definition mul_gen_step (rec_same rec_gen : mulfn) : mulfn := fun c s a b =>
  let '(a, b) := if (length a <? length b)%nat then (b, a) else (a, b) in
  if (length b <=? T_simple)%nat then simple_add_signed_mul rec_gen c s a b
  else if (length b <=? T_kara)%nat then split_into_chunks (karatsuba_same_len rec_same) rec_gen (length b) c s a b
  else split_into_chunks (toom3_same_len rec_same) rec_gen (length b) c s a b.

Fixpoint mul_same (fuel : nat) : mulfn :=
  match fuel with
  | O => fun _ _ _ _ => OutOfFuel
  | S f => mul_same_step (mul_same f)
  end.

Fixpoint mul_gen (fuel : nat) : mulfn :=
  match fuel with
  | O => fun _ _ _ _ => OutOfFuel
  | S f => mul_gen_step (mul_same f) (mul_gen f)
  end.

(** mul::add_signed_mul_same_len / mul::add_signed_mul / mul::multiply *)
Definition add_signed_mul_same_len : mulfn := fun c s a b => mul_same (S (length a)) c s a b.
Definition add_signed_mul : mulfn := fun c s a b => mul_gen (S (length a + length b)) c s a b.
Definition multiply (a b : list Z) : result (list Z) :=
  assert_zero (add_signed_mul (repeat 0 (length a + length b)) Positive a b).

(** ------------------------------------------------------------------ squaring *)
(** sqr::simple::square, first step: b[2i+1 ..] += a[i] * a[i+1..], carry bit c0 chained through
    the top words *)
Fixpoint sqr_tri (b a : list Z) (c0 : bool) : list Z * bool :=
  match a with
  | [] => (b, c0)
  | m :: r =>
      match b with
      | x0 :: b1 =>
          let lr := length r in
          let '(lo, carry) := add_mul_word_same_len_in_place (firstn lr b1) m r in
          let '(top, cn) := add_with_carry w (nth lr b1 0) carry c0 in
          match lo ++ top :: skipn (S lr) b1 with
          | x1 :: b2 => let '(r2, cf) := sqr_tri b2 r cn in (x0 :: x1 :: r2, cf)
          | [] => (b, cn)
          end
      | [] => (b, c0)
      end
  end.

(** second step: new [b0, b1] = m^2 + 2 * [b0, b1] + c1 + c2, two overflow bits *)
Fixpoint sqr_diag (b a : list Z) (c1 c2 : bool) : list Z * (bool * bool) :=
  match a, b with
  | m :: r, b0 :: b1 :: brest =>
      let '(s0, s1) := mul_add_2carry m m b0 b0 in
      let s := s0 + BB * s1 in
      let wb1 := BB * b1 in
      let t1 := s + (wb1 + b2z c1) in
      let s' := t1 mod (BB * BB) in let oc1 := BB * BB <=? t1 in
      let t2 := s' + (wb1 + b2z c2) in
      let s'' := t2 mod (BB * BB) in let oc2 := BB * BB <=? t2 in
      let '(n0, n1) := split_dword s'' in
      let '(r', cc) := sqr_diag brest r oc1 oc2 in (n0 :: n1 :: r', cc)
  | _, _ => (b, (c1, c2))
  end.

Definition add_to_last (b : list Z) (v : Z) : list Z :=
  match rev b with
  | [] => []
  | t :: r => rev (t + v :: r)
  end.

(** [b] zero-filled, len b = 2 len a.  The three carry bits are added to the last word (an
    overflow there would be a debug panic: the proof shows all three are 0) *)
Definition simple_square (b a : list Z) : list Z :=
  let '(b1, c0) := sqr_tri b a false in
  let '(b2, (c1, c2)) := sqr_diag b1 a false false in
  add_to_last b2 (b2z c0 + b2z c1 + b2z c2).

Variable SQR_SIMPLE : nat.   (* sqr::MAX_LEN_SIMPLE *)

Definition sqr (a : list Z) : result (list Z) :=
  let b := repeat 0 (2 * length a) in
  if (length a <=? SQR_SIMPLE)%nat then Ok (simple_square b a)
  else assert_zero (add_signed_mul_same_len b Positive a a).

End MulKernels.
