(** C07: theory of the positional digit specification.
    - [digits_spec r n] has value [n], digits in [0,r), no leading zero: it is THE representation
      ([digits_unique]);
    - splitting laws used by every chunked / divide-and-conquer converter. *)
From Dashu Require Import Base.Prelude Int.IoSpec.
Open Scope Z_scope.

Section Digits.
Variable r : Z.
Hypothesis r_ge_2 : 2 <= r.

Definition in_range (ds : list Z) : Prop := Forall (fun d => 0 <= d < r) ds.

(* ---------------------------------------------------------------- value *)
Lemma fold_value_acc ds : forall a,
  fold_left (fun acc d => acc * r + d) ds a = a * r ^ len ds + digits_value r ds.
Proof.
  unfold digits_value, len. induction ds as [|d t IH]; intros a; cbn [fold_left length].
  - cbn [Z.of_nat]. rewrite Z.pow_0_r. lia.
  - rewrite IH. rewrite (IH (0 * r + d)). rewrite Nat2Z.inj_succ, Z.pow_succ_r by lia. ring.
Qed.

Lemma value_nil : digits_value r [] = 0. Proof. reflexivity. Qed.

Lemma value_cons d t : digits_value r (d :: t) = d * r ^ len t + digits_value r t.
Proof. unfold digits_value at 1. cbn [fold_left]. rewrite fold_value_acc. lia. Qed.

Lemma value_app a b : digits_value r (a ++ b) = digits_value r a * r ^ len b + digits_value r b.
Proof.
  unfold digits_value at 1. rewrite fold_left_app. fold (digits_value r a). apply fold_value_acc.
Qed.

Lemma len_app {A} (a b : list A) : len (a ++ b) = len a + len b.
Proof. unfold len. rewrite app_length. lia. Qed.
Lemma len_nonneg {A} (a : list A) : 0 <= len a. Proof. unfold len. lia. Qed.
Lemma len_cons {A} (x : A) a : len (x :: a) = len a + 1.
Proof. unfold len. cbn [length]. lia. Qed.

Lemma pow_pos k : 0 <= k -> 0 < r ^ k.
Proof. intros. apply Z.pow_pos_nonneg; lia. Qed.

Lemma value_bounds ds : in_range ds -> 0 <= digits_value r ds < r ^ len ds.
Proof.
  induction ds as [|d t IH]; intros H.
  - rewrite value_nil. unfold len. cbn. lia.
  - inversion H as [|? ? Hd Ht]; subst. specialize (IH Ht). rewrite value_cons, len_cons.
    rewrite Z.pow_add_r, Z.pow_1_r by (pose proof (len_nonneg t); lia).
    pose proof (pow_pos (len t) (len_nonneg t)). nia.
Qed.

Lemma value_lower d t : in_range (d :: t) -> 0 < d -> r ^ len t <= digits_value r (d :: t).
Proof.
  intros H Hd. inversion H as [|? ? Hd' Ht]; subst. rewrite value_cons.
  pose proof (value_bounds t Ht). pose proof (pow_pos (len t) (len_nonneg t)). nia.
Qed.

(* ---------------------------------------------------------------- injectivity *)
Lemma value_inj_same_len a : forall b, in_range a -> in_range b -> length a = length b ->
  digits_value r a = digits_value r b -> a = b.
Proof.
  induction a as [|x s IH]; intros [|y t] Ha Hb Hl Hv; try discriminate; [reflexivity|].
  inversion Ha as [|? ? Hx Hs]; inversion Hb as [|? ? Hy Ht]; subst.
  cbn [length] in Hl. assert (Hl' : length s = length t) by lia.
  rewrite !value_cons in Hv. assert (El : len s = len t) by (unfold len; lia). rewrite El in Hv.
  pose proof (value_bounds s Hs) as Bs. pose proof (value_bounds t Ht) as Bt. rewrite El in Bs.
  pose proof (pow_pos (len t) (len_nonneg t)) as Hp.
  assert (x = y) by nia. subst y. f_equal. apply IH; auto. lia.
Qed.

(** canonical: digits in range, and either the single digit 0 or a non-zero leading digit *)
Definition canonical (ds : list Z) : Prop :=
  in_range ds /\ (ds = [0] \/ exists d t, ds = d :: t /\ 0 < d).

Lemma canonical_len_value ds : canonical ds -> digits_value r ds <> 0 ->
  r ^ (len ds - 1) <= digits_value r ds < r ^ len ds.
Proof.
  intros [Hr [->|(d & t & -> & Hd)]] Hv; [cbn in Hv; lia|].
  split; [|apply value_bounds; auto]. rewrite len_cons. replace (len t + 1 - 1) with (len t) by lia.
  apply value_lower; auto.
Qed.

Theorem digits_unique a b : canonical a -> canonical b -> digits_value r a = digits_value r b -> a = b.
Proof.
  intros Ha Hb Hv.
  destruct (Z.eq_dec (digits_value r a) 0) as [Z0|NZ].
  - (* value 0: both are [0] *)
    assert (forall l, canonical l -> digits_value r l = 0 -> l = [0]) as K.
    { intros l [Hr [->|(d & t & -> & Hd)]] E; [reflexivity|].
      pose proof (value_lower d t Hr Hd). pose proof (pow_pos (len t) (len_nonneg t)). lia. }
    rewrite (K a Ha Z0). rewrite (K b Hb) by lia. reflexivity.
  - pose proof (canonical_len_value a Ha NZ) as Ba.
    assert (NZb : digits_value r b <> 0) by lia.
    pose proof (canonical_len_value b Hb NZb) as Bb.
    assert (len a = len b) as El.
    { destruct (Z.lt_trichotomy (len a) (len b)) as [L|[E|L]]; [exfalso|exact E|exfalso].
      - assert (r ^ len a <= r ^ (len b - 1)) by (apply Z.pow_le_mono_r; pose proof (len_nonneg a); lia). lia.
      - assert (r ^ len b <= r ^ (len a - 1)) by (apply Z.pow_le_mono_r; pose proof (len_nonneg b); lia). lia. }
    apply value_inj_same_len; [apply Ha | apply Hb | unfold len in El; lia | exact Hv].
Qed.

(* ---------------------------------------------------------------- digits_fuel / digits_spec *)
Lemma div_lt_pow n f : 0 < n -> n < r ^ Z.of_nat (S f) -> n / r < r ^ Z.of_nat f.
Proof.
  intros Hn Hlt. rewrite Nat2Z.inj_succ, Z.pow_succ_r in Hlt by lia.
  apply Z.div_lt_upper_bound; [lia|]. exact Hlt.
Qed.

(** fuel [f] is enough for every n < r^f (each step divides by r) *)
Lemma digits_fuel_value f : forall n acc, 0 <= n < r ^ Z.of_nat f ->
  digits_value r (digits_fuel f r n acc) = n * r ^ len acc + digits_value r acc.
Proof.
  induction f as [|f IH]; intros n acc Hn.
  - cbn [Z.of_nat] in Hn. rewrite Z.pow_0_r in Hn. assert (n = 0) by lia. subst. cbn [digits_fuel]. lia.
  - cbn [digits_fuel]. destruct (Z.leb_spec n 0) as [H0|Hpos]; [assert (n = 0) by lia; subst; lia|].
    rewrite IH.
    + rewrite value_cons, len_cons. rewrite Z.pow_add_r, Z.pow_1_r by (pose proof (len_nonneg acc); lia).
      pose proof (Z.div_mod n r ltac:(lia)). nia.
    + split; [apply Z.div_pos; lia | apply div_lt_pow; lia].
Qed.

Lemma digits_fuel_range f : forall n acc, 0 <= n -> in_range acc -> in_range (digits_fuel f r n acc).
Proof.
  induction f as [|f IH]; intros n acc Hn Ha; cbn [digits_fuel]; [exact Ha|].
  destruct (n <=? 0); [exact Ha|]. apply IH; [apply Z.div_pos; lia|].
  constructor; [apply Z.mod_pos_bound; lia | exact Ha].
Qed.

Lemma digits_fuel_head f : forall n acc, 0 < n < r ^ Z.of_nat f ->
  exists d t, digits_fuel f r n acc = d :: t ++ acc /\ 0 < d.
Proof.
  induction f as [|f IH]; intros n acc Hn.
  - cbn [Z.of_nat] in Hn. rewrite Z.pow_0_r in Hn. lia.
  - cbn [digits_fuel]. destruct (Z.leb_spec n 0) as [H0|Hpos]; [lia|].
    destruct (Z.eq_dec (n / r) 0) as [E|NE].
    + rewrite E. exists (n mod r), []. split.
      * destruct f; cbn [digits_fuel]; [reflexivity|]. reflexivity.
      * apply Z.div_small_iff in E; [|lia]. rewrite Z.mod_small by lia. lia.
    + assert (0 < n / r) by (pose proof (Z.div_pos n r); lia).
      destruct (IH (n / r) (n mod r :: acc)) as (d & t & E & Hd).
      { split; [lia | apply div_lt_pow; lia]. }
      exists d, (t ++ [n mod r]). rewrite E. split; [|exact Hd]. rewrite <- app_assoc. reflexivity.
Qed.

Lemma log2_fuel n : 0 < n -> n < r ^ Z.of_nat (Z.to_nat (Z.log2 n + 1)).
Proof.
  intros Hn. rewrite Z2Nat.id by (pose proof (Z.log2_nonneg n); lia).
  pose proof (Z.log2_nonneg n).
  apply Z.log2_spec in Hn. replace (Z.log2 n + 1) with (Z.succ (Z.log2 n)) by lia.
  apply Z.lt_le_trans with (2 ^ Z.succ (Z.log2 n)); [lia|]. apply Z.pow_le_mono_l. lia.
Qed.

Theorem digits_spec_value n : 0 <= n -> digits_value r (digits_spec r n) = n.
Proof.
  intros Hn. unfold digits_spec. destruct (Z.leb_spec n 0) as [H0|Hpos].
  - assert (n = 0) by lia. subst. reflexivity.
  - rewrite digits_fuel_value by (split; [lia | apply log2_fuel; lia]). cbn. lia.
Qed.

Theorem digits_spec_range n : 0 <= n -> in_range (digits_spec r n).
Proof.
  intros Hn. unfold digits_spec. destruct (n <=? 0).
  - constructor; [lia | constructor].
  - apply digits_fuel_range; [lia | constructor].
Qed.

Theorem digits_spec_canonical n : 0 <= n -> canonical (digits_spec r n).
Proof.
  intros Hn. split; [apply digits_spec_range; exact Hn|].
  unfold digits_spec. destruct (Z.leb_spec n 0) as [H0|Hpos]; [left; reflexivity|]. right.
  destruct (digits_fuel_head (Z.to_nat (Z.log2 n + 1)) n []) as (d & t & E & Hd).
  { split; [lia | apply log2_fuel; lia]. }
  exists d, (t ++ []). split; [exact E | exact Hd].
Qed.

(** any canonical digit list with value n is the one the specification prints *)
Theorem digits_spec_unique n ds : 0 <= n -> canonical ds -> digits_value r ds = n -> ds = digits_spec r n.
Proof.
  intros Hn Hc Hv. apply digits_unique; [exact Hc | apply digits_spec_canonical; exact Hn|].
  rewrite digits_spec_value; auto.
Qed.

Lemma digits_fuel_app f : forall n acc, digits_fuel f r n acc = digits_fuel f r n [] ++ acc.
Proof.
  induction f as [|f IH]; intros n acc; cbn [digits_fuel]; [reflexivity|].
  destruct (n <=? 0); [reflexivity|]. rewrite IH. rewrite (IH (n / r) [n mod r]).
  rewrite <- app_assoc. reflexivity.
Qed.

(** with enough fuel the loop computes the specification, whatever the fuel *)
Theorem digits_fuel_spec f n acc : 0 < n < r ^ Z.of_nat f -> digits_fuel f r n acc = digits_spec r n ++ acc.
Proof.
  intros Hn. rewrite digits_fuel_app. f_equal. apply digits_spec_unique; [lia| |].
  - split; [apply digits_fuel_range; [lia | constructor]|]. right.
    destruct (digits_fuel_head f n [] Hn) as (d & t & E & Hd). exists d, (t ++ []). split; [exact E | exact Hd].
  - rewrite digits_fuel_value by lia. cbn. lia.
Qed.

Lemma digits_spec_zero : digits_spec r 0 = [0]. Proof. reflexivity. Qed.

(* ---------------------------------------------------------------- zero-padded digits *)
Lemma digits_pad_acc_app k : forall n acc, digits_pad_acc k r n acc = digits_pad k r n ++ acc.
Proof.
  unfold digits_pad. induction k as [|k IH]; intros n acc; cbn [digits_pad_acc]; [reflexivity|].
  rewrite IH. rewrite (IH (n / r) [n mod r]). rewrite <- app_assoc. reflexivity.
Qed.

Lemma digits_pad_S k n : digits_pad (S k) r n = digits_pad k r (n / r) ++ [n mod r].
Proof. unfold digits_pad at 1. cbn [digits_pad_acc]. apply digits_pad_acc_app. Qed.

Lemma digits_pad_length k : forall n, length (digits_pad k r n) = k.
Proof.
  induction k as [|k IH]; intros n; [reflexivity|]. rewrite digits_pad_S, app_length, IH. cbn. lia.
Qed.

Lemma digits_pad_len k n : len (digits_pad k r n) = Z.of_nat k.
Proof. unfold len. now rewrite digits_pad_length. Qed.

Lemma digits_pad_range k : forall n, in_range (digits_pad k r n).
Proof.
  induction k as [|k IH]; intros n; [constructor|]. rewrite digits_pad_S.
  apply Forall_app. split; [apply IH|]. constructor; [apply Z.mod_pos_bound; lia | constructor].
Qed.

Lemma digits_pad_value k : forall n, 0 <= n -> digits_value r (digits_pad k r n) = n mod r ^ Z.of_nat k.
Proof.
  induction k as [|k IH]; intros n Hn.
  - cbn. now rewrite Z.mod_1_r.
  - rewrite digits_pad_S, value_app, IH by (apply Z.div_pos; lia).
    rewrite Nat2Z.inj_succ, Z.pow_succ_r by lia.
    replace (len [n mod r]) with 1 by reflexivity. rewrite Z.pow_1_r.
    replace (digits_value r [n mod r]) with (n mod r) by (unfold digits_value; cbn [fold_left]; lia).
    rewrite (Z.rem_mul_r n r (r ^ Z.of_nat k)) by (pose proof (pow_pos (Z.of_nat k)); lia). ring.
Qed.

(** the splitting law behind every chunk: q > 0, 0 <= m < r^k *)
Theorem digits_spec_split q k m : 0 < q -> 0 <= m < r ^ Z.of_nat k ->
  digits_spec r (q * r ^ Z.of_nat k + m) = digits_spec r q ++ digits_pad k r m.
Proof.
  intros Hq Hm. symmetry. pose proof (pow_pos (Z.of_nat k) ltac:(lia)) as Hp.
  apply digits_spec_unique; [nia| |].
  - destruct (digits_spec_canonical q ltac:(lia)) as [Hr Hc]. split.
    + apply Forall_app. split; [exact Hr | apply digits_pad_range].
    + right. destruct Hc as [E|(d & t & E & Hd)].
      * exfalso. pose proof (digits_spec_value q ltac:(lia)) as V. rewrite E in V. cbn in V. lia.
      * exists d, (t ++ digits_pad k r m). rewrite E. split; [reflexivity | exact Hd].
  - rewrite value_app, digits_spec_value, digits_pad_value, digits_pad_len by lia.
    rewrite Z.mod_small by lia. reflexivity.
Qed.

(** division form: x >= r^k *)
Corollary digits_spec_divmod x k : r ^ Z.of_nat k <= x ->
  digits_spec r x = digits_spec r (x / r ^ Z.of_nat k) ++ digits_pad k r (x mod r ^ Z.of_nat k).
Proof.
  intros Hx. pose proof (pow_pos (Z.of_nat k) ltac:(lia)) as Hp.
  rewrite <- digits_spec_split.
  - f_equal. pose proof (Z.div_mod x (r ^ Z.of_nat k) ltac:(lia)). lia.
  - apply Z.div_str_pos. lia.
  - apply Z.mod_pos_bound. lia.
Qed.

Lemma digits_pad_split a b n : 0 <= n ->
  digits_pad (a + b) r n = digits_pad a r (n / r ^ Z.of_nat b) ++ digits_pad b r (n mod r ^ Z.of_nat b).
Proof.
  intros Hn. pose proof (pow_pos (Z.of_nat b) ltac:(lia)) as Hp.
  apply value_inj_same_len.
  - apply digits_pad_range.
  - apply Forall_app. split; apply digits_pad_range.
  - rewrite app_length, !digits_pad_length. reflexivity.
  - rewrite value_app, !digits_pad_value, digits_pad_len; try lia.
    2: apply Z.mod_pos_bound; lia. 2: apply Z.div_pos; lia.
    rewrite Nat2Z.inj_add, Z.pow_add_r by lia.
    rewrite (Z.mod_small (n mod r ^ Z.of_nat b)) by (apply Z.mod_pos_bound; lia).
    rewrite (Z.mul_comm (r ^ Z.of_nat a) (r ^ Z.of_nat b)).
    rewrite (Z.rem_mul_r n (r ^ Z.of_nat b) (r ^ Z.of_nat a)) by (pose proof (pow_pos (Z.of_nat a)); lia). ring.
Qed.

Lemma digits_pad_small_is_spec_padded k n : 0 <= n < r ^ Z.of_nat k ->
  digits_value r (digits_pad k r n) = n.
Proof. intros H. rewrite digits_pad_value by lia. apply Z.mod_small. lia. Qed.

End Digits.
