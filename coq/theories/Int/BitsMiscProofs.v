(** C09: UBig::ones, bit tests (incl. the two's-complement bit of a negative IBig), set_bit /
    clear_bit with their spill paths, clear_high_bits and split_bits at word level, each equal to
    its specification in Int/BitsSpec.v - for every word size. *)
From Dashu Require Import Base.Prelude Base.Words Int.BitsSpec Int.BitsWords Int.BitsKernels Int.BitsKernelsBase
  Int.BitsLogicProofs Int.BitsShiftProofs.
Open Scope Z_scope.

Section Misc.
Variable w : Z.
Hypothesis w_pos : 0 < w.
Notation B := (B w).
Notation value := (value w).
Notation wf := (wf w).

Let w2_pos : 0 < 2 * w. Proof. lia. Qed.

(* ---------------------------------------------------------------- Repr::ones *)

Lemma value_repeat_max k : value (repeat (B - 1) k) = B ^ Z.of_nat k - 1.
Proof.
  induction k as [|k IH]; [reflexivity|]. cbn [repeat Words.value]. rewrite IH, Nat2Z.inj_succ, Z.pow_succ_r by lia. ring.
Qed.

Lemma last_repeat (x : Z) k : (0 < k)%nat -> last (repeat x k) 0 = x.
Proof.
  induction k as [|[|k] IH]; intros Hk; [lia | reflexivity|]. cbn [repeat last] in *. apply IH. lia.
Qed.

Theorem repr_ones_correct n : 0 <= n -> bvalue w (repr_ones w n) = ones_spec n /\ brepr_ok w (repr_ones w n).
Proof.
  intros Hn. pose proof (B_pos w w_pos) as HB. pose proof (B_ge_2 w w_pos) as HB2. unfold repr_ones, ones_spec.
  destruct (Z.ltb_spec n w) as [C|C].
  - unfold from_word. cbn [bvalue brepr_ok]. rewrite (ones_word_ok w) by lia. split; [reflexivity|].
    rewrite Z.ones_equiv. pose proof (pow_pos_2 n Hn). assert (2 ^ n < 2 ^ w) by (apply Z.pow_lt_mono_r; lia).
    rewrite (B_pow w). nia.
  - destruct (Z.leb_spec n (2 * w)) as [C2|C2].
    + unfold from_dword. cbn [bvalue brepr_ok]. rewrite (ones_dword_ok w w_pos) by lia. split; [reflexivity|].
      rewrite Z.ones_equiv. pose proof (pow_pos_2 n Hn). assert (2 ^ n <= 2 ^ (2 * w)) by (apply Z.pow_le_mono_r; lia).
      rewrite (BB_pow w w_pos). lia.
    + pose proof (Z.mod_pos_bound n w w_pos) as Hm. pose proof (Z.div_pos n w Hn w_pos) as Hd.
      pose proof (Z.div_mod n w ltac:(lia)) as Hdm.
      assert (Hk : 2 <= n / w) by nia.
      set (k := Z.to_nat (n / w)). assert (Ek : Z.of_nat k = n / w) by (unfold k; lia).
      assert (Wr : wf (repeat (B - 1) k)) by (apply (wf_repeat w); lia).
      cbn [bvalue brepr_ok]. rewrite value_app, value_repeat_max, len_repeat, Ek, Z.ones_equiv, (rhs_split w w_pos n Hn).
      destruct (Z.ltb_spec 0 (n mod w)) as [M|M].
      * cbn [Words.value]. rewrite (ones_word_ok w) by lia. rewrite Z.ones_equiv.
        pose proof (pow_pos_2 (n mod w) ltac:(lia)) as Hp.
        assert (2 ^ 1 <= 2 ^ (n mod w)) by (apply Z.pow_le_mono_r; lia).
        assert (2 ^ (n mod w) < 2 ^ w) by (apply Z.pow_lt_mono_r; lia).
        split; [lia|]. split; [|split].
        -- apply wf_app. split; [exact Wr|]. apply wf_cons. split; [rewrite (B_pow w); lia | constructor].
        -- rewrite app_length, repeat_length. cbn [length]. lia.
        -- rewrite last_last. change (2 ^ 1) with 2 in *. lia.
      * assert (n mod w = 0) by lia. assert (3 <= n / w) by nia. replace (n mod w) with 0 by lia. cbn [Words.value]. rewrite Z.pow_0_r.
        split; [lia|]. rewrite app_nil_r. split; [exact Wr|]. split; [rewrite repeat_length; lia|].
        rewrite last_repeat by lia. lia.
Qed.

(* ---------------------------------------------------------------- bit tests *)

Lemma land_pow2 d n : 0 <= n -> Z.land d (2 ^ n) = if Z.testbit d n then 2 ^ n else 0.
Proof.
  intros Hn. apply Z.bits_inj'. intros i Hi. rewrite Z.land_spec, Z.pow2_bits_eqb by assumption.
  destruct (Z.eqb_spec n i) as [->|Hne].
  - destruct (Z.testbit d i); [rewrite Z.pow2_bits_true by lia; reflexivity | rewrite Z.bits_0; reflexivity].
  - rewrite andb_false_r. destruct (Z.testbit d n); [rewrite Z.pow2_bits_false by lia; reflexivity | rewrite Z.bits_0; reflexivity].
Qed.

Lemma bit_mask_test d n : 0 <= n -> negb (Z.land d (Z.shiftl 1 n) =? 0) = Z.testbit d n.
Proof.
  intros Hn. rewrite (shiftl_1 n Hn), land_pow2 by assumption. pose proof (pow_pos_2 n Hn).
  destruct (Z.testbit d n); [destruct (Z.eqb_spec (2 ^ n) 0); [lia | reflexivity] | reflexivity].
Qed.

Theorem repr_bit_correct r n : 0 <= n -> brepr_ok w r -> repr_bit w r n = Z.testbit (bvalue w r) n.
Proof.
  intros Hn Hk. destruct r as [d|ws]; cbn [repr_bit bvalue].
  - cbn [brepr_ok] in Hk. destruct (Z.ltb_spec n (2 * w)) as [C|C]; cbn [andb].
    + apply bit_mask_test. exact Hn.
    + symmetry. apply (high_bits_of_small d (2 * w)); [rewrite <- (BB_pow w w_pos); exact Hk | exact C].
  - destruct Hk as (W & _). apply (bit_large_correct w w_pos); assumption.
Qed.

Theorem repr_trailing_zeros_correct r : brepr_ok w r -> repr_trailing_zeros w r = trailing_zeros_spec (bvalue w r).
Proof.
  intros Hk. destruct r as [d|ws]; cbn [repr_trailing_zeros bvalue]; [reflexivity|].
  pose proof (brepr_large_lower w w_pos ws Hk) as Hl. destruct Hk as (W & _). pose proof (B_pos w w_pos).
  symmetry. apply (trailing_zeros_large_correct w w_pos); [assumption | nia].
Qed.

(** the bits of -m from the bits of m: zero below the lowest set bit, one at it, complemented above *)
Lemma testbit_neg_by_tz m k n : 0 < m -> 0 <= n -> trailing_zeros_spec m = Some k ->
  Z.testbit (- m) n = match n ?= k with Eq => true | Gt => negb (Z.testbit m n) | Lt => false end.
Proof.
  intros Hm Hn Hk.
  assert (Hk' : trailing_zeros_spec (- m) = Some k) by (destruct m; try lia; exact Hk).
  apply trailing_zeros_spec_ok in Hk. destruct Hk as (Hk0 & Hb & Hlow).
  apply trailing_zeros_spec_ok in Hk'. destruct Hk' as (_ & Hb' & Hlow').
  destruct (Z.compare_spec n k) as [->|C|C]; [exact Hb' | apply Hlow'; lia|].
  pose proof (pow_pos_2 k Hk0) as Hp.
  assert (Hdiv : m mod 2 ^ k = 0).
  { apply Z.bits_inj'. intros j Hj. rewrite Z.bits_0, Z.testbit_mod_pow2 by lia.
    destruct (Z.ltb_spec j k); simpl; [apply Hlow; lia | reflexivity]. }
  pose proof (Z.div_mod m (2 ^ k) ltac:(lia)) as Hdm. rewrite Hdiv, Z.add_0_r in Hdm. set (q := m / 2 ^ k) in *.
  assert (Hodd : Z.testbit q 0 = true).
  { unfold q. rewrite <- Z.shiftr_div_pow2 by lia. rewrite Z.shiftr_spec by lia. rewrite Z.add_0_l. exact Hb. }
  rewrite Z.bit0_odd in Hodd. apply Zodd_bool_iff in Hodd. apply Zodd_ex in Hodd. destruct Hodd as (h & Hh).
  replace (- m) with (Z.lnot (m - 1)) by (unfold Z.lnot; rewrite <- Z.sub_1_r; lia).
  rewrite Z.lnot_spec by lia. f_equal.
  replace n with ((n - k) + k) by lia. rewrite <- !Z.div_pow2_bits by lia.
  replace (m / 2 ^ k) with (2 * h + 1) by (fold q; lia).
  replace ((m - 1) / 2 ^ k) with (2 * h).
  2:{ apply Z.div_unique_pos with (r := 2 ^ k - 1); [lia|]. rewrite Hdm, Hh. ring. }
  replace (n - k) with (Z.succ (n - k - 1)) by lia.
  rewrite Z.testbit_even_succ, Z.testbit_odd_succ by lia. reflexivity.
Qed.

Theorem ibig_bit_correct s r n : 0 <= n -> brepr_ok w r -> bvalue w r <> 0 ->
  ibig_bit w s r n = Z.testbit (signed s (bvalue w r)) n.
Proof.
  intros Hn Hk Hv. pose proof (brepr_ok_nonneg w w_pos r Hk) as Hnn. unfold ibig_bit, signed. destruct s; cbn [sgnz].
  - rewrite Z.mul_1_l. apply repr_bit_correct; assumption.
  - rewrite (repr_trailing_zeros_correct r Hk), (repr_bit_correct r n Hn Hk).
    replace (-1 * bvalue w r) with (- bvalue w r) by lia.
    destruct (trailing_zeros_spec (bvalue w r)) as [k|] eqn:E.
    + symmetry. apply testbit_neg_by_tz; [lia | assumption | assumption].
    + apply trailing_zeros_spec_none in E. contradiction.
Qed.

(* ---------------------------------------------------------------- one word of a buffer combined with a word *)

Section AtWord.
Variable op : Z -> Z -> Z.
Variable fb : bool -> bool -> bool.
Hypothesis op_spec : forall a b i, 0 <= i -> Z.testbit (op a b) i = fb (Z.testbit a i) (Z.testbit b i).
Hypothesis fb_ff : fb false false = false.
Hypothesis op_nonneg : forall a b, 0 <= a -> 0 <= b -> 0 <= op a b.
Hypothesis op_r0 : forall u, op u 0 = u.

Lemma op_at_word ws : forall idx y, wf ws -> (idx < length ws)%nat -> 0 <= y < B ->
  op (value ws) (B ^ Z.of_nat idx * y) = value ws + B ^ Z.of_nat idx * (op (nth idx ws 0) y - nth idx ws 0).
Proof.
  pose proof (B_pos w w_pos) as HB.
  induction ws as [|x r IH]; intros [|k] y Hw Hl Hy; cbn [length] in Hl; try lia;
    apply wf_cons in Hw; destruct Hw as [Hx Hr]; cbn [Words.value nth].
  - cbn [Z.of_nat]. rewrite Z.pow_0_r, Z.mul_1_l. replace y with (y + B * 0) at 1 by lia.
    rewrite (op_split w w_pos op fb op_spec fb_ff op_nonneg) by assumption. rewrite op_r0. ring.
  - rewrite Nat2Z.inj_succ, Z.pow_succ_r by lia.
    replace (B * B ^ Z.of_nat k * y) with (0 + B * (B ^ Z.of_nat k * y)) by ring.
    rewrite (op_split w w_pos op fb op_spec fb_ff op_nonneg) by (assumption || lia).
    rewrite op_r0, IH by (assumption || lia). ring.
Qed.
End AtWord.

Lemma n_split n : 0 <= n -> 2 ^ n = B ^ Z.of_nat (Z.to_nat (n / w)) * 2 ^ (n mod w).
Proof. intros Hn. pose proof (Z.div_pos n w Hn w_pos). rewrite Z2Nat.id by lia. apply (rhs_split w w_pos n Hn). Qed.

(* ---------------------------------------------------------------- set_bit *)

Lemma lor_above a n : 0 <= n -> 0 <= a < 2 ^ n -> Z.lor a (2 ^ n) = a + 2 ^ n.
Proof.
  intros Hn Ha. rewrite Z.lor_comm, (lor_disjoint (2 ^ n) a n); [lia | lia | | lia].
  apply Z.mod_same. apply Z.pow_nonzero; lia.
Qed.

Lemma value_below_pow ws n : 0 <= n -> wf ws -> len ws <= n / w -> 0 <= value ws < 2 ^ n.
Proof.
  intros Hn Hw Hl. pose proof (value_bounds w w_pos ws Hw) as Hb. pose proof (B_pos w w_pos) as HB.
  pose proof (Z.mod_pos_bound n w w_pos) as Hm. split; [lia|].
  apply Z.lt_le_trans with (B ^ len ws); [lia|]. rewrite (rhs_split w w_pos n Hn).
  assert (B ^ len ws <= B ^ (n / w)) by (apply Z.pow_le_mono_r; unfold len in *; lia).
  pose proof (pow_pos_2 (n mod w) ltac:(lia)). nia.
Qed.

Theorem with_bit_large_correct buf n : 0 <= n -> wf buf ->
  bvalue w (with_bit_large w buf n) = set_bit_spec (value buf) n /\ brepr_ok w (with_bit_large w buf n).
Proof.
  intros Hn Hw. pose proof (B_pos w w_pos) as HB. unfold with_bit_large, set_bit_spec.
  pose proof (Z.mod_pos_bound n w w_pos) as Hm. pose proof (Z.div_pos n w Hn w_pos) as Hd.
  rewrite (shiftl_1 (n mod w)) by lia. pose proof (pow_word_bit w w_pos (n mod w) Hm) as Hbit.
  destruct (Z.ltb_spec (n / w) (len buf)) as [C|C].
  - assert (Hidx : (Z.to_nat (n / w) < length buf)%nat) by (unfold len in C; lia).
    assert (W : wf (upd buf (Z.to_nat (n / w)) (fun x => Z.lor x (2 ^ (n mod w))))).
    { apply (upd_wf w); [exact Hw|]. intros x Hx. apply (op_word w w_pos Z.lor orb lor_spec' eq_refl lor_nn); assumption. }
    destruct (from_buffer_ok w w_pos _ W) as [V K]. split; [|exact K].
    rewrite V, (upd_value w) by exact Hidx. rewrite (n_split n Hn).
    symmetry. apply (op_at_word Z.lor orb lor_spec' eq_refl lor_nn Z.lor_0_r); assumption.
  - assert (W : wf (buf ++ repeat 0 (Z.to_nat (n / w - len buf)) ++ [2 ^ (n mod w)])).
    { apply wf_app. split; [exact Hw|]. apply (wf_zeros_app w w_pos). apply wf_cons. split; [exact Hbit | constructor]. }
    destruct (from_buffer_ok w w_pos _ W) as [V K]. split; [|exact K].
    rewrite V, value_app, (value_zeros_app w). cbn [Words.value]. rewrite Z2Nat.id by lia.
    rewrite lor_above by (try lia; apply value_below_pow; assumption).
    rewrite (rhs_split w w_pos n Hn). replace (n / w) with (len buf + (n / w - len buf)) at 2 by lia.
    rewrite Z.pow_add_r by (unfold len in *; lia). ring.
Qed.

Lemma dword_words d : 0 <= d < B * B -> wf [d mod B; d / B] /\ value [d mod B; d / B] = d.
Proof.
  intros Hd. pose proof (B_pos w w_pos) as HB. split.
  - apply wf_cons. split; [apply Z.mod_pos_bound; lia|]. apply wf_cons. split; [|constructor].
    split; [apply Z.div_pos; lia | apply Z.div_lt_upper_bound; lia].
  - cbn [Words.value]. pose proof (Z.div_mod d B ltac:(lia)). lia.
Qed.

Theorem repr_set_bit_correct r n : 0 <= n -> brepr_ok w r ->
  bvalue w (repr_set_bit w r n) = set_bit_spec (bvalue w r) n /\ brepr_ok w (repr_set_bit w r n).
Proof.
  intros Hn Hk. pose proof (B_pos w w_pos) as HB. destruct r as [d|b]; cbn [repr_set_bit bvalue].
  - cbn [brepr_ok] in Hk. unfold set_bit_spec. destruct (Z.ltb_spec n (2 * w)) as [C|C].
    + unfold from_dword. cbn [bvalue brepr_ok]. rewrite shiftl_1 by lia. split; [reflexivity|].
      rewrite <- (B2 w w_pos) in *. apply (op_word (2 * w) w2_pos Z.lor orb lor_spec' eq_refl lor_nn); [assumption|].
      unfold Words.B. split; [apply Z.pow_nonneg; lia | apply Z.pow_lt_mono_r; lia].
    + unfold with_bit_dword_spilled. pose proof (Z.mod_pos_bound n w w_pos) as Hm.
      assert (Hq : 2 <= n / w) by (apply Z.div_le_lower_bound; lia).
      rewrite (shiftl_1 (n mod w)) by lia. destruct (dword_words d Hk) as [Wd Vd].
      assert (W : wf ([d mod B; d / B] ++ repeat 0 (Z.to_nat (n / w - 2)) ++ [2 ^ (n mod w)])).
      { apply wf_app. split; [exact Wd|]. apply (wf_zeros_app w w_pos). apply wf_cons.
        split; [apply (pow_word_bit w w_pos); exact Hm | constructor]. }
      destruct (from_buffer_ok w w_pos _ W) as [V K]. split; [|exact K].
      rewrite V, value_app, Vd, (value_zeros_app w). cbn [Words.value]. rewrite Z2Nat.id by lia.
      assert (Hd2 : 0 <= d < 2 ^ n).
      { split; [lia|]. apply Z.lt_le_trans with (2 ^ (2 * w)); [rewrite <- (BB_pow w w_pos); lia | apply Z.pow_le_mono_r; lia]. }
      rewrite lor_above by assumption. rewrite (rhs_split w w_pos n Hn).
      replace (n / w) with (2 + (n / w - 2)) at 2 by lia. rewrite Z.pow_add_r by lia.
      unfold len. cbn [length Z.of_nat]. ring.
  - destruct Hk as (W & _). apply with_bit_large_correct; assumption.
Qed.

(* ---------------------------------------------------------------- clear_bit *)

Lemma ldiff_above a n : 0 <= n -> 0 <= a < 2 ^ n -> Z.ldiff a (2 ^ n) = a.
Proof.
  intros Hn Ha. apply Z.bits_inj'. intros i Hi. rewrite Z.ldiff_spec, Z.pow2_bits_eqb by assumption.
  destruct (Z.eqb_spec n i) as [->|Hne]; cbn [negb]; [|apply andb_true_r].
  rewrite (high_bits_of_small a i i) by lia. reflexivity.
Qed.

Theorem repr_clear_bit_correct r n : 0 <= n -> brepr_ok w r ->
  bvalue w (repr_clear_bit w r n) = clear_bit_spec (bvalue w r) n /\ brepr_ok w (repr_clear_bit w r n).
Proof.
  intros Hn Hk. pose proof (B_pos w w_pos) as HB. unfold clear_bit_spec. destruct r as [d|b]; cbn [repr_clear_bit bvalue].
  - cbn [brepr_ok] in Hk. destruct (Z.ltb_spec n (2 * w)) as [C|C]; unfold from_dword; cbn [bvalue brepr_ok].
    + rewrite shiftl_1 by lia.
      assert (Hp : 0 <= 2 ^ n < B * B).
      { rewrite (BB_pow w w_pos). split; [apply Z.pow_nonneg; lia | apply Z.pow_lt_mono_r; lia]. }
      rewrite (land_dword_not w w_pos) by assumption. split; [reflexivity|].
      rewrite <- (B2 w w_pos) in *. apply (op_word (2 * w) w2_pos Z.ldiff _ ldiff_spec' eq_refl (ldiff_nonneg)); assumption.
    + split; [|exact Hk]. symmetry. apply ldiff_above; [exact Hn|]. split; [lia|].
      apply Z.lt_le_trans with (2 ^ (2 * w)); [rewrite <- (BB_pow w w_pos); lia | apply Z.pow_le_mono_r; lia].
  - destruct Hk as (Hw & _). pose proof (Z.mod_pos_bound n w w_pos) as Hm. pose proof (Z.div_pos n w Hn w_pos) as Hd.
    rewrite (shiftl_1 (n mod w)) by lia. pose proof (pow_word_bit w w_pos (n mod w) Hm) as Hbit.
    destruct (Z.ltb_spec (n / w) (len b)) as [C|C].
    + assert (Hidx : (Z.to_nat (n / w) < length b)%nat) by (unfold len in C; lia).
      assert (W : wf (upd b (Z.to_nat (n / w)) (fun x => Z.land x (word_not w (2 ^ (n mod w)))))).
      { apply (upd_wf w); [exact Hw|]. intros x Hx. rewrite (land_word_not w w_pos) by assumption.
        apply (op_word w w_pos Z.ldiff _ ldiff_spec' eq_refl (ldiff_nonneg)); assumption. }
      destruct (from_buffer_ok w w_pos _ W) as [V K]. split; [|exact K].
      rewrite V, (upd_value w) by exact Hidx. rewrite (n_split n Hn).
      rewrite (land_word_not w w_pos) by (try assumption; apply (wf_nth w w_pos); exact Hw).
      symmetry. apply (op_at_word Z.ldiff _ ldiff_spec' eq_refl ldiff_nonneg Z.ldiff_0_r); assumption.
    + destruct (from_buffer_ok w w_pos _ Hw) as [V K]. split; [|exact K].
      rewrite V. symmetry. apply ldiff_above; [exact Hn|]. apply value_below_pow; assumption.
Qed.

(* ---------------------------------------------------------------- clear_high_bits / split_bits *)

Lemma ceil_div_w n : 0 <= n -> ceil_div n w = n / w + (if n mod w =? 0 then 0 else 1).
Proof.
  intros Hn. unfold ceil_div. pose proof (Z.div_mod n w ltac:(lia)) as Hdm. pose proof (Z.mod_pos_bound n w w_pos) as Hm.
  destruct (Z.eqb_spec n 0) as [->|Hne]; [reflexivity|].
  destruct (Z.eqb_spec (n mod w) 0) as [E|E].
  - rewrite Z.add_0_r. replace (n - 1) with ((w - 1) + (n / w - 1) * w) by lia.
    rewrite Z.div_add by lia. rewrite Z.div_small by lia. lia.
  - replace (n - 1) with ((n mod w - 1) + (n / w) * w) by lia.
    rewrite Z.div_add by lia. rewrite Z.div_small by lia. lia.
Qed.

Lemma masked_prefix_value (f : Z -> Z) buf : forall k, (k < length buf)%nat ->
  value (upd (firstn (S k) buf) k f) = value (firstn k buf) + B ^ Z.of_nat k * f (nth k buf 0).
Proof.
  induction buf as [|x r IH]; intros [|k] Hk; cbn [length] in Hk; try lia.
  - cbn [firstn upd Words.value nth Z.of_nat]. rewrite Z.pow_0_r. ring.
  - rewrite !firstn_cons. cbn [upd nth Words.value]. rewrite IH by lia.
    rewrite Nat2Z.inj_succ, Z.pow_succ_r by lia. ring.
Qed.

Lemma masked_prefix_wf (f : Z -> Z) buf k : wf buf -> (forall x, 0 <= x < B -> 0 <= f x < B) ->
  wf (upd (firstn (S k) buf) k f).
Proof. intros Hw Hf. apply (upd_wf w); [apply (wf_firstn w); exact Hw | exact Hf]. Qed.

Theorem clear_high_bits_large_correct buf n : 0 <= n -> wf buf ->
  bvalue w (clear_high_bits_large w buf n) = clear_high_bits_spec (value buf) n /\
  brepr_ok w (clear_high_bits_large w buf n).
Proof.
  intros Hn Hw. pose proof (B_pos w w_pos) as HB. unfold clear_high_bits_large, clear_high_bits_spec.
  pose proof (Z.mod_pos_bound n w w_pos) as Hm. pose proof (Z.div_pos n w Hn w_pos) as Hd.
  rewrite (ceil_div_w n Hn). pose proof (value_bounds w w_pos buf Hw) as Hb.
  destruct (Z.gtb_spec (n / w + (if n mod w =? 0 then 0 else 1)) (len buf)) as [C|C].
  - destruct (from_buffer_ok w w_pos _ Hw) as [V K]. split; [|exact K]. rewrite V. symmetry. apply Z.mod_small.
    destruct (Z.eqb_spec (n mod w) 0) as [E|E]; apply value_below_pow; (assumption || lia).
  - destruct (Z.eqb_spec (n mod w) 0) as [E|E].
    + rewrite Z.add_0_r in *. pose proof (wf_firstn w (Z.to_nat (n / w)) buf Hw) as W.
      destruct (from_buffer_ok w w_pos _ W) as [V K]. split; [|exact K]. rewrite V.
      rewrite (value_firstn_skipn w (Z.to_nat (n / w)) buf) at 1.
      assert (El : len (firstn (Z.to_nat (n / w)) buf) = n / w) by (unfold len in *; rewrite firstn_length; lia).
      pose proof (value_bounds w w_pos _ W) as Hlo. rewrite El in *.
      rewrite (rhs_split w w_pos n Hn), E, Z.pow_0_r, Z.mul_1_r.
      rewrite Z.mul_comm, Z.mod_add by lia. rewrite Z.mod_small by lia. reflexivity.
    + set (k := Z.to_nat (n / w)). assert (Ek : Z.of_nat k = n / w) by (unfold k; lia).
      assert (Hk : (k < length buf)%nat) by (unfold len in C; lia).
      replace (Z.to_nat (n / w + 1)) with (S k) by lia.
      assert (El : length (firstn (S k) buf) = S k) by (rewrite firstn_length; lia).
      rewrite El. replace (S k - 1)%nat with k by lia.
      rewrite (ones_word_ok w) by lia.
      assert (W : wf (upd (firstn (S k) buf) k (fun x => Z.land x (Z.ones (n mod w))))).
      { apply masked_prefix_wf; [exact Hw|]. intros x Hx. rewrite Z.land_ones by lia.
        pose proof (Z.mod_pos_bound x (2 ^ (n mod w)) (pow_pos_2 (n mod w) ltac:(lia))).
        assert (2 ^ (n mod w) < 2 ^ w) by (apply Z.pow_lt_mono_r; lia). rewrite (B_pow w). lia. }
      destruct (from_buffer_ok w w_pos _ W) as [V K]. split; [|exact K].
      rewrite V, masked_prefix_value by exact Hk. rewrite Z.land_ones by lia.
      pose proof (wf_firstn w k buf Hw) as Wlo. pose proof (value_bounds w w_pos _ Wlo) as Hlo.
      assert (Ell : len (firstn k buf) = n / w) by (unfold len in *; rewrite firstn_length; lia).
      rewrite Ell in Hlo. rewrite Ek.
      rewrite (value_firstn_skipn w k buf) at 1. rewrite Ell, (skipn_nth buf k Hk). cbn [Words.value].
      rewrite (rhs_split w w_pos n Hn). rewrite (mod_split) by (try lia; apply pow_pos_2; lia). f_equal. f_equal.
      rewrite (B_split w (n mod w)) by lia.
      rewrite <- Z.mul_assoc, (Z.mul_comm (2 ^ (n mod w))), Z.mod_add; [reflexivity | apply Z.pow_nonzero; lia].
Qed.

Lemma dword_mask d n : 0 <= n -> 0 <= d < B * B ->
  (if n <? 2 * w then Z.land d (ones_dword w n) else d) = d mod 2 ^ n /\ 0 <= d mod 2 ^ n < B * B.
Proof.
  intros Hn Hd. pose proof (pow_pos_2 n Hn) as Hp. pose proof (Z.mod_pos_bound d (2 ^ n) Hp) as Hb.
  assert (d mod 2 ^ n <= d) by (apply Z.mod_le; lia). split; [|lia].
  destruct (Z.ltb_spec n (2 * w)) as [C|C].
  - rewrite (ones_dword_ok w w_pos) by lia. apply Z.land_ones. lia.
  - symmetry. apply Z.mod_small. split; [lia|].
    apply Z.lt_le_trans with (2 ^ (2 * w)); [rewrite <- (BB_pow w w_pos); lia | apply Z.pow_le_mono_r; lia].
Qed.

Theorem repr_clear_high_bits_correct r n : 0 <= n -> brepr_ok w r ->
  bvalue w (repr_clear_high_bits w r n) = clear_high_bits_spec (bvalue w r) n /\ brepr_ok w (repr_clear_high_bits w r n).
Proof.
  intros Hn Hk. destruct r as [d|b]; cbn [repr_clear_high_bits bvalue].
  - cbn [brepr_ok] in Hk. destruct (dword_mask d n Hn Hk) as [E Hb]. unfold clear_high_bits_spec, from_dword.
    replace (if n <? 2 * w then BSmall (Z.land d (ones_dword w n)) else BSmall d)
      with (BSmall (if n <? 2 * w then Z.land d (ones_dword w n) else d)) by (destruct (n <? 2 * w); reflexivity).
    rewrite E. cbn [bvalue brepr_ok]. split; [reflexivity | exact Hb].
  - destruct Hk as (W & _). apply clear_high_bits_large_correct; assumption.
Qed.

Theorem repr_split_bits_correct r n : 0 <= n -> brepr_ok w r ->
  let '(lo, hi) := repr_split_bits w r n in
  (bvalue w lo, bvalue w hi) = split_bits_spec (bvalue w r) n /\ brepr_ok w lo /\ brepr_ok w hi.
Proof.
  intros Hn Hk. pose proof (B_pos w w_pos) as HB. unfold split_bits_spec. destruct r as [d|b]; cbn [repr_split_bits bvalue].
  - cbn [brepr_ok] in Hk. destruct (dword_mask d n Hn Hk) as [E Hb]. pose proof (pow_pos_2 n Hn) as Hp.
    destruct (Z.ltb_spec n (2 * w)) as [C|C]; unfold from_dword; cbn [bvalue brepr_ok].
    + rewrite E, Z.shiftr_div_pow2 by lia. split; [reflexivity|]. split; [exact Hb|].
      split; [apply Z.div_pos; lia|]. apply Z.le_lt_trans with d; [apply Z.div_le_upper_bound; nia | lia].
    + rewrite <- E. rewrite (Z.div_small d (2 ^ n)).
      * split; [reflexivity|]. split; [exact Hk | nia].
      * split; [lia|]. apply Z.lt_le_trans with (2 ^ (2 * w)); [rewrite <- (BB_pow w w_pos); lia | apply Z.pow_le_mono_r; lia].
  - destruct Hk as (W & _). destruct (Z.eqb_spec n 0) as [->|Hne].
    + destruct (from_buffer_ok w w_pos _ W) as [V K]. cbn [bvalue brepr_ok]. rewrite V, Z.pow_0_r, Z.mod_1_r, Z.div_1_r.
      split; [reflexivity|]. split; [nia | exact K].
    + destruct (clear_high_bits_large_correct b n Hn W) as [V1 K1].
      destruct (shr_large_ref_correct w w_pos b n Hn W) as [V2 K2].
      rewrite V1, V2. unfold clear_high_bits_spec. rewrite Z.shiftr_div_pow2 by lia. repeat split; assumption.
Qed.

End Misc.
