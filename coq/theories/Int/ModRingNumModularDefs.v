(** C13 - num-modular 0.6.5 src/prim.rs: negm, subm, mulm, invm for the unsigned primitives, as transcribed
    (definitions only; proved = the specification's inverse in ModRingNumModular.v). *)
From Dashu Require Import Base.Prelude Int.ModRingSpec.
Open Scope Z_scope.

(** ---------------- num-modular src/prim.rs: negm, subm, mulm, invm for the unsigned primitives ---------------- *)
Definition nm_negm (x m : Z) : Z := let x := x mod m in if x =? 0 then 0 else m - x.
Definition nm_subm (a b m : Z) : Z := if b <=? a then (a - b) mod m else nm_negm ((b - a) mod m) m.
(** (self as double * rhs as double) % m as double  (u128: checked_mul, else udouble::widening_mul % m) *)
Definition nm_mulm (a b m : Z) : Z := (a * b) mod m.

(** `while r > 0 { (quo, rem) = (last_r / r, last_r % r); last_r = r; r = rem;
                   new_t = last_t.subm(quo.mulm(t, m), m); last_t = t; t = new_t }` *)
Fixpoint nm_invm_loop (fuel : nat) (m last_r r last_t t : Z) : result (Z * Z) :=
  match fuel with
  | O => OutOfFuel
  | S f =>
      if 0 <? r then
        let quo := last_r / r in
        let rem := last_r mod r in
        nm_invm_loop f m r rem t (nm_subm last_t (nm_mulm quo t m) m)
      else Ok (last_r, last_t)
  end.

(** invm: `x = if self >= m { self % m } else { self }`, the loop from (m, x, 0, 1), `if last_r > 1 { None } else { Some(last_t) }` *)
Definition nm_invm_asis (x m : Z) : result (option Z) :=
  let x := if m <=? x then x mod m else x in
  match nm_invm_loop (egcd_fuel m) m m x 0 1 with
  | Ok (g, t) => Ok (if 1 <? g then None else Some t)
  | Panic r => Panic r
  | Err e => Err e
  | OutOfFuel => OutOfFuel
  end.

(** the shape the model's section variable has *)
Definition nm_finv (x m : Z) : option Z := match nm_invm_asis x m with Ok o => o | _ => None end.

