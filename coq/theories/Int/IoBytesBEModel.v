(** C07: the big-endian byte functions of convert.rs as their own as-is models (definitions only;
    proofs in IoBytesBE.v): the top word's bytes first with the skipped bytes cut from the FRONT, the
    remaining words in reverse order, the sign byte inserted at index 0, padding in front. *)
From Dashu Require Import Base.Prelude Base.Words Int.IoSpec Int.IoModel.
Open Scope Z_scope.

Section BEModel.
Variable w : Z.

(** uN::to_be_bytes *)
Definition be_bytes_n (n : nat) (v : Z) : list Z := rev (le_bytes_n n v).

(** words_to_be_bytes_skip::<FLIP>(words, skip) *)
Definition words_to_be_bytes (flip : bool) (ws : list Z) (skip : Z) : list Z :=
  let fl x := if flip then Bw w - 1 - x else x in
  skipn (Z.to_nat skip) (be_bytes_n (Z.to_nat (WBy w)) (fl (last ws 0)))
  ++ flat_map (fun x => be_bytes_n (Z.to_nat (WBy w)) (fl x)) (rev (removelast ws)).

(** TypedReprRef::to_be_bytes *)
Definition to_be_bytes_asis (m : Z) : list Z :=
  if m <? Bw w * Bw w
  then skipn (Z.to_nat ((2 * w - blen m) / 8)) (be_bytes_n (Z.to_nat (2 * WBy w)) m)
  else let ws := to_words w (nwords w m) m in words_to_be_bytes false ws (lzw w (last ws 0) / 8).

(** TypedReprRef::to_signed_be_bytes(negate) (after the repair of F01) *)
Definition to_signed_be_bytes_asis (v : Z) : list Z :=
  let m := Z.abs v in
  let neg := v <? 0 in
  if m =? 0 then [] else
  let bytes :=
    if neg then
      if m <? Bw w * Bw w
      then skipn (Z.to_nat ((2 * w - blen m) / 8)) (be_bytes_n (Z.to_nat (2 * WBy w)) (Bw w * Bw w - m))
      else let ws := to_words w (nwords w m) m in
           let ws1 := to_words w (nwords w m) (m - 1) in
           words_to_be_bytes true ws1 (lzw w (last ws 0) / 8)
    else to_be_bytes_asis m in
  let leading_zeros := if m <? Bw w * Bw w then 2 * w - blen m else lzw w (last (to_words w (nwords w m) m) 0) in
  if leading_zeros mod 8 =? 0 then (if neg then 255 else 0) :: bytes else bytes.

(** dword_from_be_bytes_partial / from_be_bytes_large: the missing bytes are in front *)
Definition pad_front (n : nat) (pad : Z) (bs : list Z) : list Z := repeat pad (n - length bs) ++ bs.

Definition from_be_bytes_asis (bs : list Z) : Z :=
  if len bs <=? 2 * WBy w then be_value (pad_front (Z.to_nat (2 * WBy w)) 0 bs)
  else let nw := Z.to_nat ((len bs - 1) / WBy w + 1) in be_value (pad_front (nw * Z.to_nat (WBy w)) 0 bs).

Definition from_signed_be_bytes_asis (bs : list Z) : Z :=
  match bs with
  | [] => 0
  | b0 :: _ =>
    if b0 <? 128 then from_be_bytes_asis bs
    else if len bs <=? 2 * WBy w
    then let d := be_value (pad_front (Z.to_nat (2 * WBy w)) 255 bs) in - ((Bw w * Bw w - 1 - d + 1) mod (Bw w * Bw w))
    else let nw := Z.to_nat ((len bs - 1) / WBy w + 1) in
         let d := be_value (pad_front (nw * Z.to_nat (WBy w)) 255 bs) in
         - (Bw w ^ Z.of_nat nw - 1 - d + 1)
  end.
End BEModel.
