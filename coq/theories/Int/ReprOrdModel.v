(** C05, integer part: the representation [Repr] of UBig/IBig (integer/src/repr.rs), its constructors,
    and ==, cmp, hash, abs_cmp, abs_eq as the code computes them (integer/src/cmp.rs, repr.rs).
    Definitions only (proofs: ReprOrdProofs.v).  Word size is the parameter [w]. *)
From Dashu Require Import Base.Prelude Base.Words.
Open Scope Z_scope.

(** [capacity] field: signed, never 0. |cap| = 1, 2: words inline; |cap| >= 3: heap. *)
Inductive repr :=
| Inline (cap : Z) (lo hi : Z)
| Heap (cap : Z) (ws : list Z).

(** TypedReprRef *)
Inductive typed :=
| RefSmall (dw : Z)
| RefLarge (ws : list Z).

Definition capacity_field (r : repr) : Z := match r with Inline c _ _ | Heap c _ => c end.
Definition capacity (r : repr) : Z := Z.abs (capacity_field r).
(** Repr::sign *)
Definition rsign (r : repr) : sign := if capacity_field r >? 0 then Positive else Negative.

Definition sign_eqb (a b : sign) : bool :=
  match a, b with Positive, Positive | Negative, Negative => true | _, _ => false end.
Definition sign_disc (s : sign) : Z := match s with Positive => 0 | Negative => 1 end.

Fixpoint zlist_eqb (a b : list Z) : bool :=
  match a, b with
  | [], [] => true
  | x :: a', y :: b' => (x =? y) && zlist_eqb a' b'
  | _, _ => false
  end.

(** Iterator::cmp: lexicographic, a proper prefix is Less *)
Fixpoint lex_cmp (a b : list Z) : comparison :=
  match a, b with
  | [], [] => Eq
  | [], _ :: _ => Lt
  | _ :: _, [] => Gt
  | x :: a', y :: b' => match x ?= y with Eq => lex_cmp a' b' | c => c end
  end.

Section ReprOrd.
Variable w : Z.
Notation B := (Words.B w).
Notation value := (Words.value w).

(** Repr::as_sign_slice (magnitude part) *)
Definition as_slice (r : repr) : list Z :=
  match r with
  | Inline c lo hi => if Z.abs c =? 1 then (if lo =? 0 then [] else [lo]) else [lo; hi]
  | Heap _ ws => ws
  end.

(** Repr::as_sign_typed (magnitude part): inline data is read as a double word *)
Definition as_typed (r : repr) : typed :=
  match r with
  | Inline _ lo hi => RefSmall (lo + B * hi)
  | Heap _ ws => RefLarge ws
  end.

(** Repr::len *)
Definition rlen (r : repr) : Z :=
  match r with
  | Inline c lo _ => if Z.abs c =? 1 then (if lo =? 0 then 0 else 1) else 2
  | Heap _ ws => len ws
  end.

(** Repr::is_zero *)
Definition r_is_zero (r : repr) : bool :=
  match r with
  | Inline c lo _ => (Z.abs c =? 1) && (lo =? 0)
  | Heap _ _ => false
  end.

(** the mathematical value *)
Definition rvalue (r : repr) : Z := signed (rsign r) (value (as_slice r)).

(* ---------------------------------------------------------------- comparisons, as the code *)

(** impl PartialEq for Repr: as_sign_slice() == as_sign_slice() *)
Definition repr_eq (a b : repr) : bool :=
  sign_eqb (rsign a) (rsign b) && zlist_eqb (as_slice a) (as_slice b).

(** cmp::cmp_same_len: lhs.iter().rev().cmp(rhs.iter().rev()) *)
Definition cmp_same_len (l r : list Z) : comparison := lex_cmp (rev l) (rev r).

(** cmp::cmp_in_place: len.cmp(len).then_with(cmp_same_len) *)
Definition cmp_in_place (l r : list Z) : comparison :=
  match len l ?= len r with Eq => cmp_same_len l r | c => c end.

(** impl Ord for TypedReprRef: Small < Large without looking at the words *)
Definition typed_cmp (a b : typed) : comparison :=
  match a, b with
  | RefSmall d0, RefSmall d1 => d0 ?= d1
  | RefSmall _, RefLarge _ => Lt
  | RefLarge _, RefSmall _ => Gt
  | RefLarge w0, RefLarge w1 => cmp_in_place w0 w1
  end.

(** impl Ord for UBig / AbsOrd for UBig, IBig and the mixed pairs *)
Definition ubig_cmp (a b : repr) : comparison := typed_cmp (as_typed a) (as_typed b).
Definition abs_cmp (a b : repr) : comparison := typed_cmp (as_typed a) (as_typed b).

(** impl Ord for IBig *)
Definition ibig_cmp (a b : repr) : comparison :=
  match rsign a, rsign b with
  | Positive, Positive => typed_cmp (as_typed a) (as_typed b)
  | Positive, Negative => Gt
  | Negative, Positive => Lt
  | Negative, Negative => typed_cmp (as_typed b) (as_typed a)
  end.

(** AbsEq: slices compared, signs ignored *)
Definition abs_eq (a b : repr) : bool := zlist_eqb (as_slice a) (as_slice b).

(** impl Hash for Repr: sign.hash; arr.hash = length prefix, then the words.
    This is the INPUT of the hasher, as a list of integers. *)
Definition hash_input (r : repr) : list Z :=
  sign_disc (rsign r) :: len (as_slice r) :: as_slice r.

(* ---------------------------------------------------------------- constructors, as the code *)

Definition from_word (n : Z) : repr := Inline 1 n 0.

(** Repr::from_dword: capacity 1 + (hi != 0) *)
Definition from_dword (n : Z) : repr :=
  let lo := n mod B in
  let hi := n / B in
  Inline (1 + (if hi =? 0 then 0 else 1)) lo hi.

(** Buffer::default_capacity / max_compact_capacity (the .min(MAX_CAPACITY) is out of reach) *)
Definition default_capacity (n : Z) : Z := n + n / 8 + 2.
Definition max_compact_capacity (n : Z) : Z := n + n / 4 + 4.

(** Buffer::pop_zeros: drop most significant zero words *)
Fixpoint pop_zeros (ws : list Z) : list Z :=
  match ws with
  | [] => []
  | x :: r => match pop_zeros r with
              | [] => if x =? 0 then [] else [x]
              | r' => x :: r'
              end
  end.

(** Buffer::shrink_to_fit on the capacity *)
Definition shrink_cap (cap n : Z) : Z :=
  if cap >? max_compact_capacity n then default_capacity n else cap.

(** Repr::from_buffer of a buffer with capacity [cap] holding [ws] *)
Definition from_buffer (cap : Z) (ws : list Z) : repr :=
  match pop_zeros ws with
  | [] => from_word 0
  | [a] => from_word a
  | [a; b] => from_dword (a + B * b)
  | ws' => Heap (shrink_cap cap (len ws')) ws'
  end.

(** Repr::ones, as it is now (after the fix 28de539: [n <= DWORD_BITS]) *)
Definition ones_words (n : Z) : list Z :=
  repeat (B - 1) (Z.to_nat (n / w)) ++ (if n mod w >? 0 then [2 ^ (n mod w) - 1] else []).

Definition ones (n : Z) : repr :=
  if n <? w then from_word (2 ^ n - 1)
  else if n <=? 2 * w then from_dword (2 ^ n - 1)
  else Heap (default_capacity (n / w + 1)) (ones_words n).

(** Repr::ones as it was on the pinned tree ([n < DWORD_BITS]): finding 3 of DESIGN 5.1 *)
Definition ones_pinned (n : Z) : repr :=
  if n <? w then from_word (2 ^ n - 1)
  else if n <? 2 * w then from_dword (2 ^ n - 1)
  else Heap (default_capacity (n / w + 1)) (ones_words n).

Definition flip (r : repr) : repr :=
  match r with Inline c lo hi => Inline (- c) lo hi | Heap c ws => Heap (- c) ws end.

(** Repr::with_sign: zero keeps the positive sign *)
Definition with_sign (r : repr) (s : sign) : repr :=
  let is_positive := match s with Positive => true | Negative => false end in
  if negb (r_is_zero r) && xorb is_positive (capacity_field r >? 0) then flip r else r.

(** Repr::neg *)
Definition rneg (r : repr) : repr := if r_is_zero r then r else flip r.

(** Clone::clone *)
Definition rclone (r : repr) : repr :=
  match r with
  | Inline c lo hi => with_sign (Inline (Z.abs c) lo hi) (rsign r)
  | Heap c ws => with_sign (Heap (default_capacity (len ws)) ws) (rsign r)
  end.

(** Clone::clone_from (self, src) *)
Definition rclone_from (self src : repr) : repr :=
  match src with
  | Inline c lo hi => Inline c lo hi
  | Heap sc ws =>
      let cap := capacity self in
      let n := len ws in
      let newcap := if (cap <? n) || (cap >? max_compact_capacity n) then default_capacity n else cap in
      Heap (match rsign src with Positive => newcap | Negative => - newcap end) ws
  end.

(** Repr::from_ref *)
Definition from_ref (t : typed) : repr :=
  match t with
  | RefSmall dw => from_dword dw
  | RefLarge ws => from_buffer (default_capacity (len ws)) ws
  end.

(* ---------------------------------------------------------------- the invariant *)

(** canonical layout (doc comment of the [capacity] field of Repr) *)
Definition canonical (r : repr) : Prop :=
  match r with
  | Inline c lo hi =>
      0 <= lo < B /\ 0 <= hi < B /\
      ((Z.abs c = 1 /\ hi = 0 /\ (c = -1 -> lo <> 0)) \/ (Z.abs c = 2 /\ hi <> 0))
  | Heap c ws => 3 <= len ws /\ len ws <= Z.abs c /\ Words.wf w ws /\ last ws 0 <> 0
  end.

Definition canonicalb (r : repr) : bool :=
  match r with
  | Inline c lo hi =>
      (0 <=? lo) && (lo <? B) && (0 <=? hi) && (hi <? B) &&
      (((Z.abs c =? 1) && (hi =? 0) && negb ((c =? -1) && (lo =? 0))) || ((Z.abs c =? 2) && negb (hi =? 0)))
  | Heap c ws => (3 <=? len ws) && (len ws <=? Z.abs c) && Words.wfb w ws && negb (last ws 0 =? 0)
  end.

(** the layout a value must have: what the hook (capacity, len, inline?) has to report for value [v].
    [cap] is the reported signed capacity. *)
Definition layout_ok (v cap n : Z) (inline : bool) : bool :=
  let m := Z.abs v in
  let nw := if m =? 0 then 0 else Z.log2 m / w + 1 in
  (n =? nw) &&
  (if nw <=? 1 then inline && (Z.abs cap =? 1)
   else if nw =? 2 then inline && (Z.abs cap =? 2)
   else negb inline && (nw <=? Z.abs cap)) &&
  (if v <? 0 then cap <? 0 else 0 <? cap).

(** rebuild the model representation from what the hook reports and the words *)
Definition repr_of_layout (cap : Z) (inline : bool) (ws : list Z) : repr :=
  if inline then Inline cap (nth 0 ws 0) (nth 1 ws 0) else Heap cap ws.

Definition words_of (n v : Z) : list Z := Words.to_words w (Z.to_nat n) v.

(* ---------------------------------------------------------------- histories *)

(** every way the library builds a Repr: the public constructors and arithmetic results all funnel
    through from_word / from_dword / from_buffer / ones, sign changes through neg / with_sign, copies
    through clone / clone_from / from_ref *)
Inductive hop :=
| HFromWord (n : Z)
| HFromDword (n : Z)
| HFromBuffer (cap : Z) (ws : list Z)
| HOnes (n : Z)
| HNeg (i : nat)
| HWithSign (i : nat) (s : sign)
| HClone (i : nat)
| HCloneFrom (i j : nat)
| HFromRef (i : nat).

Definition hop_ok (o : hop) : Prop :=
  match o with
  | HFromWord n => 0 <= n < B
  | HFromDword n => 0 <= n < B * B
  | HFromBuffer cap ws => Words.wf w ws /\ len ws <= cap
  | HOnes n => 0 <= n
  | _ => True
  end.

Definition pool_get (p : list repr) (i : nat) : repr := nth i p (from_word 0).

Fixpoint pool_set (p : list repr) (i : nat) (r : repr) : list repr :=
  match p, i with
  | [], _ => []
  | _ :: t, O => r :: t
  | x :: t, S k => x :: pool_set t k r
  end.

Definition hstep (p : list repr) (o : hop) : list repr :=
  match o with
  | HFromWord n => p ++ [from_word n]
  | HFromDword n => p ++ [from_dword n]
  | HFromBuffer cap ws => p ++ [from_buffer cap ws]
  | HOnes n => p ++ [ones n]
  | HNeg i => p ++ [rneg (pool_get p i)]
  | HWithSign i s => p ++ [with_sign (pool_get p i) s]
  | HClone i => p ++ [rclone (pool_get p i)]
  | HCloneFrom i j => pool_set p i (rclone_from (pool_get p i) (pool_get p j))
  | HFromRef i => p ++ [with_sign (from_ref (as_typed (pool_get p i))) (rsign (pool_get p i))]
  end.

Definition hrun (p : list repr) (os : list hop) : list repr := fold_left hstep os p.

End ReprOrd.
