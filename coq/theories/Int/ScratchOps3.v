(** C17 (round 4) - the scratch memory of sqrt and of the modular multiplication, as PEAK demands in words, over the peak
    models of division and multiplication of C02 (Int/DivMemModel.v: div_peak, mul_peak_auto, mul_same_peak_auto; their
    sufficiency C02_mem_div / C02_mem_mul / C02_mem_mul_same_len is CITED, not re-proved).

    * root::sqrt_rem on a = 2n words: recursion on the upper half (n - n/2), one division n by n - n/2 words
      (div_rem_in_place), one squaring of n/2 words (sqr::sqr; a plain double-word product when n/2 = 1); the same Memory is
      handed to each in turn, nothing is allocated by sqrt_rem itself.  [ksqrt_sufficient]: for EVERY n >= 2 the demand of
      the whole recursion is at most root::memory_requirement_sqrt_rem(n) = max(sqr(n), div(n, n - n/2)) - which needs the
      requirement formulas to be monotone in the operand length ([sqr_req_mono], [sqrt_div_req_mono]).
    * modular::mul::mul_normalized / sqr_normalized in a ring of n >= 3 words: the product slice (n.max(na + nb) words, taken
      from the Memory), then a multiplication na x nb and, if na + nb > n, a division (na + nb) by n in the REST of the
      Memory.  [ring_mul_sufficient]: at most mul_memory_requirement = 2n + max(mul(2n, n), div(2n, n)) for all na, nb <= n.
    * ConstLargeDivisor::rem_large, Div / Rem / DivRem by a ConstDivisor call div::memory_requirement_exact with the
      very lengths of the division they run: C02_mem_div applies verbatim ([const_div_sufficient]).
    Argument expressions are the REGENERATED ones of coq/gen/StorageGen4.v. *)
From Coq Require Import ZArith List Bool Lia.
From Dashu Require Import Base.Prelude Int.DivMemBase Int.DivMemModel Int.DivMemProofs.
From DashuGen Require Import Params DivDispatch StorageGen StorageGen4.
Open Scope Z_scope.

(* ------------------------------------------------------------------ sqr::sqr *)
Definition sqr_req (len : Z) : Z := if len <=? sqr_max_len_simple then 0 else g_mul_mem_up_to (2 * len) len.
Definition sqr_peak (len : Z) : result Z := if len <=? sqr_max_len_simple then Ok 0 else mul_same_peak_auto len.

Lemma sqr_peak_ok len : 0 <= len -> exists p, sqr_peak len = Ok p /\ 0 <= p <= sqr_req len.
Proof.
  intros H. unfold sqr_peak, sqr_req. destruct (len <=? sqr_max_len_simple).
  - exists 0. split; [reflexivity | lia].
  - destruct (mul_same_sufficient len H) as (p & E & Hp). exists p. rewrite R_total. auto.
Qed.

Lemma sqr_req_nonneg a : 0 <= a -> 0 <= sqr_req a.
Proof. intros H. unfold sqr_req. destruct (a <=? sqr_max_len_simple); [lia|]. rewrite R_total. apply R_nonneg. exact H. Qed.

Lemma sqr_req_mono a b : 0 <= a <= b -> sqr_req a <= sqr_req b.
Proof.
  intros H. unfold sqr_req. destruct (Z.leb_spec a sqr_max_len_simple) as [Ha|Ha].
  - fold (sqr_req b). apply sqr_req_nonneg. lia.
  - destruct (Z.leb_spec b sqr_max_len_simple); [lia|]. rewrite !R_total. apply R_mono. lia.
Qed.

(* ------------------------------------------------------------------ root::sqrt_rem *)
Definition sqrt_req (n : Z) : Z :=
  if n =? gen4_sqrt_req_base then 0
  else Z.max (sqr_req (gen4_sqrt_req_sqr_arg n)) (g_div_mem_req (gen4_sqrt_req_div_lhs n) (gen4_sqrt_req_div_rhs n)).

Fixpoint ksqrt_peak (fuel : nat) (n : Z) : result Z :=
  match fuel with
  | O => OutOfFuel
  | S f =>
      if n =? 2 then Ok 0                                   (* a.len() == 4: sqrt_rem_42 *)
      else
        let split := gen4_ksqrt_split n in
        rbind (ksqrt_peak f (n - split)) (fun p1 =>
        rbind (div_peak n (n - split)) (fun p2 =>
        rbind (if split =? 1 then Ok 0 else sqr_peak split) (fun p3 => Ok (Z.max p1 (Z.max p2 p3)))))
  end.

Lemma div_req_nonneg l n : 0 <= n <= l -> 0 <= g_div_mem_req l n.
Proof.
  intros H. unfold g_div_mem_req, g_dc_mem_req. cbv zeta. destruct (_ || _); [lia|]. rewrite R_total. apply R_nonneg.
  assert (0 <= n / 2) by (apply Z.div_pos; lia). lia.
Qed.

(** the requirement of the division inside sqrt_rem grows with n *)
Lemma sqrt_div_req_mono a b : 2 <= a <= b -> g_div_mem_req a (a - a / 2) <= g_div_mem_req b (b - b / 2).
Proof.
  intros H. assert (a / 2 <= b / 2) as Hq by (apply Z.div_le_mono; lia).
  pose proof (Z.div_mod a 2 ltac:(lia)) as Da. pose proof (Z.div_mod b 2 ltac:(lia)) as Db.
  pose proof (Z.mod_pos_bound a 2 ltac:(lia)) as Da'. pose proof (Z.mod_pos_bound b 2 ltac:(lia)) as Db'.
  assert (a - a / 2 <= b - b / 2) as Hr by lia.
  assert (0 <= a / 2) by (apply Z.div_pos; lia).
  unfold g_div_mem_req at 1. unfold g_dc_mem_req. cbv zeta.
  destruct (Z.leb_spec (a - a / 2) div_threshold_simple) as [H1|H1]; cbn [orb]; [apply div_req_nonneg; lia|].
  destruct (Z.leb_spec (a - (a - a / 2)) div_threshold_simple) as [H2|H2]; [apply div_req_nonneg; lia|].
  unfold g_div_mem_req, g_dc_mem_req. cbv zeta.
  destruct (Z.leb_spec (b - b / 2) div_threshold_simple) as [H3|H3]; [lia|]. cbn [orb].
  destruct (Z.leb_spec (b - (b - b / 2)) div_threshold_simple) as [H4|H4]; [lia|].
  rewrite !R_total. apply R_mono.
  assert ((a - a / 2) / 2 <= (b - b / 2) / 2) by (apply Z.div_le_mono; lia).
  assert (0 <= (a - a / 2) / 2) by (apply Z.div_pos; lia). lia.
Qed.

Lemma sqrt_req_mono a b : 3 <= a <= b -> sqrt_req a <= sqrt_req b.
Proof.
  intros H. unfold sqrt_req, gen4_sqrt_req_base, gen4_sqrt_req_sqr_arg, gen4_sqrt_req_div_lhs, gen4_sqrt_req_div_rhs.
  destruct (Z.eqb_spec a 2); [lia|]. destruct (Z.eqb_spec b 2); [lia|].
  pose proof (sqr_req_mono a b ltac:(lia)). pose proof (sqrt_div_req_mono a b ltac:(lia)). lia.
Qed.

Lemma sqrt_req_nonneg n : 2 <= n -> 0 <= sqrt_req n.
Proof.
  intros H. unfold sqrt_req, gen4_sqrt_req_sqr_arg. destruct (_ =? _); [lia|]. pose proof (sqr_req_nonneg n ltac:(lia)). lia.
Qed.

Theorem ksqrt_sufficient_fuel fuel : forall n, 2 <= n -> n <= Z.of_nat fuel ->
  exists p, ksqrt_peak fuel n = Ok p /\ 0 <= p <= sqrt_req n.
Proof.
  induction fuel as [|f IH]; intros n Hn Hf; [lia|]. cbn [ksqrt_peak].
  destruct (Z.eqb_spec n 2) as [->|Hne].
  - exists 0. split; [reflexivity|]. pose proof (sqrt_req_nonneg 2 ltac:(lia)). lia.
  - cbv zeta. unfold gen4_ksqrt_split.
    pose proof (Z.div_mod n 2 ltac:(lia)) as D. pose proof (Z.mod_pos_bound n 2 ltac:(lia)) as D'.
    assert (1 <= n / 2) as Hs by lia.
    destruct (IH (n - n / 2) ltac:(lia) ltac:(lia)) as (p1 & E1 & Hp1).
    assert (g_div_mem_req_pre n (n - n / 2) = true) as Hpre.
    { unfold g_div_mem_req_pre. apply andb_true_intro. split; apply Z.geb_le; lia. }
    destruct (div_peak_sufficient n (n - n / 2) Hpre) as (p2 & E2 & Hp2).
    assert (exists p3, (if n / 2 =? 1 then Ok 0 else sqr_peak (n / 2)) = Ok p3 /\ 0 <= p3 <= sqr_req (n / 2)) as (p3 & E3 & Hp3).
    { destruct (n / 2 =? 1); [exists 0; split; [reflexivity|]; pose proof (sqr_req_nonneg (n / 2) ltac:(lia)); lia|].
      apply sqr_peak_ok. lia. }
    rewrite E1. cbn [rbind]. rewrite E2. cbn [rbind]. rewrite E3. cbn [rbind].
    eexists. split; [reflexivity|].
    assert (sqrt_req (n - n / 2) <= sqrt_req n) as M1.
    { destruct (Z.eq_dec (n - n / 2) 2) as [E|E].
      - rewrite E. unfold sqrt_req at 1. unfold gen4_sqrt_req_base. cbn [Z.eqb Pos.eqb]. apply sqrt_req_nonneg. lia.
      - apply sqrt_req_mono. lia. }
    pose proof (sqr_req_mono (n / 2) n ltac:(lia)) as M3.
    assert (sqrt_req n = Z.max (sqr_req n) (g_div_mem_req n (n - n / 2))) as En.
    { unfold sqrt_req, gen4_sqrt_req_base, gen4_sqrt_req_sqr_arg, gen4_sqrt_req_div_lhs, gen4_sqrt_req_div_rhs.
      destruct (Z.eqb_spec n 2); [lia | reflexivity]. }
    rewrite En in *. lia.
Qed.

(** root_ops.rs: MemoryAllocation::new(root::memory_requirement_sqrt_rem(n)) serves root::sqrt_rem on 2n words *)
Corollary ksqrt_sufficient n : 2 <= n ->
  exists p, ksqrt_peak (Z.to_nat n) n = Ok p /\ 0 <= p <= sqrt_req (gen4_sqrt_scratch_arg n).
Proof. intros H. unfold gen4_sqrt_scratch_arg. apply ksqrt_sufficient_fuel; lia. Qed.

(* ------------------------------------------------------------------ modular::mul *)
Definition ring_mul_req (n : Z) : Z :=
  gen4_ring_req_product n +
  Z.max (g_mul_mem_exact (gen4_ring_req_mul_total n) (gen4_ring_req_mul_small n))
        (g_div_mem_req (gen4_ring_req_div_lhs n) (gen4_ring_req_div_rhs n)).

(** mul_normalized on operands with na, nb significant words (sqr_normalized: na = nb, the squaring needs no more than
    the product of two na-word operands reserves) *)
Definition ring_mul_peak (n na nb : Z) : result Z :=
  rbind (if ((na =? 0) && (nb =? 0)) || ((na =? 1) && (nb =? 1)) then Ok 0 else mul_peak_auto na nb) (fun p1 =>
  rbind (if na + nb >? n then div_peak (na + nb) n else Ok 0) (fun p2 =>
  Ok (gen4_ring_product_len n na nb + Z.max p1 p2))).

Theorem ring_mul_sufficient n na nb : 3 <= n -> 0 <= na <= n -> 0 <= nb <= n ->
  exists p, ring_mul_peak n na nb = Ok p /\ 0 <= p <= ring_mul_req n.
Proof.
  intros Hn Ha Hb. unfold ring_mul_peak, ring_mul_req, gen4_ring_req_product, gen4_ring_req_mul_total, gen4_ring_req_mul_small,
    gen4_ring_req_div_lhs, gen4_ring_req_div_rhs, gen4_ring_product_len, g_mul_mem_exact.
  rewrite R_total.
  assert (exists p1, (if ((na =? 0) && (nb =? 0)) || ((na =? 1) && (nb =? 1)) then Ok 0 else mul_peak_auto na nb) = Ok p1 /\ 0 <= p1 <= R n) as (p1 & E1 & Hp1).
  { destruct (_ || _).
    - exists 0. split; [reflexivity|]. pose proof (R_nonneg n ltac:(lia)). lia.
    - destruct (mul_peak_auto_sufficient na nb ltac:(lia) ltac:(lia)) as (p & E & Hp). exists p. split; [exact E|].
      pose proof (R_mono (Z.min na nb) n ltac:(lia)). lia. }
  assert (0 <= g_div_mem_req (2 * n) n) as Hd0 by (apply div_req_nonneg; lia).
  assert (exists p2, (if na + nb >? n then div_peak (na + nb) n else Ok 0) = Ok p2 /\ 0 <= p2 <= g_div_mem_req (2 * n) n) as (p2 & E2 & Hp2).
  { destruct (Z.gtb_spec (na + nb) n) as [Hgt|Hle]; [|exists 0; split; [reflexivity | lia]].
    assert (g_div_mem_req_pre (na + nb) n = true) as Hpre by (unfold g_div_mem_req_pre; apply andb_true_intro; split; apply Z.geb_le; lia).
    destruct (div_peak_sufficient (na + nb) n Hpre) as (p & E & Hp). exists p. split; [exact E|].
    assert (g_div_mem_req (na + nb) n <= g_div_mem_req (2 * n) n) as Hm.
    { unfold g_div_mem_req at 1. unfold g_dc_mem_req. cbv zeta.
      destruct (Z.leb_spec n div_threshold_simple) as [H1|H1]; cbn [orb]; [exact Hd0|].
      destruct (Z.leb_spec (na + nb - n) div_threshold_simple) as [H2|H2]; [exact Hd0|].
      unfold g_div_mem_req, g_dc_mem_req. cbv zeta.
      destruct (Z.leb_spec n div_threshold_simple); [lia|]. cbn [orb].
      destruct (Z.leb_spec (2 * n - n) div_threshold_simple); [lia|].
      rewrite !R_total. apply R_mono. assert (0 <= n / 2) by (apply Z.div_pos; lia). lia. }
    lia. }
  rewrite E1. cbn [rbind]. rewrite E2. cbn [rbind]. eexists. split; [reflexivity|]. lia.
Qed.

(* ------------------------------------------------------------------ division by a ConstDivisor *)
(** rem_large, rem_large_large, Div / DivRem for TypedRepr by a large ConstDivisor: the scratch memory is
    div::memory_requirement_exact(lhs.len(), modulus.len()) for the division lhs.len() by modulus.len() that follows *)
Corollary const_div_sufficient wlen n : gen4_rem_large_test wlen n = true -> 2 <= n ->
  exists p, div_peak (gen4_rem_large_div_lhs wlen n) (gen4_rem_large_div_rhs wlen n) = Ok p /\
            0 <= p <= g_div_mem_req (gen4_rem_large_div_lhs wlen n) (gen4_rem_large_div_rhs wlen n).
Proof.
  unfold gen4_rem_large_test, gen4_rem_large_div_lhs, gen4_rem_large_div_rhs. intros H Hn. apply Z.geb_le in H.
  apply div_peak_sufficient. unfold g_div_mem_req_pre. apply andb_true_intro. split; apply Z.geb_le; lia.
Qed.

(** the requirement formulas of this file are the ones the storage machine's multiplication theorems are about *)
Lemma log2_up_ceil n : Z.log2_up n = ceil_log2 n.
Proof.
  unfold ceil_log2, Z.log2_up. destruct (Z.leb_spec n 1) as [H|H].
  - destruct (Z.compare_spec 1 n); try reflexivity; lia.
  - destruct (Z.compare_spec 1 n); try lia. unfold Z.succ, Z.pred. replace (n + -1) with (n - 1) by lia. reflexivity.
Qed.

Lemma tie_mul_requirement t n : gen_mul_requirement n = g_mul_mem_up_to t n.
Proof.
  unfold gen_mul_requirement, g_mul_mem_up_to, gen_mul_threshold_simple, gen_mul_threshold_karatsuba, mul_threshold_simple,
    mul_threshold_karatsuba, gen_kara_requirement, gen_toom_requirement, g_karatsuba_mem, g_toom3_mem. cbv zeta.
  rewrite log2_up_ceil. reflexivity.
Qed.

Lemma tie_sqr_requirement n : gen_sqr_requirement n = sqr_req n.
Proof. unfold gen_sqr_requirement, sqr_req, gen_sqr_max_len_simple, sqr_max_len_simple. rewrite (tie_mul_requirement (2 * n)). reflexivity. Qed.

(** non-vacuity: a 200-word root (400-word operand) needs 176 scratch words of the 904 reserved; a ring of 100 words:
    product slice 200 + 176, reserved 414; small rings need the product slice only *)
Example scratch3_examples :
  ksqrt_peak 200 200 = Ok 176 /\ sqrt_req 200 = 904 /\ ksqrt_peak 70 70 = Ok 36 /\ sqrt_req 70 = 154 /\ sqrt_req 3 = 0 /\
  ring_mul_peak 100 100 100 = Ok 376 /\ ring_mul_req 100 = 414 /\ ring_mul_peak 40 40 40 = Ok 120 /\ ring_mul_req 40 = 172 /\
  ring_mul_peak 3 3 3 = Ok 6 /\ ring_mul_req 3 = 6 /\ ring_mul_peak 100 1 1 = Ok 100.
Proof. vm_compute. repeat split; reflexivity. Qed.
