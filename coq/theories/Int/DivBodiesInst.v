(** C02 round 5 - the hook-level kernels built ONLY from regenerated code, including the recursion of divide_conquer.rs
    (coq/gen/DivBodiesGen.v): which = 2 the divide-and-conquer kernel, otherwise the algorithm switch over it.  Definitions only
    (the oracle runs them next to the implementation on every kernel-hook case). *)
From Dashu Require Import Base.Prelude Base.Words Int.DivWordModel Int.DivKernelsBase Int.DivKernelsInst.
From DashuGen Require Import DivKernelsGen DivBodiesGen.
Open Scope Z_scope.

Definition g5_kernel (w which lhs rhs m : Z) : Z * Z * Z :=
  let l := to_words w (Z.to_nat m) lhs in let r := words_of w rhs in
  let n := length r in let d := highest_dword w r in
  let '(l', c) := if which =? 2 then dc_div_rem_in_place_gen (Pnm w) w (fuel_for l) l r d
                  else if which =? 1 then simple_div_rem_in_place_gen (Pnm w) w l r d
                  else div_rem_in_place_full_gen (Pnm w) w l r d in
  (Z.b2z c, Words.value w (skipn n l'), Words.value w (firstn n l')).
