(** C17 (round 3) - the scratch bump allocator of integer/src/memory.rs as an OFFSET MACHINE, and the scratch
    usage of multiplication / squaring / the pow loops as allocation plans.  DEFINITIONS ONLY; proofs in
    ScratchProofs.v.

    [memory] = (start, end) byte offsets of a `Memory` chunk.  [alloc_slice n] transcribes
    Memory::try_find_memory_for_slice::<Word>(n) + allocate_slice_initialize: padding to the alignment,
    checked_add / checked_mul against usize::MAX, `slice_end <= end`; every failure is
    `expect("internal error: not enough memory allocated")` = Err 40.  The slice handed out is
    [slice_start, slice_end), the remaining chunk (slice_end, end).

    A [plan] is the nest of scopes of a routine: `Alloc k p` = `let (_, mut memory) = memory.allocate_slice_*(k ..)`
    followed by p in the remaining chunk, `Seq p q` = two sibling scopes that start from the same chunk (the
    first one's allocations are released when its scope ends), `Call n` = a recursive multiplication of two
    n-word operands (mul::add_signed_mul_same_len, dispatching on n again).  The plans of Karatsuba and
    Toom-3 take their allocation sizes, in source order, from the REGENERATED lists gen_kara_allocs /
    gen_toom_allocs (coq/gen/StorageGen.v), the thresholds and requirement formulas likewise. *)
From Dashu Require Import Base.Prelude.
From DashuGen Require Import StorageGen.
Open Scope Z_scope.

Record memory := mkM { mstart : Z; mend : Z }.

Inductive plan := Skip | Call (n : Z) | Alloc (k : Z) (p : plan) | Seq (p q : plan).

Section Scratch.
Variable ws : Z.   (* size_of::<Word>() = align_of::<Word>(), bytes *)
Variable U : Z.    (* usize::MAX *)

Definition alloc_slice (n : Z) (m : memory) : result (Z * memory) :=
  let padding := (- mstart m) mod ws in          (* start.wrapping_neg() & (align_of::<T>() - 1) *)
  let slice_start := mstart m + padding in
  if slice_start >? U then Err 40 else
  let size := n * ws in
  if size >? U then Err 40 else
  let slice_end := slice_start + size in
  if slice_end >? U then Err 40 else
  if slice_end <=? mend m then Ok (slice_start, mkM slice_end (mend m)) else Err 40.

Fixpoint run_plan (rec : Z -> memory -> result unit) (p : plan) (m : memory) : result unit :=
  match p with
  | Skip => Ok tt
  | Call n => rec n m
  | Alloc k p => rbind (alloc_slice k m) (fun sm => run_plan rec p (snd sm))
  | Seq p q => rbind (run_plan rec p m) (fun _ => run_plan rec q m)
  end.

Definition sz (l : list Z) (i : nat) : Z := nth i l 0.

(** karatsuba::add_signed_mul_same_len: { c_lo; mul(mid) } { c_hi; mul(n - mid) } { a_diff; b_diff; mul(mid) } *)
Definition kara_plan (n : Z) : plan :=
  let a := gen_kara_allocs n in let mid := gen_kara_mid n in
  Seq (Alloc (sz a 0) (Call mid))
 (Seq (Alloc (sz a 1) (Call (n - mid)))
      (Alloc (sz a 2) (Alloc (sz a 3) (Call mid)))).

(** toom_3::add_signed_mul_same_len: t1; mul(n3); a_eval; b_eval; mul(n3 + 1); { c_eval; mul(n3_short) };
    t2; { a02; b02; mul(n3 + 1) }; c_eval; mul(n3 + 1) *)
Definition toom_plan (n : Z) : plan :=
  let a := gen_toom_allocs n in let n3 := gen_toom_n3 n in let n3s := gen_toom_n3_short n in
  Alloc (sz a 0) (Seq (Call n3)
 (Alloc (sz a 1) (Alloc (sz a 2) (Seq (Call (n3 + 1))
 (Seq (Alloc (sz a 3) (Call n3s))
 (Alloc (sz a 4) (Seq (Alloc (sz a 5) (Alloc (sz a 6) (Call (n3 + 1))))
                      (Alloc (sz a 7) (Call (n3 + 1)))))))))).

(** mul::add_signed_mul_same_len *)
Definition plan_of (n : Z) : plan :=
  if n <=? gen_mul_threshold_simple then Skip
  else if n <=? gen_mul_threshold_karatsuba then kara_plan n else toom_plan n.

Fixpoint mul_same (fuel : nat) (n : Z) (m : memory) : result unit :=
  match fuel with O => OutOfFuel | S f => run_plan (mul_same f) (plan_of n) m end.

(** mul::add_signed_mul (len a >= len b): schoolbook needs nothing; Karatsuba / Toom-3 run
    helpers::add_signed_mul_split_into_chunks - every chunk of len b words goes through the same-length
    kernel with the SAME chunk of memory, the remainder (fewer than len b words) through add_signed_mul again *)
Fixpoint mul_gen (fuel : nat) (la lb : Z) (m : memory) : result unit :=
  match fuel with
  | O => OutOfFuel
  | S f =>
      if lb <=? gen_mul_threshold_simple then Ok tt
      else rbind (mul_same (S (Z.to_nat lb)) lb m) (fun _ =>
           let r := la mod lb in if r =? 0 then Ok tt else mul_gen f lb r m)
  end.

(** sqr::sqr *)
Definition sqr_run (len : Z) (m : memory) : result unit :=
  if len <=? gen_sqr_max_len_simple then Ok tt else mul_same (S (Z.to_nat len)) len m.

(** the chunk handed out by MemoryAllocation::new(array_layout::<Word>(words)) at address base *)
Definition chunk (base words : Z) : memory := mkM base (base + words * ws).

(** mul_ops::mul_large / square_large *)
Definition mul_large_scratch (base la lb : Z) : result unit :=
  let big := Z.max la lb in let small := gen_mul_large_scratch_arg la lb in
  mul_gen (S (Z.to_nat small)) big small (chunk base (gen_mul_requirement small)).
Definition square_large_scratch (base len : Z) : result unit :=
  sqr_run len (chunk base (gen_sqr_requirement (gen_square_large_scratch_arg len))).

(** one `res = square(res)` of pow_word_base / pow_dword_base with res of len words: the scratch chunk of
    copy + sqr_requirement(sarg) words holds tmp = copy of res, the rest serves sqr::sqr *)
Definition pow_square_scratch (base copy sarg len : Z) : result unit :=
  rbind (alloc_slice len (chunk base (copy + gen_sqr_requirement sarg))) (fun sm => sqr_run len (snd sm)).

(* ------------------------------------------------------------------ the demand of a plan, in words *)
Fixpoint demand (rec : Z -> Z) (p : plan) : Z :=
  match p with
  | Skip => 0
  | Call n => rec n
  | Alloc k p => k + demand rec p
  | Seq p q => Z.max (demand rec p) (demand rec q)
  end.
Fixpoint dsame (fuel : nat) (n : Z) : Z :=
  match fuel with O => 0 | S f => demand (dsame f) (plan_of n) end.

(** the demand of the general product mul::add_signed_mul (len a >= len b): the chunk kernel, then the remainder *)
Fixpoint dgen (fuel : nat) (la lb : Z) : Z :=
  match fuel with
  | O => 0
  | S f =>
      if lb <=? gen_mul_threshold_simple then 0
      else Z.max (dsame (S (Z.to_nat lb)) lb) (let r := la mod lb in if r =? 0 then 0 else dgen f lb r)
  end.

End Scratch.
