(** C02 round 4 - the kernels REGENERATED from integer/src/div/{mod.rs,simple.rs,divide_conquer.rs} (coq/gen/DivKernelsGen.v)
    are the hand-written models of Int/DivWordModel.v, for every word size w > 0 and every instance P of the primitives.
    Premises are only those the Rust types give (a divisor is a non-zero Word / a DoubleWord above Word::MAX, words are
    in range where a `bool` carry is compared with an integer one) or the caller's debug_assert (length >= 2). *)
From Dashu Require Import Base.Prelude Base.Words Int.RingAdd Int.WordPrims Int.DivWordModel Int.DivWordProofs Int.DivSimpleProofs Int.DivContracts Int.DivKernelsBase
  Int.DivRemIdx Int.DivRemIdxProofs.
From DashuGen Require Import DivKernelsGen.
Open Scope Z_scope.

(** *** list facts *)
Lemma split_last_snoc l x : split_last (l ++ [x]) = Some (x, l).
Proof.
  unfold split_last. destruct (l ++ [x]) eqn:E; [destruct l; discriminate|]. rewrite <- E.
  rewrite last_last, removelast_last. reflexivity.
Qed.
Lemma split_last_Some l x lo : split_last l = Some (x, lo) -> l = lo ++ [x].
Proof.
  destruct l as [|a t]; [discriminate|]. intros E.
  change (Some (last (a :: t) 0, removelast (a :: t)) = Some (x, lo)) in E.
  assert (E1 : last (a :: t) 0 = x) by congruence. assert (E2 : removelast (a :: t) = lo) by congruence.
  rewrite <- E1, <- E2. apply app_removelast_last. discriminate.
Qed.
Lemma split_last_None l : split_last l = None -> l = [].
Proof. destruct l; [reflexivity | discriminate]. Qed.
Lemma split_last_rev x be : split_last (rev (x :: be)) = Some (x, rev be).
Proof. cbn [rev]. apply split_last_snoc. Qed.

Lemma split_last_cons l : l <> [] -> split_last l = Some (last l 0, removelast l).
Proof. destruct l; [contradiction | reflexivity]. Qed.
Lemma removelast_length (l : list Z) : l <> [] -> length l = S (length (removelast l)).
Proof.
  intros H. pose proof (app_removelast_last 0 H) as E. apply (f_equal (@length Z)) in E.
  rewrite app_length in E. cbn [length] in E. lia.
Qed.

Section Gen.
Variable w : Z.
Hypothesis w_pos : 0 < w.
Variable P : div_prims.
Notation B := (Words.B w).
Notation wf := (Words.wf w).

Local Lemma Bpos : 0 < B. Proof. apply B_pos; lia. Qed.

(** *** shifts as multiplications / divisions *)
Lemma shiftl_mul x s : 0 <= s -> Z.shiftl x s = x * 2 ^ s.
Proof. intros. apply Z.shiftl_mul_pow2. lia. Qed.
Lemma shiftr_div x s : 0 <= s -> Z.shiftr x s = x / 2 ^ s.
Proof. intros. apply Z.shiftr_div_pow2. lia. Qed.

Lemma lzw1_nonneg x : 0 < x < B -> 0 <= lzw w 1 x.
Proof. intros H. pose proof (log2_word w x H). unfold lzw. lia. Qed.

Lemma trailing_zeros_pow2 x : is_pow2 x = true -> trailing_zeros x = Z.log2 x.
Proof.
  unfold is_pow2, trailing_zeros. intros E. apply Z.eqb_eq in E. rewrite <- E.
  rewrite Z.gcd_diag. assert (0 < x). { rewrite E. apply Z.pow_pos_nonneg; [lia | apply Z.log2_nonneg]. }
  rewrite Z.abs_eq by lia. reflexivity.
Qed.

(** *** div_by_word_in_place / fast_div_by_word_in_place *)
Lemma fdw_loop_app d l1 : forall l2 rem,
  fast_div_by_word_in_place_loop_gen P w d (l1 ++ l2) rem =
  let '(q1, r1) := fast_div_by_word_in_place_loop_gen P w d l1 rem in
  let '(q2, r2) := fast_div_by_word_in_place_loop_gen P w d l2 r1 in (q1 ++ q2, r2).
Proof.
  induction l1 as [|x t IH]; intros l2 rem.
  - cbn [app fast_div_by_word_in_place_loop_gen]. destruct (fast_div_by_word_in_place_loop_gen P w d l2 rem). reflexivity.
  - cbn [app fast_div_by_word_in_place_loop_gen]. destruct (p2by1 P d (wdouble_word w x rem)) as [q r].
    rewrite IH. destruct (fast_div_by_word_in_place_loop_gen P w d t r) as [q1 r1].
    destruct (fast_div_by_word_in_place_loop_gen P w d l2 r1). reflexivity.
Qed.

Lemma fdw_loop_rev d l : forall rem,
  fast_div_by_word_in_place_loop_gen P w d (rev l) rem =
  let '(q, r) := div_word_loop w (p2by1 P) d l rem in (rev q, r).
Proof.
  induction l as [|x t IH]; intros rem; [reflexivity|].
  cbn [rev div_word_loop]. rewrite fdw_loop_app, IH.
  destruct (div_word_loop w (p2by1 P) d t rem) as [qr rem1].
  cbn [fast_div_by_word_in_place_loop_gen]. unfold wdouble_word.
  destruct (p2by1 P d (x + B * rem1)) as [q r2]. cbn [rev]. reflexivity.
Qed.

Theorem fast_div_by_word_gen_eq ws s d : 0 <= s ->
  fast_div_by_word_in_place_gen P w ws s d = fast_div_by_word w (p2by1 P) ws s d.
Proof.
  intros Hs. unfold fast_div_by_word_in_place_gen, fast_div_by_word, k_shl_in_place.
  destruct (shl_in_place w ws s) as [ws1 c]. rewrite fdw_loop_rev.
  destruct (div_word_loop w (p2by1 P) d ws1 c) as [q r]. rewrite rev_involutive, shiftr_div by lia. reflexivity.
Qed.

Theorem div_by_word_gen_eq ws rhs : 0 < rhs < B ->
  div_by_word_in_place_gen P w ws rhs = div_by_word w (p2by1 P) ws rhs.
Proof.
  intros Hr. unfold div_by_word_in_place_gen, div_by_word.
  destruct (rhs =? 1); [reflexivity|]. destruct (is_pow2 rhs) eqn:E2.
  - rewrite trailing_zeros_pow2 by exact E2. unfold k_shr_in_place.
    destruct (shr_in_place w ws (Z.log2 rhs)) as [q r]. pose proof (log2_word w rhs Hr).
    rewrite shiftr_div by lia. reflexivity.
  - pose proof (lzw1_nonneg rhs Hr). rewrite shiftl_mul by lia. rewrite fast_div_by_word_gen_eq by lia.
    destruct (fast_div_by_word w (p2by1 P) ws (lzw w 1 rhs) (rhs * 2 ^ lzw w 1 rhs)). reflexivity.
Qed.

(** *** rem_by_word / fast_rem_by_normalized_word: the index loop `while i > 0 { i -= 1; .. words_lo[i] .. }` *)
Fixpoint rem2_loop (d : Z) (lo : list Z) (rem : Z) : Z :=
  match lo with [] => rem | x :: r => snd (p2by1 P d (x + B * rem2_loop d r rem)) end.

Lemma rem2_loop_app d l1 : forall l2 rem, rem2_loop d (l1 ++ l2) rem = rem2_loop d l1 (rem2_loop d l2 rem).
Proof. induction l1 as [|x t IH]; intros; cbn [app rem2_loop]; [reflexivity | rewrite IH; reflexivity]. Qed.

Lemma rem_word_loop_snoc d lo x :
  rem_word_loop w (p1by1 P) (p2by1 P) d (lo ++ [x]) = rem2_loop d lo (snd (p1by1 P d x)).
Proof.
  induction lo as [|y t IH]; [reflexivity|].
  cbn [app rem_word_loop rem2_loop]. destruct (t ++ [x]) eqn:E; [destruct t; discriminate|]. rewrite IH. reflexivity.
Qed.

Lemma frw_while d lo : forall i fuel rem, (i <= length lo)%nat -> (i < fuel)%nat ->
  fast_rem_by_normalized_word_while_gen P w lo d fuel i rem = (0%nat, rem2_loop d (firstn i lo) rem, false).
Proof.
  induction i as [|i IH]; intros fuel rem Hi Hf; (destruct fuel as [|f]; [lia|]); cbn [fast_rem_by_normalized_word_while_gen].
  - reflexivity.
  - change (0 <? S i)%nat with true. cbn iota. replace (S i - 1)%nat with i by lia.
    rewrite IH by lia. rewrite (firstn_snoc 0 i lo) by lia. rewrite rem2_loop_app. reflexivity.
Qed.

Theorem fast_rem_by_normalized_word_gen_eq ws d : (1 <= length ws)%nat ->
  fast_rem_by_normalized_word_gen P w ws d = rem_word_loop w (p1by1 P) (p2by1 P) d ws.
Proof.
  intros HL. destruct (exists_last (l := ws)) as (lo & x & ->); [destruct ws; [cbn in HL; lia | discriminate]|].
  unfold fast_rem_by_normalized_word_gen, split_hi_word. rewrite split_last_snoc.
  rewrite frw_while by lia. rewrite firstn_all, rem_word_loop_snoc. reflexivity.
Qed.

Theorem rem_by_word_gen_eq ws rhs : (1 <= length ws)%nat -> 0 < rhs < B ->
  rem_by_word_gen P w ws rhs = rem_by_word w (p1by1 P) (p2by1 P) ws rhs.
Proof.
  intros HL Hr. unfold rem_by_word_gen, rem_by_word. destruct (is_pow2 rhs).
  - destruct ws; reflexivity.
  - pose proof (lzw1_nonneg rhs Hr). rewrite !shiftl_mul, fast_rem_by_normalized_word_gen_eq by lia.
    destruct (p2by1 P (rhs * 2 ^ lzw w 1 rhs) _) as [q r]. rewrite shiftr_div by lia. reflexivity.
Qed.

(** *** rem_by_dword / fast_rem_by_normalized_dword: `while i > 2 { i -= 2; .. }  if i == 2 { .. }` *)
Definition frd_final (d : Z) (ws : list Z) (i : nat) (rem : Z) : Z :=
  if (i =? 2)%nat then snd (p3by2 P d (nth 0%nat ws 0) rem) else rem.

Lemma frd_while d ws : forall n fuel rem, (1 <= n)%nat -> (n < length ws)%nat -> (n < fuel)%nat ->
  exists i r, fast_rem_by_normalized_dword_while_gen P w ws d fuel n rem = (i, r, false) /\
    frd_final d ws i r = rem_dword_chunks w (p3by2 P) (p4by2 P) d (rev (firstn (n - 1) ws)) rem.
Proof.
  induction n as [n IH] using lt_wf_ind. intros fuel rem Hn1 HnL Hf.
  destruct fuel as [|f]; [lia|]. cbn [fast_rem_by_normalized_dword_while_gen].
  destruct (Nat.ltb_spec 2 n) as [Hgt|Hle].
  - destruct (IH (n - 2)%nat ltac:(lia) f (snd (p4by2 P d (wdouble_word w (nth (n - 2 - 1) ws 0) (nth (n - 2) ws 0)) rem))
               ltac:(lia) ltac:(lia) ltac:(lia)) as (i & r & E & F).
    exists i, r. split; [exact E|]. rewrite F.
    replace (n - 1)%nat with (S (S (n - 3))) by lia.
    rewrite (firstn_snoc 0 (S (n - 3))) by lia. rewrite (firstn_snoc 0 (n - 3)) by lia.
    rewrite !rev_app_distr. cbn [rev app rem_dword_chunks]. unfold wdouble_word.
    replace (n - 2 - 1)%nat with (n - 3)%nat by lia. replace (n - 2)%nat with (S (n - 3)) by lia. reflexivity.
  - exists n, rem. split; [reflexivity|]. unfold frd_final. destruct (Nat.eq_dec n 2) as [->|Hne].
    + destruct ws as [|x t]; [cbn in HnL; lia|]. reflexivity.
    + assert (n = 1%nat) by lia. subst n. reflexivity.
Qed.

Theorem fast_rem_by_normalized_dword_gen_eq ws d : (2 <= length ws)%nat ->
  fast_rem_by_normalized_dword_gen P w ws d = rem_dword_loop w (p2by2 P) (p3by2 P) (p4by2 P) d ws.
Proof.
  intros HL. unfold fast_rem_by_normalized_dword_gen. set (L := length ws) in *.
  destruct (frd_while d ws (L - 1) (S (L - 1))
              (snd (p2by2 P d (wdouble_word w (nth (L - 1 - 1) ws 0) (nth (L - 1) ws 0)))) ltac:(lia) ltac:(lia) ltac:(lia))
    as (i & r & E & F).
  rewrite E. cbn iota. fold (frd_final d ws i r) in *.
  transitivity (frd_final d ws i r); [unfold frd_final; destruct (i =? 2)%nat; reflexivity|]. rewrite F.
  unfold rem_dword_loop.
  pose proof (firstn_snoc 0 (S (L - 2)) ws ltac:(lia)) as H1. rewrite (firstn_snoc 0 (L - 2)) in H1 by lia.
  replace (S (S (L - 2))) with (length ws) in H1 by lia. rewrite firstn_all in H1.
  assert (Hrev : rev ws = nth (S (L - 2)) ws 0 :: nth (L - 2) ws 0 :: rev (firstn (L - 2) ws)).
  { rewrite H1 at 1. rewrite <- app_assoc, rev_app_distr. reflexivity. }
  rewrite Hrev. unfold wdouble_word.
  replace (L - 1 - 1)%nat with (L - 2)%nat by lia. replace (L - 1)%nat with (S (L - 2)) by lia.
  replace (S (L - 2) - 1)%nat with (L - 2)%nat by lia. reflexivity.
Qed.

Lemma lzw2_nonneg x : 0 < x < B * B -> 0 <= lzw w 2 x.
Proof. intros H. destruct (lzw_spec w w_pos 2 x ltac:(lia)) as (A & _); [rewrite Z.pow_2_r; exact H | lia]. Qed.

Theorem rem_by_dword_gen_eq ws rhs : (2 <= length ws)%nat -> 0 < rhs < B * B ->
  rem_by_dword_gen P w ws rhs = rem_by_dword w (p2by2 P) (p3by2 P) (p4by2 P) ws rhs.
Proof.
  intros HL Hr. unfold rem_by_dword_gen, rem_by_dword. destruct (is_pow2 rhs); [reflexivity|].
  pose proof (lzw2_nonneg rhs Hr) as Hs. pose proof Bpos as HB.
  rewrite !shiftl_mul, fast_rem_by_normalized_dword_gen_eq by lia.
  set (d := rhs * 2 ^ lzw w 2 rhs). set (rem := rem_dword_loop w (p2by2 P) (p3by2 P) (p4by2 P) d ws).
  unfold shl_dword. set (v := rem * 2 ^ lzw w 2 rhs).
  replace (wdouble_word w ((v / B) mod B) (v / (B * B))) with (v / B).
  2:{ unfold wdouble_word. rewrite <- Z.div_div by lia. rewrite (Z.div_mod (v / B) B) at 1 by lia. lia. }
  destruct (p3by2 P d (v mod B) (v / B)) as [q r]. rewrite shiftr_div by lia. reflexivity.
Qed.

(** *** div_by_dword_in_place / fast_div_by_dword_in_place: 3-by-2 on the top, 4-by-2 chunks from the top down, odd tail *)
Definition fdd_tail (d : Z) (done rl : list Z) (rem : Z) : list Z * Z :=
  match rl with
  | [] => (done, rem)
  | x :: tl => let '(q, r) := p3by2 P d x rem in (done ++ q :: tl, r)
  end.

Lemma fdd_loop d : forall n be rem, (length be <= n)%nat ->
  let '(done, rl, r) := fast_div_by_dword_in_place_loop_gen P w d be rem in
  (length rl <= 1)%nat /\ dword_chunks w (p3by2 P) (p4by2 P) d be rem = fdd_tail d done rl r.
Proof.
  induction n as [|n IH]; intros be rem Hn.
  - destruct be; [|cbn in Hn; lia]. cbn. split; [lia | reflexivity].
  - destruct be as [|hi [|lo rest]].
    + cbn. split; [lia | reflexivity].
    + cbn [fast_div_by_dword_in_place_loop_gen dword_chunks fdd_tail length app]. split; [lia|].
      destruct (p3by2 P d hi rem). reflexivity.
    + cbn [fast_div_by_dword_in_place_loop_gen dword_chunks]. unfold wdouble_word, wsplit_dword.
      destruct (p4by2 P d (lo + B * hi) rem) as [q r].
      specialize (IH rest r ltac:(cbn in Hn; lia)).
      destruct (fast_div_by_dword_in_place_loop_gen P w d rest r) as [[done rl] r'].
      destruct IH as [Hl E]. split; [exact Hl|]. rewrite E. unfold fdd_tail. destruct rl as [|x tl]; [reflexivity|].
      destruct (p3by2 P d x r'). reflexivity.
Qed.

Theorem fast_div_by_dword_gen_eq ws s d : 0 <= s ->
  fast_div_by_dword_in_place_gen P w ws s d = fast_div_by_dword w (p3by2 P) (p4by2 P) ws s d.
Proof.
  intros Hs. unfold fast_div_by_dword_in_place_gen, fast_div_by_dword, k_shl_in_place.
  destruct (shl_in_place w ws s) as [ws1 hi].
  destruct (rev ws1) as [|top_hi [|top_lo be]] eqn:E.
  - apply (f_equal (@rev Z)) in E. rewrite rev_involutive in E. subst ws1. reflexivity.
  - apply (f_equal (@rev Z)) in E. rewrite rev_involutive in E. subst ws1. reflexivity.
  - apply (f_equal (@rev Z)) in E. rewrite rev_involutive in E. subst ws1.
    rewrite split_last_rev. cbn iota. rewrite split_last_rev. cbn iota. unfold wdouble_word.
    destruct (p3by2 P d top_lo (top_hi + B * hi)) as [q rem]. rewrite rev_involutive.
    pose proof (fdd_loop d (length be) be rem (le_n _)) as H.
    destruct (fast_div_by_dword_in_place_loop_gen P w d be rem) as [[done rl] r].
    destruct H as [Hl H]. rewrite H. unfold fdd_tail. destruct rl as [|x tl].
    + cbn [is_empty negb]. cbn iota. rewrite app_nil_r, shiftr_div by lia. rewrite <- app_assoc. reflexivity.
    + destruct tl; [|cbn in Hl; lia]. cbn [is_empty negb]. cbn iota.
      destruct (p3by2 P d x r) as [q2 r2]. rewrite shiftr_div by lia. rewrite <- app_assoc. reflexivity.
Qed.

Lemma lor_add_disjoint a k e : 0 <= e -> 0 <= a < 2 ^ e -> Z.lor a (k * 2 ^ e) = a + k * 2 ^ e.
Proof.
  intros He Ha. rewrite <- Z.shiftl_mul_pow2 by lia.
  assert (Hland : Z.land a (Z.shiftl k e) = 0).
  { apply Z.bits_inj'. intros i Hi. rewrite Z.land_spec, Z.bits_0.
    destruct (Z.lt_ge_cases i e); [rewrite Z.shiftl_spec_low by lia; apply andb_false_r|].
    rewrite <- (Z.mod_small a (2 ^ e)) by lia. rewrite Z.mod_pow2_bits_high by lia. reflexivity. }
  rewrite Z.add_nocarry_lxor by exact Hland.
  apply Z.bits_inj'. intros i Hi. rewrite Z.lor_spec, Z.lxor_spec.
  assert (Hb : Z.testbit (Z.land a (Z.shiftl k e)) i = false) by (rewrite Hland; apply Z.bits_0).
  rewrite Z.land_spec in Hb. destruct (Z.testbit a i), (Z.testbit (Z.shiftl k e) i); try reflexivity; discriminate.
Qed.

Lemma log2_dword x : B <= x < B * B -> w <= Z.log2 x < 2 * w.
Proof.
  intros H. pose proof Bpos as HB. unfold Words.B in *. split.
  - apply Z.log2_le_pow2; lia.
  - apply Z.log2_lt_pow2; [lia|]. replace (2 * w) with (w + w) by lia. rewrite Z.pow_add_r by lia. lia.
Qed.

Theorem div_by_dword_gen_eq ws rhs : wf ws -> (1 <= length ws)%nat -> B <= rhs < B * B ->
  div_by_dword_in_place_gen P w ws rhs = div_by_dword w (p3by2 P) (p4by2 P) ws rhs.
Proof.
  intros Hwf HL Hr. pose proof Bpos as HB. unfold div_by_dword_in_place_gen, div_by_dword.
  destruct (is_pow2 rhs) eqn:E2.
  - rewrite trailing_zeros_pow2 by exact E2. unfold k_shr_one_word, k_shr_in_place.
    destruct ws as [|x t]; [cbn in HL; lia|]. cbn [shr_one_word].
    apply wf_cons in Hwf. destruct Hwf as [Hx Ht].
    pose proof (log2_dword rhs Hr) as Hlg. set (s := Z.log2 rhs - w) in *.
    destruct (Z.eqb_spec s 0); [reflexivity|].
    assert (Hw1 : wf (t ++ [0])) by (apply wf_app; split; [exact Ht | apply wf_cons; split; [lia | apply wf_nil]]).
    destruct (shr_in_place w (t ++ [0]) s) as [ws2 n2] eqn:E.
    destruct (shr_in_place_spec w w_pos (t ++ [0]) s Hw1 ltac:(lia) _ _ E) as (k' & -> & Hk & _).
    unfold shr_word, wdouble_word.
    assert (Hp : 0 < 2 ^ s) by (apply Z.pow_pos_nonneg; lia).
    assert (Hn1 : 0 <= x / 2 ^ s < 2 ^ (w - s)).
    { split; [apply Z.div_pos; lia|]. apply Z.div_lt_upper_bound; [lia|]. rewrite <- Z.pow_add_r by lia.
      replace (s + (w - s)) with w by lia. exact (proj2 Hx). }
    rewrite lor_add_disjoint by (lia || exact Hn1). rewrite shiftr_div by lia. reflexivity.
  - assert (Hs : 0 <= lzw w 2 rhs) by (apply lzw2_nonneg; lia).
    rewrite shiftl_mul by lia. rewrite fast_div_by_dword_gen_eq by lia.
    destruct (fast_div_by_dword w (p3by2 P) (p4by2 P) ws (lzw w 2 rhs) (rhs * 2 ^ lzw w 2 rhs)). reflexivity.
Qed.

(** *** normalize *)
Lemma highest_word_last ws : highest_word w ws = last ws 0.
Proof.
  unfold highest_word, top_words. destruct ws as [|a t]; [reflexivity|].
  destruct (exists_last (l := a :: t)) as (lo & x & ->); [discriminate|].
  rewrite app_length. cbn [length]. replace (length lo + 1 - 1)%nat with (length lo + 0)%nat by lia.
  rewrite skipn_app, Nat.add_0_r, skipn_all. replace (length lo - length lo)%nat with 0%nat by lia.
  cbn [skipn app Words.value]. rewrite last_last. lia.
Qed.

Theorem normalize_gen_eq ws :
  normalize_gen P w ws =
  (let s := lzw w 1 (highest_word w ws) in let ws1 := fst (shl_in_place w ws s) in (ws1, (s, highest_dword w ws1))).
Proof.
  unfold normalize_gen, k_shl_in_place. rewrite highest_word_last.
  destruct (shl_in_place w ws (lzw w 1 (last ws 0))). reflexivity.
Qed.

(** *** div/simple.rs: div_rem_highest_word and the schoolbook loop *)
Lemma skipn_firstn_app {A} k (l t : list A) : (k <= length l)%nat -> skipn k (firstn k l ++ t) = t.
Proof.
  intros H. rewrite skipn_app, firstn_length_le by lia. rewrite skipn_all2 by (rewrite firstn_length_le; lia).
  replace (k - k)%nat with 0%nat by lia. reflexivity.
Qed.
Lemma firstn_firstn_app {A} k (l t : list A) : (k <= length l)%nat -> firstn k (firstn k l ++ t) = firstn k l.
Proof.
  intros H. rewrite firstn_app, firstn_length_le by lia. replace (k - k)%nat with 0%nat by lia.
  rewrite firstn_O, app_nil_r. apply firstn_all2. rewrite firstn_length_le; lia.
Qed.

Theorem div_rem_highest_word_gen_eq top lo rhs d : rhs <> [] -> d = highest_dword w rhs ->
  div_rem_highest_word_gen P w top lo rhs d =
  (let '(q, lo') := div_rem_highest_word w (p3by2 P) top lo rhs in (lo', q)).
Proof.
  intros Hne ->. unfold div_rem_highest_word_gen, div_rem_highest_word.
  destruct (split_last rhs) as [[rhs_top rhs_lo]|] eqn:E; [|apply split_last_None in E; contradiction].
  assert (Et : highest_word w rhs = rhs_top).
  { rewrite highest_word_last. apply split_last_Some in E. rewrite E. apply last_last. }
  apply split_last_Some in E. rewrite <- E. rewrite Et. unfold wsplit_dword, wdouble_word, k_sub_mul_word, k_add_same_len.
  set (k := (length lo - length rhs)%nat).
  set (q := if top <? rhs_top then fst (p3by2 P (highest_dword w rhs) (highest_dword w lo mod B) (highest_dword w lo / B + B * top)) else B - 1).
  destruct (sub_mul_word w (skipn k lo) q rhs) as [win borrow].
  rewrite Z.gtb_ltb. destruct (top <? borrow).
  - rewrite skipn_firstn_app, firstn_firstn_app by (unfold k; lia).
    destruct (add_same_len w win rhs) as [win' c]. reflexivity.
  - reflexivity.
Qed.

Lemma sub_mul_loop_length rhs : forall ws m c, length ws = length rhs -> length (fst (sub_mul_loop w ws rhs m c)) = length ws.
Proof.
  induction rhs as [|b t IH]; intros [|a ws] m c H; try discriminate; [reflexivity|].
  cbn [sub_mul_loop]. cbn [length] in H.
  specialize (IH ws m ((a + c + (B * (B - 1) - (B - 1)) - m * b) / B) ltac:(lia)).
  destruct (sub_mul_loop w ws t m _). cbn [fst length] in *. lia.
Qed.
Lemma sub_mul_word_length ws m rhs : length ws = length rhs -> length (fst (sub_mul_word w ws m rhs)) = length ws.
Proof.
  intros H. unfold sub_mul_word. destruct (m =? 0); [reflexivity|].
  pose proof (sub_mul_loop_length rhs ws m (B - 1) H). destruct (sub_mul_loop w ws rhs m (B - 1)). exact H0.
Qed.
Lemma add_loop_length rhs : forall ws c, length ws = length rhs -> length (fst (add_loop w ws rhs c)) = length ws.
Proof.
  induction rhs as [|b t IH]; intros [|a ws] c H; try discriminate; [reflexivity|].
  cbn [add_loop]. cbn [length] in H. specialize (IH ws ((a + b + c) / B) ltac:(lia)).
  destruct (add_loop w ws t _). cbn [fst length] in *. lia.
Qed.

Lemma div_rem_highest_word_length top lo rhs : (length rhs <= length lo)%nat ->
  length (snd (div_rem_highest_word w (p3by2 P) top lo rhs)) = length lo.
Proof.
  intros H. unfold div_rem_highest_word. set (k := (length lo - length rhs)%nat).
  match goal with |- context [sub_mul_word w ?a ?q rhs] => pose proof (sub_mul_word_length a q rhs) as Hs; destruct (sub_mul_word w a q rhs) as [win borrow] end.
  assert (Hk : length (skipn k lo) = length rhs) by (rewrite skipn_length; unfold k; lia).
  specialize (Hs Hk). cbn [fst] in Hs.
  destruct (borrow >? top).
  - pose proof (add_loop_length rhs win 0 ltac:(lia)) as Ha. unfold add_same_len. destruct (add_loop w win rhs 0) as [win' c].
    cbn [snd fst] in *. rewrite app_length, firstn_length_le by (unfold k; lia). unfold k in *. lia.
  - cbn [snd]. rewrite app_length, firstn_length_le by (unfold k; lia). unfold k in *. lia.
Qed.

Lemma simple_window rhs d : rhs <> [] -> d = highest_dword w rhs ->
  forall k fuel lhs, length lhs = (length rhs + k)%nat -> (k < fuel)%nat ->
  simple_div_rem_in_place_window_gen P w (length rhs) rhs d fuel lhs = (simple_loop w (p3by2 P) k lhs rhs, false).
Proof.
  intros Hne Hd. induction k as [|k IH]; intros fuel lhs HL Hf; (destruct fuel as [|f]; [lia|]);
    cbn [simple_div_rem_in_place_window_gen simple_loop].
  - destruct (Nat.ltb_spec (length rhs) (length lhs)); [lia | reflexivity].
  - destruct (Nat.ltb_spec (length rhs) (length lhs)); [|lia].
    assert (Hnl : lhs <> []) by (destruct lhs; [cbn in HL; lia | discriminate]).
    rename lhs into l. rewrite (split_last_cons l Hnl). cbn iota.
    rewrite div_rem_highest_word_gen_eq by assumption.
    assert (Hrl : length (removelast l) = (length rhs + k)%nat) by (pose proof (removelast_length l Hnl); lia).
    pose proof (div_rem_highest_word_length (last l 0) (removelast l) rhs ltac:(lia)) as Hlen.
    destruct (div_rem_highest_word w (p3by2 P) (last l 0) (removelast l) rhs) as [q lo']. cbn [snd] in Hlen.
    rewrite IH by lia. reflexivity.
Qed.

Lemma k_sub_same_len_pair a b : k_sub_same_len w a b = (fst (sub_same_len w a b), negb (snd (sub_same_len w a b) =? 0)).
Proof. unfold k_sub_same_len. destruct (sub_same_len w a b). reflexivity. Qed.
Lemma k_add_same_len_pair a b : k_add_same_len w a b = (fst (add_same_len w a b), negb (snd (add_same_len w a b) =? 0)).
Proof. unfold k_add_same_len. destruct (add_same_len w a b). reflexivity. Qed.
Lemma k_sub_one_pair a : k_sub_one w a = (fst (sub_one w a), negb (snd (sub_one w a) =? 0)).
Proof. unfold k_sub_one. destruct (sub_one w a). reflexivity. Qed.

Theorem simple_div_rem_in_place_gen_eq lhs rhs d : rhs <> [] -> (length rhs <= length lhs)%nat -> d = highest_dword w rhs ->
  simple_div_rem_in_place_gen P w lhs rhs d = simple_div_rem w (p3by2 P) lhs rhs.
Proof.
  intros Hne HL Hd. unfold simple_div_rem_in_place_gen, simple_div_rem, cmp_is_ge.
  rewrite k_sub_same_len_pair. cbv zeta. set (k := (length lhs - length rhs)%nat).
  set (carry := match cmp_same_len (skipn k lhs) rhs with Lt => false | _ => true end).
  assert (Hl1 : length (if carry then firstn k lhs ++ fst (sub_same_len w (skipn k lhs) rhs) else lhs) = (length rhs + k)%nat).
  { destruct carry; [|unfold k; lia]. rewrite app_length, firstn_length_le by (unfold k; lia).
    unfold sub_same_len. assert (Hk : length (skipn k lhs) = length rhs) by (rewrite skipn_length; unfold k; lia).
    clear - Hk. revert Hk. generalize (skipn k lhs) as ws. generalize 0 as c. induction rhs as [|b t IH]; intros c [|a ws] H; try discriminate; [cbn; lia|].
    cbn [sub_loop]. cbn [length] in H. specialize (IH (- ((a - b - c) / B)) ws ltac:(lia)).
    destruct (sub_loop w ws t _). cbn [fst length] in *. lia. }
  set (lhs1 := if carry then firstn k lhs ++ fst (sub_same_len w (skipn k lhs) rhs) else lhs) in *.
  rewrite (simple_window rhs d Hne Hd k (S (length lhs1)) lhs1 Hl1 ltac:(lia)). reflexivity.
Qed.

(** *** div/mod.rs: the algorithm switch and the driver *)
Definition unwrap_dr (lhs : list Z) (r : result (list Z * bool)) : list Z * bool :=
  match r with Ok x => x | _ => (lhs, false) end.

Theorem div_rem_in_place_gen_eq lhs rhs d : rhs <> [] -> (length rhs <= length lhs)%nat -> d = highest_dword w rhs ->
  div_rem_in_place_gen P w lhs rhs d =
  unwrap_dr lhs (div_rem_in_place w (p3by2 P) (pmul_sub P) div_threshold_simple_nat (fuel_for lhs) lhs rhs).
Proof.
  intros Hne HL Hd. unfold div_rem_in_place_gen, div_rem_in_place.
  destruct ((length rhs <=? div_threshold_simple_nat)%nat || (length lhs - length rhs <=? div_threshold_simple_nat)%nat).
  - rewrite simple_div_rem_in_place_gen_eq by assumption. destruct (simple_div_rem w (p3by2 P) lhs rhs). reflexivity.
  - unfold k_dc_div_rem, unwrap_dr. destruct (dc_div_rem w (p3by2 P) (pmul_sub P) div_threshold_simple_nat (fuel_for lhs) lhs rhs) as [[l b]| | |]; reflexivity.
Qed.

Lemma shl_loop_length s : forall ws c, length (fst (shl_loop w ws s c)) = length ws.
Proof.
  induction ws as [|x t IH]; intros c; [reflexivity|]. cbn [shl_loop]. specialize (IH (x * 2 ^ s / B)).
  destruct (shl_loop w t s _). cbn [fst length] in *. lia.
Qed.
Lemma shl_in_place_length ws s : length (fst (shl_in_place w ws s)) = length ws.
Proof. unfold shl_in_place. destruct (s =? 0); [reflexivity | apply shl_loop_length]. Qed.

Lemma b2z_Zb2z b : b2z b = Z.b2z b. Proof. destruct b; reflexivity. Qed.

Theorem div_rem_unshifted_gen_eq lhs rhs s d r : rhs <> [] -> (length rhs <= length lhs)%nat -> d = highest_dword w rhs ->
  div_rem_unshifted w (p3by2 P) (pmul_sub P) div_threshold_simple_nat (fuel_for lhs) lhs rhs s = Ok r ->
  div_rem_unshifted_in_place_gen P w lhs rhs s d = r.
Proof.
  intros Hne HL Hd. unfold div_rem_unshifted, div_rem_unshifted_in_place_gen, k_shl_in_place.
  pose proof (shl_in_place_length lhs s) as Hl1. destruct (shl_in_place w lhs s) as [lhs1 c]. cbn [fst] in Hl1.
  rewrite Z.gtb_ltb. destruct (0 <? c).
  - rewrite div_rem_highest_word_gen_eq by assumption.
    pose proof (div_rem_highest_word_length c lhs1 rhs ltac:(lia)) as Hl2.
    destruct (div_rem_highest_word w (p3by2 P) c lhs1 rhs) as [q lhs2]. cbn [snd] in Hl2.
    rewrite div_rem_in_place_gen_eq by (assumption || lia).
    replace (fuel_for lhs2) with (fuel_for lhs) by (unfold fuel_for; lia).
    destruct (div_rem_in_place w (p3by2 P) (pmul_sub P) div_threshold_simple_nat (fuel_for lhs) lhs2 rhs) as [[l3 ov]| | |];
      cbn [rbind unwrap_dr]; intros E; try discriminate. rewrite b2z_Zb2z. congruence.
  - rewrite div_rem_in_place_gen_eq by (assumption || lia).
    replace (fuel_for lhs1) with (fuel_for lhs) by (unfold fuel_for; lia).
    destruct (div_rem_in_place w (p3by2 P) (pmul_sub P) div_threshold_simple_nat (fuel_for lhs) lhs1 rhs) as [[l3 ov]| | |];
      cbn [rbind unwrap_dr]; intros E; try discriminate. rewrite b2z_Zb2z. congruence.
Qed.

(** *** div/divide_conquer.rs: everything of div_rem_in_place_small_quotient after the recursive call *)
Definition dc_tail (lhs1 rhs : list Z) (n m : nat) (o : bool) : result (list Z * bool) :=
  let rem := firstn n lhs1 in let q := skipn n lhs1 in
  let rhs_lo := firstn (n - m) rhs in
  let '(rem1, ro) := pmul_sub P rem q rhs_lo in
  let '(rem2, ro2) :=
    if o then let '(t, b) := sub_same_len w (skipn m rem1) rhs_lo in (firstn m rem1 ++ t, ro - b)
    else (rem1, ro) in
  rbind (dc_fix_loop w dc_fix_fuel rem2 q rhs ro2 (Z.b2z o)) (fun '(rem3, q3, _, qo3) =>
  Ok (rem3 ++ q3, negb (qo3 =? 0))).

(** the transcribed recursion of DivWordModel.v ends in exactly this tail *)
Lemma dc_small_quotient_tail_unfold T f lhs rhs :
  dc_small_quotient w (p3by2 P) (pmul_sub P) T (S f) lhs rhs =
  (let n := length rhs in let m := (length lhs - n)%nat in
   if (m <=? T)%nat then Ok (simple_div_rem w (p3by2 P) lhs rhs)
   else
     let l := skipn (n - m) lhs in let r := skipn (n - m) rhs in
     let nlo := (m / 2)%nat in
     rbind (dc_small_quotient w (p3by2 P) (pmul_sub P) T f (skipn nlo l) r) (fun '(hi, o) =>
     let l1 := firstn nlo l ++ hi in
     rbind (dc_small_quotient w (p3by2 P) (pmul_sub P) T f (firstn (m + nlo) l1) r) (fun '(lo, _) =>
     dc_tail (firstn (n - m) lhs ++ (lo ++ skipn (m + nlo) l1)) rhs n m o))).
Proof. reflexivity. Qed.

Lemma b2z_carry c : 0 <= c <= 1 -> b2z (negb (c =? 0)) = c.
Proof. intros H. destruct (Z.eqb_spec c 0); cbn [negb b2z]; lia. Qed.

Lemma dc_fix_while rhs : wf rhs -> forall fuel rem q ro qo res, wf rem -> wf q -> length rem = length rhs ->
  dc_fix_loop w fuel rem q rhs ro qo = Ok res ->
  dc_small_quotient_tail_while_gen P w rhs (S fuel) rem ro q qo =
  (let '(rem', q', ro', qo') := res in (rem', ro', q', qo', false)).
Proof.
  intros Hwr. induction fuel as [|f IH]; intros rem q ro qo res Hw Hq Hl E.
  - cbn [dc_fix_loop] in E. cbn [dc_small_quotient_tail_while_gen].
    destruct (ro <? 0); [discriminate|]. inversion E; subst. reflexivity.
  - cbn [dc_fix_loop] in E. cbn [dc_small_quotient_tail_while_gen]. destruct (ro <? 0).
    + rewrite k_add_same_len_pair, k_sub_one_pair.
      destruct (add_same_len w rem rhs) as [rem' c] eqn:Ea. destruct (sub_one w q) as [q' b] eqn:Es.
      destruct (add_same_len_spec w w_pos rem rhs Hw Hwr Hl _ _ Ea) as (_ & Hw' & Hl' & Hc).
      destruct (sub_one_spec w w_pos q Hq _ _ Es) as (_ & Hq' & _ & Hb).
      cbn [fst snd]. rewrite !b2z_carry by assumption.
      apply (IH rem' q' (ro + c) (qo - b) res Hw' Hq' ltac:(lia) E).
    + inversion E; subst. reflexivity.
Qed.

Theorem dc_small_quotient_tail_gen_eq lhs1 rhs m o r :
  contract_mul_sub w (pmul_sub P) -> wf lhs1 -> wf rhs -> (m <= length rhs)%nat -> length lhs1 = (length rhs + m)%nat ->
  dc_tail lhs1 rhs (length rhs) m o = Ok r ->
  dc_small_quotient_tail_gen P w lhs1 rhs (length rhs) m (Z.b2z o) = r.
Proof.
  intros Hms Hw1 Hwr Hm HL. unfold dc_tail, dc_small_quotient_tail_gen, k_add_signed_mul. set (n := length rhs) in *.
  assert (Hwrem : wf (firstn n lhs1)) by (apply wf_firstn; exact Hw1).
  assert (Hwq : wf (skipn n lhs1)) by (apply wf_skipn; exact Hw1).
  assert (Hwrl : wf (firstn (n - m) rhs)) by (apply wf_firstn; exact Hwr).
  destruct (pmul_sub P (firstn n lhs1) (skipn n lhs1) (firstn (n - m) rhs)) as [rem1 ro] eqn:E3.
  destruct (Hms _ _ _ _ _ Hwrem Hwq Hwrl ltac:(rewrite !firstn_length_le, skipn_length by lia; lia) E3) as (Hwrem1 & Hlrem1 & _).
  rewrite firstn_length_le in Hlrem1 by lia.
  assert (Ho : negb (Z.b2z o =? 0) = o) by (destruct o; reflexivity). rewrite Ho.
  assert (Hstep : exists rem2 ro2, wf rem2 /\ length rem2 = n /\
     (if o then let '(t, b) := sub_same_len w (skipn m rem1) (firstn (n - m) rhs) in (firstn m rem1 ++ t, ro - b) else (rem1, ro)) = (rem2, ro2) /\
     (if o then let '(t, r1) := k_sub_same_len w (skipn m rem1) (firstn (n - m) rhs) in
               (firstn m rem1 ++ t, ro - b2z r1) else (rem1, ro)) = (rem2, ro2)).
  { destruct o.
    - rewrite k_sub_same_len_pair. destruct (sub_same_len w (skipn m rem1) (firstn (n - m) rhs)) as [t b] eqn:Es.
      assert (Hws : wf (skipn m rem1)) by (apply wf_skipn; exact Hwrem1).
      destruct (sub_same_len_spec w w_pos _ _ Hws Hwrl ltac:(rewrite skipn_length, firstn_length_le by lia; lia) _ _ Es) as (_ & Hwt & Hlt & Hb).
      rewrite skipn_length in Hlt. cbn [fst snd]. rewrite b2z_carry by assumption.
      exists (firstn m rem1 ++ t), (ro - b). repeat split.
      + apply wf_app. split; [|exact Hwt]. apply wf_firstn; exact Hwrem1.
      + rewrite app_length, firstn_length_le by lia. lia.
    - exists rem1, ro. repeat split; assumption. }
  destruct Hstep as (rem2 & ro2 & Hw2 & Hl2 & -> & ->).
  destruct (dc_fix_loop w dc_fix_fuel rem2 (skipn n lhs1) rhs ro2 (Z.b2z o)) as [[[[rem3 q3] ro3] qo3]| | |] eqn:Ef; cbn [rbind]; intros E; try discriminate.
  rewrite (dc_fix_while rhs Hwr dc_fix_fuel _ _ _ _ _ Hw2 Hwq ltac:(lia) Ef). cbn iota. congruence.
Qed.

End Gen.
