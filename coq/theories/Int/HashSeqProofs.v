(** C05, deepening round 4: theorems about the call sequence of Hash::hash (Int/HashSeqModel.v) and about the
    regenerated integer comparison bodies (DashuGen.HashGen), for every word size and both byte orders.
      - equal values (canonical representations) make IDENTICAL call sequences, hence leave ANY Hasher in the same state
        and give the same hash, whatever state it started from; same for RBig on reduced fractions;
      - the call sequence determines the value (no two values are forced to collide), words of a multiple of 8 bits;
      - the sequence DEPENDS ON THE WORD SIZE: for every non-zero value the sequences of two builds with different word
        sizes differ (the hash of a UBig is not stable across builds), and on the byte order;
      - the generated bodies (Repr::hash order, Sign discriminants, TypedReprRef::cmp with the Small < Large shortcut,
        IBig::cmp, the list of comparison impls) are the as-is models; UBig / IBig have no == / < against each other or
        against primitives, the mixed AbsEq / AbsOrd impls read magnitudes only. *)
From Dashu Require Import Base.Prelude Base.Words Int.ReprOrdModel Int.ReprOrdProofs Int.HashSeqModel.
From Dashu Require Int.IoSpec Int.IoBytes.
From Dashu Require Import Ratio.RatioOrdModel Ratio.RatioOrdProofs.
From DashuGen Require Import HashGen.
Open Scope Z_scope.

(* ---------------------------------------------------------------- lists of fixed-length chunks *)

Lemma app_inj_len {A} (x y a b : list A) : length x = length y -> x ++ a = y ++ b -> x = y /\ a = b.
Proof.
  revert y. induction x as [|h x IH]; intros [|k y] L E; cbn in *; try discriminate; [split; [reflexivity | exact E]|].
  inversion E as [[Eh Et]]. destruct (IH y ltac:(lia) Et) as [-> ->]. split; reflexivity.
Qed.

Lemma word_bytes_length le w x : length (word_bytes le w x) = Z.to_nat (w / 8).
Proof. unfold word_bytes. destruct le; [|rewrite rev_length]; apply IoBytes.le_bytes_n_length. Qed.

Lemma slice_bytes_length le w ws : length (slice_bytes le w ws) = (Z.to_nat (w / 8) * length ws)%nat.
Proof.
  induction ws as [|x ws IH]; [cbn; lia|]. unfold slice_bytes in *. cbn [flat_map length].
  rewrite app_length, word_bytes_length, IH. lia.
Qed.

Lemma rev_inj {A} (x y : list A) : rev x = rev y -> x = y.
Proof. intros E. rewrite <- (rev_involutive x), <- (rev_involutive y), E. reflexivity. Qed.

Section Bytes.
Variable w : Z.
Hypothesis w_pos : 0 < w.
Hypothesis w_bytes : w mod 8 = 0.
Notation B := (Words.B w).

Lemma pow256 : 256 ^ Z.of_nat (Z.to_nat (w / 8)) = B.
Proof.
  assert (0 <= w / 8) by (apply Z.div_pos; lia). rewrite Z2Nat.id by lia. change 256 with (2 ^ 8).
  rewrite <- Z.pow_mul_r by lia. unfold Words.B. f_equal. pose proof (Z.div_mod w 8 ltac:(lia)). lia.
Qed.

Lemma word_bytes_inj le x y : 0 <= x < B -> 0 <= y < B -> word_bytes le w x = word_bytes le w y -> x = y.
Proof.
  intros Hx Hy E. unfold word_bytes in E.
  assert (IoSpec.le_bytes_n (Z.to_nat (w / 8)) x = IoSpec.le_bytes_n (Z.to_nat (w / 8)) y) as E'
    by (destruct le; [exact E | apply rev_inj; exact E]).
  apply (f_equal IoSpec.le_value) in E'. rewrite !IoBytes.le_bytes_n_value, pow256 in E'.
  rewrite !Z.mod_small in E' by assumption. exact E'.
Qed.

Lemma slice_bytes_inj le xs : forall ys, Words.wf w xs -> Words.wf w ys -> length xs = length ys ->
  slice_bytes le w xs = slice_bytes le w ys -> xs = ys.
Proof.
  induction xs as [|x xs IH]; intros [|y ys] Wx Wy L E; cbn in L; try discriminate; [reflexivity|].
  unfold slice_bytes in E. cbn [flat_map] in E.
  apply app_inj_len in E; [|rewrite !word_bytes_length; reflexivity]. destruct E as [E1 E2].
  inversion Wx as [|? ? Hx Wx']; inversion Wy as [|? ? Hy Wy']; subst.
  rewrite (word_bytes_inj le x y Hx Hy E1). f_equal. apply IH; [assumption | assumption | lia | exact E2].
Qed.

End Bytes.

(* ---------------------------------------------------------------- equal values, identical calls *)

Section Seq.
Variable w : Z.
Hypothesis w_pos : 0 < w.

Theorem repr_hash_eq le a b : canonical w a -> canonical w b -> rvalue w a = rvalue w b ->
  repr_hash le w a = repr_hash le w b.
Proof.
  intros Ca Cb E. destruct (rvalue_inj w w_pos a b Ca Cb E) as [Es El].
  unfold repr_hash, hash_fields. cbn [flat_map field_calls app]. rewrite Es, El. reflexivity.
Qed.

(** ANY hasher (any state type, any three methods, any starting state - e.g. one that already absorbed a prefix):
    equal values leave it in the same state and finish with the same hash *)
Theorem any_hasher_agrees le a b : canonical w a -> canonical w b -> rvalue w a = rvalue w b ->
  forall (S : Type) (H : hasher S) (st : S),
    feed H st (repr_hash le w a) = feed H st (repr_hash le w b) /\
    h_finish H (feed H st (repr_hash le w a)) = h_finish H (feed H st (repr_hash le w b)).
Proof. intros Ca Cb E S H st. rewrite (repr_hash_eq le a b Ca Cb E). split; reflexivity. Qed.

(** the byte stream a hasher with the default write_usize / write_isize sees *)
Corollary byte_stream_eq le pw a b : canonical w a -> canonical w b -> rvalue w a = rvalue w b ->
  byte_stream le pw (repr_hash le w a) = byte_stream le pw (repr_hash le w b).
Proof. intros Ca Cb E. rewrite (repr_hash_eq le a b Ca Cb E). reflexivity. Qed.

(** the model of rounds 1-3 (hash_input: discriminant, length, words as integers) is this sequence before the
    encoding of the words as bytes *)
Theorem repr_hash_of_input le r :
  repr_hash le w r = match hash_input r with
                     | d :: n :: ws => [HWriteIsize d; HWriteUsize n; HWrite (slice_bytes le w ws)]
                     | _ => []
                     end.
Proof. reflexivity. Qed.

(** RBig: numerator, then denominator; equal values of reduced fractions make identical calls *)
Theorem rbig_hash_eq le na da nb db : canonical w na -> canonical w da -> canonical w nb -> canonical w db ->
  reduced (QR (rvalue w na) (rvalue w da)) -> reduced (QR (rvalue w nb) (rvalue w db)) ->
  qeq_spec (QR (rvalue w na) (rvalue w da)) (QR (rvalue w nb) (rvalue w db)) = true ->
  rbig_hash le w na da = rbig_hash le w nb db /\
  forall (S : Type) (H : hasher S) (st : S), feed H st (rbig_hash le w na da) = feed H st (rbig_hash le w nb db).
Proof.
  intros Cna Cda Cnb Cdb Ra Rb E. pose proof (rbig_hash_correct _ _ Ra Rb E) as HI.
  unfold rbig_hash_input in HI. cbn [qnum qden] in HI. inversion HI as [[En Ed]].
  assert (rbig_hash le w na da = rbig_hash le w nb db) as EQ.
  { unfold rbig_hash. rewrite (repr_hash_eq le na nb Cna Cnb En), (repr_hash_eq le da db Cda Cdb Ed). reflexivity. }
  split; [exact EQ|]. intros S H st. rewrite EQ. reflexivity.
Qed.

(** the sequence determines the value: words of whole bytes *)
Theorem repr_hash_inj le a b : w mod 8 = 0 -> canonical w a -> canonical w b ->
  repr_hash le w a = repr_hash le w b -> rvalue w a = rvalue w b.
Proof.
  intros W8 Ca Cb E. unfold repr_hash, hash_fields in E. cbn [flat_map field_calls app] in E.
  inversion E as [[Ed El Es]].
  destruct (slice_norm w a Ca) as [Wa _]. destruct (slice_norm w b Cb) as [Wb _].
  apply (slice_bytes_inj w w_pos W8 le) in Es; [|assumption|assumption|unfold len in El; lia].
  unfold rvalue. rewrite Es. f_equal. destruct (rsign a), (rsign b); cbn in Ed; try reflexivity; discriminate.
Qed.

End Seq.

(* ---------------------------------------------------------------- not stable across builds *)

Lemma nonzero_slice w r : 0 < w -> canonical w r -> rvalue w r <> 0 -> as_slice r <> [].
Proof. intros Hw C NZ E. apply NZ. unfold rvalue. rewrite E. cbn [Words.value]. unfold signed. lia. Qed.

(** two builds with different word sizes (both whole bytes): the call sequences of the SAME non-zero value differ,
    in either byte order - the hash of a UBig / IBig / RBig is not a cross-build constant *)
Theorem hash_depends_on_word_size le1 le2 w1 w2 a b : 0 < w1 -> 0 < w2 -> w1 mod 8 = 0 -> w2 mod 8 = 0 -> w1 <> w2 ->
  canonical w1 a -> canonical w2 b -> rvalue w1 a = rvalue w2 b -> rvalue w1 a <> 0 ->
  repr_hash le1 w1 a <> repr_hash le2 w2 b.
Proof.
  intros H1 H2 M1 M2 NE Ca Cb EV NZ E. unfold repr_hash, hash_fields in E. cbn [flat_map field_calls app] in E.
  inversion E as [[Ed El Es]]. apply (f_equal (@length Z)) in Es. rewrite !slice_bytes_length in Es.
  unfold len in El. apply Nat2Z.inj in El. rewrite El in Es.
  pose proof (nonzero_slice w2 b H2 Cb ltac:(rewrite <- EV; exact NZ)) as NB.
  assert (length (as_slice b) <> 0)%nat as LB by (destruct (as_slice b); [contradiction | cbn; lia]).
  assert (Z.to_nat (w1 / 8) = Z.to_nat (w2 / 8)) as Q by nia.
  pose proof (Z.div_mod w1 8 ltac:(lia)). pose proof (Z.div_mod w2 8 ltac:(lia)).
  assert (0 <= w1 / 8) by (apply Z.div_pos; lia). assert (0 <= w2 / 8) by (apply Z.div_pos; lia). lia.
Qed.

(** zero is the one value whose sequence is the same everywhere: isize 0, usize 0, an empty write *)
Theorem hash_of_zero le w r : 0 < w -> canonical w r -> rvalue w r = 0 ->
  repr_hash le w r = [HWriteIsize 0; HWriteUsize 0; HWrite []].
Proof.
  intros Hw C E. rewrite (repr_hash_eq w Hw le r (from_word 0) C); [reflexivity | | rewrite E; reflexivity].
  cbn. pose proof (Words.B_pos w Hw). repeat split; lia.
Qed.

(** ... and on the byte order (one word, 2^8 <= value): little and big endian targets feed different bytes *)
Example hash_depends_on_byte_order :
  repr_hash true 64 (from_word 256) = [HWriteIsize 0; HWriteUsize 1; HWrite [0; 1; 0; 0; 0; 0; 0; 0]] /\
  repr_hash false 64 (from_word 256) = [HWriteIsize 0; HWriteUsize 1; HWrite [0; 0; 0; 0; 0; 0; 1; 0]] /\
  repr_hash true 32 (from_dword 32 (2 ^ 32)) = [HWriteIsize 0; HWriteUsize 2; HWrite [0; 0; 0; 0; 1; 0; 0; 0]] /\
  repr_hash true 64 (from_word (2 ^ 32)) = [HWriteIsize 0; HWriteUsize 1; HWrite [0; 0; 0; 0; 1; 0; 0; 0]] /\
  byte_stream true 64 (repr_hash true 64 (flip (from_word 1)))
    = [1; 0; 0; 0; 0; 0; 0; 0] ++ [1; 0; 0; 0; 0; 0; 0; 0] ++ [1; 0; 0; 0; 0; 0; 0; 0].
Proof. repeat split. Qed.

(** non-vacuity of the any-hasher theorem: an FNV-like hasher over integers, 2^130 - 1 built inline-breaking two ways *)
Example any_hasher_example :
  let H := MkHasher Z (fun st bs => fold_left (fun s b => (s * 1099511628211 + b) mod 2 ^ 64) bs st)
                      (fun st n => (st * 31 + n) mod 2 ^ 64) (fun st n => (st * 37 + n) mod 2 ^ 64) (fun st => st) in
  let a := ones 64 130 in
  let b := from_buffer 64 9 [2 ^ 64 - 1; 2 ^ 64 - 1; 3; 0; 0] in
  canonical 64 a /\ canonical 64 b /\ rvalue 64 a = rvalue 64 b /\
  h_finish H (feed H 14695981039346656037 (repr_hash true 64 a)) = h_finish H (feed H 14695981039346656037 (repr_hash true 64 b)).
Proof.
  cbv zeta. assert (canonicalb 64 (ones 64 130) = true /\ canonicalb 64 (from_buffer 64 9 [2 ^ 64 - 1; 2 ^ 64 - 1; 3; 0; 0]) = true) as [A C]
    by (split; vm_compute; reflexivity).
  split; [apply (canonicalb_ok 64); exact A|]. split; [apply (canonicalb_ok 64); exact C|].
  split; vm_compute; reflexivity.
Qed.

(* ---------------------------------------------------------------- the regenerated bodies are the models *)

Theorem repr_hash_gen_is_model le w r : hash_fields le w r repr_hash_steps_gen = repr_hash le w r.
Proof. reflexivity. Qed.

Theorem sign_disc_gen_is_model s : sign_disc_gen s = sign_disc s.
Proof. destruct s; reflexivity. Qed.

(** UBig, IBig and Sign derive Hash, PartialEq and Eq (so == and hash of the wrappers are those of Repr) *)
Theorem int_derive_lists :
  (forall t, In t [TrHash; TrPartialEq; TrEq] -> In t ubig_derives_gen /\ In t ibig_derives_gen /\ In t sign_derives_gen) /\
  ~ In TrOrd ubig_derives_gen /\ ~ In TrOrd ibig_derives_gen /\ ~ In TrPartialOrd ubig_derives_gen /\ ~ In TrPartialOrd ibig_derives_gen /\
  repr_eq_views_gen = [VSignSlice; VSignSlice].
Proof.
  split; [intros t [<-|[<-|[<-|[]]]]; cbn; tauto|].
  assert (N : forall t l, existsb (cmp_trait_eqb t) l = false -> ~ In t l).
  { intros t l E I. assert (existsb (cmp_trait_eqb t) l = true); [|congruence]. apply existsb_exists. exists t. split; [exact I | destruct t; reflexivity]. }
  repeat split; try (apply N; reflexivity).
Qed.

Theorem typed_cmp_gen_is_model a b : typed_cmp_gen a b = typed_cmp a b.
Proof. destruct a, b; reflexivity. Qed.

Theorem ibig_cmp_gen_is_model w a b : ibig_cmp_gen w a b = ibig_cmp w a b.
Proof. unfold ibig_cmp_gen, ibig_cmp. destruct (rsign a), (rsign b); try reflexivity; apply typed_cmp_gen_is_model. Qed.

(** what integer/src/cmp.rs implements between UBig and IBig (finite table, regenerated): ==, <, cmp exist only between
    values of the SAME type and never against a primitive; every AbsOrd impl - same type or mixed - compares the two
    magnitudes as TypedReprRef (model: abs_cmp), every AbsEq impl the two magnitude slices or forwards to == of UBig
    (model: abs_eq); Ord for UBig compares the magnitudes as TypedReprRef (model: ubig_cmp) *)
Definition impl_ok (i : cmp_impl) : bool :=
  match ci_trait i with
  | TrPartialEq | TrEq | TrPartialOrd => itype_eqb (ci_self i) (ci_rhs i) && view_eqb (ci_lhs_view i) VWhole && view_eqb (ci_rhs_view i) VWhole
  | TrOrd => itype_eqb (ci_self i) (ci_rhs i) &&
             (match ci_self i with
              | TUBig => view_eqb (ci_lhs_view i) VMagTyped && view_eqb (ci_rhs_view i) VMagTyped
              | _ => view_eqb (ci_lhs_view i) VWhole && view_eqb (ci_rhs_view i) VWhole
              end)
  | TrAbsOrd => negb (itype_eqb (ci_rhs i) TOther) && view_eqb (ci_lhs_view i) VMagTyped && view_eqb (ci_rhs_view i) VMagTyped
  | TrAbsEq => negb (itype_eqb (ci_rhs i) TOther) &&
               ((view_eqb (ci_lhs_view i) VMagSlice && view_eqb (ci_rhs_view i) VMagSlice) ||
                (itype_eqb (ci_self i) TUBig && itype_eqb (ci_rhs i) TUBig && view_eqb (ci_lhs_view i) VWhole && view_eqb (ci_rhs_view i) VWhole))
  | TrHash => false
  end.

Definition has_impl (t : cmp_trait) (s r : itype) : bool :=
  existsb (fun i => cmp_trait_eqb (ci_trait i) t && itype_eqb (ci_self i) s && itype_eqb (ci_rhs i) r) int_cmp_impls_gen.

Theorem int_cmp_impl_table :
  forallb impl_ok int_cmp_impls_gen = true /\
  (* the four AbsOrd and the four AbsEq pairs exist, Ord / PartialOrd for both types *)
  forallb (fun sr => has_impl TrAbsOrd (fst sr) (snd sr) && has_impl TrAbsEq (fst sr) (snd sr))
          [(TUBig, TUBig); (TIBig, TIBig); (TIBig, TUBig); (TUBig, TIBig)] = true /\
  forallb (fun t => has_impl TrOrd t t && has_impl TrPartialOrd t t) [TUBig; TIBig] = true /\
  (* no mixed or primitive ==, <, cmp *)
  forallb (fun t => negb (has_impl t TUBig TIBig) && negb (has_impl t TIBig TUBig) && negb (has_impl t TUBig TOther) && negb (has_impl t TIBig TOther))
          [TrPartialEq; TrEq; TrPartialOrd; TrOrd] = true /\
  cmp_in_place_shape_gen = 1.
Proof. repeat split; vm_compute; reflexivity. Qed.
