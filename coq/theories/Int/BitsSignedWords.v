(** C09 (round 4): the IBig bit-operator tables CLOSED AT WORD LEVEL.  Int/BitsKernels.v takes `sub_one()`, the final
    `!` (Not for IBig: add_one / sub_one + with_sign) and the `-q - b` of Shr for IBig at value level ("C01's subject").
    Here they are the word-level models of C01 themselves: add::add_one_in_place / sub_one_in_place (Int/RingAdd.v),
    add_ops.rs add_dword / repr_add / ibig_sub (Int/RingOps.v), Repr::with_sign / neg - so that a whole IBig & | ^ ! >>
    is one executable function from (sign, words) to (sign, words).  Definitions only (extracted into the oracle);
    proofs, which CITE C01's theorems, in BitsSignedWordsProofs.v. *)
From Dashu Require Import Base.Prelude Base.Words Int.RingAdd Int.BitsSpec Int.BitsWords Int.BitsKernels.
From Dashu Require Int.RingOps.
Open Scope Z_scope.

(** C01's typed view of a Repr and C09's are the same data *)
Definition t_of_b (r : brepr) : RingOps.trepr := match r with BSmall d => RingOps.Small d | BLarge ws => RingOps.Large ws end.
Definition b_of_t (r : RingOps.trepr) : brepr := match r with RingOps.Small d => BSmall d | RingOps.Large ws => BLarge ws end.

Section SignedWords.
Variable w : Z.

(** add_ops.rs add_large_one / sub_large_one (`debug_assert!(!overflow)`: the magnitude is not zero) *)
Definition add_large_one (buf : list Z) : brepr :=
  let '(r, c) := add_one_in_place w buf in from_buffer w (if c then r ++ [1] else r).
Definition sub_large_one (buf : list Z) : brepr := from_buffer w (fst (sub_one_in_place w buf)).

(** TypedRepr::add_one / sub_one (and the TypedReprRef forms: `buffer.into()` copies the same words) *)
Definition repr_add_one (r : brepr) : brepr :=
  match r with BSmall d => b_of_t (RingOps.add_dword w d 1) | BLarge b => add_large_one b end.
Definition repr_sub_one (r : brepr) : brepr :=
  match r with BSmall d => from_dword (d - 1) | BLarge b => sub_large_one b end.

(** Repr::with_sign: zero stays positive *)
Definition with_sign_b (s : sign) (r : brepr) : sign * brepr :=
  match r with BSmall 0 => (Positive, r) | _ => (s, r) end.
Definition sval (x : sign * brepr) : Z := signed (fst x) (bvalue w (snd x)).

(** bits.rs `impl Not for IBig` / `&IBig` *)
Definition ibig_not_words (s : sign) (r : brepr) : sign * brepr :=
  match s with
  | Positive => with_sign_b Negative (repr_add_one r)
  | Negative => with_sign_b Positive (repr_sub_one r)
  end.

(** impl_ibig_bitand / impl_ibig_bitor / impl_ibig_bitxor, every step on words *)
Definition ibig_bitand_words (o : bown) (s0 : sign) (r0 : brepr) (s1 : sign) (r1 : brepr) : sign * brepr :=
  match s0, s1 with
  | Positive, Positive => (Positive, repr_bitand w o r0 r1)
  | Positive, Negative => (Positive, repr_and_not w r0 (repr_sub_one r1))
  | Negative, Positive => (Positive, repr_and_not w r1 (repr_sub_one r0))
  | Negative, Negative => ibig_not_words Positive (repr_bitor w VV (repr_sub_one r0) (repr_sub_one r1))
  end.
Definition ibig_bitor_words (o : bown) (s0 : sign) (r0 : brepr) (s1 : sign) (r1 : brepr) : sign * brepr :=
  match s0, s1 with
  | Positive, Positive => (Positive, repr_bitor w o r0 r1)
  | Positive, Negative => ibig_not_words Positive (repr_and_not w (repr_sub_one r1) r0)
  | Negative, Positive => ibig_not_words Positive (repr_and_not w (repr_sub_one r0) r1)
  | Negative, Negative => ibig_not_words Positive (repr_bitand w VV (repr_sub_one r0) (repr_sub_one r1))
  end.
Definition ibig_bitxor_words (o : bown) (s0 : sign) (r0 : brepr) (s1 : sign) (r1 : brepr) : sign * brepr :=
  match s0, s1 with
  | Positive, Positive => (Positive, repr_bitxor w o r0 r1)
  | Positive, Negative => ibig_not_words Positive (repr_bitxor w (own_rhs_val o) r0 (repr_sub_one r1))
  | Negative, Positive => ibig_not_words Positive (repr_bitxor w (own_lhs_val o) (repr_sub_one r0) r1)
  | Negative, Negative => (Positive, repr_bitxor w VV (repr_sub_one r0) (repr_sub_one r1))
  end.

(** shift_ops.rs Shr<usize> for IBig: `-IBig(mag >> rhs) - IBig::from(b)`: Repr::neg, then C01's IBig subtraction
    (impl_ibig_sub: (Negative, Positive) => -(mag0 + mag1); a zero quotient is Positive: 0 - b through sub_signed) *)
Definition ibig_shr_words (by_ref : bool) (s : sign) (r : brepr) (n : Z) : result (sign * brepr) :=
  let q := if by_ref then repr_shr_ref w r n else repr_shr w r n in
  match s with
  | Positive => Ok (Positive, q)
  | Negative =>
      let b := are_low_bits_nonzero w r n in
      let '(sq, tq) := RingOps.neg (Positive, t_of_b q) in
      match RingOps.ibig_sub_asis w RingOps.OVV sq tq Positive (RingOps.Small (Z.b2z b)) with
      | Ok (s', t) => Ok (s', b_of_t t)
      | Panic p => Panic p | Err e => Err e | OutOfFuel => OutOfFuel
      end
  end.

End SignedWords.
