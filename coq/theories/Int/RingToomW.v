(** C01 (L0): word-level as-is model of toom_3::add_signed_mul_same_len - the slice bookkeeping of
    toom_3.rs transcribed step by step: the scratch buffers t1, t2, a_eval, b_eval, c_eval, every
    in-place addition into a slice of c with its deferred carry (carry_c0 .. carry_c3, carry), the
    evaluation at 2 by add_mul_word, at 1 / -1 through a02 / b02 and sub_in_place_with_sign, the
    debug_assert_zero!s as panics.  The two calls into other modules -
    div::div_by_word_in_place(t1, 6) and shift::shr_in_place(t2, 1) - are parameters [div6] / [shr1] of
    [toom3g_same_len] (word list -> (quotient words, remainder)); their remainders are asserted to be 0 as
    in the code.  [toom3w_same_len] instantiates them by value, Int/RingMulW.v by the word-level models of
    div/mod.rs and shift.rs (Int/DivWordModel.v).  Definitions only. *)
From Dashu Require Import Base.Prelude Base.Words Int.RingAdd Int.RingMul.
Open Scope Z_scope.

Section ToomW.
Variable w : Z.
Notation BB := (B w).

(** mul::add_mul_word_in_place: rhs may be shorter than words *)
Definition add_mul_word_in_place (ws : list Z) (mult : Z) (rhs : list Z) : list Z * Z :=
  if mult =? 0 then (ws, 0)
  else
    let n := length rhs in
    let '(lo, carry) := add_mul_word_same_len_in_place w (firstn n ws) mult rhs in
    if (n <? length ws)%nat then
      let '(hi, c) := add_word_in_place w (skipn n ws) carry in (lo ++ hi, b2z c)
    else (lo ++ skipn n ws, carry).

(** a_eval = x0 + 2 x1 + 4 x2 in (len x0 + 1) words *)
Definition eval2 (x0 x1 x2 : list Z) : list Z :=
  let '(lo, c1) := add_mul_word_same_len_in_place w x0 2 x1 in
  let '(lo', c2) := add_mul_word_in_place lo 4 x2 in
  lo' ++ [c1 + c2].

(** a02 = x0 + x2 in (len x0 + 1) words *)
Definition eval02 (x0 x2 : list Z) : list Z :=
  let '(lo, cr) := add_in_place w x0 x2 in lo ++ [b2z cr].

(** a_eval = a02 + x1 (a_eval[n3] += carry) *)
Definition eval1 (x02 x1 : list Z) (n3 : nat) : list Z :=
  let '(lo, cr) := add_same_len_in_place w (firstn n3 x02) x1 in lo ++ [nth n3 x02 0 + b2z cr].

Definition toom3g_same_len (div6 shr1 : list Z -> list Z * Z) (rec_same : mulfn) : mulfn := fun c s a b =>
  let n := length a in
  let n3 := ((n + 2) / 3)%nat in
  let n3s := (n - 2 * n3)%nat in
  let a0 := firstn n3 a in let a1 := slice n3 n3 a in let a2 := skipn (2 * n3) a in
  let b0 := firstn n3 b in let b1 := slice n3 n3 b in let b2 := skipn (2 * n3) b in
  let m := (2 * n3 + 2)%nat in
  (* V(0) = a0 * b0 into t1[..2 n3]; c_0 += V(0), c_2 -= V(0); t1 = 3 V(0) *)
  rbind (assert_zero (rec_same (repeat 0 (2 * n3)) Positive a0 b0)) (fun t1s =>
  let '(x, carry_c0) := add_signed_same_len_in_place w (slice 0 (2 * n3) c) s t1s in
  let c := splice 0 x c in
  let '(x, k) := add_signed_in_place w (slice (2 * n3) m c) (sign_neg s) t1s in
  let c := splice (2 * n3) x c in
  let carry_c2 := k in
  let '(t1s3, cw) := mul_word_in_place w t1s 3 in
  let t1 := t1s3 ++ [cw; 0] in
  (* t1 += V(2) *)
  let a_eval := eval2 a0 a1 a2 in
  let b_eval := eval2 b0 b1 b2 in
  rbind (assert_zero (rec_same t1 Positive a_eval b_eval)) (fun t1 =>
  (* V(inf) = a2 * b2; c_2 -= V(inf), c_4 += V(inf); t1 -= 12 V(inf) *)
  rbind (assert_zero (rec_same (repeat 0 (2 * n3s)) Positive a2 b2)) (fun c_short =>
  let '(x, k) := add_signed_in_place w (slice (2 * n3) m c) (sign_neg s) c_short in
  let c := splice (2 * n3) x c in
  let carry_c2 := carry_c2 + k in
  let '(x, carry) := add_signed_same_len_in_place w (slice (4 * n3) (length c - 4 * n3) c) s c_short in
  let c := splice (4 * n3) x c in
  let '(cs12, cw) := mul_word_in_place w c_short 12 in
  let '(t1, borrow) := sub_in_place w t1 (cs12 ++ [cw]) in
  if (borrow : bool) then Panic Undocumented else
  (* V(1): t2 = (a0 + a2 + a1) * (b0 + b2 + b1); c_1 += V(1) *)
  let a02 := eval02 a0 a2 in
  let b02 := eval02 b0 b2 in
  let a_eval := eval1 a02 a1 n3 in
  let b_eval := eval1 b02 b1 n3 in
  rbind (assert_zero (rec_same (repeat 0 m) Positive a_eval b_eval)) (fun t2 =>
  let '(x, carry_c1) := add_signed_in_place w (slice n3 m c) s t2 in
  let c := splice n3 x c in
  (* V(-1) with its sign *)
  let '(a_eval, sa) := sub_in_place_with_sign w a02 a1 in
  let '(b_eval, sb) := sub_in_place_with_sign w b02 b1 in
  let vs := sign_mul sa sb in
  rbind (assert_zero (rec_same (repeat 0 (2 * (n3 + 1))) Positive a_eval b_eval)) (fun c_eval =>
  (* t2 = V(1) + V(-1); t1 += 2 V(-1) *)
  let '(t2, k) := add_signed_same_len_in_place w t2 vs c_eval in
  if negb (k =? 0) then Panic Undocumented else
  let '(t1, k) := match vs with
                  | Positive => add_mul_word_same_len_in_place w t1 2 c_eval
                  | Negative => sub_mul_word_same_len_in_place w t1 2 c_eval
                  end in
  if negb (k =? 0) then Panic Undocumented else
  (* t1 /= 6, t2 >>= 1: assert_eq!(t1_rem, 0); assert_eq!(t2_rem, 0) *)
  let '(t1, t1_rem) := div6 t1 in
  let '(t2, t2_rem) := shr1 t2 in
  if negb (t1_rem =? 0) || negb (t2_rem =? 0) then Panic Undocumented else
  (* interpolation into c *)
  let '(x, k) := add_signed_same_len_in_place w (slice n3 m c) (sign_neg s) t1 in
  let c := splice n3 x c in
  let carry_c1 := carry_c1 + k in
  let '(x, carry_c3) := add_signed_same_len_in_place w (slice (3 * n3) m c) s t1 in
  let c := splice (3 * n3) x c in
  let '(x, k) := add_signed_same_len_in_place w (slice (2 * n3) m c) s t2 in
  let c := splice (2 * n3) x c in
  let carry_c2 := carry_c2 + k in
  let '(x, k) := add_signed_same_len_in_place w (slice (3 * n3) m c) (sign_neg s) t2 in
  let c := splice (3 * n3) x c in
  let carry_c3 := carry_c3 + k in
  (* the deferred carries *)
  let '(x, k) := add_signed_word_in_place w (slice (2 * n3) (n3 + 2) c) carry_c0 in
  let c := splice (2 * n3) x c in
  let carry_c1 := carry_c1 + k in
  let '(x, k) := add_signed_word_in_place w (slice (3 * n3 + 2) n3 c) carry_c1 in
  let c := splice (3 * n3 + 2) x c in
  let carry_c2 := carry_c2 + k in
  let '(x, k) := add_signed_word_in_place w (slice (4 * n3 + 2) n3 c) carry_c2 in
  let c := splice (4 * n3 + 2) x c in
  let carry_c3 := carry_c3 + k in
  let '(x, k) := add_signed_word_in_place w (slice (5 * n3 + 2) (length c - (5 * n3 + 2)) c) carry_c3 in
  let c := splice (5 * n3 + 2) x c in
  Ok (c, carry + k)))))).

(** the two foreign calls by their value: quotient in the same number of words, remainder *)
Definition div_small_by_value (k : Z) (t : list Z) : list Z * Z :=
  (to_words w (length t) (value w t / k), value w t mod k).

Definition toom3w_same_len : mulfn -> mulfn := toom3g_same_len (div_small_by_value 6) (div_small_by_value 2).

End ToomW.

(** sanity: the word-level model and the value-level model of RingMul.v agree on a 16-word
    instance (8-bit words, schoolbook below), both signs, accumulator near the top *)
Definition tw_a : list Z := [255; 254; 1; 0; 77; 128; 255; 255; 3; 200; 13; 0; 0; 255; 17; 201].
Definition tw_b : list Z := [255; 255; 255; 255; 255; 0; 1; 2; 250; 99; 255; 255; 1; 0; 0; 128].
Definition tw_c : list Z := to_words 8 32 (2 ^ 256 - 98765).
Definition tw_rec : mulfn := add_signed_mul_same_len 8 24 192.

Example toom3w_agrees_with_value_model :
  toom3w_same_len 8 tw_rec tw_c Positive tw_a tw_b = toom3_same_len 8 tw_rec tw_c Positive tw_a tw_b /\
  toom3w_same_len 8 tw_rec tw_c Negative tw_a tw_b = toom3_same_len 8 tw_rec tw_c Negative tw_a tw_b /\
  toom3w_same_len 8 tw_rec (repeat 0 32) Positive tw_b tw_b = toom3_same_len 8 tw_rec (repeat 0 32) Positive tw_b tw_b /\
  exists r k, toom3w_same_len 8 tw_rec tw_c Negative tw_a tw_b = Ok (r, k).
Proof. vm_compute. repeat split; try reflexivity. eexists _, _. reflexivity. Qed.
