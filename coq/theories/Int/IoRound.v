(** C07: the text grammar and the print/parse round trip, at the level of the specification.
    - [body_spec] accepts exactly the grammar [body_rel] (digits below the radix in either case,
      underscores anywhere, at least one digit) and returns the positional value; everything else is
      an error, never a number;
    - the printed text of n (either case) parses back to n, and so does every decoration of it
      (underscores, leading zeros, mixed case); with sign: from_str_radix (in_radix text) = v. *)
From Dashu Require Import Base.Prelude Int.IoSpec Int.IoDigits.
Open Scope Z_scope.

(* ---------------------------------------------------------------- grammar *)
Lemma body_digits_rel r s : forall ds, body_digits r s = Some ds <-> body_rel r s ds.
Proof.
  induction s as [|c t IH]; intros ds; cbn [body_digits].
  - split; [intros H; inversion H; constructor | intros H; inversion H; reflexivity].
  - destruct (Z.eqb_spec c 95) as [->|NE].
    + rewrite IH. split; [intros H; constructor; exact H|].
      intros H. inversion H as [| |? d ? ds' Hc]; subst; [assumption | contradiction Hc; reflexivity].
    + split.
      * destruct (digit_from_ascii r c) as [d|] eqn:Ed; [|discriminate].
        destruct (body_digits r t) as [ds'|] eqn:Et; [|discriminate].
        intros H. inversion H; subst. constructor; [exact NE | exact Ed | apply IH; reflexivity].
      * intros H. inversion H as [|? ? Hr|? d ? ds' Hc Hd Hr]; subst; [contradiction NE; reflexivity|].
        rewrite Hd. apply IH in Hr. rewrite Hr. reflexivity.
Qed.

(** accepted => in the grammar, with at least one digit, and the value is the positional one *)
Theorem body_spec_ok r s n : body_spec r s = Ok n ->
  exists ds, body_rel r s ds /\ ds <> [] /\ n = digits_value r ds.
Proof.
  unfold body_spec. destruct (body_digits r s) as [ds|] eqn:E; [|discriminate].
  destruct ds as [|d ds']; [discriminate|]. intros H. inversion H.
  exists (d :: ds'). split; [apply body_digits_rel; exact E | split; [discriminate | reflexivity]].
Qed.

(** in the grammar with a digit => accepted with that value (the relation is functional) *)
Theorem body_spec_complete r s ds : body_rel r s ds -> ds <> [] -> body_spec r s = Ok (digits_value r ds).
Proof.
  intros H Hne. apply body_digits_rel in H. unfold body_spec. rewrite H. destruct ds; [contradiction | reflexivity].
Qed.

(** malformed text is an error: the two error kinds and nothing else *)
Theorem body_spec_err r s : (exists n, body_spec r s = Ok n) \/
  (body_spec r s = Err E_NoDigits /\ body_rel r s []) \/
  (body_spec r s = Err E_InvalidDigit /\ forall ds, ~ body_rel r s ds).
Proof.
  unfold body_spec. destruct (body_digits r s) as [ds|] eqn:E.
  - destruct ds as [|d ds']; [right; left | left; eexists; reflexivity].
    split; [reflexivity | apply body_digits_rel; exact E].
  - right; right. split; [reflexivity|]. intros ds H. apply body_digits_rel in H. congruence.
Qed.

(* ---------------------------------------------------------------- digit characters *)
Lemma digit_char_parse r upper d : r <= 36 -> 0 <= d < r -> digit_from_ascii r (digit_char upper d) = Some d.
Proof.
  intros Hr Hd. unfold digit_from_ascii, digit_of_char, digit_char.
  destruct (Z.ltb_spec d 10); [|destruct upper];
  repeat match goal with |- context [?a <=? ?b] => destruct (Z.leb_spec a b); try lia end; cbn [andb];
  match goal with |- context [?a <? r] => destruct (Z.ltb_spec a r); [f_equal; lia | lia] end.
Qed.

Lemma digit_char_range upper d : 0 <= d < 36 -> 48 <= digit_char upper d <= 122 /\ digit_char upper d <> 95.
Proof. intros Hd. unfold digit_char. destruct (Z.ltb_spec d 10); [|destruct upper]; lia. Qed.

Lemma printed_rel r upper ds : r <= 36 -> Forall (fun d => 0 <= d < r) ds ->
  body_rel r (map (digit_char upper) ds) ds.
Proof.
  intros Hr. induction ds as [|d t IH]; intros H; cbn [map]; [constructor|].
  inversion H as [|? ? Hd Ht]; subst. constructor; [apply digit_char_range; lia | apply digit_char_parse; lia | apply IH; exact Ht].
Qed.

(* ---------------------------------------------------------------- round trip *)
Section Round.
Variable r : Z.
Hypothesis r_lo : 2 <= r.
Hypothesis r_hi : r <= 36.

Lemma value_leading_zeros k ds : digits_value r (repeat 0 k ++ ds) = digits_value r ds.
Proof.
  induction k as [|k IH]; [reflexivity|]. cbn [repeat app]. rewrite (value_cons r), IH. lia.
Qed.

Lemma digits_spec_nonempty n : digits_spec r n <> [].
Proof.
  unfold digits_spec. destruct (Z.leb_spec n 0); [discriminate|].
  destruct (digits_fuel_head r r_lo (Z.to_nat (Z.log2 n + 1)) n []) as (d & t & E & _).
  - split; [lia | apply log2_fuel; lia].
  - rewrite E. discriminate.
Qed.

(** the printed digits (lower or upper case) are in the grammar and denote n *)
Theorem print_in_grammar upper n : 0 <= n -> body_rel r (digit_text upper r n) (digits_spec r n).
Proof. intros Hn. apply printed_rel; [exact r_hi | apply digits_spec_range; assumption]. Qed.

Theorem parse_print upper n : 0 <= n -> body_spec r (digit_text upper r n) = Ok n.
Proof.
  intros Hn. rewrite (body_spec_complete r _ (digits_spec r n)).
  - rewrite digits_spec_value by assumption. reflexivity.
  - apply print_in_grammar. exact Hn.
  - apply digits_spec_nonempty.
Qed.

(** any decoration: a text whose digit sequence is the printed digits behind any number of leading
    zeros - with underscores anywhere and letters in either case - parses to n *)
Theorem parse_decorated n s k : 0 <= n -> body_rel r s (repeat 0 k ++ digits_spec r n) -> body_spec r s = Ok n.
Proof.
  intros Hn H. rewrite (body_spec_complete r s _ H).
  - rewrite value_leading_zeros, digits_spec_value by assumption. reflexivity.
  - intros E. apply app_eq_nil in E. destruct E as [_ E]. exact (digits_spec_nonempty n E).
Qed.

Lemma strip_sign_digit b c t : 48 <= c -> strip_sign b (c :: t) = (Positive, c :: t).
Proof.
  intros Hc. unfold strip_sign. destruct c as [|p|p]; try lia.
  repeat (destruct p as [p|p|]; try reflexivity; try lia).
Qed.

Lemma digit_text_head upper n : 0 <= n -> exists c t, digit_text upper r n = c :: t /\ 48 <= c.
Proof.
  intros Hn. unfold digit_text. pose proof (digits_spec_range r r_lo n Hn) as Hr.
  destruct (digits_spec r n) as [|d t] eqn:E; [exfalso; exact (digits_spec_nonempty n E)|].
  inversion Hr as [|? ? Hd _]; subst. exists (digit_char upper d), (map (digit_char upper) t). split; [reflexivity|].
  apply digit_char_range. lia.
Qed.

Lemma radix_valid_r : radix_valid r = true.
Proof. unfold radix_valid. apply andb_true_intro. split; apply Z.leb_le; lia. Qed.

(** IBig: in_radix text (with or without '+' / '#', no padding) parsed by from_str_radix gives the
    number back; a negative number is '-' then the magnitude *)
Theorem from_str_radix_roundtrip f v t : f_width f = None ->
  fmt_spec (KInRadix r) f v = Ok t -> from_str_radix_spec true r t = Ok v.
Proof.
  intros Hw. unfold fmt_spec. cbn [kind_radix kind_prefix kind_upper]. rewrite radix_valid_r.
  unfold pad_integral_spec. rewrite Hw. intros H. injection H as <-.
  replace (if f_alt f then [] else []) with (@nil Z) by (destruct (f_alt f); reflexivity). cbn [app].
  unfold from_str_radix_spec, from_str_radix_gen. rewrite radix_valid_r.
  destruct (digit_text_head (f_alt f) (Z.abs v) ltac:(lia)) as (c & tl & E & Hc).
  pose proof (parse_print (f_alt f) (Z.abs v) ltac:(lia)) as Hp.
  destruct (Z.leb_spec 0 v) as [Hpos|Hneg]; cbn [negb].
  - destruct (f_plus f); cbn [app].
    + cbn [strip_sign]. rewrite Hp. cbn [rmap rbind]. f_equal. unfold signed, sgnz. lia.
    + rewrite E, strip_sign_digit by exact Hc. rewrite <- E, Hp. cbn [rmap rbind]. f_equal. unfold signed, sgnz. lia.
  - cbn [app strip_sign]. rewrite Hp. cbn [rmap rbind]. f_equal. unfold signed, sgnz. lia.
Qed.

(** UBig: the same without a sign *)
Theorem from_str_radix_roundtrip_unsigned f v t : 0 <= v -> f_width f = None -> f_plus f = false ->
  fmt_spec (KInRadix r) f v = Ok t -> from_str_radix_spec false r t = Ok v.
Proof.
  intros Hv Hw Hpl. unfold fmt_spec. cbn [kind_radix kind_prefix kind_upper]. rewrite radix_valid_r.
  unfold pad_integral_spec. rewrite Hw, Hpl. intros H. injection H as <-.
  replace (if f_alt f then [] else []) with (@nil Z) by (destruct (f_alt f); reflexivity).
  destruct (Z.leb_spec 0 v); [|lia]. cbn [negb app].
  unfold from_str_radix_spec, from_str_radix_gen. rewrite radix_valid_r.
  destruct (digit_text_head (f_alt f) (Z.abs v) ltac:(lia)) as (c & tl & E & Hc).
  rewrite E, strip_sign_digit by exact Hc. rewrite <- E, parse_print by lia.
  cbn [rmap rbind]. f_equal. unfold signed, sgnz. lia.
Qed.

End Round.

(** Binary / Octal / LowerHex / UpperHex text with '#' (0b / 0o / 0x prefix), with or without sign and
    '+': from_str_with_radix_prefix returns the number and the radix of the prefix *)
Definition std_kind (k : fkind) : bool := match k with KBinary | KOctal | KLowerHex | KUpperHex => true | _ => false end.

Theorem from_str_prefix_roundtrip k f v t default : std_kind k = true -> f_alt f = true -> f_width f = None ->
  fmt_spec k f v = Ok t -> from_str_prefix_spec true default t = Ok (v, kind_radix k).
Proof.
  intros Hk Ha Hw. unfold fmt_spec.
  assert (Hr : 2 <= kind_radix k <= 36) by (destruct k; try discriminate; cbn; lia).
  rewrite (radix_valid_r (kind_radix k)) by lia.
  unfold pad_integral_spec. rewrite Hw, Ha. intros H. injection H as <-.
  unfold from_str_prefix_spec, from_str_prefix_gen.
  pose proof (parse_print (kind_radix k) ltac:(lia) ltac:(lia) (kind_upper k f) (Z.abs v) ltac:(lia)) as Hp.
  set (dt := digit_text (kind_upper k f) (kind_radix k) (Z.abs v)) in *.
  assert (Hpre : forall b, strip_radix_prefix default (kind_prefix k ++ b) = (kind_radix k, b))
    by (intros b; destruct k; try discriminate; reflexivity).
  assert (Hsign : forall b, strip_sign true (kind_prefix k ++ b) = (Positive, kind_prefix k ++ b))
    by (intros b; destruct k; try discriminate; reflexivity).
  destruct (Z.leb_spec 0 v); cbn [negb].
  - destruct (f_plus f); cbn [app].
    + cbn [strip_sign]. rewrite Hpre, Hp. cbn [rmap rbind]. f_equal. f_equal. unfold signed, sgnz. lia.
    + rewrite Hsign, Hpre, Hp. cbn [rmap rbind]. f_equal. f_equal. unfold signed, sgnz. lia.
  - cbn [app strip_sign]. rewrite Hpre, Hp. cbn [rmap rbind]. f_equal. f_equal. unfold signed, sgnz. lia.
Qed.

(** non-vacuity / concrete instances *)
Example parse_decorated_example :
  body_spec 16 [48; 48; 95; 70; 102; 95] = Ok 255 /\ body_rel 16 [48; 48; 95; 70; 102; 95] (repeat 0 2 ++ digits_spec 16 255).
Proof.
  split; [vm_compute; reflexivity|]. apply body_digits_rel. vm_compute. reflexivity.
Qed.

Example roundtrip_example :
  fmt_spec (KInRadix 36) (mkflags false true false None None [32]) (- 46655) = Ok [45; 90; 90; 90] /\
  from_str_radix_spec true 36 [45; 90; 90; 90] = Ok (- 46655).
Proof. split; vm_compute; reflexivity. Qed.

Example malformed_examples :
  body_spec 10 [95] = Err E_NoDigits /\ body_spec 10 [] = Err E_NoDigits /\ body_spec 10 [49; 97] = Err E_InvalidDigit /\
  from_str_radix_spec true 10 [45; 43; 49] = Err E_InvalidDigit /\ from_str_radix_spec false 10 [45; 49] = Err E_InvalidDigit /\
  from_str_radix_spec true 37 [49] = Err E_UnsupportedRadix.
Proof. repeat split; vm_compute; reflexivity. Qed.

Example prefix_roundtrip_example :
  fmt_spec KUpperHex (mkflags true true false None None [32]) 48879 = Ok [43; 48; 120; 66; 69; 69; 70] /\
  from_str_prefix_spec true 10 [43; 48; 120; 66; 69; 69; 70] = Ok (48879, 16).
Proof. split; vm_compute; reflexivity. Qed.
