(** C17 (round 4) - proofs about the storage machine of StorageOps3.v, part 2: the bit operations of IBig with negative
    operands (sign tables over sub_one / add_one / and_not and the magnitude routines), IBig shifts (>> of a negative
    value is a shift, a negation and a signed subtraction), the power-of-two and chunk parsers (the estimated buffer is
    never too small; an invalid digit drops the buffer), to_chunks / from_chunks.  For every word size w > 0,
    MAX_CAPACITY >= 8, every operand and every text. *)
From Dashu Require Import Base.Prelude Base.Words Int.StorageModel Int.StorageProofs Int.StorageArith Int.StorageHistory
  Int.StorageOps2 Int.StorageOps2Proofs Int.StorageOps3 Int.StorageOps3Proofs.
From DashuGen Require Import StorageGen StorageGen4.
From Coq Require Import Permutation.
Open Scope Z_scope.

Section Ops3Bits.
Variable w : Z.
Variable M : Z.
Hypothesis w_pos : 0 < w.
Hypothesis M_big : 8 <= M.

Notation ReprInv := (ReprInv M).
Notation BufOK := (BufOK M).
Notation RQ := (RQ M).
Notation OQ := (OQ M).
Notation TargInv := (TargInv M).

Ltac lens := cbn [setws bws bcap bptr];
  repeat (rewrite len_app || rewrite len_cons || (rewrite len_repeat by lia) || (rewrite (len_tow' w) by lia)); lnil.

(* ------------------------------------------------------------------ add_one, sub_one, and_not *)
Lemma wp_add_large_one b F m Q : Own (bblk b :: F) m -> BufOK b -> RQ F Q -> safe (add_large_one w M b) m Q.
Proof.
  intros HO HB HQ. unfold add_large_one. cbv zeta. pose proof (len_nonneg (bws b)) as L0.
  assert (BufOK (setws b (tow w (len (bws b)) (val w (bws b) + 1)))) as HB'.
  { apply BufOK_setws; [exact HB|]. lens. destruct HB; lia. }
  apply safe_bind. destruct (_ =? 0).
  - apply safe_ret. eapply (wp_fb w M M_big); eauto.
  - eapply (wp_presize M M_big); [exact HO | exact HB' |]. intros b2 m2 HO2 HB2. eapply (wp_fb w M M_big); eauto.
Qed.

Theorem wp_add_one a F m Q : Own (tblks a ++ F) m -> TargInv a -> RQ F Q -> safe (add_one w M a) m Q.
Proof.
  intros HO Ha HQ. destruct a as [d|b|d|ws]; cbn [add_one tblks app TargInv] in *.
  - eapply (wp_add_dword w M M_big); eauto.
  - destruct Ha as [HB _]. eapply wp_add_large_one; eauto.
  - eapply (wp_add_dword w M M_big); eauto.
  - apply safe_bind. eapply (wp_bfrom M M_big); [exact HO|]. intros b m1 HO1 E1 HB1. eapply wp_add_large_one; eauto.
Qed.

Theorem wp_sub_one a F m Q : Own (tblks a ++ F) m -> TargInv a -> RQ F Q -> safe (sub_one w M a) m Q.
Proof.
  intros HO Ha HQ. destruct a as [d|b|d|ws]; cbn [sub_one tblks app TargInv] in *.
  - apply safe_ret. apply HQ; [exact HO | apply ReprInv_from_dword].
  - destruct Ha as [HB _]. eapply (wp_sub_large_dword w M M_big); eauto.
  - apply safe_ret. apply HQ; [exact HO | apply ReprInv_from_dword].
  - apply safe_bind. eapply (wp_bfrom M M_big); [exact HO|]. intros b m1 HO1 E1 HB1. eapply (wp_sub_large_dword w M M_big); eauto.
Qed.

Theorem wp_and_not a b F m Q :
  Own (tblks a ++ tblks b ++ F) m -> TargInv a -> TargInv b -> RQ F Q -> safe (and_not w M a b) m Q.
Proof.
  intros HO Ha Hb HQ. unfold and_not.
  destruct (small_of a) as [x|] eqn:Ea; destruct (small_of b) as [y|] eqn:Eb.
  - assert (tblks a = [] /\ tblks b = []) as [E1 E2] by (destruct a; try discriminate; destruct b; try discriminate; auto).
    rewrite E1, E2 in HO. apply safe_ret. apply HQ; [exact HO | apply ReprInv_from_dword].
  - assert (tblks a = []) as E1 by (destruct a; try discriminate; auto). rewrite E1 in HO. cbn [app] in HO.
    pose proof (twords_len M b Hb Eb) as L.
    apply safe_bind. apply (wp_lowest_dword_of w); [lia|]. intros d.
    apply safe_bind. eapply wp_release; [exact HO|]. intros m1 HO1. apply safe_ret. apply HQ; [exact HO1 | apply ReprInv_from_dword].
  - assert (tblks b = []) as E2 by (destruct b; try discriminate; auto). rewrite E2 in HO. cbn [app] in HO.
    pose proof (twords_len M a Ha Ea) as L.
    apply safe_bind. eapply (wp_own_large M M_big); [exact HO | exact Ha | exact Ea |]. intros ba m1 HO1 HB1 E1.
    eapply (wp_bitop_large_dword w M M_big); [exact HO1 | exact HB1 | rewrite E1; exact L | exact HQ].
  - apply safe_bind. eapply (wp_own_large M M_big a (tblks b ++ F)); [exact HO | exact Ha | exact Ea |]. intros ba m1 HO1 HB1 E1.
    apply safe_bind. eapply (wp_fb_any w M M_big ba); [exact HO1 | exact HB1 | reflexivity | reflexivity | |].
    { pose proof (len_nonneg (bws ba)). lens. destruct HB1. lia. }
    intros r m2 HO2 HR. apply safe_bind. eapply wp_release; [apply Own_swap_app'; exact HO2|]. intros m3 HO3.
    apply safe_ret. apply HQ; assumption.
Qed.

Lemma wp_not_pos r F m Q : Own (rblks r ++ F) m -> ReprInv r -> RQ F Q -> safe (not_pos w M r) m Q.
Proof.
  intros HO HR HQ. unfold not_pos. destruct (typed_inv w M r HR) as (T1 & T2 & _).
  apply safe_bind. eapply wp_add_one; [rewrite T2; exact HO | exact T1 |]. intros r' m1 HO1 HR1.
  apply safe_ret. apply HQ; [rewrite rblks_with_sign; exact HO1 | apply ReprInv_with_sign; exact HR1].
Qed.

Theorem wp_not_top s a F m Q : Own (tblks a ++ F) m -> TargInv a -> RQ F Q -> safe (not_top w M s a) m Q.
Proof.
  intros HO Ha HQ. destruct s; cbn [not_top]; apply safe_bind.
  - eapply wp_add_one; [exact HO | exact Ha |]. intros r m1 HO1 HR1.
    apply safe_ret. apply HQ; [rewrite rblks_with_sign; exact HO1 | apply ReprInv_with_sign; exact HR1].
  - eapply wp_sub_one; [exact HO | exact Ha |]. intros r m1 HO1 HR1.
    apply safe_ret. apply HQ; [rewrite rblks_with_sign; exact HO1 | apply ReprInv_with_sign; exact HR1].
Qed.

(** the typed view of a value just produced owns that value's block *)
Lemma typed_own r : ReprInv r -> TargInv (typed w r) /\ tblks (typed w r) = rblks r.
Proof. intros H. destruct (typed_inv w M r H) as (T1 & T2 & _). auto. Qed.

(** IBig & | ^ for every combination of signs and every ownership of the operands *)
Theorem wp_sbit_top f s0 a s1 b F m Q :
  Own (tblks a ++ tblks b ++ F) m -> TargInv a -> TargInv b -> RQ F Q -> safe (sbit_top w M f s0 a s1 b) m Q.
Proof.
  intros HO Ha Hb HQ.
  (* t <- sub_one b: b's block becomes t's *)
  assert (forall (k : repr -> M_ repr),
           (forall t m1, Own (tblks a ++ rblks t ++ F) m1 -> ReprInv t -> safe (k t) m1 Q) ->
           safe (t <- sub_one w M b ;; k t) m Q) as Hsb.
  { intros k Hk. apply safe_bind. eapply (wp_sub_one b (tblks a ++ F)); [apply Own_swap_app'; exact HO | exact Hb |].
    intros t m1 HO1 HR1. apply Hk; [apply Own_swap_app'; exact HO1 | exact HR1]. }
  assert (forall (k : repr -> M_ repr),
           (forall t m1, Own (rblks t ++ tblks b ++ F) m1 -> ReprInv t -> safe (k t) m1 Q) ->
           safe (t <- sub_one w M a ;; k t) m Q) as Hsa.
  { intros k Hk. apply safe_bind. eapply (wp_sub_one a (tblks b ++ F)); [exact HO | exact Ha |]. intros t m1 HO1 HR1. apply Hk; assumption. }
  assert (forall (k : repr -> repr -> M_ repr),
           (forall t0 t1 m1, Own (rblks t0 ++ rblks t1 ++ F) m1 -> ReprInv t0 -> ReprInv t1 -> safe (k t0 t1) m1 Q) ->
           safe (t0 <- sub_one w M a ;; t1 <- sub_one w M b ;; k t0 t1) m Q) as Hsab.
  { intros k Hk. apply Hsa. intros t0 m1 HO1 HR0.
    apply safe_bind. eapply (wp_sub_one b (rblks t0 ++ F)); [apply Own_swap_app'; exact HO1 | exact Hb |]. intros t1 m2 HO2 HR1.
    apply Hk; [apply Own_swap_app'; exact HO2 | exact HR0 | exact HR1]. }
  assert (RQ F (fun r m' => safe (not_pos w M r) m' Q)) as HN.
  { intros r m' HO' HR'. eapply wp_not_pos; eauto. }
  destruct f, s0, s1; cbn [sbit_top].
  - eapply (wp_and_mag w M M_big); eauto.
  - apply Hsb. intros t m1 HO1 HR1. destruct (typed_own t HR1) as [T1 T2].
    eapply wp_and_not; [rewrite T2; exact HO1 | exact Ha | exact T1 | exact HQ].
  - apply Hsa. intros t m1 HO1 HR1. destruct (typed_own t HR1) as [T1 T2].
    eapply wp_and_not; [rewrite T2; apply Own_swap_app'; exact HO1 | exact Hb | exact T1 | exact HQ].
  - apply Hsab. intros t0 t1 m1 HO1 HR0 HR1. destruct (typed_own t0 HR0) as [A1 A2]. destruct (typed_own t1 HR1) as [B1 B2].
    apply safe_bind. eapply (wp_orx_mag w M M_big); [rewrite A2, B2; exact HO1 | exact A1 | exact B1 | exact HN].
  - eapply (wp_orx_mag w M M_big); eauto.
  - apply Hsb. intros t m1 HO1 HR1. destruct (typed_own t HR1) as [T1 T2].
    apply safe_bind. eapply wp_and_not; [rewrite T2; apply Own_swap_app'; exact HO1 | exact T1 | exact Ha | exact HN].
  - apply Hsa. intros t m1 HO1 HR1. destruct (typed_own t HR1) as [T1 T2].
    apply safe_bind. eapply wp_and_not; [rewrite T2; exact HO1 | exact T1 | exact Hb | exact HN].
  - apply Hsab. intros t0 t1 m1 HO1 HR0 HR1. destruct (typed_own t0 HR0) as [A1 A2]. destruct (typed_own t1 HR1) as [B1 B2].
    apply safe_bind. eapply (wp_and_mag w M M_big); [rewrite A2, B2; exact HO1 | exact A1 | exact B1 | exact HN].
  - eapply (wp_orx_mag w M M_big); eauto.
  - apply Hsb. intros t m1 HO1 HR1. destruct (typed_own t HR1) as [T1 T2].
    apply safe_bind. eapply (wp_orx_mag w M M_big); [rewrite T2; exact HO1 | exact Ha | exact T1 | exact HN].
  - apply Hsa. intros t m1 HO1 HR1. destruct (typed_own t HR1) as [T1 T2].
    apply safe_bind. eapply (wp_orx_mag w M M_big); [rewrite T2; exact HO1 | exact T1 | exact Hb | exact HN].
  - apply Hsab. intros t0 t1 m1 HO1 HR0 HR1. destruct (typed_own t0 HR0) as [A1 A2]. destruct (typed_own t1 HR1) as [B1 B2].
    eapply (wp_orx_mag w M M_big); [rewrite A2, B2; exact HO1 | exact A1 | exact B1 | exact HQ].
Qed.

(* ------------------------------------------------------------------ IBig shifts *)
Theorem wp_ishl_top s a n F m Q : Own (tblks a ++ F) m -> TargInv a -> 0 <= n -> RQ F Q -> safe (ishl_top w M s a n) m Q.
Proof.
  intros HO Ha Hn HQ. unfold ishl_top. apply safe_bind. eapply (wp_shl_mag w M w_pos M_big); [exact HO | exact Ha | exact Hn |].
  intros r m1 HO1 HR1. apply safe_ret. apply HQ; [rewrite rblks_with_sign; exact HO1 | apply ReprInv_with_sign; exact HR1].
Qed.

Theorem wp_ishr_top s a n F m Q : Own (tblks a ++ F) m -> TargInv a -> 0 <= n -> OQ F Q -> safe (ishr_top w M s a n) m Q.
Proof.
  intros HO Ha Hn HQ. destruct s; cbn [ishr_top].
  - eapply wp_done; [|exact HQ]. intros Q' HQ'. eapply (wp_shr_mag w M w_pos M_big); eauto.
  - cbv zeta. apply safe_bind. eapply (wp_shr_mag w M w_pos M_big); [exact HO | exact Ha | exact Hn |]. intros q m1 HO1 HR1.
    pose proof (ReprInv_neg M q HR1) as HRn. destruct (typed_own (neg q) HRn) as [T1 T2].
    eapply (wp_run_bin w M M_big); [rewrite T2, rblks_neg; cbn [tblks app]; exact HO1 | exact T1 | exact I | exact HQ].
Qed.

(* ------------------------------------------------------------------ parse (power-of-two radix) *)
(** postcondition of a parsing loop: a buffer that is still owned, or nothing left after an invalid digit *)
Definition PQ (F : list (Z * Z)) (Q : option buffer -> mem -> Prop) : Prop :=
  forall ob m', match ob with Some b => Own (bblk b :: F) m' /\ BufOK b | None => Own F m' end -> Q ob m'.

Lemma div_mul_lt a b c : 0 < c -> a * c < b -> a <= (b - 1) / c.
Proof. intros Hc H. apply Z.div_le_lower_bound; lia. Qed.

(** invariant: the bits already stored plus the bits still to come fit the estimate num_bits = src.len() * log_radix *)
Lemma wp_parse2_loop lr N items : forall bits word b F m Q,
  0 < lr <= w -> 0 <= bits < w ->
  Own (bblk b :: F) m -> BufOK b ->
  len (bws b) * w + bits + len items * lr <= N * lr ->
  (N * lr - 1) / w + 1 <= bcap b ->
  PQ F Q -> safe (parse2_loop w lr items bits word b) m Q.
Proof.
  induction items as [|it r IH]; intros bits word b F m Q Hlr Hb HO HB HI HC HQ; cbn [parse2_loop].
  - change (len (@nil pitem)) with 0 in HI. destruct (Z.ltb_spec 0 bits) as [Hp|Hz].
    + apply safe_bind. apply wp_push.
      * assert (len (bws b) <= (N * lr - 1) / w) by (apply div_mul_lt; lia). lia.
      * apply safe_ret. apply HQ. split; [exact HO|]. apply BufOK_setws; [exact HB|]. lens.
        assert (len (bws b) <= (N * lr - 1) / w) by (apply div_mul_lt; lia). lia.
    + apply safe_ret. apply HQ. split; assumption.
  - rewrite len_cons in HI. pose proof (len_nonneg r) as L0. destruct it as [d| |].
    + cbv zeta. destruct (Z.geb_spec (bits + lr) w) as [Hge|Hlt].
      * assert (len (bws b) <= (N * lr - 1) / w) as Hfit by (apply div_mul_lt; nia).
        apply safe_bind. apply wp_push; [lia|].
        eapply IH; [exact Hlr | lia | exact HO | apply BufOK_setws; [exact HB | lens; lia] | lens; nia | cbn [setws bcap]; exact HC | exact HQ].
      * eapply IH; [exact Hlr | lia | exact HO | exact HB | nia | exact HC | exact HQ].
    + eapply IH; [exact Hlr | exact Hb | exact HO | exact HB | nia | exact HC | exact HQ].
    + apply safe_bind. eapply wp_drop; [exact HO|]. intros m1 HO1. apply safe_ret. apply HQ. exact HO1.
Qed.

Definition OptQ (F : list (Z * Z)) (Q : option repr -> mem -> Prop) : Prop :=
  forall o m', match o with Some r => Own (rblks r ++ F) m' /\ ReprInv r | None => Own F m' end -> Q o m'.

Theorem wp_parse2 lr items F m Q : Own F m -> 0 < lr <= w -> OptQ F Q -> safe (parse2 w M lr items) m Q.
Proof.
  intros HO Hlr HQ. unfold parse2, gen4_parse_pow2_digits_per_word, gen4_parse_pow2_request.
  pose proof (len_nonneg items) as L0.
  destruct (Z.leb_spec (len items) (w / lr)) as [Hs|Hl].
  - apply safe_ret. apply HQ. destruct (existsb is_bad items); [exact HO|]. split; [exact HO | apply ReprInv_from_word].
  - assert (0 <= w / lr) by (apply Z.div_pos; lia).
    assert (0 <= (len items * lr - 1) / w) by (apply Z.div_pos; nia).
    apply safe_bind. eapply (wp_alloc M M_big); [exact HO | lia |]. intros b m1 HO1 E1 E2 HB.
    apply safe_bind. eapply (wp_parse2_loop lr (len items) items 0 0 b F); [exact Hlr | lia | exact HO1 | exact HB | rewrite E1; lnil; lia | exact E2 |].
    intros [b'|] m2 H2.
    + destruct H2 as [HO2 HB2]. apply safe_bind. eapply (wp_fb w M M_big); [exact HO2 | exact HB2 |]. intros r m3 HO3 HR.
      apply safe_ret. apply HQ. split; assumption.
    + apply safe_ret. apply HQ. exact H2.
Qed.

(* ------------------------------------------------------------------ parse_chunk (other radixes) *)
Lemma wp_parse_chunk_loop rpw gs : forall b F m Q,
  Own (bblk b :: F) m -> BufOK b -> len (bws b) + len gs <= bcap b -> PQ F Q -> safe (parse_chunk_loop w rpw gs b) m Q.
Proof.
  induction gs as [|g r IH]; intros b F m Q HO HB HC HQ; cbn [parse_chunk_loop].
  - apply safe_ret. apply HQ. split; assumption.
  - rewrite len_cons in HC. pose proof (len_nonneg r) as L0. pose proof (len_nonneg (bws b)) as L1. destruct g as [nx|].
    + cbv zeta. apply safe_bind.
      apply (safe_mono _ _ (fun b2 m' => m' = m /\ bblk b2 = bblk b /\ len (bws b) <= len (bws b2) <= len (bws b) + 1)).
      * destruct (_ =? 0).
        -- apply safe_ret. split; [reflexivity|]. split; [reflexivity|]. lens. lia.
        -- apply wp_push; [lens; lia|]. split; [reflexivity|]. split; [reflexivity|]. lens. lia.
      * intros b2 m' (-> & EB & HL). pose proof (bcap_same _ _ EB) as EC.
        eapply IH; [unfold bblk in *; rewrite EB; exact HO | eapply BufOK_same; [exact HB | exact EB | lia] | lia | exact HQ].
    + apply safe_bind. eapply wp_drop; [exact HO|]. intros m1 HO1. apply safe_ret. apply HQ. exact HO1.
Qed.

Theorem wp_parse_n rpw gs F m Q : Own F m -> OptQ F Q -> safe (parse_n w M rpw gs) m Q.
Proof.
  intros HO HQ. unfold parse_n, gen4_parse_chunk_request.
  destruct gs as [|g [|g2 r]].
  - apply safe_ret. apply HQ. split; [exact HO | apply (ReprInv_zero' M)].
  - apply safe_ret. apply HQ. destruct g; [split; [exact HO | apply ReprInv_from_word] | exact HO].
  - set (gs := g :: g2 :: r). pose proof (len_nonneg gs) as L0.
    apply safe_bind. eapply (wp_alloc M M_big); [exact HO | lia |]. intros b m1 HO1 E1 E2 HB.
    apply safe_bind. eapply (wp_parse_chunk_loop rpw gs b F); [exact HO1 | exact HB | rewrite E1; lnil; lia |].
    intros [b'|] m2 H2.
    + destruct H2 as [HO2 HB2]. apply safe_bind. eapply (wp_fb w M M_big); [exact HO2 | exact HB2 |]. intros r' m3 HO3 HR.
      apply safe_ret. apply HQ. split; assumption.
    + apply safe_ret. apply HQ. exact H2.
Qed.

(* ------------------------------------------------------------------ to_chunks / from_chunks *)
Definition bufs_blks (bs : list buffer) : list (Z * Z) := map bblk bs.
Definition reprs_blks (rs : list repr) : list (Z * Z) := flat_map rblks rs.

Lemma wp_alloc_chunks cnt wpc : forall F m (Q : list buffer -> mem -> Prop),
  Own F m -> 0 <= wpc ->
  (forall bs m', Own (bufs_blks bs ++ F) m' -> Forall BufOK bs -> Q bs m') -> safe (alloc_chunks M cnt wpc) m Q.
Proof.
  induction cnt as [|c IH]; intros F m Q HO Hw HQ; cbn [alloc_chunks].
  - apply safe_ret. apply HQ; [exact HO | constructor].
  - unfold gen4_to_chunks_request.
    apply safe_bind. eapply (wp_alloc M M_big); [exact HO | lia |]. intros b m1 HO1 E1 E2 HB.
    apply safe_bind. apply wp_push_repeat; [rewrite E1; lnil; lia|].
    apply safe_bind. eapply (IH (bblk b :: F)); [exact HO1 | exact Hw |]. intros bs m2 HO2 HBs.
    apply safe_ret. apply HQ.
    + cbn [bufs_blks map app]. apply Own_mid. exact HO2.
    + constructor; [|exact HBs]. apply BufOK_setws; [exact HB|]. lens. rewrite E1. lens. lia.
Qed.

Lemma wp_finish_chunks x k bs : forall i F m (Q : list repr -> mem -> Prop),
  Own (bufs_blks bs ++ F) m -> Forall BufOK bs ->
  (forall rs m', Own (reprs_blks rs ++ F) m' -> Forall ReprInv rs -> Q rs m') -> safe (finish_chunks w M x k i bs) m Q.
Proof.
  induction bs as [|b r IH]; intros i F m Q HO HB HQ; cbn [finish_chunks].
  - apply safe_ret. apply HQ; [exact HO | constructor].
  - inversion HB as [|? ? HB1 HBr]; subst. cbn [bufs_blks map app] in HO.
    apply safe_bind. eapply (wp_fb_any w M M_big b _ (bufs_blks r ++ F)); [exact HO | exact HB1 | reflexivity | reflexivity | |].
    { pose proof (len_nonneg (bws b)). lens. destruct HB1. lia. }
    intros q m1 HO1 HRq.
    apply safe_bind. eapply (IH (i + 1) (rblks q ++ F)); [apply Own_swap_app'; exact HO1 | exact HBr |]. intros rs m2 HO2 HRs.
    apply safe_ret. apply HQ; [|constructor; assumption].
    cbn [reprs_blks flat_map]. rewrite <- app_assoc. apply Own_swap_app'. exact HO2.
Qed.

Lemma small_chunks_ok x k cnt : forall i, reprs_blks (small_chunks w x k i cnt) = [] /\ Forall ReprInv (small_chunks w x k i cnt).
Proof.
  induction cnt as [|c IH]; intros i; cbn [small_chunks reprs_blks flat_map]; [split; [reflexivity | constructor]|].
  destruct (IH (i + 1)) as [E1 E2]. split; [exact E1|]. constructor; [apply ReprInv_from_dword | exact E2].
Qed.

Theorem wp_to_chunks a k F m (Q : list repr -> mem -> Prop) :
  Own F m -> TargInv a -> 0 < k ->
  (forall rs m', Own (reprs_blks rs ++ F) m' -> Forall ReprInv rs -> Q rs m') -> safe (to_chunks w M a k) m Q.
Proof.
  intros HO Ha Hk HQ. unfold to_chunks. cbv zeta. destruct (small_of a) as [d|] eqn:Ea.
  - apply safe_ret. destruct (_ =? 0); [apply HQ; [exact HO | constructor]|].
    destruct (_ =? 1); [apply HQ; [exact HO | constructor; [apply ReprInv_from_dword | constructor]]|].
    destruct (small_chunks_ok (tvalue w a) k (Z.to_nat (ceil_div (bit_len (tvalue w a)) k)) 0) as [E1 E2].
    apply HQ; [rewrite E1; exact HO | exact E2].
  - destruct (_ =? 1).
    + apply safe_bind. eapply (wp_bfrom M M_big); [exact HO|]. intros b m1 HO1 E1 HB1.
      apply safe_bind. eapply (wp_fb w M M_big); [exact HO1 | exact HB1 |]. intros r m2 HO2 HR.
      apply safe_ret. apply HQ; [cbn [reprs_blks flat_map]; rewrite app_nil_r; exact HO2 | constructor; [exact HR | constructor]].
    + assert (0 <= ceil_div k w) by (unfold ceil_div; apply Z.div_pos; lia).
      apply safe_bind. eapply wp_alloc_chunks; [exact HO | lia |]. intros bs m1 HO1 HBs.
      eapply wp_finish_chunks; eauto.
Qed.

Lemma wp_drop_reprs rs : forall F m (Q : unit -> mem -> Prop),
  Own (reprs_blks rs ++ F) m -> (forall m', Own F m' -> Q tt m') -> safe (drop_reprs rs) m Q.
Proof.
  induction rs as [|r rest IH]; intros F m Q HO HQ; cbn [drop_reprs].
  - apply safe_ret. apply HQ. exact HO.
  - cbn [reprs_blks flat_map] in HO. rewrite <- app_assoc in HO.
    apply safe_bind. eapply wp_repr_drop; [exact HO|]. intros m1 HO1. eapply IH; eauto.
Qed.

Lemma max_len_nonneg cs : 0 <= max_len cs.
Proof. induction cs as [|c r IH]; cbn [max_len]; [lia|]. pose proof (len_nonneg c). lia. Qed.

Theorem wp_from_chunks cs k x F m Q : Own F m -> 0 < k -> RQ F Q -> safe (from_chunks w M cs k x) m Q.
Proof.
  intros HO Hk HQ. unfold from_chunks. destruct cs as [|c0 cr]; [apply safe_ret; apply HQ; [exact HO | apply ReprInv_zero']|].
  set (cs := c0 :: cr). cbv zeta. unfold gen4_from_chunks_result_len, gen4_from_chunks_buffer.
  pose proof (max_len_nonneg cs) as L0. assert (1 <= len cs) as L1 by (unfold cs; rewrite len_cons; pose proof (len_nonneg cr); lia).
  assert (0 <= (len cs - 1) * k) by nia.
  apply safe_bind. eapply (wp_alloc M M_big); [exact HO | lia |]. intros res m1 HO1 E1 E2 HB.
  apply safe_bind. apply wp_push_repeat; [rewrite E1; lnil; lia|].
  apply safe_bind. eapply (wp_allocate_exact M (max_len cs + 1) (bblk res :: F)); [exact HO1 | lia |]. intros buf m2 HO2 B1 B2.
  apply safe_bind. apply wp_push_repeat; [rewrite B1, B2; lnil; lia|].
  apply safe_bind. eapply (wp_fb_any w M M_big res _ (bblk buf :: F)); [apply Own_swap; exact HO2 | exact HB | reflexivity | reflexivity | |].
  { lens. lia. }
  intros r m3 HO3 HR.
  apply safe_bind. eapply wp_drop; [apply Own_mid; exact HO3|]. intros m4 HO4. apply safe_ret. apply HQ; assumption.
Qed.

Theorem wp_chunks_rt a k F m Q : Own F m -> TargInv a -> 0 < k -> RQ F Q -> safe (chunks_rt w M a k) m Q.
Proof.
  intros HO Ha Hk HQ. unfold chunks_rt.
  apply safe_bind. eapply wp_to_chunks; [exact HO | exact Ha | exact Hk |]. intros cs m1 HO1 HRs.
  apply safe_bind. eapply wp_from_chunks; [exact HO1 | exact Hk |]. intros r m2 HO2 HR.
  apply safe_bind. eapply wp_drop_reprs; [apply Own_swap_app'; exact HO2|]. intros m3 HO3. apply safe_ret. apply HQ; assumption.
Qed.

End Ops3Bits.
