(** C13 (round 5) - the runs of the oracle at ANY word size w >= 8 (ModRingWInst.v) return what the specification demands,
    for ALL moduli m >= 1 and all operands: the proofs of ModRingInstProofs.v / ModRingConvInstProofs.v / ModRingLehmerSrc.v /
    ModRingReducerWordsProofs.v / ModRingCloneProofs.v with the word size as a variable.  At w = 64 the runs ARE the 64-bit
    instances (by computation); w = 32 is what the correspondence run evaluates against the force_bits="32" build. *)
From Dashu Require Import Base.Prelude Base.Words Int.RingMul Int.DivWordModel Int.DivWordProofs Int.DivLargeProofs Int.DivContracts
  Int.DivNumModular Int.DivNumModularProofs Int.DivSrcInst Int.DivSrcInstProofs
  Int.ModRingSpec Int.ModRingSpecProofs Int.ModRingPowModel Int.ModRingPowProofs Int.ModRingModel Int.ModRingProofs Int.ModRingOpsProofs
  Int.ModRingMain Int.ModRingInst Int.ModRingInstProofs Int.ModRingNumModularDefs Int.ModRingNumModular
  Int.ModRingWords Int.ModRingWordsProofs Int.ModRingWordsMulProofs Int.ModRingWordsInst
  Int.ModRingConv Int.ModRingConvProofs Int.ModRingConvInst Int.ModRingConvInstProofs
  Int.ModRingGcdSmall Int.GrlLehmer Int.ModRingLehmer Int.ModRingLehmerInst Int.ModRingLehmerSrc
  Int.ModRingReducerWords Int.ModRingReducerWordsProofs Int.ModRingClone Int.ModRingCloneProofs Int.ModRingWInst.
From DashuGen Require Import Params.
Open Scope Z_scope.

Section W.
Variable w : Z.
Hypothesis w_ge : 8 <= w.
Local Lemma w2 : 2 <= w. Proof. lia. Qed.
Local Lemma wpos : 0 < w. Proof. lia. Qed.
Local Lemma gex_2by1_ok : forall d a, 2 ^ w / 2 <= d < 2 ^ w -> 0 <= a -> a / 2 ^ w < d -> ex_2by1 d a = (a / d, a mod d).
Proof. intros. reflexivity. Qed.
Local Lemma gex_3by2_ok : forall d lo hi, 2 ^ w * 2 ^ w / 2 <= d < 2 ^ w * 2 ^ w -> 0 <= lo < 2 ^ w -> 0 <= hi < d ->
  (gex_3by2 w) d lo hi = ((lo + 2 ^ w * hi) / d, (lo + 2 ^ w * hi) mod d).
Proof. intros. reflexivity. Qed.

Local Ltac new_ring id m Hm r Hwf Em :=
  destruct (new_ring_ok w w2 id m Hm) as (r & Enew & Hwf & Em & _); unfold gi_new; rewrite ?Enew; cbn [rbind].
Local Ltac reduce r a Hwf x Hx :=
  unfold gi_reduce;
  destruct (reduce_ok w w2 ex_2by1 (gex_3by2 w) gex_2by1_ok gex_3by2_ok r a Hwf) as (x & Ered & Hx); rewrite Ered; clear Ered; cbn [rbind].
Local Ltac residue r v c Hwf Hc Em :=
  unfold gi_residue; destruct (residue_ok w w2 r v c Hwf Hc) as (Eres & _ & Emod); rewrite Eres; cbn [rbind]; rewrite ?Emod, ?Em.

Theorem grun_reduce_correct m a : 1 <= m -> (grun_reduce w) m a = Ok (reduce_spec m a, m).
Proof.
  intros Hm. unfold grun_reduce. new_ring 0 m Hm r Hwf Em. reduce r a Hwf x Hx. residue r a x Hwf Hx Em. reflexivity.
Qed.

Theorem grun_un_correct o m a : 1 <= m -> (grun_un w) o m a = Ok (un_spec o m a).
Proof.
  intros Hm. unfold grun_un. new_ring 0 m Hm r Hwf Em. reduce r a Hwf x Hx.
  destruct o; unfold gi_un, un_spec, gi_neg, gi_dbl, gi_sqr.
  - destruct (neg_ok w w2 r a x Hwf Hx) as (c & -> & Hc). cbn [rbind]. residue r (- a) c Hwf Hc Em. reflexivity.
  - destruct (dbl_ok w w2 r a x Hwf Hx) as (c & -> & Hc). cbn [rbind]. residue r (2 * a) c Hwf Hc Em. reflexivity.
  - destruct (sqr_ok w w2 ex_2by1 (gex_3by2 w) gex_2by1_ok gex_3by2_ok r a x Hwf Hx) as (c & -> & Hc). cbn [rbind].
    residue r (a * a) c Hwf Hc Em. reflexivity.
Qed.

(** operands of one ring: the four binary operators return what [bin_spec] demands *)
Theorem grun_bin_correct o id m a b : 1 <= m -> (grun_bin w) o id id m m a b = bin_spec o m a b.
Proof.
  intros Hm. unfold grun_bin. new_ring id m Hm r Hwf Em. reduce r a Hwf x Hx. reduce r b Hwf y Hy.
  destruct o; unfold gi_bin, bin_spec, gi_add, gi_sub, gi_mul, gi_div.
  - destruct (add_ok w w2 r a b x y Hwf Hx Hy) as (c & -> & Hc). cbn [rbind]. residue r (a + b) c Hwf Hc Em. reflexivity.
  - destruct (sub_ok w w2 r a b x y Hwf Hx Hy) as (c & -> & Hc). cbn [rbind]. residue r (a - b) c Hwf Hc Em. reflexivity.
  - destruct (mul_ok w w2 ex_2by1 (gex_3by2 w) gex_2by1_ok gex_3by2_ok r a b x y Hwf Hx Hy) as (c & -> & Hc). cbn [rbind].
    residue r (a * b) c Hwf Hc Em. reflexivity.
  - pose proof (div_asis_ok w w2 ex_2by1 (gex_3by2 w) ex_invm ex_gcd_ext gex_2by1_ok gex_3by2_ok ex_invm_ok ex_gcd_ext_ok
                  r a b x y Hwf Hx Hy) as Hd.
    rewrite Em in Hd. destruct (div_spec m a b) as [q|p| |] eqn:Eq; try contradiction.
    + destruct Hd as (c & -> & Hc). cbn [rbind]. residue r q c Hwf Hc Em.
      f_equal. unfold reduce_spec. apply Z.mod_small.
      destruct (div_spec_mul_back m a b q ltac:(lia) Eq) as [Hq _]. exact Hq.
    + rewrite Hd. reflexivity.
Qed.

(** operands of two ConstDivisor instances (whatever the moduli): the documented panic; division
    computes the inverse first, so a non-invertible divisor is reported first *)
Theorem grun_bin_mixed o id1 id2 m1 m2 a b : 1 <= m1 -> 1 <= m2 -> id1 <> id2 ->
  (grun_bin w) o id1 id2 m1 m2 a b =
  match o with
  | ODiv => if inv_spec m2 b then Panic DifferentRings else Panic NonInvertible
  | _ => Panic DifferentRings
  end.
Proof.
  intros Hm1 Hm2 Hid. unfold grun_bin.
  destruct (new_ring_ok w w2 id1 m1 Hm1) as (r1 & E1 & Hwf1 & Em1 & Ei1).
  destruct (new_ring_ok w w2 id2 m2 Hm2) as (r2 & E2 & Hwf2 & Em2 & Ei2).
  unfold gi_new. rewrite E1, E2. cbn [rbind]. reduce r1 a Hwf1 x Hx. reduce r2 b Hwf2 y Hy.
  assert (r_id (e_ring x) <> r_id (e_ring y)) as Hne.
  { destruct Hx as [-> _]. destruct Hy as [-> _]. congruence. }
  destruct (different_rings_panic w ex_2by1 (gex_3by2 w) x y Hne) as (Ea & Es & Emul & _).
  destruct o; unfold gi_bin, gi_add, gi_sub, gi_mul, gi_div; [rewrite Ea | rewrite Es | rewrite Emul |]; try reflexivity.
  destruct (inv_asis_ok w w2 ex_invm ex_gcd_ext ex_invm_ok ex_gcd_ext_ok r2 b y Hwf2 Hy) as (oi & Eo & Hp).
  pose proof (inv_spec_ok m2 b ltac:(lia)) as Hs.
  unfold div_asis. rewrite Eo. cbn [rbind].
  destruct oi as [c|], (inv_spec m2 b) as [iv|]; cbn [inv_post] in Hp; rewrite ?Em2 in Hp.
  - destruct Hp as (v & [Erc _] & _).
    assert (r_id (e_ring x) <> r_id (e_ring c)) as Hne2.
    { destruct Hx as [-> _]. rewrite Erc. congruence. }
    destruct (different_rings_panic w ex_2by1 (gex_3by2 w) x c Hne2) as (_ & _ & -> & _). reflexivity.
  - destruct Hp as (v & _ & _ & G). contradiction.
  - destruct Hs as [_ G]. contradiction.
  - reflexivity.
Qed.

Theorem grun_pow_correct m a e : 1 <= m -> 0 <= e -> (grun_pow w) m a e = Ok (powm m a e) /\ powm m a e = (a ^ e) mod m.
Proof.
  intros Hm He. split; [|apply powm_correct; lia]. unfold grun_pow. new_ring 0 m Hm r Hwf Em. reduce r a Hwf x Hx.
  unfold gi_pow.
  destruct (pow_ok w w2 ex_2by1 (gex_3by2 w) gex_2by1_ok gex_3by2_ok r a x e Hwf Hx He) as (c & -> & Hc). cbn [rbind].
  residue r (a ^ e) c Hwf Hc Em. rewrite powm_correct by lia. reflexivity.
Qed.

Theorem grun_inv_correct m a : 1 <= m -> (grun_inv w) m a = Ok (inv_spec m a).
Proof.
  intros Hm. unfold grun_inv. new_ring 0 m Hm r Hwf Em. reduce r a Hwf x Hx. unfold gi_inv.
  destruct (inv_asis_ok w w2 ex_invm ex_gcd_ext ex_invm_ok ex_gcd_ext_ok r a x Hwf Hx) as (o & -> & Hp).
  cbn [rbind]. pose proof (inv_spec_ok m a ltac:(lia)) as Hs.
  destruct o as [c|], (inv_spec m a) as [iv|]; cbn [inv_post] in Hp; rewrite ?Em in Hp.
  - destruct Hp as (v & Hc & Hinv & _). destruct Hs as [Hiv _].
    residue r v c Hwf Hc Em. do 2 f_equal. unfold reduce_spec. apply (inverse_unique m a); [lia | exact Hinv | exact Hiv].
  - destruct Hp as (v & _ & _ & G). contradiction.
  - destruct Hs as [_ G]. contradiction.
  - reflexivity.
Qed.

Theorem grun_eq_correct id m a b : 1 <= m -> (grun_eq w) id id m m a b = Ok (reduce_spec m a =? reduce_spec m b).
Proof.
  intros Hm. unfold grun_eq. new_ring id m Hm r Hwf Em. reduce r a Hwf x Hx. reduce r b Hwf y Hy.
  unfold gi_eq. rewrite (eq_asis_ok w w2 r a b x y Hwf Hx Hy), Em. reflexivity.
Qed.

(** the Reducer implementation: residue as specified, the result passes [check] *)

Theorem grun_rd_correct o m a b : 1 <= m -> 0 <= a -> 0 <= b ->
  exists raw, (grun_rd w) true o m a b = Ok (rd_spec o m a b, true, raw).
Proof.
  intros Hm Ha Hb. unfold grun_rd. new_ring 0 m Hm r Hwf Em. unfold gi_transform.
  rewrite (rd_transform_ok w w2 ex_2by1 (gex_3by2 w) gex_2by1_ok gex_3by2_ok r a Hwf Ha). cbn [rbind].
  assert (forall v, (grd_out w) true r (v mod r_m r * 2 ^ r_shift r) = (v mod m, true, v mod r_m r * 2 ^ r_shift r)) as Hout.
  { intros v. unfold grd_out. fold (rd_check w r (v mod r_m r * 2 ^ r_shift r)).
    rewrite (rd_check_rep w w2 r v Hwf).
    destruct (rd_residue_ok w w2 r v Hwf) as (-> & _). unfold reduce_spec. rewrite Em. reflexivity. }
  destruct o; cbn [rd_spec];
    try (rewrite (rd_transform_ok w w2 ex_2by1 (gex_3by2 w) gex_2by1_ok gex_3by2_ok r b Hwf Hb); cbn [rbind]).
  - rewrite Hout. eexists; reflexivity.
  - fold (rd_add w r). rewrite (rd_add_ok w w2 r a b Hwf). cbn [rbind]. rewrite Hout. eexists; reflexivity.
  - rewrite (rd_sub_ok w w2 r a b Hwf). cbn [rbind]. rewrite Hout. eexists; reflexivity.
  - rewrite (rd_mul_ok w w2 ex_2by1 (gex_3by2 w) gex_2by1_ok gex_3by2_ok r a b Hwf). cbn [rbind]. rewrite Hout. eexists; reflexivity.
  - fold (rd_dbl w r). rewrite (rd_dbl_ok w w2 r a Hwf). cbn [rbind]. rewrite Hout. eexists; reflexivity.
  - rewrite (rd_neg_ok w w2 r a Hwf). cbn [rbind]. rewrite Hout. eexists; reflexivity.
  - rewrite (rd_sqr_ok w w2 ex_2by1 (gex_3by2 w) gex_2by1_ok gex_3by2_ok r a Hwf). cbn [rbind]. rewrite Hout. eexists; reflexivity.
  - rewrite (rd_pow_ok w w2 ex_2by1 (gex_3by2 w) gex_2by1_ok gex_3by2_ok r a b Hwf Hb). cbn [rbind]. rewrite Hout. eexists; reflexivity.
Qed.

Theorem grun_rd_check_correct m t : 1 <= m -> 0 <= t -> (grun_rd_check w) true m t = (grd_check_spec w) m t.
Proof.
  intros Hm Ht. unfold grun_rd_check, grd_check_spec. new_ring 0 m Hm r Hwf Em. f_equal.
  fold (rd_check w r t). rewrite (rd_check_ok w w2 r t Hwf Ht), Em.
  replace (0 <=? t) with true by (symmetry; apply Z.leb_le; exact Ht). reflexivity.
Qed.

Theorem grun_rd_inv_correct m a : 1 <= m -> 0 <= a ->
  exists o, (grun_rd_inv w) m a = Ok o /\
    match o, inv_spec m a with
    | Some (res, chk, _), Some iv => res = iv /\ chk = true
    | None, None => True
    | _, _ => False
    end.
Proof.
  intros Hm Ha. unfold grun_rd_inv. new_ring 0 m Hm r Hwf Em. unfold gi_transform.
  rewrite (rd_transform_ok w w2 ex_2by1 (gex_3by2 w) gex_2by1_ok gex_3by2_ok r a Hwf Ha). cbn [rbind].
  destruct (rd_inv_ok w w2 ex_invm ex_gcd_ext ex_invm_ok ex_gcd_ext_ok r a Hwf) as (o & -> & Hp). cbn [rbind].
  eexists; split; [reflexivity|]. pose proof (inv_spec_ok m a ltac:(lia)) as Hs.
  destruct o as [t|], (inv_spec m a) as [iv|].
  - destruct Hp as (v & -> & Hinv & _). destruct Hs as [Hiv _]. rewrite Em in Hinv. unfold grd_out.
    fold (rd_check w r (v mod r_m r * 2 ^ r_shift r)). rewrite (rd_check_rep w w2 r v Hwf).
    destruct (rd_residue_ok w w2 r v Hwf) as (-> & _). unfold reduce_spec. rewrite Em.
    split; [apply (inverse_unique m a); [lia | exact Hinv | exact Hiv] | reflexivity].
  - destruct Hp as (v & _ & _ & G). rewrite Em in G. contradiction.
  - destruct Hs as [_ G]. rewrite Em in Hp. contradiction.
  - exact I.
Qed.

Theorem grun_rd_modulus_correct m : 1 <= m -> (grun_rd_modulus w) m = Ok m.
Proof.
  intros Hm. unfold grun_rd_modulus. new_ring 0 m Hm r Hwf Em.
  destruct (rd_residue_ok w w2 r 0 Hwf) as (_ & -> & _). rewrite Em. reflexivity.
Qed.


(** the kernels of the instance are the kernels of ModRingWordsInst.v *)
Lemma gKM_eq : (gKM w) = k_mul w. Proof. reflexivity. Qed.
Lemma gKS_eq : (gKS w) = k_sqr w. Proof. reflexivity. Qed.
Lemma gKD_eq : (gKD w) = k_div w (nm3by2 w) (c01_mul_sub w). Proof. reflexivity. Qed.

Lemma gKD_ok lhs rhs : kernel_pre w lhs rhs -> exists res c, (gKD w) lhs rhs = Ok (res, c) /\ kernel_post w lhs rhs res c.
Proof.
  rewrite gKD_eq. apply (k_div_ok w w_ge (nm3by2 w) (c01_mul_sub w) (nm3by2_contract w wpos) (c01_mul_sub_contract w w_ge)).
Qed.

Definition gEXT : externals_ok w (gN2 w) (gN3 w) nm_finv ex_gcd_ext := externals_nm w ex_gcd_ext w2 ModRingNumModular.ex_gcd_ext_ok.
Local Notation E2 := (ext_2by1 _ _ _ _ _ gEXT).
Local Notation E3 := (ext_3by2 _ _ _ _ _ gEXT).
Local Notation Ei := (ext_invm _ _ _ _ _ gEXT).
Local Notation Eg := (ext_gcd _ _ _ _ _ gEXT).

(** ---------------- one- and two-word rings ---------------- *)
Lemma gsmall_kind id m r : 1 <= m -> (gis_large w) m = false -> new_ring w id m = Ok r -> r_kind r <> KLarge.
Proof.
  intros Hm Hs E. unfold gis_large in Hs. apply Z.leb_gt in Hs. unfold new_ring in E.
  destruct (Z.leb_spec m 0); [lia|]. destruct (m <? 2 ^ w); [inversion E; subst; cbn; discriminate|].
  destruct (Z.ltb_spec m (2 ^ w * 2 ^ w)); [inversion E; subst; cbn; discriminate | lia].
Qed.

Lemma gn_from_ubig_eq r x : ring_wf w r -> r_kind r <> KLarge -> 0 <= x -> (gn_from_ubig w) r x = from_ubig w (gN2 w) (gN3 w) r x.
Proof.
  intros Hwf Hk Hx. unfold gn_from_ubig, from_ubig. destruct (r_kind r) eqn:K; [| |contradiction].
  - rewrite (ws_from_ubig_eq w w2 (nm1by1 w) (gN2 w) (nm1by1_contract w) (nm2by1_contract w wpos) r x Hwf K Hx). reflexivity.
  - rewrite (wd_from_ubig_eq w w2 (nm2by2 w) (gN3 w) (nm4by2 w) (nm2by2_contract w) (nm3by2_contract w wpos)
               (nm4by2_contract w wpos) r x Hwf K Hx). reflexivity.
Qed.

Lemma gn_reduce_ok r a : ring_wf w r -> r_kind r <> KLarge -> exists x, (gn_reduce w) r a = Ok x /\ rep r a x.
Proof.
  intros Hwf Hk. assert ((gn_reduce w) r a = reduce_asis w (gN2 w) (gN3 w) r a) as ->.
  { unfold gn_reduce, reduce_asis. destruct (Z.leb_spec 0 a); rewrite gn_from_ubig_eq by (try assumption; lia); reflexivity. }
  exact (reduce_ok w w2 (gN2 w) (gN3 w) E2 E3 r a Hwf).
Qed.

(** ---------------- multi-word rings ---------------- *)
Lemma gw_reduce_ok R r a : lring_ok w R r -> ring_wf w r -> exists l, (gw_reduce w) R a = Ok l /\ wrep w R r a l.
Proof. intros HR Hwf. exact (wl_into_ring_ibig_ok w w2 (gKD w) gKD_ok R r a HR Hwf). Qed.

Lemma gw_residue_ok R r x l : lring_ok w R r -> ring_wf w r -> wrep w R r x l -> (gw_residue w) R l = Ok (x mod r_m r).
Proof.
  intros HR Hwf Hl. destruct (wl_ring_ops w w2 R r x x l l HR Hwf Hl Hl) as (_ & _ & _ & _ & (c & Ec & _ & Ev) & _).
  unfold gw_residue. rewrite Ec. cbn [rbind]. rewrite Ev. reflexivity.
Qed.

Lemma gw_modulus_ok R r : lring_ok w R r -> ring_wf w r -> (gw_modulus w) R = Ok (r_m r).
Proof.
  intros HR Hwf. destruct (wl_divisor_ok w w2 R r HR Hwf) as (l & E & _ & Ev). unfold gw_modulus. rewrite E. cbn [rbind]. rewrite Ev. reflexivity.
Qed.

Local Ltac small_ring m Hm Hl r Hwf Em Hk :=
  destruct (new_ring_ok w w2 0 m Hm) as (r & Enew & Hwf & Em & _);
  pose proof (gsmall_kind 0 m r Hm Hl Enew) as Hk; unfold gi_new; rewrite Enew; cbn [rbind].
Local Ltac large_ring m Hl R r HR Hwf Em :=
  let H := fresh in
  assert (Words.B w * Words.B w <= m) as H by (unfold gis_large in Hl; apply Z.leb_le in Hl; unfold Words.B; exact Hl);
  destruct (wl_new_ok w w2 0 m H) as (R & r & Enew & _ & HR & Hwf & Em & _); rewrite Enew; cbn [rbind]; clear H.
Local Ltac nred r a Hwf Hk x Hx := destruct (gn_reduce_ok r a Hwf Hk) as (x & Ered & Hx); rewrite Ered; clear Ered; cbn [rbind].
Local Ltac wred R r a HR Hwf x Hx := destruct (gw_reduce_ok R r a HR Hwf) as (x & Ered & Hx); rewrite Ered; clear Ered; cbn [rbind].
Local Ltac nres r v c Hwf Hc Em :=
  destruct (residue_ok w w2 r v c Hwf Hc) as (Eres & _ & Emod); rewrite Eres; cbn [rbind]; rewrite ?Emod, ?Em.

Theorem ghrun_reduce_correct m a : 1 <= m -> (ghrun_reduce w) m a = Ok (reduce_spec m a, m).
Proof.
  intros Hm. unfold ghrun_reduce. destruct ((gis_large w) m) eqn:Hl.
  - large_ring m Hl R r HR Hwf Em. wred R r a HR Hwf x Hx.
    rewrite (gw_residue_ok R r a x HR Hwf Hx). cbn [rbind]. rewrite (gw_modulus_ok R r HR Hwf). cbn [rbind]. rewrite Em. reflexivity.
  - small_ring m Hm Hl r Hwf Em Hk. nred r a Hwf Hk x Hx. nres r a x Hwf Hx Em. reflexivity.
Qed.

Theorem ghrun_un_correct o m a : 1 <= m -> (ghrun_un w) o m a = Ok (un_spec o m a).
Proof.
  intros Hm. unfold ghrun_un. destruct ((gis_large w) m) eqn:Hl.
  - large_ring m Hl R r HR Hwf Em. wred R r a HR Hwf x Hx.
    destruct (wl_ring_ops w w2 R r a a x x HR Hwf Hx Hx) as (_ & _ & (cd & Ed & Hd) & (cn & En & Hn) & _).
    destruct (real_mul_ops_nm w (c01_mul_sub w) w_ge (c01_mul_sub_contract w w_ge) R r a a x x HR Hwf Hx Hx) as (_ & _ & (cs & Es & Hs)).
    destruct o; unfold gw_un, un_spec, neg_spec, dbl_spec, sqr_spec, reduce_spec.
    + rewrite En. cbn [rbind]. rewrite (gw_residue_ok R r (- a) cn HR Hwf Hn), Em. reflexivity.
    + rewrite Ed. cbn [rbind]. rewrite (gw_residue_ok R r (2 * a) cd HR Hwf Hd), Em. reflexivity.
    + rewrite gKS_eq, gKD_eq, Es. cbn [rbind]. rewrite (gw_residue_ok R r (a * a) cs HR Hwf Hs), Em. reflexivity.
  - small_ring m Hm Hl r Hwf Em Hk. nred r a Hwf Hk x Hx.
    destruct o; unfold gn_un, un_spec.
    + destruct (neg_ok w w2 r a x Hwf Hx) as (c & -> & Hc). cbn [rbind]. nres r (- a) c Hwf Hc Em. reflexivity.
    + destruct (dbl_ok w w2 r a x Hwf Hx) as (c & -> & Hc). cbn [rbind]. nres r (2 * a) c Hwf Hc Em. reflexivity.
    + destruct (sqr_ok w w2 (gN2 w) (gN3 w) E2 E3 r a x Hwf Hx) as (c & -> & Hc). cbn [rbind]. nres r (a * a) c Hwf Hc Em. reflexivity.
Qed.

(** inverse on word lists against the specification's inverse *)
Lemma gw_inv_spec R r a x : lring_ok w R r -> ring_wf w r -> wrep w R r a x ->
  match inv_spec (r_m r) a with
  | Some iv => exists c, wl_inv w ex_gcd_ext R x = Ok (Some c) /\ wrep w R r iv c
  | None => wl_inv w ex_gcd_ext R x = Ok None
  end.
Proof.
  intros HR Hwf Hx. pose proof (wf_m_pos w r Hwf) as Hmp.
  destruct (wl_inv_ok w w2 ex_gcd_ext ModRingNumModular.ex_gcd_ext_ok R r a x HR Hwf Hx) as (o & Eo & Hp).
  pose proof (inv_spec_ok (r_m r) a Hmp) as Hs.
  destruct o as [c|], (inv_spec (r_m r) a) as [iv|]; cbn [winv_post] in Hp.
  - destruct Hp as (v & Hc & Hinv & _). destruct Hs as [Hiv _]. exists c. split; [exact Eo|].
    assert (v mod r_m r = iv) as E by (apply (inverse_unique (r_m r) a); [lia | exact Hinv | exact Hiv]).
    destruct Hc as (H1 & H2 & H3). split; [exact H1|]. split; [exact H2|]. rewrite H3, E.
    destruct Hiv as [Hr _]. rewrite (Z.mod_small iv) by lia. reflexivity.
  - destruct Hp as (v & _ & _ & G). contradiction.
  - destruct Hs as [_ G]. contradiction.
  - exact Eo.
Qed.

Theorem ghrun_bin_correct o m a b : 1 <= m -> (ghrun_bin w) o m a b = bin_spec o m a b.
Proof.
  intros Hm. unfold ghrun_bin. destruct ((gis_large w) m) eqn:Hl.
  - large_ring m Hl R r HR Hwf Em. wred R r a HR Hwf x Hx. wred R r b HR Hwf y Hy.
    destruct (wl_ring_ops w w2 R r a b x y HR Hwf Hx Hy) as ((ca & Ea & Ha) & (cs & Es & Hs) & _).
    destruct o; unfold gw_bin, bin_spec, add_spec, sub_spec, mul_spec, reduce_spec.
    + rewrite Ea. cbn [rbind]. rewrite (gw_residue_ok R r (a + b) ca HR Hwf Ha), Em. reflexivity.
    + rewrite Es. cbn [rbind]. rewrite (gw_residue_ok R r (a - b) cs HR Hwf Hs), Em. reflexivity.
    + destruct (real_mul_ops_nm w (c01_mul_sub w) w_ge (c01_mul_sub_contract w w_ge) R r a b x y HR Hwf Hx Hy) as ((cm & Emul & Hmul) & _).
      rewrite gKM_eq, gKS_eq, gKD_eq, Emul. cbn [rbind]. rewrite (gw_residue_ok R r (a * b) cm HR Hwf Hmul), Em. reflexivity.
    + unfold gw_div, div_spec. pose proof (gw_inv_spec R r b y HR Hwf Hy) as Hi. rewrite Em in Hi.
      destruct (inv_spec m b) as [iv|].
      * destruct Hi as (c & -> & Hc). cbn [rbind].
        destruct (real_mul_ops_nm w (c01_mul_sub w) w_ge (c01_mul_sub_contract w w_ge) R r iv a c x HR Hwf Hc Hx) as ((cm & Emul & Hmul) & _).
        rewrite gKM_eq, gKS_eq, gKD_eq, Emul. cbn [rbind]. rewrite (gw_residue_ok R r (iv * a) cm HR Hwf Hmul), Em.
        unfold mul_spec, reduce_spec. f_equal. f_equal. ring.
      * rewrite Hi. reflexivity.
  - small_ring m Hm Hl r Hwf Em Hk. nred r a Hwf Hk x Hx. nred r b Hwf Hk y Hy.
    destruct o; unfold gn_bin, bin_spec.
    + destruct (add_ok w w2 r a b x y Hwf Hx Hy) as (c & -> & Hc). cbn [rbind]. nres r (a + b) c Hwf Hc Em. reflexivity.
    + destruct (sub_ok w w2 r a b x y Hwf Hx Hy) as (c & -> & Hc). cbn [rbind]. nres r (a - b) c Hwf Hc Em. reflexivity.
    + destruct (mul_ok w w2 (gN2 w) (gN3 w) E2 E3 r a b x y Hwf Hx Hy) as (c & -> & Hc). cbn [rbind]. nres r (a * b) c Hwf Hc Em. reflexivity.
    + pose proof (div_asis_ok w w2 (gN2 w) (gN3 w) nm_finv ex_gcd_ext E2 E3 Ei Eg r a b x y Hwf Hx Hy) as Hd.
      rewrite Em in Hd. destruct (div_spec m a b) as [q|p| |] eqn:Eq; try contradiction.
      * destruct Hd as (c & -> & Hc). cbn [rbind]. nres r q c Hwf Hc Em.
        f_equal. unfold reduce_spec. apply Z.mod_small. destruct (div_spec_mul_back m a b q ltac:(lia) Eq) as [Hq _]. exact Hq.
      * rewrite Hd. reflexivity.
Qed.

Theorem ghrun_pow_correct m a e : 1 <= m -> 0 <= e -> (ghrun_pow w) m a e = Ok (powm m a e).
Proof.
  intros Hm He. rewrite powm_correct by lia. unfold ghrun_pow. destruct ((gis_large w) m) eqn:Hl.
  - large_ring m Hl R r HR Hwf Em. wred R r a HR Hwf x Hx.
    destruct (real_pow_nm w (c01_mul_sub w) w_ge (c01_mul_sub_contract w w_ge) R r a x e HR Hwf Hx He) as (c & Ec & Hc).
    rewrite gKM_eq, gKS_eq, gKD_eq, Ec. cbn [rbind]. rewrite (gw_residue_ok R r (a ^ e) c HR Hwf Hc), Em. reflexivity.
  - small_ring m Hm Hl r Hwf Em Hk. nred r a Hwf Hk x Hx.
    destruct (pow_ok w w2 (gN2 w) (gN3 w) E2 E3 r a x e Hwf Hx He) as (c & -> & Hc). cbn [rbind]. nres r (a ^ e) c Hwf Hc Em. reflexivity.
Qed.

Theorem ghrun_inv_correct m a : 1 <= m -> (ghrun_inv w) m a = Ok (inv_spec m a).
Proof.
  intros Hm. unfold ghrun_inv. destruct ((gis_large w) m) eqn:Hl.
  - large_ring m Hl R r HR Hwf Em. wred R r a HR Hwf x Hx.
    pose proof (gw_inv_spec R r a x HR Hwf Hx) as Hi. rewrite Em in Hi.
    pose proof (inv_spec_ok m a ltac:(lia)) as Hs. destruct (inv_spec m a) as [iv|].
    + destruct Hi as (c & -> & Hc). cbn [rbind]. rewrite (gw_residue_ok R r iv c HR Hwf Hc), Em. cbn [rbind].
      destruct Hs as [[Hr _] _]. rewrite Z.mod_small by lia. reflexivity.
    + rewrite Hi. reflexivity.
  - small_ring m Hm Hl r Hwf Em Hk. nred r a Hwf Hk x Hx.
    destruct (inv_asis_ok w w2 nm_finv ex_gcd_ext Ei Eg r a x Hwf Hx) as (o & -> & Hp).
    cbn [rbind]. pose proof (inv_spec_ok m a ltac:(lia)) as Hs.
    destruct o as [c|], (inv_spec m a) as [iv|]; cbn [inv_post] in Hp; rewrite ?Em in Hp.
    + destruct Hp as (v & Hc & Hinv & _). destruct Hs as [Hiv _].
      nres r v c Hwf Hc Em. do 2 f_equal. unfold reduce_spec. apply (inverse_unique m a); [lia | exact Hinv | exact Hiv].
    + destruct Hp as (v & _ & _ & G). contradiction.
    + destruct Hs as [_ G]. contradiction.
    + reflexivity.
Qed.

Theorem ghrun_eq_correct m a b : 1 <= m -> (ghrun_eq w) m a b = Ok (reduce_spec m a =? reduce_spec m b).
Proof.
  intros Hm. unfold ghrun_eq. destruct ((gis_large w) m) eqn:Hl.
  - large_ring m Hl R r HR Hwf Em. wred R r a HR Hwf x Hx. wred R r b HR Hwf y Hy.
    destruct (wl_ring_ops w w2 R r a b x y HR Hwf Hx Hy) as (_ & _ & _ & _ & _ & ->). rewrite Em. reflexivity.
  - small_ring m Hm Hl r Hwf Em Hk. nred r a Hwf Hk x Hx. nred r b Hwf Hk y Hy.
    rewrite (eq_asis_ok w w2 r a b x y Hwf Hx Hy), Em. reflexivity.
Qed.

(** Reducer::transform: the raw form is the residue shifted by the normalisation shift of the ring *)
Theorem ghrun_transform_correct m a : 1 <= m -> 0 <= a ->
  (ghrun_transform w) m a = rbind ((gi_new w) 0 m) (fun r => Ok (reduce_spec m a * 2 ^ r_shift r)).
Proof.
  intros Hm Ha. unfold ghrun_transform. destruct ((gis_large w) m) eqn:Hl.
  - assert (Words.B w * Words.B w <= m) as H by (unfold gis_large in Hl; apply Z.leb_le in Hl; unfold Words.B; exact Hl).
    destruct (wl_new_ok w w2 0 m H) as (R & r & Enew & Enr & HR & Hwf & Em & _). rewrite Enew. unfold gi_new. rewrite Enr. cbn [rbind].
    destruct (wl_transform_ok w w2 (gKD w) gKD_ok R r a HR Hwf Ha) as (-> & _). rewrite Em. reflexivity.
  - small_ring m Hm Hl r Hwf Em Hk. unfold gn_transform, reduce_spec. rewrite <- Em. destruct (r_kind r) eqn:K; [| |contradiction].
    + rewrite (ws_from_ubig_eq w w2 (nm1by1 w) (gN2 w) (nm1by1_contract w) (nm2by1_contract w wpos) r a Hwf K Ha).
      exact (s_from_ubig_ok w w2 (gN2 w) E2 r a Hwf K Ha).
    + rewrite (wd_from_ubig_eq w w2 (nm2by2 w) (gN3 w) (nm4by2 w) (nm2by2_contract w) (nm3by2_contract w wpos)
                 (nm4by2_contract w wpos) r a Hwf K Ha).
      exact (d_from_ubig_ok w w2 (gN3 w) E3 r a Hwf K Ha).
Qed.


Lemma gw_inv_src_spec R r a x : lring_ok w R r -> ring_wf w r -> wrep w R r a x ->
  match inv_spec (r_m r) a with
  | Some iv => exists c, wl_inv w (gcd_src w) R x = Ok (Some c) /\ wrep w R r iv c
  | None => wl_inv w (gcd_src w) R x = Ok None
  end.
Proof.
  intros HR Hwf Hx. pose proof (wf_m_pos w r Hwf) as Hmp.
  destruct (wl_inv_ok w w2 (gcd_src w) (gcd_src_ok w w2) R r a x HR Hwf Hx) as (o & Eo & Hp).
  pose proof (inv_spec_ok (r_m r) a Hmp) as Hs.
  destruct o as [c|], (inv_spec (r_m r) a) as [iv|]; cbn [winv_post] in Hp.
  - destruct Hp as (v & Hc & Hinv & _). destruct Hs as [Hiv _]. exists c. split; [exact Eo|].
    assert (v mod r_m r = iv) as E by (apply (inverse_unique (r_m r) a); [lia | exact Hinv | exact Hiv]).
    destruct Hc as (H1 & H2 & H3). split; [exact H1|]. split; [exact H2|]. rewrite H3, E.
    destruct Hiv as [Hr _]. rewrite (Z.mod_small iv) by lia. reflexivity.
  - destruct Hp as (v & _ & _ & G). contradiction.
  - destruct Hs as [_ G]. contradiction.
  - exact Eo.
Qed.


Theorem ghrun_inv_src_correct m a : 1 <= m -> (ghrun_inv_src w) m a = Ok (inv_spec m a).
Proof.
  intros Hm. unfold ghrun_inv_src. destruct ((gis_large w) m) eqn:Hl; [|exact (ghrun_inv_correct m a Hm)].
  large_ring m Hl R r HR Hwf Em. wred R r a HR Hwf x Hx.
  pose proof (gw_inv_src_spec R r a x HR Hwf Hx) as Hi. rewrite Em in Hi.
  pose proof (inv_spec_ok m a ltac:(lia)) as Hs. destruct (inv_spec m a) as [iv|].
  - destruct Hi as (c & -> & Hc). cbn [rbind]. rewrite (gw_residue_ok R r iv c HR Hwf Hc), Em. cbn [rbind].
    destruct Hs as [[Hr _] _]. rewrite Z.mod_small by lia. reflexivity.
  - rewrite Hi. reflexivity.
Qed.

Theorem ghrun_div_src_correct m a b : 1 <= m -> (ghrun_div_src w) m a b = div_spec m a b.
Proof.
  intros Hm. unfold ghrun_div_src. destruct ((gis_large w) m) eqn:Hl; [|exact (ghrun_bin_correct ODiv m a b Hm)].
  large_ring m Hl R r HR Hwf Em. wred R r a HR Hwf x Hx. wred R r b HR Hwf y Hy.
  unfold gw_div_src, div_spec. pose proof (gw_inv_src_spec R r b y HR Hwf Hy) as Hi. rewrite Em in Hi.
  destruct (inv_spec m b) as [iv|].
  - destruct Hi as (c & -> & Hc). cbn [rbind].
    destruct (real_mul_ops_nm w (c01_mul_sub w) w_ge (c01_mul_sub_contract w w_ge) R r iv a c x HR Hwf Hc Hx) as ((cm & Emul & Hmul) & _).
    rewrite gKM_eq, gKS_eq, gKD_eq, Emul. cbn [rbind]. rewrite (gw_residue_ok R r (iv * a) cm HR Hwf Hmul), Em.
    unfold mul_spec, reduce_spec. f_equal. f_equal. ring.
  - rewrite Hi. reflexivity.
Qed.

(** the probe: the gcd code returns, with the gcd and a cofactor below the modulus *)
Theorem ghrun_gcd_probe_ok m a : 1 <= m -> a mod m <> 0 ->
  exists br g b s, (ghrun_gcd_probe w) m a = Ok (br, g, b, s) /\ g = Z.gcd m (a mod m) /\ 0 <= b < m /\ 1 <= br <= 3.
Proof.
  intros Hm Hn. unfold ghrun_gcd_probe. destruct (Z.eqb_spec (a mod m) 0); [contradiction|].
  pose proof (Z.mod_pos_bound a m ltac:(lia)) as MB.
  destruct (gcd_ext_src_ok w m (a mod m) w2 ltac:(lia)) as (g & b & s & -> & G & Hb & _). cbn [rbind].
  exists (gcd_src_branch w (a mod m)), g, b, s. split; [reflexivity|]. split; [exact G|]. split; [exact Hb|].
  unfold gcd_src_branch. destruct (_ <? _); [lia|]. destruct (_ <? _); lia.
Qed.


Theorem ghrun_rd_lin_correct o m a b : 1 <= m -> 0 <= a -> 0 <= b -> (o = RAdd \/ o = RDbl \/ o = RSub \/ o = RNeg) ->
  (ghrun_rd_lin w) o m a b = rbind ((grun_rd w) true o m a b) (fun t => Ok (snd t)).
Proof.
  intros Hm Ha Hb Ho. unfold ghrun_rd_lin, grun_rd.
  destruct (new_ring_ok w w2 0 m Hm) as (r & Enew & Hwf & Em & _). unfold gi_new. rewrite Enew. cbn [rbind].
  unfold gi_transform.
  rewrite (rd_transform_ok w w2 ex_2by1 (gex_3by2 w) gex_2by1_ok gex_3by2_ok r a Hwf Ha).
  rewrite (rd_transform_ok w w2 ex_2by1 (gex_3by2 w) gex_2by1_ok gex_3by2_ok r b Hwf Hb).
  pose proof (wf_m_pos w r Hwf) as Hmp.
  assert (0 < 2 ^ r_shift r) as Ps by (destruct Hwf as (_ & Hs & _); apply Z.pow_pos_nonneg; lia).
  pose proof (Z.mod_pos_bound a (r_m r) Hmp) as Ma. pose proof (Z.mod_pos_bound b (r_m r) Hmp) as Mb.
  set (x := a mod r_m r * 2 ^ r_shift r). set (y := b mod r_m r * 2 ^ r_shift r).
  assert (0 <= x) as Hx by (unfold x; apply Z.mul_nonneg_nonneg; lia).
  assert (0 <= y) as Hy by (unfold y; apply Z.mul_nonneg_nonneg; lia).
  assert (forall R t, (r_kind r = KLarge -> lring_ok w R r) -> 0 <= t ->
            (gh_reduce_once w) R r t = rd_reduce_once_with w true r t /\ (gh_reduce_negate w) R r t = rd_reduce_negate r t) as Hh.
  { intros R t HR Ht0. unfold gh_reduce_once, gh_reduce_negate. destruct (r_kind r) eqn:Hk; try (split; reflexivity).
    split; [apply (wl_rd_reduce_once_ok w w2); auto | apply (wl_rd_reduce_negate_ok w w2); auto]. }
  assert (exists R, match r_kind r with KLarge => wl_new w m | _ => Ok (mklring [] 0) end = Ok R /\ (r_kind r = KLarge -> lring_ok w R r)) as (R & ER & HR).
  { destruct (r_kind r) eqn:Hk; try (eexists; split; [reflexivity | discriminate]).
    assert (Words.B w * Words.B w <= m) as Hl.
    { unfold new_ring in Enew. destruct (m <=? 0); [discriminate|]. fold (Words.B w) in Enew.
      destruct (m <? Words.B w); [injection Enew as <-; discriminate|].
      destruct (m <? Words.B w * Words.B w) eqn:E2; [injection Enew as <-; discriminate|]. apply Z.ltb_ge in E2. exact E2. }
    destruct (wl_new_ok w w2 0 m Hl) as (R & r' & E1 & E2 & HR' & _). rewrite Enew in E2. injection E2 as <-.
    exists R. split; [exact E1 | intros _; exact HR']. }
  rewrite ER. cbn [rbind].
  destruct Ho as [-> | [-> | [-> | ->]]]; cbn [rbind].
  - unfold rd_add_with. rewrite (proj1 (Hh R (x + y) HR ltac:(lia))).
    match goal with |- ?l = rbind (rbind ?m _) _ => change m with l; destruct l; reflexivity end.
  - unfold rd_dbl_with. rewrite (proj1 (Hh R (x * 2) HR ltac:(lia))).
    match goal with |- ?l = rbind (rbind ?m _) _ => change m with l; destruct l; reflexivity end.
  - unfold rd_sub. destruct (Z.leb_spec y x); [reflexivity|]. rewrite (proj2 (Hh R (y - x) HR ltac:(lia))).
    match goal with |- ?l = rbind (rbind ?m _) _ => change m with l; destruct l; reflexivity end.
  - unfold rd_neg. destruct (Z.eqb_spec x 0); [reflexivity|]. rewrite (proj2 (Hh R x HR Hx)).
    match goal with |- ?l = rbind (rbind ?m _) _ => change m with l; destruct l; reflexivity end.
Qed.


Theorem grun_clone_from_correct m1 m2 a b c : 1 <= m1 -> 1 <= m2 ->
  (grun_clone_from w) m1 m2 a b c = Ok (m1, reduce_spec m1 a, true, reduce_spec m1 (a + c)).
Proof.
  intros H1 H2. unfold grun_clone_from.
  destruct (new_ring_ok w w2 1 m1 H1) as (r1 & E1 & Hwf1 & Em1 & _). unfold gi_new. rewrite E1. cbn [rbind].
  destruct (new_ring_ok w w2 2 m2 H2) as (r2 & E2 & Hwf2 & Em2 & _). rewrite E2. cbn [rbind].
  unfold gi_reduce.
  destruct (reduce_ok w w2 ex_2by1 (gex_3by2 w) gex_2by1_ok gex_3by2_ok r1 a Hwf1) as (x & -> & Hx). cbn [rbind].
  destruct (reduce_ok w w2 ex_2by1 (gex_3by2 w) gex_2by1_ok gex_3by2_ok r2 b Hwf2) as (y & -> & Hy). cbn [rbind].
  unfold clone_from_asis, clone_asis, gi_residue.
  destruct (residue_ok w w2 r1 a x Hwf1 Hx) as (-> & _ & Emod). cbn [rbind].
  unfold gi_eq. rewrite (eq_asis_ok w w2 r1 a a x x Hwf1 Hx Hx). cbn [rbind].
  destruct (reduce_ok w w2 ex_2by1 (gex_3by2 w) gex_2by1_ok gex_3by2_ok r1 c Hwf1) as (z & -> & Hz). cbn [rbind].
  unfold gi_add. destruct (add_ok w w2 r1 a c x z Hwf1 Hx Hz) as (s & -> & Hs). cbn [rbind].
  destruct (residue_ok w w2 r1 (a + c) s Hwf1 Hs) as (-> & _ & _). cbn [rbind].
  rewrite Emod, Em1, Z.eqb_refl. reflexivity.
Qed.

End W.


(** at w = 64 the parametrised runs ARE the 64-bit instances the earlier rounds proved and ran *)
Lemma gruns_at_64 :
  grun_reduce 64 = run_reduce /\ grun_bin 64 = run_bin /\ grun_un 64 = run_un /\ grun_pow 64 = run_pow /\ grun_inv 64 = run_inv /\
  grun_eq 64 = run_eq /\ grun_rd 64 = run_rd /\ grun_rd_inv 64 = run_rd_inv /\ grun_rd_check 64 = run_rd_check /\
  grd_check_spec 64 = rd_check_spec /\ grun_rd_modulus 64 = run_rd_modulus /\ grun_clone_from 64 = run_clone_from /\
  ghrun_reduce 64 = hrun_reduce /\ ghrun_bin 64 = hrun_bin /\ ghrun_un 64 = hrun_un /\ ghrun_pow 64 = hrun_pow /\
  ghrun_inv 64 = hrun_inv /\ ghrun_eq 64 = hrun_eq /\ ghrun_transform 64 = hrun_transform /\
  ghrun_inv_src 64 = hrun_inv_src /\ ghrun_div_src 64 = hrun_div_src /\ ghrun_gcd_probe 64 = hrun_gcd_probe /\
  ghrun_rd_lin 64 = hrun_rd_lin.
Proof. repeat (match goal with |- _ /\ _ => split end); cbv beta delta [i_new i_reduce i_neg i_add i_sub i_dbl i_mul i_sqr i_pow i_pow_prefix i_inv i_div i_eq i_residue i_bin i_un run_reduce run_bin run_un run_pow run_pow_prefix run_inv run_eq i_transform rd_out run_rd run_rd_inv run_rd_check rd_check_spec run_rd_modulus KM KS KD N2 N3 n_from_ubig n_reduce n_transform n_bin n_un w_reduce w_div w_bin w_un w_residue w_modulus is_large hrun_reduce hrun_bin hrun_un hrun_pow hrun_inv hrun_eq hrun_transform w_div_src hrun_inv_src hrun_div_src hrun_gcd_probe h_reduce_once h_reduce_negate hrun_rd_lin run_clone_from gi_new gi_reduce gi_neg gi_add gi_sub gi_dbl gi_mul gi_sqr gi_pow gi_pow_prefix gi_inv gi_div gi_eq gi_residue gi_bin gi_un grun_reduce grun_bin grun_un grun_pow grun_pow_prefix grun_inv grun_eq gi_transform grd_out grun_rd grun_rd_inv grun_rd_check grd_check_spec grun_rd_modulus gKM gKS gKD gN2 gN3 gn_from_ubig gn_reduce gn_transform gn_bin gn_un gw_reduce gw_div gw_bin gw_un gw_residue gw_modulus gis_large ghrun_reduce ghrun_bin ghrun_un ghrun_pow ghrun_inv ghrun_eq ghrun_transform gw_div_src ghrun_inv_src ghrun_div_src ghrun_gcd_probe gh_reduce_once gh_reduce_negate ghrun_rd_lin grun_clone_from W64 gex_3by2 ex_3by2]; reflexivity. Qed.

(** non-vacuity / regression at w = 32: one word (shift 3), two words (shift 0 and 27), three words (shift 31, 0), five words;
    the Lehmer branch of the extended gcd at three 32-bit words *)
Example gruns_w32_examples :
  ghrun_bin 32 OMul (2 ^ 64 + 13) (2 ^ 63 + 5) (- (2 ^ 100) - 1) = bin_spec OMul (2 ^ 64 + 13) (2 ^ 63 + 5) (- (2 ^ 100) - 1) /\
  ghrun_bin 32 ODiv (2 ^ 96 - 17) 5 (2 ^ 50 + 1) = bin_spec ODiv (2 ^ 96 - 17) 5 (2 ^ 50 + 1) /\
  ghrun_bin 32 ODiv (2 ^ 66 + 12) 5 6 = Panic NonInvertible /\
  ghrun_pow 32 (2 ^ 130 + 13) (-3) (2 ^ 70 + 5) = Ok (powm (2 ^ 130 + 13) (-3) (2 ^ 70 + 5)) /\
  ghrun_reduce 32 1 5 = Ok (0, 1) /\ ghrun_bin 32 ODiv 7 3 5 = Ok 2 /\
  ghrun_pow 32 (2 ^ 36 + 277) 3 (2 ^ 64 + 1) = Ok (powm (2 ^ 36 + 277) 3 (2 ^ 64 + 1)) /\
  ghrun_bin 32 OSub (2 ^ 28 + 1) 3 (2 ^ 90) = bin_spec OSub (2 ^ 28 + 1) 3 (2 ^ 90) /\
  ghrun_transform 32 (2 ^ 64 + 12) (2 ^ 70) = Ok ((2 ^ 70 mod (2 ^ 64 + 12)) * 2 ^ 31) /\
  ghrun_inv_src 32 (2 ^ 94 + 7) (2 ^ 85 + 11) = Ok (inv_spec (2 ^ 94 + 7) (2 ^ 85 + 11)) /\
  (exists g b s, ghrun_gcd_probe 32 (2 ^ 94 + 7) (2 ^ 85 + 11) = Ok (3, g, b, s)) /\
  grun_rd 32 true RAdd (2 ^ 64 + 1) 1 (2 ^ 64) = Ok (0, true, 0) /\
  ghrun_rd_lin 32 RSub (2 ^ 66 + 12) 5 (2 ^ 65) = Ok (((5 - 2 ^ 65) mod (2 ^ 66 + 12)) * 2 ^ 29) /\
  grun_clone_from 32 (2 ^ 95 - 15) (2 ^ 96 - 17) 5 7 (-6) = Ok (2 ^ 95 - 15, 5, true, 2 ^ 95 - 16).
Proof. vm_compute. repeat split; try reflexivity. do 3 eexists; reflexivity. Qed.

(** ---------------- the statements pinned in props/C13.v ---------------- *)
Theorem wrun_value_spec w : 8 <= w -> forall m a b e id, 1 <= m -> 0 <= e ->
  grun_reduce w m a = Ok (reduce_spec m a, m) /\
  (forall o, grun_bin w o id id m m a b = bin_spec o m a b) /\
  (forall o, grun_un w o m a = Ok (un_spec o m a)) /\
  grun_pow w m a e = Ok ((a ^ e) mod m) /\
  grun_inv w m a = Ok (inv_spec m a) /\
  grun_eq w id id m m a b = Ok (reduce_spec m a =? reduce_spec m b).
Proof.
  intros Hw m a b e id Hm He.
  split; [exact (grun_reduce_correct w Hw m a Hm)|].
  split; [intros o; exact (grun_bin_correct w Hw o id m a b Hm)|].
  split; [intros o; exact (grun_un_correct w Hw o m a Hm)|].
  split; [destruct (grun_pow_correct w Hw m a e Hm He) as [H1 H2]; rewrite H1, H2; reflexivity|].
  split; [exact (grun_inv_correct w Hw m a Hm) | exact (grun_eq_correct w Hw id m a b Hm)].
Qed.

Theorem wrun_reducer_spec w : 8 <= w -> forall o m a b, 1 <= m -> 0 <= a -> 0 <= b ->
  (exists raw, grun_rd w true o m a b = Ok (rd_spec o m a b, true, raw)) /\
  grun_rd_check w true m a = grd_check_spec w m a /\
  grun_rd_modulus w m = Ok m /\
  (exists r, grun_rd_inv w m a = Ok r /\
    match r, inv_spec m a with
    | Some (res, chk, _), Some iv => res = iv /\ chk = true
    | None, None => True
    | _, _ => False
    end).
Proof.
  intros Hw o m a b Hm Ha Hb.
  split; [exact (grun_rd_correct w Hw o m a b Hm Ha Hb)|].
  split; [exact (grun_rd_check_correct w Hw m a Hm Ha)|].
  split; [exact (grun_rd_modulus_correct w Hw m Hm) | exact (grun_rd_inv_correct w Hw m a Hm Ha)].
Qed.

Theorem whrun_ring_spec w : 8 <= w -> forall m a b e, 1 <= m -> 0 <= e ->
  ghrun_reduce w m a = Ok (reduce_spec m a, m) /\
  (forall o, ghrun_bin w o m a b = bin_spec o m a b) /\
  (forall o, ghrun_un w o m a = Ok (un_spec o m a)) /\
  ghrun_pow w m a e = Ok (powm m a e) /\
  ghrun_inv w m a = Ok (inv_spec m a) /\
  ghrun_eq w m a b = Ok (reduce_spec m a =? reduce_spec m b) /\
  (0 <= a -> ghrun_transform w m a = rbind (new_ring w 0 m) (fun r => Ok (reduce_spec m a * 2 ^ r_shift r))).
Proof.
  intros Hw m a b e Hm He.
  split; [exact (ghrun_reduce_correct w Hw m a Hm)|].
  split; [intros o; exact (ghrun_bin_correct w Hw o m a b Hm)|].
  split; [intros o; exact (ghrun_un_correct w Hw o m a Hm)|].
  split; [exact (ghrun_pow_correct w Hw m a e Hm He)|].
  split; [exact (ghrun_inv_correct w Hw m a Hm)|].
  split; [exact (ghrun_eq_correct w Hw m a b Hm)|].
  intros Ha. exact (ghrun_transform_correct w Hw m a Hm Ha).
Qed.

Theorem whrun_gcd_src_spec w : 8 <= w -> forall m a b, 1 <= m ->
  ghrun_inv_src w m a = Ok (inv_spec m a) /\
  ghrun_div_src w m a b = div_spec m a b /\
  (a mod m <> 0 -> exists br g c s, ghrun_gcd_probe w m a = Ok (br, g, c, s) /\ g = Z.gcd m (a mod m) /\ 0 <= c < m /\ 1 <= br <= 3).
Proof.
  intros Hw m a b Hm.
  split; [exact (ghrun_inv_src_correct w Hw m a Hm)|].
  split; [exact (ghrun_div_src_correct w Hw m a b Hm) | exact (ghrun_gcd_probe_ok w Hw m a Hm)].
Qed.
