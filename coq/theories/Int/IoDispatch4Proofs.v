(** C07 (round 4): the converters read through the REGENERATED dispatch functions (coq/gen/IoDispatch4.v,
    written by tools/translate_c07_r4.py from parse/*.rs and fmt/*.rs on every run) are the hand-transcribed
    converters of IoModel.v, hence print the specification digits and parse to the specification value /
    error kind - for every word size, radix, magnitude and text.  An edited threshold, comparison, swapped
    branch, or a changed split / loop condition in the Rust source changes the generated definitions and
    breaks these proofs. *)
From Dashu Require Import Base.Prelude Base.Words Int.IoSpec Int.IoModel Int.IoBytes Int.IoPow2 Int.IoLayout Int.IoDispatch4Model.
From DashuGen Require Import Params IoDispatch4.
Open Scope Z_scope.

Section D.
Variable w : Z.

Lemma lenz {A} (l : list A) : 0 <= len l.
Proof. unfold len. lia. Qed.

(* ---------------------------------------------------------------- parser *)
Lemma parse_dc_gen_eq r cb : forall ps s, parse_dc_gen w r cb ps s = parse_dc w r cb ps s.
Proof.
  induction ps as [|p rest IH]; intros s; cbn [parse_dc_gen parse_dc]; [reflexivity|].
  unfold gen4_parse_dc_lo_len, gen4_parse_dc_direct. rewrite Z.shiftl_mul_pow2 by apply lenz.
  destruct (len s <=? cb * 2 ^ len rest); [apply IH|].
  rewrite IH. destruct (parse_dc w r cb rest (firstn (Z.to_nat (len s - cb * 2 ^ len rest)) s)); cbn [rbind]; try reflexivity.
  rewrite IH. reflexivity.
Qed.

Lemma parse_powers_gen_eq : forall fuel cb n ps, parse_powers_gen fuel cb n ps = parse_powers fuel cb n ps.
Proof.
  induction fuel as [|f IH]; intros cb n ps; destruct ps as [|prev t]; cbn [parse_powers_gen parse_powers]; try reflexivity.
  unfold gen4_parse_more_powers. rewrite Z.shiftr_div_pow2 by apply lenz.
  destruct (cb <=? (n - 1) / 2 ^ len (prev :: t)); [apply IH | reflexivity].
Qed.

Lemma parse_large_np2_gen_eq r s : parse_large_np2_gen w r s = parse_large_np2 w r s.
Proof.
  unfold parse_large_np2_gen, parse_large_np2. destruct (radix_info w r) as [dpw R].
  unfold gen4_parse_chunk_bytes. change gen4_parse_chunk_len with parse_chunk_len.
  rewrite parse_powers_gen_eq, parse_dc_gen_eq. reflexivity.
Qed.

Lemma parse_np2_gen_eq r s : parse_np2_gen w r s = parse_np2 w r s.
Proof.
  unfold parse_np2_gen, parse_np2. destruct (radix_info w r) as [dpw R] eqn:Ei.
  set (bytes := if existsb (fun c => c =? 95) s then filter (fun c => negb (c =? 95)) s else s).
  unfold gen4_parse_np2_path. change gen4_parse_chunk_len with parse_chunk_len.
  destruct (len bytes <=? dpw); [reflexivity|]. destruct (len bytes <=? parse_chunk_len * dpw); [reflexivity|].
  exact (parse_large_np2_gen_eq r bytes).
Qed.

Lemma parse_p2_gen_eq r s : parse_p2_gen w r s = parse_p2 w r s.
Proof.
  unfold parse_p2_gen, parse_p2, gen4_parse_p2_path. destruct (len s <=? w / log_radix r); reflexivity.
Qed.

Theorem body_gen_eq r s : body_gen w r s = body_asis w r s.
Proof.
  unfold body_gen, body_asis, gen4_parse_route. destruct (forallb (fun c => c =? 95) s); [reflexivity|].
  destruct (is_pow2 r); [exact (parse_p2_gen_eq r _) | exact (parse_np2_gen_eq r _)].
Qed.

(* ---------------------------------------------------------------- printer *)
Lemma fmt_powers_gen_eq : forall fuel x ps, fmt_powers_gen w fuel x ps = fmt_powers w fuel x ps.
Proof.
  induction fuel as [|f IH]; intros x ps; destruct ps as [|prev t]; cbn [fmt_powers_gen fmt_powers]; try reflexivity.
  (* (with the source as it is today the two fixpoints are even convertible; the steps below serve a reworded condition) *)
  all: unfold gen4_fmt_sq_stop; destruct (2 * wlen w prev - 1 >? wlen w x); [reflexivity|];
    destruct (prev * prev >? x); [reflexivity | apply IH].
Qed.

Lemma prepared_large_gen_eq r x : prepared_large_gen w r x = prepared_large w r x.
Proof.
  unfold prepared_large_gen, prepared_large. destruct (radix_info w r) as [dpw R].
  change gen4_fmt_chunk_len with fmt_chunk_len. rewrite fmt_powers_gen_eq. reflexivity.
Qed.

Hypothesis w_nonneg : 0 <= w.

Lemma Bw_sq_ge : Bw w <= Bw w * Bw w.
Proof. unfold Bw. pose proof (Z.pow_pos_nonneg 2 w ltac:(lia) w_nonneg). nia. Qed.

Lemma digits_np2_gen_eq r x : digits_np2_gen w r x = digits_np2_asis w r x.
Proof.
  unfold digits_np2_gen, digits_np2_asis, gen4_fmt_np2_path. pose proof Bw_sq_ge as HB.
  destruct (radix_info w r) as [dpw R] eqn:Ei.
  destruct (Z.ltb_spec x (Bw w)); destruct (Z.ltb_spec x (Bw w * Bw w)); try reflexivity; [lia|].
  change gen4_fmt_chunk_len with fmt_chunk_len.
  destruct (wlen w x * (dpw + 1) <=? fmt_chunk_len * dpw); [reflexivity | exact (prepared_large_gen_eq r x)].
Qed.

Lemma p2_width_gen_eq lr x : 0 < lr -> gen4_p2_width (blen x) lr = p2_width lr x.
Proof.
  intros Hl. unfold gen4_p2_width, p2_width, gen4_ceil_div. pose proof (blen_nonneg x) as Hb. f_equal.
  destruct (Z.eqb_spec (blen x) 0) as [->|N].
  - symmetry. apply Z.div_small. lia.
  - replace (blen x + lr - 1) with (blen x - 1 + 1 * lr) by ring. rewrite Z.div_add by lia. reflexivity.
Qed.

Lemma digits_p2_gen_eq r x : 2 <= r -> digits_p2_gen w r x = digits_p2_asis w r x.
Proof.
  intros Hr. unfold digits_p2_gen, digits_p2_asis, gen4_fmt_p2_path. pose proof Bw_sq_ge as HB.
  assert (Hl : 0 < log_radix r).
  { unfold log_radix. assert (Z.log2 2 <= Z.log2 r) by (apply Z.log2_le_mono; lia). change (Z.log2 2) with 1 in H. lia. }
  assert (E : p2_small_digits_gen (log_radix r) x = p2_small_digits (log_radix r) x).
  { unfold p2_small_digits_gen, p2_small_digits. rewrite p2_width_gen_eq by exact Hl. reflexivity. }
  destruct (Z.ltb_spec x (Bw w * Bw w)); [|reflexivity].
  destruct (x <? Bw w); exact E.
Qed.

Theorem digits_gen_eq r x : 2 <= r -> digits_gen w r x = digits_asis w r x.
Proof.
  intros Hr. unfold digits_gen, digits_asis, gen4_fmt_route.
  destruct (is_pow2 r); [exact (digits_p2_gen_eq r x Hr) | exact (digits_np2_gen_eq r x)].
Qed.

End D.

(** InRadixWriter::format_prepared as regenerated (symbolic run of the output statements) is the hand transcription, hence
    Rust's pad_integral for every flag combination *)
Theorem format_prepared_gen_eq f neg prefix digits :
  format_prepared_gen f neg prefix digits = format_prepared_asis f neg prefix digits.
Proof.
  unfold format_prepared_gen, format_prepared_asis, gen4_layout.
  change g4_len with (@len Z). change g4_rep with rep. cbv zeta.
  set (sg := if neg then [45] else if f_plus f then [43] else []).
  set (width := len digits + (len sg + len prefix)).
  destruct (f_width f) as [mw|]; [|reflexivity].
  destruct (width >=? mw); [reflexivity|].
  (* the pad counts are compared by arithmetic, not by shape: a re-associated loop range stays green *)
  destruct (f_zero f); [repeat (f_equal; try lia)|].
  destruct (f_align f) as [[| |]|]; cbn [align_id Z.eqb Pos.eqb orb]; repeat (f_equal; try lia).
Qed.

Theorem format_prepared_gen_correct f neg prefix digits :
  format_prepared_gen f neg (if f_alt f then prefix else []) digits = pad_integral_spec f (negb neg) prefix digits.
Proof. rewrite format_prepared_gen_eq. apply format_prepared_correct. Qed.

Example format_prepared_gen_ex :
  format_prepared_gen (mkflags true true false (Some ACenter) (Some 9) [42]) false [48; 120] [49; 102] = [42; 42; 43; 48; 120; 49; 102; 42; 42].
Proof. vm_compute. reflexivity. Qed.

(** the converters through the regenerated dispatch print / parse the specification *)
Theorem digits_gen_correct w r x : 0 < w -> w mod 2 = 0 -> 2 <= r -> r < Bw w -> 0 <= x -> digits_gen w r x = digits_spec r x.
Proof. intros. rewrite digits_gen_eq by lia. apply digits_asis_correct; assumption. Qed.

Theorem body_gen_correct w r s : 0 < w -> w mod 2 = 0 -> 2 <= r -> r < Bw w -> body_gen w r s = body_spec r s.
Proof. intros. rewrite body_gen_eq. apply body_asis_correct; assumption. Qed.

(** non-vacuity: a 70-digit decimal (medium path, 64-bit words; large path on 8-bit words) and a text with underscores *)
Example digits_gen_ex :
  digits_gen 64 10 (10 ^ 69 + 12345) = digits_spec 10 (10 ^ 69 + 12345) /\
  digits_gen 8 10 (10 ^ 69 + 12345) = digits_spec 10 (10 ^ 69 + 12345) /\
  digits_gen 32 16 (2 ^ 100 + 255) = digits_spec 16 (2 ^ 100 + 255).
Proof. repeat split; vm_compute; reflexivity. Qed.
Example body_gen_ex : body_gen 32 10 [49; 95; 50; 51; 52; 53; 54; 55; 56; 57; 48; 49; 50] = Ok 123456789012.
Proof. vm_compute. reflexivity. Qed.
