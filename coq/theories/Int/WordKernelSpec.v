(** C01 round 4: what each word kernel of add.rs / mul/mod.rs has to compute, as integer arithmetic (the contract
    at which verif_hooks::word_kernel calls it), and the dispatcher that runs the hand-written models by kernel number.
    [lhs], [rhs] are the VALUES of the slices (n = number of words of lhs), [x] a double word (its low word x0 is the
    word operand), [sx] a signed word.  Result: (value of lhs afterwards, magnitude of the return value, negative?) -
    a carry / borrow flag is 0 / 1, a Sign is (0, negative?).  Definitions only. *)
From Dashu Require Import Base.Prelude Base.Words Int.RingAdd Int.RingMul.
Open Scope Z_scope.

Definition word_kernel_spec (w which n lhs rhs x sx : Z) : Z * Z * bool :=
  let M := B w ^ n in
  let x0 := x mod B w in
  let fl (r : Z) := (r mod M, Z.abs (r / M), false) in
  let sg (r : Z) := (r mod M, Z.abs (r / M), r / M <? 0) in
  match which with
  | 0 => fl (lhs + 1) | 1 => fl (lhs - 1) | 2 => fl (lhs + x0) | 3 => fl (lhs - x0)
  | 4 => fl (lhs + x) | 5 => fl (lhs - x) | 6 | 8 => fl (lhs + rhs) | 7 | 9 => fl (lhs - rhs)
  | 10 => fl (rhs - lhs)
  | 11 => (Z.abs (lhs - rhs), 0, lhs - rhs <? 0)
  | 12 => sg (lhs + sx)     (* also for sx = 0 and for an empty slice (M = 1): the carry out is sx itself *)
  | 13 | 14 => sg (if sx <? 0 then lhs - rhs else lhs + rhs)
  | 15 => fl (lhs * x0 + x / B w) | 16 => fl (lhs * x0) | 17 => fl (lhs * x)
  | 18 => fl (lhs + x0 * rhs) | _ => fl (lhs - x0 * rhs)
  end.

(** the contract boundary: what verif_hooks::word_kernel (and every caller in the library) guarantees on entry *)
Definition word_kernel_pre (w which : Z) (lhs rhs : list Z) (x sx : Z) : Prop :=
  wf w lhs /\ wf w rhs /\ 0 <= x < B w * B w /\ - B w <= 2 * sx < B w /\
  match which with
  | 2 | 3 => lhs <> []
  | 4 | 5 => (2 <= length lhs)%nat
  | 6 | 7 | 10 | 13 | 18 | 19 => length lhs = length rhs
  | 8 | 9 | 11 | 14 => (length rhs <= length lhs)%nat
  | 15 | 16 => 0 < x mod B w
  | _ => True
  end.

Definition wk_flag (b : bool) : Z * bool := (b2z b, false).
Definition wk_signed (v : Z) : Z * bool := (Z.abs v, v <? 0).
Definition wk_sign (s : sign) : Z * bool := (0, match s with Negative => true | Positive => false end).
Definition wk_sign_of (sx : Z) : sign := if sx <? 0 then Negative else Positive.

(** the hand-written models (Int/RingAdd.v, Int/RingMul.v) by kernel number *)
Definition word_kernel_hand (w which : Z) (lhs rhs : list Z) (x sx : Z) : list Z * (Z * bool) :=
  let x0 := x mod B w in
  let s := wk_sign_of sx in
  match which with
  | 0 => let '(l, r) := add_one_in_place w lhs in (l, wk_flag r)
  | 1 => let '(l, r) := sub_one_in_place w lhs in (l, wk_flag r)
  | 2 => let '(l, r) := add_word_in_place w lhs x0 in (l, wk_flag r)
  | 3 => let '(l, r) := sub_word_in_place w lhs x0 in (l, wk_flag r)
  | 4 => let '(l, r) := add_dword_in_place w lhs x in (l, wk_flag r)
  | 5 => let '(l, r) := sub_dword_in_place w lhs x in (l, wk_flag r)
  | 6 => let '(l, r) := add_same_len_in_place w lhs rhs in (l, wk_flag r)
  | 7 => let '(l, r) := sub_same_len_in_place w lhs rhs in (l, wk_flag r)
  | 8 => let '(l, r) := add_in_place w lhs rhs in (l, wk_flag r)
  | 9 => let '(l, r) := sub_in_place w lhs rhs in (l, wk_flag r)
  | 10 => let '(l, r) := sub_same_len_in_place_swap w rhs lhs in (l, wk_flag r)
  | 11 => let '(l, r) := sub_in_place_with_sign w lhs rhs in (l, wk_sign r)
  | 12 => let '(l, r) := add_signed_word_in_place w lhs sx in (l, wk_signed r)
  | 13 => let '(l, r) := add_signed_same_len_in_place w lhs s rhs in (l, wk_signed r)
  | 14 => let '(l, r) := add_signed_in_place w lhs s rhs in (l, wk_signed r)
  | 15 => let '(l, r) := mul_word_in_place_with_carry w lhs x0 (x / B w) in (l, (r, false))
  | 16 => let '(l, r) := mul_word_in_place w lhs x0 in (l, (r, false))
  | 17 => let '(l, r) := mul_dword_in_place w lhs x in (l, (r, false))
  | 18 => let '(l, r) := add_mul_word_same_len_in_place w lhs x0 rhs in (l, (r, false))
  | _ => let '(l, r) := sub_mul_word_same_len_in_place w lhs x0 rhs in (l, (r, false))
  end.

(** simple::add_signed_mul_chunk through the hand-written rows *)
Definition signed_mul_chunk_hand (w : Z) (c : list Z) (s : sign) (a b : list Z) : list Z * Z := add_signed_mul_chunk w c s a b.
