(** C12 round 5 - u64 square / cube root of base/src/ring/root.rs: no overshoot PER CLASS of the high half.
    Everything before the last Newton step depends on X = n >> 32 only (3 * 2^30 classes for sqrt, 7 * 2^29 for cbrt:
    too many for Coq).  For a class X the certificate [sq64_cert X] / [cb64_cert X] is decidable (two or three
    evaluations of the estimate); the theorems say: certificate true => the routine answers for EVERY n of the class
    with at most 2 / 7 corrections.  The certificate binds at the class ends X*2^32, X*2^32 + 2^32 - 1 and at the
    perfect squares inside: the harness op psweep64 runs the real code there, the oracle evaluates the extracted
    certificate; [sq64_sample] / [cb64_sample] evaluate it here on 4096 classes spread over the whole range. *)
From Coq Require Import List.
From Dashu Require Import Base.Prelude Int.GrlKsqrt Int.GrlSpec Int.GrlLog2Tab Int.GrlLog2TabProof Int.GrlPrimRoot Int.GrlPrimRootProof
  Int.GrlPrimRootCert Int.GrlPrimRootTotal.
Import ListNotations.
Open Scope Z_scope.

(** * square root *)

Lemma nsqrt64_split : forall fuel n, nsqrt64 fuel n =
  if n <? 2 ^ 62 then Panic Undocumented else
  rs <- sq64_a (n / T32) ;;
  e <- chk T64 (n - snd rs * snd rs) ;;
  s <- sq64_c (fst rs) (snd rs) (e / T32) ;;
  fix_sqrt fuel T32 n s.
Proof.
  intros fuel n. unfold nsqrt64, sq64_a, sq64_c. destruct (n <? 2 ^ 62); [reflexivity|].
  destruct (tab RSQRT_TAB _); cbn [rbind fst snd]; [|reflexivity ..].
  destruct (chk T32 (3 * _)); cbn [rbind fst snd]; [|reflexivity ..].
  destruct (chk T32 (_ * _)); cbn [rbind fst snd]; [|reflexivity ..].
  destruct (chk T32 (_ * _)); cbn [rbind fst snd]; [|reflexivity ..].
  destruct (chk T32 (_ - _)); cbn [rbind fst snd]; [|reflexivity ..].
  destruct (chk T32 (_ - _)); cbn [rbind fst snd]; [|reflexivity ..].
  destruct (chk T32 (_ - _)); cbn [rbind fst snd]; [|reflexivity ..].
  reflexivity.
Qed.



Lemma sq64_iv_sound : forall F lo hi, 0 <= F -> sq64_iv F lo hi = true -> forall n, lo <= n <= hi ->
  forall fuel, F <= Z.of_nat fuel -> exists r, nsqrt64 fuel n = Ok r.
Proof.
  intros F lo hi HF0 H n Hn fuel Hf. unfold sq64_iv in H.
  destruct (sq64_a (lo / T32)) as [[r s0]|?|?|] eqn:EA; try (repeat rewrite Bool.andb_false_r in H; discriminate H).
  destruct (sq64_c r s0 _) as [s|?|?|] eqn:EC; try (repeat rewrite Bool.andb_false_r in H; discriminate H).
  andb_goal.
  repeat match goal with
  | X : (_ <=? _) = true |- _ => apply Z.leb_le in X
  | X : (_ <? _) = true |- _ => apply Z.ltb_lt in X
  | X : (_ =? _) = true |- _ => apply Z.eqb_eq in X
  end.
  assert (0 < T32) as HT32 by reflexivity. assert (0 < T64) as HT64 by reflexivity.
  assert (n / T32 = lo / T32) as E32 by (apply (div_sandwich lo hi n T32); [exact HT32|exact Hn|assumption]).
  rewrite nsqrt64_split. destruct (Z.ltb_spec n (2 ^ 62)); [lia|].
  rewrite E32, EA. unfold rbind at 1. cbn [fst snd].
  rewrite (chk_ok_intro T64 (n - s0 * s0)) by lia. unfold rbind at 1.
  assert ((n - s0 * s0) / T32 = (lo - s0 * s0) / T32) as EE
    by (apply (div_sandwich (lo - s0 * s0) (hi - s0 * s0) (n - s0 * s0) T32); [exact HT32|lia|assumption]).
  rewrite EE, EC. unfold rbind at 1.
  apply fix_sqrt_total; try lia.
  - apply (proj1 (Z.sqrt_lt_square n T32 ltac:(lia) ltac:(lia))). change (T32 * T32) with T64. lia.
  - pose proof (sqrt_lt_of_sq n s F ltac:(lia) ltac:(lia) HF0 ltac:(lia)). lia.
Qed.

(** the class certificate: the class is cut at the (at most two) places where (n - s0^2) >> 32 steps *)

(** EVERY n of a certified class: answer = specification, at most 2 corrections *)
Theorem nsqrt64_class_total : forall X n, sq64_cert X = true -> X * T32 <= n < (X + 1) * T32 ->
  nsqrt64 3 n = Ok (sqrt_rem_spec n).
Proof.
  intros X n C Hn. unfold sq64_cert in C.
  destruct (cover_sound (fun n => exists r, nsqrt64 3 n = Ok r) (sq64_iv 3) sq64_split
              (fun lo hi L m Hm => sq64_iv_sound 3 lo hi ltac:(lia) L m Hm 3%nat ltac:(reflexivity)) _ _ _ C n ltac:(lia)) as [[s e] E].
  destruct (nsqrt64_sound _ _ _ _ E) as [-> ->]. exact E.
Qed.

(** what the certificate forces, in words of the source: the value before [s -= 10] correction is an underestimate at
    the low end of the class and the last Newton step does not pass the root at the high end of each piece *)

Lemma sq64_sample : forallb sq64_cert (sample_classes (2 ^ 30) 786433 4096) = true.
Proof. vm_cast_no_check (eq_refl true). Qed.

(** non-vacuity and bound of the sample: 4096 classes from 2^30 to 2^32 - 782337, every n inside each *)
Example nsqrt64_class_example : forall n, (2 ^ 30 + 4095 * 786433) * T32 <= n < (2 ^ 30 + 4095 * 786433 + 1) * T32 ->
  nsqrt64 3 n = Ok (sqrt_rem_spec n).
Proof. intros n Hn. apply (nsqrt64_class_total (2 ^ 30 + 4095 * 786433)); [vm_compute; reflexivity|exact Hn]. Qed.

(** * cube root: the estimate depends on X = n >> 32 only *)

Lemma ncbrt64_split : forall fuel n, 0 <= n -> ncbrt64 fuel n =
  if n <? 2 ^ 61 then Panic Undocumented else c <- cb64_est (n / T32) ;; fix_cbrt fuel T32 n c.
Proof.
  intros fuel n Hn. unfold ncbrt64, cb64_est. destruct (n <? 2 ^ 61); [reflexivity|].
  assert ((2 ^ 31 <=? n / T32) = (2 ^ 63 <=? n)) as ->.
  { destruct (Z.leb_spec (2 ^ 63) n) as [L|L].
    - apply Z.leb_le. apply Z.div_le_lower_bound; [reflexivity|]. change (T32 * 2 ^ 31) with (2 ^ 63). exact L.
    - apply Z.leb_gt. apply Z.div_lt_upper_bound; [reflexivity|]. change (T32 * 2 ^ 31) with (2 ^ 63). exact L. }
  assert (forall a, 0 <= a -> n / 2 ^ (32 + 3 * a) = n / T32 / 2 ^ (3 * a)) as ED.
  { intros a Ha. rewrite Z.pow_add_r by lia. rewrite Z.div_div; [reflexivity|discriminate|apply Z.pow_pos_nonneg; lia]. }
  rewrite ED by (destruct (2 ^ 63 <=? n); cbn; lia).
  destruct (tab RCBRT_TAB _); cbn [rbind fst snd]; [|reflexivity ..].
  destruct (chk T32 (_ * _)); cbn [rbind fst snd]; [|reflexivity ..].
  destruct (chk T32 (_ * _)); cbn [rbind fst snd]; [|reflexivity ..].
  destruct (chk T32 (_ - _)); cbn [rbind fst snd]; [|reflexivity ..].
  destruct (chk T32 (_ * _)); cbn [rbind fst snd]; [|reflexivity ..].
  destruct (chk T32 (_ - _)); cbn [rbind fst snd]; [|reflexivity ..].
  destruct (chk T32 (_ - _)); cbn [rbind fst snd]; [|reflexivity ..].
  reflexivity.
Qed.


(** EVERY n of a certified class: the truncated cube root and its remainder, at most 7 corrections *)
Theorem ncbrt64_class_total : forall X n, 2 ^ 29 <= X < 2 ^ 32 -> cb64_cert X = true -> X * T32 <= n < (X + 1) * T32 ->
  exists c, ncbrt64 8 n = Ok (c, n - c ^ 3) /\ cb c n.
Proof.
  intros X n HX A Hn. unfold cb64_cert in A.
  assert (0 < T32) as HT32 by reflexivity.
  assert (n / T32 = X) as EX.
  { symmetry. apply (Z.div_unique n T32 X (n - X * T32)); lia. }
  assert (2 ^ 61 <= n) as Hlo by (change (2 ^ 61) with (2 ^ 29 * T32); nia).
  assert (n < T64) as Hhi by (change T64 with (2 ^ 32 * T32); nia).
  assert (exists r, ncbrt64 8 n = Ok r) as [[c e] E].
  { rewrite ncbrt64_split by lia. destruct (Z.ltb_spec n (2 ^ 61)); [lia|]. rewrite EX.
    destruct (cb64_est X) as [c|?|?|]; try discriminate A. andb_all A.
    apply Z.leb_le in A, B0. apply Z.ltb_lt in B. unfold rbind.
    assert (n < T32 ^ 3) by (change (T32 ^ 3) with (2 ^ 96); change T64 with (2 ^ 64) in Hhi; assert (2 ^ 64 < 2 ^ 96) by reflexivity; lia).
    assert (n < (c + Z.of_nat 8) ^ 3) by (change (Z.of_nat 8) with 8; lia).
    apply fix_cbrt_total_pow; [lia|lia|assumption|assumption]. }
  destruct (ncbrt64_sound _ _ _ _ E) as [C ->]. exists c. split; [exact E|exact C].
Qed.

Lemma cb64_sample : forallb cb64_cert (sample_classes (2 ^ 29) 917521 4096) = true.
Proof. vm_cast_no_check (eq_refl true). Qed.

Example ncbrt64_class_example : forall n, (2 ^ 29 + 4095 * 917521) * T32 <= n < (2 ^ 29 + 4095 * 917521 + 1) * T32 ->
  exists c, ncbrt64 8 n = Ok (c, n - c ^ 3) /\ cb c n.
Proof.
  intros n Hn. apply (ncbrt64_class_total (2 ^ 29 + 4095 * 917521)); [vm_compute; split; [discriminate|reflexivity]|vm_compute; reflexivity|exact Hn].
Qed.

(** the wrapper over certified classes: an input whose normalised form lies in a certified class *)
Theorem prim_sqrt_rem_u64_class : forall n X, 0 < n < 2 ^ 64 ->
  X = (n * 2 ^ (2 * (lzeros 64 n / 2))) / T32 -> sq64_cert X = true ->
  prim_sqrt_rem_asis 3 64 n = Ok (sqrt_rem_spec n).
Proof.
  intros n X Hn EX C.
  assert (exists r, prim_sqrt_rem_asis 3 64 n = Ok r) as [r E].
  { unfold prim_sqrt_rem_asis. cbn [Z.eqb Pos.eqb]. unfold prim_sqrt_rem.
    destruct (Z.eqb_spec n 0); [lia|].
    set (m := n * 2 ^ (2 * (lzeros 64 n / 2))) in *.
    assert (0 < T32) as HT32 by reflexivity.
    pose proof (Z.div_mod m T32 ltac:(lia)) as DM. pose proof (Z.mod_pos_bound m T32 HT32) as MB.
    rewrite (nsqrt64_class_total X m C) by (subst X; lia).
    unfold rbind. destruct (_ =? 0); eexists; reflexivity. }
  rewrite E. f_equal. apply (prim_sqrt_rem_asis_sound 3 64 n r); [tauto|lia|exact E].
Qed.

(** the classes next to every change of the lookup-table index (where the first estimate is worst): the last class of
    each index and the first class of the next, 2 x 96 (sqrt: index = X >> 25) resp. 2 x 56 + 2 x 48 classes
    (cbrt: index = X >> 25 below 2^31, X >> 28 from 2^31 on) *)
Definition edge_classes (lo cnt sh : Z) : list Z :=
  flat_map (fun i => [i * 2 ^ sh; (i + 1) * 2 ^ sh - 1]) (zrange lo (Z.to_nat cnt)).

Lemma sq64_edges : forallb sq64_cert (edge_classes 32 96 25) = true.
Proof. vm_cast_no_check (eq_refl true). Qed.

Lemma cb64_edges : forallb cb64_cert (edge_classes 16 48 25 ++ edge_classes 8 8 28) = true.
Proof. vm_cast_no_check (eq_refl true). Qed.
