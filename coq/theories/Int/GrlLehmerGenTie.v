(** C12 round 4 - tie of the hand-written Lehmer models to the fragments REGENERATED from integer/src/gcd/lehmer.rs
    on every run (coq/gen/LehmerFrag.v, tools/translate_c12_r4.py): the loop bodies of lehmer_guess and
    lehmer_guess_dword (quotient, updates, limit tests, the break tests [t < s || t + r > ybar - c] and
    [t < s || t + r > xbar - c], the equality exits), the linear forms of lehmer_step (loop, top-word step, the
    debug_assert_eq) and of lehmer_ext_step, COEFF_LIMIT.  An edit of one of these expressions in the source changes
    the generated definitions and breaks a proof here. *)
From Dashu Require Import Base.Prelude Int.GrlSpec Int.GrlModel Int.GrlLehmer Int.GrlLehmerW.
From DashuGen Require Import LehmerFrag.
From Coq Require Import List.
Import ListNotations.
Open Scope Z_scope.

Theorem gen_coeff_limit_is_model : forall w, gen_coeff_limit w = coeff_limit w.
Proof. reflexivity. Qed.

(** which variables the two halves assign: (a, b, xbar) and (d, c, ybar) *)
Theorem gen_dest_is_model :
  gen_half1_dest = [0; 1; 4]%nat /\ gen_half2_dest = [3; 2; 5]%nat /\
  gen_dhalf1_dest = [0; 1; 4]%nat /\ gen_dhalf2_dest = [3; 2; 5]%nat.
Proof. repeat split; reflexivity. Qed.

(** the loop of the source, rebuilt from two generated half steps (no overflow checks: those are the model's) *)
Definition gen_t := Z -> Z -> Z -> Z -> Z -> Z -> Z -> Z * Z * Z * Z * bool * bool * bool * bool.
Fixpoint gen_guess_loop (h1 h2 : gen_t) (fuel : nat) (L a b c d xbar ybar : Z) : option (Z * Z * Z * Z) :=
  match fuel with
  | O => None
  | S k =>
      if ybar =? 0 then Some (a, b, c, d) else
      let '(_, r, s, t, lq, lrs, brk, eqb) := h1 L a b c d xbar ybar in
      if lq || lrs || brk then Some (a, b, c, d) else
      if eqb then Some (r, s, c, d) else
      let '(_, r2, s2, t2, lq2, lrs2, brk2, eqb2) := h2 L r s c d t ybar in
      if lq2 || lrs2 || brk2 then Some (r, s, c, d) else
      if eqb2 then Some (r, s, s2, r2) else
      gen_guess_loop h1 h2 k L r s s2 r2 t t2
  end.

(** a half step of the model: the values and the decision, spelled out *)
Lemma half_vs_gen : forall B L u0 u1 v0 v1 num den sub,
  den <> 0 ->
  match lehmer_half B L u0 u1 v0 v1 num den sub with
  | HStep r s t =>
      r = u0 + num / den * v0 /\ s = u1 + num / den * v1 /\ t = num - num / den * den /\
      (L <? num / den) = false /\ ((L <? r) || (L <? s)) = false /\ ((t <? s) || (den - sub <? t + r)) = false
  | HBreak =>
      (L <? num / den) || ((L <? u0 + num / den * v0) || (L <? u1 + num / den * v1))
      || ((num - num / den * den <? u1 + num / den * v1) || (den - sub <? num - num / den * den + (u0 + num / den * v0))) = true
  | HPanic _ => True
  end.
Proof.
  intros B L u0 u1 v0 v1 num den sub Hden. unfold lehmer_half.
  destruct (Z.eqb_spec den 0); [contradiction|].
  destruct (L <? num / den) eqn:E1; [reflexivity|].
  destruct (negb _); [exact I|].
  destruct ((L <? u0 + num / den * v0) || (L <? u1 + num / den * v1)) eqn:E2; [reflexivity|].
  destruct (num - num / den * den <? u1 + num / den * v1) eqn:E3; [reflexivity|].
  destruct (negb _); [exact I|].
  destruct (den - sub <? num - num / den * den + (u0 + num / den * v0)) eqn:E4; [reflexivity|].
  repeat split; try reflexivity; try assumption. rewrite E3, E4. reflexivity.
Qed.

Section LoopTie.
Variables h1 h2 : gen_t.
(** what the generated halves have to be (checked for the four generated functions below by reflexivity) *)
Hypothesis h1_shape : forall L a b c d xb yb, h1 L a b c d xb yb =
  (xb / yb, a + xb / yb * c, b + xb / yb * d, xb - xb / yb * yb, L <? xb / yb,
   (L <? a + xb / yb * c) || (L <? b + xb / yb * d),
   (xb - xb / yb * yb <? b + xb / yb * d) || (yb - c <? xb - xb / yb * yb + (a + xb / yb * c)),
   xb - xb / yb * yb =? b + xb / yb * d).
Hypothesis h2_shape : forall L a b c d xb yb, h2 L a b c d xb yb =
  (yb / xb, d + yb / xb * b, c + yb / xb * a, yb - yb / xb * xb, L <? yb / xb,
   (L <? d + yb / xb * b) || (L <? c + yb / xb * a),
   (yb - yb / xb * xb <? c + yb / xb * a) || (xb - c <? yb - yb / xb * xb + (d + yb / xb * b)),
   yb - yb / xb * xb =? c + yb / xb * a).

Theorem guess_loop_is_gen : forall fuel B L a b c d xb yb res,
  lehmer_guess_loop fuel B L a b c d xb yb = Ok res -> gen_guess_loop h1 h2 fuel L a b c d xb yb = Some res.
Proof.
  induction fuel as [|k IH]; intros B L a b c d xb yb res; [discriminate|].
  cbn [lehmer_guess_loop gen_guess_loop].
  destruct (Z.eqb_spec yb 0) as [e0|e0]; [intros E; injection E as <-; reflexivity|].
  rewrite h1_shape.
  pose proof (half_vs_gen B L a b c d xb yb c e0) as T1.
  destruct (lehmer_half B L a b c d xb yb c) as [|?|r s t]; [|discriminate|].
  - intros E. injection E as <-. rewrite T1. reflexivity.
  - destruct T1 as [-> [-> [-> [Q1 [Q2 Q3]]]]]. rewrite Q1, Q2, Q3. cbn [orb].
    destruct (xb - xb / yb * yb =? b + xb / yb * d) eqn:Eq; [intros E; injection E as <-; reflexivity|].
    rewrite h2_shape.
    destruct (Z.eq_dec (xb - xb / yb * yb) 0) as [Ez|Ht0].
    { (* the model panics on the division by zero; nothing to show *)
      unfold lehmer_half at 1. rewrite Ez. cbn [Z.eqb]. discriminate. }
    pose proof (half_vs_gen B L d c (b + xb / yb * d) (a + xb / yb * c) yb (xb - xb / yb * yb) c Ht0) as T2.
    destruct (lehmer_half B L d c _ _ yb _ c) as [|?|r2 s2 t2]; [|discriminate|].
    + intros E. injection E as <-. rewrite T2. reflexivity.
    + destruct T2 as [-> [-> [-> [P1 [P2 P3]]]]]. rewrite P1, P2, P3. cbn [orb].
      match goal with |- (if ?cnd then _ else _) = _ -> _ => destruct cnd end; [intros E; injection E as <-; reflexivity|].
      apply IH.
Qed.
End LoopTie.

(** the generated halves have the shape: word and double word guess *)
Theorem lehmer_guess_loop_is_source : forall fuel B L a b c d xb yb res,
  lehmer_guess_loop fuel B L a b c d xb yb = Ok res ->
  gen_guess_loop gen_half1 gen_half2 fuel L a b c d xb yb = Some res /\
  gen_guess_loop gen_dhalf1 gen_dhalf2 fuel L a b c d xb yb = Some res.
Proof.
  intros fuel B L a b c d xb yb res E. split.
  - apply (guess_loop_is_gen gen_half1 gen_half2) with (B := B); [reflexivity|reflexivity|exact E].
  - apply (guess_loop_is_gen gen_dhalf1 gen_dhalf2) with (B := B); [reflexivity|reflexivity|exact E].
Qed.

(** the linear forms of lehmer_step / lehmer_ext_step are the ones the word models evaluate *)
Theorem sd_lin_is_source : forall W a b c d x y cx cy xt m k,
  (sd_lin W a x b y cx = Ok (m, k) -> m = gen_lstep_x a b c d x y cx cy xt mod W /\ k = gen_lstep_x a b c d x y cx cy xt / W) /\
  (sd_lin W d y c x cy = Ok (m, k) -> m = gen_lstep_y a b c d x y cx cy xt mod W /\ k = gen_lstep_y a b c d x y cx cy xt / W).
Proof.
  intros. unfold sd_lin, gen_lstep_x, gen_lstep_y. split; destruct (_ && _); try discriminate; intros E; injection E as <- <-; auto.
Qed.

Theorem lstep_top_is_source : forall a b c d x y cx cy xt,
  gen_lstep_top a b c d x y cx cy xt = a * xt + cx /\ gen_lstep_assert a b c d x y cx cy xt = c * xt.
Proof. intros. split; reflexivity. Qed.

Theorem ud_lin_is_source : forall W a b c d x y cx cy m k,
  (ud_lin W a x b y cx = Ok (m, k) -> m = gen_lext_x a b c d x y cx cy mod W /\ k = gen_lext_x a b c d x y cx cy / W) /\
  (ud_lin W c x d y cy = Ok (m, k) -> m = gen_lext_y a b c d x y cx cy mod W /\ k = gen_lext_y a b c d x y cx cy / W).
Proof.
  intros. unfold ud_lin, gen_lext_x, gen_lext_y. split; destruct (_ && _); try discriminate; intros E; injection E as <- <-; auto.
Qed.
