(** C02 - the instance the oracle runs (DivWordInst.v: exact division for num-modular's primitives,
    exact multiply-subtract for the multiplication kernel) satisfies every contract the theorems
    assume, so the theorems hold for it unconditionally (this is also their non-vacuity witness). *)
From Dashu Require Import Base.Prelude Base.Words Int.DivWordModel Int.DivWordProofs Int.DivSimpleProofs
  Int.DivLargeProofs Int.DivDCProofs Int.DivReprProofs Int.DivDCTotal Int.DivConstProofs Int.DivWordInst.
From DashuGen Require Import Params.
Open Scope Z_scope.

Section InstProofs.
Variable w : Z.
Hypothesis w_pos : 0 < w.
Notation B := (Words.B w).
Notation value := (Words.value w).
Notation wf := (Words.wf w).

Lemma x1by1_ok d a : norm1 w d -> 0 <= a < B -> x1by1 d a = (a / d, a mod d).
Proof. reflexivity. Qed.
Lemma x2by1_ok d a : norm1 w d -> 0 <= a < d * B -> x2by1 d a = (a / d, a mod d).
Proof. reflexivity. Qed.
Lemma x2by2_ok d a : norm2 w d -> 0 <= a < B * B -> x2by2 d a = (a / d, a mod d).
Proof. reflexivity. Qed.
Lemma x3by2_ok d lo hi : norm2 w d -> 0 <= lo < B -> 0 <= hi < d ->
  x3by2 w d lo hi = ((lo + B * hi) / d, (lo + B * hi) mod d).
Proof. reflexivity. Qed.
Lemma x4by2_ok d lo hi : norm2 w d -> 0 <= lo < B * B -> 0 <= hi < d ->
  x4by2 w d lo hi = ((lo + B * B * hi) / d, (lo + B * B * hi) mod d).
Proof. reflexivity. Qed.

Lemma xmul_sub_ok c a b c' k : wf c -> wf a -> wf b -> length c = (length a + length b)%nat ->
  xmul_sub w c a b = (c', k) ->
  wf c' /\ length c' = length c /\ value c' + B ^ len c * k = value c - value a * value b.
Proof.
  intros _ _ _ _ E. unfold xmul_sub in E. inversion E; subst; clear E.
  pose proof (DivWordProofs.Bpow_pos w w_pos (Z.of_nat (length c)) ltac:(lia)) as HP.
  set (v := value c - value a * value b) in *.
  split; [apply to_words_wf; lia|]. split; [apply to_words_length|].
  rewrite value_to_words by (try lia; apply Z.mod_pos_bound; lia).
  unfold len. pose proof (Z.div_mod v (B ^ Z.of_nat (length c)) ltac:(lia)). lia.
Qed.

Lemma Tn_ge : (2 <= Tn)%nat.
Proof. unfold Tn, div_threshold_simple. lia. Qed.

(** the model the oracle extracts: DivRem of two magnitudes, for every a >= 0, b > 0 *)
Theorem i_repr_div_rem_sound a b q r : 0 <= a -> 0 < b ->
  i_repr_div_rem w a b = Ok (q, r) -> q = a / b /\ r = a mod b.
Proof.
  apply (repr_div_rem_sound w w_pos x2by1 (x3by2 w) (x4by2 w) x2by1_ok x3by2_ok x4by2_ok (xmul_sub w) xmul_sub_ok Tn Tn_ge).
Qed.

Theorem i_div_rem_in_place_sound fuel lhs rhs res c :
  kernel_pre w lhs rhs -> i_div_rem_in_place w fuel lhs rhs = Ok (res, c) -> kernel_post w lhs rhs res c.
Proof.
  apply (div_rem_in_place_sound w w_pos (x3by2 w) x3by2_ok (xmul_sub w) xmul_sub_ok Tn Tn_ge).
Qed.

(** total correctness for the instance: the extracted magnitude operations ARE floor division *)
Theorem i_repr_div_rem_correct a b : 0 <= a -> 0 < b -> i_repr_div_rem w a b = Ok (a / b, a mod b).
Proof.
  apply (repr_div_rem_correct w w_pos (x3by2 w) x3by2_ok (xmul_sub w) xmul_sub_ok Tn Tn_ge x2by1 (x4by2 w) x2by1_ok x4by2_ok).
Qed.

Theorem i_repr_rem_correct a b : 0 <= a -> 0 < b -> i_repr_rem w a b = Ok (a mod b).
Proof.
  apply (repr_rem_correct w w_pos x1by1 x2by1 x2by2 (x3by2 w) (x4by2 w) x1by1_ok x2by1_ok x2by2_ok x3by2_ok x4by2_ok
           (xmul_sub w) xmul_sub_ok Tn Tn_ge).
Qed.

Theorem i_const_div_rem_correct a d : 0 <= a -> 0 < d -> i_const_div_rem w a d = Ok (a / d, a mod d).
Proof.
  apply (const_div_rem_correct w w_pos x2by1 (x3by2 w) (x4by2 w) x2by1_ok x3by2_ok x4by2_ok (xmul_sub w) xmul_sub_ok Tn Tn_ge).
Qed.

Theorem i_const_rem_correct a d : 0 <= a -> 0 < d -> i_const_rem w a d = Ok (a mod d).
Proof.
  apply (const_rem_correct w w_pos x1by1 x2by1 x2by2 (x3by2 w) (x4by2 w) x1by1_ok x2by1_ok x2by2_ok x3by2_ok x4by2_ok
           (xmul_sub w) xmul_sub_ok Tn Tn_ge).
Qed.

Theorem i_instance_correct a b : 0 <= a -> 0 < b ->
  i_repr_div_rem w a b = Ok (a / b, a mod b) /\ i_repr_rem w a b = Ok (a mod b) /\
  i_const_div_rem w a b = Ok (a / b, a mod b) /\ i_const_rem w a b = Ok (a mod b).
Proof.
  intros Ha Hb.
  exact (conj (i_repr_div_rem_correct a b Ha Hb) (conj (i_repr_rem_correct a b Ha Hb)
        (conj (i_const_div_rem_correct a b Ha Hb) (i_const_rem_correct a b Ha Hb)))).
Qed.

End InstProofs.

(** non-vacuity at the 64-bit word: a divide-and-conquer sized operand pair satisfies the
    kernel precondition (checked by computation) *)
Example kernel_pre_nonvacuous :
  let rhs := repeat 0 39 ++ [2 ^ 63] in let lhs := repeat 1 80 in
  Words.wfb 64 lhs = true /\ Words.wfb 64 rhs = true /\ (2 <= length rhs <= length lhs)%nat /\
  (Tn < length rhs)%nat /\ (Tn < length lhs - length rhs)%nat.
Proof. vm_compute. repeat split; try reflexivity; lia. Qed.

Example i_repr_div_rem_example : i_repr_div_rem 64 (2 ^ 200 + 12345) (2 ^ 130 + 7) = Ok ((2 ^ 200 + 12345) / (2 ^ 130 + 7), (2 ^ 200 + 12345) mod (2 ^ 130 + 7)).
Proof. vm_compute. reflexivity. Qed.

(** the divide-and-conquer kernel itself, run inside Coq on such a pair (40-word divisor, 40-word quotient) *)
Example dc_kernel_example :
  let rhs := map (fun i => Z.of_nat i * 7 + 3) (seq 0 39) ++ [2 ^ 63 + 5] in
  let lhs := map (fun i => 2 ^ 64 - 1 - Z.of_nat i) (seq 0 80) in
  match i_dc_div_rem 64 (S (length lhs)) lhs rhs with
  | Ok (res, c) =>
      (Words.value 64 (firstn 40 res) =? Words.value 64 lhs mod Words.value 64 rhs) &&
      (Words.value 64 (skipn 40 res) + 2 ^ (64 * 40) * Z.b2z c =? Words.value 64 lhs / Words.value 64 rhs)
  | _ => false
  end = true.
Proof. vm_compute. reflexivity. Qed.
