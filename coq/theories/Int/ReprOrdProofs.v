(** C05, integer part: proofs about the model of Repr (ReprOrdModel.v).
    For every word size w > 0: on canonical representations == is equality of values, cmp is Z.compare,
    Equal iff ==, equal values give equal hasher input; every constructor returns a canonical
    representation of the right value; canonicity holds after every finite history of constructors. *)
From Dashu Require Import Base.Prelude Base.Words Int.ReprOrdModel.
Open Scope Z_scope.

Lemma zlist_eqb_eq a : forall b, zlist_eqb a b = true <-> a = b.
Proof.
  induction a as [|x a IH]; intros [|y b]; cbn [zlist_eqb]; split; intros H; try reflexivity; try discriminate.
  - apply andb_prop in H. destruct H as [H1 H2]. apply Z.eqb_eq in H1. apply IH in H2. congruence.
  - inversion H; subst. apply andb_true_intro. split; [apply Z.eqb_refl | apply IH; reflexivity].
Qed.

Lemma sign_eqb_eq a b : sign_eqb a b = true <-> a = b.
Proof. destruct a, b; cbn; split; intros H; try reflexivity; discriminate. Qed.

Section Proofs.
Variable w : Z.
Hypothesis w_pos : 0 < w.
Notation B := (Words.B w).
Notation value := (Words.value w).
Notation wf := (Words.wf w).

Let HB : 0 < B := B_pos w w_pos.
Let HB2 : 2 <= B := B_ge_2 w w_pos.

(* ---------------------------------------------------------------- word lists *)

Lemma wf_rev l : wf l -> wf (rev l).
Proof. unfold Words.wf. apply Forall_rev. Qed.

Lemma len_app {A} (a b : list A) : len (a ++ b) = len a + len b.
Proof. unfold len. rewrite app_length, Nat2Z.inj_add. reflexivity. Qed.

Lemma len_rev {A} (a : list A) : len (rev a) = len a.
Proof. unfold len. now rewrite rev_length. Qed.

Lemma len_nonneg {A} (a : list A) : 0 <= len a.
Proof. unfold len. lia. Qed.

Lemma value_snoc l x : value (l ++ [x]) = value l + B ^ len l * x.
Proof. rewrite value_app. cbn [Words.value]. f_equal. ring. Qed.

(** big-endian lexicographic comparison = comparison of the numbers (equal lengths) *)
Lemma lex_cmp_value a : forall b, length a = length b -> wf a -> wf b ->
  lex_cmp a b = (value (rev a) ?= value (rev b)).
Proof.
  induction a as [|x a IH]; intros [|y b] Hl Ha Hb; try discriminate.
  - reflexivity.
  - cbn [length] in Hl. apply wf_cons in Ha. apply wf_cons in Hb. destruct Ha as [Hx Ha], Hb as [Hy Hb].
    cbn [lex_cmp rev]. rewrite !value_snoc, !len_rev.
    assert (El : len a = len b) by (unfold len; lia).
    pose proof (value_bounds w w_pos (rev a) (wf_rev _ Ha)) as Va.
    pose proof (value_bounds w w_pos (rev b) (wf_rev _ Hb)) as Vb.
    rewrite !len_rev in Va, Vb. rewrite <- El in *.
    assert (Hp : 0 < B ^ len a) by (apply Z.pow_pos_nonneg; [lia | apply len_nonneg]).
    destruct (Z.compare_spec x y) as [E|L|G].
    + subst y. rewrite IH by (auto; lia).
      destruct (Z.compare_spec (value (rev a)) (value (rev b))); symmetry;
        [apply Z.compare_eq_iff | apply Z.compare_lt_iff | apply Z.compare_gt_iff]; lia.
    + symmetry. apply Z.compare_lt_iff. nia.
    + symmetry. apply Z.compare_gt_iff. nia.
Qed.

Lemma cmp_same_len_correct l r : length l = length r -> wf l -> wf r ->
  cmp_same_len l r = (value l ?= value r).
Proof.
  intros Hl Hwl Hwr. unfold cmp_same_len.
  rewrite lex_cmp_value by (rewrite ?rev_length; auto using wf_rev).
  now rewrite !rev_involutive.
Qed.

(** a list without leading zero word is at least B^(len-1) *)
Lemma value_lower l : wf l -> l <> [] -> last l 0 <> 0 -> B ^ (len l - 1) <= value l.
Proof.
  intros Hw Hn Hl. destruct (exists_last Hn) as [l' [x E]]. subst l.
  rewrite last_last in Hl. apply wf_app in Hw. destruct Hw as [Hw' Hx].
  apply wf_cons in Hx. destruct Hx as [Hx _].
  rewrite value_snoc, len_app.
  replace (len l' + len [x] - 1) with (len l') by (unfold len; cbn [length]; lia).
  pose proof (value_nonneg w w_pos l' Hw').
  assert (0 < B ^ len l') by (apply Z.pow_pos_nonneg; [lia | apply len_nonneg]). nia.
Qed.

Definition norm (l : list Z) : Prop := wf l /\ (l = [] \/ last l 0 <> 0).

Lemma norm_len_lt l r : norm l -> norm r -> len l < len r -> value l < value r.
Proof.
  intros [Hwl _] [Hwr Hr] Hlt.
  destruct Hr as [->|Hr]; [pose proof (len_nonneg l); cbn in Hlt; lia|].
  assert (r <> []) by (intros ->; pose proof (len_nonneg l); cbn in Hlt; lia).
  pose proof (value_lower r Hwr H Hr). pose proof (value_bounds w w_pos l Hwl) as [_ Hu].
  apply Z.lt_le_trans with (B ^ len l); [exact Hu|].
  apply Z.le_trans with (B ^ (len r - 1)); [apply Z.pow_le_mono_r; [lia | lia] | exact H0].
Qed.

(** cmp_in_place on trimmed operands is the order of the numbers *)
Lemma cmp_in_place_correct l r : norm l -> norm r -> cmp_in_place l r = (value l ?= value r).
Proof.
  intros Nl Nr. unfold cmp_in_place.
  destruct (Z.compare_spec (len l) (len r)) as [E|L|G].
  - apply cmp_same_len_correct; [unfold len in E; lia | apply Nl | apply Nr].
  - symmetry. apply Z.compare_lt_iff. now apply norm_len_lt.
  - symmetry. apply Z.compare_gt_iff. now apply norm_len_lt.
Qed.

(** a trimmed word list is determined by its value *)
Lemma norm_value_inj l r : norm l -> norm r -> value l = value r -> l = r.
Proof.
  intros Nl Nr E.
  destruct (Z.lt_total (len l) (len r)) as [L|[L|L]].
  - pose proof (norm_len_lt l r Nl Nr L). lia.
  - apply (value_inj w w_pos); [apply Nl | apply Nr | unfold len in L; lia | exact E].
  - pose proof (norm_len_lt r l Nr Nl L). lia.
Qed.

(* ---------------------------------------------------------------- canonical representations *)

Lemma canonicalb_ok r : canonicalb w r = true <-> canonical w r.
Proof.
  destruct r as [c lo hi|c ws]; cbn [canonicalb canonical].
  - rewrite !andb_true_iff, orb_true_iff, !andb_true_iff, !negb_true_iff, andb_false_iff,
      !Z.leb_le, !Z.ltb_lt, !Z.eqb_eq, !Z.eqb_neq. intuition lia.
  - rewrite !andb_true_iff, negb_true_iff, !Z.leb_le, Z.eqb_neq, wfb_wf. intuition.
Qed.

Lemma slice_norm r : canonical w r -> norm (as_slice r).
Proof.
  destruct r as [c lo hi|c ws]; cbn [canonical as_slice].
  - intros (Hlo & Hhi & [(E & Hz & _)|(E & Hnz)]).
    + rewrite E. cbn [Z.eqb Pos.eqb]. destruct (Z.eqb_spec lo 0).
      * split; [apply wf_nil | now left].
      * split; [apply wf_cons; split; [lia | apply wf_nil] | right; cbn; exact n].
    + rewrite E. cbn [Z.eqb Pos.eqb]. split.
      * apply wf_cons; split; [lia|]. apply wf_cons; split; [lia | apply wf_nil].
      * right. cbn. exact Hnz.
  - intros (H3 & Hc & Hw & Hl). split; [exact Hw | now right].
Qed.

(** inline data read as a double word is the value of the slice; heap data is at least B^2 *)
Lemma typed_value r : canonical w r ->
  match as_typed w r with
  | RefSmall dw => dw = value (as_slice r) /\ 0 <= dw < B * B
  | RefLarge ws => ws = as_slice r /\ B * B <= value ws
  end.
Proof.
  destruct r as [c lo hi|c ws]; cbn [canonical as_typed as_slice].
  - intros (Hlo & Hhi & [(E & Hz & _)|(E & Hnz)]); rewrite E; cbn [Z.eqb Pos.eqb].
    + subst hi. destruct (Z.eqb_spec lo 0); cbn [Words.value]; split; nia.
    + cbn [Words.value]. split; nia.
  - intros (H3 & Hc & Hw & Hl). split; [reflexivity|].
    assert (ws <> []) by (intros ->; cbn in H3; lia).
    pose proof (value_lower ws Hw H Hl).
    apply Z.le_trans with (B ^ (len ws - 1)); [|exact H0].
    replace (B * B) with (B ^ 2) by ring. apply Z.pow_le_mono_r; lia.
Qed.

Lemma typed_cmp_correct a b : canonical w a -> canonical w b ->
  typed_cmp (as_typed w a) (as_typed w b) = (value (as_slice a) ?= value (as_slice b)).
Proof.
  intros Ca Cb. pose proof (typed_value a Ca) as Ta. pose proof (typed_value b Cb) as Tb.
  pose proof (slice_norm a Ca) as Na. pose proof (slice_norm b Cb) as Nb.
  destruct (as_typed w a) as [d0|w0], (as_typed w b) as [d1|w1]; cbn [typed_cmp].
  - destruct Ta as [-> _], Tb as [-> _]. reflexivity.
  - destruct Ta as [-> Ha], Tb as [-> Hb]. symmetry. apply Z.compare_lt_iff. lia.
  - destruct Ta as [-> Ha], Tb as [-> Hb]. symmetry. apply Z.compare_gt_iff. lia.
  - destruct Ta as [-> _], Tb as [-> _]. now apply cmp_in_place_correct.
Qed.

Lemma slice_value_nonneg r : canonical w r -> 0 <= value (as_slice r).
Proof. intros C. apply (value_nonneg w w_pos). apply slice_norm. exact C. Qed.

(** a negative representation is never zero *)
Lemma negative_nonzero r : canonical w r -> rsign r = Negative -> 0 < value (as_slice r).
Proof.
  destruct r as [c lo hi|c ws]; unfold rsign; cbn [canonical capacity_field as_slice].
  - intros (Hlo & Hhi & [(E & Hz & Hn)|(E & Hnz)]) S; destruct (Z.gtb_spec c 0); try discriminate.
    + assert (c = -1) by lia. specialize (Hn H0). rewrite E. cbn [Z.eqb Pos.eqb].
      destruct (Z.eqb_spec lo 0); [contradiction|]. cbn [Words.value]. lia.
    + rewrite E. cbn [Z.eqb Pos.eqb Words.value]. nia.
  - intros C _. pose proof (typed_value (Heap c ws) C) as T. cbn [as_typed as_slice] in T. nia.
Qed.

Lemma rvalue_sign r : canonical w r ->
  match rsign r with Positive => 0 <= rvalue w r | Negative => rvalue w r < 0 end.
Proof.
  intros C. unfold rvalue, signed. destruct (rsign r) eqn:S; cbn [sgnz].
  - pose proof (slice_value_nonneg r C). lia.
  - pose proof (negative_nonzero r C S). lia.
Qed.

(** equal values have equal sign and equal words *)
Lemma rvalue_inj a b : canonical w a -> canonical w b -> rvalue w a = rvalue w b ->
  rsign a = rsign b /\ as_slice a = as_slice b.
Proof.
  intros Ca Cb E.
  pose proof (rvalue_sign a Ca) as Sa. pose proof (rvalue_sign b Cb) as Sb.
  assert (rsign a = rsign b) as Es by (destruct (rsign a), (rsign b); try reflexivity; lia).
  split; [exact Es|].
  apply norm_value_inj; [now apply slice_norm | now apply slice_norm|].
  unfold rvalue, signed in E. rewrite Es in E. destruct (rsign b); cbn [sgnz] in E; lia.
Qed.

(* ---------------------------------------------------------------- ==, cmp, hash follow the value *)

Theorem repr_eq_correct a b : canonical w a -> canonical w b ->
  (repr_eq a b = true <-> rvalue w a = rvalue w b).
Proof.
  intros Ca Cb. unfold repr_eq. rewrite andb_true_iff, sign_eqb_eq, zlist_eqb_eq. split.
  - intros [Es El]. unfold rvalue. now rewrite Es, El.
  - now apply rvalue_inj.
Qed.

Theorem abs_cmp_correct a b : canonical w a -> canonical w b ->
  abs_cmp w a b = (Z.abs (rvalue w a) ?= Z.abs (rvalue w b)).
Proof.
  intros Ca Cb. unfold abs_cmp. rewrite typed_cmp_correct by assumption.
  pose proof (slice_value_nonneg a Ca). pose proof (slice_value_nonneg b Cb).
  unfold rvalue, signed. f_equal; [destruct (rsign a) | destruct (rsign b)]; cbn [sgnz]; lia.
Qed.

Theorem ibig_cmp_correct a b : canonical w a -> canonical w b ->
  ibig_cmp w a b = (rvalue w a ?= rvalue w b).
Proof.
  intros Ca Cb. unfold ibig_cmp.
  pose proof (rvalue_sign a Ca) as Sa. pose proof (rvalue_sign b Cb) as Sb.
  pose proof (typed_cmp_correct a b Ca Cb) as Tab. pose proof (typed_cmp_correct b a Cb Ca) as Tba.
  unfold rvalue, signed in *. destruct (rsign a), (rsign b); cbn [sgnz] in *.
  - rewrite Tab. f_equal; lia.
  - symmetry. apply Z.compare_gt_iff. lia.
  - symmetry. apply Z.compare_lt_iff. lia.
  - rewrite Tba. rewrite <- (Z.compare_opp (-1 * _) (-1 * _)). f_equal; lia.
Qed.

(** impl Ord for UBig on two non-negative values *)
Theorem ubig_cmp_correct a b : canonical w a -> canonical w b -> rsign a = Positive -> rsign b = Positive ->
  ubig_cmp w a b = (rvalue w a ?= rvalue w b).
Proof.
  intros Ca Cb Sa Sb. unfold ubig_cmp. rewrite typed_cmp_correct by assumption.
  unfold rvalue, signed. rewrite Sa, Sb. cbn [sgnz]. f_equal; lia.
Qed.

Theorem cmp_eq_iff_eq a b : canonical w a -> canonical w b ->
  (ibig_cmp w a b = Eq <-> repr_eq a b = true).
Proof.
  intros Ca Cb. rewrite ibig_cmp_correct, repr_eq_correct by assumption. apply Z.compare_eq_iff.
Qed.

Theorem abs_eq_correct a b : canonical w a -> canonical w b ->
  (abs_eq a b = true <-> Z.abs (rvalue w a) = Z.abs (rvalue w b)).
Proof.
  intros Ca Cb. unfold abs_eq. rewrite zlist_eqb_eq.
  pose proof (slice_value_nonneg a Ca). pose proof (slice_value_nonneg b Cb).
  assert (forall r, 0 <= value (as_slice r) -> Z.abs (rvalue w r) = value (as_slice r)) as Habs.
  { intros r Hr. unfold rvalue, signed. destruct (rsign r); cbn [sgnz]; lia. }
  rewrite !Habs by assumption. split.
  - now intros ->.
  - intros E. apply norm_value_inj; auto using slice_norm.
Qed.

Theorem hash_input_eq a b : canonical w a -> canonical w b -> rvalue w a = rvalue w b ->
  hash_input a = hash_input b.
Proof.
  intros Ca Cb E. destruct (rvalue_inj a b Ca Cb E) as [Es El]. unfold hash_input. now rewrite Es, El.
Qed.

(** ... and different values give different hasher input (the input determines the value) *)
Theorem hash_input_inj a b : canonical w a -> canonical w b -> hash_input a = hash_input b ->
  rvalue w a = rvalue w b.
Proof.
  intros Ca Cb E. unfold hash_input in E. inversion E as [[Ed El Es]].
  unfold rvalue. rewrite Es. f_equal. destruct (rsign a), (rsign b); cbn in Ed; try reflexivity; discriminate.
Qed.

(* ---------------------------------------------------------------- constructors *)

Lemma from_word_ok n : 0 <= n < B -> canonical w (from_word n) /\ rvalue w (from_word n) = n.
Proof.
  intros Hn. split.
  - cbn [from_word canonical]. repeat split; try lia; try (left; repeat split; lia).
  - unfold rvalue, from_word, rsign. cbn [capacity_field as_slice Z.abs Z.eqb Pos.eqb Z.gtb Z.compare].
    destruct (Z.eqb_spec n 0); unfold signed; cbn [Words.value sgnz]; lia.
Qed.

Lemma from_dword_ok n : 0 <= n < B * B -> canonical w (from_dword w n) /\ rvalue w (from_dword w n) = n.
Proof.
  intros Hn. unfold from_dword.
  pose proof (Z.mod_pos_bound n B HB) as Hlo.
  assert (0 <= n / B < B) as Hhi by (split; [apply Z.div_pos; lia | apply Z.div_lt_upper_bound; lia]).
  pose proof (Z.div_mod n B ltac:(lia)) as Hdm.
  destruct (Z.eqb_spec (n / B) 0) as [E|E].
  - split.
    + cbn [canonical]. repeat split; try lia; try (left; repeat split; lia).
    + unfold rvalue, rsign. cbn [capacity_field as_slice]. replace (1 + 0) with 1 by lia.
      cbn [Z.abs Z.eqb Pos.eqb Z.gtb Z.compare]. destruct (Z.eqb_spec (n mod B) 0); unfold signed; cbn [Words.value sgnz]; lia.
  - split.
    + cbn [canonical]. repeat split; try lia; try (right; split; [reflexivity | exact E]).
    + unfold rvalue, rsign. cbn [capacity_field as_slice]. replace (1 + 1) with 2 by lia.
      unfold signed; cbn [Z.abs Z.eqb Pos.eqb Z.gtb Z.compare Words.value sgnz]. lia.
Qed.

Lemma pop_zeros_ok ws : wf ws ->
  norm (pop_zeros ws) /\ value (pop_zeros ws) = value ws /\ len (pop_zeros ws) <= len ws.
Proof.
  induction ws as [|x r IH]; intros Hw.
  - cbn [pop_zeros]. repeat split; [apply wf_nil | now left | lia].
  - apply wf_cons in Hw. destruct Hw as [Hx Hr]. destruct (IH Hr) as ([Hwn Hn] & Hv & Hl).
    cbn [pop_zeros Words.value]. destruct (pop_zeros r) as [|y r'] eqn:E.
    + cbn [Words.value] in Hv. destruct (Z.eqb_spec x 0).
      * repeat split; [apply wf_nil | now left | cbn [Words.value]; lia | unfold len in *; cbn [length] in *; lia].
      * repeat split; [apply wf_cons; split; [lia | apply wf_nil] | right; cbn; exact n | cbn [Words.value]; lia
                       | unfold len in *; cbn [length] in *; lia].
    + repeat split.
      * apply wf_cons. split; assumption.
      * right. destruct Hn as [Hn|Hn]; [discriminate|]. cbn [last] in *. exact Hn.
      * cbn [Words.value] in *. lia.
      * unfold len in *. cbn [length] in *. lia.
Qed.

Lemma default_capacity_ge n : 0 <= n -> n <= default_capacity n.
Proof. intros Hn. unfold default_capacity. pose proof (Z.div_pos n 8 Hn ltac:(lia)). lia. Qed.

Lemma shrink_cap_ge cap n : 0 <= n -> n <= cap -> n <= shrink_cap cap n.
Proof.
  intros Hn Hc. unfold shrink_cap. destruct (cap >? max_compact_capacity n); [now apply default_capacity_ge | exact Hc].
Qed.

Lemma from_buffer_ok cap ws : wf ws -> len ws <= cap ->
  canonical w (from_buffer w cap ws) /\ rvalue w (from_buffer w cap ws) = value ws.
Proof.
  intros Hw Hc. destruct (pop_zeros_ok ws Hw) as ([Hwn Hn] & Hv & Hl). unfold from_buffer.
  destruct (pop_zeros ws) as [|a [|b [|c r]]] eqn:E.
  - cbn [Words.value] in Hv. rewrite <- Hv. apply from_word_ok. lia.
  - apply wf_cons in Hwn. destruct Hwn as [Ha _]. cbn [Words.value] in Hv. rewrite <- Hv.
    replace (a + B * 0) with a by ring. now apply from_word_ok.
  - apply wf_cons in Hwn. destruct Hwn as [Ha Hwn]. apply wf_cons in Hwn. destruct Hwn as [Hb _].
    cbn [Words.value] in Hv. rewrite <- Hv. replace (a + B * (b + B * 0)) with (a + B * b) by ring.
    apply from_dword_ok. nia.
  - set (l := a :: b :: c :: r) in *.
    assert (3 <= len l) by (unfold l, len; cbn [length]; lia).
    split.
    + cbn [canonical]. split; [exact H|]. split.
      * assert (len l <= shrink_cap cap (len l)) by (apply shrink_cap_ge; lia).
        assert (0 <= shrink_cap cap (len l)) by lia. lia.
      * split; [exact Hwn|]. destruct Hn as [Hn|Hn]; [discriminate | exact Hn].
    + unfold rvalue, rsign. cbn [capacity_field as_slice].
      assert (len l <= shrink_cap cap (len l)) by (apply shrink_cap_ge; lia).
      destruct (Z.gtb_spec (shrink_cap cap (len l)) 0); [|lia]. unfold signed; cbn [sgnz]. lia.
Qed.

Lemma value_repeat_max k : value (repeat (B - 1) k) = B ^ Z.of_nat k - 1.
Proof.
  induction k as [|k IH]; [reflexivity|].
  cbn [repeat Words.value]. rewrite IH, Nat2Z.inj_succ, Z.pow_succ_r by lia. ring.
Qed.

Lemma wf_repeat_max k : wf (repeat (B - 1) k).
Proof. induction k; cbn [repeat]; [apply wf_nil | apply wf_cons; split; [lia | assumption]]. Qed.

Lemma last_repeat {A} (x d : A) k : (0 < k)%nat -> last (repeat x k) d = x.
Proof.
  induction k as [|k IH]; [lia|]. intros _. cbn [repeat]. destruct k; [reflexivity|].
  cbn [repeat last] in *. apply IH. lia.
Qed.

Lemma ones_ok n : 0 <= n -> canonical w (ones w n) /\ rvalue w (ones w n) = 2 ^ n - 1.
Proof.
  intros Hn. unfold ones. unfold Words.B in *.
  assert (0 < 2 ^ n) by (apply Z.pow_pos_nonneg; lia).
  destruct (Z.ltb_spec n w) as [L1|L1].
  - apply from_word_ok. unfold Words.B. split; [lia|].
    assert (2 ^ n < 2 ^ w) by (apply Z.pow_lt_mono_r; lia). lia.
  - destruct (Z.leb_spec n (2 * w)) as [L2|L2].
    + apply from_dword_ok. unfold Words.B. rewrite <- Z.pow_add_r by lia. split; [lia|].
      assert (2 ^ n <= 2 ^ (w + w)) by (apply Z.pow_le_mono_r; lia). lia.
    + set (k := n / w). set (r := n mod w).
      pose proof (Z.div_mod n w ltac:(lia)) as Hdm. pose proof (Z.mod_pos_bound n w w_pos) as Hr.
      fold k r in Hdm, Hr.
      assert (2 <= k) by (unfold k; apply Z.div_le_lower_bound; lia).
      assert (Hk : Z.of_nat (Z.to_nat k) = k) by lia.
      unfold ones_words. fold k r. fold (Words.B w).
      assert (0 < 2 ^ r) by (apply Z.pow_pos_nonneg; lia).
      assert (2 ^ r < 2 ^ w) by (apply Z.pow_lt_mono_r; lia).
      assert (Hval : value (repeat (B - 1) (Z.to_nat k) ++ (if r >? 0 then [2 ^ r - 1] else [])) = 2 ^ n - 1).
      { rewrite value_app, value_repeat_max. unfold len. rewrite repeat_length, Hk.
        unfold Words.B. rewrite <- Z.pow_mul_r by lia.
        replace (2 ^ n) with (2 ^ (w * k) * 2 ^ r) by (rewrite <- Z.pow_add_r by nia; f_equal; lia).
        destruct (Z.gtb_spec r 0); cbn [Words.value].
        - ring.
        - assert (r = 0) by lia. subst r. rewrite H4 in *. rewrite Z.pow_0_r. ring. }
      assert (Hlen : len (repeat (B - 1) (Z.to_nat k) ++ (if r >? 0 then [2 ^ r - 1] else [])) = k + (if r >? 0 then 1 else 0)).
      { rewrite len_app. unfold len at 1. rewrite repeat_length, Hk. destruct (r >? 0); reflexivity. }
      split.
      * cbn [canonical]. rewrite Hlen. split; [|split; [|split]].
        -- destruct (Z.gtb_spec r 0); nia.
        -- pose proof (default_capacity_ge (k + 1) ltac:(lia)).
           assert (0 <= default_capacity (k + 1)) by lia. destruct (r >? 0); lia.
        -- apply wf_app. split; [apply wf_repeat_max|]. destruct (r >? 0); [|apply wf_nil].
           apply wf_cons. split; [unfold Words.B; lia | apply wf_nil].
        -- destruct (Z.gtb_spec r 0).
           ++ rewrite last_last. assert (2 ^ 1 <= 2 ^ r) by (apply Z.pow_le_mono_r; lia). lia.
           ++ rewrite app_nil_r. rewrite last_repeat by lia. unfold Words.B. lia.
      * unfold rvalue, rsign. cbn [capacity_field as_slice].
        pose proof (default_capacity_ge (k + 1) ltac:(lia)).
        destruct (Z.gtb_spec (default_capacity (k + 1)) 0); [|lia]. unfold signed; cbn [sgnz]. rewrite Hval. lia.
Qed.

Lemma r_is_zero_value r : canonical w r -> (r_is_zero r = true <-> rvalue w r = 0).
Proof.
  intros C. pose proof (rvalue_sign r C) as S. pose proof (slice_norm r C) as N.
  destruct r as [c lo hi|c ws]; cbn [r_is_zero].
  - cbn [canonical] in C. destruct C as (Hlo & Hhi & [(E & Hz & Hn)|(E & Hnz)]).
    + rewrite E. cbn [Z.eqb Pos.eqb andb]. unfold rvalue, signed. cbn [as_slice]. rewrite E. cbn [Z.eqb Pos.eqb].
      destruct (Z.eqb_spec lo 0); cbn [Words.value].
      * split; [intros _; lia | reflexivity].
      * split; [discriminate|]. destruct (rsign (Inline c lo hi)); cbn [sgnz]; lia.
    + rewrite E. cbn [Z.eqb Pos.eqb andb]. unfold rvalue, signed. cbn [as_slice]. rewrite E. cbn [Z.eqb Pos.eqb Words.value].
      split; [discriminate|]. destruct (rsign (Inline c lo hi)); cbn [sgnz]; nia.
  - split; [discriminate|]. pose proof (typed_value (Heap c ws) C) as T. cbn [as_typed as_slice] in T.
    unfold rvalue, signed. cbn [as_slice]. destruct (rsign (Heap c ws)); cbn [sgnz]; nia.
Qed.

Lemma flip_ok r : canonical w r -> r_is_zero r = false ->
  canonical w (flip r) /\ rvalue w (flip r) = - rvalue w r.
Proof.
  intros C Z0. destruct r as [c lo hi|c ws]; cbn [flip].
  - cbn [canonical] in *. destruct C as (Hlo & Hhi & HC). cbn [r_is_zero] in Z0.
    assert (c <> 0) by (destruct HC as [(E & _)|(E & _)]; lia).
    split.
    + repeat split; lia.
    + unfold rvalue, rsign. cbn [capacity_field as_slice]. rewrite Z.abs_opp.
      destruct (Z.gtb_spec (- c) 0), (Z.gtb_spec c 0); try lia; unfold signed; cbn [sgnz]; lia.
  - cbn [canonical] in *. destruct C as (H3 & Hc & Hw & Hl).
    split.
    + rewrite Z.abs_opp. auto.
    + unfold rvalue, rsign. cbn [capacity_field as_slice].
      assert (c <> 0) by lia.
      destruct (Z.gtb_spec (- c) 0), (Z.gtb_spec c 0); try lia; unfold signed; cbn [sgnz]; lia.
Qed.

Lemma rneg_ok r : canonical w r -> canonical w (rneg r) /\ rvalue w (rneg r) = - rvalue w r.
Proof.
  intros C. unfold rneg. destruct (r_is_zero r) eqn:Z0.
  - split; [exact C|]. apply (r_is_zero_value r C) in Z0. lia.
  - now apply flip_ok.
Qed.

Lemma with_sign_ok r s : canonical w r ->
  canonical w (with_sign r s) /\ rvalue w (with_sign r s) = signed s (Z.abs (rvalue w r)).
Proof.
  intros C. unfold with_sign. pose proof (rvalue_sign r C) as S. unfold rsign in S.
  destruct (r_is_zero r) eqn:Z0; cbn [negb andb].
  - split; [exact C|]. apply (r_is_zero_value r C) in Z0. rewrite Z0. unfold signed. cbn. lia.
  - destruct (flip_ok r C Z0) as [Cf Vf].
    destruct s, (capacity_field r >? 0); cbn [xorb]; unfold signed; cbn [sgnz]; (split; [assumption|]); lia.
Qed.

Lemma rclone_ok r : canonical w r -> canonical w (rclone r) /\ rvalue w (rclone r) = rvalue w r.
Proof.
  intros C. pose proof (rvalue_sign r C) as S.
  assert (canonical w (match r with Inline c lo hi => Inline (Z.abs c) lo hi | Heap c ws => Heap (default_capacity (len ws)) ws end)
          /\ Z.abs (rvalue w (match r with Inline c lo hi => Inline (Z.abs c) lo hi | Heap c ws => Heap (default_capacity (len ws)) ws end)) = Z.abs (rvalue w r)) as [C' V'].
  { destruct r as [c lo hi|c ws].
    - cbn [canonical] in *. destruct C as (Hlo & Hhi & HC). split.
      + repeat split; lia.
      + unfold rvalue, rsign, signed. cbn [capacity_field as_slice]. rewrite Z.abs_involutive.
        destruct (Z.abs c >? 0), (c >? 0); cbn [sgnz]; lia.
    - cbn [canonical] in *. destruct C as (H3 & Hc & Hw & Hl).
      pose proof (default_capacity_ge (len ws) ltac:(lia)). split.
      + repeat split; auto; lia.
      + unfold rvalue, rsign, signed. cbn [capacity_field as_slice].
        destruct (default_capacity (len ws) >? 0), (c >? 0); cbn [sgnz]; lia. }
  unfold rclone. destruct r as [c lo hi|c ws]; cbn beta iota in C', V'.
  - destruct (with_sign_ok (Inline (Z.abs c) lo hi) (rsign (Inline c lo hi)) C') as [C3 V3].
    split; [exact C3|]. rewrite V3, V'. unfold signed. destruct (rsign (Inline c lo hi)); cbn [sgnz]; lia.
  - destruct (with_sign_ok (Heap (default_capacity (len ws)) ws) (rsign (Heap c ws)) C') as [C3 V3].
    split; [exact C3|]. rewrite V3, V'. unfold signed. destruct (rsign (Heap c ws)); cbn [sgnz]; lia.
Qed.

Lemma rclone_from_ok self src : canonical w src ->
  canonical w (rclone_from self src) /\ rvalue w (rclone_from self src) = rvalue w src.
Proof.
  intros C. destruct src as [c lo hi|c ws]; cbn [rclone_from]; [split; [exact C | reflexivity]|].
  cbn [canonical] in C. destruct C as (H3 & Hc & Hw & Hl).
  set (n := len ws) in *. set (cap := capacity self).
  set (newcap := if (cap <? n) || (cap >? max_compact_capacity n) then default_capacity n else cap).
  assert (n <= newcap).
  { unfold newcap. destruct (Z.ltb_spec cap n); cbn [orb]; [apply default_capacity_ge; lia|].
    destruct (cap >? max_compact_capacity n); [apply default_capacity_ge; lia | lia]. }
  unfold rvalue, rsign. cbn [capacity_field as_slice].
  destruct (Z.gtb_spec c 0) as [Hp|Hp]; cbn beta iota.
  - destruct (Z.gtb_spec newcap 0); [|lia]. split; [|reflexivity].
    cbn [canonical]. fold n. repeat split; auto; lia.
  - destruct (Z.gtb_spec (- newcap) 0); [lia|]. split; [|reflexivity].
    cbn [canonical]. fold n. rewrite Z.abs_opp. repeat split; auto; lia.
Qed.

Lemma from_ref_ok r : canonical w r ->
  canonical w (from_ref w (as_typed w r)) /\ rvalue w (from_ref w (as_typed w r)) = Z.abs (rvalue w r).
Proof.
  intros C. pose proof (typed_value r C) as T. pose proof (slice_value_nonneg r C) as Hv.
  assert (Z.abs (rvalue w r) = value (as_slice r)) as ->.
  { unfold rvalue, signed. destruct (rsign r); cbn [sgnz]; lia. }
  destruct (as_typed w r) as [dw|ws]; cbn [from_ref].
  - destruct T as [E Hb]. rewrite <- E. now apply from_dword_ok.
  - destruct T as [E Hb]. subst ws. pose proof (slice_norm r C) as [Hw _].
    apply from_buffer_ok; [exact Hw | apply default_capacity_ge, len_nonneg].
Qed.

(* ---------------------------------------------------------------- histories *)

Lemma pool_get_canonical p i : Forall (canonical w) p -> canonical w (pool_get p i).
Proof.
  intros F. unfold pool_get. destruct (nth_in_or_default i p (from_word 0)) as [Hin| ->].
  - rewrite Forall_forall in F. now apply F.
  - apply from_word_ok. lia.
Qed.

Lemma pool_set_canonical p : forall i r, Forall (canonical w) p -> canonical w r -> Forall (canonical w) (pool_set p i r).
Proof.
  induction p as [|x p IH]; intros i r F C; cbn [pool_set]; [constructor|].
  inversion F; subst. destruct i; constructor; auto.
Qed.

Lemma hstep_canonical p o : Forall (canonical w) p -> hop_ok w o -> Forall (canonical w) (hstep w p o).
Proof.
  intros F Ho.
  assert (forall r, canonical w r -> Forall (canonical w) (p ++ [r])) as Happ.
  { intros r C. apply Forall_app. split; [exact F | constructor; [exact C | constructor]]. }
  destruct o; cbn [hstep hop_ok] in *.
  - apply Happ, from_word_ok, Ho.
  - apply Happ, from_dword_ok, Ho.
  - apply Happ, from_buffer_ok; apply Ho.
  - apply Happ, ones_ok, Ho.
  - apply Happ, rneg_ok, pool_get_canonical, F.
  - apply Happ, with_sign_ok, pool_get_canonical, F.
  - apply Happ, rclone_ok, pool_get_canonical, F.
  - apply pool_set_canonical; [exact F|]. apply rclone_from_ok, pool_get_canonical, F.
  - apply Happ, with_sign_ok, from_ref_ok, pool_get_canonical, F.
Qed.

(** the invariant holds after every finite history *)
Theorem hrun_canonical os : forall p, Forall (canonical w) p -> Forall (hop_ok w) os ->
  Forall (canonical w) (hrun w p os).
Proof.
  induction os as [|o os IH]; intros p F Ho; cbn [hrun fold_left]; [exact F|].
  inversion Ho; subst. apply IH; [now apply hstep_canonical | assumption].
Qed.

(** the property for any two values produced by any history *)
Theorem history_values_compare os a b : Forall (hop_ok w) os ->
  In a (hrun w [] os) -> In b (hrun w [] os) ->
  (repr_eq a b = true <-> rvalue w a = rvalue w b) /\
  ibig_cmp w a b = (rvalue w a ?= rvalue w b) /\
  (ibig_cmp w a b = Eq <-> repr_eq a b = true) /\
  (rvalue w a = rvalue w b -> hash_input a = hash_input b).
Proof.
  intros Ho Ia Ib. pose proof (hrun_canonical os [] (Forall_nil _) Ho) as F.
  rewrite Forall_forall in F. pose proof (F a Ia) as Ca. pose proof (F b Ib) as Cb.
  repeat split; try (apply repr_eq_correct; assumption); try (apply cmp_eq_iff_eq; assumption).
  - now apply ibig_cmp_correct.
  - now apply hash_input_eq.
Qed.

End Proofs.

(* ---------------------------------------------------------------- the pinned defect and non-vacuity *)

(** DESIGN finding 3 (fixed in 28de539): on 64-bit words the old [ones 128] is not canonical, equal to
    2^128-1 by == and by value, yet ordered Greater *)
Lemma ones_pinned_refuted :
  let a := ones_pinned 64 128 in
  let b := from_dword 64 (2 ^ 128 - 1) in
  canonicalb 64 a = false /\ canonicalb 64 b = true /\ rvalue 64 a = rvalue 64 b /\
  repr_eq a b = true /\ ubig_cmp 64 a b = Gt.
Proof. vm_compute. repeat split. Qed.

Example ones_now_canonical : canonicalb 64 (ones 64 128) = true /\ ubig_cmp 64 (ones 64 128) (from_dword 64 (2 ^ 128 - 1)) = Eq.
Proof. vm_compute. split; reflexivity. Qed.

Example history_example :
  let os := [HFromBuffer 7 [5; 0; 0; 0]; HOnes 200; HNeg 1%nat; HClone 2%nat; HCloneFrom 0%nat 1%nat; HFromRef 2%nat] in
  forallb (canonicalb 64) (hrun 64 [] os) = true /\ map (rvalue 64) (hrun 64 [] os) = [2 ^ 200 - 1; 2 ^ 200 - 1; - (2 ^ 200 - 1); - (2 ^ 200 - 1); - (2 ^ 200 - 1)].
Proof. vm_compute. split; reflexivity. Qed.
