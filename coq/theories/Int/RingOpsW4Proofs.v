(** C01 round 4: the word-level Small x Large arms (RingOpsW4.v) equal the arms proved exact in round 3, hence
    repr_mul_w4 = a * b, canonical, for every word size w >= 8 and all operands.
    (1) C09's word-level shl_in_place = the by-value shift of RingOps.v on well-formed words (both meet
        `r + B^n c = v 2^k`, 0 <= c < B, which determines the answer);
    (2) the shl_in_place REGENERATED from shift.rs equals C09's model (all inputs);
    (3) cmp_in_place l r = Eq exactly when the word lists are equal (all lists). *)
From Dashu Require Import Base.Prelude Base.Words Int.RingSpec Int.RingAdd Int.RingAddProofs Int.RingMul Int.RingMulProofs
  Int.RingOps Int.RingOpsProofs Int.RingOpsMulProofs Int.DivWordProofs Int.RingMulW Int.RingMulWProofs Int.RingOpsW Int.RingOpsWProofs
  Int.RingOpsW4 Int.WordPrims.
From Dashu Require Int.BitsKernels Int.BitsShiftProofs Int.ReprOrdModel.
From DashuGen Require Import WordKernelsGen.
Open Scope Z_scope.

(** (2) regenerated shift loop = C09's model *)
Lemma shl_loop_gen_eq w s ws : forall carry, shl_in_place_loop_gen w s ws carry = BitsKernels.shl_loop w s ws carry.
Proof.
  induction ws as [|x r IH]; intros carry; [reflexivity|].
  cbn [shl_in_place_loop_gen BitsKernels.shl_loop]. unfold wsplit_dword. rewrite IH.
  destruct (BitsKernels.shl_loop w s r (Z.shiftl x s / B w)); reflexivity.
Qed.
Theorem shl_in_place_gen_eq w ws s : shl_in_place_gen w ws s = BitsKernels.shl_in_place w ws s.
Proof.
  unfold shl_in_place_gen, BitsKernels.shl_in_place. destruct (s =? 0); [reflexivity|].
  cbv zeta. rewrite shl_loop_gen_eq. destruct (BitsKernels.shl_loop w s ws 0); reflexivity.
Qed.

(** (3) the square shortcut *)
Lemma lex_cmp_eq a : forall b, ReprOrdModel.lex_cmp a b = Eq -> a = b.
Proof.
  induction a as [|x a IH]; intros [|y b] H; cbn [ReprOrdModel.lex_cmp] in H; try discriminate; [reflexivity|].
  destruct (Z.compare_spec x y) as [E|L|G]; try discriminate. subst y. f_equal. apply IH. exact H.
Qed.
Lemma lex_cmp_refl a : ReprOrdModel.lex_cmp a a = Eq.
Proof. induction a as [|x a IH]; [reflexivity|]. cbn [ReprOrdModel.lex_cmp]. now rewrite Z.compare_refl. Qed.
Lemma list_eqb_refl a : list_eqb a a = true.
Proof.
  unfold list_eqb. rewrite Nat.eqb_refl. cbn [andb]. induction a as [|x a IH]; [reflexivity|].
  cbn [combine forallb fst snd]. now rewrite Z.eqb_refl, IH.
Qed.
Theorem cmp_in_place_is_eq a b :
  list_eqb a b = match ReprOrdModel.cmp_in_place a b with Eq => true | _ => false end.
Proof.
  destruct (list_eqb a b) eqn:E.
  - apply list_eqb_eq in E. subst b. unfold ReprOrdModel.cmp_in_place, ReprOrdModel.cmp_same_len.
    now rewrite Z.compare_refl, lex_cmp_refl.
  - destruct (ReprOrdModel.cmp_in_place a b) eqn:C; try reflexivity. exfalso.
    unfold ReprOrdModel.cmp_in_place, ReprOrdModel.cmp_same_len in C.
    destruct (len a ?= len b); try discriminate. apply lex_cmp_eq in C.
    assert (a = b) by (rewrite <- (rev_involutive a), <- (rev_involutive b); now f_equal).
    subst b. rewrite list_eqb_refl in E. discriminate.
Qed.

Section ShlW.
Variable w : Z.
Hypothesis w_ge : 8 <= w.
Let w_pos : 0 < w. Proof. lia. Qed.

(** (1) word-level shift = by-value shift *)
Lemma shl_in_place_word_level ws k : wf w ws -> 0 <= k < w ->
  BitsKernels.shl_in_place w ws k = RingOps.shl_in_place w ws k.
Proof.
  intros Hw Hk. pose proof (BitsShiftProofs.shl_in_place_correct w w_pos ws k Hk Hw) as H.
  destruct (BitsKernels.shl_in_place w ws k) as [r c]. destruct H as (Wr & L & V & C).
  unfold RingOps.shl_in_place. set (v := value w ws * 2 ^ k) in *. set (m := B w ^ len ws) in *.
  assert (Hm : 0 < m) by (apply Z.pow_pos_nonneg; [apply B_pos; lia | unfold len; lia]).
  pose proof (value_bounds w w_pos r Wr) as Hb. replace (len r) with (len ws) in Hb by (unfold len; now rewrite L).
  fold m in Hb.
  assert (E1 : value w r = v mod m) by (apply (Z.mod_unique_pos v m c (value w r)); lia).
  assert (E2 : c = v / m) by (apply (Z.div_unique_pos v m c (value w r)); lia).
  f_equal; [|exact E2].
  apply (value_inj w w_pos); [exact Wr | apply to_words_wf; lia | now rewrite to_words_length |].
  rewrite (value_to_words w w_pos); [exact E1|]. apply Z.mod_pos_bound. exact Hm.
Qed.

Lemma log2_pow2_lt rhs : 1 < rhs < B w -> 0 <= Z.log2 rhs < w.
Proof.
  intros H. split; [apply Z.log2_nonneg|]. apply Z.log2_lt_pow2; [lia|]. unfold B in H. lia.
Qed.

Theorem mul_large_dword_w_eq buffer rhs : wf w buffer -> 0 <= rhs < B w * B w ->
  mul_large_dword_w w buffer rhs = mul_large_dword w buffer rhs.
Proof.
  intros Hw Hr. unfold mul_large_dword_w, mul_large_dword.
  destruct (Z.eqb_spec rhs 0); [reflexivity|]. destruct (Z.eqb_spec rhs 1); [reflexivity|].
  destruct (Z.ltb_spec rhs (B w)); [|reflexivity].
  destruct (is_power_of_two rhs); [|reflexivity].
  rewrite shl_in_place_word_level by (auto; apply log2_pow2_lt; lia). reflexivity.
Qed.

End ShlW.

Section OpsW4Proofs.
Variable w : Z.
Hypothesis w_ge : 8 <= w.
Let w_pos : 0 < w. Proof. lia. Qed.
Variable div2by1 : Z -> Z -> Z * Z.
Hypothesis div2by1_ok : forall d a, norm1 w d -> 0 <= a < d * B w -> div2by1 d a = (a / d, a mod d).
Variable T_simple T_kara CHUNK SQR_SIMPLE : nat.
Hypothesis T_simple_ok : (1 <= T_simple)%nat.
Hypothesis T_kara_ok : (15 <= T_kara)%nat.
Hypothesis CHUNK_ok : (1 <= CHUNK)%nat.

Theorem mul_large_w4_eq lhs rhs :
  mul_large_w4 w div2by1 T_simple T_kara CHUNK SQR_SIMPLE lhs rhs = mul_large_w w div2by1 T_simple T_kara CHUNK SQR_SIMPLE lhs rhs.
Proof.
  unfold mul_large_w4, mul_large_w. rewrite cmp_in_place_is_eq. destruct (ReprOrdModel.cmp_in_place lhs rhs); reflexivity.
Qed.

Theorem repr_mul_w4_eq x y : tok w x -> tok w y ->
  repr_mul_w4 w div2by1 T_simple T_kara CHUNK SQR_SIMPLE x y = repr_mul_w w div2by1 T_simple T_kara CHUNK SQR_SIMPLE x y.
Proof.
  intros Hx Hy. destruct x, y; cbn [repr_mul_w4 repr_mul_w tok] in *; try reflexivity.
  - now rewrite (mul_large_dword_w_eq w w_ge).
  - now rewrite (mul_large_dword_w_eq w w_ge).
  - apply mul_large_w4_eq.
Qed.

Theorem repr_mul_w4_correct x y : tok w x -> tok w y ->
  exists r, repr_mul_w4 w div2by1 T_simple T_kara CHUNK SQR_SIMPLE x y = Ok r /\
    Ok (repr_value w r) = ubig_mul_spec (repr_value w x) (repr_value w y) /\ twf w r.
Proof.
  intros Hx Hy. rewrite repr_mul_w4_eq by auto.
  exact (repr_mul_w_correct w w_ge div2by1 div2by1_ok T_simple T_kara CHUNK SQR_SIMPLE T_simple_ok T_kara_ok CHUNK_ok x y Hx Hy).
Qed.
End OpsW4Proofs.

(** with the thresholds of the source *)
From Dashu Require Import Int.RingDispatchProofs Int.RingTop Int.RingTopW.
Theorem ubig_mul_w4_exact : forall w, 8 <= w -> forall div2by1,
  (forall d a, norm1 w d -> 0 <= a < d * B w -> div2by1 d a = (a / d, a mod d)) ->
  forall x y, tok w x -> tok w y ->
  exists r, repr_mul_w4 w div2by1 src_T_simple src_T_kara src_CHUNK src_SQR x y = Ok r /\
    Ok (repr_value w r) = ubig_mul_spec (repr_value w x) (repr_value w y) /\ twf w r.
Proof.
  intros w Hw d Hd x y Hx Hy.
  exact (repr_mul_w4_correct w Hw d Hd src_T_simple src_T_kara src_CHUNK src_SQR (proj1 source_thresholds_admissible_w)
           (proj1 (proj2 source_thresholds_admissible_w)) (proj1 (proj2 (proj2 source_thresholds_admissible_w))) x y Hx Hy).
Qed.
