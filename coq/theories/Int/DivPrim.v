(** C02 - division forms with a primitive-typed operand (div_ops.rs: impl_div_primitive_with_ubig! /
    impl_div_primitive_with_ibig!, built from helper_macros::impl_binop_with_primitive!,
    impl_binop_assign_with_primitive!, impl_div_by_primitive!, impl_divrem_with_primitive!) and
    UBig/IBig::is_multiple_of_const (TypedReprRef::is_multiple_of_dword).  Definitions only.

    Every macro arm converts the primitive with `<$t>::from(prim)` (value preserving), runs the
    big-integer form (the sign layer of DivSpec.v over the regenerated tables) and converts the part of the
    result whose type is the primitive back with `try_into().unwrap()`: TryFrom<UBig/IBig> for a
    primitive fails with ConversionError::OutOfBounds when the value is outside the type, and the
    unwrap turns that into a panic that is not one of the documented classes. *)
From Dashu Require Import Base.Prelude Base.Words Int.DivSpec Int.DivWordModel.
Open Scope Z_scope.

Inductive bigty := BU | BI.                                   (* UBig | IBig *)
Record primty : Type := { p_signed : bool; p_bits : Z }.      (* u8 .. u128, usize / i8 .. i128, isize *)

Definition in_prim (pt : primty) (v : Z) : bool :=
  if p_signed pt then (- 2 ^ (p_bits pt - 1) <=? v) && (v <? 2 ^ (p_bits pt - 1))
  else (0 <=? v) && (v <? 2 ^ p_bits pt).
Definition in_big (t : bigty) (v : Z) : bool := match t with BU => 0 <=? v | BI => true end.

(** the macro families exist for UBig x unsigned primitives and IBig x all primitives *)
Definition prim_pairing (t : bigty) (pt : primty) : bool :=
  match t with BU => negb (p_signed pt) | BI => true end.

(** `.try_into().unwrap()` into the primitive type *)
Definition unwrap_prim (pt : primty) (v : Z) : result Z := if in_prim pt v then Ok v else Panic Undocumented.

(** UBig (op) UBig / IBig (op) IBig as the sign layer computes them *)
Definition big_form (t : bigty) (f : form) (a b : Z) : result (list Z) :=
  match t with BU => ubig_form_asis f a b | BI => ibig_form_asis f a b end.

Inductive pform :=
| PDiv        (* big / prim, big /= prim        -> big   (Div<prim> for big, DivAssign<prim>) *)
| PRem        (* big % prim                     -> prim  (Rem<prim> for big, `rem -> $t`) *)
| PDivRem     (* big.div_rem(prim), div_rem_assign -> (big, prim) *)
| PRDiv.      (* prim / big                     -> prim  (impl_div_by_primitive) *)

(** x : the big operand, p : the primitive operand *)
Definition prim_form_asis (k : pform) (t : bigty) (pt : primty) (x p : Z) : result (list Z) :=
  match k with
  | PDiv => big_form t FDiv x p            (* self.div(<$t>::from(rhs)).try_into().unwrap(), Output = $t: identity *)
  | PRem => rbind (big_form t FRem x p) (fun l => rbind (unwrap_prim pt (hd 0 l)) (fun r => Ok [r]))
  | PDivRem => rbind (big_form t FDivRem x p) (fun l =>
                 rbind (unwrap_prim pt (nth 1 l 0)) (fun r => Ok [hd 0 l; r]))   (* (q, r.try_into().unwrap()) *)
  | PRDiv => rbind (big_form t FDiv p x) (fun l => rbind (unwrap_prim pt (hd 0 l)) (fun q => Ok [q]))
  end.

(** what the property demands of these forms: truncating division, and a result outside the fixed
    output type cannot be returned - the as-is answer then is the undocumented unwrap panic
    (finding class prim_result_unrepresentable of C15) *)
Definition prim_form_spec (k : pform) (pt : primty) (x p : Z) : result (list Z) :=
  match k with
  | PDiv => form_spec FDiv x p
  | PRem => rbind (form_spec FRem x p) (fun l => if in_prim pt (hd 0 l) then Ok l else Panic Undocumented)
  | PDivRem => rbind (form_spec FDivRem x p) (fun l => if in_prim pt (nth 1 l 0) then Ok l else Panic Undocumented)
  | PRDiv => rbind (form_spec FDiv p x) (fun l => if in_prim pt (hd 0 l) then Ok l else Panic Undocumented)
  end.

(** *** UBig / IBig::is_multiple_of_const(divisor: DoubleWord) -> TypedReprRef::is_multiple_of_dword *)
Section MultConst.
Variable w : Z.
Notation B := (Words.B w).
Variable div1by1 div2by1 div2by2 : Z -> Z -> Z * Z.
Variable div3by2 div4by2 : Z -> Z -> Z -> Z * Z.

(** m : the magnitude of self, d : the divisor.  d = 0: the primitive `%` panics for a Small self
    ("attempt to calculate the remainder with a divisor of zero"), rem_by_word trips its
    debug_assert!(rhs != 0) for a Large one - never the documented DivideBy0 message *)
Definition is_multiple_of_const_asis (m d : Z) : result bool :=
  if d =? 0 then Panic Undocumented
  else if d <? B then                                                   (* shrink_dword(divisor) = Some(w) *)
    (if m <? B * B then Ok (m mod d =? 0)                               (* dword % extend_word(w) == 0 *)
     else Ok (rem_by_word w div1by1 div2by1 (words_of w m) d =? 0))
  else
    (if m <? B * B then Ok (m mod d =? 0)                               (* dword % divisor == 0 *)
     else Ok (rem_by_dword w div2by2 div3by2 div4by2 (words_of w m) d =? 0)).
End MultConst.
