(** C02 round 4 - the two instances of the primitives record the oracle runs the GENERATED kernels with: the transcribed
    num-modular + C01's multiplication (Int/DivSrcInst.v) and exact arithmetic (Int/DivWordInst.v); the word-level entry points
    built only from generated functions.  Definitions only. *)
From Dashu Require Import Base.Prelude Base.Words Int.DivWordModel Int.DivWordInst Int.DivNumModular Int.DivSrcInst Int.DivKernelsBase
  Int.DivOwn Int.DivConstNew.
From DashuGen Require Import DivKernelsGen DivReprGen.
Open Scope Z_scope.

Definition Pnm (w : Z) : div_prims := prims_of (nm1by1 w) (nm2by1 w) (nm2by2 w) (nm3by2 w) (nm4by2 w) (c01_mul_sub w).
Definition Px (w : Z) : div_prims := prims_of x1by1 x2by1 x2by2 (x3by2 w) (x4by2 w) (xmul_sub w).

Section GenEntry.
Variable w : Z.
Notation B := (Words.B w).
Notation P := (Pnm w).

(** Large dividend (more than two words) by a Small divisor: DivRem / Rem through the generated word / double-word kernels *)
Definition g_div_rem_small (a b : Z) : Z * Z :=
  if b <? B then let '(q, r) := div_by_word_in_place_gen P w (words_of w a) b in (Words.value w q, r)
  else let '(q, r) := div_by_dword_in_place_gen P w (words_of w a) b in (Words.value w q, r).
Definition g_rem_small (a b : Z) : Z :=
  if b <? B then rem_by_word_gen P w (words_of w a) b else rem_by_dword_gen P w (words_of w a) b.
(** Large by Large: the regenerated helpers of div_ops.rs::repr *)
Definition g_div_rem_large (a b : Z) : Z * Z :=
  let '(q, r) := div_rem_large_gen P w (words_of w a) (words_of w b) in (tvalue w q, tvalue w r).
Definition g_div_large (a b : Z) : Z := tvalue w (div_large_gen P w (words_of w a) (words_of w b)).
Definition g_rem_large (a b : Z) : Z := tvalue w (rem_large_gen P w (words_of w a) (words_of w b)).

(** the kernels the hook drives: which = 1 schoolbook (generated), 0 dispatch (generated switch; the recursion of the
    divide-and-conquer kernel is the transcribed one) *)
Definition g_kernel (which : Z) (lhs rhs : Z) (m : Z) : Z * Z * Z :=
  let l := to_words w (Z.to_nat m) lhs in let r := words_of w rhs in
  let n := length r in
  let '(l', c) := if which =? 1 then simple_div_rem_in_place_gen P w l r (highest_dword w r)
                  else div_rem_in_place_gen P w l r (highest_dword w r) in
  (Z.b2z c, Words.value w (skipn n l'), Words.value w (firstn n l')).

(** ConstDivisor construction *)
Definition g_const_fields (n : Z) : result (list Z) := rbind (const_new w P n) (fun c => Ok (const_value w c :: const_fields w c)).
Definition g_const_from (dword : bool) (n : Z) : result (list Z) :=
  rbind (if dword then const_from_dword w n else const_from_word w n) (fun c => Ok (const_value w c :: const_fields w c)).

End GenEntry.
