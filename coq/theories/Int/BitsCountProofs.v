(** C09: bit_len, count_ones, count_zeros, is_power_of_two and next_power_of_two at word level
    equal their specifications in Int/BitsSpec.v - for every word size. *)
From Dashu Require Import Base.Prelude Base.Words Int.BitsSpec Int.BitsWords Int.BitsKernels Int.BitsKernelsBase
  Int.BitsShiftProofs.
Open Scope Z_scope.

(* ---------------------------------------------------------------- population count on Z *)

Lemma pop_double y : 0 <= y -> count_ones_spec (2 * y) = count_ones_spec y.
Proof. intros Hy. destruct y as [|p|p]; try lia; reflexivity. Qed.

Lemma pop_double_1 y : 0 <= y -> count_ones_spec (2 * y + 1) = 1 + count_ones_spec y.
Proof. intros Hy. destruct y as [|p|p]; try lia; reflexivity. Qed.

Lemma pop_nonneg y : 0 <= count_ones_spec y.
Proof.
  destruct y as [|p|p]; cbn [count_ones_spec]; try lia. induction p; cbn [pop_pos]; lia.
Qed.

Lemma pop_pos_positive y : 0 < y -> 0 < count_ones_spec y.
Proof.
  destruct y as [|p|p]; try lia. intros _. cbn [count_ones_spec]. induction p; cbn [pop_pos]; lia.
Qed.

Lemma pop_split k : 0 <= k -> forall x v, 0 <= x < 2 ^ k -> 0 <= v ->
  count_ones_spec (x + 2 ^ k * v) = count_ones_spec x + count_ones_spec v.
Proof.
  intros Hk. pattern k. apply natlike_ind; [| |exact Hk].
  - intros x v Hx Hv. rewrite Z.pow_0_r in *. replace x with 0 by lia. rewrite Z.mul_1_l. reflexivity.
  - intros j Hj IH x v Hx Hv. rewrite Z.pow_succ_r in * by lia.
    pose proof (Z.div_mod x 2 ltac:(lia)) as Hdm. pose proof (Z.mod_pos_bound x 2 ltac:(lia)) as Hm.
    assert (Hq : 0 <= x / 2 < 2 ^ j) by (split; [apply Z.div_pos; lia | apply Z.div_lt_upper_bound; lia]).
    assert (Hs : 0 <= x / 2 + 2 ^ j * v) by (pose proof (Z.pow_pos_nonneg 2 j ltac:(lia) Hj); nia).
    destruct (Z.eq_dec (x mod 2) 0) as [E|E].
    + replace (x + 2 * 2 ^ j * v) with (2 * (x / 2 + 2 ^ j * v)) by lia.
      rewrite pop_double by exact Hs. rewrite IH by (lia || exact Hq).
      replace x with (2 * (x / 2)) at 2 by lia. rewrite pop_double by lia. reflexivity.
    + replace (x + 2 * 2 ^ j * v) with (2 * (x / 2 + 2 ^ j * v) + 1) by lia.
      rewrite pop_double_1 by exact Hs. rewrite IH by (lia || exact Hq).
      replace x with (2 * (x / 2) + 1) at 2 by lia. rewrite pop_double_1 by lia. lia.
Qed.

Section Count.
Variable w : Z.
Hypothesis w_pos : 0 < w.
Notation B := (B w).
Notation value := (value w).
Notation wf := (wf w).

(* ---------------------------------------------------------------- top word *)

(** a non-empty buffer is its lower words followed by the top word *)
Lemma top_split ws : ws <> [] -> wf ws ->
  ws = removelast ws ++ [last ws 0] /\ wf (removelast ws) /\ 0 <= last ws 0 < B /\
  value ws = value (removelast ws) + B ^ len (removelast ws) * last ws 0 /\
  len ws = len (removelast ws) + 1 /\ 0 <= value (removelast ws) < B ^ len (removelast ws).
Proof.
  intros Hne Hw. pose proof (app_removelast_last 0 Hne) as E.
  assert (W2 : wf (removelast ws) /\ wf [last ws 0]) by (apply wf_app; rewrite <- E; exact Hw).
  destruct W2 as [Wi Wl]. apply wf_cons in Wl. destruct Wl as [Hl _].
  split; [exact E|]. split; [exact Wi|]. split; [exact Hl|]. split; [|split].
  - rewrite E at 1. rewrite value_app. cbn [Words.value]. lia.
  - rewrite E at 1. unfold len. rewrite app_length. cbn [length]. lia.
  - apply (value_bounds w w_pos). exact Wi.
Qed.

Lemma log2_top lo P t k : 0 <= k -> P = 2 ^ k -> 0 <= lo < P -> 0 < t ->
  Z.log2 (lo + P * t) = k + Z.log2 t.
Proof.
  intros Hk HP Hlo Ht. pose proof (Z.log2_spec t Ht) as [L1 L2]. pose proof (Z.log2_nonneg t) as L0.
  assert (0 < P) by (rewrite HP; apply Z.pow_pos_nonneg; lia).
  apply Z.log2_unique; [lia|]. rewrite Z.pow_succ_r, !Z.pow_add_r, <- HP by lia.
  rewrite Z.pow_succ_r in L2 by lia. nia.
Qed.

Lemma value_log2 ws : ws <> [] -> wf ws -> last ws 0 <> 0 ->
  Z.log2 (value ws) = w * (len ws - 1) + Z.log2 (last ws 0) /\ 0 < value ws.
Proof.
  intros Hne Hw Hl. destruct (top_split ws Hne Hw) as (_ & Wi & Ht & V & L & Hb). pose proof (B_pos w w_pos) as HB.
  assert (0 <= len (removelast ws)) by (unfold len; lia).
  assert (0 < B ^ len (removelast ws)) by (apply Z.pow_pos_nonneg; lia).
  rewrite V. split; [|nia].
  rewrite (log2_top _ _ _ (w * len (removelast ws))); [f_equal; f_equal; lia | nia | apply (Bpow_pow w w_pos); lia | lia | lia].
Qed.

(* ---------------------------------------------------------------- bit_len *)

Theorem repr_bit_len_correct r : brepr_ok w r -> repr_bit_len w r = bit_len_spec (bvalue w r).
Proof.
  intros Hk. destruct r as [d|ws]; cbn [repr_bit_len bvalue].
  - unfold dword_lz. lia.
  - destruct Hk as (W & L & T). assert (Hne : ws <> []) by (destruct ws; [cbn in L; lia | discriminate]).
    destruct (value_log2 ws Hne W T) as [E Hp]. destruct (top_split ws Hne W) as (_ & _ & Ht & _).
    unfold word_lz, bit_len_spec. destruct (Z.eqb_spec (value ws) 0); [lia|].
    destruct (Z.eqb_spec (last ws 0) 0); [contradiction|]. rewrite !Z.abs_eq by lia. rewrite E. lia.
Qed.

(* ---------------------------------------------------------------- count_ones / count_zeros *)

Lemma sum_words_pop ws : wf ws -> sum_words count_ones_spec ws = count_ones_spec (value ws).
Proof.
  induction ws as [|x r IH]; intros Hw; [reflexivity|]. apply wf_cons in Hw. destruct Hw as [Hx Hr].
  unfold sum_words in *. cbn [fold_right Words.value]. rewrite IH by exact Hr.
  symmetry. rewrite (B_pow w) in *. apply pop_split; [lia | exact Hx | apply (value_nonneg w w_pos); exact Hr].
Qed.

Lemma sum_words_zeros ws : sum_words (fun x => w - count_ones_spec x) ws = w * len ws - sum_words count_ones_spec ws.
Proof.
  unfold sum_words, len. induction ws as [|x r IH]; [cbn; lia|]. cbn [fold_right length]. rewrite IH, Nat2Z.inj_succ. lia.
Qed.

Theorem repr_count_ones_correct r : brepr_ok w r -> repr_count_ones r = count_ones_spec (bvalue w r).
Proof.
  intros Hk. destruct r as [d|ws]; cbn [repr_count_ones bvalue]; [reflexivity|].
  destruct Hk as (W & _). apply sum_words_pop. exact W.
Qed.

Theorem repr_count_zeros_correct r : brepr_ok w r -> repr_count_zeros w r = count_zeros_spec (bvalue w r).
Proof.
  intros Hk. unfold count_zeros_spec. rewrite <- (repr_bit_len_correct r Hk).
  destruct r as [d|ws]; cbn [repr_count_zeros repr_bit_len bvalue].
  - destruct (d =? 0); [reflexivity|]. apply f_equal. lia.
  - pose proof (brepr_large_lower w w_pos ws Hk) as Hl. pose proof (B_pos w w_pos) as HB. destruct Hk as (W & _).
    destruct (Z.eqb_spec (value ws) 0); [nia|]. apply f_equal.
    rewrite sum_words_zeros, (sum_words_pop ws W). lia.
Qed.

(* ---------------------------------------------------------------- is_power_of_two *)

Lemma forallb_zero ws : wf ws -> forallb (fun x => x =? 0) ws = (value ws =? 0).
Proof.
  intros Hw. destruct (Z.eqb_spec (value ws) 0) as [E|E].
  - apply (value_zero_iff w w_pos ws Hw) in E. apply forallb_forall. rewrite Forall_forall in E.
    intros x Hx. apply Z.eqb_eq. apply E. exact Hx.
  - apply not_true_is_false. intros F. apply E. apply (value_zero_iff w w_pos ws Hw).
    rewrite Forall_forall. intros x Hx. rewrite forallb_forall in F. apply Z.eqb_eq. apply F. exact Hx.
Qed.

Theorem repr_is_power_of_two_correct r : brepr_ok w r ->
  repr_is_power_of_two r = is_power_of_two_spec (bvalue w r).
Proof.
  intros Hk. destruct r as [d|ws]; cbn [repr_is_power_of_two bvalue]; [reflexivity|].
  destruct Hk as (W & L & T). assert (Hne : ws <> []) by (destruct ws; [cbn in L; lia | discriminate]).
  destruct (value_log2 ws Hne W T) as [E Hp]. destruct (top_split ws Hne W) as (_ & Wi & Ht & V & Ln & Hb).
  pose proof (B_pos w w_pos) as HB. rewrite (forallb_zero _ Wi). unfold is_power_of_two_spec. rewrite E.
  set (lo := value (removelast ws)) in *. set (t := last ws 0) in *. set (k := len (removelast ws)) in *.
  assert (Hk0 : 0 <= k) by (unfold k, len; lia).
  assert (HP : B ^ k = 2 ^ (w * k)) by (apply (Bpow_pow w w_pos); exact Hk0).
  assert (HPp : 0 < B ^ k) by (apply Z.pow_pos_nonneg; lia).
  pose proof (Z.log2_spec t ltac:(lia)) as [L1 _]. pose proof (Z.log2_nonneg t) as L0.
  replace (w * (len ws - 1)) with (w * k) by (f_equal; lia).
  rewrite Z.pow_add_r, <- HP by nia.
  destruct (Z.ltb_spec 0 (value ws)) as [_|]; [|lia]. destruct (Z.ltb_spec 0 t) as [_|]; [|lia]. cbn [andb].
  destruct (Z.eqb_spec lo 0) as [E0|E0]; cbn [andb].
  - rewrite V, E0, Z.add_0_l.
    destruct (Z.eqb_spec t (2 ^ Z.log2 t)) as [Et|Et], (Z.eqb_spec (B ^ k * t) (B ^ k * 2 ^ Z.log2 t)) as [Ev|Ev];
      try reflexivity; [rewrite <- Et in Ev; contradiction | apply Z.mul_reg_l in Ev; [contradiction | lia]].
  - destruct (Z.eqb_spec (value ws) (B ^ k * 2 ^ Z.log2 t)) as [Ev|Ev]; [|reflexivity]. nia.
Qed.

(* ---------------------------------------------------------------- next_power_of_two *)

Lemma npt_unique a k : 1 <= a -> 0 <= k -> a <= 2 ^ k -> (0 < k -> 2 ^ (k - 1) < a) -> next_power_of_two_spec a = 2 ^ k.
Proof.
  intros Ha Hk Hu Hl. unfold next_power_of_two_spec. destruct (Z.leb_spec a 1) as [C|C].
  - assert (a = 1) by lia. subst a. destruct (Z.eq_dec k 0) as [->|Hne]; [reflexivity|].
    specialize (Hl ltac:(lia)). pose proof (Z.pow_pos_nonneg 2 (k - 1) ltac:(lia) ltac:(lia)). lia.
  - destruct (Z.eq_dec k 0) as [->|Hne]; [rewrite Z.pow_0_r in Hu; lia|]. specialize (Hl ltac:(lia)).
    f_equal. assert (Z.log2 (a - 1) = k - 1); [|lia]. apply Z.log2_unique; [lia|].
    replace (Z.succ (k - 1)) with k by lia. lia.
Qed.

Lemma npt_shape a : 1 <= a -> exists k, 0 <= k /\ next_power_of_two_spec a = 2 ^ k /\ a <= 2 ^ k /\ (0 < k -> 2 ^ (k - 1) < a).
Proof.
  intros Ha. unfold next_power_of_two_spec. destruct (Z.leb_spec a 1) as [C|C].
  - exists 0. rewrite Z.pow_0_r. repeat split; lia.
  - pose proof (Z.log2_spec (a - 1) ltac:(lia)) as [L1 L2]. pose proof (Z.log2_nonneg (a - 1)) as L0.
    exists (Z.log2 (a - 1) + 1). replace (Z.succ (Z.log2 (a - 1))) with (Z.log2 (a - 1) + 1) in L2 by lia.
    replace (Z.log2 (a - 1) + 1 - 1) with (Z.log2 (a - 1)) by lia. repeat split; lia.
Qed.

(** the rounded-up power of P * t' where the low part only matters through "is it zero" *)
Lemma npt_scaled lo P j t t' k : 0 <= j -> P = 2 ^ j -> 0 <= lo < P -> 0 < t ->
  t' = t + (if lo =? 0 then 0 else 1) -> 0 <= k -> t' <= 2 ^ k -> (0 < k -> 2 ^ (k - 1) < t') ->
  next_power_of_two_spec (lo + P * t) = P * 2 ^ k.
Proof.
  intros Hj HP Hlo Ht Ht' Hk Hu Hl. assert (HPp : 0 < P) by (rewrite HP; apply Z.pow_pos_nonneg; lia).
  rewrite HP at 2. rewrite <- Z.pow_add_r by lia. apply npt_unique; [nia | lia | |].
  - rewrite Z.pow_add_r, <- HP by lia. destruct (Z.eqb_spec lo 0); nia.
  - intros _. destruct (Z.eq_dec k 0) as [->|Hne].
    + rewrite Z.pow_0_r in Hu. destruct (Z.eqb_spec lo 0); [|lia].
      assert (t = 1) by lia. subst t lo. rewrite Z.add_0_r, Z.add_0_l, Z.mul_1_r.
      destruct (Z.eq_dec j 0) as [->|Hj0]; [|rewrite HP; apply Z.pow_lt_mono_r; lia].
      rewrite Z.pow_0_r in HP. lia.
    + specialize (Hl ltac:(lia)). replace (j + k - 1) with (j + (k - 1)) by lia.
      rewrite Z.pow_add_r, <- HP by lia. destruct (Z.eqb_spec lo 0); nia.
Qed.

Theorem next_power_of_two_large_correct ws : ws <> [] -> wf ws -> last ws 0 <> 0 ->
  bvalue w (next_power_of_two_large w ws) = next_power_of_two_spec (value ws) /\
  brepr_ok w (next_power_of_two_large w ws).
Proof.
  intros Hne W T. destruct (top_split ws Hne W) as (_ & Wi & Ht & V & Ln & Hb).
  pose proof (B_pos w w_pos) as HB. unfold next_power_of_two_large. rewrite (forallb_zero _ Wi).
  set (lo := value (removelast ws)) in *. set (t := last ws 0) in *.
  set (k := len (removelast ws)) in *. assert (Hk0 : 0 <= k) by (unfold k, len; lia).
  assert (HP : B ^ k = 2 ^ (w * k)) by (apply (Bpow_pow w w_pos); exact Hk0).
  set (t' := t + (if lo =? 0 then 0 else 1)).
  assert (Ht' : 1 <= t' <= B) by (unfold t'; destruct (lo =? 0); lia).
  destruct (npt_shape t' ltac:(lia)) as (e & He0 & Ee & Hu & Hl).
  assert (Ev : next_power_of_two_spec (value ws) = B ^ k * 2 ^ e).
  { rewrite V. apply (npt_scaled lo (B ^ k) (w * k) t t' e); (nia || assumption || reflexivity). }
  assert (Hew : e <= w).
  { destruct (Z.le_gt_cases e w) as [|C]; [assumption|]. specialize (Hl ltac:(lia)).
    assert (2 ^ w <= 2 ^ (e - 1)) by (apply Z.pow_le_mono_r; lia). rewrite (B_pow w) in Ht'. lia. }
  assert (Ez : length (removelast ws) = Z.to_nat k) by (unfold k, len; lia).
  assert (Wz : forall l, wf l -> wf (repeat 0 (length (removelast ws)) ++ l)) by (intros l Hl'; apply (wf_zeros_app w w_pos); exact Hl').
  replace (if lo =? 0 then 0 else 1) with (t' - t) by (unfold t'; lia).
  replace (t + (t' - t)) with t' by lia.
  assert (Hcases : (if t' <? B then checked_npt B t' else None) = if 2 ^ e <? B then Some (2 ^ e) else None).
  { unfold checked_npt. rewrite Ee. destruct (Z.ltb_spec t' B) as [C|C]; [reflexivity|].
    assert (t' = B) by lia. destruct (Z.ltb_spec (2 ^ e) B); [lia | reflexivity]. }
  rewrite Hcases. destruct (Z.ltb_spec (2 ^ e) B) as [C|C].
  - assert (Wr : wf (repeat 0 (length (removelast ws)) ++ [2 ^ e])).
    { apply Wz. apply wf_cons. split; [|constructor]. split; [apply Z.pow_nonneg; lia | exact C]. }
    destruct (from_buffer_ok w w_pos _ Wr) as [Vr Kr]. split; [|exact Kr].
    rewrite Vr, (value_zeros_app w), Ev. cbn [Words.value]. rewrite Ez, Z2Nat.id by lia. ring.
  - assert (2 ^ e = B).
    { assert (2 ^ e <= 2 ^ w) by (apply Z.pow_le_mono_r; lia). rewrite (B_pow w) in *. lia. }
    assert (Wr : wf (repeat 0 (length (removelast ws)) ++ [0; 1])).
    { apply Wz. apply wf_cons. split; [lia|]. apply wf_cons. split; [pose proof (B_ge_2 w w_pos); lia | constructor]. }
    destruct (from_buffer_ok w w_pos _ Wr) as [Vr Kr]. split; [|exact Kr].
    rewrite Vr, (value_zeros_app w), Ev. cbn [Words.value]. rewrite Ez, Z2Nat.id by lia. lia.
Qed.

Theorem repr_next_power_of_two_correct r : brepr_ok w r ->
  bvalue w (repr_next_power_of_two w r) = next_power_of_two_spec (bvalue w r) /\
  brepr_ok w (repr_next_power_of_two w r).
Proof.
  intros Hk. pose proof (B_pos w w_pos) as HB. pose proof (B_ge_2 w w_pos) as HB2.
  destruct r as [d|ws]; cbn [repr_next_power_of_two bvalue].
  - cbn [brepr_ok] in Hk. unfold checked_npt.
    destruct (Z.ltb_spec (next_power_of_two_spec d) (B * B)) as [C|C].
    + unfold from_dword. cbn [bvalue brepr_ok]. split; [reflexivity|]. split; [|exact C].
      pose proof (next_power_of_two_spec_ok d ltac:(lia)) as (Hle & _). cbn zeta in Hle. lia.
    + assert (W : wf [0; 0; 1]) by (repeat (apply wf_cons; split; [lia|]); constructor).
      destruct (from_buffer_ok w w_pos _ W) as [V K]. split; [|exact K]. rewrite V. cbn [Words.value].
      assert (Hd1 : 1 <= d).
      { destruct (Z.le_gt_cases 1 d); [assumption|]. unfold next_power_of_two_spec in C.
        destruct (Z.leb_spec d 1); [nia | lia]. }
      destruct (npt_shape d Hd1) as (e & He0 & Ee & Hu & Hl). rewrite Ee in *.
      assert (e <= 2 * w).
      { destruct (Z.le_gt_cases e (2 * w)) as [|C']; [assumption|]. specialize (Hl ltac:(lia)).
        assert (2 ^ (2 * w) <= 2 ^ (e - 1)) by (apply Z.pow_le_mono_r; lia). rewrite (BB_pow w w_pos) in Hk. lia. }
      assert (2 ^ e <= 2 ^ (2 * w)) by (apply Z.pow_le_mono_r; lia).
      assert (2 ^ e = B * B) by (rewrite (BB_pow w w_pos) in *; lia). lia.
  - destruct Hk as (W & L & T). assert (Hne : ws <> []) by (destruct ws; [cbn in L; lia | discriminate]).
    apply next_power_of_two_large_correct; assumption.
Qed.

(* ---------------------------------------------------------------- the typed view of a value *)

(** the conversion used by the oracle to hand a magnitude to the word-level models produces the
    representation invariant and the same value *)
Theorem to_brepr_ok v : 0 <= v -> bvalue w (to_brepr w v) = v /\ brepr_ok w (to_brepr w v).
Proof.
  intros Hv. pose proof (B_pos w w_pos) as HB. unfold to_brepr. destruct (Z.ltb_spec v (B * B)) as [C|C].
  - cbn [bvalue brepr_ok]. split; [reflexivity | lia].
  - assert (Hvp : 0 < v) by nia. pose proof (Z.log2_spec v Hvp) as [L1 L2]. pose proof (Z.log2_nonneg v) as L0.
    set (q := Z.log2 v / w). pose proof (Z.div_mod (Z.log2 v) w ltac:(lia)) as Hdm.
    pose proof (Z.mod_pos_bound (Z.log2 v) w w_pos) as Hm. fold q in Hdm.
    assert (Hq2 : 2 <= q).
    { apply Z.div_le_lower_bound; [lia|]. replace (w * 2) with (2 * w) by lia. apply Z.log2_le_pow2; [lia|].
      rewrite <- (BB_pow w w_pos). exact C. }
    set (n := Z.to_nat (q + 1)). assert (En : Z.of_nat n = q + 1) by (unfold n; lia).
    assert (Hub : v < B ^ Z.of_nat n).
    { rewrite En, (Bpow_pow w w_pos) by lia. apply Z.lt_le_trans with (2 ^ Z.succ (Z.log2 v)); [exact L2|].
      apply Z.pow_le_mono_r; nia. }
    assert (Hlb : B ^ q <= v).
    { rewrite (Bpow_pow w w_pos) by lia. apply Z.le_trans with (2 ^ Z.log2 v); [|exact L1]. apply Z.pow_le_mono_r; nia. }
    pose proof (to_words_wf w w_pos n v) as W. pose proof (to_words_length w n v) as Ln.
    pose proof (value_to_words w w_pos n v ltac:(lia)) as V.
    cbn [bvalue brepr_ok]. split; [exact V|]. split; [exact W|]. split; [lia|].
    assert (Hne : to_words w n v <> []) by (intros E; rewrite E in Ln; cbn in Ln; lia).
    destruct (top_split _ Hne W) as (_ & _ & _ & Vt & Lt & Hb). intros E0. rewrite E0, Z.mul_0_r, Z.add_0_r in Vt.
    unfold len in Lt. rewrite Ln in Lt. unfold len in Hb.
    replace (Z.of_nat (length (removelast (to_words w n v)))) with q in Hb by lia. lia.
Qed.

End Count.
