(** C01 (L0): sqr::simple::square (triangular part, then fused doubling + diagonal with its three
    carry bits) and the sqr dispatch return exactly a^2 for every length and every word size
    w >= 8; the three carry bits added to the last word are always 0 (no overflow there). *)
From Dashu Require Import Base.Prelude Base.Words Int.RingAdd Int.RingAddProofs Int.RingMul Int.RingMulProofs
  Int.RingKaraProofs Int.RingToomProofs Int.RingDispatchProofs.
Open Scope Z_scope.

Section SqrProofs.
Variable w : Z.
Hypothesis w_ge : 8 <= w.
Let w_pos : 0 < w. Proof. lia. Qed.
Notation BB := (B w).
Notation val := (value w).
Notation wfw := (wf w).
Let HB : 0 < BB := B_pos w w_pos.

(** sum over i < j of a_i a_j B^(i+j-1)  and  sum of a_i^2 B^(2i) *)
Fixpoint tri (a : list Z) : Z := match a with [] => 0 | m :: r => m * val r + BB * BB * tri r end.
Fixpoint diag (a : list Z) : Z := match a with [] => 0 | m :: r => m * m + BB * BB * diag r end.

Lemma square_split a : val a * val a = diag a + 2 * BB * tri a.
Proof. induction a as [|m r IH]; cbn [value tri diag]; [ring|]. ring_simplify. nia. Qed.

Lemma tri_nonneg a : wfw a -> 0 <= tri a.
Proof.
  induction a as [|m r IH]; intros H; cbn [tri]; [lia|]. apply wf_cons in H. destruct H as [Hm Hr].
  pose proof (value_nonneg w w_pos r Hr). specialize (IH Hr). nia.
Qed.
Lemma diag_nonneg a : 0 <= diag a.
Proof. induction a as [|m r IH]; cbn [diag]; nia. Qed.

(** first step *)
Lemma sqr_tri_spec : forall a b c0, wfw a -> wfw b -> length b = (2 * length a)%nat ->
  forall r cf, sqr_tri w b a c0 = (r, cf) ->
  length r = length b /\ wfw r /\
  val r + b2z cf * BB ^ len b = val b + BB * tri a + b2z c0 * BB ^ len a.
Proof.
  induction a as [|m ar IH]; intros b c0 Ha Hb L r cf E.
  - destruct b; [|discriminate]. cbn [sqr_tri] in E. inversion E; subst. cbn [tri value]. repeat split; auto. lia.
  - destruct b as [|x0 b1]; [discriminate|]. cbn [sqr_tri] in E.
    apply wf_cons in Ha. destruct Ha as [Hm Har]. apply wf_cons in Hb. destruct Hb as [Hx0 Hb1].
    cbn [length] in L. set (lr := length ar) in *.
    assert (Lb1 : length b1 = (2 * lr + 1)%nat) by lia.
    destruct (add_mul_word_same_len_in_place w (firstn lr b1) m ar) as [lo cw] eqn:E1.
    destruct (add_mul_word_same_len_spec w w_ge (firstn lr b1) m ar ltac:(rewrite firstn_length_le; lia)
                (wf_firstn w lr b1 Hb1) Har Hm _ _ E1) as (Llo & Wlo & Bcw & Vlo).
    rewrite firstn_length_le in Llo by lia.
    destruct (add_with_carry w (nth lr b1 0) cw c0) as [top cn] eqn:E2.
    destruct (add_with_carry_spec w w_pos _ _ c0 _ _ (wf_nth w lr b1 Hb1 ltac:(lia)) Bcw E2) as (Btop & Vtop).
    remember (lo ++ top :: skipn (S lr) b1) as b1' eqn:Eb1.
    assert (Lb1' : length b1' = length b1).
    { subst b1'. rewrite app_length. cbn [length]. rewrite skipn_length. lia. }
    assert (Wb1' : wfw b1').
    { subst b1'. apply wf_app. split; [auto|]. apply wf_cons. split; [lia | apply wf_skipn; auto]. }
    assert (Vb1' : val b1' = val b1 + m * val ar + b2z c0 * BB ^ Z.of_nat lr - b2z cn * (BB * BB ^ Z.of_nat lr)).
    { subst b1'. rewrite value_app. cbn [value]. rewrite (val_at w lr b1) by lia.
      unfold len in *. rewrite Llo. rewrite firstn_length_le in Vlo by lia.
      set (P := BB ^ Z.of_nat lr) in *. nia. }
    destruct b1' as [|x1 b2]; [cbn [length] in Lb1'; lia|].
    destruct (sqr_tri w b2 ar cn) as [r2 cf2] eqn:E3. inversion E; subst r cf; clear E.
    apply wf_cons in Wb1'. destruct Wb1' as [Hx1 Hb2]. cbn [length] in Lb1'.
    destruct (IH b2 cn Har Hb2 ltac:(lia) _ _ E3) as (Lr2 & Wr2 & Vr2).
    split; [cbn [length]; lia|]. split; [apply wf_cons; split; [lia|]; apply wf_cons; split; [lia | auto]|].
    cbn [value tri] in *. fold lr in Vr2.
    assert (P1 : BB ^ len (x0 :: b1) = BB * BB * BB ^ len b2).
    { unfold len. cbn [length]. replace (S (length b1)) with (S (S (length b2))) by lia. rewrite !pow_nat_S. ring. }
    assert (P2 : BB ^ len (m :: ar) = BB * BB ^ Z.of_nat lr) by (unfold len; cbn [length]; apply pow_nat_S).
    assert (P3 : BB ^ len ar = BB ^ Z.of_nat lr) by reflexivity.
    rewrite P1, P2. rewrite P3 in Vr2.
    set (P := BB ^ Z.of_nat lr) in *. set (Q := BB ^ len b2) in *. nia.
Qed.

(** second step *)
Lemma sqr_diag_spec : forall a b c1 c2, wfw a -> wfw b -> length b = (2 * length a)%nat ->
  forall r o1 o2, sqr_diag w b a c1 c2 = (r, (o1, o2)) ->
  length r = length b /\ wfw r /\
  val r + (b2z o1 + b2z o2) * BB ^ len b = 2 * val b + diag a + b2z c1 + b2z c2.
Proof.
  induction a as [|m ar IH]; intros b c1 c2 Ha Hb L r o1 o2 E.
  - destruct b; [|discriminate]. cbn [sqr_diag] in E. inversion E; subst. cbn [diag value].
    change (len (@nil Z)) with 0. rewrite Z.pow_0_r. repeat split; auto. lia.
  - destruct b as [|b0 [|b1 brest]]; [discriminate | cbn [length] in L; lia |]. cbn [sqr_diag] in E.
    apply wf_cons in Ha. destruct Ha as [Hm Har]. apply wf_cons in Hb. destruct Hb as [Hb0 Hb']. apply wf_cons in Hb'. destruct Hb' as [Hb1 Hbr].
    destruct (mul_add_2carry w m m b0 b0) as [s0 s1] eqn:E1.
    destruct (mul_add_2carry_spec w w_ge m m b0 b0 s0 s1 Hm Hm Hb0 Hb0 E1) as (Bs0 & Bs1 & Vs).
    set (s := s0 + BB * s1) in *. set (wb1 := BB * b1) in *.
    set (t1 := s + (wb1 + b2z c1)) in *. set (s' := t1 mod (BB * BB)) in *.
    set (t2 := s' + (wb1 + b2z c2)) in *. set (s'' := t2 mod (BB * BB)) in *.
    destruct (split_dword w s'') as [n0 n1] eqn:E2.
    assert (HBB : 0 < BB * BB) by nia.
    assert (Bs'' : 0 <= s'' < BB * BB) by (subst s''; apply Z.mod_pos_bound; lia).
    destruct (split_dword_spec w w_ge s'' n0 n1 Bs'' E2) as (Bn0 & Bn1 & Vn).
    destruct (sqr_diag w brest ar (BB * BB <=? t1) (BB * BB <=? t2)) as [r' [q1 q2]] eqn:E3.
    inversion E; subst r o1 o2; clear E. cbn [length] in L.
    destruct (IH brest _ _ Har Hbr ltac:(lia) _ _ _ E3) as (Lr' & Wr' & Vr').
    split; [cbn [length]; lia|]. split; [apply wf_cons; split; [lia|]; apply wf_cons; split; [lia | auto]|].
    pose proof (b2z_range c1) as R1. pose proof (b2z_range c2) as R2.
    assert (Bs : 0 <= s < BB * BB) by (subst s; nia).
    assert (Bt1 : 0 <= t1 < 2 * (BB * BB)) by (subst t1 wb1; nia).
    assert (Vs' : s' + b2z (BB * BB <=? t1) * (BB * BB) = t1).
    { subst s'. destruct (Z.leb_spec (BB * BB) t1); cbn [b2z].
      - replace t1 with ((t1 - BB * BB) + 1 * (BB * BB)) at 1 by ring. rewrite Z.mod_add, Z.mod_small by lia. lia.
      - rewrite Z.mod_small by lia. lia. }
    assert (Bs' : 0 <= s' < BB * BB) by (subst s'; apply Z.mod_pos_bound; lia).
    assert (Bt2 : 0 <= t2 < 2 * (BB * BB)) by (subst t2 wb1; nia).
    assert (Vs'' : s'' + b2z (BB * BB <=? t2) * (BB * BB) = t2).
    { subst s''. destruct (Z.leb_spec (BB * BB) t2); cbn [b2z].
      - replace t2 with ((t2 - BB * BB) + 1 * (BB * BB)) at 1 by ring. rewrite Z.mod_add, Z.mod_small by lia. lia.
      - rewrite Z.mod_small by lia. lia. }
    cbn [value diag].
    assert (P1 : BB ^ len (b0 :: b1 :: brest) = BB * BB * BB ^ len brest).
    { unfold len. cbn [length]. rewrite !pow_nat_S. ring. }
    rewrite P1. set (Q := BB ^ len brest) in *.
    set (k1 := b2z (BB * BB <=? t1)) in *. set (k2 := b2z (BB * BB <=? t2)) in *.
    assert (Hsum : n0 + BB * n1 + (k1 + k2) * (BB * BB) = m * m + 2 * (b0 + BB * b1) + b2z c1 + b2z c2).
    { subst t2 t1 wb1 s. lia. }
    clearbody k1 k2 Q. nia.
Qed.

Lemma add_to_last_zero (b : list Z) : add_to_last b 0 = b.
Proof.
  unfold add_to_last. destruct (rev b) as [|t r] eqn:E.
  - apply (f_equal (@rev Z)) in E. rewrite rev_involutive in E. rewrite E. reflexivity.
  - rewrite Z.add_0_r, <- E. apply rev_involutive.
Qed.

(** sqr::simple::square on a zero-filled buffer *)
Theorem simple_square_correct a : wfw a ->
  let r := simple_square w (repeat 0 (2 * length a)) a in
  length r = (2 * length a)%nat /\ wfw r /\ val r = val a * val a.
Proof.
  intros Ha r. subst r. unfold simple_square.
  assert (Wz : wfw (repeat 0 (2 * length a))) by apply wf_repeat_zero, w_pos.
  destruct (sqr_tri w (repeat 0 (2 * length a)) a false) as [b1 c0] eqn:E1.
  destruct (sqr_tri_spec a _ false Ha Wz (repeat_length _ _) _ _ E1) as (L1 & W1 & V1).
  rewrite repeat_length in L1.
  destruct (sqr_diag w b1 a false false) as [b2 [c1 c2]] eqn:E2.
  destruct (sqr_diag_spec a b1 false false Ha W1 L1 _ _ _ E2) as (L2 & W2 & V2).
  rewrite value_repeat_zero in V1. cbn [b2z] in V1, V2.
  pose proof (square_split a) as SQ. pose proof (tri_nonneg a Ha) as T0. pose proof (diag_nonneg a) as D0.
  pose proof (value_bounds w w_pos a Ha) as Ba. pose proof (value_bounds w w_pos b1 W1) as Bb1. pose proof (value_bounds w w_pos b2 W2) as Bb2.
  assert (P : BB ^ len b1 = BB ^ len a * BB ^ len a).
  { unfold len. rewrite L1. replace (2 * length a)%nat with (length a + length a)%nat by lia. apply pow_nat_add. }
  assert (P' : BB ^ len (repeat 0 (2 * length a)) = BB ^ len b1) by (unfold len; rewrite repeat_length, L1; reflexivity).
  assert (P'' : BB ^ len b2 = BB ^ len b1) by (unfold len; rewrite L2; reflexivity).
  rewrite P' in V1. rewrite P'' in Bb2. rewrite P in *.
  set (X := BB ^ len a) in *. assert (0 < X) by apply plen_pos, w_ge.
  pose proof (b2z_range c0). pose proof (b2z_range c1). pose proof (b2z_range c2).
  assert (b2z c0 = 0 /\ b2z c1 = 0 /\ b2z c2 = 0) as (Z0 & Z1 & Z2) by nia.
  rewrite Z0, Z1, Z2. cbn [Z.add]. rewrite add_to_last_zero.
  split; [lia|]. split; [auto|]. nia.
Qed.

(** the sqr dispatch *)
Variable T_simple T_kara CHUNK SQR_SIMPLE : nat.
Hypothesis T_simple_ok : (1 <= T_simple)%nat.
Hypothesis T_kara_ok : (3 <= T_kara)%nat.
Hypothesis CHUNK_ok : (1 <= CHUNK)%nat.

Theorem sqr_correct a : wfw a ->
  exists r, sqr w T_simple T_kara SQR_SIMPLE a = Ok r /\ length r = (2 * length a)%nat /\ wfw r /\ val r = val a * val a.
Proof.
  intros Ha. unfold sqr. destruct (Nat.leb_spec (length a) SQR_SIMPLE) as [H|H].
  - eexists. split; [reflexivity|]. apply simple_square_correct. exact Ha.
  - apply (product_ok w w_ge); auto; [lia|].
    apply (add_signed_mul_same_len_ok w w_ge T_simple T_kara CHUNK); auto.
    repeat split; auto; [apply wf_repeat_zero, w_pos | rewrite repeat_length; lia].
Qed.

End SqrProofs.
