(** C17 - the buffer handling of the arithmetic operations of the storage machine (add_ops.rs, mul_ops.rs,
    shift_ops.rs, bits.rs set_bit/clear_bit): from operands that satisfy the representation invariant every
    routine ends in a value satisfying the invariant, fails no guard (every capacity computation of the
    code suffices), frees the by-value operands it does not reuse exactly once and leaks nothing.
    For every word size w > 0 and every MAX_CAPACITY >= 8. *)
From Dashu Require Import Base.Prelude Base.Words Int.StorageModel Int.StorageProofs.
From Coq Require Import Permutation.
Open Scope Z_scope.

Lemma len_skipn {A} (l : list A) n : 0 <= n <= len l -> len (skipn (Z.to_nat n) l) = len l - n.
Proof. intros H. unfold len in *. rewrite skipn_length. lia. Qed.
Lemma len_firstn {A} (l : list A) n : 0 <= n <= len l -> len (firstn (Z.to_nat n) l) = n.
Proof. intros H. unfold len in *. rewrite firstn_length. lia. Qed.
Lemma len_firstn_skipn {A} (l : list A) n : len (firstn n l) + len (skipn n l) = len l.
Proof. unfold len. rewrite <- Nat2Z.inj_add, <- app_length, firstn_skipn. reflexivity. Qed.
Lemma len_skipn_le {A} (l : list A) n : len (skipn n l) <= len l.
Proof. pose proof (len_firstn_skipn l n). pose proof (len_nonneg (firstn n l)). lia. Qed.

Lemma Own_mid X (y : Z * Z) F m : Own (X ++ y :: F) m -> Own (y :: X ++ F) m.
Proof. apply Own_perm. apply Permutation_sym. apply Permutation_middle. Qed.
Lemma Own_mid' X (y : Z * Z) F m : Own (y :: X ++ F) m -> Own (X ++ y :: F) m.
Proof. apply Own_perm. apply Permutation_middle. Qed.
Lemma Own_swap (x y : Z * Z) F m : Own (x :: y :: F) m -> Own (y :: x :: F) m.
Proof. apply Own_perm. apply perm_swap. Qed.

Lemma Own_swap_app' (A B F : list (Z * Z)) m : Own (A ++ B ++ F) m -> Own (B ++ A ++ F) m.
Proof. apply Own_perm. apply Permutation_app_swap_app. Qed.

Section Arith.
Variable w : Z.
Variable M : Z.
Hypothesis w_pos : 0 < w.
Hypothesis M_big : 8 <= M.

Notation ReprInv := (ReprInv M).
Notation BufOK := (BufOK M).

(** postcondition of a routine that returns a value: the value owns its block, the frame F is intact *)
Definition RQ (F : list (Z * Z)) (Q : repr -> mem -> Prop) : Prop :=
  forall r m', Own (rblks r ++ F) m' -> ReprInv r -> Q r m'.
(** ... that returns a value or raises a documented panic after having released what it owned *)
Definition OQ (F : list (Z * Z)) (Q : outcome -> mem -> Prop) : Prop :=
  forall o m', match o with Done r => Own (rblks r ++ F) m' /\ ReprInv r | Thrown _ => Own F m' end -> Q o m'.

(** operands handed to a routine: an owned buffer / borrowed words of a value with at least 3 words *)
Definition TargInv (a : targ) : Prop :=
  match a with TLarge b => BufOK b /\ 3 <= len (bws b) | TRefLarge ws => 3 <= len ws | _ => True end.

Lemma BufOK_setws b ws : BufOK b -> len ws <= bcap b -> BufOK (setws b ws).
Proof. intros [H1 H2] H. split; cbn [setws bws bcap]; lia. Qed.

Lemma BufOK_any b b' : BufOK b -> bcap b' = bcap b -> len (bws b') <= bcap b -> BufOK b'.
Proof. intros [H1 H2] E H. split; rewrite ?E; lia. Qed.

Lemma len_tow' n v : 0 <= n -> len (tow w n v) = n.
Proof. intros H. unfold len, tow. rewrite to_words_length. lia. Qed.

Ltac lens := cbn [setws bws bcap bptr];
  repeat (rewrite len_app || rewrite len_cons || (rewrite len_repeat by lia) || (rewrite len_tow' by lia)); lnil.

Lemma wp_fb b F m Q : Own (bblk b :: F) m -> BufOK b -> RQ F Q -> safe (from_buffer w M b) m Q.
Proof. intros HO HB HQ. eapply wp_from_buffer; [exact M_big | exact HO | exact HB |]. intros r m' H1 H2 _. apply HQ; auto. Qed.

Lemma wp_alloc n F m (Q : buffer -> mem -> Prop) :
  Own F m -> 0 <= n ->
  (forall b m', Own (bblk b :: F) m' -> bws b = [] -> n <= bcap b -> BufOK b -> Q b m') ->
  safe (allocate M n) m Q.
Proof.
  intros HO Hn HQ. eapply wp_allocate; [exact M_big | exact HO | exact Hn |]. intros b m' HO' E1 E2 E3 HB.
  apply HQ; auto. rewrite E2. destruct (default_capacity_bounds M M_big n ltac:(lia)) as [B1 B2]. lia.
Qed.

Lemma wp_bfrom ws F m (Q : buffer -> mem -> Prop) :
  Own F m -> (forall b m', Own (bblk b :: F) m' -> bws b = ws -> BufOK b -> Q b m') -> safe (buffer_from M ws) m Q.
Proof. intros HO HQ. eapply wp_buffer_from; [exact M_big | exact HO |]. intros b m' H1 H2 _ _ H5. apply HQ; auto. Qed.

Lemma wp_ens b n F m (Q : buffer -> mem -> Prop) :
  Own (bblk b :: F) m -> BufOK b -> len (bws b) <= n ->
  (forall b' m', Own (bblk b' :: F) m' -> bws b' = bws b -> BufOK b' -> n <= bcap b' -> Q b' m') ->
  safe (ensure_capacity M b n) m Q.
Proof.
  intros HO HB Hn HQ. eapply wp_ensure_capacity; [exact M_big | exact HO | exact HB | exact Hn |].
  intros b' m' H1 H2 H3 H4. apply HQ; auto. destruct H4 as [H4|[H4 ->]]; [exact H4|]. destruct HB. lia.
Qed.

Lemma wp_presize b x F m (Q : buffer -> mem -> Prop) :
  Own (bblk b :: F) m -> BufOK b -> (forall b' m', Own (bblk b' :: F) m' -> BufOK b' -> Q b' m') -> safe (push_resizing M b x) m Q.
Proof. intros HO HB HQ. eapply wp_push_resizing; [exact M_big | exact HO | exact HB |]. intros b' m' H1 H2 _. apply HQ; auto. Qed.

Lemma wp_drop b F m (Q : unit -> mem -> Prop) :
  Own (bblk b :: F) m -> (forall m', Own F m' -> Q tt m') -> safe (drop_buffer b) m Q.
Proof. eapply wp_drop_buffer. Qed.

(* ------------------------------------------------------------------ operands *)
Lemma wp_own_large a F m (Q : buffer -> mem -> Prop) :
  Own (tblks a ++ F) m -> TargInv a -> small_of a = None ->
  (forall b m', Own (bblk b :: F) m' -> BufOK b -> bws b = twords a -> Q b m') ->
  safe (own_large M a) m Q.
Proof.
  intros HO HI Hs HQ. destruct a as [x|b|x|ws]; cbn [small_of] in Hs; try discriminate; cbn [own_large tblks twords app TargInv] in *.
  - apply safe_ret. apply HQ; tauto.
  - eapply wp_bfrom; [exact HO|]. intros b m' H1 H2 H3. apply HQ; auto.
Qed.

Lemma wp_release a F m (Q : unit -> mem -> Prop) :
  Own (tblks a ++ F) m -> (forall m', Own F m' -> Q tt m') -> safe (release a) m Q.
Proof.
  intros HO HQ. destruct a as [x|b|x|ws]; cbn [release tblks app] in *; try (apply safe_ret; apply HQ; exact HO).
  eapply wp_drop; eauto.
Qed.

Lemma twords_len a : TargInv a -> small_of a = None -> 3 <= len (twords a).
Proof. destruct a; cbn [small_of TargInv twords]; try discriminate; tauto. Qed.

(* ------------------------------------------------------------------ add_ops.rs *)
Lemma wp_add_dword a b F m Q : Own F m -> RQ F Q -> safe (add_dword w M a b) m Q.
Proof.
  intros HO HQ. unfold add_dword. cbv zeta. destruct (a + b >=? Bw w * Bw w).
  - apply safe_bind. eapply wp_alloc; [exact HO | lia |]. intros b0 m1 HO1 E1 E2 HB.
    apply safe_bind. eapply wp_push; [rewrite E1; lnil; lia|].
    apply safe_bind. eapply wp_push; [lens; rewrite E1; lens; lia|].
    apply safe_bind. eapply wp_push; [lens; rewrite E1; lens; lia|].
    eapply wp_fb; [exact HO1 | | exact HQ]. apply BufOK_setws; [|lens; rewrite E1; lens; lia].
    apply BufOK_setws; [|lens; rewrite E1; lens; lia]. apply BufOK_setws; [exact HB|lens; rewrite E1; lens; lia].
  - apply safe_ret. apply HQ; [exact HO | apply ReprInv_from_dword].
Qed.

Lemma wp_add_large_dword b dw F m Q :
  Own (bblk b :: F) m -> BufOK b -> 3 <= len (bws b) -> RQ F Q -> safe (add_large_dword w M b dw) m Q.
Proof.
  intros HO HB H3 HQ. unfold add_large_dword. cbv zeta.
  apply safe_bind. apply safe_guard; [apply Z.leb_le; exact H3|].
  assert (BufOK (setws b (tow w (len (bws b)) (val w (bws b) + dw)))) as HB'.
  { apply BufOK_setws; [exact HB|]. lens. destruct HB; lia. }
  apply safe_bind. destruct (_ =? 0).
  - apply safe_ret. eapply wp_fb; eauto.
  - eapply wp_presize; [exact HO | exact HB' |]. intros b2 m2 HO2 HB2. eapply wp_fb; eauto.
Qed.

Lemma wp_add_large b rhs F m Q :
  Own (bblk b :: F) m -> BufOK b -> RQ F Q -> safe (add_large w M b rhs) m Q.
Proof.
  intros HO HB HQ. unfold add_large. cbv zeta.
  pose proof (len_nonneg (bws b)) as L0. pose proof (len_nonneg rhs) as L1.
  set (n := Z.min (len (bws b)) (len rhs)). assert (0 <= n <= len (bws b) /\ n <= len rhs) as Hn by (unfold n; lia).
  set (s := val w (firstn (Z.to_nat n) (bws b)) + val w (firstn (Z.to_nat n) rhs)).
  set (b0 := setws b (tow w n s ++ skipn (Z.to_nat n) (bws b))).
  assert (len (bws b0) = len (bws b)) as E0 by (unfold b0; lens; rewrite len_skipn by lia; lia).
  assert (BufOK b0) as HB0 by (apply BufOK_setws; [exact HB | change (len (bws b0) <= bcap b); rewrite E0; destruct HB; lia]).
  apply safe_bind.
  apply (safe_mono _ _ (fun b1 m1 => Own (bblk b1 :: F) m1 /\ BufOK b1)).
  { destruct (Z.gtb_spec (len rhs) n) as [Hgt|Hle].
    - apply safe_bind. eapply wp_ens; [exact HO | exact HB0 | lia |]. intros b' m' HO' E' HB' Hc.
      eapply wp_push_slice; [rewrite E', E0, len_skipn by lia; lia|]. split; [exact HO'|].
      apply BufOK_setws; [exact HB'|]. lens. rewrite E', E0, len_skipn by lia. lia.
    - apply safe_ret. split; [exact HO | exact HB0]. }
  intros b1 m1 [HO1 HB1]. apply safe_bind.
  apply (safe_mono _ _ (fun b2 m2 => Own (bblk b2 :: F) m2 /\ BufOK b2)).
  { destruct (negb _); [|apply safe_ret; split; assumption].
    set (hi := skipn (Z.to_nat n) (bws b1)). set (t := val w hi + 1).
    assert (BufOK (setws b1 (firstn (Z.to_nat n) (bws b1) ++ tow w (len hi) t))) as HB'.
    { apply BufOK_setws; [exact HB1|]. pose proof (len_nonneg hi). lens.
      pose proof (len_firstn_skipn (bws b1) (Z.to_nat n)). fold hi in H0. destruct HB1. lia. }
    destruct (_ =? 0); [apply safe_ret; split; assumption|].
    eapply wp_presize; [exact HO1 | exact HB' |]. intros b2 m2 HO2 HB2. split; assumption. }
  intros b2 m2 [HO2 HB2]. eapply wp_fb; eauto.
Qed.

Theorem wp_add_mag a b F m Q :
  Own (tblks a ++ tblks b ++ F) m -> TargInv a -> TargInv b -> RQ F Q -> safe (add_mag w M a b) m Q.
Proof.
  intros HO Ha Hb HQ. unfold add_mag.
  destruct (small_of a) as [x|] eqn:Ea; destruct (small_of b) as [y|] eqn:Eb.
  - destruct a; try discriminate; destruct b; try discriminate; cbn [tblks app] in HO; eapply wp_add_dword; eauto.
  - assert (tblks a = []) as Et by (destruct a; try discriminate; reflexivity). rewrite Et in HO. cbn [app] in HO.
    apply safe_bind. eapply wp_own_large; [exact HO | exact Hb | exact Eb |]. intros bb m1 HO1 HB1 E1.
    eapply wp_add_large_dword; eauto. rewrite E1. apply twords_len; auto.
  - assert (tblks b = []) as Et by (destruct b; try discriminate; reflexivity). rewrite Et in HO. cbn [app] in HO.
    apply safe_bind. eapply wp_own_large; [exact HO | exact Ha | exact Ea |]. intros ba m1 HO1 HB1 E1.
    eapply wp_add_large_dword; eauto. rewrite E1. apply twords_len; auto.
  - destruct a as [x|b0|x|w0]; try discriminate; destruct b as [y|b1|y|w1]; try discriminate;
      cbn [tblks app TargInv] in *.
    + destruct (len (bws b1) <=? len (bws b0)).
      * apply safe_bind. eapply wp_add_large; [exact HO | tauto |]. intros r m1 HO1 HR.
        apply safe_bind. eapply wp_drop; [apply Own_mid; exact HO1|]. intros m2 HO2. apply safe_ret. apply HQ; auto.
      * apply safe_bind. eapply wp_add_large; [apply Own_swap; exact HO | tauto |]. intros r m1 HO1 HR.
        apply safe_bind. eapply wp_drop; [apply Own_mid; exact HO1|]. intros m2 HO2. apply safe_ret. apply HQ; auto.
    + eapply wp_add_large; [exact HO | tauto | exact HQ].
    + eapply wp_add_large; [exact HO | tauto | exact HQ].
    + destruct (len w1 <=? len w0).
      * apply safe_bind. eapply wp_bfrom; [exact HO|]. intros b0 m1 HO1 E1 HB1. eapply wp_add_large; eauto.
      * apply safe_bind. eapply wp_bfrom; [exact HO|]. intros b1 m1 HO1 E1 HB1. eapply wp_add_large; eauto.
Qed.

Lemma wp_done (c : M_ repr) F m Q :
  (forall Q', RQ F Q' -> safe c m Q') -> OQ F Q -> safe (done c) m Q.
Proof.
  intros Hc HQ. unfold done. apply safe_bind. apply Hc. intros r m' HO HR. apply safe_ret. apply HQ. cbn. auto.
Qed.

Lemma wp_sub_large_dword b dw F m Q : Own (bblk b :: F) m -> BufOK b -> RQ F Q -> safe (sub_large_dword w M b dw) m Q.
Proof.
  intros HO HB HQ. unfold sub_large_dword. eapply wp_fb; [exact HO | | exact HQ].
  apply BufOK_setws; [exact HB|]. pose proof (len_nonneg (bws b)). lens. destruct HB; lia.
Qed.

Lemma wp_thrown_drop b y F m Q : Own (bblk b :: F) m -> OQ F Q -> safe (drop_buffer b ;;; ret (Thrown y)) m Q.
Proof. intros HO HQ. apply safe_bind. eapply wp_drop; [exact HO|]. intros m' HO'. apply safe_ret. apply HQ. exact HO'. Qed.

Lemma wp_sub_large lhs rhs F m Q : Own (bblk lhs :: F) m -> BufOK lhs -> OQ F Q -> safe (sub_large w M lhs rhs) m Q.
Proof.
  intros HO HB HQ. unfold sub_large. destruct (_ || _).
  - eapply wp_thrown_drop; eauto.
  - eapply wp_done; [|exact HQ]. intros Q' HQ'. eapply wp_fb; [exact HO | | exact HQ'].
    apply BufOK_setws; [exact HB|]. pose proof (len_nonneg (bws lhs)). lens. destruct HB; lia.
Qed.

Lemma wp_sub_large_ref_val lhs rhs F m Q :
  Own (bblk rhs :: F) m -> BufOK rhs -> OQ F Q -> safe (sub_large_ref_val w M lhs rhs) m Q.
Proof.
  intros HO HB HQ. unfold sub_large_ref_val. cbv zeta. pose proof (len_nonneg (bws rhs)) as L0.
  destruct (Z.ltb_spec (len lhs) (len (bws rhs))) as [Hlt|Hge].
  - eapply wp_thrown_drop; eauto.
  - apply safe_bind. eapply wp_ens; [exact HO | exact HB | lia |]. intros b1 m1 HO1 E1 HB1 Hc.
    apply safe_bind. eapply wp_push_slice; [rewrite E1, len_skipn by lia; lia|].
    destruct (_ <? _).
    + eapply wp_thrown_drop; eauto.
    + eapply wp_done; [|exact HQ]. intros Q' HQ'. eapply wp_fb; [exact HO1 | | exact HQ'].
      apply BufOK_setws; [apply BufOK_setws; [exact HB1|]|]; lens; [rewrite E1, len_skipn by lia|]; lia.
Qed.

Theorem wp_sub_mag a b F m Q :
  Own (tblks a ++ tblks b ++ F) m -> TargInv a -> TargInv b -> OQ F Q -> safe (sub_mag w M a b) m Q.
Proof.
  intros HO Ha Hb HQ. unfold sub_mag.
  destruct (small_of a) as [x|] eqn:Ea; destruct (small_of b) as [y|] eqn:Eb.
  - assert (tblks a = [] /\ tblks b = []) as [E1 E2] by (destruct a; try discriminate; destruct b; try discriminate; auto).
    rewrite E1, E2 in HO. cbn [app] in HO.
    destruct (x <? y); apply safe_ret; apply HQ; cbn [rblks from_dword app]; auto. split; [exact HO | apply ReprInv_from_dword].
  - assert (tblks a = []) as Et by (destruct a; try discriminate; reflexivity). rewrite Et in HO. cbn [app] in HO.
    apply safe_bind. eapply wp_release; [exact HO|]. intros m' HO'. apply safe_ret. apply HQ. exact HO'.
  - assert (tblks b = []) as Et by (destruct b; try discriminate; reflexivity). rewrite Et in HO. cbn [app] in HO.
    apply safe_bind. eapply wp_own_large; [exact HO | exact Ha | exact Ea |]. intros ba m1 HO1 HB1 E1.
    eapply wp_done; [|exact HQ]. intros Q' HQ'. eapply wp_sub_large_dword; eauto.
  - destruct a as [x|b0|x|w0]; try discriminate; destruct b as [y|b1|y|w1]; try discriminate;
      cbn [tblks app TargInv] in *.
    + apply safe_bind. eapply wp_sub_large; [exact HO | tauto |]. intros o m1 Ho.
      apply safe_bind. destruct o as [r|y].
      * destruct Ho as [HO1 HR]. eapply wp_drop; [apply Own_mid; exact HO1|]. intros m2 HO2. apply safe_ret. apply HQ. cbn. auto.
      * eapply wp_drop; [exact Ho|]. intros m2 HO2. apply safe_ret. apply HQ. exact HO2.
    + eapply wp_sub_large; [exact HO | tauto | exact HQ].
    + eapply wp_sub_large_ref_val; [exact HO | tauto | exact HQ].
    + apply safe_bind. eapply wp_bfrom; [exact HO|]. intros b0 m1 HO1 E1 HB1. eapply wp_sub_large; eauto.
Qed.

Lemma OQ_omap f F Q :
  (forall r, ReprInv r -> ReprInv (f r)) -> (forall r, rblks (f r) = rblks r) ->
  OQ F Q -> OQ F (fun o m' => Q (omap f o) m').
Proof.
  intros H1 H2 HQ o m' Ho. apply HQ. destruct o as [r|y]; cbn [omap]; [|exact Ho]. rewrite H2. destruct Ho. auto.
Qed.

Lemma wp_ssub_large lhs rhs F m Q : Own (bblk lhs :: F) m -> BufOK lhs -> OQ F Q -> safe (ssub_large w M lhs rhs) m Q.
Proof.
  intros HO HB HQ. unfold ssub_large. destruct (_ <=? _).
  - cbv zeta. apply safe_bind. eapply wp_fb; [exact HO | |].
    + apply BufOK_setws; [exact HB|]. pose proof (len_nonneg (bws lhs)). lens. destruct HB; lia.
    + intros r m1 HO1 HR. apply safe_ret. apply HQ. cbn. rewrite rblks_with_sign. split; [exact HO1 | apply ReprInv_with_sign; exact HR].
  - apply safe_bind. eapply wp_sub_large_ref_val; [exact HO | exact HB |].
    intros o m1 Ho. apply safe_ret. revert o m1 Ho. apply (OQ_omap (fun r => with_sign r Negative)); auto.
    + intros r Hr. apply ReprInv_with_sign. exact Hr.
    + intros r. apply rblks_with_sign.
Qed.

Lemma OQ_neg F Q : OQ F Q -> OQ F (fun o m' => Q (omap neg o) m').
Proof. apply OQ_omap; [intros r Hr; apply ReprInv_neg; exact Hr | apply rblks_neg]. Qed.

Theorem wp_sub_signed a b F m Q :
  Own (tblks a ++ tblks b ++ F) m -> TargInv a -> TargInv b -> OQ F Q -> safe (sub_signed w M a b) m Q.
Proof.
  intros HO Ha Hb HQ. unfold sub_signed.
  destruct (small_of a) as [x|] eqn:Ea; destruct (small_of b) as [y|] eqn:Eb.
  - assert (tblks a = [] /\ tblks b = []) as [E1 E2] by (destruct a; try discriminate; destruct b; try discriminate; auto).
    rewrite E1, E2 in HO. cbn [app] in HO.
    apply safe_ret; apply HQ. cbn. rewrite rblks_with_sign. cbn [rblks from_dword app]. split; [exact HO|].
    apply ReprInv_with_sign. apply ReprInv_from_dword.
  - assert (tblks a = []) as Et by (destruct a; try discriminate; reflexivity). rewrite Et in HO. cbn [app] in HO.
    apply safe_bind. eapply wp_own_large; [exact HO | exact Hb | exact Eb |]. intros bb m1 HO1 HB1 E1.
    apply safe_bind. eapply wp_sub_large_dword; [exact HO1 | exact HB1 |]. intros r m2 HO2 HR.
    apply safe_ret. apply HQ. cbn. rewrite rblks_neg. split; [exact HO2 | apply ReprInv_neg; exact HR].
  - assert (tblks b = []) as Et by (destruct b; try discriminate; reflexivity). rewrite Et in HO. cbn [app] in HO.
    apply safe_bind. eapply wp_own_large; [exact HO | exact Ha | exact Ea |]. intros ba m1 HO1 HB1 E1.
    eapply wp_done; [|exact HQ]. intros Q' HQ'. eapply wp_sub_large_dword; eauto.
  - destruct a as [x|b0|x|w0]; try discriminate; destruct b as [y|b1|y|w1]; try discriminate;
      cbn [tblks app TargInv] in *.
    + destruct (len (bws b1) <=? len (bws b0)).
      * apply safe_bind. eapply wp_ssub_large; [exact HO | tauto |]. intros o m1 Ho.
        apply safe_bind. destruct o as [r|y].
        -- destruct Ho as [HO1 HR]. eapply wp_drop; [apply Own_mid; exact HO1|]. intros m2 HO2. apply safe_ret. apply HQ. cbn. auto.
        -- eapply wp_drop; [exact Ho|]. intros m2 HO2. apply safe_ret. apply HQ. exact HO2.
      * apply safe_bind. eapply wp_ssub_large; [apply Own_swap; exact HO | tauto |]. intros o m1 Ho.
        apply safe_bind. destruct o as [r|y].
        -- destruct Ho as [HO1 HR]. eapply wp_drop; [apply Own_mid; exact HO1|]. intros m2 HO2. apply safe_ret. apply HQ. cbn.
           rewrite rblks_neg. split; [exact HO2 | apply ReprInv_neg; exact HR].
        -- eapply wp_drop; [exact Ho|]. intros m2 HO2. apply safe_ret. apply HQ. exact HO2.
    + eapply wp_ssub_large; [exact HO | tauto | exact HQ].
    + apply safe_bind. eapply wp_ssub_large; [exact HO | tauto |]. intros o m1 Ho. apply safe_ret.
      revert o m1 Ho. apply OQ_neg. exact HQ.
    + destruct (len w1 <=? len w0).
      * apply safe_bind. eapply wp_bfrom; [exact HO|]. intros b0 m1 HO1 E1 HB1. eapply wp_ssub_large; eauto.
      * apply safe_bind. eapply wp_bfrom; [exact HO|]. intros b1 m1 HO1 E1 HB1.
        apply safe_bind. eapply wp_ssub_large; [exact HO1 | exact HB1 |]. intros o m2 Ho. apply safe_ret.
        revert o m2 Ho. apply OQ_neg. exact HQ.
Qed.

(* ------------------------------------------------------------------ mul_ops.rs *)
Lemma wp_mul_dword a b F m Q : Own F m -> RQ F Q -> safe (mul_dword w M a b) m Q.
Proof.
  intros HO HQ. unfold mul_dword. destruct (_ && _).
  - apply safe_ret. apply HQ; [exact HO | apply ReprInv_from_dword].
  - cbv zeta. apply safe_bind. eapply wp_alloc; [exact HO | lia |]. intros b0 m1 HO1 E1 E2 HB.
    apply safe_bind. eapply wp_push; [rewrite E1; lnil; lia|].
    apply safe_bind. eapply wp_push; [lens; rewrite E1; lens; lia|].
    apply safe_bind. eapply wp_push; [lens; rewrite E1; lens; lia|].
    apply safe_bind. eapply wp_push; [lens; rewrite E1; lens; lia|].
    eapply wp_fb; [exact HO1 | | exact HQ].
    repeat (apply BufOK_setws; [|lens; rewrite E1; lens; lia]). exact HB.
Qed.

Lemma wp_mul_large_dword b dw F m Q :
  Own (bblk b :: F) m -> BufOK b -> RQ F Q -> safe (mul_large_dword w M b dw) m Q.
Proof.
  intros HO HB HQ. unfold mul_large_dword. pose proof (len_nonneg (bws b)) as L0.
  destruct (dw =? 0).
  { apply safe_bind. eapply wp_drop; [exact HO|]. intros m' HO'. apply safe_ret. apply HQ; [exact HO' | left; auto]. }
  destruct (dw =? 1); [eapply wp_fb; eauto|]. cbv zeta.
  set (b' := setws b (tow w (len (bws b)) (val w (bws b) * dw))).
  assert (BufOK b') as HB' by (apply BufOK_setws; [exact HB | lens; destruct HB; lia]).
  assert (len (bws b') = len (bws b)) as E' by (unfold b'; lens; reflexivity).
  destruct (dw <? Bw w).
  - apply safe_bind. eapply wp_presize; [exact HO | exact HB' |]. intros b2 m2 HO2 HB2. eapply wp_fb; eauto.
  - destruct (_ =? 0); [eapply wp_fb; eauto|].
    apply safe_bind. eapply wp_ens; [exact HO | exact HB' | lia |]. intros b1 m1 HO1 E1 HB1 Hc.
    apply safe_bind. eapply wp_push; [rewrite E1, E'; lia|].
    apply safe_bind. eapply wp_push; [lens; rewrite E1, E'; lens; lia|].
    eapply wp_fb; [exact HO1 | | exact HQ].
    repeat (apply BufOK_setws; [|lens; rewrite E1, E'; lens; lia]). exact HB1.
Qed.

Lemma wp_mul_large lhs rhs F m Q :
  Own F m -> 2 <= len lhs -> 2 <= len rhs -> RQ F Q -> safe (mul_large w M lhs rhs) m Q.
Proof.
  intros HO H1 H2 HQ. unfold mul_large. cbv zeta.
  apply safe_bind. apply safe_guard; [apply andb_true_intro; split; apply Z.leb_le; assumption|].
  apply safe_bind. eapply wp_alloc; [exact HO | lia |]. intros b m1 HO1 E1 E2 HB.
  apply safe_bind. eapply wp_push_repeat; [rewrite E1; lnil; lia|].
  eapply wp_fb; [exact HO1 | | exact HQ]. apply BufOK_setws; [apply BufOK_setws; [exact HB|]|]; lens; [rewrite E1; lens|]; lia.
Qed.

Theorem wp_mul_mag a b F m Q :
  Own (tblks a ++ tblks b ++ F) m -> TargInv a -> TargInv b -> RQ F Q -> safe (mul_mag w M a b) m Q.
Proof.
  intros HO Ha Hb HQ. unfold mul_mag.
  destruct (small_of a) as [x|] eqn:Ea; destruct (small_of b) as [y|] eqn:Eb.
  - destruct a; try discriminate; destruct b; try discriminate; cbn [tblks app] in HO; eapply wp_mul_dword; eauto.
  - assert (tblks a = []) as Et by (destruct a; try discriminate; reflexivity). rewrite Et in HO. cbn [app] in HO.
    apply safe_bind. eapply wp_own_large; [exact HO | exact Hb | exact Eb |]. intros bb m1 HO1 HB1 E1.
    eapply wp_mul_large_dword; eauto.
  - assert (tblks b = []) as Et by (destruct b; try discriminate; reflexivity). rewrite Et in HO. cbn [app] in HO.
    apply safe_bind. eapply wp_own_large; [exact HO | exact Ha | exact Ea |]. intros ba m1 HO1 HB1 E1.
    eapply wp_mul_large_dword; eauto.
  - pose proof (twords_len a Ha Ea) as La. pose proof (twords_len b Hb Eb) as Lb.
    apply safe_bind. eapply wp_mul_large; [exact HO | lia | lia |]. intros r m1 HO1 HR.
    apply safe_bind. eapply wp_release.
    { eapply Own_perm; [|exact HO1]. apply Permutation_app_swap_app. }
    intros m2 HO2. apply safe_bind. eapply wp_release.
    { eapply Own_perm; [|exact HO2]. apply Permutation_app_swap_app. }
    intros m3 HO3. apply safe_ret. apply HQ; auto.
Qed.

(* ------------------------------------------------------------------ shift_ops.rs, bits.rs *)
Lemma sw_nonneg n : 0 <= n -> 0 <= n / w.
Proof. intros H. apply Z.div_pos; lia. Qed.

Lemma wp_shl_large_ref ws n F m Q : Own F m -> 0 <= n -> RQ F Q -> safe (shl_large_ref w M ws n) m Q.
Proof.
  intros HO Hn HQ. unfold shl_large_ref. cbv zeta. pose proof (sw_nonneg n Hn) as Hs. pose proof (len_nonneg ws) as L0.
  apply safe_bind. eapply wp_alloc; [exact HO | lia |]. intros b m1 HO1 E1 E2 HB.
  apply safe_bind. eapply wp_push_repeat; [rewrite E1; lnil; lia|].
  apply safe_bind. eapply wp_push_slice; [lens; rewrite E1; lens; lia|].
  apply safe_bind. eapply wp_push; [lens; rewrite E1; lens; lia|].
  eapply wp_fb; [exact HO1 | | exact HQ].
  eapply (BufOK_any b); [exact HB | reflexivity |]. cbn [setws bws bcap]. rewrite len_tow'; rewrite E1; lens; lia.
Qed.

Lemma wp_shl_large b n F m Q : Own (bblk b :: F) m -> BufOK b -> 0 <= n -> RQ F Q -> safe (shl_large w M b n) m Q.
Proof.
  intros HO HB Hn HQ. unfold shl_large. cbv zeta. pose proof (sw_nonneg n Hn) as Hs. pose proof (len_nonneg (bws b)) as L0.
  destruct (Z.ltb_spec (bcap b) (len (bws b) + n / w + 1)) as [Hlt|Hge].
  - apply safe_bind. eapply wp_shl_large_ref; [exact HO | exact Hn |]. intros r m1 HO1 HR.
    apply safe_bind. eapply wp_drop; [apply Own_mid; exact HO1|]. intros m2 HO2. apply safe_ret. apply HQ; auto.
  - apply safe_bind. eapply wp_push; [lia|].
    apply safe_bind. eapply wp_push_zeros_front; [lens; lia|].
    eapply wp_fb; [exact HO | | exact HQ].
    eapply (BufOK_any b); [exact HB | reflexivity |]. cbn [setws bws bcap]. rewrite len_tow'; lens; lia.
Qed.

Lemma pow2_ge_dw n : 0 <= n -> 1 * 2 ^ n >= Bw w * Bw w -> 2 * w <= n.
Proof.
  intros Hn H. unfold Bw in H. rewrite <- Z.pow_add_r in H by lia.
  destruct (Z.le_gt_cases (2 * w) n) as [Hc|Hc]; [exact Hc|].
  assert (2 ^ n < 2 ^ (w + w)) by (apply Z.pow_lt_mono_r; lia). lia.
Qed.

Lemma div_ge_2 n : 2 * w <= n -> 2 <= n / w.
Proof. intros H. apply Z.div_le_lower_bound; lia. Qed.

Lemma wp_shl_dword dw n F m Q : Own F m -> dw <> 0 -> 0 <= n -> RQ F Q -> safe (shl_dword w M dw n) m Q.
Proof.
  intros HO Hd Hn HQ. unfold shl_dword. pose proof (sw_nonneg n Hn) as Hs.
  apply safe_bind. apply safe_guard; [destruct (Z.eqb_spec dw 0); [contradiction | reflexivity]|].
  destruct (Z.ltb_spec (dw * 2 ^ n) (Bw w * Bw w)) as [Hlt|Hge].
  { apply safe_ret. apply HQ; [exact HO | apply ReprInv_from_dword]. }
  destruct (Z.eqb_spec dw 1) as [->|Hne]; cbv zeta.
  - apply safe_bind. apply safe_guard; [apply Z.leb_le; apply pow2_ge_dw; [exact Hn | lia]|].
    apply safe_bind. eapply wp_alloc; [exact HO | lia |]. intros b m1 HO1 E1 E2 HB.
    apply safe_bind. eapply wp_push_repeat; [rewrite E1; lnil; lia|].
    apply safe_bind. eapply wp_push; [lens; rewrite E1; lens; lia|].
    eapply wp_fb; [exact HO1 | | exact HQ].
    repeat (apply BufOK_setws; [|lens; rewrite E1; lens; lia]). exact HB.
  - apply safe_bind. eapply wp_alloc; [exact HO | lia |]. intros b m1 HO1 E1 E2 HB.
    apply safe_bind. eapply wp_push_repeat; [rewrite E1; lnil; lia|].
    apply safe_bind. eapply wp_push; [lens; rewrite E1; lens; lia|].
    apply safe_bind. eapply wp_push; [lens; rewrite E1; lens; lia|].
    apply safe_bind. eapply wp_push; [lens; rewrite E1; lens; lia|].
    eapply wp_fb; [exact HO1 | | exact HQ].
    repeat (apply BufOK_setws; [|lens; rewrite E1; lens; lia]). exact HB.
Qed.

Theorem wp_shl_mag a n F m Q : Own (tblks a ++ F) m -> TargInv a -> 0 <= n -> RQ F Q -> safe (shl_mag w M a n) m Q.
Proof.
  intros HO Ha Hn HQ. destruct a as [d|b|d|ws]; cbn [shl_mag tblks app TargInv] in *.
  - destruct (Z.eqb_spec d 0); [apply safe_ret; apply HQ; [exact HO | left; auto] | eapply wp_shl_dword; eauto].
  - eapply wp_shl_large; [exact HO | tauto ..].
  - destruct (Z.eqb_spec d 0); [apply safe_ret; apply HQ; [exact HO | left; auto] | eapply wp_shl_dword; eauto].
  - eapply wp_shl_large_ref; eauto.
Qed.

Lemma ReprInv_zero' : ReprInv zero.
Proof. left. auto. Qed.

Lemma wp_shr_large b n F m Q : Own (bblk b :: F) m -> BufOK b -> 0 <= n -> RQ F Q -> safe (shr_large w M b n) m Q.
Proof.
  intros HO HB Hn HQ. unfold shr_large. cbv zeta. pose proof (sw_nonneg n Hn) as Hs.
  destruct (Z.leb_spec (len (bws b)) (n / w)) as [Hle|Hgt].
  - apply safe_bind. eapply wp_drop; [exact HO|]. intros m' HO'. apply safe_ret. apply HQ; [exact HO' | apply ReprInv_zero'].
  - apply safe_bind. eapply wp_erase_front; [lia|].
    eapply wp_fb; [exact HO | | exact HQ].
    eapply (BufOK_any b); [exact HB | reflexivity |]. cbn [setws bws bcap]. pose proof (len_nonneg (skipn (Z.to_nat (n / w)) (bws b))).
    rewrite len_tow' by lia. pose proof (len_skipn_le (bws b) (Z.to_nat (n / w))). destruct HB. lia.
Qed.

Lemma wp_shr_large_ref ws n F m Q : Own F m -> RQ F Q -> safe (shr_large_ref w M ws n) m Q.
Proof.
  intros HO HQ. unfold shr_large_ref. cbv zeta.
  set (ws' := skipn _ ws). destruct ws' as [|x [|y [|z rest]]] eqn:E.
  - apply safe_ret. apply HQ; [exact HO | apply ReprInv_zero'].
  - apply safe_ret. apply HQ; [exact HO | apply ReprInv_from_word].
  - apply safe_ret. apply HQ; [exact HO | apply ReprInv_from_dword].
  - set (l := x :: y :: z :: rest). pose proof (len_nonneg l) as L0.
    apply safe_bind. eapply wp_alloc; [exact HO | lia |]. intros b m1 HO1 E1 E2 HB.
    apply safe_bind. eapply wp_push_slice; [rewrite E1; lnil; lia|].
    eapply wp_fb; [exact HO1 | | exact HQ]. eapply (BufOK_any b); [exact HB | reflexivity |]. lens. lia.
Qed.

Theorem wp_shr_mag a n F m Q : Own (tblks a ++ F) m -> TargInv a -> 0 <= n -> RQ F Q -> safe (shr_mag w M a n) m Q.
Proof.
  intros HO Ha Hn HQ. destruct a as [d|b|d|ws]; cbn [shr_mag tblks app TargInv] in *.
  - destruct (n <? 2 * w); apply safe_ret; apply HQ; auto; [apply ReprInv_from_dword | apply ReprInv_zero'].
  - eapply wp_shr_large; [exact HO | tauto ..].
  - destruct (n <? 2 * w); apply safe_ret; apply HQ; auto; [apply ReprInv_from_dword | apply ReprInv_zero'].
  - eapply wp_shr_large_ref; eauto.
Qed.

(** operands of set_bit / clear_bit: taken by value *)
Definition is_ref (a : targ) : bool := match a with TRefLarge _ => true | _ => false end.

Lemma wp_set_bit_small d n F m Q : Own F m -> 0 <= n -> RQ F Q ->
  safe (if n <? 2 * w then ret (from_dword w (Z.lor d (2 ^ n)))
        else let idx := n / w in
           guard 13 (2 * w <=? n) ;;;
           b <- allocate M (idx + 1) ;; b1 <- push b (d mod Bw w) ;; b2 <- push b1 (d / Bw w) ;;
           guard 14 (2 <=? idx) ;;; b3 <- push_repeat b2 0 (idx - 2) ;; b4 <- push b3 (2 ^ (n mod w)) ;; from_buffer w M b4) m Q.
Proof.
  intros HO Hn HQ. destruct (Z.ltb_spec n (2 * w)) as [Hlt|Hge].
  { apply safe_ret. apply HQ; [exact HO | apply ReprInv_from_dword]. }
  cbv zeta. pose proof (div_ge_2 n Hge) as Hi.
  apply safe_bind. apply safe_guard; [apply Z.leb_le; exact Hge|].
  apply safe_bind. eapply wp_alloc; [exact HO | lia |]. intros b m1 HO1 E1 E2 HB.
  apply safe_bind. eapply wp_push; [rewrite E1; lnil; lia|].
  apply safe_bind. eapply wp_push; [lens; rewrite E1; lens; lia|].
  apply safe_bind. apply safe_guard; [apply Z.leb_le; exact Hi|].
  apply safe_bind. eapply wp_push_repeat; [lens; rewrite E1; lens; lia|].
  apply safe_bind. eapply wp_push; [lens; rewrite E1; lens; lia|].
  eapply wp_fb; [exact HO1 | | exact HQ].
  repeat (apply BufOK_setws; [|lens; rewrite E1; lens; lia]). exact HB.
Qed.

Theorem wp_set_bit a n F m Q :
  Own (tblks a ++ F) m -> TargInv a -> is_ref a = false -> 0 <= n -> RQ F Q -> safe (set_bit w M a n) m Q.
Proof.
  intros HO Ha Hr Hn HQ. destruct a as [d|b|d|ws]; cbn [set_bit tblks app TargInv is_ref] in *; try discriminate.
  - eapply wp_set_bit_small; eauto.
  - cbv zeta. destruct Ha as [HB H3]. pose proof (sw_nonneg n Hn) as Hs.
    destruct (Z.ltb_spec (n / w) (len (bws b))) as [Hlt|Hge].
    + eapply wp_fb; [exact HO | | exact HQ]. apply BufOK_setws; [exact HB|]. lens. destruct HB; lia.
    + apply safe_bind. eapply wp_ens; [exact HO | exact HB | lia |]. intros b1 m1 HO1 E1 HB1 Hc.
      apply safe_bind. apply safe_guard; [apply Z.leb_le; rewrite E1; lia|].
      apply safe_bind. eapply wp_push_repeat; [rewrite E1; lia|].
      apply safe_bind. eapply wp_push; [lens; rewrite E1; lens; lia|].
      eapply wp_fb; [exact HO1 | | exact HQ].
      repeat (apply BufOK_setws; [|lens; rewrite E1; lens; lia]). exact HB1.
  - eapply wp_set_bit_small; eauto.
Qed.

Theorem wp_clear_bit a n F m Q :
  Own (tblks a ++ F) m -> TargInv a -> is_ref a = false -> RQ F Q -> safe (clear_bit w M a n) m Q.
Proof.
  intros HO Ha Hr HQ. destruct a as [d|b|d|ws]; cbn [clear_bit tblks app TargInv is_ref] in *; try discriminate.
  - destruct (n <? 2 * w); apply safe_ret; apply HQ; auto; apply ReprInv_from_dword.
  - destruct Ha as [HB H3]. eapply wp_fb; [exact HO | | exact HQ]. apply BufOK_setws; [exact HB|]. lens. destruct HB; lia.
  - destruct (n <? 2 * w); apply safe_ret; apply HQ; auto; apply ReprInv_from_dword.
Qed.

(* ------------------------------------------------------------------ bits.rs: and / or / xor *)
Lemma wp_fb_any b b' F m Q :
  Own (bblk b :: F) m -> BufOK b -> bptr b' = bptr b -> bcap b' = bcap b -> len (bws b') <= bcap b -> RQ F Q ->
  safe (from_buffer w M b') m Q.
Proof.
  intros HO HB E1 E2 HL HQ. eapply wp_fb; [| eapply (BufOK_any b); eauto | exact HQ].
  unfold bblk in *. rewrite E1, E2. exact HO.
Qed.

Lemma len_firstn_le {A} (l : list A) n : len (firstn n l) <= len l.
Proof. pose proof (len_firstn_skipn l n). pose proof (len_nonneg (skipn n l)). lia. Qed.

Lemma wp_lowest_dword_of ws m (Q : Z -> mem -> Prop) :
  2 <= len ws -> (forall d, Q d m) -> safe (lowest_dword_of w ws) m Q.
Proof. intros H HQ. unfold lowest_dword_of. apply safe_bind. apply safe_guard; [apply Z.leb_le; exact H|]. apply safe_ret. apply HQ. Qed.

Lemma wp_bitand_large b rhs F m Q : Own (bblk b :: F) m -> BufOK b -> RQ F Q -> safe (bitand_large w M b rhs) m Q.
Proof.
  intros HO HB HQ. unfold bitand_large. pose proof (len_nonneg rhs) as L1. apply safe_bind.
  destruct (Z.gtb_spec (len (bws b)) (len rhs)) as [Hgt|Hle].
  - unfold truncate. apply safe_bind. apply safe_guard; [apply Z.leb_le; lia|]. apply safe_ret.
    eapply (wp_fb_any b); [exact HO | exact HB | reflexivity | reflexivity | | exact HQ].
    cbn [setws bws bcap]. pose proof (len_nonneg (firstn (Z.to_nat (len rhs)) (bws b))). rewrite len_tow' by lia.
    pose proof (len_firstn_le (bws b) (Z.to_nat (len rhs))). destruct HB. lia.
  - apply safe_ret. eapply (wp_fb_any b); [exact HO | exact HB | reflexivity | reflexivity | | exact HQ].
    cbn [setws bws bcap]. pose proof (len_nonneg (bws b)). rewrite len_tow' by lia. destruct HB. lia.
Qed.

Theorem wp_and_mag a b F m Q :
  Own (tblks a ++ tblks b ++ F) m -> TargInv a -> TargInv b -> RQ F Q -> safe (and_mag w M a b) m Q.
Proof.
  intros HO Ha Hb HQ. unfold and_mag.
  destruct (small_of a) as [x|] eqn:Ea; destruct (small_of b) as [y|] eqn:Eb.
  - assert (tblks a = [] /\ tblks b = []) as [E1 E2] by (destruct a; try discriminate; destruct b; try discriminate; auto).
    rewrite E1, E2 in HO. cbn [app] in HO. apply safe_ret. apply HQ; [exact HO | apply ReprInv_from_dword].
  - assert (tblks a = []) as Et by (destruct a; try discriminate; reflexivity). rewrite Et in HO. cbn [app] in HO.
    pose proof (twords_len b Hb Eb). apply safe_bind. apply wp_lowest_dword_of; [lia|]. intros d.
    apply safe_bind. eapply wp_release; [exact HO|]. intros m1 HO1. apply safe_ret. apply HQ; [exact HO1 | apply ReprInv_from_dword].
  - assert (tblks b = []) as Et by (destruct b; try discriminate; reflexivity). rewrite Et in HO. cbn [app] in HO.
    pose proof (twords_len a Ha Ea). apply safe_bind. apply wp_lowest_dword_of; [lia|]. intros d.
    apply safe_bind. eapply wp_release; [exact HO|]. intros m1 HO1. apply safe_ret. apply HQ; [exact HO1 | apply ReprInv_from_dword].
  - destruct a as [x|b0|x|w0]; try discriminate; destruct b as [y|b1|y|w1]; try discriminate;
      cbn [tblks app TargInv] in *.
    + destruct (len (bws b0) <=? len (bws b1)).
      * apply safe_bind. eapply wp_bitand_large; [exact HO | tauto |]. intros r m1 HO1 HR.
        apply safe_bind. eapply wp_drop; [apply Own_mid; exact HO1|]. intros m2 HO2. apply safe_ret. apply HQ; auto.
      * apply safe_bind. eapply wp_bitand_large; [apply Own_swap; exact HO | tauto |]. intros r m1 HO1 HR.
        apply safe_bind. eapply wp_drop; [apply Own_mid; exact HO1|]. intros m2 HO2. apply safe_ret. apply HQ; auto.
    + eapply wp_bitand_large; [exact HO | tauto | exact HQ].
    + eapply wp_bitand_large; [exact HO | tauto | exact HQ].
    + destruct (len w0 <=? len w1).
      * apply safe_bind. eapply wp_bfrom; [exact HO|]. intros b0 m1 HO1 E1 HB1. eapply wp_bitand_large; eauto.
      * apply safe_bind. eapply wp_bfrom; [exact HO|]. intros b1 m1 HO1 E1 HB1. eapply wp_bitand_large; eauto.
Qed.

Lemma wp_bitop_large_dword f b dw F m Q :
  Own (bblk b :: F) m -> BufOK b -> 3 <= len (bws b) -> RQ F Q -> safe (bitop_large_dword w M f b dw) m Q.
Proof.
  intros HO HB H3 HQ. unfold bitop_large_dword.
  apply safe_bind. apply safe_guard; [apply Z.leb_le; lia|]. apply safe_bind. apply safe_guard; [apply Z.leb_le; lia|].
  eapply (wp_fb_any b); [exact HO | exact HB | reflexivity | reflexivity | | exact HQ].
  cbn [setws bws bcap]. rewrite len_tow' by lia. destruct HB; lia.
Qed.

Lemma wp_bitop_large f b rhs F m Q : Own (bblk b :: F) m -> BufOK b -> RQ F Q -> safe (bitop_large w M f b rhs) m Q.
Proof.
  intros HO HB HQ. unfold bitop_large. cbv zeta. pose proof (len_nonneg (bws b)) as L0. apply safe_bind.
  destruct (Z.gtb_spec (len rhs) (len (bws b))) as [Hgt|Hle].
  - apply safe_bind. eapply wp_ens; [exact HO | exact HB | lia |]. intros b' m' HO' E' HB' Hc.
    apply wp_push_slice; [rewrite E', len_skipn by lia; lia|].
    eapply (wp_fb_any b'); [exact HO' | exact HB' | reflexivity | reflexivity | | exact HQ].
    cbn [setws bws bcap]. rewrite len_tow'; rewrite len_app, E', len_skipn by lia; lia.
  - apply safe_ret. eapply (wp_fb_any b); [exact HO | exact HB | reflexivity | reflexivity | | exact HQ].
    cbn [setws bws bcap]. rewrite len_tow' by lia. destruct HB; lia.
Qed.

Theorem wp_orx_mag f a b F m Q :
  Own (tblks a ++ tblks b ++ F) m -> TargInv a -> TargInv b -> RQ F Q -> safe (orx_mag w M f a b) m Q.
Proof.
  intros HO Ha Hb HQ. unfold orx_mag.
  destruct (small_of a) as [x|] eqn:Ea; destruct (small_of b) as [y|] eqn:Eb.
  - assert (tblks a = [] /\ tblks b = []) as [E1 E2] by (destruct a; try discriminate; destruct b; try discriminate; auto).
    rewrite E1, E2 in HO. cbn [app] in HO. apply safe_ret. apply HQ; [exact HO | apply ReprInv_from_dword].
  - assert (tblks a = []) as Et by (destruct a; try discriminate; reflexivity). rewrite Et in HO. cbn [app] in HO.
    apply safe_bind. eapply wp_own_large; [exact HO | exact Hb | exact Eb |]. intros bb m1 HO1 HB1 E1.
    eapply wp_bitop_large_dword; eauto. rewrite E1. apply twords_len; auto.
  - assert (tblks b = []) as Et by (destruct b; try discriminate; reflexivity). rewrite Et in HO. cbn [app] in HO.
    apply safe_bind. eapply wp_own_large; [exact HO | exact Ha | exact Ea |]. intros ba m1 HO1 HB1 E1.
    eapply wp_bitop_large_dword; eauto. rewrite E1. apply twords_len; auto.
  - destruct a as [x|b0|x|w0]; try discriminate; destruct b as [y|b1|y|w1]; try discriminate;
      cbn [tblks app TargInv] in *.
    + destruct (len (bws b1) <=? len (bws b0)).
      * apply safe_bind. eapply wp_bitop_large; [exact HO | tauto |]. intros r m1 HO1 HR.
        apply safe_bind. eapply wp_drop; [apply Own_mid; exact HO1|]. intros m2 HO2. apply safe_ret. apply HQ; auto.
      * apply safe_bind. eapply wp_bitop_large; [apply Own_swap; exact HO | tauto |]. intros r m1 HO1 HR.
        apply safe_bind. eapply wp_drop; [apply Own_mid; exact HO1|]. intros m2 HO2. apply safe_ret. apply HQ; auto.
    + eapply wp_bitop_large; [exact HO | tauto | exact HQ].
    + eapply wp_bitop_large; [exact HO | tauto | exact HQ].
    + destruct (len w1 <=? len w0).
      * apply safe_bind. eapply wp_bfrom; [exact HO|]. intros b0 m1 HO1 E1 HB1. eapply wp_bitop_large; eauto.
      * apply safe_bind. eapply wp_bfrom; [exact HO|]. intros b1 m1 HO1 E1 HB1. eapply wp_bitop_large; eauto.
Qed.

(* ------------------------------------------------------------------ div_ops.rs *)
Lemma wp_div_rem_in_lhs lhs rhs F m (Q : buffer -> mem -> Prop) :
  Own (bblk lhs :: F) m -> BufOK lhs -> len (bws rhs) <= len (bws lhs) ->
  (forall l1 m', Own (bblk l1 :: F) m' -> BufOK l1 -> len (bws lhs) <= len (bws l1) -> Q l1 m') ->
  safe (div_rem_in_lhs w M lhs rhs) m Q.
Proof.
  intros HO HB Hn HQ. unfold div_rem_in_lhs. cbv zeta. pose proof (len_nonneg (bws rhs)) as L0.
  set (l0 := setws lhs _).
  assert (len (bws l0) = len (bws lhs)) as E0 by (unfold l0; cbn [setws bws]; rewrite len_app, !len_tow' by lia; lia).
  assert (BufOK l0) as HB0 by (eapply (BufOK_any lhs); [exact HB | reflexivity | rewrite E0; destruct HB; lia]).
  eapply wp_push_resizing; [exact M_big | exact HO | exact HB0 |]. intros b' m' HO' HB' E'.
  apply HQ; auto. destruct E' as [E'|E']; rewrite E'; [|rewrite len_app, len_cons; lnil]; lia.
Qed.

Lemma wp_div_large lhs rhs F m Q :
  Own (bblk lhs :: bblk rhs :: F) m -> BufOK lhs -> len (bws rhs) <= len (bws lhs) -> RQ F Q ->
  safe (div_large w M lhs rhs) m Q.
Proof.
  intros HO HB Hn HQ. unfold div_large. pose proof (len_nonneg (bws rhs)) as L0.
  apply safe_bind. eapply wp_div_rem_in_lhs; [exact HO | exact HB | exact Hn |]. intros l1 m1 HO1 HB1 H1.
  apply safe_bind. apply wp_erase_front; [lia|].
  apply safe_bind. eapply (wp_fb_any l1); [exact HO1 | exact HB1 | reflexivity | reflexivity | |].
  { cbn [setws bws]. pose proof (len_skipn_le (bws l1) (Z.to_nat (len (bws rhs)))). destruct HB1. lia. }
  intros r m2 HO2 HR. apply safe_bind. eapply wp_drop; [apply Own_mid; exact HO2|]. intros m3 HO3. apply safe_ret. apply HQ; auto.
Qed.

Lemma wp_rem_large lhs rhs F m Q :
  Own (bblk lhs :: bblk rhs :: F) m -> BufOK lhs -> BufOK rhs -> len (bws rhs) <= len (bws lhs) -> RQ F Q ->
  safe (rem_large w M lhs rhs) m Q.
Proof.
  intros HO HB HBr Hn HQ. unfold rem_large. pose proof (len_nonneg (bws rhs)) as L0.
  apply safe_bind. eapply wp_div_rem_in_lhs; [exact HO | exact HB | exact Hn |]. intros l1 m1 HO1 HB1 H1.
  apply safe_bind. apply safe_guard; [apply Z.leb_le; lia|].
  apply safe_bind. eapply (wp_fb_any rhs); [apply Own_swap; exact HO1 | exact HBr | reflexivity | reflexivity | |].
  { cbn [setws bws]. rewrite len_tow' by lia. destruct HBr. lia. }
  intros r m2 HO2 HR. apply safe_bind. eapply wp_drop; [apply Own_mid; exact HO2|]. intros m3 HO3. apply safe_ret. apply HQ; auto.
Qed.

Lemma wp_div_large_dword b dw F m Q : Own (bblk b :: F) m -> BufOK b -> OQ F Q -> safe (div_large_dword w M b dw) m Q.
Proof.
  intros HO HB HQ. unfold div_large_dword. destruct (dw =? 0).
  - eapply wp_thrown_drop; eauto.
  - eapply wp_done; [|exact HQ]. intros Q' HQ'. eapply (wp_fb_any b); [exact HO | exact HB | reflexivity | reflexivity | | exact HQ'].
    cbn [setws bws]. pose proof (len_nonneg (bws b)). rewrite len_tow' by lia. destruct HB; lia.
Qed.

Lemma wp_own_two a b F m (Q : buffer * buffer -> mem -> Prop) :
  Own (tblks a ++ tblks b ++ F) m -> TargInv a -> TargInv b -> small_of a = None -> small_of b = None ->
  (forall la lb m', Own (bblk la :: bblk lb :: F) m' -> BufOK la -> BufOK lb -> bws la = twords a -> bws lb = twords b -> Q (la, lb) m') ->
  safe (la <- own_large M a ;; lb <- own_large M b ;; ret (la, lb)) m Q.
Proof.
  intros HO Ha Hb Ea Eb HQ.
  apply safe_bind. eapply wp_own_large; [exact HO | exact Ha | exact Ea |]. intros la m1 HO1 HB1 E1.
  apply safe_bind. eapply wp_own_large; [apply Own_mid'; exact HO1 | exact Hb | exact Eb |]. intros lb m2 HO2 HB2 E2.
  apply safe_ret. apply HQ; auto. apply Own_swap. exact HO2.
Qed.

Lemma Done_zero_ok F m Q : Own F m -> OQ F Q -> Q (Done zero) m.
Proof. intros HO HQ. apply HQ. cbn. split; [exact HO | apply ReprInv_zero']. Qed.

Theorem wp_div_mag a b F m Q :
  Own (tblks a ++ tblks b ++ F) m -> TargInv a -> TargInv b -> OQ F Q -> safe (div_mag w M a b) m Q.
Proof.
  intros HO Ha Hb HQ. unfold div_mag.
  destruct (small_of a) as [x|] eqn:Ea; destruct (small_of b) as [y|] eqn:Eb.
  - assert (tblks a = [] /\ tblks b = []) as [E1 E2] by (destruct a; try discriminate; destruct b; try discriminate; auto).
    rewrite E1, E2 in HO. cbn [app] in HO.
    destruct (y =? 0); apply safe_ret; apply HQ; cbn [rblks from_dword app]; auto. split; [exact HO | apply ReprInv_from_dword].
  - assert (tblks a = []) as Et by (destruct a; try discriminate; reflexivity). rewrite Et in HO. cbn [app] in HO.
    apply safe_bind. eapply wp_release; [exact HO|]. intros m' HO'. apply safe_ret. eapply Done_zero_ok; eauto.
  - assert (tblks b = []) as Et by (destruct b; try discriminate; reflexivity). rewrite Et in HO. cbn [app] in HO.
    apply safe_bind. eapply wp_own_large; [exact HO | exact Ha | exact Ea |]. intros ba m1 HO1 HB1 E1.
    eapply wp_div_large_dword; eauto.
  - destruct (Z.leb_spec (len (twords b)) (len (twords a))) as [Hle|Hgt].
    + apply safe_bind. eapply wp_own_large; [exact HO | exact Ha | exact Ea |]. intros la m1 HO1 HB1 E1.
      apply safe_bind. eapply wp_own_large; [apply Own_mid'; exact HO1 | exact Hb | exact Eb |]. intros lb m2 HO2 HB2 E2.
      eapply wp_done; [|exact HQ]. intros Q' HQ'. eapply wp_div_large; [apply Own_swap; exact HO2 | exact HB1 | rewrite E1, E2; exact Hle | exact HQ'].
    + apply safe_bind. eapply wp_release; [exact HO|]. intros m1 HO1.
      apply safe_bind. eapply wp_release; [exact HO1|]. intros m2 HO2. apply safe_ret. eapply Done_zero_ok; eauto.
Qed.

Lemma wp_clone_from_slice b src F m (Q : buffer -> mem -> Prop) :
  Own (bblk b :: F) m -> BufOK b -> (forall b' m', Own (bblk b' :: F) m' -> BufOK b' -> Q b' m') ->
  safe (clone_from_slice M b src) m Q.
Proof.
  intros HO HB HQ. unfold clone_from_slice. destruct (Z.leb_spec (len src) (bcap b)).
  - apply safe_ret. apply HQ; [exact HO | apply BufOK_setws; auto].
  - apply safe_bind. eapply wp_drop; [exact HO|]. intros m1 HO1. eapply wp_bfrom; [exact HO1|]. intros b' m' H1 _ H3. apply HQ; auto.
Qed.

Theorem wp_rem_mag a b F m Q :
  Own (tblks a ++ tblks b ++ F) m -> TargInv a -> TargInv b -> OQ F Q -> safe (rem_mag w M a b) m Q.
Proof.
  intros HO Ha Hb HQ. unfold rem_mag.
  destruct (small_of a) as [x|] eqn:Ea; destruct (small_of b) as [y|] eqn:Eb.
  - assert (tblks a = [] /\ tblks b = []) as [E1 E2] by (destruct a; try discriminate; destruct b; try discriminate; auto).
    rewrite E1, E2 in HO. cbn [app] in HO.
    destruct (y =? 0); apply safe_ret; apply HQ; cbn [rblks from_dword app]; auto. split; [exact HO | apply ReprInv_from_dword].
  - assert (tblks a = []) as Et by (destruct a; try discriminate; reflexivity). rewrite Et in HO. cbn [app] in HO.
    apply safe_bind. eapply wp_release; [exact HO|]. intros m' HO'. apply safe_ret. apply HQ. cbn [rblks from_dword app].
    split; [exact HO' | apply ReprInv_from_dword].
  - assert (tblks b = []) as Et by (destruct b; try discriminate; reflexivity). rewrite Et in HO. cbn [app] in HO.
    apply safe_bind. eapply wp_release; [exact HO|]. intros m' HO'.
    destruct (y =? 0); apply safe_ret; apply HQ; cbn [rblks from_dword app]; auto. split; [exact HO' | apply ReprInv_from_dword].
  - destruct (Z.leb_spec (len (twords b)) (len (twords a))) as [Hle|Hgt].
    + apply safe_bind. eapply wp_own_large; [exact HO | exact Ha | exact Ea |]. intros la m1 HO1 HB1 E1.
      apply safe_bind. eapply wp_own_large; [apply Own_mid'; exact HO1 | exact Hb | exact Eb |]. intros lb m2 HO2 HB2 E2.
      eapply wp_done; [|exact HQ]. intros Q' HQ'.
      eapply wp_rem_large; [apply Own_swap; exact HO2 | exact HB1 | exact HB2 | rewrite E1, E2; exact Hle | exact HQ'].
    + destruct a as [x|b0|x|w0]; try discriminate; cbn [tblks app TargInv] in *.
      * apply safe_bind. eapply wp_fb; [exact HO | tauto |]. intros r m1 HO1 HR.
        apply safe_bind. eapply wp_release; [apply Own_swap_app'; exact HO1|]. intros m2 HO2. apply safe_ret. apply HQ. cbn. auto.
      * destruct b as [y|b1|y|w1]; try discriminate; cbn [tblks app TargInv] in *.
        -- apply safe_bind. eapply wp_clone_from_slice; [exact HO | tauto |]. intros b' m1 HO1 HB1.
           eapply wp_done; [|exact HQ]. intros Q' HQ'. eapply wp_fb; eauto.
        -- apply safe_bind. eapply wp_bfrom; [exact HO|]. intros b0 m1 HO1 E1 HB1.
           eapply wp_done; [|exact HQ]. intros Q' HQ'. eapply wp_fb; eauto.
Qed.

(* ------------------------------------------------------------------ Buffer -> Box<[Word]> *)
Definition box_blks (bx : option Z * list Z) : list (Z * Z) :=
  match fst bx with Some p => [(p, len (snd bx))] | None => [] end.

(** into_boxed_slice hands the allocator the layout the block was allocated with, and the box owns a block
    of exactly len words *)
Theorem wp_into_boxed_slice b F m (Q : option Z * list Z -> mem -> Prop) :
  Own (bblk b :: F) m ->
  (forall bx m', Own (box_blks bx ++ F) m' -> snd bx = bws b -> Q bx m') ->
  safe (into_boxed_slice b) m Q.
Proof.
  intros HO HQ. unfold into_boxed_slice. destruct (Z.eqb_spec (len (bws b)) 0) as [E|E].
  - apply safe_bind. eapply wp_drop; [exact HO|]. intros m1 HO1. apply safe_ret. apply HQ; [exact HO1|].
    cbn [snd]. destruct (bws b); [reflexivity|]. rewrite len_cons in E. pose proof (len_nonneg l). lia.
  - apply safe_bind. eapply wp_deallocate_raw; [exact HO|]. intros m1 HO1.
    apply safe_bind. eapply wp_raw_alloc; [exact HO1|]. intros p m2 HO2. apply safe_ret. apply HQ; [exact HO2 | reflexivity].
Qed.

(** dropping the box frees its block with the size it has *)
Theorem wp_drop_box bx F m (Q : unit -> mem -> Prop) :
  Own (box_blks bx ++ F) m -> (forall m', Own F m' -> Q tt m') -> safe (drop_box bx) m Q.
Proof.
  intros HO HQ. unfold drop_box, box_blks in *. destruct (fst bx) as [p|]; cbn [app] in HO.
  - eapply wp_deallocate_raw; [exact HO | exact HQ].
  - apply safe_ret. apply HQ. exact HO.
Qed.

Theorem wp_divisor_value x F m Q :
  Own (tblks x ++ F) m -> TargInv x -> is_ref x = false -> OQ F Q -> safe (divisor_value w M x) m Q.
Proof.
  intros HO Hx Hr HQ. destruct x as [dw|bf|dw|ws]; cbn [divisor_value tblks app is_ref] in *; try discriminate.
  - destruct (dw =? 0); apply safe_ret; apply HQ; cbn [rblks from_dword app]; auto. split; [exact HO | apply ReprInv_from_dword].
  - apply safe_bind. eapply wp_into_boxed_slice; [exact HO|]. intros bx m1 HO1 E1.
    apply safe_bind. eapply wp_bfrom; [exact HO1|]. intros nb m2 HO2 E2 HB2.
    apply safe_bind. eapply wp_fb; [exact HO2 | exact HB2 |]. intros r m3 HO3 HR.
    apply safe_bind. eapply wp_drop_box; [apply Own_swap_app'; exact HO3|]. intros m4 HO4.
    apply safe_ret. apply HQ. cbn. auto.
  - destruct (dw =? 0); apply safe_ret; apply HQ; cbn [rblks from_dword app]; auto. split; [exact HO | apply ReprInv_from_dword].
Qed.

(* ------------------------------------------------------------------ the sign layer (ubig / ibig operators) *)
Lemma wp_signed_add a b s F m Q :
  Own (tblks a ++ tblks b ++ F) m -> TargInv a -> TargInv b -> OQ F Q ->
  safe (r <- add_mag w M a b ;; ret (Done (with_sign r s))) m Q.
Proof.
  intros HO Ha Hb HQ. apply safe_bind. eapply wp_add_mag; eauto. intros r m1 HO1 HR. apply safe_ret. apply HQ. cbn.
  rewrite rblks_with_sign. split; [exact HO1 | apply ReprInv_with_sign; exact HR].
Qed.

Lemma Own_swap_app (A B F : list (Z * Z)) m : Own (A ++ B ++ F) m -> Own (B ++ A ++ F) m.
Proof. apply Own_perm. apply Permutation_app_swap_app. Qed.

Theorem wp_run_bin f s0 a s1 b F m Q :
  Own (tblks a ++ tblks b ++ F) m -> TargInv a -> TargInv b -> OQ F Q -> safe (run_bin w M f s0 a s1 b) m Q.
Proof.
  intros HO Ha Hb HQ. destruct f; cbn [run_bin].
  - eapply wp_done; [|exact HQ]. intros Q' HQ'. eapply wp_add_mag; eauto.
  - eapply wp_sub_mag; eauto.
  - eapply wp_done; [|exact HQ]. intros Q' HQ'. eapply wp_mul_mag; eauto.
  - destruct s0, s1.
    + eapply wp_done; [|exact HQ]. intros Q' HQ'. eapply wp_add_mag; eauto.
    + eapply wp_sub_signed; eauto.
    + eapply wp_sub_signed; eauto. apply Own_swap_app. exact HO.
    + eapply wp_signed_add; eauto.
  - destruct s0, s1.
    + eapply wp_sub_signed; eauto.
    + eapply wp_done; [|exact HQ]. intros Q' HQ'. eapply wp_add_mag; eauto.
    + eapply wp_signed_add; eauto.
    + eapply wp_sub_signed; eauto. apply Own_swap_app. exact HO.
  - apply safe_bind. eapply wp_mul_mag; eauto. intros r m1 HO1 HR. apply safe_ret. apply HQ. cbn.
    rewrite rblks_with_sign. split; [exact HO1 | apply ReprInv_with_sign; exact HR].  - eapply wp_done; [|exact HQ]. intros Q' HQ'. eapply wp_and_mag; eauto.
  - eapply wp_done; [|exact HQ]. intros Q' HQ'. eapply wp_orx_mag; eauto.
  - eapply wp_done; [|exact HQ]. intros Q' HQ'. eapply wp_orx_mag; eauto.
  - eapply wp_div_mag; eauto.
  - eapply wp_rem_mag; eauto.
  - apply safe_bind. eapply wp_div_mag; eauto. intros o m1 Ho. apply safe_ret. revert o m1 Ho.
    apply (OQ_omap (fun r => with_sign r (sign_mul s0 s1))); auto; [intros r Hr; apply ReprInv_with_sign; exact Hr | intros r; apply rblks_with_sign].
  - apply safe_bind. eapply wp_rem_mag; eauto. intros o m1 Ho. apply safe_ret. revert o m1 Ho.
    apply (OQ_omap (fun r => with_sign r s0)); auto; [intros r Hr; apply ReprInv_with_sign; exact Hr | intros r; apply rblks_with_sign].
Qed.

End Arith.
