(** C07: the big-endian byte functions of convert.rs as their OWN models (IoBytesBEModel.v: to_be_bytes,
    to_signed_be_bytes, words_to_be_bytes_skip, from_be_bytes, from_signed_be_bytes: the top word's
    bytes first with the skipped bytes cut from the FRONT, the remaining words in reverse order,
    the sign byte inserted at index 0, padding in front), proved to be the reversed little-endian
    models - hence equal to the specification and mutually inverse on all integers. *)
From Dashu Require Import Base.Prelude Base.Words Int.IoSpec Int.IoModel Int.IoBytes Int.IoBytesAsIs Int.IoBytesBEModel.
Open Scope Z_scope.


(* ------------------------------------------------------------------------------------------ *)
Lemma rev_firstn_skip {A} (L : list A) (k : Z) :
  rev (firstn (Z.to_nat (len L - k)) L) = skipn (Z.to_nat k) (rev L).
Proof.
  unfold len. destruct (Z.ltb_spec k 0).
  - replace (Z.to_nat k) with O by lia. cbn [skipn]. rewrite firstn_all2 by lia. reflexivity.
  - rewrite skipn_rev. f_equal. f_equal. lia.
Qed.

Lemma rev_flat_map {A B} (f : A -> list B) l : rev (flat_map f l) = flat_map (fun x => rev (f x)) (rev l).
Proof.
  induction l as [|x t IH]; [reflexivity|]. cbn [flat_map rev]. rewrite rev_app_distr, IH, flat_map_app. cbn [flat_map].
  rewrite app_nil_r. reflexivity.
Qed.

Lemma rev_repeat {A} (x : A) n : rev (repeat x n) = repeat x n.
Proof.
  induction n as [|n IH]; [reflexivity|]. cbn [repeat rev]. rewrite IH.
  clear IH. induction n as [|n IH]; [reflexivity|]. cbn [repeat app]. rewrite IH. reflexivity.
Qed.

Lemma le_bytes_n_length n : forall v, length (le_bytes_n n v) = n.
Proof. induction n as [|n IH]; intros v; cbn [le_bytes_n length]; [reflexivity | rewrite IH; reflexivity]. Qed.

Section BEProofs.
Variable w : Z.
Hypothesis w_nonneg : 0 <= w.

Lemma WBy_nonneg : 0 <= WBy w. Proof. unfold WBy. apply Z.div_pos; lia. Qed.

Theorem words_to_be_bytes_rev flip ws skip :
  words_to_be_bytes w flip ws skip = rev (words_to_le_bytes w flip ws skip).
Proof.
  pose proof WBy_nonneg as HW. unfold words_to_be_bytes, words_to_le_bytes, be_bytes_n.
  rewrite rev_app_distr. f_equal.
  - set (L := le_bytes_n (Z.to_nat (WBy w)) (if flip then Bw w - 1 - last ws 0 else last ws 0)).
    symmetry. replace (Z.to_nat (WBy w - skip)) with (Z.to_nat (len L - skip)); [apply rev_firstn_skip|].
    unfold L, len. rewrite le_bytes_n_length. f_equal. lia.
  - rewrite rev_flat_map. reflexivity.
Qed.

Lemma small_rev m (x : Z) : rev (firstn (Z.to_nat (2 * WBy w - (2 * w - blen m) / 8)) (le_bytes_n (Z.to_nat (2 * WBy w)) x))
  = skipn (Z.to_nat ((2 * w - blen m) / 8)) (be_bytes_n (Z.to_nat (2 * WBy w)) x).
Proof.
  pose proof WBy_nonneg as HW. unfold be_bytes_n.
  set (L := le_bytes_n (Z.to_nat (2 * WBy w)) x).
  replace (Z.to_nat (2 * WBy w - (2 * w - blen m) / 8)) with (Z.to_nat (len L - (2 * w - blen m) / 8)); [apply rev_firstn_skip|].
  unfold L, len. rewrite le_bytes_n_length. f_equal. lia.
Qed.

Theorem to_be_bytes_asis_rev m : to_be_bytes_asis w m = rev (to_le_bytes_asis w m).
Proof.
  unfold to_be_bytes_asis, to_le_bytes_asis. destruct (m <? Bw w * Bw w).
  - symmetry. apply small_rev.
  - apply words_to_be_bytes_rev.
Qed.

Theorem to_signed_be_bytes_asis_rev v : to_signed_be_bytes_asis w v = rev (to_signed_le_bytes_asis w v).
Proof.
  unfold to_signed_be_bytes_asis, to_signed_le_bytes_asis, to_signed_le_bytes_gen.
  destruct (Z.abs v =? 0); [reflexivity|]. cbv zeta.
  destruct (v <? 0).
  - destruct (Z.abs v <? Bw w * Bw w).
    + rewrite <- small_rev. destruct (_ mod 8 =? 0); [rewrite rev_app_distr; reflexivity | reflexivity].
    + rewrite words_to_be_bytes_rev. destruct (_ mod 8 =? 0); [rewrite rev_app_distr; reflexivity | reflexivity].
  - rewrite to_be_bytes_asis_rev. destruct (_ mod 8 =? 0); [rewrite rev_app_distr; reflexivity | reflexivity].
Qed.

Lemma pad_front_rev n pad bs : pad_front n pad bs = rev (pad_bytes n pad (rev bs)).
Proof. unfold pad_front, pad_bytes. rewrite rev_app_distr, rev_involutive, rev_repeat, rev_length. reflexivity. Qed.

Theorem from_be_bytes_asis_rev bs : from_be_bytes_asis w bs = from_le_bytes_asis w (rev bs).
Proof.
  unfold from_be_bytes_asis, from_le_bytes_asis, be_value.
  replace (len (rev bs)) with (len bs) by (unfold len; rewrite rev_length; reflexivity).
  rewrite !pad_front_rev, !rev_involutive. reflexivity.
Qed.

Theorem from_signed_be_bytes_asis_rev bs : from_signed_be_bytes_asis w bs = from_signed_le_bytes_asis w (rev bs).
Proof.
  destruct bs as [|b0 t]; [reflexivity|].
  unfold from_signed_be_bytes_asis, from_signed_le_bytes_asis.
  assert (Hl : last (rev (b0 :: t)) 0 = b0) by (cbn [rev]; apply last_last).
  remember (rev (b0 :: t)) as rb eqn:Er. destruct rb as [|c u].
  { apply (f_equal (@length Z)) in Er. rewrite rev_length in Er. discriminate. }
  rewrite Hl. rewrite Er. destruct (b0 <? 128); [apply from_be_bytes_asis_rev|].
  unfold be_value. replace (len (rev (b0 :: t))) with (len (b0 :: t)) by (unfold len; rewrite rev_length; reflexivity).
  rewrite !pad_front_rev, !rev_involutive. reflexivity.
Qed.
End BEProofs.

(** with the little-endian theorems: specification and round trip of the big-endian functions *)
Theorem to_be_bytes_asis_correct w m : 0 < w -> w mod 8 = 0 -> 0 <= m -> to_be_bytes_asis w m = rev (to_le_bytes_spec m).
Proof. intros Hw H8 Hm. rewrite to_be_bytes_asis_rev by lia. f_equal. apply to_le_bytes_asis_correct; assumption. Qed.

Theorem to_signed_be_bytes_asis_correct w v : 0 < w -> w mod 8 = 0 ->
  to_signed_be_bytes_asis w v = rev (to_signed_le_bytes_spec v).
Proof. intros Hw H8. rewrite to_signed_be_bytes_asis_rev by lia. f_equal. apply to_signed_le_bytes_asis_correct; assumption. Qed.

Theorem be_bytes_roundtrip_asis w v : 0 < w -> w mod 8 = 0 ->
  from_signed_be_bytes_asis w (to_signed_be_bytes_asis w v) = v.
Proof.
  intros Hw H8. rewrite from_signed_be_bytes_asis_rev, to_signed_be_bytes_asis_rev, rev_involutive by lia.
  apply bytes_roundtrip_asis; assumption.
Qed.

Theorem be_ubytes_roundtrip_asis w m : 0 < w -> w mod 8 = 0 -> 0 <= m ->
  from_be_bytes_asis w (to_be_bytes_asis w m) = m.
Proof.
  intros Hw H8 Hm. rewrite from_be_bytes_asis_rev, to_be_bytes_asis_rev, rev_involutive by lia.
  apply ubytes_roundtrip_asis; assumption.
Qed.

Example to_signed_be_bytes_ex : to_signed_be_bytes_asis 64 (- 2 ^ 128) = 255 :: repeat 0 16.
Proof. vm_compute. reflexivity. Qed.
Example from_signed_be_bytes_ex : from_signed_be_bytes_asis 64 (255 :: repeat 0 16) = - 2 ^ 128.
Proof. vm_compute. reflexivity. Qed.

Theorem from_be_bytes_asis_correct w bs : 0 <= w -> from_be_bytes_asis w bs = be_value bs.
Proof. intros Hw. rewrite from_be_bytes_asis_rev by exact Hw. apply from_le_bytes_asis_correct. Qed.

Theorem from_signed_be_bytes_asis_correct w bs : 0 < w -> w mod 8 = 0 -> bytes_ok bs ->
  from_signed_be_bytes_asis w bs = be_signed_value bs.
Proof.
  intros Hw H8 Hok. rewrite from_signed_be_bytes_asis_rev by lia. unfold be_signed_value.
  apply from_signed_le_bytes_asis_correct; [exact Hw | exact H8|]. unfold bytes_ok in *. apply Forall_rev. exact Hok.
Qed.
