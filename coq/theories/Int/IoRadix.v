(** C07: radix.rs / math.rs max_exp_in_word - the radix table entry (digits_per_word, range_per_word)
    computed by "estimate from the bit length, then multiply while it fits" is, for EVERY word size
    and every radix below the word base, the largest power of the radix that fits a word; the fuel of
    the model always suffices.  With it the printers / parsers theorems lose their side conditions. *)
From Dashu Require Import Base.Prelude Base.Words Int.IoSpec Int.IoModel Int.IoDigits Int.IoPrint Int.IoParse.
From DashuGen Require Import Params.
Open Scope Z_scope.

Section Radix.
Variables w r : Z.
Hypothesis w_pos : 0 < w.
Hypothesis w_even : w mod 2 = 0.
Hypothesis r_ge_2 : 2 <= r.
Hypothesis r_lt_B : r < Bw w.

Lemma pow2_le_pow e : 0 <= e -> 2 ^ e <= r ^ e.
Proof. intros. apply Z.pow_le_mono_l. lia. Qed.

Lemma max_exp_loop_ok f : forall exp pow, 0 < exp -> pow = r ^ exp -> pow < Bw w -> w <= exp + Z.of_nat f ->
  exists e p, max_exp_loop w f r exp pow = Ok (e, p) /\ 0 < e /\ p = r ^ e /\ p < Bw w /\ Bw w <= p * r.
Proof.
  induction f as [|f IH]; intros exp pow He Hp Hlt Hf.
  - exfalso. pose proof (pow2_le_pow exp ltac:(lia)). unfold Bw in Hlt.
    assert (2 ^ w <= 2 ^ exp) by (apply Z.pow_le_mono_r; lia). lia.
  - cbn [max_exp_loop]. destruct (Z.ltb_spec (pow * r) (Bw w)) as [Hfit|Hno].
    + apply IH; [lia | | exact Hfit | lia].
      rewrite Z.pow_add_r, Z.pow_1_r by lia. rewrite Hp. reflexivity.
    + exists exp, pow. repeat split; auto.
Qed.

Lemma blen_spec x : 0 < x -> 2 ^ (blen x - 1) <= x < 2 ^ blen x.
Proof.
  intros Hx. unfold blen. destruct (Z.leb_spec x 0); [lia|].
  pose proof (Z.log2_spec x Hx). replace (Z.log2 x + 1 - 1) with (Z.log2 x) by lia.
  replace (Z.log2 x + 1) with (Z.succ (Z.log2 x)) by lia. lia.
Qed.

Theorem radix_info_ok : exists dpw R, radix_info w r = (dpw, R) /\ 0 < dpw /\ R = r ^ dpw /\ R < Bw w /\ Bw w <= R * r.
Proof.
  unfold radix_info, max_exp_in_word.
  assert (Hw2 : w = 2 * (w / 2)) by (pose proof (Z.div_mod w 2 ltac:(lia)); lia).
  assert (Hh : 0 < w / 2) by lia.
  destruct (Z.gtb_spec r (Z.ones (w / 2))) as [Hbig|Hsmall].
  - exists 1, r. rewrite Z.pow_1_r.
    split; [reflexivity|]. split; [lia|]. split; [reflexivity|]. split; [exact r_lt_B|].
    rewrite Z.ones_equiv in Hbig. unfold Bw. replace w with (w / 2 + w / 2) at 1 by lia.
    rewrite Z.pow_add_r by lia. assert (0 < 2 ^ (w / 2)) by (apply Z.pow_pos_nonneg; lia). nia.
  - rewrite Z.ones_equiv in Hsmall.
    pose proof (blen_spec r ltac:(lia)) as [Hlo Hhi].
    assert (Hb1 : 2 <= blen r).
    { unfold blen. destruct (Z.leb_spec r 0); [lia|].
      assert (1 <= Z.log2 r) by (apply Z.log2_le_pow2; cbn; lia). lia. }
    assert (Hb2 : blen r <= w / 2).
    { destruct (Z.le_gt_cases (blen r) (w / 2)) as [H|H]; [exact H|exfalso].
      assert (2 ^ (w / 2) <= 2 ^ (blen r - 1)) by (apply Z.pow_le_mono_r; lia). lia. }
    set (exp := w / blen r).
    assert (Hexp : 0 < exp) by (apply Z.div_str_pos; lia).
    assert (Hfit : r ^ exp < Bw w).
    { unfold Bw. apply Z.lt_le_trans with ((2 ^ blen r) ^ exp).
      - apply Z.pow_lt_mono_l; lia.
      - rewrite <- Z.pow_mul_r by lia. apply Z.pow_le_mono_r; [lia|].
        unfold exp. apply Z.mul_div_le. lia. }
    destruct (max_exp_loop_ok (Z.to_nat w) exp (r ^ exp) Hexp eq_refl Hfit ltac:(lia)) as (e & p & E & H).
    rewrite E. exists e, p. split; [reflexivity | exact H].
Qed.

Lemma R_le_mul dpw R : 0 < dpw -> R = r ^ dpw -> R * r <= R * R.
Proof.
  intros Hd HR. assert (r <= R).
  { rewrite HR. replace r with (r ^ 1) at 1 by apply Z.pow_1_r. apply Z.pow_le_mono_r; lia. }
  assert (0 < R) by (rewrite HR; apply Z.pow_pos_nonneg; lia). nia.
Qed.

(** fmt/non_power_two.rs, every path, every magnitude, no side condition on the table *)
Theorem digits_np2_asis_total x : 0 <= x -> digits_np2_asis w r x = digits_spec r x.
Proof.
  destruct radix_info_ok as (dpw & R & Hinfo & Hd & HR & Hlt & Hle).
  apply (digits_np2_asis_correct w r dpw R r_ge_2 w_pos Hinfo Hd HR Hlt).
  pose proof (R_le_mul dpw R Hd HR). lia.
Qed.

(** parse/non_power_two.rs behind parse/mod.rs, texts of any length *)
Theorem body_asis_np2_total s : is_pow2 r = false -> body_asis w r s = body_spec r s.
Proof.
  destruct radix_info_ok as (dpw & R & Hinfo & Hd & HR & _).
  apply (body_asis_np2_correct w r dpw R r_ge_2 Hinfo Hd HR).
Qed.

End Radix.

(** non-vacuity: the table entries of the three word sizes the library supports *)
Example radix_info_64_10 : radix_info 64 10 = (19, 10 ^ 19). Proof. vm_compute. reflexivity. Qed.
Example radix_info_32_10 : radix_info 32 10 = (9, 10 ^ 9). Proof. vm_compute. reflexivity. Qed.
Example radix_info_16_36 : radix_info 16 36 = (3, 36 ^ 3). Proof. vm_compute. reflexivity. Qed.
Example radix_info_64_big : radix_info 64 (2 ^ 32 + 1) = (1, 2 ^ 32 + 1). Proof. vm_compute. reflexivity. Qed.
